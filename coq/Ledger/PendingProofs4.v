(* Ledger/PendingProofs4.v — C09, what PendingProofs3.v left open:
     A. "M spends a wallet coin" at the level the property speaks: a mined transaction that spends the
        outpoint of a credit of the store gets a record with a recognised input for that outpoint; the
        conflict clause without records or recognised inputs in its statement.
     B. Descendants in the full sense ([desc], through any depth): none of them can be in the block that
        conflicts their ancestor (the node's chain would double-spend), so all of them vanish.
     C. The reorganisation as one statement about the final state.
   No model definition is changed. *)
From Coq Require Import List ZArith NArith Bool Lia.
Import ListNotations.
Open Scope Z_scope.
Require Import MW.Ledger.Model MW.Ledger.Spec MW.Ledger.Run MW.Ledger.WF MW.Ledger.Pending.
Require Import MW.Ledger.Proofs MW.Ledger.Proofs2 MW.Ledger.PendingProofs MW.Ledger.PendingProofs2 MW.Ledger.PendingProofs3.

(* ================================================================ A. the mined transaction spends a coin of the store *)

Lemma with_prev_res_wallet :
  forall own i ph pv cont pt l, with_prev_res own i ph pv cont pt = Ok l -> wallet_out own pt pv ->
    exists l' w, cont = Ok l' /\ l = {| ri_index := i; ri_prev := (ph, pv); ri_wallet := w |} :: l'.
Proof.
  intros own i ph pv cont pt l H [out [Hn [Hc Ho]]]. unfold with_prev_res in H. rewrite Hn in H.
  destruct (own (o_sh out)) as [w|]; [|exfalso; apply Ho; reflexivity].
  destruct (o_class out); try (exfalso; apply Hc; reflexivity);
    (destruct cont as [l'|e]; [|discriminate]; inversion H; subst l; exists l', w; split; reflexivity).
Qed.

(* filterTx, mined: an input whose previous transaction has a credit in the view, and whose previous output
   is a wallet output whichever way the previous transaction is found, is recognised *)
Lemma filter_ins_recognises :
  forall own view inblk lk ins i l ph pv,
    filter_ins own view inblk lk ins i = Ok l -> In (ph, pv) ins ->
    exist_credit_from_tx view ph = true ->
    (forall pt, find_tx inblk ph = Some pt -> wallet_out own pt pv) ->
    (forall pt, lk ph = Some pt -> wallet_out own pt pv) ->
    exists ri, In ri l /\ ri_prev ri = (ph, pv).
Proof.
  intros own view inblk lk ins. induction ins as [|[qh qv] rest IH]; intros i l ph pv H Hin Hex Hw1 Hw2; [destruct Hin|].
  rewrite filter_ins_cons in H.
  assert (Hrest : forall l', filter_ins own view inblk lk rest (i + 1)%N = Ok l' -> (forall ri, In ri l' -> In ri l) ->
            In (ph, pv) rest -> exists ri, In ri l /\ ri_prev ri = (ph, pv)).
  { intros l' Hl' Hsub Hr. destruct (IH _ _ _ _ Hl' Hr Hex Hw1 Hw2) as [ri [A B]]. exists ri. split; [apply Hsub; exact A|exact B]. }
  destruct Hin as [E|Hin].
  - inversion E; subst qh qv.
    destruct (find_tx inblk ph) as [bro|] eqn:Ef.
    + destruct (with_prev_res_wallet _ _ _ _ _ _ _ H (Hw1 bro eq_refl)) as [l' [w [_ ->]]].
      eexists. split; [left; reflexivity|reflexivity].
    + rewrite Hex in H. destruct (lk ph) as [pt|] eqn:El; [|discriminate].
      destruct (with_prev_res_wallet _ _ _ _ _ _ _ H (Hw2 pt eq_refl)) as [l' [w [_ ->]]].
      eexists. split; [left; reflexivity|reflexivity].
  - assert (Hwp : forall pt, with_prev_res own i qh qv (filter_ins own view inblk lk rest (i + 1)%N) pt = Ok l ->
              exists ri, In ri l /\ ri_prev ri = (ph, pv)).
    { intros pt Hp. destruct (with_prev_res_ok _ _ _ _ _ _ _ Hp) as [l' [Hl' [->|[w [-> _]]]]].
      - exact (Hrest l' Hl' (fun ri Hri => Hri) Hin).
      - apply (Hrest l' Hl'); [intros ri Hri; right; exact Hri|exact Hin]. }
    destruct (find_tx inblk qh); [exact (Hwp _ H)|]. destruct (exist_credit_from_tx view qh).
    + destruct (lk qh); [exact (Hwp _ H)|discriminate].
    + exact (Hrest l H (fun ri Hri => Hri) Hin).
Qed.

(* filterBlock: a non-coinbase transaction M of the block with such an input gets a record, and the record
   has a recognised input for it *)
Lemma filter_block_txs_recognises :
  forall own view lk txs seen recs M ph pv,
    filter_block_txs own view lk seen txs = Ok recs ->
    In M txs -> t_cb M = false -> In (ph, pv) (t_ins M) ->
    exist_credit_from_tx view ph = true ->
    (forall pt, In pt (seen ++ txs) -> t_id pt = ph -> wallet_out own pt pv) ->
    (forall pt, lk ph = Some pt -> wallet_out own pt pv) ->
    exists r ri, In r recs /\ rr_tx r = M /\ In ri (rr_ins r) /\ ri_prev ri = (ph, pv).
Proof.
  intros own view lk txs. induction txs as [|t txs IH]; intros seen recs M ph pv H HM Hcb Hin Hex Hw1 Hw2; [destruct HM|].
  cbn [filter_block_txs] in H.
  destruct (filter_tx own view (seen ++ [t]) lk t) as [ot|e] eqn:Et; [|discriminate].
  destruct (filter_block_txs own view lk (seen ++ [t]) txs) as [l|e] eqn:El; [|discriminate].
  inversion H; subst recs.
  destruct HM as [->|HM].
  - unfold filter_tx in Et. rewrite Hcb in Et.
    destruct (filter_ins own view (seen ++ [M]) lk (t_ins M) 0%N) as [ins|e] eqn:Ei; [|discriminate].
    destruct (filter_ins_recognises _ _ _ _ _ _ _ _ _ Ei Hin Hex) as [ri [Hri Hp]]; [|exact Hw2|].
    { intros pt Hf. apply find_tx_some in Hf. destruct Hf as [A B]. apply Hw1; [|exact B].
      apply in_app_or in A. apply in_or_app. destruct A as [A|[<-|[]]]; [left; exact A|right; left; reflexivity]. }
    destruct ins as [|ri0 ins]; [destruct Hri|].
    assert (Eot : ot = Some {| rr_tx := M; rr_ins := ri0 :: ins; rr_outs := filter_outs own (t_outs M) 0%N |}).
    { destruct (filter_outs own (t_outs M) 0%N); inversion Et; reflexivity. }
    subst ot. eexists. exists ri. split; [left; reflexivity|]. cbn [rr_tx rr_ins]. split; [reflexivity|split; [exact Hri|exact Hp]].
  - destruct (IH (seen ++ [t]) l M ph pv El HM Hcb Hin Hex) as [r [ri [A B]]]; [|exact Hw2|].
    { intros pt H1 H2. apply Hw1; [|exact H2]. rewrite <- app_assoc in H1. exact H1. }
    exists r, ri. split; [|exact B]. destruct ot; [right; exact A|exact A].
Qed.

(* the universe of a history extended by the announced block *)
Lemma seen_process_universe :
  forall g h b,
    incl (b_txs g ++ seen_txs h) (b_txs g ++ seen_txs (h ++ [PvProcess b])) /\
    (forall t, In t (b_txs b) -> In t (b_txs g ++ seen_txs (h ++ [PvProcess b]))).
Proof.
  intros g h b. split.
  - rewrite seen_txs_app, app_assoc. apply incl_appl. apply incl_refl.
  - intros t Ht. rewrite seen_txs_app. apply in_or_app. right. apply in_or_app. right.
    cbn [seen_txs flat_map]. rewrite app_nil_r. exact Ht.
Qed.

(* The bridge.  In every state a well-formed history reaches: when filterBlock of an announced block b
   succeeds, every non-coinbase transaction M of b that has among its inputs the outpoint of a credit c of the
   store gets a record r, and r has a recognised input for that outpoint.  (Spent or unspent: when c is spent
   already, AddRelevantTx fails afterwards with ErrCreditNotFound.) *)
Theorem spend_of_credit_recognised :
  forall p a3fix g h b, wf_phistory g h -> powners_before_seen g h -> seen_ids_agree g (h ++ [PvProcess b]) ->
    let q := prun p a3fix g h in
    let s := h_store (q_h q) in
    let own := own_of (q_own q) in
    forall recs,
      filter_block_txs own (credits (ps_w s)) (lookup_pending (q_node q) (ps_unmined s)) [] (b_txs b) = Ok recs ->
      forall M c, In M (b_txs b) -> t_cb M = false -> In c (credits (ps_w s)) -> In (credit_op c) (t_ins M) ->
        exists r ri, In r recs /\ rr_tx r = M /\ In ri (rr_ins r) /\ ri_prev ri = credit_op c.
Proof.
  intros p a3fix g h b Hwf Hown Hids q s own recs Hrecs M c HM Hcb Hc Hin.
  assert (Hwf' : wf_phistory g (h ++ [])) by (rewrite app_nil_r; exact Hwf).
  destruct (history_store_inv p a3fix g h [] Hwf') as (ch & _ & _ & Hinc & (Hw & _ & _)). rewrite app_nil_r in Hinc.
  fold q in Hw. fold s in Hw. fold own in Hw.
  pose proof Hc as Hc'. rewrite Hw in Hc'.
  destruct (credit_of_chain_wallet_out _ _ _ _ Hc') as (b0 & P & Hb0 & HP & Hid & Hwo).
  destruct (prun_qinv p a3fix g h Hown) as [Hn Hs]. fold q in Hn, Hs. fold s in Hs. fold own in Hs.
  destruct (seen_process_universe g h b) as [Hinc' Hb].
  set (S' := b_txs g ++ seen_txs (h ++ [PvProcess b])) in *.
  assert (HPS : In P S').
  { apply Hinc'. apply Hinc in Hb0. destruct Hb0 as [<-|Hb0]; apply in_or_app; [left; exact HP|right; eapply pblocks_seen; eauto]. }
  assert (Hn' : node_in S' (q_node q)) by (intros b1 t1 Hb1 Ht1; apply Hinc'; exact (Hn b1 t1 Hb1 Ht1)).
  assert (Hs' : sinv S' own s) by (eapply sinv_mono; [exact Hinc'|exact Hs]).
  assert (Hsame : forall pt, In pt S' -> t_id pt = c_tx c -> wallet_out own pt (c_vout c)).
  { intros pt Hpt Hptid. rewrite (Hids pt P Hpt HPS) by congruence. exact Hwo. }
  apply (filter_block_txs_recognises own (credits (ps_w s)) (lookup_pending (q_node q) (ps_unmined s)) (b_txs b) [] recs M (c_tx c) (c_vout c) Hrecs HM Hcb Hin).
  - unfold exist_credit_from_tx. apply existsb_exists. exists c. split; [exact Hc|apply N.eqb_refl].
  - intros pt Hpt Hptid. cbn [app] in Hpt. exact (Hsame pt (Hb pt Hpt) Hptid).
  - intros pt Hlk. destruct (lookup_pending_in S' own (q_node q) s (c_tx c) pt Hn' Hs' Hlk) as [A B]. exact (Hsame pt B A).
Qed.

Lemma rec_ids_in_block :
  forall own view lk txs recs, filter_block_txs own view lk [] txs = Ok recs ->
    forall k, In k (rec_ids recs) -> In k (map t_id txs).
Proof.
  intros own view lk txs recs H k Hk. unfold rec_ids in Hk. apply in_map_iff in Hk. destruct Hk as [r [<- Hr]].
  apply in_map. eapply filter_block_txs_in; eauto.
Qed.

(* The conflict clause at the level the property speaks.  In every state s a well-formed history reaches: when
   processConnectedBlock of a block b extending the wallet's tip succeeds, and a non-coinbase transaction M of b
   spends the outpoint of a credit c of the store which the readable pending transaction X spends too, X not
   being a transaction of b: X is no longer pending, nor are its registered descendants (through transactions
   that are not in b), X is registered under none of its inputs, an input only X was registered under is no
   longer flagged, and nothing was added to the pending buckets. *)
Theorem conflict_on_credit_vanishes :
  forall p a3fix g h b, wf_phistory g h -> powners_before_seen g h -> seen_ids_agree g (h ++ [PvProcess b]) ->
    let q := prun p a3fix g h in
    let s := h_store (q_h q) in
    let own := own_of (q_own q) in
    forall hs', (snd (tip (ps_w s)) =? b_prev b)%N = true ->
      pprocess p a3fix own (q_node q) (q_h q) b = POk hs' ->
      forall M c X tX, In M (b_txs b) -> t_cb M = false -> In c (credits (ps_w s)) -> In (credit_op c) (t_ins M) ->
        pend s X = Some (USer tX) -> In (credit_op c) (t_ins tX) -> ~ In X (map t_id (b_txs b)) ->
        vanished s (h_store hs') (fun k => In k (map t_id (b_txs b))) X tX.
Proof.
  intros p a3fix g h b Hwf Hown Hids q s own hs' Ht Hp M c X tX HM Hcb Hc HinM HX HinX HnX.
  destruct (conflict_vanishes_process p a3fix g h b Hown Hids hs' Ht Hp) as [recs [Er Hv]].
  fold q in Er, Hv. fold s in Er, Hv. fold own in Er, Hv.
  destruct (spend_of_credit_recognised p a3fix g h b Hwf Hown Hids recs Er M c HM Hcb Hc HinM) as (r & ri & Hr & _ & Hri & Hprev).
  pose proof (rec_ids_in_block _ _ _ _ _ Er) as Hsub.
  assert (Hn : ~ In X (rec_ids recs)) by (intros Hin; apply HnX; apply Hsub; exact Hin).
  assert (Hsp : In (ri_prev ri) (t_ins tX)) by (rewrite Hprev; exact HinX).
  destruct (Hv X tX r ri HX Hn Hr Hri Hsp) as (A & B & C & D & E).
  split; [exact A|]. split; [|split; [exact C|split; [exact D|exact E]]].
  intros D0 Hd. apply B. eapply cdesc_weaken; [|exact Hd]. intros k Hk. apply Hsub. exact Hk.
Qed.

(* "the coins it held are free again", without the index: an input of X that no OTHER readable pending
   transaction of s spends is not flagged afterwards (code in force: Rollback stores the transaction) *)
Theorem conflict_on_credit_frees :
  forall p g h b, wf_phistory g h -> powners_before_seen g h -> seen_ids_agree g (h ++ [PvProcess b]) ->
    let q := prun p true g h in
    let s := h_store (q_h q) in
    let own := own_of (q_own q) in
    forall hs', (snd (tip (ps_w s)) =? b_prev b)%N = true ->
      pprocess p true own (q_node q) (q_h q) b = POk hs' ->
      forall M c X tX, In M (b_txs b) -> t_cb M = false -> In c (credits (ps_w s)) -> In (credit_op c) (t_ins M) ->
        pend s X = Some (USer tX) -> In (credit_op c) (t_ins tX) -> ~ In X (map t_id (b_txs b)) ->
        forall o, In o (t_ins tX) -> (forall Y tY, pend s Y = Some (USer tY) -> In o (t_ins tY) -> Y = X) ->
          spent_by_unmined (h_store hs') o = false.
Proof.
  intros p g h b Hwf Hown Hids q s own hs' Ht Hp M c X tX HM Hcb Hc HinM HX HinX HnX o Ho Hsole.
  destruct (conflict_on_credit_vanishes p true g h b Hwf Hown Hids hs' Ht Hp M c X tX HM Hcb Hc HinM HX HinX HnX)
    as (_ & _ & _ & D & _).
  apply (D o Ho). intros sp Hsp.
  pose proof (prun_ginv p g h Hown (seen_ids_agree_prefix g h [PvProcess b] Hids)) as Hg.
  destruct (Hg o sp Hsp) as [t [Hpt Hot]]. exact (Hsole sp t Hpt Hot).
Qed.

(* ================================================================ B. descendants in the full sense *)

(* ---- readable pending transactions are never coinbases *)

Definition ncb (s : pstate) : Prop := forall X tX, pend s X = Some (USer tX) -> t_cb tX = false.

Lemma shrinks_ncb : forall s s', shrinks s s' -> ncb s -> ncb s'.
Proof. intros s s' Sh H X tX HX. exact (H X tX (proj1 Sh X _ HX)). Qed.

Lemma receive_store_ncb :
  forall p own n s t s', ncb s -> receive_store p own n s t = POk (Some s') -> ncb s'.
Proof.
  intros p own n s t s' Hs H.
  destruct (receive_store_shape _ _ _ _ _ _ H) as (Ecb & ins & _ & Hsh). cbv zeta in Hsh.
  destruct Hsh as (_ & _ & _ & Eu & _).
  intros X tX HX. unfold pend in HX. rewrite Eu in HX.
  destruct (um_get (ps_unmined s) (t_id t)) as [v|] eqn:Eg; [exact (Hs X tX HX)|].
  destruct (tx_recorded s (t_id t)); [exact (Hs X tX HX)|].
  unfold inserted in HX. cbn [ps_unmined set_uinputs set_unmined] in HX. rewrite um_get_put in HX.
  destruct (t_id t =? X)%N; [inversion HX; subst tX; exact Ecb|exact (Hs X tX HX)].
Qed.

Lemma rollback_fold_ncb :
  forall a3fix cs h bid txs s ops s' ops', ncb s ->
    fold_left (rollback_tx a3fix cs h bid) txs (POk (s, ops)) = POk (s', ops') -> ncb s'.
Proof.
  intros a3fix cs h bid txs. induction txs as [|t txs IH]; intros s ops s' ops' Hs H; cbn [fold_left] in H.
  - inversion H; subst. exact Hs.
  - destruct (rollback_tx a3fix cs h bid (POk (s, ops)) t) as [[sm opsm]|e] eqn:E;
      [|rewrite fold_rollback_err in H; discriminate].
    apply (IH sm opsm s' ops'); [|exact H].
    destruct (rollback_tx_effect _ _ _ _ _ _ _ _ _ E) as (U & _ & _).
    intros X tX HX. unfold pend in HX. rewrite U in HX. destruct (t_cb t) eqn:Ecb; [exact (Hs X tX HX)|].
    destruct (t_id t =? X)%N; [|exact (Hs X tX HX)].
    destruct a3fix; cbn in HX; [|discriminate]. inversion HX; subst tX. exact Ecb.
Qed.

Lemma p_rollback_one_ncb :
  forall a3fix own cs s h s', ncb s -> p_rollback_one a3fix own cs s h = POk s' -> ncb s'.
Proof.
  intros a3fix own cs s h s' Hs H. unfold p_rollback_one in H.
  destruct (find (fun r => br_height r =? h) (ps_blocks s)) as [r|]; [|inversion H; subst; exact Hs].
  destruct (rollback_move a3fix cs s r) as [[s1 cbops]|e] eqn:Em; [|discriminate].
  assert (H1 : ncb s1) by (unfold rollback_move in Em; eapply rollback_fold_ncb; eauto).
  set (s1' := set_blocks s1 (filter (fun x => negb (br_height x =? h)) (ps_blocks s1))) in *.
  pose proof (purge_coinbase_bundle own cbops s1') as F. rewrite H in F. cbn [okp] in F.
  apply (shrinks_ncb s1' s' (proj1 F)). exact H1.
Qed.

Lemma p_rollback_to_ncb :
  forall a3fix own s h s', ncb s -> p_rollback_to a3fix own s h = POk s' -> ncb s'.
Proof.
  intros a3fix own s h s' Hs H. unfold p_rollback_to in H.
  assert (G : forall ks acc s2, okp ncb acc ->
            fold_left (fun (acc : pres pstate) (k : Z) =>
                         match acc with PErr e => PErr e | POk s1 => p_rollback_one a3fix own (credits (ps_w s)) s1 k end) ks acc = POk s2 ->
            ncb s2).
  { induction ks as [|k ks IH]; intros acc s2 Hacc Hf; cbn [fold_left] in Hf.
    - subst acc. exact Hacc.
    - apply (IH _ s2) in Hf; [exact Hf|]. destruct acc as [s1|e]; [|exact I]. cbn [okp] in Hacc.
      destruct (p_rollback_one a3fix own (credits (ps_w s)) s1 k) as [s3|e] eqn:E; [|exact I].
      cbn [okp]. eapply p_rollback_one_ncb; eauto. }
  destruct (fold_left _ (heights_down (fst (tip (ps_w s))) h) (POk s)) as [s2|e] eqn:Ef; [|discriminate].
  inversion H; subst s'. exact (G _ (POk s) s2 Hs Ef).
Qed.

Lemma p_connect_block_shrinks :
  forall p own n cum s b s' ids, p_connect_block p own n cum s b = POk (s', ids) -> shrinks s s'.
Proof.
  intros p own n cum s b s' ids H. unfold p_connect_block in H.
  destruct (filter_block_txs own (credits (ps_w s)) (lookup_pending n cum) [] (b_txs b)) as [recs|e]; [|discriminate].
  destruct (p_apply_recs p own (b_height b) (b_id b) s recs) as [s1|e] eqn:E1; [|discriminate].
  inversion H; subst s' ids. exact (p_apply_recs_shrinks _ _ _ _ _ _ _ E1).
Qed.

Lemma p_connect_all_shrinks :
  forall p own n cum bs s s' added, p_connect_all p own n cum s bs = POk (s', added) -> shrinks s s'.
Proof.
  intros p own n cum bs. induction bs as [|b bs IH]; intros s s' added H; cbn [p_connect_all] in H.
  - inversion H; subst. apply shrinks_refl.
  - destruct (node_at n (b_height b)) as [nb|]; [|discriminate].
    destruct (negb (b_id nb =? b_id b)%N); [discriminate|].
    destruct (p_connect_block p own n cum s b) as [[s1 ids]|e] eqn:E; [|discriminate].
    destruct (p_connect_all p own n cum s1 bs) as [[s2 added2]|e] eqn:E2; [|discriminate].
    inversion H; subst s' added.
    eapply shrinks_trans; [exact (p_connect_block_shrinks _ _ _ _ _ _ _ _ E)|exact (IH _ _ _ E2)].
Qed.

Lemma pprocess_ncb :
  forall p a3fix own n hs b hs', ncb (h_store hs) -> pprocess p a3fix own n hs b = POk hs' -> ncb (h_store hs').
Proof.
  intros p a3fix own n hs b hs' Hs H. unfold pprocess in H.
  destruct (snd (tip (ps_w (h_store hs))) =? b_prev b)%N.
  - destruct (p_connect_all p own n (ps_unmined (h_store hs)) (h_store hs) [b]) as [[s' added]|e] eqn:Ec; [|discriminate].
    inversion H; subst hs'. cbn [update_volatile h_store].
    exact (shrinks_ncb _ _ (p_connect_all_shrinks _ _ _ _ _ _ _ _ Ec) Hs).
  - destruct (collect n (ps_w (h_store hs)) (Datatypes.S (Z.to_nat (b_height b))) b []) as [[fork bs]|]; [|discriminate].
    destruct (p_rollback_to a3fix own (h_store hs) (fork + 1)) as [s1|e] eqn:Er; [|discriminate].
    destruct (p_connect_all p own n (ps_unmined (h_store hs)) s1 bs) as [[s' added]|e] eqn:Ec; [|discriminate].
    inversion H; subst hs'. cbn [update_volatile h_store].
    apply (shrinks_ncb _ _ (p_connect_all_shrinks _ _ _ _ _ _ _ _ Ec)). eapply p_rollback_to_ncb; eauto.
Qed.

Theorem prun_ncb : forall p a3fix g h, ncb (h_store (q_h (prun p a3fix g h))).
Proof.
  intros p a3fix g h. unfold prun.
  assert (G : forall evs q, ncb (h_store (q_h q)) -> ncb (h_store (q_h (fold_left (pstep p a3fix) evs q)))).
  { induction evs as [|e evs IH]; intros q Hq; cbn [fold_left]; [exact Hq|]. apply IH.
    destruct e as [sh w|b| |b|t|]; cbn [pstep q_h h_store]; try exact Hq.
    - unfold pprocess_or_keep.
      destruct (pprocess p a3fix (own_of (q_own q)) (q_node q) (q_h q) b) as [hs'|err] eqn:Hp; [|exact Hq].
      eapply pprocess_ncb; eauto.
    - unfold receive_tx. destruct (mem_n (t_id t) (h_mempool (q_h q))); [exact Hq|].
      destruct (receive_store p (own_of (q_own q)) (q_node q) (h_store (q_h q)) t) as [[s'|]|err] eqn:E; cbn [fst h_store]; try exact Hq.
      eapply receive_store_ncb; eauto. }
  apply G. intros X tX H. discriminate.
Qed.

(* ---- the node's chain *)

Lemma node_steps_in :
  forall h n b, In b (fold_left node_step h n) -> In b n \/ In b (pblocks_of_history h).
Proof.
  induction h as [|e h IH]; intros n b H; [left; exact H|]. cbn [fold_left] in H.
  destruct (IH _ _ H) as [H1|H1].
  - destruct e as [sh w|b0| |b0|t|]; cbn [node_step] in H1; try (left; exact H1).
    + apply in_app_or in H1. destruct H1 as [H1|[<-|[]]]; [left; exact H1|right; left; reflexivity].
    + left. eapply removelast_in; eauto.
  - right. unfold pblocks_of_history. cbn [flat_map]. apply in_or_app. right. exact H1.
Qed.

Lemma prun_node_blocks :
  forall p a g h b, In b (q_node (prun p a g h)) -> In b (g :: pblocks_of_history h).
Proof.
  intros p a g h b H. unfold prun in H. rewrite q_node_fold in H. cbn [init_psim q_node] in H.
  destruct (node_steps_in _ _ _ H) as [[<-|[]]|H1]; [left; reflexivity|right; exact H1].
Qed.

Lemma prun_node_wf :
  forall p a g h h2, wf_phistory g (h ++ h2) -> wf_chain (q_node (prun p a g h)).
Proof.
  intros p a g h h2 Hwf. unfold prun. rewrite q_node_fold. cbn [init_psim q_node].
  apply (wfp_chain _ _ Hwf). apply nodes_of_app_in. apply nodes_of_head.
Qed.

Lemma pblocks_app : forall h1 h2, pblocks_of_history (h1 ++ h2) = pblocks_of_history h1 ++ pblocks_of_history h2.
Proof. intros h1 h2. unfold pblocks_of_history. apply flat_map_app. Qed.

(* the premises about the history pass to the history before the announcement *)
Lemma wf_phistory_before_process : forall g h b, wf_phistory g (h ++ [PvProcess b]) -> wf_phistory g h.
Proof.
  intros g h b [A B C D E].
  assert (Hinc : incl (g :: pblocks_of_history h) (g :: pblocks_of_history (h ++ [PvProcess b]))).
  { intros z [<-|Hz]; [left; reflexivity|right]. rewrite pblocks_app. apply in_or_app. left. exact Hz. }
  constructor.
  - intros n Hn. apply A. apply nodes_of_prefix_in. exact Hn.
  - intros h1 sh w h2 Hh b0 Hb0. apply (B h1 sh w (h2 ++ [PvProcess b])); [|exact Hb0].
    rewrite Hh, <- app_assoc. reflexivity.
  - intros b1 b2 H1 H2. apply C; apply Hinc; assumption.
  - exact (tx_ids_agree_incl _ _ Hinc D).
  - intros b0 Hb0. assert (H0 : In (PvAttach b0) (h ++ [PvProcess b])) by (apply E; apply in_or_app; left; exact Hb0).
    apply in_app_or in H0. destruct H0 as [H0|[H0|[]]]; [exact H0|discriminate].
Qed.

(* a block that processConnectedBlock connects on top of the wallet's tip is the node's block at its height *)
Lemma pprocess_extend_on_node :
  forall p a3fix own n hs b hs',
    (snd (tip (ps_w (h_store hs))) =? b_prev b)%N = true ->
    pprocess p a3fix own n hs b = POk hs' ->
    exists nb, In nb n /\ b_id nb = b_id b.
Proof.
  intros p a3fix own n hs b hs' Ht H. unfold pprocess in H. rewrite Ht in H. cbn [p_connect_all] in H.
  destruct (node_at n (b_height b)) as [nb|] eqn:En; [|discriminate].
  destruct (b_id nb =? b_id b)%N eqn:Eid; [|discriminate]. cbn [negb] in H.
  exists nb. split; [|apply N.eqb_eq; exact Eid].
  unfold node_at in En. apply find_some in En. exact (proj1 En).
Qed.

Lemma NoDup_flat_map_share :
  forall (A B : Type) (f : A -> list B) l a b x,
    NoDup (flat_map f l) -> In a l -> In b l -> In x (f a) -> In x (f b) -> a = b.
Proof.
  intros A B f l. induction l as [|y l IH]; intros a b x Hnd Ha Hb Hxa Hxb; [destruct Ha|].
  cbn [flat_map] in Hnd. apply NoDup_app_inv in Hnd. destruct Hnd as (_ & Hl & Hdis).
  destruct Ha as [->|Ha]; destruct Hb as [->|Hb]; [reflexivity| | |exact (IH a b x Hl Ha Hb Hxa Hxb)].
  - exfalso. apply (Hdis x Hxa). apply in_flat_map. exists b. split; assumption.
  - exfalso. apply (Hdis x Hxb). apply in_flat_map. exists a. split; assumption.
Qed.

(* no output is spent twice on a well-formed chain *)
Lemma chain_no_double_spend :
  forall n t1 t2 o, wf_chain n -> In t1 (chain_txs n) -> In t2 (chain_txs n) -> t_cb t1 = false -> t_cb t2 = false ->
    In o (t_ins t1) -> In o (t_ins t2) -> t1 = t2.
Proof.
  intros n t1 t2 o Hwf H1 H2 C1 C2 O1 O2. pose proof (wf_nodouble _ Hwf) as Hnd. unfold all_inputs in Hnd.
  apply (NoDup_flat_map_share _ _ _ _ t1 t2 o Hnd H1 H2); [rewrite C1; exact O1|rewrite C2; exact O2].
Qed.

Definition on_chain (n : node) (k : N) : Prop := exists t, In t (chain_txs n) /\ t_id t = k.

Lemma chain_txs_node_in : forall S n t, node_in S n -> In t (chain_txs n) -> In t S.
Proof.
  intros S n t Hn Ht. unfold chain_txs in Ht. apply in_flat_map in Ht. destruct Ht as [b [Hb Ht]]. exact (Hn b t Hb Ht).
Qed.

(* when a registered descendant is on the node's chain, so is its ancestor: a well-formed chain contains the
   previous transaction of every input *)
Lemma desc_on_chain :
  forall S own n s, wf_chain n -> node_in S n -> ids_agree_on S -> sinv S own s -> ginv s -> ncb s ->
    forall X D, desc s X D -> on_chain n D -> on_chain n X.
Proof.
  intros S own n s Hwf Hn Hid Hs Hg Hc X D Hd.
  induction Hd as [X tX i D HX Hi HD|X Y D _ IH1 _ IH2]; intros HonD; [|exact (IH1 (IH2 HonD))].
  destruct (Hg _ _ HD) as [tD [HpD HinD]]. destruct HonD as [t' [Ht' Hid']].
  destruct (sv_pend _ _ _ Hs D tD HpD) as [EidD HDS].
  assert (E : t' = tD) by (apply Hid; [exact (chain_txs_node_in S n t' Hn Ht')|exact HDS|congruence]). subst t'.
  assert (Hop : In (X, i) (ins_of tD)) by (unfold ins_of; rewrite (Hc D tD HpD); exact HinD).
  destruct (inputs_ok_in (chain_txs n) [] tD (X, i) (wf_inputs _ Hwf) Ht' Hop) as [t [Ht [Hidt _]]].
  exists t. split; [exact Ht|exact Hidt].
Qed.

(* registered descendants none of which is avoided are [cdesc] descendants *)
Lemma desc_cdesc_avoiding :
  forall s (avoid : N -> Prop) X D, desc s X D -> ~ avoid X -> (forall Y, desc s X Y -> ~ avoid Y) -> cdesc s avoid X D.
Proof.
  intros s avoid X D Hd. induction Hd as [X tX i D HX Hi HD|X Y D H1 IH1 H2 IH2]; intros Hx Hall.
  - eapply cdesc_child; eauto.
  - eapply cdesc_step; [apply IH1; [exact Hx|exact Hall]|].
    apply IH2; [apply Hall; exact H1|]. intros Z HZ. apply Hall. eapply desc_step; eauto.
Qed.

(* descendants as the property speaks of them: D spends a wallet output of X, to any depth, all pending *)
Inductive wdesc (own : owner_fn) (s : pstate) : N -> N -> Prop :=
| wdesc_child : forall X tX D tD i, pend s X = Some (USer tX) -> pend s D = Some (USer tD) -> In (X, i) (t_ins tD) ->
                                    wallet_out own tX i -> wdesc own s X D
| wdesc_step : forall X Y D, wdesc own s X Y -> wdesc own s Y D -> wdesc own s X D.

Lemma wdesc_desc : forall S own s X D, sinv S own s -> ids_agree_on S -> wdesc own s X D -> desc s X D.
Proof.
  intros S own s X D Hs Hid Hd. induction Hd as [X tX D tD i HX HD Hin Hw|X Y D _ IH1 _ IH2].
  - apply (cdesc_desc s (fun _ => False)). exact (wallet_child_registered S own s _ X tX D tD i Hs Hid HX HD Hin Hw (fun f => f)).
  - eapply desc_step; eauto.
Qed.

(* Item 2.  Same situation as [conflict_on_credit_vanishes], the node's chain being well formed (wf_phistory for
   the history including the announcement), code in force (a3fix = true).  M of block b spends the outpoint of a
   credit that the pending X, not in b, spends too.  Then
   - no registered descendant of X, of any depth, is a transaction of b: the node's chain would contain X (a
     well-formed chain contains the previous transaction of every input) next to M, spending the same output twice;
   - hence every registered descendant of X in the full sense [desc] has left the pending set;
   - and so has every pending transaction that spends, through any number of pending transactions, a wallet
     output of X. *)
Theorem conflict_full_descendants_vanish :
  forall p g h b, wf_phistory g (h ++ [PvProcess b]) -> powners_before_seen g h -> seen_ids_agree g (h ++ [PvProcess b]) ->
    let q := prun p true g h in
    let s := h_store (q_h q) in
    let own := own_of (q_own q) in
    forall hs', (snd (tip (ps_w s)) =? b_prev b)%N = true ->
      pprocess p true own (q_node q) (q_h q) b = POk hs' ->
      forall M c X tX, In M (b_txs b) -> t_cb M = false -> In c (credits (ps_w s)) -> In (credit_op c) (t_ins M) ->
        pend s X = Some (USer tX) -> In (credit_op c) (t_ins tX) -> ~ In X (map t_id (b_txs b)) ->
        (forall Y, desc s X Y -> ~ In Y (map t_id (b_txs b))) /\
        (forall D, desc s X D -> pend (h_store hs') D = None) /\
        (forall D, wdesc own s X D -> pend (h_store hs') D = None).
Proof.
  intros p g h b Hwfb Hown Hids q s own hs' Ht Hp M c X tX HM Hcb Hc HinM HX HinX HnX.
  pose proof (wf_phistory_before_process g h b Hwfb) as Hwf.
  pose proof (prun_node_wf p true g h [PvProcess b] Hwfb) as Hwfn. fold q in Hwfn.
  destruct (prun_qinv p true g h Hown) as [Hn Hs]. fold q in Hn, Hs. fold s in Hs. fold own in Hs.
  destruct (seen_process_universe g h b) as [Hinc' Hb].
  set (S' := b_txs g ++ seen_txs (h ++ [PvProcess b])) in *.
  assert (Hn' : node_in S' (q_node q)) by (intros b1 t1 Hb1 Ht1; apply Hinc'; exact (Hn b1 t1 Hb1 Ht1)).
  assert (Hs' : sinv S' own s) by (eapply sinv_mono; [exact Hinc'|exact Hs]).
  pose proof (prun_ginv p g h Hown (seen_ids_agree_prefix g h [PvProcess b] Hids)) as Hg. fold q in Hg. fold s in Hg.
  pose proof (prun_ncb p true g h) as Hncb. fold q in Hncb. fold s in Hncb.
  (* b is a block of the node's chain *)
  assert (Hbn : In b (q_node q)).
  { destruct (pprocess_extend_on_node _ _ _ _ _ _ _ Ht Hp) as [nb [Hnb Hid]].
    assert (E : nb = b).
    { apply (wfp_blockids _ _ Hwfb); [| |exact Hid].
      - apply prun_node_blocks in Hnb. destruct Hnb as [<-|Hnb]; [left; reflexivity|right].
        rewrite pblocks_app. apply in_or_app. left. exact Hnb.
      - right. rewrite pblocks_app. apply in_or_app. right. left. reflexivity. }
    subst nb. exact Hnb. }
  assert (Hblk : forall t, In t (b_txs b) -> In t (chain_txs (q_node q))).
  { intros t Ht0. unfold chain_txs. apply in_flat_map. exists b. split; assumption. }
  (* X is not on the node's chain *)
  destruct (sv_pend _ _ _ Hs' X tX HX) as [EidX HXS].
  assert (HnoX : ~ on_chain (q_node q) X).
  { intros [t' [Ht' Hid']].
    assert (E : t' = tX) by (apply Hids; [exact (chain_txs_node_in S' _ t' Hn' Ht')|exact HXS|congruence]). subst t'.
    assert (EM : M = tX) by (apply (chain_no_double_spend (q_node q) M tX (credit_op c) Hwfn (Hblk M HM) Ht' Hcb (Hncb X tX HX) HinM HinX)).
    apply HnX. rewrite <- EidX, <- EM. apply in_map. exact HM. }
  assert (Hnone : forall Y, desc s X Y -> ~ In Y (map t_id (b_txs b))).
  { intros Y Hd Hin. apply HnoX. apply (desc_on_chain S' own (q_node q) s Hwfn Hn' Hids Hs' Hg Hncb X Y Hd).
    apply in_map_iff in Hin. destruct Hin as [tY [EY HtY]]. exists tY. split; [exact (Hblk tY HtY)|exact EY]. }
  destruct (conflict_on_credit_vanishes p true g h b Hwf Hown Hids hs' Ht Hp M c X tX HM Hcb Hc HinM HX HinX HnX)
    as (_ & B & _).
  assert (Hdesc : forall D, desc s X D -> pend (h_store hs') D = None).
  { intros D Hd. apply B. apply desc_cdesc_avoiding; [exact Hd|exact HnX|exact Hnone]. }
  split; [exact Hnone|]. split; [exact Hdesc|].
  intros D Hd. apply Hdesc. exact (wdesc_desc S' own s X D Hs' Hids Hd).
Qed.

(* ================================================================ C. the reorganisation as one statement *)

(* ---- where a spent mark of the ledger comes from *)

Lemma spend_credit_origin :
  forall cs w op by_ cs', spend_credit cs w op by_ = Some cs' ->
    forall c, In c cs' -> In c cs \/ credit_op c = op.
Proof.
  induction cs as [|c0 cs IH]; intros w op by_ cs' H c Hc; cbn [spend_credit] in H; [discriminate|].
  destruct (op_eqb (credit_op c0) op && (c_wallet c0 =? w)%N && is_unspent c0) eqn:E.
  - inversion H; subst cs'. destruct Hc as [<-|Hc]; [|left; right; exact Hc].
    right. apply andb_true_iff in E. destruct E as [E _]. apply andb_true_iff in E. destruct E as [E _].
    apply op_eqb_eq in E. exact E.
  - destruct (spend_credit cs w op by_) as [rest'|] eqn:Er; [|discriminate]. inversion H; subst cs'.
    destruct Hc as [<-|Hc]; [left; left; reflexivity|].
    destruct (IH _ _ _ _ Er c Hc) as [A|A]; [left; right; exact A|right; exact A].
Qed.

Lemma withdraw_ins_origin :
  forall t h ins cs g cs' g', withdraw_ins cs g t h ins = POk (cs', g') ->
    forall c, In c cs' -> In c cs \/ exists ri, In ri ins /\ credit_op c = ri_prev ri.
Proof.
  intros t h ins. induction ins as [|ri ins IH]; intros cs g cs' g' H c Hc; cbn [withdraw_ins] in H.
  - inversion H; subst. left. exact Hc.
  - destruct (find_unspent cs (ri_wallet ri) (ri_prev ri)) as [c0|]; [|discriminate].
    destruct (spend_credit cs (ri_wallet ri) (ri_prev ri) (t_id t, ri_index ri, h)) as [cs1|] eqn:Es; [|discriminate].
    assert (Hstep : forall g1, withdraw_ins cs1 g1 t h ins = POk (cs', g') ->
              In c cs \/ exists ri0, In ri0 (ri :: ins) /\ credit_op c = ri_prev ri0).
    { intros g1 H1. destruct (IH _ _ _ _ H1 c Hc) as [A|[ri0 [A B]]].
      - destruct (spend_credit_origin _ _ _ _ _ Es c A) as [A1|A1]; [left; exact A1|].
        right. exists ri. split; [left; reflexivity|exact A1].
      - right. exists ri0. split; [right; exact A|exact B]. }
    destruct (game_kind (c_class c0)) as [bb|]; [|exact (Hstep _ H)].
    match type of H with (if ?G then _ else _) = _ => destruct G end; [exact (Hstep _ H)|discriminate].
Qed.

Lemma apply_outs_origin :
  forall p t h bid outs cs cs', apply_outs p cs t h bid outs = Ok cs' ->
    forall c, In c cs' -> In c cs \/ c_spent c = None.
Proof.
  intros p t h bid outs. induction outs as [|ro outs IH]; intros cs cs' H c Hc; cbn [apply_outs] in H.
  - inversion H; subst. left. exact Hc.
  - destruct (exists_credit_at cs (t_id t, ro_index ro) h bid); [discriminate|].
    destruct (IH _ _ H c Hc) as [A|A]; [|right; exact A].
    apply in_app_or in A. destruct A as [A|[<-|[]]]; [left; exact A|right; reflexivity].
Qed.

Lemma p_apply_rec_origin :
  forall p own h bid s r s', p_apply_rec p own h bid s r = POk s' ->
    forall c, In c (credits (ps_w s')) -> c_spent c <> None ->
      In c (credits (ps_w s)) \/ exists ri, In ri (rr_ins r) /\ credit_op c = ri_prev ri.
Proof.
  intros p own h bid s r s' H c Hc Hsp. apply p_apply_rec_mined in H. unfold m_apply_rec in H. cbn [mined m_w m_game] in H.
  destruct (withdraw_ins (credits (ps_w s)) (ps_game s) (rr_tx r) h (rr_ins r)) as [[cs1 g1]|e] eqn:Ew; [|discriminate].
  destruct (apply_outs p cs1 (rr_tx r) h bid (rr_outs r)) as [cs2|e] eqn:Eo; [|discriminate].
  inversion H as [[E1 E2 E3]]. rewrite <- E1 in Hc. cbn [credits] in Hc.
  destruct (apply_outs_origin _ _ _ _ _ _ _ Eo c Hc) as [A|A]; [|contradiction].
  exact (withdraw_ins_origin _ _ _ _ _ _ _ Ew c A).
Qed.

Lemma p_apply_recs_origin :
  forall p own h bid recs s s', p_apply_recs p own h bid s recs = POk s' ->
    forall c, In c (credits (ps_w s')) -> c_spent c <> None ->
      In c (credits (ps_w s)) \/ exists r ri, In r recs /\ In ri (rr_ins r) /\ credit_op c = ri_prev ri.
Proof.
  intros p own h bid recs. induction recs as [|r recs IH]; intros s s' H c Hc Hsp; cbn [p_apply_recs] in H.
  - inversion H; subst. left. exact Hc.
  - destruct (p_apply_rec p own h bid s r) as [s1|e] eqn:E; [|discriminate].
    destruct (IH _ _ H c Hc Hsp) as [A|[r0 [ri [A [B C]]]]].
    + destruct (p_apply_rec_origin _ _ _ _ _ _ _ E c A Hsp) as [A1|[ri [A1 A2]]]; [left; exact A1|].
      right. exists r, ri. split; [left; reflexivity|split; assumption].
    + right. exists r0, ri. split; [right; exact A|split; assumption].
Qed.

(* every relevant record of the block has left the pending set *)
Lemma p_apply_recs_settled :
  forall p own h bid recs s s', p_apply_recs p own h bid s recs = POk s' ->
    forall k, In k (rec_ids recs) -> pend s' k = None.
Proof.
  intros p own h bid recs. induction recs as [|r recs IH]; intros s s' H k Hk; cbn [p_apply_recs] in H; [destruct Hk|].
  destruct (p_apply_rec p own h bid s r) as [s1|e] eqn:E; [|discriminate].
  cbn [rec_ids map] in Hk. destruct Hk as [<-|Hk]; [|exact (IH _ _ H k Hk)].
  apply (shrinks_none s1 s' _ (p_apply_recs_shrinks _ _ _ _ _ _ _ H)).
  exact (proj1 (proj2 (p_apply_rec_settles _ _ _ _ _ _ _ E))).
Qed.

(* ---- one connected block: a transaction that is pending afterwards spends no coin the block spent *)
Lemma p_connect_block_conflict_free :
  forall S p own n s0 s b s' ids,
    ids_agree_on S -> node_in S n -> (forall t, In t (b_txs b) -> In t S) -> sinv S own s0 -> sinv S own s ->
    p_connect_block p own n (ps_unmined s0) s b = POk (s', ids) ->
    forall X tX c, pend s' X = Some (USer tX) -> In c (credits (ps_w s')) -> c_spent c <> None ->
      In (credit_op c) (t_ins tX) -> In c (credits (ps_w s)).
Proof.
  intros S p own n s0 s b s' ids Hid Hn Hb Hs0 Hs H X tX c HX Hc Hsp Hin.
  pose proof H as H0. unfold p_connect_block in H0.
  destruct (filter_block_txs own (credits (ps_w s)) (lookup_pending n (ps_unmined s0)) [] (b_txs b)) as [recs|e] eqn:Er; [|discriminate].
  destruct (p_apply_recs p own (b_height b) (b_id b) s recs) as [s1|e] eqn:E1; [|discriminate].
  inversion H0; subst s' ids. clear H0. cbn [set_w ps_w credits] in Hc.
  destruct (p_apply_recs_origin _ _ _ _ _ _ _ E1 c Hc Hsp) as [A|[r [ri [Hr [Hri Hop]]]]]; [exact A|exfalso].
  assert (HXs : pend s X = Some (USer tX)) by exact (proj1 (p_apply_recs_shrinks _ _ _ _ _ _ _ E1) X _ HX).
  destruct (in_dec N.eq_dec X (rec_ids recs)) as [Hi|Hni].
  - pose proof (p_apply_recs_settled _ _ _ _ _ _ _ E1 X Hi) as HN. unfold pend in HX, HN. cbn [set_w ps_unmined] in HX. congruence.
  - destruct (connect_block_conflict S p own n s0 s b _ _ recs Hid Hn Hb Hs0 Hs Er H) as [_ Hv].
    assert (Hsp' : In (ri_prev ri) (t_ins tX)) by (rewrite <- Hop; exact Hin).
    destruct (Hv X tX r ri HXs Hni Hr Hri Hsp') as (HN & _). congruence.
Qed.

Lemma p_connect_all_conflict_free :
  forall S p own n s0 bs s s' added,
    ids_agree_on S -> node_in S n -> (forall b t, In b bs -> In t (b_txs b) -> In t S) -> sinv S own s0 -> sinv S own s ->
    p_connect_all p own n (ps_unmined s0) s bs = POk (s', added) ->
    forall X tX c, pend s' X = Some (USer tX) -> In c (credits (ps_w s')) -> c_spent c <> None ->
      In (credit_op c) (t_ins tX) -> In c (credits (ps_w s)).
Proof.
  intros S p own n s0 bs. induction bs as [|b bs IH]; intros s s' added Hid Hn Hb Hs0 Hs H X tX c HX Hc Hsp Hin; cbn [p_connect_all] in H.
  - inversion H; subst. exact Hc.
  - destruct (node_at n (b_height b)) as [nb|]; [|discriminate].
    destruct (negb (b_id nb =? b_id b)%N); [discriminate|].
    destruct (p_connect_block p own n (ps_unmined s0) s b) as [[s1 ids]|e] eqn:E; [|discriminate].
    destruct (p_connect_all p own n (ps_unmined s0) s1 bs) as [[s2 added2]|e] eqn:E2; [|discriminate].
    inversion H; subst s' added.
    assert (Hb0 : forall t0, In t0 (b_txs b) -> In t0 S) by (intros t0 Ht0; eapply Hb; [left; reflexivity|exact Ht0]).
    assert (Hs1 : sinv S own s1) by (eapply p_connect_block_sinv; [exact Hb0|exact Hs|exact E]).
    assert (Hc1 : In c (credits (ps_w s1))).
    { apply (IH s1 s2 added2 Hid Hn (fun b0 t0 H0 => Hb b0 t0 (or_intror H0)) Hs0 Hs1 E2 X tX c HX Hc Hsp Hin). }
    assert (HX1 : pend s1 X = Some (USer tX)) by exact (proj1 (p_connect_all_shrinks _ _ _ _ _ _ _ _ E2) X _ HX).
    exact (p_connect_block_conflict_free S p own n s0 s b s1 ids Hid Hn Hb0 Hs0 Hs E X tX c HX1 Hc1 Hsp Hin).
Qed.

(* Rollback leaves no spent mark at or above the height it rolls back to, and creates none *)
Lemma rollback_credits_marks :
  forall cs h c, In c (rollback_credits cs h) -> forall m i hm, c_spent c = Some (m, i, hm) -> In c cs /\ hm < h.
Proof.
  intros cs h c Hc m i hm Hsp. unfold rollback_credits in Hc. apply in_map_iff in Hc. destruct Hc as [c0 [E Hc0]].
  apply filter_In in Hc0. destruct Hc0 as [Hc0 _].
  destruct (c_spent c0) as [[[m0 i0] sh]|] eqn:E0.
  - destruct (h <=? sh) eqn:El.
    + subst c. cbn in Hsp. discriminate.
    + subst c. rewrite E0 in Hsp. inversion Hsp; subst. split; [exact Hc0|]. apply Z.leb_gt. exact El.
  - subst c. rewrite E0 in Hsp. discriminate.
Qed.

Lemma p_rollback_to_w : forall a3fix own s h s', p_rollback_to a3fix own s h = POk s' -> ps_w s' = rollback_to (ps_w s) h.
Proof.
  intros a3fix own s h s' H. unfold p_rollback_to in H.
  destruct (fold_left _ (heights_down (fst (tip (ps_w s))) h) (POk s)) as [s2|e]; [|discriminate].
  inversion H; subst s'. reflexivity.
Qed.

(* processConnectedBlock from any state satisfying the invariant.  A transaction that is readable and pending
   afterwards spends a SPENT credit of the final ledger only if that credit was in the ledger before, with the same
   mark (a conflict that was there before: a transaction delivered although it spends a coin the wallet's chain
   has spent); and when blocks were rolled back, only if the spending block is at or below the fork. *)
Theorem pprocess_conflict_free :
  forall S p a3fix own n hs b hs',
    ids_agree_on S -> node_in S n -> (forall t, In t (b_txs b) -> In t S) -> sinv S own (h_store hs) ->
    pprocess p a3fix own n hs b = POk hs' ->
    forall X tX c m i hm, pend (h_store hs') X = Some (USer tX) -> In c (credits (ps_w (h_store hs'))) ->
      c_spent c = Some (m, i, hm) -> In (credit_op c) (t_ins tX) ->
      In c (credits (ps_w (h_store hs))) /\
      ((snd (tip (ps_w (h_store hs))) =? b_prev b)%N = false ->
       forall fork bs, collect n (ps_w (h_store hs)) (Datatypes.S (Z.to_nat (b_height b))) b [] = Some (fork, bs) -> hm <= fork).
Proof.
  intros S p a3fix own n hs b hs' Hid Hn Hb Hs H X tX c m i hm HX Hc Hsp Hin.
  assert (Hsp' : c_spent c <> None) by (rewrite Hsp; discriminate).
  unfold pprocess in H. destruct (snd (tip (ps_w (h_store hs))) =? b_prev b)%N eqn:Et.
  - destruct (p_connect_all p own n (ps_unmined (h_store hs)) (h_store hs) [b]) as [[s' added]|e] eqn:Ec; [|discriminate].
    inversion H; subst hs'. cbn [update_volatile h_store] in *.
    split; [|discriminate].
    assert (Hb1 : forall b0 t0, In b0 [b] -> In t0 (b_txs b0) -> In t0 S) by (intros b0 t0 [<-|[]] Ht0; exact (Hb t0 Ht0)).
    exact (p_connect_all_conflict_free S p own n (h_store hs) [b] (h_store hs) s' added Hid Hn Hb1 Hs Hs Ec X tX c HX Hc Hsp' Hin).
  - destruct (collect n (ps_w (h_store hs)) (Datatypes.S (Z.to_nat (b_height b))) b []) as [[fork bs]|] eqn:Ecol; [|discriminate].
    destruct (p_rollback_to a3fix own (h_store hs) (fork + 1)) as [s1|e] eqn:Er; [|discriminate].
    destruct (p_connect_all p own n (ps_unmined (h_store hs)) s1 bs) as [[s' added]|e] eqn:Ec; [|discriminate].
    inversion H; subst hs'. cbn [update_volatile h_store] in *.
    assert (Hc1 : In c (credits (ps_w s1))).
    { assert (Hb1 : forall b0 t0, In b0 bs -> In t0 (b_txs b0) -> In t0 S).
      { intros b0 t0 H0 Ht0. destruct (collect_in _ _ _ _ _ _ _ Ecol b0 H0) as [[]|[->|Hin0]]; [exact (Hb t0 Ht0)|exact (Hn b0 t0 Hin0 Ht0)]. }
      assert (Hs1 : sinv S own s1) by (eapply p_rollback_to_sinv; eauto).
      exact (p_connect_all_conflict_free S p own n (h_store hs) bs s1 s' added Hid Hn Hb1 Hs Hs1 Ec X tX c HX Hc Hsp' Hin). }
    rewrite (p_rollback_to_w _ _ _ _ _ Er) in Hc1. cbn [rollback_to credits] in Hc1.
    destruct (rollback_credits_marks _ _ _ Hc1 m i hm Hsp) as [A B].
    split; [exact A|]. intros _ fork0 bs0 E0. inversion E0; subst. lia.
Qed.

(* Item 3: the reorganisation, for the states of a history.  After a successful processConnectedBlock of a block
   that does not extend the wallet's tip (rollback to the fork, then the blocks of the new branch), no readable
   pending transaction spends a credit of the final ledger that is spent above the fork, i.e. by a transaction of
   the new branch. *)
Theorem reorg_conflict_free :
  forall p a3fix g h b, powners_before_seen g h -> seen_ids_agree g (h ++ [PvProcess b]) ->
    let q := prun p a3fix g h in
    let s := h_store (q_h q) in
    let own := own_of (q_own q) in
    forall hs' fork bs, (snd (tip (ps_w s)) =? b_prev b)%N = false ->
      collect (q_node q) (ps_w s) (Datatypes.S (Z.to_nat (b_height b))) b [] = Some (fork, bs) ->
      pprocess p a3fix own (q_node q) (q_h q) b = POk hs' ->
      forall X tX c m i hm, pend (h_store hs') X = Some (USer tX) -> In c (credits (ps_w (h_store hs'))) ->
        c_spent c = Some (m, i, hm) -> fork < hm -> ~ In (credit_op c) (t_ins tX).
Proof.
  intros p a3fix g h b Hown Hids q s own hs' fork bs Ht Hcol Hp X tX c m i hm HX Hc Hsp Hlt Hin.
  destruct (prun_qinv p a3fix g h Hown) as [Hn Hs]. fold q in Hn, Hs. fold s in Hs. fold own in Hs.
  destruct (seen_process_universe g h b) as [Hinc' Hb].
  set (S' := b_txs g ++ seen_txs (h ++ [PvProcess b])) in *.
  assert (Hn' : node_in S' (q_node q)) by (intros b1 t1 Hb1 Ht1; apply Hinc'; exact (Hn b1 t1 Hb1 Ht1)).
  assert (Hs' : sinv S' own s) by (eapply sinv_mono; [exact Hinc'|exact Hs]).
  destruct (pprocess_conflict_free S' p a3fix own (q_node q) (q_h q) b hs' Hids Hn' Hb Hs' Hp X tX c m i hm HX Hc Hsp Hin) as [_ B].
  specialize (B Ht fork bs Hcol). lia.
Qed.

(* and for a block that extends the tip: whatever spent credit a pending transaction still spends was spent before *)
Theorem extend_conflict_free :
  forall p a3fix g h b, powners_before_seen g h -> seen_ids_agree g (h ++ [PvProcess b]) ->
    let q := prun p a3fix g h in
    let s := h_store (q_h q) in
    let own := own_of (q_own q) in
    forall hs', pprocess p a3fix own (q_node q) (q_h q) b = POk hs' ->
      forall X tX c m i hm, pend (h_store hs') X = Some (USer tX) -> In c (credits (ps_w (h_store hs'))) ->
        c_spent c = Some (m, i, hm) -> In (credit_op c) (t_ins tX) -> In c (credits (ps_w s)).
Proof.
  intros p a3fix g h b Hown Hids q s own hs' Hp X tX c m i hm HX Hc Hsp Hin.
  destruct (prun_qinv p a3fix g h Hown) as [Hn Hs]. fold q in Hn, Hs. fold s in Hs. fold own in Hs.
  destruct (seen_process_universe g h b) as [Hinc' Hb].
  set (S' := b_txs g ++ seen_txs (h ++ [PvProcess b])) in *.
  assert (Hn' : node_in S' (q_node q)) by (intros b1 t1 Hb1 Ht1; apply Hinc'; exact (Hn b1 t1 Hb1 Ht1)).
  assert (Hs' : sinv S' own s) by (eapply sinv_mono; [exact Hinc'|exact Hs]).
  exact (proj1 (pprocess_conflict_free S' p a3fix own (q_node q) (q_h q) b hs' Hids Hn' Hb Hs' Hp X tX c m i hm HX Hc Hsp Hin)).
Qed.

(* whatever is flagged after a block that extends the tip is spent by a readable transaction that was pending
   before the block and still is (code in force).  Together with the vanishing of X and of its descendants this
   is "the coins they held are free again" for all of them. *)
Theorem still_flagged_still_spent :
  forall p g h b, powners_before_seen g h -> seen_ids_agree g (h ++ [PvProcess b]) ->
    let q := prun p true g h in
    let s := h_store (q_h q) in
    let own := own_of (q_own q) in
    forall hs', (snd (tip (ps_w s)) =? b_prev b)%N = true ->
      pprocess p true own (q_node q) (q_h q) b = POk hs' ->
      forall o, spent_by_unmined (h_store hs') o = true ->
        exists Y tY, pend (h_store hs') Y = Some (USer tY) /\ In o (t_ins tY) /\ pend s Y = Some (USer tY).
Proof.
  intros p g h b Hown Hids q s own hs' Ht Hp o Hfl.
  destruct (prun_qinv p true g h Hown) as [Hn Hs]. fold q in Hn, Hs. fold s in Hs. fold own in Hs.
  destruct (seen_process_universe g h b) as [Hinc' Hb].
  set (S' := b_txs g ++ seen_txs (h ++ [PvProcess b])) in *.
  assert (Hn' : node_in S' (q_node q)) by (intros b1 t1 Hb1 Ht1; apply Hinc'; exact (Hn b1 t1 Hb1 Ht1)).
  assert (Hs' : sinv S' own s) by (eapply sinv_mono; [exact Hinc'|exact Hs]).
  pose proof (prun_ginv p g h Hown (seen_ids_agree_prefix g h [PvProcess b] Hids)) as Hg. fold q in Hg. fold s in Hg.
  pose proof (pprocess_ginv S' p own (q_node q) (q_h q) b hs' Hids Hn' Hb Hs' Hg Hp) as Hg'.
  destruct (pprocess_extend _ _ _ _ _ _ _ Ht Hp) as [ids Hc].
  pose proof (p_connect_block_shrinks _ _ _ _ _ _ _ _ Hc) as Sh.
  unfold spent_by_unmined in Hfl. destruct (ui_get (ps_uinputs (h_store hs')) o) as [|Y rest] eqn:Eg; [discriminate|].
  assert (HY : In Y (ui_get (ps_uinputs (h_store hs')) o)) by (rewrite Eg; left; reflexivity).
  destruct (Hg' o Y HY) as [tY [HpY HoY]]. exists Y, tY. split; [exact HpY|]. split; [exact HoY|].
  exact (proj1 Sh Y _ HpY).
Qed.

(* ================================================================ D. closed histories *)

(* The qualification in [pprocess_conflict_free] ("the credit was in the ledger before, with the same mark") cannot
   be dropped: filterTx for an unconfirmed transaction does not look at the spent mark of the coins it spends.  t11
   spends the wallet coin (1,0) and is mined; then t10, spending (1,0) too, is delivered unconfirmed (a node would
   not relay it while t11 is on its chain): it is stored and stays pending, on a spent coin. *)
Module StaleConflict.
  Definition p : params := {| p_cbmat := 1; p_bindlock := 4294967294 |}.
  Definition g : block := {| b_id := 0; b_prev := 0; b_height := 0; b_txs := [] |}.
  Definition cb (id : N) : tx := {| t_id := id; t_cb := true; t_ins := []; t_outs := [ {| o_sh := 1; o_val := 5; o_class := CStd |} ] |}.
  Definition t10 : tx := {| t_id := 10; t_cb := false; t_ins := [(1, 0)%N]; t_outs := [ {| o_sh := 1; o_val := 5; o_class := CStd |} ] |}.
  Definition t11 : tx := {| t_id := 11; t_cb := false; t_ins := [(1, 0)%N]; t_outs := [ {| o_sh := 9; o_val := 5; o_class := CStd |} ] |}.
  Definition b1 : block := {| b_id := 1; b_prev := 0; b_height := 1; b_txs := [cb 1] |}.
  Definition b2 : block := {| b_id := 2; b_prev := 1; b_height := 2; b_txs := [cb 2; t11] |}.
  Definition b3 : block := {| b_id := 3; b_prev := 2; b_height := 3; b_txs := [cb 3] |}.
  Definition evs : list pevent :=
    [PvOwner 1 1; PvAttach b1; PvProcess b1; PvAttach b2; PvProcess b2; PvReceive t10; PvAttach b3; PvProcess b3].
End StaleConflict.

Theorem pending_on_spent_coin_reachable :
  exists p g h X tX c,
    wf_phistory g h /\ powners_before_seen g h /\ seen_ids_agree g h /\
    let s := h_store (q_h (prun p true g h)) in
    pend s X = Some (USer tX) /\ In c (credits (ps_w s)) /\ c_spent c <> None /\ In (credit_op c) (t_ins tX).
Proof.
  exists StaleConflict.p, StaleConflict.g, StaleConflict.evs, 10%N, StaleConflict.t10,
    {| c_tx := 1; c_vout := 0; c_height := 1; c_bid := 1; c_amount := 5; c_sh := 1; c_wallet := 1;
       c_class := CStd; c_maturity := 1; c_spent := Some (11%N, 0%N, 2) |}.
  split; [apply wf_phistory_b_sound; vm_compute; reflexivity|].
  split; [apply powners_before_seen_b_sound; vm_compute; reflexivity|].
  split; [apply seen_ids_agree_b_sound; vm_compute; reflexivity|].
  vm_compute. split; [reflexivity|]. split; [left; reflexivity|]. split; [discriminate|left; reflexivity].
Qed.

(* Item 2, "when an intermediate transaction IS in the block": [conflict_full_descendants_vanish] shows that the
   node's chain is then not well formed.  What the model does with such a block depends on the order of the
   block's transactions.  t10 (pending) spends the wallet coin (1,0) and pays the wallet; t13 spends (10,0), t14
   spends (13,0), both pending.  The block contains t11 (double-spending (1,0)) AND t13, whose parent t10 is on no
   chain.  With t11 first, removeConflict takes t10, t13 and t14 out of the pending set, then t13 is recorded as
   mined: its pending child t14 is gone although t13 confirmed.  With t13 first, t13 settles, t11 then removes
   t10 only, and t14 stays pending on the coin (13,0) of the ledger. *)
Module BadBlock.
  Definition p : params := {| p_cbmat := 1; p_bindlock := 4294967294 |}.
  Definition g : block := {| b_id := 0; b_prev := 0; b_height := 0; b_txs := [] |}.
  Definition cb (id : N) : tx := {| t_id := id; t_cb := true; t_ins := []; t_outs := [ {| o_sh := 1; o_val := 5; o_class := CStd |} ] |}.
  Definition pay (sh : N) : txout := {| o_sh := sh; o_val := 5; o_class := CStd |}.
  Definition t10 : tx := {| t_id := 10; t_cb := false; t_ins := [(1, 0)%N]; t_outs := [pay 1] |}.
  Definition t11 : tx := {| t_id := 11; t_cb := false; t_ins := [(1, 0)%N]; t_outs := [pay 9] |}.
  Definition t13 : tx := {| t_id := 13; t_cb := false; t_ins := [(10, 0)%N]; t_outs := [pay 1] |}.
  Definition t14 : tx := {| t_id := 14; t_cb := false; t_ins := [(13, 0)%N]; t_outs := [pay 9] |}.
  Definition b1 : block := {| b_id := 1; b_prev := 0; b_height := 1; b_txs := [cb 1] |}.
  Definition b2 : block := {| b_id := 2; b_prev := 1; b_height := 2; b_txs := [cb 2] |}.
  Definition bad (txs : list tx) : block := {| b_id := 3; b_prev := 2; b_height := 3; b_txs := cb 3 :: txs |}.
  Definition evs (txs : list tx) : list pevent :=
    [PvOwner 1 1; PvAttach b1; PvProcess b1; PvAttach b2; PvProcess b2; PvReceive t10; PvReceive t13; PvReceive t14;
     PvAttach (bad txs); PvProcess (bad txs)].
End BadBlock.

Theorem invalid_block_order_dependent :
  let s1 := h_store (q_h (prun BadBlock.p true BadBlock.g (BadBlock.evs [BadBlock.t11; BadBlock.t13]))) in
  let s2 := h_store (q_h (prun BadBlock.p true BadBlock.g (BadBlock.evs [BadBlock.t13; BadBlock.t11]))) in
  (tx_recorded s1 13%N = true /\ ps_unmined s1 = [] /\ ps_uinputs s1 = []) /\
  (tx_recorded s2 13%N = true /\ read_unmined s2 14%N = RdOk BadBlock.t14 /\ read_unmined s2 10%N = RdNone /\
   spent_by_unmined s2 (13, 0)%N = true) /\
  ~ wf_chain (q_node (prun BadBlock.p true BadBlock.g (BadBlock.evs [BadBlock.t11; BadBlock.t13]))).
Proof.
  split; [vm_compute; repeat split; reflexivity|]. split; [vm_compute; repeat split; reflexivity|].
  intros Hwf. pose proof (wf_inputs _ Hwf) as Hin.
  assert (Hc : created_before ([] ++ chain_txs (q_node (prun BadBlock.p true BadBlock.g (BadBlock.evs [BadBlock.t11; BadBlock.t13])))) (10, 0)%N).
  { apply (inputs_ok_in _ [] BadBlock.t13 (10, 0)%N Hin); [vm_compute; tauto|left; reflexivity]. }
  destruct Hc as [t [Ht [Hid _]]]. vm_compute in Ht. cbn in Hid.
  repeat (destruct Ht as [<-|Ht]; [discriminate Hid|]). destruct Ht.
Qed.
