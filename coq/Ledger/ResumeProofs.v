(* Ledger/ResumeProofs.v — a crash after any committed import batch / removal round, a restart and the
   continuation end in the same persistent state as the run that never crashed (Ledger/Resume.v). *)
From Coq Require Import List ZArith NArith Bool Lia.
Import ListNotations.
Open Scope Z_scope.
Require Import MW.Ledger.Model MW.Ledger.Spec MW.Ledger.Run MW.Ledger.WF MW.Ledger.Import MW.Ledger.Remove.
Require Import MW.Ledger.Proofs MW.Ledger.Proofs2 MW.Ledger.RemoveProofs MW.Ledger.ImportProofs.
Require Import MW.Ledger.Resume.

(* ================================================================ A. the volatile fields are a frame *)

(* the store with other volatile fields *)
Definition vol (d q : list N) (st : xstate) : xstate :=
  {| x_w := x_w st; x_keys := x_keys st; x_pass := x_pass st; x_status := x_status st; x_brecs := x_brecs st;
     x_balrow := x_balrow st; x_ugame := x_ugame st; x_dead := d; x_p1 := q |}.

Definition xmap (f : xstate -> xstate) (r : xres xstate) : xres xstate :=
  match r with XOk s => XOk (f s) | XErr => XErr | XPanic => XPanic end.

Lemma vol_self : forall st, vol (x_dead st) (x_p1 st) st = st.
Proof. intros st. destruct st. reflexivity. Qed.

Lemma peq_vol : forall a b, peq a b -> a = vol (x_dead a) (x_p1 a) b.
Proof.
  intros a b H. rewrite <- (vol_self a) at 1. unfold peq, xreopen in H. unfold vol.
  inversion H. reflexivity.
Qed.

Lemma peq_of_vol : forall d q st, peq (vol d q st) st.
Proof. intros. reflexivity. Qed.

Lemma peq_refl : forall a, peq a a.
Proof. intros a. reflexivity. Qed.

Lemma peq_sym : forall a b, peq a b -> peq b a.
Proof. intros a b H. unfold peq in *. symmetry. assumption. Qed.

Lemma peq_trans : forall a b c, peq a b -> peq b c -> peq a c.
Proof. intros a b c H1 H2. unfold peq in *. congruence. Qed.

Lemma xreopen_idem : forall st, xreopen (xreopen st) = xreopen st.
Proof. intros st. reflexivity. Qed.

Lemma peq_reopen : forall st, peq (xreopen st) st.
Proof. intros st. reflexivity. Qed.

Lemma xreopen_vol : forall st, xreopen st = vol [] [] st.
Proof. intros st. reflexivity. Qed.

(* what [peq] preserves *)
Lemma peq_fields : forall a b, peq a b ->
  x_w a = x_w b /\ x_keys a = x_keys b /\ x_pass a = x_pass b /\ x_status a = x_status b /\
  x_brecs a = x_brecs b /\ x_balrow a = x_balrow b /\ x_ugame a = x_ugame b.
Proof. intros a b H. unfold peq, xreopen in H. inversion H. repeat split; assumption. Qed.

Lemma peq_status_of : forall a b w, peq a b -> status_of a w = status_of b w.
Proof. intros a b w H. unfold status_of. destruct (peq_fields a b H) as [_ [_ [_ [Hs _]]]]. rewrite Hs. reflexivity. Qed.

Lemma peq_no_residue : forall a b w, peq a b -> no_residue b w -> no_residue a w.
Proof.
  intros a b w H [H1 H2]. destruct (peq_fields a b H) as [_ [_ [_ [_ [_ [Hb Hu]]]]]].
  split; [rewrite Hb; assumption|rewrite Hu; assumption].
Qed.

Lemma peq_mentions : forall a b w shs, peq a b -> mentions a w shs = mentions b w shs.
Proof.
  intros a b w shs H. destruct (peq_fields a b H) as [Hw [Hk [Hp [Hs [_ [Hb Hu]]]]]].
  unfold mentions, status_of. rewrite Hw, Hk, Hp, Hs, Hb, Hu. reflexivity.
Qed.

Lemma peq_xreport : forall a b w, peq a b -> xreport a w = xreport b w.
Proof. intros a b w H. unfold xreport. destruct (peq_fields a b H) as [Hw _]. rewrite Hw. reflexivity. Qed.

Lemma xstep_restart_reopen : forall s,
  {| x_w := x_w (xs_st s); x_keys := x_keys (xs_st s); x_pass := x_pass (xs_st s);
     x_status := x_status (xs_st s); x_brecs := x_brecs (xs_st s); x_balrow := x_balrow (xs_st s);
     x_ugame := x_ugame (xs_st s); x_dead := []; x_p1 := [] |} = xreopen (xs_st s).
Proof. intros s. reflexivity. Qed.

(* the restart of the event system, in terms of [xreopen] *)
Lemma xstep_restart : forall fx p B cap s,
  xstep fx p B cap s XRestart =
  match start_sync fx p (xs_node s) (xreopen (xs_st s)) with
  | XOk st' => {| xs_node := xs_node s; xs_st := st'; xs_all := xs_all s; xs_crashed := false |}
  | XErr => {| xs_node := xs_node s; xs_st := xreopen (xs_st s); xs_all := xs_all s; xs_crashed := false |}
  | XPanic => {| xs_node := xs_node s; xs_st := xreopen (xs_st s); xs_all := xs_all s; xs_crashed := true |}
  end.
Proof. intros. reflexivity. Qed.

(* ---------------------------------------------------------------- processing a block *)

Lemma xconnect_block_vol : forall p n d q st b,
  xconnect_block p n (vol d q st) b = xmap (vol d q) (xconnect_block p n st b).
Proof.
  intros p n d q st b. unfold xconnect_block.
  change (ready_own (vol d q st)) with (ready_own st).
  change (x_w (vol d q st)) with (x_w st).
  change (x_brecs (vol d q st)) with (x_brecs st).
  destruct (node_at n (b_height b)) as [nb|]; [|reflexivity].
  destruct (negb (b_id nb =? b_id b)%N); [reflexivity|].
  destruct (filter_block_txs _ _ _ _ _); [|reflexivity].
  destruct (connect_block _ _ _ _ _ _ _); reflexivity.
Qed.

Lemma xconnect_all_vol : forall p n d q bs st,
  xconnect_all p n (vol d q st) bs = xmap (vol d q) (xconnect_all p n st bs).
Proof.
  intros p n d q bs. induction bs as [|b r IH]; intros st; [reflexivity|].
  cbn [xconnect_all]. rewrite xconnect_block_vol.
  destruct (xconnect_block p n st b) as [st1| |]; cbn [xmap]; [apply IH|reflexivity|reflexivity].
Qed.

Lemma xrollback_vol : forall fx d q st h,
  xrollback fx (vol d q st) h = xmap (vol d q) (xrollback fx st h).
Proof.
  intros fx d q st h. unfold xrollback.
  change (key_owner (vol d q st)) with (key_owner st).
  change (status_of (vol d q st)) with (status_of st).
  cbn [vol x_w x_keys x_pass x_status x_brecs x_balrow x_ugame x_dead x_p1].
  destruct (negb (f_rollback fx) && existsb _ (credits (x_w st))); [reflexivity|].
  destruct (negb (f_rollback_order fx) && existsb _ (credits (x_w st))); reflexivity.
Qed.

Lemma xprocess_vol : forall fx p n d q st b,
  xprocess fx p n (vol d q st) b = xmap (vol d q) (xprocess fx p n st b).
Proof.
  intros fx p n d q st b. unfold xprocess.
  change (x_w (vol d q st)) with (x_w st).
  destruct (snd (tip (x_w st)) =? b_prev b)%N; [apply xconnect_all_vol|].
  destruct (collect n (x_w st) (S (Z.to_nat (b_height b))) b []) as [[fork bs]|]; [|reflexivity].
  rewrite xrollback_vol. destruct (xrollback fx st (fork + 1)) as [st1| |]; cbn [xmap]; [apply xconnect_all_vol|reflexivity|reflexivity].
Qed.

(* processing a block: same outcome on stores with the same persistent state, and the volatile fields
   are not touched *)
Theorem xprocess_peq : forall fx p n a b blk, peq a b ->
  match xprocess fx p n a blk, xprocess fx p n b blk with
  | XOk a', XOk b' => peq a' b' /\ x_dead a' = x_dead a /\ x_p1 a' = x_p1 a
  | XErr, XErr => True
  | XPanic, XPanic => True
  | _, _ => False
  end.
Proof.
  intros fx p n a b blk H. pose proof (peq_vol a b H) as E.
  set (d := x_dead a) in *. set (q := x_p1 a) in *. clearbody d q. subst a. rewrite xprocess_vol.
  destruct (xprocess fx p n b blk) as [b'| |]; cbn [xmap]; auto.
  split; [apply peq_of_vol|split; reflexivity].
Qed.

Lemma xprocess_volatile : forall fx p n st blk st',
  xprocess fx p n st blk = XOk st' -> x_dead st' = x_dead st /\ x_p1 st' = x_p1 st.
Proof.
  intros fx p n st blk st' H. pose proof (xprocess_peq fx p n st st blk (peq_refl st)) as Hc.
  rewrite H in Hc. tauto.
Qed.

Lemma catchup_vol : forall fx p n d q fuel st,
  catchup fx p n (vol d q st) fuel = xmap (vol d q) (catchup fx p n st fuel).
Proof.
  intros fx p n d q fuel. induction fuel as [|f IH]; intros st; [reflexivity|].
  cbn [catchup]. change (x_w (vol d q st)) with (x_w st).
  destruct (node_at n (fst (tip (x_w st)) + 1)) as [b|]; [|reflexivity].
  rewrite xprocess_vol. destruct (xprocess fx p n st b) as [st1| |]; cbn [xmap]; [apply IH|reflexivity|reflexivity].
Qed.

Lemma start_sync_vol : forall fx p n d q st,
  start_sync fx p n (vol d q st) = xmap (vol d q) (start_sync fx p n st).
Proof.
  intros fx p n d q st. unfold start_sync. rewrite catchup_vol.
  change (x_w (vol d q st)) with (x_w st).
  destruct (catchup fx p n st (length n)) as [st1| |]; cbn [xmap]; [|reflexivity|reflexivity].
  destruct (f_start_reorg fx && (Z.of_nat (length n) - 1 <=? fst (tip (x_w st)))); [|reflexivity].
  destruct (node_at n (Z.of_nat (length n) - 1)) as [b|]; [|reflexivity].
  change (x_w (vol d q st1)) with (x_w st1).
  destruct (b_id b =? snd (tip (x_w st1)))%N; [reflexivity|apply xprocess_vol].
Qed.

(* Start's catch-up: same outcome on stores with the same persistent state *)
Theorem start_sync_peq : forall fx p n a b, peq a b ->
  match start_sync fx p n a, start_sync fx p n b with
  | XOk a', XOk b' => peq a' b' /\ x_dead a' = x_dead a /\ x_p1 a' = x_p1 a
  | XErr, XErr => True
  | XPanic, XPanic => True
  | _, _ => False
  end.
Proof.
  intros fx p n a b H. pose proof (peq_vol a b H) as E.
  set (d := x_dead a) in *. set (q := x_p1 a) in *. clearbody d q. subst a. rewrite start_sync_vol.
  destruct (start_sync fx p n b) as [b'| |]; cbn [xmap]; auto.
  split; [apply peq_of_vol|split; reflexivity].
Qed.

(* ---------------------------------------------------------------- one import batch *)

(* [import_batch] reads the volatile state only through [memN w (x_dead _)] *)
Theorem import_batch_peq : forall fx p B n a b w,
  peq a b -> memN w (x_dead a) = memN w (x_dead b) ->
  peq (fst (import_batch fx p B n a w)) (fst (import_batch fx p B n b w)) /\
  snd (import_batch fx p B n a w) = snd (import_batch fx p B n b w).
Proof.
  intros fx p B n a b w H Hd. pose proof (peq_vol a b H) as E.
  set (d := x_dead a) in *. set (q := x_p1 a) in *. clearbody d q. subst a.
  cbn [vol x_dead] in Hd. unfold import_batch.
  change (status_of (vol d q b) w) with (status_of b w).
  change (own_w (vol d q b) w) with (own_w b w).
  change (x_w (vol d q b)) with (x_w b). change (x_brecs (vol d q b)) with (x_brecs b).
  change (x_dead (vol d q b)) with d.
  destruct (status_of b w) as [[|k|]|]; try (split; reflexivity).
  rewrite Hd. destruct (memN w (x_dead b)); [split; reflexivity|].
  destruct (import_blocks _ _ _ _ _ _ _) as [[cs brs]|e]; [destruct (f_import_tipcheck fx && negb _); split; reflexivity|].
  destruct e; [split; reflexivity|split; reflexivity|]. destruct (f_import_retry fx); split; reflexivity.
Qed.

(* the repaired worker never drops an import task; no batch touches [x_p1] *)
Lemma import_batch_volatile : forall fx p B n st w,
  (f_import_retry fx = true -> x_dead (fst (import_batch fx p B n st w)) = x_dead st) /\
  x_p1 (fst (import_batch fx p B n st w)) = x_p1 st.
Proof.
  intros fx p B n st w. unfold import_batch.
  destruct (status_of st w) as [[|k|]|]; try (split; reflexivity).
  destruct (memN w (x_dead st)); [split; reflexivity|].
  destruct (import_blocks _ _ _ _ _ _ _) as [[cs brs]|e]; [destruct (f_import_tipcheck fx && negb _); split; reflexivity|].
  destruct e; [split; reflexivity|split; reflexivity|].
  destruct (f_import_retry fx); split; try reflexivity. discriminate.
Qed.

(* a batch that committed did not drop the task *)
Lemma import_batch_ok_dead : forall fx p B n st w st',
  import_batch fx p B n st w = (st', IOk) -> x_dead st' = x_dead st.
Proof.
  intros fx p B n st w st' H. unfold import_batch in H.
  destruct (status_of st w) as [[|k|]|]; try (inversion H; reflexivity).
  destruct (memN w (x_dead st)); [inversion H; reflexivity|].
  destruct (import_blocks _ _ _ _ _ _ _) as [[cs brs]|e]; [destruct (f_import_tipcheck fx && negb _); inversion H; reflexivity|].
  destruct e; [inversion H; reflexivity|discriminate|]. destruct (f_import_retry fx); discriminate.
Qed.

(* ---------------------------------------------------------------- the removal steps *)

Theorem remove_phase1_peq : forall a b w, peq a b -> peq (remove_phase1 a w) (remove_phase1 b w).
Proof.
  intros a b w H. rewrite (peq_vol a b H). generalize (x_dead a) (x_p1 a). intros d q.
  unfold remove_phase1. change (status_of (vol d q b) w) with (status_of b w).
  change (x_pass (vol d q b)) with (x_pass b).
  destruct (status_of b w) as [[|k|]|]; try reflexivity.
  destruct (is_some (lookupN (x_pass b) w)); reflexivity.
Qed.

(* [remove_round] reads the volatile state only through [memN w (x_p1 _)] *)
Theorem remove_round_peq : forall fx cap n lookup a b w,
  peq a b -> memN w (x_p1 a) = memN w (x_p1 b) ->
  peq (fst (remove_round fx cap n lookup a w)) (fst (remove_round fx cap n lookup b w)) /\
  snd (remove_round fx cap n lookup a w) = snd (remove_round fx cap n lookup b w).
Proof.
  intros fx cap n lookup a b w H Hq. pose proof (peq_vol a b H) as E.
  set (d := x_dead a) in *. set (q := x_p1 a) in *. clearbody d q. subst a.
  cbn [vol x_p1] in Hq. unfold remove_round.
  change (status_of (vol d q b) w) with (status_of b w).
  change (sh_of_wallet (vol d q b) w) with (sh_of_wallet b w).
  change (x_p1 (vol d q b)) with q.
  change (x_w (vol d q b)) with (x_w b). change (x_brecs (vol d q b)) with (x_brecs b).
  destruct (status_of b w) as [[|k|]|]; try (split; reflexivity).
  rewrite Hq. destruct (memN w (x_p1 b)); [|split; reflexivity].
  destruct (match sh_of_wallet b w with [] => _ | _ => _ end) as [[kept hot] fin].
  assert (Hrep : forall brs, repair fx (vol d q b) (sh_of_wallet b w) n lookup brs hot = repair fx b (sh_of_wallet b w) n lookup brs hot).
  { induction hot as [|[t h] r IH]; intros brs; [reflexivity|]. cbn [repair].
    change (removable fx (vol d q b)) with (removable fx b). apply IH. }
  rewrite Hrep. destruct fin; split; reflexivity.
Qed.

(* phase 1 changes nothing persistent in a store that holds no row of the wallet *)
Theorem remove_phase1_idem : forall st w, no_residue st w -> peq (remove_phase1 st w) st.
Proof.
  intros st w [Hb Hu]. unfold remove_phase1.
  destruct (status_of st w) as [[|k|]|]; try reflexivity.
  destruct (is_some (lookupN (x_pass st) w)); [|reflexivity].
  unfold peq, xreopen. cbn [x_w x_keys x_pass x_status x_brecs x_balrow x_ugame].
  assert (H1 : remN w (x_balrow st) = x_balrow st).
  { unfold remN. apply filter_all_true. intros y Hy. apply negb_true_iff. apply N.eqb_neq. intros E. subst y.
    apply memN_false in Hb. contradiction. }
  assert (H2 : filter (fun e => negb (fst (fst e) =? w)%N) (x_ugame st) = x_ugame st).
  { apply filter_all_true. intros e He. apply negb_true_iff. apply N.eqb_neq. apply Hu. assumption. }
  rewrite H1, H2. reflexivity.
Qed.

(* ================================================================ B. the simulation *)

(* ---------------------------------------------------------------- what the steps do to the status of w *)

Lemma xconnect_block_frame : forall p n st b st',
  xconnect_block p n st b = XOk st' -> x_status st' = x_status st /\ x_pass st' = x_pass st.
Proof.
  intros p n st b st' H. unfold xconnect_block in H.
  destruct (node_at n (b_height b)); [|discriminate].
  destruct (negb (b_id b0 =? b_id b)%N); [discriminate|].
  destruct (filter_block_txs _ _ _ _ _); [|discriminate].
  destruct (connect_block _ _ _ _ _ _ _); [|discriminate].
  inversion H. subst. split; reflexivity.
Qed.

Lemma xconnect_all_frame : forall p n bs st st',
  xconnect_all p n st bs = XOk st' -> x_status st' = x_status st /\ x_pass st' = x_pass st.
Proof.
  intros p n bs. induction bs as [|b r IH]; intros st st' H.
  - inversion H. split; reflexivity.
  - cbn [xconnect_all] in H. destruct (xconnect_block p n st b) as [st1| |] eqn:Hb; try discriminate.
    destruct (xconnect_block_frame _ _ _ _ _ Hb) as [H1 H2]. destruct (IH _ _ H) as [H3 H4].
    split; congruence.
Qed.

Lemma xrollback_removing : forall fx st h st' w,
  xrollback fx st h = XOk st' ->
  (status_of st' w = Some WRemoving -> status_of st w = Some WRemoving) /\ x_pass st' = x_pass st.
Proof.
  intros fx st h st' w H. unfold xrollback in H.
  destruct (negb (f_rollback fx) && existsb _ (credits (x_w st))); [discriminate|].
  destruct (negb (f_rollback_order fx) && existsb _ (credits (x_w st))); [discriminate|].
  inversion H. subst st'. clear H. split; [|reflexivity]. unfold status_of. cbn [x_status].
  induction (x_status st) as [|[k0 v0] r IH]; [discriminate|].
  cbn [map fst snd lookupN]. destruct (k0 =? w)%N; [|exact IH].
  destruct v0; cbn [pull_back]; intros E; try discriminate. reflexivity.
Qed.

(* processing a block never flags a wallet for removal and keeps the passphrases *)
Lemma xprocess_removing : forall fx p n st b st' w,
  xprocess fx p n st b = XOk st' ->
  (status_of st' w = Some WRemoving -> status_of st w = Some WRemoving) /\ x_pass st' = x_pass st.
Proof.
  intros fx p n st b st' w H. unfold xprocess in H.
  destruct (snd (tip (x_w st)) =? b_prev b)%N.
  - destruct (xconnect_all_frame _ _ _ _ _ H) as [H1 H2]. unfold status_of. rewrite H1. split; [auto|assumption].
  - destruct (collect n (x_w st) (S (Z.to_nat (b_height b))) b []) as [[fork bs]|]; [|discriminate].
    destruct (xrollback fx st (fork + 1)) as [st1| |] eqn:Hr; try discriminate.
    destruct (xrollback_removing _ _ _ _ w Hr) as [H1 H2].
    destruct (xconnect_all_frame _ _ _ _ _ H) as [H3 H4]. unfold status_of in *. rewrite H3. split; [assumption|congruence].
Qed.

(* an import batch does nothing to a wallet that is being removed, and flags no wallet for removal *)
Lemma import_batch_removing : forall fx p B n st w,
  status_of (fst (import_batch fx p B n st w)) w = Some WRemoving -> fst (import_batch fx p B n st w) = st.
Proof.
  intros fx p B n st w. unfold import_batch.
  destruct (status_of st w) as [[|k|]|] eqn:Hs; try (intros; reflexivity).
  destruct (memN w (x_dead st)); [intros; reflexivity|].
  destruct (import_blocks _ _ _ _ _ _ _) as [[cs brs]|e].
  - destruct (f_import_tipcheck fx && negb _); [intros; reflexivity|].
    cbn [fst]. unfold status_of, with_status. cbn [x_status]. rewrite lookupN_setN_same.
    destruct (_ =? _); discriminate.
  - destruct e; [intros; reflexivity|intros; reflexivity|].
    destruct (f_import_retry fx); [intros; reflexivity|].
    cbn [fst]. unfold status_of, with_dead. cbn [x_status]. unfold status_of in Hs. rewrite Hs. discriminate.
Qed.

(* a round that leaves the wallet flagged was not the last one: only credits and block records changed *)
Lemma remove_round_removing : forall fx cap n lookup st w,
  status_of (fst (remove_round fx cap n lookup st w)) w = Some WRemoving ->
  status_of st w = Some WRemoving /\
  x_balrow (fst (remove_round fx cap n lookup st w)) = x_balrow st /\
  x_ugame (fst (remove_round fx cap n lookup st w)) = x_ugame st /\
  x_pass (fst (remove_round fx cap n lookup st w)) = x_pass st /\
  x_p1 (fst (remove_round fx cap n lookup st w)) = x_p1 st.
Proof.
  intros fx cap n lookup st w. unfold remove_round.
  destruct (status_of st w) as [[|k|]|] eqn:Hs; cbn [fst]; try (intros E; rewrite Hs in E; discriminate).
  destruct (memN w (x_p1 st)); [|cbn [fst]; intros; repeat split; reflexivity].
  destruct (match sh_of_wallet st w with [] => _ | _ => _ end) as [[kept hot] fin].
  destruct fin; cbn [fst].
  - unfold status_of. cbn [x_status]. rewrite lookupN_delN. discriminate.
  - intros; repeat split; reflexivity.
Qed.

Lemma remove_round_dead : forall fx cap n lookup st w,
  x_dead (fst (remove_round fx cap n lookup st w)) = x_dead st.
Proof.
  intros fx cap n lookup st w. unfold remove_round.
  destruct (status_of st w) as [[|k|]|]; try reflexivity.
  destruct (memN w (x_p1 st)); [|reflexivity].
  destruct (match sh_of_wallet st w with [] => _ | _ => _ end) as [[kept hot] fin].
  destruct fin; reflexivity.
Qed.

Lemma remove_phase1_dead : forall st w, x_dead (remove_phase1 st w) = x_dead st.
Proof.
  intros st w. unfold remove_phase1. destruct (status_of st w) as [[|k|]|]; try reflexivity.
  destruct (is_some (lookupN (x_pass st) w)); reflexivity.
Qed.

Lemma rm_step_dead : forall fx cap n all st w, x_dead (rm_step fx cap n all st w) = x_dead st.
Proof.
  intros. unfold rm_step. destruct (memN w (x_p1 st)); [apply remove_round_dead|apply remove_phase1_dead].
Qed.

(* the removal task does nothing to a wallet that is not flagged *)
Lemma rm_step_noop : forall fx cap n all st w,
  status_of st w <> Some WRemoving -> rm_step fx cap n all st w = st.
Proof.
  intros fx cap n all st w H. unfold rm_step, remove_round, remove_phase1.
  destruct (status_of st w) as [[|k|]|]; try (destruct (memN w (x_p1 st)); reflexivity).
  contradiction.
Qed.

(* ---------------------------------------------------------------- the invariant *)

(* the removal of w is under way: phase 1 has been done (no row of w is left, the uncrashed process
   remembers it), the keystore is still there, and the crashed process remembers phase 1 iff its
   task has taken a step since the last reopen; [hp]: block announcements are still to come *)
Definition removing_inv (fx : fixes) (w : N) (fresh hp : bool) (a b : xstate) : Prop :=
  no_residue b w /\ is_some (lookupN (x_pass b) w) = true /\
  memN w (x_p1 b) = true /\ memN w (x_p1 a) = negb fresh /\
  (hp = true -> f_rollback fx = true).

Lemma removing_inv_weaken : forall fx w fresh hp hp' a b,
  (hp' = true -> hp = true) -> removing_inv fx w fresh hp a b -> removing_inv fx w fresh hp' a b.
Proof. intros fx w fresh hp hp' a b Hh [H1 [H2 [H3 [H4 H5]]]]. repeat split; auto. destruct H1; assumption. destruct H1; assumption. Qed.

Lemma task_sim : forall fx p B cap w es fresh a b,
  peq a b ->
  (existsb is_batch es = true ->
     f_import_retry fx = true /\ memN w (x_dead a) = false /\ memN w (x_dead b) = false) ->
  (existsb is_step es = true -> status_of b w = Some WRemoving ->
     removing_inv fx w fresh (existsb is_proc es) a b) ->
  peq (srun fx p B cap w a es) (srun fx p B cap w b (erase fresh es)).
Proof.
  intros fx p B cap w es. induction es as [|e r IH]; intros fresh a b Hpeq HB HS; [exact Hpeq|].
  destruct e as [n|n all|n blk|].
  - (* one import batch *)
    cbn [erase]. unfold srun. cbn [fold_left sstep]. fold (srun fx p B cap w).
    destruct (HB eq_refl) as [Hretry [Da Db]].
    destruct (import_batch_peq fx p B n a b w Hpeq (eq_trans Da (eq_sym Db))) as [Hp' _].
    destruct (import_batch_volatile fx p B n a w) as [Hda _].
    destruct (import_batch_volatile fx p B n b w) as [Hdb _].
    apply IH.
    + exact Hp'.
    + intros _. rewrite (Hda Hretry), (Hdb Hretry). auto.
    + intros Hs Hst.
      assert (Eb : fst (import_batch fx p B n b w) = b) by (apply import_batch_removing; exact Hst).
      assert (Ea : fst (import_batch fx p B n a w) = a).
      { apply import_batch_removing. rewrite (peq_status_of _ _ w Hp'). exact Hst. }
      rewrite Ea, Eb. rewrite Eb in Hst. apply HS; assumption.
  - (* the removal task takes a step *)
    destruct fresh.
    + (* first step after a reopen: phase 1 again; the uncrashed run does nothing *)
      cbn [erase]. unfold srun at 1. cbn [fold_left sstep]. fold (srun fx p B cap w).
      destruct (status_of b w) as [[|k|]|] eqn:Hst.
      1,2,4: rewrite rm_step_noop by (rewrite (peq_status_of _ _ w Hpeq), Hst; discriminate);
             apply IH; [exact Hpeq|intros Hb; apply HB; cbn [existsb is_batch orb]; exact Hb|
                        intros _ E; rewrite Hst in E; discriminate].
      destruct (HS eq_refl eq_refl) as [Hres [Hpass [Hq1b [Hq1a Hfx]]]]. cbn [negb] in Hq1a.
      unfold rm_step. rewrite Hq1a.
      assert (Hsta : status_of a w = Some WRemoving) by (rewrite (peq_status_of _ _ w Hpeq); exact Hst).
      assert (Hpa : is_some (lookupN (x_pass a) w) = true).
      { destruct (peq_fields a b Hpeq) as [_ [_ [Hp _]]]. rewrite Hp. exact Hpass. }
      apply IH.
      * apply (peq_trans _ (remove_phase1 b w)); [apply remove_phase1_peq; exact Hpeq|apply remove_phase1_idem; exact Hres].
      * intros Hb. rewrite remove_phase1_dead. apply HB. cbn [existsb is_batch orb]. exact Hb.
      * intros _ _. destruct (remove_phase1_no_residue a w Hsta Hpa) as [_ H].
        split; [exact Hres|]. split; [exact Hpass|]. split; [exact Hq1b|]. split; [exact H|exact Hfx].
    + (* both runs take the same step *)
      cbn [erase]. unfold srun. cbn [fold_left sstep]. fold (srun fx p B cap w).
      destruct (status_of b w) as [[|k|]|] eqn:Hst.
      1,2,4: rewrite (rm_step_noop fx cap n all a) by (rewrite (peq_status_of _ _ w Hpeq), Hst; discriminate);
             rewrite (rm_step_noop fx cap n all b) by (rewrite Hst; discriminate);
             apply IH; [exact Hpeq|intros Hb; apply HB; cbn [existsb is_batch orb]; exact Hb|
                        intros _ E; rewrite Hst in E; discriminate].
      destruct (HS eq_refl eq_refl) as [Hres [Hpass [Hq1b [Hq1a Hfx]]]]. cbn [negb] in Hq1a.
      pose proof (rm_step_dead fx cap n all a w) as Hda. pose proof (rm_step_dead fx cap n all b w) as Hdb.
      unfold rm_step in *. rewrite Hq1a, Hq1b in *.
      destruct (remove_round_peq fx cap n (find_tx all) a b w Hpeq (eq_trans Hq1a (eq_sym Hq1b))) as [Hp' _].
      apply IH.
      * exact Hp'.
      * intros Hb. rewrite Hda, Hdb. apply HB. cbn [existsb is_batch orb]. exact Hb.
      * intros _ Hst'.
        destruct (remove_round_removing fx cap n (find_tx all) b w Hst') as [_ [Eb [Eu [Ep Eq]]]].
        rewrite <- (peq_status_of _ _ w Hp') in Hst'.
        destruct (remove_round_removing fx cap n (find_tx all) a w Hst') as [_ [_ [_ [_ Eqa]]]].
        destruct Hres as [Hr1 Hr2].
        split; [split; [rewrite Eb; exact Hr1|rewrite Eu; exact Hr2]|].
        split; [rewrite Ep; exact Hpass|]. split; [rewrite Eq; exact Hq1b|]. split; [rewrite Eqa; exact Hq1a|].
        intros Hp. apply Hfx. cbn [existsb is_proc orb]. exact Hp.
  - (* a block announcement is processed *)
    cbn [erase]. unfold srun. cbn [fold_left sstep]. fold (srun fx p B cap w).
    pose proof (xprocess_peq fx p n a b blk Hpeq) as Hc.
    destruct (xprocess fx p n a blk) as [a'| |] eqn:Ha; destruct (xprocess fx p n b blk) as [b'| |] eqn:Hb;
      try contradiction.
    + destruct Hc as [Hp' [Hda Hqa]]. destruct (xprocess_volatile _ _ _ _ _ _ Hb) as [Hdb Hqb].
      destruct (xprocess_removing _ _ _ _ _ _ w Hb) as [Hrm Hpass'].
      apply IH.
      * exact Hp'.
      * intros Hbt. rewrite Hda, Hdb. apply HB. cbn [existsb is_batch orb]. exact Hbt.
      * intros Hs Hst'. destruct (HS Hs (Hrm Hst')) as [Hres [Hpass [Hq1b [Hq1a Hfx]]]].
        assert (Hfr : f_rollback fx = true) by (apply Hfx; reflexivity).
        destruct (xprocess_repaired_safe fx p n b blk Hfr) as [_ Hsafe].
        split; [exact (Hsafe b' w Hb Hres)|]. split; [rewrite Hpass'; exact Hpass|].
        split; [rewrite Hqb; exact Hq1b|]. split; [rewrite Hqa; exact Hq1a|]. intros _. exact Hfr.
    + apply IH; [exact Hpeq|intros Hbt; apply HB; cbn [existsb is_batch orb]; exact Hbt|].
      intros Hs Hst. apply (removing_inv_weaken fx w fresh (existsb is_proc (SProc n blk :: r))); [intros; reflexivity|].
      apply HS; assumption.
    + apply IH; [exact Hpeq|intros Hbt; apply HB; cbn [existsb is_batch orb]; exact Hbt|].
      intros Hs Hst. apply (removing_inv_weaken fx w fresh (existsb is_proc (SProc n blk :: r))); [intros; reflexivity|].
      apply HS; assumption.
  - (* crash + reopen *)
    cbn [erase]. unfold srun at 1. cbn [fold_left sstep]. fold (srun fx p B cap w).
    apply IH.
    + apply (peq_trans _ a); [apply peq_reopen|exact Hpeq].
    + intros Hb. destruct (HB Hb) as [Hretry [_ Db]]. repeat split; assumption.
    + intros Hs Hst. destruct (HS Hs Hst) as [Hres [Hpass [Hq1b [_ Hfx]]]]. repeat split; try assumption; destruct Hres; assumption.
Qed.

(* ---------------------------------------------------------------- B. the general theorem *)

(* Any store, any events (batches, removal steps, block announcements processed — each with its own
   node chain — and crashes, in any order and number), any batch size and cap: the run with the
   crashes and the run without them end in the same persistent state.  What is needed:
   - if import batches occur: the worker retries (repaired) and the task of w has not been dropped;
   - if removal steps occur and w is flagged: the flag was set by a removal request whose phase 1 has
     been done in this process run (no row of w left, keystore still present), and, if block
     announcements occur as well, Rollback does not re-create rows of a wallet without a balance row *)
Theorem task_resumes_gen : forall fx p B cap w es st,
  (existsb is_batch es = true -> f_import_retry fx = true /\ memN w (x_dead st) = false) ->
  (existsb is_step es = true -> status_of st w = Some WRemoving ->
     no_residue st w /\ is_some (lookupN (x_pass st) w) = true /\ memN w (x_p1 st) = true /\
     (existsb is_proc es = true -> f_rollback fx = true)) ->
  peq (srun fx p B cap w st es) (srun fx p B cap w st (erase false es)).
Proof.
  intros fx p B cap w es st HB HS. apply task_sim.
  - apply peq_refl.
  - intros Hb. destruct (HB Hb) as [H1 H2]. auto.
  - intros Hs Hst. destruct (HS Hs Hst) as [H1 [H2 [H3 H4]]].
    split; [exact H1|]. split; [exact H2|]. split; [exact H3|]. split; [exact H3|exact H4].
Qed.

Theorem task_resumes : forall fx p B cap w es st,
  f_import_retry fx = true -> f_rollback fx = true ->
  memN w (x_dead st) = false ->
  (status_of st w = Some WRemoving ->
     memN w (x_p1 st) = true /\ no_residue st w /\ is_some (lookupN (x_pass st) w) = true) ->
  peq (srun fx p B cap w st es) (srun fx p B cap w st (erase false es)).
Proof.
  intros fx p B cap w es st Hretry Hroll Hdead Hrm. apply task_resumes_gen.
  - intros _. split; assumption.
  - intros _ Hst. destruct (Hrm Hst) as [H1 [H2 H3]].
    split; [exact H2|]. split; [exact H3|]. split; [exact H1|]. intros _. exact Hroll.
Qed.

(* the keystore condition cannot be dropped: a flagged wallet without a keystore entry (no reachable
   state: RemoveWallet checks the passphrase first) is never removed by a restarted task, because
   the model's phase 1 does nothing for it and so never records that it ran *)
Definition st_nokeystore : xstate :=
  {| x_w := {| credits := []; synced := [(0, 0%N)] |}; x_keys := []; x_pass := []; x_status := [(1%N, WRemoving)];
     x_brecs := []; x_balrow := []; x_ugame := []; x_dead := []; x_p1 := [1%N] |}.

Theorem task_resumes_needs_keystore :
  let es := [SReopen; SStep [] []; SStep [] []] in
  memN 1 (x_dead st_nokeystore) = false /\ memN 1 (x_p1 st_nokeystore) = true /\ no_residue st_nokeystore 1 /\
  status_of (srun repaired {| p_cbmat := 4; p_bindlock := 4 |} 2 1 1 st_nokeystore es) 1 = Some WRemoving /\
  status_of (srun repaired {| p_cbmat := 4; p_bindlock := 4 |} 2 1 1 st_nokeystore (erase false es)) 1 = None /\
  ~ peq (srun repaired {| p_cbmat := 4; p_bindlock := 4 |} 2 1 1 st_nokeystore es)
        (srun repaired {| p_cbmat := 4; p_bindlock := 4 |} 2 1 1 st_nokeystore (erase false es)).
Proof.
  cbv zeta. split; [reflexivity|]. split; [reflexivity|]. split; [split; [reflexivity|intros e []]|].
  split; [vm_compute; reflexivity|]. split; [vm_compute; reflexivity|].
  intros H. apply (peq_status_of _ _ 1%N) in H. vm_compute in H. discriminate.
Qed.

(* ---------------------------------------------------------------- C. import, removal *)

Lemma erase_no_step : forall es fresh, existsb is_step es = false ->
  erase fresh es = filter (fun e => negb (is_reopen e)) es.
Proof.
  intros es. induction es as [|e r IH]; intros fresh H; [reflexivity|].
  cbn [existsb] in H. apply orb_false_iff in H. destruct H as [He Hr].
  destruct e; cbn [erase filter is_reopen negb]; try discriminate; rewrite IH by assumption; reflexivity.
Qed.

(* a wallet restore interrupted by crashes after any of its batches, block announcements processed in
   between: same persistent state as the restore that was never interrupted (any store, any node
   chains) *)
Theorem import_resumes : forall fx p B cap w es st,
  f_import_retry fx = true -> memN w (x_dead st) = false ->
  (forall e, In e es -> is_step e = false) ->
  peq (srun fx p B cap w st es) (srun fx p B cap w st (filter (fun e => negb (is_reopen e)) es)).
Proof.
  intros fx p B cap w es st Hretry Hdead Hes.
  assert (Hns : existsb is_step es = false) by (apply existsb_false_forall; exact Hes).
  rewrite <- (erase_no_step es false Hns). apply task_resumes_gen.
  - intros _. split; assumption.
  - intros Hs. rewrite Hns in Hs. discriminate.
Qed.

Lemma remove_phase1_start : forall st0 w,
  status_of st0 w = Some WRemoving -> is_some (lookupN (x_pass st0) w) = true ->
  let st := remove_phase1 st0 w in
  status_of st w = Some WRemoving /\ no_residue st w /\ is_some (lookupN (x_pass st) w) = true /\ memN w (x_p1 st) = true.
Proof.
  intros st0 w Hst Hp st. destruct (remove_phase1_no_residue st0 w Hst Hp) as [H1 H2].
  destruct (remove_phase1_frames_others st0 w) as [_ [Hs [_ [Hpp _]]]].
  subst st. unfold status_of. rewrite Hs, Hpp. repeat split; try assumption; destruct H1; assumption.
Qed.

(* a wallet removal interrupted by crashes after phase 1 or after any round, block announcements
   processed in between *)
Theorem removal_resumes : forall fx p B cap w es st0,
  f_rollback fx = true ->
  status_of st0 w = Some WRemoving -> is_some (lookupN (x_pass st0) w) = true ->
  (forall e, In e es -> is_batch e = false) ->
  let crashed := srun fx p B cap w (remove_phase1 st0 w) es in
  let straight := srun fx p B cap w (remove_phase1 st0 w) (erase false es) in
  peq crashed straight /\
  (status_of straight w = None -> status_of crashed w = None) /\
  (forall shs, mentions crashed w shs = mentions straight w shs) /\
  (forall v, xreport crashed v = xreport straight v).
Proof.
  intros fx p B cap w es st0 Hroll Hst Hp Hes crashed straight.
  assert (H : peq crashed straight).
  { apply task_resumes_gen.
    - intros Hb. rewrite (existsb_false_forall _ is_batch es Hes) in Hb. discriminate.
    - intros _ _. destruct (remove_phase1_start st0 w Hst Hp) as [_ [H1 [H2 H3]]].
      split; [exact H1|]. split; [exact H2|]. split; [exact H3|]. intros _. exact Hroll. }
  split; [exact H|]. split; [|split].
  - intros E. rewrite (peq_status_of _ _ w H). exact E.
  - intros shs. apply peq_mentions. exact H.
  - intros v. apply peq_xreport. exact H.
Qed.

(* ... with no block announcement in between: the code as found as well *)
Theorem removal_resumes_static : forall fx p B cap w es st0,
  status_of st0 w = Some WRemoving -> is_some (lookupN (x_pass st0) w) = true ->
  (forall e, In e es -> is_batch e = false /\ is_proc e = false) ->
  let crashed := srun fx p B cap w (remove_phase1 st0 w) es in
  let straight := srun fx p B cap w (remove_phase1 st0 w) (erase false es) in
  peq crashed straight /\
  (status_of straight w = None -> status_of crashed w = None) /\
  (forall shs, mentions crashed w shs = mentions straight w shs) /\
  (forall v, xreport crashed v = xreport straight v).
Proof.
  intros fx p B cap w es st0 Hst Hp Hes crashed straight.
  assert (H : peq crashed straight).
  { apply task_resumes_gen.
    - intros Hb. rewrite (existsb_false_forall _ is_batch es) in Hb; [discriminate|]. intros e He. apply Hes. exact He.
    - intros _ _. destruct (remove_phase1_start st0 w Hst Hp) as [_ [H1 [H2 H3]]].
      split; [exact H1|]. split; [exact H2|]. split; [exact H3|].
      intros Hpr. rewrite (existsb_false_forall _ is_proc es) in Hpr; [discriminate|]. intros e He. apply Hes. exact He. }
  split; [exact H|]. split; [|split].
  - intros E. rewrite (peq_status_of _ _ w H). exact E.
  - intros shs. apply peq_mentions. exact H.
  - intros v. apply peq_xreport. exact H.
Qed.

(* ================================================================ D. the event system, real restarts *)

Lemma find_all_false : forall (A : Type) (f : A -> bool) l, (forall x, In x l -> f x = false) -> find f l = None.
Proof.
  intros A f l H. induction l as [|a r IH]; [reflexivity|].
  cbn [find]. rewrite (H a (or_introl eq_refl)). apply IH. intros x Hx. apply H. right. assumption.
Qed.

(* Start() on a store that is already on the node's tip: nothing to catch up, nothing to reorganise *)
Lemma start_sync_synced : forall fx p c st,
  wf_chain c -> synced (x_w st) = synced_of c -> start_sync fx p c st = XOk st.
Proof.
  intros fx p c st Hwf Hsy.
  destruct (exists_last (wf_nonempty _ Hwf)) as [pre [y Hc]]. destruct (wf_linked _ Hwf) as [pv Hl].
  assert (Htip : tip (x_w st) = (b_height y, b_id y)).
  { unfold tip. rewrite Hsy, Hc, synced_of_snoc. reflexivity. }
  assert (Hh : b_height y = Z.of_nat (length c) - 1).
  { pose proof Hl as Hl'. rewrite Hc in Hl'. rewrite (linked_height _ _ _ _ _ Hl'). rewrite Hc, app_length. cbn [length]. lia. }
  assert (Hnone : node_at c (b_height y + 1) = None).
  { unfold node_at. apply find_all_false. intros b Hb. apply Z.eqb_neq.
    pose proof Hl as Hl'. rewrite <- (app_nil_r c) in Hl'. destruct (linked_heights_split _ _ _ Hl') as [H1 _].
    specialize (H1 b Hb). lia. }
  assert (Hcu : catchup fx p c st (length c) = XOk st).
  { destruct (length c); [reflexivity|]. cbn [catchup]. rewrite Htip. cbn [fst]. rewrite Hnone. reflexivity. }
  assert (Hlast : node_at c (Z.of_nat (length c) - 1) = Some y).
  { rewrite <- Hh. unfold node_at. rewrite Hc. rewrite Hc in Hl. apply (node_at_found _ _ _ _ _ Hl). }
  unfold start_sync. cbv zeta. rewrite Hcu, Hlast, Htip. cbn [fst snd]. rewrite N.eqb_refl.
  destruct (f_start_reorg fx && _); reflexivity.
Qed.

Lemma batches_snoc : forall fx p B n w m st,
  batches fx p B n st w (S m) = fst (import_batch fx p B n (batches fx p B n st w m) w).
Proof.
  intros fx p B n w m. induction m as [|m IH]; intros st; [reflexivity|].
  change (batches fx p B n st w (S (S m))) with (batches fx p B n (fst (import_batch fx p B n st w)) w (S m)).
  rewrite IH. reflexivity.
Qed.

(* on a static well-formed chain every batch commits: the rescan states keep the store on the chain's
   tip and never drop the task *)
Lemma batches_state : forall fx p B c w own st0, wf_chain c -> 0 < B -> importing p c w own 0 st0 ->
  forall m, synced (x_w (batches fx p B c st0 w m)) = synced_of c /\
            x_dead (batches fx p B c st0 w m) = x_dead st0.
Proof.
  intros fx p B c w own st0 Hwf HB H0.
  assert (Hrange : 0 <= chain_height c) by (destruct H0; lia).
  assert (H00 : importing p c w own (Z.of_nat 0 * B) st0 /\ Z.of_nat 0 * B <= chain_height c).
  { change (Z.of_nat 0 * B) with 0. split; assumption. }
  assert (Hsy : forall m, synced (x_w (batches fx p B c st0 w m)) = synced_of c).
  { intros m. destruct (import_batches fx p B c w own Hwf HB 0%nat st0 (or_introl H00) m) as [[Him _]|[_ Hx]].
    - destruct Him. assumption.
    - rewrite Hx. reflexivity. }
  intros m. split; [apply Hsy|]. induction m as [|m IH]; [reflexivity|].
  rewrite batches_snoc.
  destruct (import_batches fx p B c w own Hwf HB 0%nat st0 (or_introl H00) m) as [[Him _]|[Hr _]]; cbn [Nat.add] in *.
  - destruct (import_batch_step fx p B c w own _ _ Hwf HB Him) as [st1 [Hb _]].
    rewrite Hb. cbn [fst]. rewrite (import_batch_ok_dead _ _ _ _ _ _ _ Hb). exact IH.
  - rewrite (batch_noop_when_ready _ _ _ _ _ _ Hr). cbn [fst]. exact IH.
Qed.

Lemma xrun_import_sim : forall fx p B cap c w own st0, wf_chain c -> 0 < B -> importing p c w own 0 st0 ->
  forall es s m,
  (forall e, In e es -> e = XBatch w \/ e = XRestart) ->
  xs_node s = c -> xs_crashed s = false ->
  peq (xs_st s) (batches fx p B c st0 w m) -> memN w (x_dead (xs_st s)) = false ->
  let s' := fold_left (xstep fx p B cap) es s in
  peq (xs_st s') (batches fx p B c st0 w (m + count_batches w es)) /\ xs_crashed s' = false /\ xs_node s' = c.
Proof.
  intros fx p B cap c w own st0 Hwf HB H0 es.
  assert (Hdead0 : memN w (x_dead st0) = false) by (destruct H0; assumption).
  induction es as [|e r IH]; intros s m Hes Hn Hcr Hpeq Hd.
  - cbn. rewrite Nat.add_0_r. auto.
  - cbn [fold_left]. destruct (batches_state fx p B c w own st0 Hwf HB H0 m) as [Hsy Hdm].
    destruct (Hes e (or_introl eq_refl)) as [-> | ->].
    + (* a batch *)
      unfold count_batches. cbn [filter is_xbatch]. rewrite N.eqb_refl. cbn [length].
      replace (m + S (length (filter (is_xbatch w) r)))%nat with (S m + count_batches w r)%nat by (unfold count_batches; lia).
      cbn [xstep]. rewrite Hn.
      assert (Hdd : memN w (x_dead (xs_st s)) = memN w (x_dead (batches fx p B c st0 w m))) by (rewrite Hdm; congruence).
      destruct (import_batch_peq fx p B c _ _ w Hpeq Hdd) as [Hp' _].
      apply IH.
      * intros e He. apply Hes. right. assumption.
      * exact Hn.
      * exact Hcr.
      * cbn [with_st xs_st]. rewrite batches_snoc. exact Hp'.
      * cbn [with_st xs_st].
        (* the batch of the twin commits, so does this one *)
        destruct (import_batch_peq fx p B c _ _ w Hpeq Hdd) as [_ Hsnd].
        assert (Hok : snd (import_batch fx p B c (batches fx p B c st0 w m) w) = IOk).
        { assert (H00 : importing p c w own (Z.of_nat 0 * B) st0 /\ Z.of_nat 0 * B <= chain_height c).
          { change (Z.of_nat 0 * B) with 0. split; [assumption|destruct H0; lia]. }
          destruct (import_batches fx p B c w own Hwf HB 0%nat st0 (or_introl H00) m) as [[Him _]|[Hr _]]; cbn [Nat.add] in *.
          - destruct (import_batch_step fx p B c w own _ _ Hwf HB Him) as [st1 [Hb _]]. rewrite Hb. reflexivity.
          - rewrite (batch_noop_when_ready _ _ _ _ _ _ Hr). reflexivity. }
        rewrite Hok in Hsnd.
        destruct (import_batch fx p B c (xs_st s) w) as [sa oa] eqn:Ea. cbn [snd fst] in *. subst oa.
        rewrite (import_batch_ok_dead _ _ _ _ _ _ _ Ea). exact Hd.
    + (* crash, reopen, Start *)
      unfold count_batches. cbn [filter is_xbatch]. fold (count_batches w r).
      rewrite xstep_restart. rewrite Hn.
      assert (Hss : start_sync fx p c (xreopen (xs_st s)) = XOk (xreopen (xs_st s))).
      { apply start_sync_synced; [exact Hwf|]. cbn [xreopen x_w].
        destruct (peq_fields _ _ Hpeq) as [Hw _]. rewrite Hw. exact Hsy. }
      rewrite Hss. apply IH.
      * intros e He. apply Hes. right. assumption.
      * reflexivity.
      * reflexivity.
      * cbn [xs_st]. apply (peq_trans _ (xs_st s)); [apply peq_reopen|exact Hpeq].
      * reflexivity.
Qed.

(* In the event system of Remove.v, on a static well-formed chain: any interleaving of import batches
   of w and REAL restarts (reopen + Start) leaves the store in the persistent state of the
   uninterrupted rescan with the same number of batches; no restart fails. *)
Theorem import_resumes_xrun : forall fx p B cap c w own st0 es all,
  wf_chain c -> 0 < B -> importing p c w own 0 st0 ->
  (forall e, In e es -> e = XBatch w \/ e = XRestart) ->
  let s := fold_left (xstep fx p B cap) es {| xs_node := c; xs_st := st0; xs_all := all; xs_crashed := false |} in
  peq (xs_st s) (batches fx p B c st0 w (count_batches w es)) /\ xs_crashed s = false /\ xs_node s = c.
Proof.
  intros fx p B cap c w own st0 es all Hwf HB H0 Hes.
  apply (xrun_import_sim fx p B cap c w own st0 Hwf HB H0 es _ 0%nat Hes); try reflexivity.
  destruct H0; assumption.
Qed.

(* ... hence, once enough batches have run, however many restarts in between: ready, with exactly the
   ledger of a wallet that followed the chain live from genesis *)
Theorem import_resumes_xrun_ready : forall fx p B cap c w own st0 es all,
  wf_chain c -> 0 < B -> importing p c w own 0 st0 ->
  (forall e, In e es -> e = XBatch w \/ e = XRestart) ->
  chain_height c < Z.of_nat (count_batches w es) * B ->
  let s := fold_left (xstep fx p B cap) es {| xs_node := c; xs_st := st0; xs_all := all; xs_crashed := false |} in
  status_of (xs_st s) w = Some WReady /\
  ledger_of_chain p true own c = Ok (x_w (xs_st s)) /\
  xreport (xs_st s) w = spec_report p own c w.
Proof.
  intros fx p B cap c w own st0 es all Hwf HB H0 Hes Hj s.
  destruct (import_resumes_xrun fx p B cap c w own st0 es all Hwf HB H0 Hes) as [Hpeq _]. fold s in Hpeq.
  destruct (import_equals_live fx p B c w own st0 (count_batches w es) Hwf HB H0) as [H1 [H2 _]].
  specialize (H2 Hj). destruct (H1 H2) as [Hl Hr].
  split; [rewrite (peq_status_of _ _ w Hpeq); exact H2|].
  split; [destruct (peq_fields _ _ Hpeq) as [Hw _]; rewrite Hw; exact Hl|].
  rewrite (peq_xreport _ _ w Hpeq). exact Hr.
Qed.

(* ================================================================ E. the queue rebuilt at start *)

Lemma in_queue_fst : forall (l : list (N * wst)) w t,
  In (w, t) (flat_map (fun e => match snd e with
                                | WRemoving => [(fst e, true)]
                                | WImporting _ => [(fst e, false)]
                                | WReady => []
                                end) l) -> In w (map fst l).
Proof.
  intros l w t H. apply in_flat_map in H. destruct H as [e [He H]]. apply in_map_iff. exists e. split; [|exact He].
  destruct (snd e); cbn in H; [contradiction| |]; destruct H as [H|[]]; inversion H; reflexivity.
Qed.

Theorem rebuild_queue_spec : forall st w, NoDup (map fst (x_status st)) ->
  (In (w, false) (rebuild_queue st) <-> exists k, status_of st w = Some (WImporting k)) /\
  (In (w, true) (rebuild_queue st) <-> status_of st w = Some WRemoving).
Proof.
  intros st w. unfold rebuild_queue, status_of. induction (x_status st) as [|[k0 v0] r IH]; intros Hnd.
  - cbn [flat_map In lookupN]. split; split; intros H.
    + contradiction.
    + destruct H as [k H]. discriminate.
    + contradiction.
    + discriminate.
  - cbn [map fst] in Hnd. inversion Hnd as [|x xs Hnotin Hnd']. subst. specialize (IH Hnd').
    cbn [flat_map lookupN fst snd]. destruct (k0 =? w)%N eqn:E.
    + apply N.eqb_eq in E. subst k0.
      assert (Hno : forall t, ~ In (w, t) (flat_map (fun e => match snd e with
                                | WRemoving => [(fst e, true)]
                                | WImporting _ => [(fst e, false)]
                                | WReady => []
                                end) r)).
      { intros t Ht. apply Hnotin. apply (in_queue_fst r w t Ht). }
      split; split; intros H.
      * apply in_app_or in H. destruct H as [H|H]; [|exfalso; exact (Hno _ H)].
        destruct v0; cbn in H; [contradiction|eexists; reflexivity|destruct H as [H|[]]; discriminate].
      * destruct H as [k H]. inversion H. subst v0. apply in_or_app. left. left. reflexivity.
      * apply in_app_or in H. destruct H as [H|H]; [|exfalso; exact (Hno _ H)].
        destruct v0; cbn in H; [contradiction|destruct H as [H|[]]; discriminate|reflexivity].
      * inversion H. subst v0. apply in_or_app. left. left. reflexivity.
    + apply N.eqb_neq in E. destruct IH as [IH1 IH2].
      assert (Hhd : forall t, ~ In (w, t) (match v0 with
                                | WRemoving => [(k0, true)]
                                | WImporting _ => [(k0, false)]
                                | WReady => []
                                end)).
      { intros t Ht. destruct v0; cbn in Ht; [contradiction| |]; destruct Ht as [Ht|[]]; inversion Ht; contradiction. }
      split; split; intros H.
      * apply IH1. apply in_app_or in H. destruct H as [H|H]; [exfalso; exact (Hhd _ H)|exact H].
      * apply in_or_app. right. apply IH1. exact H.
      * apply IH2. apply in_app_or in H. destruct H as [H|H]; [exfalso; exact (Hhd _ H)|exact H].
      * apply in_or_app. right. apply IH2. exact H.
Qed.

Lemma rebuild_queue_reopen : forall st, rebuild_queue (xreopen st) = rebuild_queue st.
Proof. intros st. reflexivity. Qed.

(* what the restarted worker finds in its queue for w is what the crashed process was working on *)
Corollary rebuild_queue_peq : forall a b, peq a b -> rebuild_queue a = rebuild_queue b.
Proof. intros a b H. unfold rebuild_queue. destruct (peq_fields a b H) as [_ [_ [_ [Hs _]]]]. rewrite Hs. reflexivity. Qed.

(* ================================================================ assumptions *)

(* ================================================================ the statements of Properties/C06.v *)

Theorem import_resumes_xrun_both : forall fx p B cap c w own st0 es all,
  wf_chain c -> 0 < B -> importing p c w own 0 st0 ->
  (forall e, In e es -> e = XBatch w \/ e = XRestart) ->
  let s := fold_left (xstep fx p B cap) es {| xs_node := c; xs_st := st0; xs_all := all; xs_crashed := false |} in
  (peq (xs_st s) (batches fx p B c st0 w (count_batches w es)) /\ xs_crashed s = false /\ xs_node s = c) /\
  (chain_height c < Z.of_nat (count_batches w es) * B ->
   status_of (xs_st s) w = Some WReady /\
   ledger_of_chain p true own c = Ok (x_w (xs_st s)) /\
   xreport (xs_st s) w = spec_report p own c w).
Proof.
  intros fx p B cap c w own st0 es all Hwf HB H0 Hes. cbv zeta. split.
  - exact (import_resumes_xrun fx p B cap c w own st0 es all Hwf HB H0 Hes).
  - intros Hj. exact (import_resumes_xrun_ready fx p B cap c w own st0 es all Hwf HB H0 Hes Hj).
Qed.

Theorem queue_rebuilt : forall st w, NoDup (map fst (x_status st)) ->
  ((In (w, false) (rebuild_queue st) <-> exists k, status_of st w = Some (WImporting k)) /\
   (In (w, true) (rebuild_queue st) <-> status_of st w = Some WRemoving)) /\
  rebuild_queue (xreopen st) = rebuild_queue st.
Proof. intros st w H. split; [exact (rebuild_queue_spec st w H)|exact (rebuild_queue_reopen st)]. Qed.
