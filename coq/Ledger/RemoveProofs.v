(* Ledger/RemoveProofs.v — lemmas about wallet removal (Ledger/Remove.v). *)
From Coq Require Import List ZArith NArith Bool Lia.
Import ListNotations.
Open Scope Z_scope.
Require Import MW.Ledger.Model MW.Ledger.Spec MW.Ledger.Run MW.Ledger.Import MW.Ledger.Remove.

(* ---------------------------------------------------------------- list-as-map basics *)

Lemma memN_true : forall x l, memN x l = true <-> In x l.
Proof.
  intros x l. unfold memN. rewrite existsb_exists. split.
  - intros [y [Hy He]]. apply N.eqb_eq in He. subst. assumption.
  - intros H. exists x. split; [assumption|apply N.eqb_refl].
Qed.

Lemma memN_false : forall x l, memN x l = false <-> ~ In x l.
Proof.
  intros x l. split.
  - intros H Hin. apply memN_true in Hin. congruence.
  - intros H. destruct (memN x l) eqn:E; [|reflexivity]. apply memN_true in E. contradiction.
Qed.

Lemma memN_remN : forall x l, memN x (remN x l) = false.
Proof.
  intros x l. apply memN_false. unfold remN. intros H. apply filter_In in H. destruct H as [_ H].
  rewrite N.eqb_refl in H. discriminate.
Qed.

Lemma memN_remN_other : forall x y l, memN x l = false -> memN x (remN y l) = false.
Proof.
  intros x y l H. apply memN_false. apply memN_false in H. intros H1. apply H.
  unfold remN in H1. apply filter_In in H1. tauto.
Qed.

Lemma lookupN_delN : forall (A : Type) (l : list (N * A)) k, lookupN (delN l k) k = None.
Proof.
  intros A l k. induction l as [|[k' v] r IH]; [reflexivity|].
  unfold delN in *. cbn [filter fst]. destruct (k' =? k)%N eqn:E; cbn [negb].
  - exact IH.
  - cbn [lookupN]. rewrite E. exact IH.
Qed.

Lemma lookupN_delN_other : forall (A : Type) (l : list (N * A)) k k', k' <> k -> lookupN (delN l k) k' = lookupN l k'.
Proof.
  intros A l k k' Hne. induction l as [|[k0 v] r IH]; [reflexivity|].
  unfold delN in *. cbn [filter fst]. destruct (k0 =? k)%N eqn:E; cbn [negb].
  - cbn [lookupN]. apply N.eqb_eq in E. subst k0.
    destruct (k =? k')%N eqn:E2; [apply N.eqb_eq in E2; congruence|]. exact IH.
  - cbn [lookupN]. destruct (k0 =? k')%N; [reflexivity|exact IH].
Qed.

Lemma lookupN_setN_same : forall (A : Type) (l : list (N * A)) k v, lookupN (setN l k v) k = Some v.
Proof.
  intros A l k v. unfold setN.
  destruct (existsb (fun e => (fst e =? k)%N) l) eqn:Ex.
  - induction l as [|[k0 v0] r IH]; [discriminate|].
    cbn [existsb fst] in Ex. cbn [map fst].
    destruct (k0 =? k)%N eqn:E.
    + cbn [lookupN]. rewrite N.eqb_refl. reflexivity.
    + cbn [lookupN]. rewrite E. apply IH. cbn [orb] in Ex. exact Ex.
  - induction l as [|[k0 v0] r IH].
    + cbn. rewrite N.eqb_refl. reflexivity.
    + cbn [existsb fst] in Ex. apply orb_false_iff in Ex. destruct Ex as [E Ex].
      cbn [app lookupN]. rewrite E. apply IH. exact Ex.
Qed.

Lemma lookupN_setN_other : forall (A : Type) (l : list (N * A)) k k' v, k' <> k -> lookupN (setN l k v) k' = lookupN l k'.
Proof.
  intros A l k k' v Hne. unfold setN.
  destruct (existsb (fun e => (fst e =? k)%N) l).
  - induction l as [|[k0 v0] r IH]; [reflexivity|].
    cbn [map fst]. destruct (k0 =? k)%N eqn:E.
    + apply N.eqb_eq in E. subst k0. cbn [lookupN].
      destruct (k =? k')%N eqn:E2; [apply N.eqb_eq in E2; congruence|]. exact IH.
    + cbn [lookupN]. destruct (k0 =? k')%N; [reflexivity|exact IH].
  - induction l as [|[k0 v0] r IH].
    + cbn. destruct (k =? k')%N eqn:E2; [apply N.eqb_eq in E2; congruence|reflexivity].
    + cbn [app lookupN]. destruct (k0 =? k')%N; [reflexivity|exact IH].
Qed.

(* ---------------------------------------------------------------- the request *)

Lemma remove_needs_pass : forall st w pass pw,
  lookupN (x_pass st) w = Some pw -> pw <> pass -> remove_request st w pass = (st, RBadPass).
Proof.
  intros st w pass pw Hl Hne. unfold remove_request. rewrite Hl.
  destruct (pw =? pass)%N eqn:E; [apply N.eqb_eq in E; congruence|]. reflexivity.
Qed.

Lemma remove_unknown_wallet : forall st w pass,
  lookupN (x_pass st) w = None -> remove_request st w pass = (st, RErr).
Proof. intros st w pass Hl. unfold remove_request. rewrite Hl. reflexivity. Qed.

Lemma remove_refused_while_importing : forall st w pass k,
  status_of st w = Some (WImporting k) ->
  fst (remove_request st w pass) = st /\ snd (remove_request st w pass) <> ROk.
Proof.
  intros st w pass k Hs. unfold remove_request.
  destruct (lookupN (x_pass st) w) as [pw|]; [|split; [reflexivity|discriminate]].
  destruct (negb (pw =? pass)%N); [split; [reflexivity|discriminate]|].
  rewrite Hs. split; [reflexivity|discriminate].
Qed.

Lemma remove_request_ok_inv : forall st w pass st',
  remove_request st w pass = (st', ROk) ->
  lookupN (x_pass st) w = Some pass /\ (status_of st w = Some WReady \/ status_of st w = Some WRemoving) /\
  status_of st' w = Some WRemoving.
Proof.
  intros st w pass st' H. unfold remove_request in H.
  destruct (lookupN (x_pass st) w) as [pw|] eqn:Hp; [|inversion H].
  destruct (pw =? pass)%N eqn:E; cbn [negb] in H; [|inversion H].
  apply N.eqb_eq in E. subst pw.
  destruct (status_of st w) as [[|k|]|] eqn:Hs; inversion H; subst; clear H.
  - split; [reflexivity|]. split; [left; reflexivity|]. unfold status_of, with_status. cbn [x_status].
    apply lookupN_setN_same.
  - split; [reflexivity|]. split; [right; reflexivity|]. unfold status_of, with_status. cbn [x_status].
    apply lookupN_setN_same.
Qed.

(* ---------------------------------------------------------------- rm_credits *)

(* when the walk reports "finish", no credit of the script hashes is kept *)
Lemma rm_credits_finished : forall shs cap cs count hot kept hot',
  rm_credits shs cap cs count hot = (kept, hot', true) ->
  forall c, In c kept -> memN (c_sh c) shs = false.
Proof.
  intros shs cap cs. induction cs as [|c0 r IH]; intros count hot kept hot' H c Hin.
  - cbn in H. inversion H. subst. destruct Hin.
  - cbn [rm_credits] in H. destruct (memN (c_sh c0) shs) eqn:Hm.
    + destruct ((cap <=? count) || match lookupN hot (c_tx c0) with Some hg => negb (hg =? c_height c0) | None => false end).
      * inversion H.
      * eapply IH; eassumption.
    + destruct (rm_credits shs cap r count hot) as [[k1 h1] f1] eqn:Hr. inversion H. subst.
      destruct Hin as [<-|Hin]; [assumption|]. eapply IH; eassumption.
Qed.

(* credits of other script hashes are all kept, in order, whatever the outcome *)
Lemma rm_credits_others : forall shs cap cs count hot kept hot' fin,
  rm_credits shs cap cs count hot = (kept, hot', fin) ->
  filter (fun c => negb (memN (c_sh c) shs)) kept = filter (fun c => negb (memN (c_sh c) shs)) cs.
Proof.
  intros shs cap cs. induction cs as [|c0 r IH]; intros count hot kept hot' fin H.
  - cbn in H. inversion H. reflexivity.
  - cbn [rm_credits] in H. destruct (memN (c_sh c0) shs) eqn:Hm.
    + destruct ((cap <=? count) || match lookupN hot (c_tx c0) with Some hg => negb (hg =? c_height c0) | None => false end).
      * inversion H. reflexivity.
      * cbn [filter]. rewrite Hm. cbn [negb]. eapply IH. eassumption.
    + destruct (rm_credits shs cap r count hot) as [[k1 h1] f1] eqn:Hr. inversion H. subst.
      cbn [filter]. rewrite Hm. cbn [negb]. f_equal. eapply IH. eassumption.
Qed.

(* a credit that is kept was there before *)
Lemma rm_credits_incl : forall shs cap cs count hot kept hot' fin,
  rm_credits shs cap cs count hot = (kept, hot', fin) -> incl kept cs.
Proof.
  intros shs cap cs. induction cs as [|c0 r IH]; intros count hot kept hot' fin H.
  - cbn in H. inversion H. apply incl_refl.
  - cbn [rm_credits] in H. destruct (memN (c_sh c0) shs) eqn:Hm.
    + destruct ((cap <=? count) || match lookupN hot (c_tx c0) with Some hg => negb (hg =? c_height c0) | None => false end).
      * inversion H. apply incl_refl.
      * apply incl_tl. eapply IH. eassumption.
    + destruct (rm_credits shs cap r count hot) as [[k1 h1] f1] eqn:Hr. inversion H. subst.
      apply incl_cons; [left; reflexivity|]. apply incl_tl. eapply IH. eassumption.
Qed.

(* ---------------------------------------------------------------- the store invariant removal relies on *)

(* every credit belongs to the wallet the keystore names for its script hash (credits of wallets
   whose keystore is gone do not exist), and a script hash has one owner *)
Definition credits_keyed (st : xstate) : Prop :=
  forall c, In c (credits (x_w st)) -> key_owner st (c_sh c) = Some (c_wallet c).

Lemma in_sh_of_wallet : forall st w sh, In sh (sh_of_wallet st w) -> exists v, In (sh, v) (x_keys st) /\ v = w.
Proof.
  intros st w sh H. unfold sh_of_wallet in H. apply in_map_iff in H. destruct H as [[s v] [Hs Hin]].
  cbn in Hs. subst s. apply filter_In in Hin. destruct Hin as [Hin Hv]. cbn in Hv. apply N.eqb_eq in Hv.
  exists v. split; assumption.
Qed.

Lemma lookupN_in : forall (A : Type) (l : list (N * A)) k v, lookupN l k = Some v -> In (k, v) l.
Proof.
  intros A l k v. induction l as [|[k0 v0] r IH]; [discriminate|].
  cbn [lookupN]. destruct (k0 =? k)%N eqn:E.
  - intros H. inversion H. subst. apply N.eqb_eq in E. subst. left. reflexivity.
  - intros H. right. apply IH. assumption.
Qed.

Lemma key_owner_in_sh : forall st sh w, key_owner st sh = Some w -> memN sh (sh_of_wallet st w) = true.
Proof.
  intros st sh w H. apply memN_true. unfold sh_of_wallet. apply in_map_iff. exists (sh, w). split; [reflexivity|].
  apply filter_In. split; [apply lookupN_in; exact H|]. cbn. apply N.eqb_refl.
Qed.

(* ---------------------------------------------------------------- erasure *)

Definition no_residue (st : xstate) (w : N) : Prop :=
  memN w (x_balrow st) = false /\ (forall e, In e (x_ugame st) -> fst (fst e) <> w).

Lemma existsb_false_forall : forall (A : Type) (f : A -> bool) l, (forall x, In x l -> f x = false) -> existsb f l = false.
Proof.
  intros A f l H. induction l as [|a r IH]; [reflexivity|].
  cbn [existsb]. rewrite (H a (or_introl eq_refl)). cbn [orb]. apply IH. intros x Hx. apply H. right. assumption.
Qed.

Definition keys_functional (st : xstate) : Prop := NoDup (map fst (x_keys st)).

Lemma nodup_fst_inj : forall (A : Type) (l : list (N * A)) k a b,
  NoDup (map fst l) -> In (k, a) l -> In (k, b) l -> a = b.
Proof.
  intros A l k a b Hnd. induction l as [|[k0 v0] r IH]; intros Ha Hb; [destruct Ha|].
  cbn [map fst] in Hnd. inversion Hnd as [|x xs Hnotin Hnd']. subst.
  destruct Ha as [Ha|Ha]; destruct Hb as [Hb|Hb].
  - inversion Ha. inversion Hb. congruence.
  - inversion Ha. subst. exfalso. apply Hnotin. apply in_map_iff. exists (k, b). split; [reflexivity|assumption].
  - inversion Hb. subst. exfalso. apply Hnotin. apply in_map_iff. exists (k, a). split; [reflexivity|assumption].
  - apply IH; assumption.
Qed.

Theorem remove_erases : forall fx cap n lookup st w st',
  credits_keyed st -> keys_functional st -> no_residue st w ->
  remove_round fx cap n lookup st w = (st', true) ->
  mentions st' w (sh_of_wallet st w) = false /\ listed st' w = false.
Proof.
  intros fx cap n lookup st w st' Hkeyed Hfun [Hbal Hug] H.
  unfold remove_round in H.
  destruct (status_of st w) as [[|k|]|] eqn:Hs; try (inversion H; fail).
  destruct (memN w (x_p1 st)) eqn:Hp1; [|inversion H].
  set (shs := sh_of_wallet st w) in *.
  destruct (match shs with [] => (credits (x_w st), [], true) | _ => rm_credits shs cap (credits (x_w st)) 0 [] end)
    as [[kept hot] fin] eqn:Hrm.
  destruct fin; inversion H; subst st'; clear H.
  assert (Hkept : forall c, In c kept -> In c (credits (x_w st)) /\ memN (c_sh c) shs = false).
  { destruct shs as [|s0 sr] eqn:Hshs.
    - inversion Hrm. subst. intros c Hc. split; [assumption|reflexivity].
    - intros c Hc. split.
      + eapply rm_credits_incl; eassumption.
      + eapply rm_credits_finished; eassumption. }
  split.
  - unfold mentions. cbn [x_w credits x_balrow x_ugame x_pass x_keys].
    repeat (apply orb_false_iff; split).
    + apply existsb_false_forall. intros c Hc. destruct (Hkept c Hc) as [Hin Hsh].
      apply orb_false_iff. split; [|exact Hsh].
      destruct (c_wallet c =? w)%N eqn:E; [|reflexivity]. apply N.eqb_eq in E.
      pose proof (Hkeyed c Hin) as Hk. rewrite E in Hk. apply key_owner_in_sh in Hk. fold shs in Hk. congruence.
    + exact Hbal.
    + apply existsb_false_forall. intros e He. destruct (fst (fst e) =? w)%N eqn:E; [|reflexivity].
      apply N.eqb_eq in E. exfalso. exact (Hug e He E).
    + unfold status_of. cbn [x_status]. rewrite lookupN_delN. reflexivity.
    + rewrite lookupN_delN. reflexivity.
    + apply existsb_false_forall. intros [sh v] He. apply filter_In in He. destruct He as [He Hv].
      cbn [snd fst] in *. apply negb_true_iff in Hv. apply orb_false_iff. split; [exact Hv|].
      apply memN_false. intros Hin. destruct (in_sh_of_wallet _ _ _ Hin) as [v' [Hin' Hv']]. subst v'.
      apply N.eqb_neq in Hv. apply Hv. exact (nodup_fst_inj _ _ _ _ _ Hfun He Hin').
  - unfold listed, status_of. cbn [x_status]. rewrite lookupN_delN. reflexivity.
Qed.

(* after the last round the same mnemonic can be imported again *)
Theorem reimport_after_removal : forall st w shs0 pass shs,
  mentions st w shs0 = false -> exists st', import_start st w pass shs = Some st'.
Proof.
  intros st w shs0 pass shs H. unfold import_start.
  unfold mentions in H. repeat (apply orb_false_iff in H; destruct H as [H ?]).
  assert (Hk : wallet_known st w = false).
  { unfold wallet_known. repeat (apply orb_false_iff; split); try assumption.
    apply existsb_false_forall. intros e He.
    match goal with Hx : existsb _ (x_keys st) = false |- _ => rename Hx into Hkeys end.
    destruct (snd e =? w)%N eqn:E; [|reflexivity]. exfalso.
    assert (existsb (fun e0 => (snd e0 =? w)%N || memN (fst e0) shs0) (x_keys st) = true).
    { apply existsb_exists. exists e. split; [assumption|]. rewrite E. reflexivity. }
    congruence. }
  rewrite Hk. eexists. reflexivity.
Qed.

(* ---------------------------------------------------------------- frame: the removal steps *)

Definition proj (v : N) (cs : list credit) : list credit := filter (fun c => (c_wallet c =? v)%N) cs.

Lemma sum_where_ext : forall f g cs, (forall c, f c = g c) -> sum_where f cs = sum_where g cs.
Proof.
  intros f g cs H. unfold sum_where. induction cs as [|c r IH]; [reflexivity|].
  cbn [fold_right]. rewrite H, IH. reflexivity.
Qed.

Lemma report_depends_on_proj : forall st1 st2 v,
  proj v (credits st1) = proj v (credits st2) -> synced st1 = synced st2 ->
  model_report st1 v = model_report st2 v.
Proof.
  intros st1 st2 v Hp Hs.
  assert (Hwu : wallet_unspent st1 v = wallet_unspent st2 v).
  { unfold wallet_unspent.
    assert (forall cs, filter (fun c => (c_wallet c =? v)%N && is_unspent c) cs = filter is_unspent (proj v cs)) as Hf.
    { intros cs. unfold proj. induction cs as [|c r IH]; [reflexivity|].
      cbn [filter]. destruct (c_wallet c =? v)%N; cbn [andb filter]; [destruct (is_unspent c); rewrite IH; reflexivity|exact IH]. }
    rewrite !Hf. rewrite Hp. reflexivity. }
  assert (Htip : tip st1 = tip st2) by (unfold tip; rewrite Hs; reflexivity).
  assert (Hconf : forall c, confs st1 c = confs st2 c) by (intros; unfold confs; rewrite Htip; reflexivity).
  assert (Hmat : forall c, mature st1 c = mature st2 c) by (intros; unfold mature; rewrite Hconf; reflexivity).
  assert (Hlu : listed_unspent st1 v = listed_unspent st2 v) by (unfold listed_unspent; rewrite Hwu; reflexivity).
  unfold model_report. f_equal.
  - rewrite Htip. reflexivity.
  - unfold gross_balance. rewrite Hwu. reflexivity.
  - unfold bal_spendable. rewrite Hlu. apply sum_where_ext. intros c. rewrite Hmat. reflexivity.
  - unfold bal_wstaking. rewrite Hlu. apply sum_where_ext. intros c. rewrite Hmat. reflexivity.
  - unfold bal_wbinding. rewrite Hlu. apply sum_where_ext. intros c. rewrite Hmat. reflexivity.
  - rewrite Hlu. apply map_ext. intros c. unfold row_of_credit. rewrite Hconf, Hmat. reflexivity.
Qed.

Lemma filter_filter_sub : forall (A : Type) (f g : A -> bool) l,
  (forall x, In x l -> f x = true -> g x = true) -> filter f (filter g l) = filter f l.
Proof.
  intros A f g l H. induction l as [|a r IH]; [reflexivity|].
  cbn [filter]. destruct (g a) eqn:Hg.
  - cbn [filter]. destruct (f a); [f_equal|]; apply IH; intros x Hx; apply H; right; assumption.
  - destruct (f a) eqn:Hf.
    + rewrite (H a (or_introl eq_refl) Hf) in Hg. discriminate.
    + apply IH. intros x Hx. apply H. right. assumption.
Qed.

(* a credit of another wallet does not carry a script hash of w *)
Lemma other_wallet_other_hash : forall st w v c,
  credits_keyed st -> keys_functional st -> In c (credits (x_w st)) -> c_wallet c = v -> v <> w ->
  memN (c_sh c) (sh_of_wallet st w) = false.
Proof.
  intros st w v c Hkeyed Hfun Hin Hv Hne. apply memN_false. intros Hsh.
  destruct (in_sh_of_wallet _ _ _ Hsh) as [v' [Hin' Hv']]. subst v'.
  pose proof (Hkeyed c Hin) as Hk. apply lookupN_in in Hk. rewrite Hv in Hk.
  apply Hne. exact (nodup_fst_inj _ _ _ _ _ Hfun Hk Hin').
Qed.

Theorem remove_round_frames_others : forall fx cap n lookup st w st' fin v,
  credits_keyed st -> keys_functional st -> v <> w ->
  remove_round fx cap n lookup st w = (st', fin) ->
  proj v (credits (x_w st')) = proj v (credits (x_w st)) /\ synced (x_w st') = synced (x_w st) /\
  status_of st' v = status_of st v /\ lookupN (x_pass st') v = lookupN (x_pass st) v /\
  sh_of_wallet st' v = sh_of_wallet st v.
Proof.
  intros fx cap n lookup st w st' fin v Hkeyed Hfun Hne H.
  unfold remove_round in H.
  destruct (status_of st w) as [[|k|]|] eqn:Hs;
    try (inversion H; subst; repeat split; reflexivity).
  destruct (memN w (x_p1 st)) eqn:Hp1; [|inversion H; subst; repeat split; reflexivity].
  set (shs := sh_of_wallet st w) in *.
  destruct (match shs with [] => (credits (x_w st), [], true) | _ => rm_credits shs cap (credits (x_w st)) 0 [] end)
    as [[kept hot] f0] eqn:Hrm.
  assert (Hproj : proj v kept = proj v (credits (x_w st))).
  { destruct shs as [|s0 sr] eqn:Hshs.
    - inversion Hrm. reflexivity.
    - pose proof (rm_credits_others _ _ _ _ _ _ _ _ Hrm) as Ho.
      pose proof (rm_credits_incl _ _ _ _ _ _ _ _ Hrm) as Hi.
      unfold proj.
      rewrite <- (filter_filter_sub _ (fun c => (c_wallet c =? v)%N) (fun c => negb (memN (c_sh c) (s0 :: sr))) kept).
      + rewrite Ho. apply filter_filter_sub. intros c Hc Hw. apply N.eqb_eq in Hw.
        rewrite <- Hshs. unfold shs. rewrite (other_wallet_other_hash st w v c); auto.
      + intros c Hc Hw. apply N.eqb_eq in Hw.
        rewrite <- Hshs. unfold shs. rewrite (other_wallet_other_hash st w v c); auto. }
  assert (Hshv : map fst (filter (fun e => (snd e =? v)%N) (filter (fun e => negb (snd e =? w)%N) (x_keys st))) = sh_of_wallet st v).
  { unfold sh_of_wallet. f_equal. apply filter_filter_sub. intros e _ He. apply N.eqb_eq in He.
    rewrite He. apply negb_true_iff. apply N.eqb_neq. assumption. }
  destruct f0; inversion H; subst st' fin; clear H; cbn [x_w credits synced];
    unfold status_of, sh_of_wallet; cbn [x_status x_pass x_keys].
  - rewrite !lookupN_delN_other by (intro; subst; auto). repeat split; auto.
  - repeat split; auto.
Qed.

Theorem remove_phase1_frames_others : forall st w,
  x_w (remove_phase1 st w) = x_w st /\ x_status (remove_phase1 st w) = x_status st /\
  x_keys (remove_phase1 st w) = x_keys st /\ x_pass (remove_phase1 st w) = x_pass st /\
  x_brecs (remove_phase1 st w) = x_brecs st.
Proof.
  intros st w. unfold remove_phase1.
  destruct (status_of st w) as [[|k|]|]; try (repeat split; reflexivity).
  destruct (is_some (lookupN (x_pass st) w)); repeat split; reflexivity.
Qed.

(* phase 1 leaves no balance row and no pending game row of the wallet *)
Theorem remove_phase1_no_residue : forall st w,
  status_of st w = Some WRemoving -> is_some (lookupN (x_pass st) w) = true ->
  no_residue (remove_phase1 st w) w /\ memN w (x_p1 (remove_phase1 st w)) = true.
Proof.
  intros st w Hs Hp. unfold remove_phase1. rewrite Hs, Hp. split.
  - split; cbn [x_balrow x_ugame].
    + apply memN_remN.
    + intros e He. apply filter_In in He. destruct He as [_ He]. apply negb_true_iff in He.
      apply N.eqb_neq in He. assumption.
  - cbn [x_p1]. apply memN_true. apply in_or_app. right. left. reflexivity.
Qed.

(* the repaired Rollback never re-creates a row of a wallet that has no balance row *)
Theorem xrollback_repaired_no_residue : forall fx st h st' w,
  f_rollback fx = true -> xrollback fx st h = XOk st' -> no_residue st w -> no_residue st' w.
Proof.
  intros fx st h st' w Hfx H [Hbal Hug]. unfold xrollback in H. rewrite Hfx in H. cbn [negb andb] in H.
  destruct (negb (f_rollback_order fx) && existsb _ (credits (x_w st))); [discriminate|].
  inversion H. subst st'. clear H. split; cbn [x_balrow x_ugame]; [assumption|].
  intros e He. apply in_app_or in He. destruct He as [He|He]; [apply Hug; assumption|].
  apply in_flat_map in He. destruct He as [c [Hc He]].
  destruct (rb_delete (x_brecs st) h c && is_game c); [|destruct He].
  destruct (key_owner st (c_sh c)) as [v|]; [|destruct He].
  destruct (status_of st v) as [[|k|]|]; try (destruct He; fail).
  cbn [andb] in He. destruct (memN v (x_balrow st)) eqn:Hm; cbn [negb] in He; [|destruct He].
  destruct He as [He|[]]. subst e. cbn [fst]. intros Hv. subst v. congruence.
Qed.

(* the repaired Rollback never panics *)
Theorem xrollback_repaired_no_panic : forall fx st h, f_rollback fx = true -> xrollback fx st h <> XPanic.
Proof.
  intros fx st h Hfx. unfold xrollback. rewrite Hfx. cbn [negb andb].
  destruct (negb (f_rollback_order fx) && existsb _ (credits (x_w st))); discriminate.
Qed.

Lemma xconnect_block_rows : forall p n st b st',
  xconnect_block p n st b = XOk st' -> x_balrow st' = x_balrow st /\ x_ugame st' = x_ugame st.
Proof.
  intros p n st b st' H. unfold xconnect_block in H.
  destruct (node_at n (b_height b)); [|discriminate].
  destruct (negb (b_id b0 =? b_id b)%N); [discriminate|].
  destruct (filter_block_txs _ _ _ _ _); [|discriminate].
  destruct (connect_block _ _ _ _ _ _ _); [|discriminate].
  inversion H. subst. split; reflexivity.
Qed.

Lemma xconnect_all_rows : forall p n bs st st',
  xconnect_all p n st bs = XOk st' -> x_balrow st' = x_balrow st /\ x_ugame st' = x_ugame st.
Proof.
  intros p n bs. induction bs as [|b r IH]; intros st st' H.
  - inversion H. split; reflexivity.
  - cbn [xconnect_all] in H. destruct (xconnect_block p n st b) as [st1| |] eqn:Hb; try discriminate.
    destruct (xconnect_block_rows _ _ _ _ _ Hb) as [H1 H2]. destruct (IH _ _ H) as [H3 H4].
    split; congruence.
Qed.

Lemma xconnect_all_no_panic : forall p n bs st, xconnect_all p n st bs <> XPanic.
Proof.
  intros p n bs. induction bs as [|b r IH]; intros st; [discriminate|].
  cbn [xconnect_all]. destruct (xconnect_block p n st b) as [st1| |] eqn:Hb; [apply IH|discriminate|].
  unfold xconnect_block in Hb.
  destruct (node_at n (b_height b)); [|discriminate].
  destruct (negb (b_id b0 =? b_id b)%N); [discriminate|].
  destruct (filter_block_txs _ _ _ _ _); [|discriminate].
  destruct (connect_block _ _ _ _ _ _ _); discriminate.
Qed.

(* processing a block on the repaired code never panics and never re-creates rows of a wallet
   that is being removed (no balance row) *)
Theorem xprocess_repaired_safe : forall fx p n st b,
  f_rollback fx = true ->
  xprocess fx p n st b <> XPanic /\
  (forall st' w, xprocess fx p n st b = XOk st' -> no_residue st w -> no_residue st' w).
Proof.
  intros fx p n st b Hfx. unfold xprocess.
  destruct (snd (tip (x_w st)) =? b_prev b)%N.
  - split; [apply xconnect_all_no_panic|].
    intros st' w H [Hb Hu]. destruct (xconnect_all_rows _ _ _ _ _ H) as [H1 H2].
    split; [rewrite H1; assumption|rewrite H2; assumption].
  - destruct (collect n (x_w st) (S (Z.to_nat (b_height b))) b []) as [[fork bs]|]; [|split; [discriminate|intros; discriminate]].
    destruct (xrollback fx st (fork + 1)) as [st1| |] eqn:Hr.
    + split; [apply xconnect_all_no_panic|].
      intros st' w H Hn. pose proof (xrollback_repaired_no_residue _ _ _ _ w Hfx Hr Hn) as [Hb Hu].
      destruct (xconnect_all_rows _ _ _ _ _ H) as [H1 H2].
      split; [rewrite H1; assumption|rewrite H2; assumption].
    + split; [discriminate|intros; discriminate].
    + exfalso. exact (xrollback_repaired_no_panic _ _ _ Hfx Hr).
Qed.
