(* Ledger/Fault.v — C18: wallet operations with a failing storage call.  Definitions only.
   A write operation runs inside mwdb.Update: either its batch is committed entirely or the
   store is unchanged (LevelDB batch atomicity; Ledger/Model.process_or_keep is already "one
   atomic commit or no change").  What a failing call CAN leave behind is volatile state the Go
   code updates inside the transaction closure BEFORE the failing call, and wrong decisions taken
   when a failed read is mistaken for "nothing there".  Three places of the code as found do
   that; each is modelled here with a flag [repaired] (true = the code after the repairs recorded
   in KNOWN_FINDINGS.txt, false = the code as found):
     1. wallet.go NewAddress -> keystore.NextAddresses -> AddrManager.updateManagedAddress adds
        the new address to the in-memory table (a.addrs, a.index, branchInfo) before
        PutNewAddress and Commit can fail; the next index is read from the STORE (getChildNum);
     2. txmgr ExistCreditFromTx answered "no" on a failed read (and Rollback skipped a
        transaction whose record could not be read): the block was accepted with a spend missed;
     3. ntfnshandler.go asyncRemove, last round: DeleteKeystore drops the keystore from the
        in-memory table inside the closure; when the commit AND the repairing reload fail, the
        next attempt finds no keystore and reports the removal finished.
   Since 96d76da the repairs of 1 and 3 no longer read the store (ForgetAddresses, RestoreCachedKeystore:
   in-memory, cannot fail): for 3 see [remove_attempt_undo] below, for 1 Ledger/FaultReload.v
   (mem_undo = true) and Ledger/FaultOps.v (f_keystore_undo); [new_address true] and
   [remove_attempt true] are the code between those repairs and 96d76da. *)
From Coq Require Import List ZArith NArith Bool.
Import ListNotations.
Open Scope Z_scope.
Require Import MW.Ledger.Model MW.Ledger.Spec MW.Ledger.Run.

(* ---------------------------------------------------------------- 1. NewAddress *)

Section Keystore.
(* BIP-32 derivation + script hashing (C04/C14): address number i of wallet w *)
Variable derive : N -> nat -> N.

Record kstate := {
  k_store : list (N * N);     (* keystore bucket + address rows: (script hash, wallet), newest first *)
  k_cache : list (N * N)      (* AddrManager.addrs / index of the cached keystores *)
}.

Definition same_set (a b : list (N * N)) : Prop := forall e, In e a <-> In e b.
Definition k_coherent (k : kstate) : Prop := same_set (k_cache k) (k_store k).

(* getChildNum: the number of addresses of the wallet recorded in the store *)
Definition next_index (st : list (N * N)) (w : N) : nat :=
  length (filter (fun e => (snd e =? w)%N) st).

(* position of the failing call relative to updateManagedAddress; FNone: no fault *)
Inductive fpos := FNone | FBeforeCache | FAfterCache.

Definition new_address (repaired : bool) (f : fpos) (k : kstate) (w : N) : kstate * option N :=
  let sh := derive w (next_index (k_store k) w) in
  match f with
  | FNone => ({| k_store := (sh, w) :: k_store k; k_cache := (sh, w) :: k_cache k |}, Some sh)
  | FBeforeCache => (k, None)
  | FAfterCache =>
      if repaired
      then ({| k_store := k_store k; k_cache := k_store k |}, None)        (* keystore reloaded from its bucket *)
      else ({| k_store := k_store k; k_cache := (sh, w) :: k_cache k |}, None)   (* the address stays cached *)
  end.

(* a sequence of NewAddress calls of wallet w, each with its fault position; the addresses returned *)
Fixpoint attempts (repaired : bool) (fs : list fpos) (k : kstate) (w : N) : kstate * list N :=
  match fs with
  | [] => (k, [])
  | f :: r =>
      let '(k1, res) := new_address repaired f k w in
      let '(k2, l) := attempts repaired r k1 w in
      (k2, match res with Some sh => sh :: l | None => l end)
  end.

Definition successes (fs : list fpos) : nat :=
  length (filter (fun f => match f with FNone => true | _ => false end) fs).

End Keystore.

(* ---------------------------------------------------------------- 2. block processing *)

Inductive bfault :=
| BNone                        (* no fault *)
| BFail                        (* a call fails and the error is propagated: Update rolls back *)
| BSwallow.                    (* the read behind ExistCreditFromTx fails *)

(* processConnectedBlock with every ExistCreditFromTx answering "no credit" (the failed read
   taken for an empty result): Model.connect_block with the empty committed view *)
Definition process_blind (p : params) (own : owner_fn) (n : node) (st : wstate) (b : block) : res wstate :=
  if (snd (tip st) =? b_prev b)%N then
    connect_all p false own [] n st [b]
  else
    match collect n st (S (Z.to_nat (b_height b))) b [] with
    | None => Err EMaybeChainRevoked
    | Some (fork, bs) => connect_all p false own [] n (rollback_to st (fork + 1)) bs
    end.

Definition process_fault (repaired : bool) (p : params) (own : owner_fn) (n : node) (st : wstate) (b : block)
           (f : bfault) : res wstate :=
  match f with
  | BNone => process p true own n st b
  | BFail => Err EOther
  | BSwallow => if repaired then Err EOther else process_blind p own n st b
  end.

Definition keep (st : wstate) (r : res wstate) : wstate := match r with Ok st' => st' | Err _ => st end.

(* an announcement with a fault followed by the same announcement without *)
Definition announce_retry (repaired : bool) (p : params) (own : owner_fn) (n : node) (st : wstate) (b : block)
           (f : bfault) : wstate :=
  let st1 := keep st (process_fault repaired p own n st b f) in
  keep st1 (process p true own n st1 b).

(* ---------------------------------------------------------------- 3. the last round of a removal *)

Record rstate := {
  r_store : bool;      (* keystore bucket and status record of the wallet are still in the store *)
  r_cache : bool       (* the keystore is in the in-memory table *)
}.

(* one attempt of the worker at the last round; the result says whether the worker regards the
   task as finished (it is not pushed again) *)
Definition remove_attempt (repaired : bool) (commit_fails reload_fails : bool) (r : rstate) : rstate * bool :=
  let r0 :=
    (* as repaired, an attempt that finds no cached keystore first reloads it from the store *)
    if repaired && negb (r_cache r) && r_store r && negb reload_fails
    then {| r_store := r_store r; r_cache := true |} else r in
  if negb (r_cache r0) then (r0, true)                      (* "unexpected error", return nil *)
  else if negb commit_fails then ({| r_store := false; r_cache := false |}, true)
  else if reload_fails then ({| r_store := r_store r0; r_cache := false |}, false)
  else (r0, false).

Fixpoint remove_attempts (repaired : bool) (fs : list (bool * bool)) (r : rstate) : rstate * bool :=
  match fs with
  | [] => (r, false)
  | (c, l) :: rest =>
      let '(r1, fin) := remove_attempt repaired c l r in
      if fin then (r1, true) else remove_attempts repaired rest r1
  end.

(* the code as it stands (96d76da): when the Commit of the last round fails, RestoreCachedKeystore puts the
   AddrManager the worker holds back into the table — no storage access, so the keystore is cached again
   whatever the storage does (the reload flag only matters for the attempt that starts without a cached
   keystore: 33294fa's reload at the top of asyncRemove is still there, and never needed) *)
Definition remove_attempt_undo (commit_fails reload_fails : bool) (r : rstate) : rstate * bool :=
  let r0 :=
    if negb (r_cache r) && r_store r && negb reload_fails
    then {| r_store := r_store r; r_cache := true |} else r in
  if negb (r_cache r0) then (r0, true)
  else if negb commit_fails then ({| r_store := false; r_cache := false |}, true)
  else (r0, false).

Fixpoint remove_attempts_undo (fs : list (bool * bool)) (r : rstate) : rstate * bool :=
  match fs with
  | [] => (r, false)
  | (c, l) :: rest =>
      let '(r1, fin) := remove_attempt_undo c l r in
      if fin then (r1, true) else remove_attempts_undo rest r1
  end.
