(* Ledger/ImportProofs7.v — C07: two concurrent imports, what ImportProofs6.v left open.

   Part A  small facts: a batch leaves the status of every other wallet alone; no event of a history removes or
           creates a status row ("absent" is preserved in both directions); histories of [xwf] are histories of [xwf2]
   Part B  LIVENESS for two rescans: in step, chain static, batches of w1 and w2 in ANY interleaving
   Part C  FRAME: absolute (projection [oth] of [minv2]) and relative (pair of runs, both imports left out)
   Part D  block records: duplicate-free, every relevant transaction recorded ONCE, for [xwf2] histories
   Part E  from genesis: [gwf] history, first restore, [xwf] history, second restore, [xwf2] history *)
From Coq Require Import List ZArith NArith Bool Lia Permutation.
Import ListNotations.
Open Scope Z_scope.
Require Import MW.Ledger.Model MW.Ledger.Spec MW.Ledger.Run MW.Ledger.WF MW.Ledger.Import MW.Ledger.Remove.
Require Import MW.Ledger.Proofs MW.Ledger.Proofs2 MW.Ledger.Proofs3 MW.Ledger.Proofs4 MW.Ledger.Proofs5 MW.Ledger.Proofs6.
Require Import MW.Ledger.RemoveProofs MW.Ledger.RemoveProofs2 MW.Ledger.RemoveProofs5 MW.Ledger.ImportProofs MW.Ledger.ImportProofs2.
Require Import MW.Ledger.ImportProofs3 MW.Ledger.ImportProofs4 MW.Ledger.ImportProofs5 MW.Ledger.ImportProofs6.

(* ================================================================ Part A: small facts *)

Lemma import_batch_other_status : forall fx p B n st w v, v <> w ->
  status_of (fst (import_batch fx p B n st w)) v = status_of st v.
Proof.
  intros fx p B n st w v Hv. unfold import_batch.
  destruct (status_of st w) as [[|k|]|]; try reflexivity.
  destruct (memN w (x_dead st)); [reflexivity|].
  destruct (import_blocks _ _ _ _ _ _ _) as [[cs brs]|e].
  - destruct (f_import_tipcheck fx && negb _); [reflexivity|]. cbn [fst]. unfold status_of. cbn [with_status x_status].
    apply lookupN_setN_other. assumption.
  - destruct e; [| |destruct (f_import_retry fx)]; reflexivity.
Qed.

Lemma import_batch_synced_any : forall fx p B n st w, synced (x_w (fst (import_batch fx p B n st w))) = synced (x_w st).
Proof.
  intros fx p B n st w. unfold import_batch. destruct (status_of st w) as [[|k|]|]; try reflexivity.
  destruct (memN w (x_dead st)); [reflexivity|].
  destruct (import_blocks _ _ _ _ _ _ _) as [[cs brs]|e]; [destruct (f_import_tipcheck fx && negb _); reflexivity|].
  destruct e; [| |destruct (f_import_retry fx)]; reflexivity.
Qed.

Lemma import_batch_pass_any : forall fx p B n st w, x_pass (fst (import_batch fx p B n st w)) = x_pass st.
Proof.
  intros fx p B n st w. unfold import_batch. destruct (status_of st w) as [[|k|]|]; try reflexivity.
  destruct (memN w (x_dead st)); [reflexivity|].
  destruct (import_blocks _ _ _ _ _ _ _) as [[cs brs]|e]; [destruct (f_import_tipcheck fx && negb _); reflexivity|].
  destruct e; [| |destruct (f_import_retry fx)]; reflexivity.
Qed.

Lemma import_batch_absent : forall fx p B n st w, status_of st w = None -> fst (import_batch fx p B n st w) = st.
Proof. intros fx p B n st w H. unfold import_batch. rewrite H. reflexivity. Qed.

(* "absent" (no status row) is neither created nor removed *)
Lemma lookupN_pull_none : forall h (l : list (N * wst)) v,
  lookupN (map (fun e => (fst e, pull_back h (snd e))) l) v = None <-> lookupN l v = None.
Proof.
  intros h l v. induction l as [|[k0 s0] r IH]; [tauto|].
  cbn [map fst snd lookupN]. destruct (k0 =? v)%N; [split; intros H; discriminate|exact IH].
Qed.

Lemma lookupN_setN_none : forall (l : list (N * wst)) k x v, lookupN l k <> None ->
  (lookupN (setN l k x) v = None <-> lookupN l v = None).
Proof.
  intros l k x v Hk. destruct (N.eq_dec v k) as [->|Hne].
  - rewrite lookupN_setN_same. split; intros H; [discriminate|contradiction].
  - rewrite lookupN_setN_other by assumption. tauto.
Qed.

Lemma import_batch_none_iff : forall fx p B n st w v,
  status_of (fst (import_batch fx p B n st w)) v = None <-> status_of st v = None.
Proof.
  intros fx p B n st w v. unfold import_batch.
  destruct (status_of st w) as [[|k|]|] eqn:Hs; try tauto.
  destruct (memN w (x_dead st)); [tauto|].
  destruct (import_blocks _ _ _ _ _ _ _) as [[cs brs]|e].
  - destruct (f_import_tipcheck fx && negb _); [tauto|]. cbn [fst]. unfold status_of in *. cbn [with_status x_status].
    apply lookupN_setN_none. rewrite Hs. discriminate.
  - destruct e; [| |destruct (f_import_retry fx)]; cbn [fst]; tauto.
Qed.

Lemma xprocess_none_iff : forall p n st b st' v, xprocess repaired p n st b = XOk st' ->
  (status_of st' v = None <-> status_of st v = None).
Proof.
  intros p n st b st' v H. unfold xprocess in H.
  destruct (snd (tip (x_w st)) =? b_prev b)%N.
  - unfold status_of. rewrite (xconnect_all_status4 _ _ _ _ _ H). tauto.
  - destruct (collect n (x_w st) (S (Z.to_nat (b_height b))) b []) as [[fork bs]|]; [|discriminate].
    rewrite xrollback_repaired_eq in H. unfold status_of.
    rewrite (xconnect_all_status4 _ _ _ _ _ H). cbn [x_status]. apply lookupN_pull_none.
Qed.

(* the four kinds of events of [xwf] / [xwf2] *)
Definition chain_ev (e : xevent) : Prop :=
  match e with XAttach _ | XDetach | XProcess _ | XBatch _ => True | _ => False end.

Lemma xstep_none_iff : forall p B cap s e v, chain_ev e ->
  (status_of (xs_st (xstep repaired p B cap s e)) v = None <-> status_of (xs_st s) v = None).
Proof.
  intros p B cap s e v He. destruct e as [b| |b|w0 ps|sh w0|w0 ps shs|u|w0 ps|w0|w0|]; cbn [chain_ev] in He; try contradiction; cbn [xstep].
  - cbn [xs_st]. tauto.
  - cbn [xs_st]. tauto.
  - destruct (xs_crashed s); [tauto|].
    destruct (xprocess repaired p (xs_node s) (xs_st s) b) as [st'| |] eqn:Hx; cbn [with_st xs_st]; try tauto.
    apply (xprocess_none_iff _ _ _ _ _ v Hx).
  - cbn [with_st xs_st]. apply import_batch_none_iff.
Qed.

Lemma xstep_pass : forall p B cap s e, chain_ev e -> x_pass (xs_st (xstep repaired p B cap s e)) = x_pass (xs_st s).
Proof.
  intros p B cap s e He. destruct e as [b| |b|w0 ps|sh w0|w0 ps shs|u|w0 ps|w0|w0|]; cbn [chain_ev] in He; try contradiction; cbn [xstep].
  - reflexivity.
  - reflexivity.
  - destruct (xs_crashed s); [reflexivity|].
    destruct (xprocess repaired p (xs_node s) (xs_st s) b) as [st'| |] eqn:Hx; cbn [with_st xs_st]; try reflexivity.
    apply (xprocess_pass_status _ _ _ _ _ Hx).
  - cbn [with_st xs_st]. apply import_batch_pass_any.
Qed.

Lemma run_none_iff : forall p B cap h s v, Forall chain_ev h ->
  (status_of (xs_st (fold_left (xstep repaired p B cap) h s)) v = None <-> status_of (xs_st s) v = None).
Proof.
  intros p B cap. induction h as [|e r IH]; intros s v Hh; [tauto|].
  cbn [fold_left]. inversion Hh as [|? ? He Hr]. subst.
  rewrite (IH _ v Hr). apply xstep_none_iff. assumption.
Qed.

Lemma run_pass : forall p B cap h s, Forall chain_ev h ->
  x_pass (xs_st (fold_left (xstep repaired p B cap) h s)) = x_pass (xs_st s).
Proof.
  intros p B cap. induction h as [|e r IH]; intros s Hh; [reflexivity|].
  cbn [fold_left]. inversion Hh as [|? ? He Hr]. subst.
  rewrite (IH _ Hr). apply xstep_pass. assumption.
Qed.

Lemma xwf2_chain_ev : forall p g U w1 w2 B cap h s, xwf2 p g U w1 w2 B cap s h -> Forall chain_ev h.
Proof.
  intros p g U w1 w2 B cap. induction h as [|e r IH]; intros s H; [constructor|].
  destruct H as [Hok Hr]. constructor; [|apply (IH _ Hr)].
  destruct e; cbn [ev_ok2 chain_ev] in *; try exact I; contradiction.
Qed.

Lemma xwf_xwf2 : forall p g U w1 w2 B cap h s, xwf p g U w1 B cap s h -> xwf2 p g U w1 w2 B cap s h.
Proof.
  intros p g U w1 w2 B cap. induction h as [|e r IH]; intros s H; [exact I|].
  destruct H as [Hok Hr]. split; [|apply IH; exact Hr].
  destruct e; cbn [ev_ok ev_ok2] in *; try assumption. left. assumption.
Qed.

Lemma xwf2_app : forall p g U w1 w2 B cap h1 h2 s, xwf2 p g U w1 w2 B cap s h1 ->
  xwf2 p g U w1 w2 B cap (fold_left (xstep repaired p B cap) h1 s) h2 -> xwf2 p g U w1 w2 B cap s (h1 ++ h2).
Proof.
  intros p g U w1 w2 B cap. induction h1 as [|e r IH]; intros h2 s H1 H2; [exact H2|].
  destruct H1 as [Hok Hr]. cbn [app]. split; [assumption|]. apply IH; assumption.
Qed.

Lemma xwf2_batches : forall p g U w1 w2 B cap vs s, (forall v, In v vs -> v = w1 \/ v = w2) ->
  xwf2 p g U w1 w2 B cap s (map XBatch vs).
Proof.
  intros p g U w1 w2 B cap. induction vs as [|v r IH]; intros s H; [exact I|].
  cbn [map]. split; [apply H; left; reflexivity|]. apply IH. intros u Hu. apply H. right. assumption.
Qed.

(* ================================================================ Part B: liveness for two rescans *)

(* the rescan worker runs for the wallets of [vs], one batch each, in that order; the node does not move *)
Fixpoint bruns (p : params) (B : Z) (n : node) (st : xstate) (vs : list N) : xstate :=
  match vs with
  | [] => st
  | v :: r => bruns p B n (fst (import_batch repaired p B n st v)) r
  end.

Lemma fold_bruns : forall p B cap vs s,
  fold_left (xstep repaired p B cap) (map XBatch vs) s = with_st s (bruns p B (xs_node s) (xs_st s) vs).
Proof.
  intros p B cap. induction vs as [|v r IH]; intros s.
  - cbn. destruct s. reflexivity.
  - cbn [map fold_left]. rewrite IH. cbn [xstep with_st xs_node xs_st bruns]. reflexivity.
Qed.

Lemma bruns_synced : forall p B n vs st, synced (x_w (bruns p B n st vs)) = synced (x_w st).
Proof.
  intros p B n. induction vs as [|v r IH]; intros st; [reflexivity|].
  cbn [bruns]. rewrite IH. apply import_batch_synced_any.
Qed.

Section Live2.
Variable p : params.
Variable g : block.
Variable U : list block.
Hypothesis U_ids : forall b1 b2, In b1 U -> In b2 U -> b_id b1 = b_id b2 -> b1 = b2.
Variable keysA : list (N * N).
Variable B : Z.
Hypothesis B_pos : 0 < B.

Lemma bruns_inv : forall w1 w2, w1 <> w2 -> forall n vs c st, ninv g U n -> (forall v, In v vs -> v = w1 \/ v = w2) ->
  minv2 p g U w1 w2 keysA c st -> minv2 p g U w1 w2 keysA c (bruns p B n st vs).
Proof.
  intros w1 w2 H12 n. induction vs as [|a r IH]; intros c st Hn Hb Hinv; [assumption|].
  cbn [bruns]. apply IH; [assumption|intros v Hv; apply Hb; right; assumption|].
  destruct (Hb a (or_introl eq_refl)) as [->| ->].
  - apply (mbatch2_inv p g U U_ids w1 w2 H12 keysA B c n st Hn B_pos Hinv).
  - apply (mbatch2_inv_2 p g U U_ids w1 w2 H12 keysA B c n st Hn B_pos Hinv).
Qed.

Lemma minv2_cursor_range1 : forall w1 w2 c st k, minv2 p g U w1 w2 keysA c st ->
  status_of st w1 = Some (WImporting k) -> 0 <= k <= chain_height c.
Proof.
  intros w1 w2 c st k [_ _ _ _ _ _ _ _ [top1 [top2 [Htop1 [_ [Hr1 _]]]]]] Hs.
  destruct Htop1 as [Hs'|[_ [Hs'|[Hs' _]]]]; congruence.
Qed.

(* in step: the batches of w1 among [vs] advance its cursor by B each, whatever the batches of w2 do in between;
   m >= 1 batches of w1 suffice when cursor + m * B reaches the height *)
Lemma bruns_live_1 : forall w1 w2, w1 <> w2 -> forall n vs st, ninv g U n -> (forall v, In v vs -> v = w1 \/ v = w2) ->
  minv2 p g U w1 w2 keysA n st ->
  (status_of st w1 = Some WReady \/
   exists k, status_of st w1 = Some (WImporting k) /\ (0 < count_occ N.eq_dec vs w1)%nat /\
             chain_height n <= k + Z.of_nat (count_occ N.eq_dec vs w1) * B) ->
  status_of (bruns p B n st vs) w1 = Some WReady.
Proof.
  intros w1 w2 H12 n. induction vs as [|a r IH]; intros st Hn Hb Hinv H.
  - destruct H as [H|[k [Hs [Hpos Hle]]]]; [exact H|]. cbn [count_occ] in Hpos. lia.
  - cbn [bruns].
    assert (Hinv1 : minv2 p g U w1 w2 keysA n (fst (import_batch repaired p B n st a))).
    { destruct (Hb a (or_introl eq_refl)) as [->| ->].
      - apply (mbatch2_inv p g U U_ids w1 w2 H12 keysA B n n st Hn B_pos Hinv).
      - apply (mbatch2_inv_2 p g U U_ids w1 w2 H12 keysA B n n st Hn B_pos Hinv). }
    apply IH; [assumption|intros v Hv; apply Hb; right; assumption|assumption|].
    destruct (N.eq_dec a w1) as [->|Hne].
    + destruct H as [H|[k [Hs [Hpos Hle]]]].
      * left. rewrite (batch_noop_when_ready repaired p B n st w1 H). exact H.
      * pose proof (mbatch2_progress p g U w1 w2 H12 keysA B n st k Hn B_pos Hinv Hs) as Hst. cbv zeta in Hst.
        rewrite (count_occ_cons_eq N.eq_dec r (eq_refl w1)) in Hle. rewrite Nat2Z.inj_succ, Z.mul_succ_l in Hle.
        destruct (Z.min (k + B) (chain_height n) =? chain_height n) eqn:Es; [left; exact Hst|].
        right. exists (Z.min (k + B) (chain_height n)). split; [exact Hst|]. apply Z.eqb_neq in Es.
        destruct (count_occ N.eq_dec r w1) as [|m']; [cbn in Hle; lia|]. split; [lia|]. lia.
    + rewrite (import_batch_other_status repaired p B n st a w1) by congruence.
      destruct H as [H|[k [Hs [Hpos Hle]]]]; [left; exact H|]. right. exists k. split; [exact Hs|].
      rewrite (count_occ_cons_neq N.eq_dec r Hne) in Hpos, Hle. split; assumption.
Qed.

End Live2.

Section Live2History.
Variable p : params.
Variable g : block.
Variable U : list block.
Hypothesis U_ids : forall b1 b2, In b1 U -> In b2 U -> b_id b1 = b_id b2 -> b1 = b2.
Variables w1 w2 : N.
Hypothesis w12 : w1 <> w2.
Variable B cap : Z.
Hypothesis B_pos : 0 < B.

(* from a point where the handler is in step: batches of the two wallets in ANY interleaving [vs], no chain event *)
Lemma sinv2_live : forall keysA s vs, sinv2 p g U w1 w2 keysA s -> in_step g s ->
  (forall v, In v vs -> v = w1 \/ v = w2) ->
  let s' := fold_left (xstep repaired p B cap) (map XBatch vs) s in
  sinv2 p g U w1 w2 keysA s' /\ xs_node s' = xs_node s /\ in_step g s' /\
  (forall v, v = w1 \/ v = w2 -> status_of (xs_st s) v <> None ->
     (forall k, status_of (xs_st s) v = Some (WImporting k) ->
                (0 < count_occ N.eq_dec vs v)%nat /\
                chain_height (xs_node s) <= k + Z.of_nat (count_occ N.eq_dec vs v) * B) ->
     status_of (xs_st s') v = Some WReady).
Proof.
  intros keysA s vs Hs Hstep Hb s'.
  pose proof (sinv2_in_step p g U U_ids w1 w2 keysA s Hs Hstep) as Hinv.
  pose proof Hs as [Hcr [Hninv _]].
  assert (Hs'eq : s' = with_st s (bruns p B (xs_node s) (xs_st s) vs)) by (unfold s'; apply fold_bruns).
  pose proof (bruns_inv p g U U_ids keysA B B_pos w1 w2 w12 (xs_node s) vs _ _ Hninv Hb Hinv) as Hinv'.
  rewrite Hs'eq. cbn [with_st xs_node xs_st xs_crashed].
  split; [split; [assumption|split; [assumption|eexists; exact Hinv']]|].
  split; [reflexivity|]. split.
  - unfold in_step in *. cbn [with_st xs_node xs_st]. unfold tip in *. rewrite bruns_synced. assumption.
  - intros v Hv Hne Hm.
    destruct (m2_state _ _ _ _ _ _ _ _ Hinv) as [top1 [top2 [Htop1 [Htop2 _]]]].
    destruct Hv as [->| ->].
    + apply (bruns_live_1 p g U U_ids keysA B B_pos w1 w2 w12 (xs_node s) vs _ Hninv Hb Hinv).
      destruct Htop1 as [Hsi|[_ [Hsr|[Hsn _]]]]; [right; exists top1; split; [assumption|apply Hm; assumption]|left; assumption|contradiction].
    + apply (bruns_live_1 p g U U_ids keysA B B_pos w2 w1 (fun H => w12 (eq_sym H)) (xs_node s) vs _ Hninv).
      * intros v Hv. destruct (Hb v Hv); [right|left]; assumption.
      * apply minv2_swap. exact Hinv.
      * destruct Htop2 as [Hsi|[_ [Hsr|[Hsn _]]]]; [right; exists top2; split; [assumption|apply Hm; assumption]|left; assumption|contradiction].
Qed.

Lemma sinv2_cursor_range : forall keysA s v k, sinv2 p g U w1 w2 keysA s -> in_step g s -> v = w1 \/ v = w2 ->
  status_of (xs_st s) v = Some (WImporting k) -> 0 <= k <= chain_height (xs_node s).
Proof.
  intros keysA s v k Hs Hstep Hv Hk. pose proof (sinv2_in_step p g U U_ids w1 w2 keysA s Hs Hstep) as Hinv.
  destruct Hv as [->| ->].
  - apply (minv2_cursor_range1 p g U keysA w1 w2 _ _ k Hinv Hk).
  - apply (minv2_cursor_range1 p g U keysA w2 w1 _ _ k (minv2_swap _ _ _ _ _ _ _ _ Hinv) Hk).
Qed.

End Live2History.

(* ================================================================ Part C: the frame *)

(* absolute: at any moment, whatever the two rescans are doing, every wallet other than w1 and w2 holds exactly
   its credits (spent marks included) of the chain the handler follows, and reports what the chain says *)
Lemma minv2_frame : forall p g U w1 w2 keysA c st v, minv2 p g U w1 w2 keysA c st -> v <> w1 -> v <> w2 ->
  proj v (credits (x_w st)) = proj v (credits (L p (lookupN keysA) c)) /\
  xreport st v = spec_report p (lookupN keysA) c v.
Proof.
  intros p g U w1 w2 keysA c st v Hinv H1 H2.
  pose proof (m2_wf _ _ _ _ _ _ _ _ Hinv) as Hwf. pose proof (m2_synced _ _ _ _ _ _ _ _ Hinv) as Hsy.
  destruct (m2_state _ _ _ _ _ _ _ _ Hinv) as [top1 [top2 [_ [_ [_ [_ [_ [_ [Hco _]]]]]]]]].
  pose proof (minv2_oth_live p w1 w2 keysA c st Hco) as L0.
  assert (Hsub : forall x, (x =? v)%N = true -> oth w1 w2 x = true).
  { intros x Hx. apply N.eqb_eq in Hx. subst x. unfold oth, neither, isw.
    apply N.eqb_neq in H1. apply N.eqb_neq in H2. rewrite H1, H2. reflexivity. }
  assert (Hp : proj v (credits (x_w st)) = proj v (credits (L p (lookupN keysA) c))).
  { rewrite !proj_as_kept. rewrite <- (kept_kept_sub _ (oth w1 w2) _ Hsub). rewrite L0.
    apply (kept_kept_sub _ (oth w1 w2) _ Hsub). }
  split; [assumption|]. unfold xreport. rewrite <- (report_L p (lookupN keysA) c v Hwf).
  apply report_depends_on_proj; [assumption|]. rewrite Hsy. reflexivity.
Qed.

Section Frame2.
Variable p : params.
Variable g : block.
Variable U : list block.
Hypothesis U_ids : forall b1 b2, In b1 U -> In b2 U -> b_id b1 = b_id b2 -> b1 = b2.
Variables w1 w2 : N.
Hypothesis w12 : w1 <> w2.
Variable B cap : Z.
Hypothesis B_pos : 0 < B.

(* what an announcement does to the chain the handler follows depends on that chain, the node's chain and the
   block only ([announced], ImportProofs3) — also with two rescans running *)
Lemma mprocess2_cases : forall keysA c n st b,
  ninv g U n -> minv2 p g U w1 w2 keysA c st -> In b U -> b <> g ->
  (exists st' c', xprocess repaired p n st b = XOk st' /\ minv2 p g U w1 w2 keysA c' st' /\ announced c n b (Some c')) \/
  (xprocess repaired p n st b = XErr /\ ~ In b n /\
   forall st2, synced (x_w st2) = synced (x_w st) ->
               (forall st2', xprocess repaired p n st2 b = XOk st2' -> False)).
Proof.
  intros keysA c n st b Hninv Hinv HbU Hbg. pose proof Hninv as [Hwfn [Hgn HnU]].
  pose proof Hinv as [Hwfc Hgc HcU Hsy _ _ Hcov _ _].
  assert (Hbyid : forall nb, In nb n -> b_id nb = b_id b -> In b n).
  { intros nb Hin Hid. rewrite <- (U_ids nb b (HnU _ Hin) HbU Hid). assumption. }
  destruct (in_dec block_eq_dec b n) as [Hbn|Hbn].
  - left. apply in_split in Hbn. destruct Hbn as [n1 [n2 Hn]].
    assert (Hne : n1 <> []).
    { intros Hnil. subst n1. destruct Hgn as [n' Hn']. rewrite Hn in Hn'. cbn [app] in Hn'. inversion Hn'. contradiction. }
    destruct (mprocess2_on_node p g U U_ids w1 w2 w12 keysA c n st b n1 n2 Hninv Hinv Hn Hne) as [st' [Hx Hinv']].
    exists st', (n1 ++ [b]). split; [assumption|split; [assumption|apply (An_node c n b n1 n2 Hn)]].
  - assert (Hfail : forall st2 st2', synced (x_w st2) = synced (x_w st) ->
               xprocess repaired p n st2 b = XOk st2' ->
               exists c1 c2, c = c1 ++ b :: c2 /\ collect n (x_w st) (S (Z.to_nat (b_height b))) b [] = Some (b_height b, []) /\
                             (snd (tip (x_w st)) =? b_prev b)%N = false).
    { intros st2 st2' Hsy2 H'. unfold xprocess in H'.
      assert (Htip2 : tip (x_w st2) = tip (x_w st)) by (unfold tip; rewrite Hsy2; reflexivity).
      rewrite Htip2 in H'.
      destruct (snd (tip (x_w st)) =? b_prev b)%N.
      - exfalso. destruct (xconnect_all_ok_in p _ _ _ _ H' b (or_introl eq_refl)) as [nb [Hin Hid]].
        apply Hbn. apply (Hbyid nb Hin Hid).
      - rewrite (collect_synced_ext n (x_w st2) (x_w st) _ b [] Hsy2) in H'.
        destruct (collect n (x_w st) (S (Z.to_nat (b_height b))) b []) as [[fork bs]|] eqn:Hcol; [|discriminate].
        destruct (xrollback repaired st2 (fork + 1)) as [st1| |] eqn:Hrb; try discriminate.
        destruct (collect_cases _ _ _ _ _ _ _ Hcol) as [[Hm [Hf Hbs]]|Hin].
        + subst fork bs.
          assert (Hbc : In b c).
          { apply (matched_in p (ownW w1 keysA) c [b] b).
            - apply (agree_U_2 U U_ids); [assumption|]. intros z [Hz|[]]. subst z. assumption.
            - left. reflexivity.
            - rewrite <- Hm. apply matched_synced_ext. rewrite Hsy. reflexivity. }
          apply in_split in Hbc. destruct Hbc as [c1 [c2 Hc]]. exists c1, c2. repeat split; assumption.
        + exfalso. destruct (xconnect_all_ok_in p _ _ _ _ H' b Hin) as [nb [Hin' Hid]].
          apply Hbn. apply (Hbyid nb Hin' Hid). }
    destruct (xprocess repaired p n st b) as [st'| |] eqn:Hx.
    + left. destruct (Hfail st st' eq_refl Hx) as [c1 [c2 [Hc [Hcol Htip]]]].
      destruct (mrollback2_own p g U w1 w2 w12 keysA c st c1 b c2 Hinv Hc) as [st1 [Hrb Hinv1]].
      assert (Hst' : st' = st1).
      { unfold xprocess in Hx. rewrite Htip, Hcol, Hrb in Hx. cbn [xconnect_all] in Hx. inversion Hx. reflexivity. }
      subst st'. exists st1, (c1 ++ [b]). split; [reflexivity|split; [assumption|apply (An_old c n b c1 c2 Hbn Hc)]].
    + right. split; [reflexivity|split; [assumption|]]. intros st2 Hsy2 st2' H2.
      destruct (Hfail st2 st2' Hsy2 H2) as [c1 [c2 [Hc [Hcol Htip]]]].
      destruct (mrollback2_own p g U w1 w2 w12 keysA c st c1 b c2 Hinv Hc) as [st1 [Hrb Hinv1]].
      unfold xprocess in Hx. rewrite Htip, Hcol, Hrb in Hx. cbn [xconnect_all] in Hx. discriminate.
    + exfalso. apply (xprocess_repaired_no_panic p _ _ _ Hx).
Qed.

(* the pair of runs: the same events applied to a database with keystore table keysX and to one with keys0 (in
   which w1 and w2 may be absent: their batches are no-ops there); both follow the SAME chain c *)
Definition pinv2 (keys0 keysX : list (N * N)) (s s2 : xsim) : Prop :=
  xs_node s = xs_node s2 /\ xs_crashed s = false /\ xs_crashed s2 = false /\ ninv g U (xs_node s) /\
  exists c, minv2 p g U w1 w2 keysX c (xs_st s) /\ minv2 p g U w1 w2 keys0 c (xs_st s2).

Lemma pinv2_step : forall keys0 keysX s s2 e, pinv2 keys0 keysX s s2 -> ev_ok2 g U w1 w2 s e ->
  pinv2 keys0 keysX (xstep repaired p B cap s e) (xstep repaired p B cap s2 e).
Proof.
  intros keys0 keysX s s2 e [Hnode [Hcr [Hcr2 [Hninv [c [Hinv Hinv2]]]]]] Hok. pose proof Hninv as [Hwfn [Hgn HnU]].
  destruct e as [b| |b|w0 ps|sh w0|w0 ps shs|v|w0 ps|w0|w0|]; cbn [ev_ok2] in Hok; try contradiction.
  - destruct Hok as [HbU Hwf']. cbn [xstep]. unfold pinv2. cbn [xs_node xs_st xs_crashed]. rewrite <- Hnode.
    split; [reflexivity|split; [assumption|split; [assumption|split]]].
    + split; [assumption|split].
      * destruct Hgn as [n' Hn']. rewrite Hn'. exists (n' ++ [b]). reflexivity.
      * intros z Hz. apply in_app_or in Hz. destruct Hz as [Hz|[Hz|[]]]; [apply HnU; assumption|subst z; assumption].
    + exists c. split; assumption.
  - cbn [xstep]. unfold pinv2. cbn [xs_node xs_st xs_crashed]. rewrite <- Hnode.
    split; [reflexivity|split; [assumption|split; [assumption|split]]].
    + split; [assumption|split].
      * apply from_g_removelast; [assumption|]. apply wf_nonempty. assumption.
      * intros z Hz. apply HnU. apply removelast_in. assumption.
    + exists c. split; assumption.
  - destruct Hok as [HbU Hbg]. cbn [xstep]. rewrite Hcr, Hcr2, <- Hnode.
    assert (Hsy : synced (x_w (xs_st s2)) = synced (x_w (xs_st s))).
    { rewrite (m2_synced _ _ _ _ _ _ _ _ Hinv), (m2_synced _ _ _ _ _ _ _ _ Hinv2). reflexivity. }
    pose proof (m2_wf _ _ _ _ _ _ _ _ Hinv) as Hwfc.
    assert (Hndn : NoDup (xs_node s)) by (apply (NoDup_map_inv b_id); apply (wf_bids _ Hwfn)).
    assert (Hndc : NoDup c) by (apply (NoDup_map_inv b_id); apply (wf_bids _ Hwfc)).
    destruct (mprocess2_cases keysX c _ _ b Hninv Hinv HbU Hbg) as [[st' [c' [Hx [Hinv' Han]]]]|[Hx [_ Hno]]];
    destruct (mprocess2_cases keys0 c _ _ b Hninv Hinv2 HbU Hbg) as [[st2' [c2' [Hx2 [Hinv2' Han2]]]]|[Hx2 [_ Hno2]]].
    + rewrite Hx, Hx2. rewrite (announced_det _ _ _ _ _ Hndn Hndc Han2 Han) in Hinv2'.
      unfold pinv2. cbn [with_st xs_node xs_st xs_crashed].
      split; [assumption|split; [assumption|split; [assumption|split; [assumption|]]]]. exists c'. split; assumption.
    + exfalso. apply (Hno2 (xs_st s) (eq_sym Hsy) st' Hx).
    + exfalso. apply (Hno (xs_st s2) Hsy st2' Hx2).
    + rewrite Hx, Hx2. unfold pinv2. split; [assumption|split; [assumption|split; [assumption|split; [assumption|]]]].
      exists c. split; assumption.
  - cbn [xstep]. unfold pinv2. cbn [with_st xs_node xs_st xs_crashed]. rewrite <- Hnode.
    split; [reflexivity|split; [assumption|split; [assumption|split; [assumption|]]]].
    exists c. destruct Hok as [->| ->].
    + split; apply (mbatch2_inv p g U U_ids w1 w2 w12 _ B c _ _ Hninv B_pos); assumption.
    + split; apply (mbatch2_inv_2 p g U U_ids w1 w2 w12 _ B c _ _ Hninv B_pos); assumption.
Qed.

Lemma pinv2_run : forall keys0 keysX h s s2, pinv2 keys0 keysX s s2 -> xwf2 p g U w1 w2 B cap s h ->
  pinv2 keys0 keysX (fold_left (xstep repaired p B cap) h s) (fold_left (xstep repaired p B cap) h s2).
Proof.
  intros keys0 keysX. induction h as [|e r IH]; intros s s2 Hp Hwf; [assumption|].
  cbn [fold_left]. destruct Hwf as [Hok Hr]. apply IH; [apply pinv2_step; assumption|assumption].
Qed.

End Frame2.

(* ================================================================ Part D: block records under [minv2] *)

Lemma xstep_nodup2 : forall g U, (forall b1 b2, In b1 U -> In b2 U -> b_id b1 = b_id b2 -> b1 = b2) ->
  forall p w1 w2 B cap s e,
  ninv g U (xs_node s) -> ev_ok2 g U w1 w2 s e -> brs_nodup (x_brecs (xs_st s)) ->
  brs_nodup (x_brecs (xs_st (xstep repaired p B cap s e))).
Proof.
  intros g U U_ids p w1 w2 B cap s e Hninv Hok Hnd.
  destruct e as [b| |b|w0 ps|sh w0|w0 ps shs|v|w0 ps|w0|w0|]; cbn [ev_ok2] in Hok; try contradiction.
  - exact Hnd.
  - exact Hnd.
  - destruct Hok as [HbU _]. cbn [xstep]. destruct (xs_crashed s); [assumption|].
    destruct (xprocess repaired p (xs_node s) (xs_st s) b) as [st'| |] eqn:Hx; try assumption.
    cbn [with_st xs_st]. apply (xprocess_nodup g U U_ids _ _ _ _ _ _ Hninv HbU Hx Hnd).
  - cbn [xstep with_st xs_st]. apply import_batch_nodup. assumption.
Qed.

Section Once2.
Variable p : params.
Variable g : block.
Variable U : list block.
Hypothesis U_ids : forall b1 b2, In b1 U -> In b2 U -> b_id b1 = b_id b2 -> b1 = b2.
Variables w1 w2 : N.
Hypothesis w12 : w1 <> w2.
Variable B cap : Z.
Hypothesis B_pos : 0 < B.

Lemma brs_nodup_run2 : forall keysA h s,
  sinv2 p g U w1 w2 keysA s -> xwf2 p g U w1 w2 B cap s h -> brs_nodup (x_brecs (xs_st s)) ->
  brs_nodup (x_brecs (xs_st (fold_left (xstep repaired p B cap) h s))).
Proof.
  intros keysA. induction h as [|e r IH]; intros s Hs Hwf Hnd; [assumption|].
  cbn [fold_left]. destruct Hwf as [Hok Hr]. apply IH; [| assumption |].
  - destruct Hs as [Hcr [Hninv [c Hinv]]]. apply (minv2_step p g U U_ids w1 w2 w12 B cap B_pos keysA s e c Hcr Hninv Hinv Hok).
  - destruct Hs as [_ [Hninv _]]. apply (xstep_nodup2 g U U_ids p w1 w2 B cap s e Hninv Hok Hnd).
Qed.

Lemma credit_recorded_once2 : forall keysA c st, minv2 p g U w1 w2 keysA c st -> brs_nodup (x_brecs st) ->
  forall cr b, In cr (credits (x_w st)) -> In b c ->
    (c_height cr = b_height b -> recorded_once (x_brecs st) (b_height b) (b_id b) (c_tx cr)) /\
    (forall tid i, c_spent cr = Some (tid, i, b_height b) -> recorded_once (x_brecs st) (b_height b) (b_id b) tid).
Proof.
  intros keysA c st Hinv Hnd cr b Hcr Hb.
  destruct (m2_state _ _ _ _ _ _ _ _ Hinv) as [top1 [top2 [_ [_ [_ [_ [_ [_ [_ [Hok _]]]]]]]]]].
  destruct (wf_linked _ (m2_wf _ _ _ _ _ _ _ _ Hinv)) as [pv Hl].
  pose proof (linked_uniq_heights c pv Hl) as Hu.
  destruct (m2_cov _ _ _ _ _ _ _ _ Hinv cr Hcr) as [H1 H2]. unfold lst in H1, H2. split.
  - intros Hh. apply (listed_recorded_once c); try assumption. rewrite <- Hh. assumption.
  - intros tid i Hs. apply (listed_recorded_once c); try assumption. apply (H2 tid i _ Hs).
Qed.

Lemma relevant_recorded_once2 : forall keysA n st,
  minv2 p g U w1 w2 keysA n st -> equals_live_all p st n -> brs_nodup (x_brecs st) ->
  forall b t, In b n -> In t (b_txs b) ->
    pays_db st t \/ spends_marked st b t \/ spends_chain st n t ->
    recorded_once (x_brecs st) (b_height b) (b_id b) (t_id t).
Proof.
  intros keysA n st Hinv Hlive Hnd b t Hb Ht Hrel.
  pose proof (m2_wf _ _ _ _ _ _ _ _ Hinv) as Hwf.
  pose proof (equals_live_all_coins p st n Hlive Hwf) as Hperm.
  assert (Hstore : forall k, In k (coins_l (key_owner st) (ptxs n)) ->
            In (mk_credit p k (spender_l (ptxs n) (coin_op k))) (credits (x_w st))).
  { intros k Hk. apply (Permutation_in _ (Permutation_sym Hperm)). apply coin_credit_in_E. assumption. }
  destruct Hrel as [[o [v [Ho [Hc Hown]]]]|[[cr [i [Hcr Hs]]]|[Hcb [op [pt [o [v [Hop [Hpt [Hid [Hj [Hc Hown]]]]]]]]]]]].
  - destruct (In_nth_error _ _ Ho) as [j Hj].
    destruct (owned_output_coin (key_owner st) n b t j o v Hb Ht Hj (out_owner_of _ _ _ Hc Hown)) as [k [Hk [Htx [_ Hh]]]].
    destruct (credit_recorded_once2 keysA n st Hinv Hnd _ b (Hstore k Hk) Hb) as [H1 _].
    cbn [mk_credit c_height c_tx] in H1. rewrite Htx in H1. apply H1. assumption.
  - destruct (credit_recorded_once2 keysA n st Hinv Hnd cr b Hcr Hb) as [_ H2]. apply (H2 _ i Hs).
  - unfold chain_txs in Hpt. apply in_flat_map in Hpt. destruct Hpt as [b0 [Hb0 Hpt]].
    destruct (owned_output_coin (key_owner st) n b0 pt _ o v Hb0 Hpt Hj (out_owner_of _ _ _ Hc Hown)) as [k [Hk [Htx [Hv _]]]].
    assert (Hkop : coin_op k = op).
    { unfold coin_op. rewrite Htx, Hv, N2Nat.id, Hid. destruct op; reflexivity. }
    destruct (spender_of_input n b t op Hwf Hb Ht Hcb Hop) as [i Hsp].
    destruct (credit_recorded_once2 keysA n st Hinv Hnd _ b (Hstore k Hk) Hb) as [_ H2].
    apply (H2 (t_id t) i). cbn [mk_credit c_spent]. rewrite Hkop. assumption.
Qed.

End Once2.

Lemma import_start_brecs_any : forall st w pass shs st1, import_start st w pass shs = Some st1 -> x_brecs st1 = x_brecs st.
Proof.
  intros st w pass shs st1 H. unfold import_start in H. destruct (wallet_known st w); [discriminate|].
  inversion H. reflexivity.
Qed.

Lemma import_start_status_other : forall st w pass shs st1 v, import_start st w pass shs = Some st1 -> v <> w ->
  status_of st1 v = status_of st v.
Proof.
  intros st w pass shs st1 v H Hv. unfold import_start in H. destruct (wallet_known st w); [discriminate|].
  inversion H. unfold status_of. cbn [x_status]. apply lookupN_app_other. assumption.
Qed.

(* ================================================================ Part E: packaged (the setting of ImportProofs6.Packaged2) *)

Section Packaged7.
Variable p : params.
Variable g : block.
Variable U : list block.
Hypothesis U_ids : forall b1 b2, In b1 U -> In b2 U -> b_id b1 = b_id b2 -> b1 = b2.
Variables w1 w2 : N.
Hypothesis w12 : w1 <> w2.
Variable keys0 : list (N * N).
Variable B cap : Z.
Hypothesis B_pos : 0 < B.
Variables (pass1 sh1 : N) (shs1 : list N) (pass2 sh2 : N) (shs2 : list N).
Variables (c0 n0 : list block) (all0 : list tx) (st0 st1 : xstate).
Hypothesis node0 : ninv g U n0.
Hypothesis start0 : minv p g U w1 keys0 c0 st0.
Hypothesis absent0 : status_of st0 w1 = None.
Hypothesis nokeys0 : forall s, ownW w1 keys0 s = None.
Hypothesis disjoint1 : forall s, In s (sh1 :: shs1) -> lookupN keys0 s = None.
Hypothesis import1 : import_start st0 w1 pass1 (sh1 :: shs1) = Some st1.

Let keys1 := keys0 ++ keys_of w1 (sh1 :: shs1).
Let keysB := keys1 ++ keys_of w2 (sh2 :: shs2).
Let s0 := {| xs_node := n0; xs_st := st1; xs_all := all0; xs_crashed := false |}.

Variable h1 : list xevent.
Hypothesis hist1 : xwf p g U w1 B cap s0 h1.
Let s1 := fold_left (xstep repaired p B cap) h1 s0.
Variable st2 : xstate.
Hypothesis import2 : import_start (xs_st s1) w2 pass2 (sh2 :: shs2) = Some st2.
Hypothesis disjoint2 : forall s, In s (sh2 :: shs2) -> lookupN keys1 s = None.
Let s1' := {| xs_node := xs_node s1; xs_st := st2; xs_all := xs_all s1; xs_crashed := false |}.

Lemma tie : forall h2, xwf2 p g U w1 w2 B cap s1' h2 ->
  let s := fold_left (xstep repaired p B cap) h2 s1' in
  sinv2 p g U w1 w2 keysB s /\
  (in_step g s -> status_of (xs_st s) w1 = Some WReady -> status_of (xs_st s) w2 = Some WReady ->
     equals_live_all p (xs_st s) (xs_node s)) /\
  (forall v, v = w1 \/ v = w2 -> status_of (xs_st s) v <> Some WReady -> use_wallet (xs_st s) v = UUnready) /\
  x_dead (xs_st s) = [] /\ xs_crashed s = false.
Proof.
  intros h2 Hwf2.
  exact (two_imports_equal_live p g U U_ids w1 w2 w12 keys0 B cap B_pos pass1 sh1 shs1 pass2 sh2 shs2 c0 n0 all0 st0 st1
           node0 start0 absent0 nokeys0 disjoint1 import1 h1 hist1 st2 import2 disjoint2 h2 Hwf2).
Qed.

Lemma never_absent2 : forall h2, xwf2 p g U w1 w2 B cap s1' h2 ->
  forall v, v = w1 \/ v = w2 -> status_of (xs_st (fold_left (xstep repaired p B cap) h2 s1')) v <> None.
Proof.
  intros h2 Hwf2 v Hv Hn. destruct (tie h2 Hwf2) as [_ [_ [Hun _]]].
  specialize (Hun v Hv). unfold use_wallet in Hun. rewrite Hn in Hun.
  assert (H : UErr = UUnready) by (apply Hun; discriminate). discriminate.
Qed.

(* T1 LIVENESS for two rescans: from any point of any history where the handler is in step, batches of the two
   wallets in ANY interleaving [vs] (no chain event in between): each wallet is ready once it has had m >= 1
   batches with cursor + m * B >= height (m = the number of ITS batches in vs); when both are ready the database
   is the live run *)
Theorem two_imports_live_tight : forall h2 vs, xwf2 p g U w1 w2 B cap s1' h2 ->
  let s := fold_left (xstep repaired p B cap) h2 s1' in
  in_step g s -> (forall v, In v vs -> v = w1 \/ v = w2) ->
  let s' := fold_left (xstep repaired p B cap) (h2 ++ map XBatch vs) s1' in
  xs_node s' = xs_node s /\ in_step g s' /\
  (forall v, v = w1 \/ v = w2 ->
     (forall k, status_of (xs_st s) v = Some (WImporting k) ->
                (0 < count_occ N.eq_dec vs v)%nat /\
                chain_height (xs_node s) <= k + Z.of_nat (count_occ N.eq_dec vs v) * B) ->
     status_of (xs_st s') v = Some WReady) /\
  (status_of (xs_st s') w1 = Some WReady -> status_of (xs_st s') w2 = Some WReady ->
     equals_live_all p (xs_st s') (xs_node s')).
Proof.
  intros h2 vs Hwf2 s Hstep Hb s'.
  destruct (tie h2 Hwf2) as [Hs _]. fold s in Hs.
  assert (Hs'eq : s' = fold_left (xstep repaired p B cap) (map XBatch vs) s) by (unfold s'; rewrite fold_left_app; reflexivity).
  destruct (sinv2_live p g U U_ids w1 w2 w12 B cap B_pos keysB s vs Hs Hstep Hb) as [Hs' [Hnode [Hstep' Hlive]]].
  rewrite <- Hs'eq in Hs', Hnode, Hstep', Hlive.
  split; [assumption|]. split; [assumption|]. split.
  - intros v Hv Hm. apply (Hlive v Hv); [|assumption]. apply (never_absent2 h2 Hwf2 v Hv).
  - intros Hr1 Hr2. apply (sinv2_correct p g U U_ids w1 w2 w12 keysB s' Hs' Hstep' Hr1 Hr2).
Qed.

(* ... in the form of [import_live_multi]: ready once cursor + m * B EXCEEDS the height *)
Theorem two_imports_live : forall h2 vs, xwf2 p g U w1 w2 B cap s1' h2 ->
  let s := fold_left (xstep repaired p B cap) h2 s1' in
  in_step g s -> (forall v, In v vs -> v = w1 \/ v = w2) ->
  let s' := fold_left (xstep repaired p B cap) (h2 ++ map XBatch vs) s1' in
  xs_node s' = xs_node s /\ in_step g s' /\
  (forall v, v = w1 \/ v = w2 ->
     (forall k, status_of (xs_st s) v = Some (WImporting k) ->
                chain_height (xs_node s) < k + Z.of_nat (count_occ N.eq_dec vs v) * B) ->
     status_of (xs_st s') v = Some WReady) /\
  (status_of (xs_st s') w1 = Some WReady -> status_of (xs_st s') w2 = Some WReady ->
     equals_live_all p (xs_st s') (xs_node s')).
Proof.
  intros h2 vs Hwf2 s Hstep Hb s'.
  destruct (two_imports_live_tight h2 vs Hwf2 Hstep Hb) as [Hn [Hst [Hl He]]]. fold s s' in Hn, Hst, Hl, He.
  split; [assumption|]. split; [assumption|]. split; [|assumption].
  intros v Hv Hm. apply (Hl v Hv). intros k Hk. specialize (Hm k Hk).
  destruct (tie h2 Hwf2) as [Hs _]. fold s in Hs.
  pose proof (sinv2_cursor_range p g U U_ids w1 w2 keysB s v k Hs Hstep Hv Hk) as Hr.
  destruct (count_occ N.eq_dec vs v) as [|m']; [cbn in Hm; lia|]. split; lia.
Qed.

(* T2 FRAME, absolute: at EVERY point every wallet other than w1 and w2 holds exactly the ledger of the keys the
   database had BEFORE the two restores, over the chain the handler follows *)
Theorem two_imports_frame : forall h2, xwf2 p g U w1 w2 B cap s1' h2 ->
  let s := fold_left (xstep repaired p B cap) h2 s1' in
  exists c, wf_chain c /\ synced (x_w (xs_st s)) = synced_of c /\
    forall v, v <> w1 -> v <> w2 ->
      proj v (credits (x_w (xs_st s))) = proj v (credits (L p (lookupN keys0) c)) /\
      xreport (xs_st s) v = spec_report p (lookupN keys0) c v.
Proof.
  intros h2 Hwf2 s. destruct (tie h2 Hwf2) as [[_ [_ [c Hinv]]] _]. fold s in Hinv.
  pose proof (m2_wf _ _ _ _ _ _ _ _ Hinv) as Hwf. pose proof (m2_synced _ _ _ _ _ _ _ _ Hinv) as Hsy.
  exists c. split; [assumption|]. split; [assumption|]. intros v H1 H2.
  destruct (minv2_frame p g U w1 w2 keysB c _ v Hinv H1 H2) as [Hp _].
  unfold keysB in Hp. rewrite (proj_L_keys_app p w2 keys1 (sh2 :: shs2) c v H2) in Hp.
  unfold keys1 in Hp. rewrite (proj_L_keys_app p w1 keys0 (sh1 :: shs1) c v H1) in Hp.
  split; [assumption|]. unfold xreport. rewrite <- (report_L p (lookupN keys0) c v Hwf).
  apply report_depends_on_proj; [assumption|]. rewrite Hsy. reflexivity.
Qed.

(* the second wallet is a name the database did not know before the first restore either *)
Lemma second_absent_before : status_of st0 w2 = None /\ (forall s, ownW w2 keys0 s = None) /\
  status_of st1 w2 = None /\ (forall s, ownW w2 keys1 s = None).
Proof.
  pose proof (sinv_m_run p g U U_ids w1 B cap B_pos keys1 h1 s0
                (start_sinv_m p g U w1 keys0 pass1 sh1 shs1 c0 n0 all0 st0 st1 node0 start0 absent0 nokeys0 import1) hist1) as Hs1.
  fold s1 in Hs1. destruct Hs1 as [_ [_ [c1 Hinv1]]].
  pose proof (mi_keys _ _ _ _ _ _ _ Hinv1) as Hk1.
  destruct (import_start_unknown _ _ _ _ _ import2) as [Habs2 Hnk2]. rewrite Hk1 in Hnk2.
  assert (Hch : Forall chain_ev h1).
  { apply (xwf2_chain_ev p g U w1 w2 B cap h1 s0). apply xwf_xwf2. exact hist1. }
  assert (Hst1 : status_of st1 w2 = None).
  { apply (run_none_iff p B cap h1 s0 w2 Hch). exact Habs2. }
  assert (H21 : w2 <> w1) by congruence.
  split; [|split; [|split; assumption]].
  - rewrite <- (import_start_status_other _ _ _ _ _ w2 import1 H21). exact Hst1.
  - intros s. rewrite <- (ownW_keys_app_other w1 w2 keys0 (sh1 :: shs1) H21 s). apply Hnk2.
Qed.

(* T2 FRAME, relative: the same events applied to the database in which NEITHER wallet was restored (there the
   batches of w1 and w2 are no-ops): same node, same synced chain; every other wallet has the same credits,
   spent marks and report at every point *)
Theorem two_imports_frame_vs_no_import : forall all0' h2, xwf2 p g U w1 w2 B cap s1' h2 ->
  let s := fold_left (xstep repaired p B cap) h2 s1' in
  let sN := fold_left (xstep repaired p B cap) (h1 ++ h2) {| xs_node := n0; xs_st := st0; xs_all := all0'; xs_crashed := false |} in
  xs_node s = xs_node sN /\ synced (x_w (xs_st s)) = synced (x_w (xs_st sN)) /\
  forall v, v <> w1 -> v <> w2 ->
    proj v (credits (x_w (xs_st s))) = proj v (credits (x_w (xs_st sN))) /\
    xreport (xs_st s) v = xreport (xs_st sN) v.
Proof.
  intros all0' h2 Hwf2 s sN.
  destruct second_absent_before as [Ha0 [Hk0 [Ha1 Hk1]]].
  set (sN0 := {| xs_node := n0; xs_st := st0; xs_all := all0'; xs_crashed := false |}) in *.
  assert (Hp0 : pinv2 p g U w1 w2 keys0 keys1 s0 sN0).
  { split; [reflexivity|]. split; [reflexivity|]. split; [reflexivity|]. split; [exact node0|].
    exists c0. split.
    - cbn [s0 xs_st]. apply minv_minv2; try assumption.
      apply (minv_import_start p g U w1 keys0 c0 st0 pass1 sh1 shs1 st1 start0 absent0 nokeys0 import1).
    - cbn [sN0 xs_st]. apply minv_minv2; assumption. }
  pose proof (pinv2_run p g U U_ids w1 w2 w12 B cap B_pos keys0 keys1 h1 _ _ Hp0 (xwf_xwf2 p g U w1 w2 B cap h1 s0 hist1)) as Hp1.
  fold s1 in Hp1. set (sN1 := fold_left (xstep repaired p B cap) h1 sN0) in *.
  destruct Hp1 as [Hnode1 [_ [Hcr1 [Hninv1 [c1 [Hinv1 HinvN1]]]]]].
  destruct (import_start_unknown _ _ _ _ _ import2) as [Habs2 Hnk2].
  rewrite (m2_keys _ _ _ _ _ _ _ _ Hinv1) in Hnk2.
  assert (Hp1' : pinv2 p g U w1 w2 keys0 keysB s1' sN1).
  { split; [exact Hnode1|]. split; [reflexivity|]. split; [exact Hcr1|]. split; [exact Hninv1|].
    exists c1. split; [|exact HinvN1]. cbn [s1' xs_st].
    apply (minv2_import_start p g U w1 w2 keys1 c1 _ pass2 sh2 shs2 st2 w12 Hinv1 Habs2 Hnk2 import2). }
  pose proof (pinv2_run p g U U_ids w1 w2 w12 B cap B_pos keys0 keysB h2 _ _ Hp1' Hwf2) as Hp2.
  fold s in Hp2. assert (HsN : sN = fold_left (xstep repaired p B cap) h2 sN1) by (unfold sN, sN1; apply fold_left_app).
  rewrite <- HsN in Hp2. destruct Hp2 as [Hnode [_ [_ [_ [c [Hinv HinvN]]]]]].
  assert (Hsy : synced (x_w (xs_st s)) = synced (x_w (xs_st sN))).
  { rewrite (m2_synced _ _ _ _ _ _ _ _ Hinv), (m2_synced _ _ _ _ _ _ _ _ HinvN). reflexivity. }
  split; [assumption|]. split; [assumption|]. intros v H1 H2.
  destruct (minv2_frame p g U w1 w2 keysB c _ v Hinv H1 H2) as [Hp _].
  destruct (minv2_frame p g U w1 w2 keys0 c _ v HinvN H1 H2) as [HpN _].
  unfold keysB in Hp. rewrite (proj_L_keys_app p w2 keys1 (sh2 :: shs2) c v H2) in Hp.
  unfold keys1 in Hp. rewrite (proj_L_keys_app p w1 keys0 (sh1 :: shs1) c v H1) in Hp.
  assert (Hpp : proj v (credits (x_w (xs_st s))) = proj v (credits (x_w (xs_st sN)))) by congruence.
  split; [assumption|]. apply report_depends_on_proj; assumption.
Qed.

(* T3 block records: with the extra premise that the start state's records are duplicate-free *)
Hypothesis nodup0 : brs_nodup (x_brecs st0).

Theorem two_imports_records_once : forall h2, xwf2 p g U w1 w2 B cap s1' h2 ->
  let s := fold_left (xstep repaired p B cap) h2 s1' in
  brs_nodup (x_brecs (xs_st s)) /\
  (exists c, minv2 p g U w1 w2 keysB c (xs_st s) /\
     forall cr b, In cr (credits (x_w (xs_st s))) -> In b c ->
       (c_height cr = b_height b -> recorded_once (x_brecs (xs_st s)) (b_height b) (b_id b) (c_tx cr)) /\
       (forall tid i, c_spent cr = Some (tid, i, b_height b) ->
                      recorded_once (x_brecs (xs_st s)) (b_height b) (b_id b) tid)) /\
  (in_step g s -> status_of (xs_st s) w1 = Some WReady -> status_of (xs_st s) w2 = Some WReady ->
   forall b t, In b (xs_node s) -> In t (b_txs b) ->
     pays_db (xs_st s) t \/ spends_marked (xs_st s) b t \/ spends_chain (xs_st s) (xs_node s) t ->
     recorded_once (x_brecs (xs_st s)) (b_height b) (b_id b) (t_id t)).
Proof.
  intros h2 Hwf2 s.
  pose proof (start_sinv_m p g U w1 keys0 pass1 sh1 shs1 c0 n0 all0 st0 st1 node0 start0 absent0 nokeys0 import1) as Hs0.
  fold keys1 in Hs0. fold s0 in Hs0.
  assert (Hnd0 : brs_nodup (x_brecs (xs_st s0))).
  { cbn [s0 xs_st]. rewrite (import_start_brecs_any _ _ _ _ _ import1). exact nodup0. }
  pose proof (brs_nodup_run p g U U_ids w1 B cap B_pos keys1 h1 s0 Hs0 hist1 Hnd0) as Hnd1. fold s1 in Hnd1.
  assert (Hnd1' : brs_nodup (x_brecs (xs_st s1'))).
  { cbn [s1' xs_st]. rewrite (import_start_brecs_any _ _ _ _ _ import2). exact Hnd1. }
  destruct (tie [] I) as [Hs1' _]. cbn [fold_left] in Hs1'.
  pose proof (brs_nodup_run2 p g U U_ids w1 w2 w12 B cap B_pos keysB h2 s1' Hs1' Hwf2 Hnd1') as Hnd. fold s in Hnd.
  destruct (tie h2 Hwf2) as [Hs _]. fold s in Hs.
  split; [assumption|]. split.
  - destruct Hs as [_ [_ [c Hinv]]]. exists c. split; [assumption|].
    intros cr b Hcr Hb. apply (credit_recorded_once2 p g U w1 w2 keysB c _ Hinv Hnd cr b Hcr Hb).
  - intros Hstep Hr1 Hr2 b t Hb Ht Hrel.
    pose proof (sinv2_in_step p g U U_ids w1 w2 keysB s Hs Hstep) as Hinv.
    pose proof (sinv2_correct p g U U_ids w1 w2 w12 keysB s Hs Hstep Hr1 Hr2) as Hlive.
    apply (relevant_recorded_once2 p g U w1 w2 keysB _ _ Hinv Hlive Hnd b t Hb Ht Hrel).
Qed.

End Packaged7.

(* ================================================================ Part F: from genesis *)

Lemma existsb_keys_of_other : forall w v shs, v <> w -> existsb (fun e : N * N => (snd e =? v)%N) (keys_of w shs) = false.
Proof.
  intros w v shs Hv. unfold keys_of. induction shs as [|a r IH]; [reflexivity|].
  cbn [map existsb snd]. rewrite IH. apply N.eqb_neq in Hv. rewrite N.eqb_sym, Hv. reflexivity.
Qed.

Section FromGenesis2.
Variable p : params.
Variable g : block.
Variable U : list block.
Hypothesis U_ids : forall b1 b2, In b1 U -> In b2 U -> b_id b1 = b_id b2 -> b1 = b2.
Variables B cap : Z.
Hypothesis B_pos : 0 < B.
Variables (n0 : node) (hg : list xevent).
Hypothesis node0 : ninv g U n0.
Hypothesis histg : gwf p g U B cap n0 (xinit_sim n0) hg.
Variables w1 w2 : N.
Hypothesis w12 : w1 <> w2.
Variables (pass1 sh1 : N) (shs1 : list N) (pass2 sh2 : N) (shs2 : list N).

Let sg := xrun repaired p B cap n0 hg.
Let keysG := x_keys (xs_st sg).
Hypothesis absent1 : status_of (xs_st sg) w1 = None.
Hypothesis disjoint1 : forall s, In s (sh1 :: shs1) -> lookupN keysG s = None.
Let sa := xstep repaired p B cap sg (XImportStart w1 pass1 (sh1 :: shs1)).
Variable h1 : list xevent.
Hypothesis hist1 : xwf p g U w1 B cap sa h1.
Let s1 := fold_left (xstep repaired p B cap) h1 sa.
Hypothesis absent2 : status_of (xs_st s1) w2 = None.
Hypothesis disjoint2 : forall s, In s (sh2 :: shs2) -> lookupN (keysG ++ keys_of w1 (sh1 :: shs1)) s = None.
Let sb := xstep repaired p B cap s1 (XImportStart w2 pass2 (sh2 :: shs2)).

(* both restore requests are accepted; the state after the second is the start state of Packaged2 / Packaged7 *)
Lemma second_import_step : exists c0 st1 st2,
  minv p g U w1 keysG c0 (xs_st sg) /\ (forall s, ownW w1 keysG s = None) /\ ninv g U (xs_node sg) /\
  import_start (xs_st sg) w1 pass1 (sh1 :: shs1) = Some st1 /\
  sa = {| xs_node := xs_node sg; xs_st := st1; xs_all := xs_all sg; xs_crashed := false |} /\
  import_start (xs_st s1) w2 pass2 (sh2 :: shs2) = Some st2 /\
  sb = {| xs_node := xs_node s1; xs_st := st2; xs_all := xs_all s1; xs_crashed := false |}.
Proof.
  destruct (import_start_step p g U U_ids B cap n0 hg node0 histg w1 pass1 sh1 shs1 absent1)
    as [c0 [st1 [Hinv [Hnone [Hninv [Himp Hstep]]]]]].
  fold sg in Hinv, Hnone, Hninv, Himp, Hstep. fold keysG in Hinv, Hnone. fold sa in Hstep.
  destruct (reach_ginv p g U U_ids B cap n0 hg node0 histg) as [_ [_ [cg Hg]]]. fold sg in Hg.
  pose proof hist1 as hist1'. rewrite Hstep in hist1'.
  pose proof (sinv_m_run p g U U_ids w1 B cap B_pos _ h1 _
                (start_sinv_m p g U w1 keysG pass1 sh1 shs1 c0 (xs_node sg) (xs_all sg) (xs_st sg) st1 Hninv Hinv absent1 Hnone Himp) hist1') as Hs1.
  rewrite <- Hstep in Hs1. fold s1 in Hs1. destruct Hs1 as [Hcr1 [_ [c1 Hinv1]]].
  pose proof (mi_keys _ _ _ _ _ _ _ Hinv1) as Hk1.
  assert (Hch : Forall chain_ev h1).
  { apply (xwf2_chain_ev p g U w1 w2 B cap h1 sa). apply xwf_xwf2. exact hist1. }
  assert (H21 : w2 <> w1) by congruence.
  assert (Hsa2 : status_of (xs_st sa) w2 = None) by (apply (run_none_iff p B cap h1 sa w2 Hch); exact absent2).
  assert (Hsg2 : status_of (xs_st sg) w2 = None).
  { rewrite Hstep in Hsa2. cbn [xs_st] in Hsa2. rewrite <- (import_start_status_other _ _ _ _ _ w2 Himp H21). exact Hsa2. }
  assert (Hpass : lookupN (x_pass (xs_st s1)) w2 = None).
  { unfold s1. rewrite (run_pass p B cap h1 sa Hch). rewrite Hstep. cbn [xs_st].
    pose proof Himp as Hi. unfold import_start in Hi. destruct (wallet_known (xs_st sg) w1); [discriminate|].
    inversion Hi. cbn [x_pass]. rewrite (lookupN_app_other _ (x_pass (xs_st sg)) w1 w2 pass1 H21).
    destruct (lookupN (x_pass (xs_st sg)) w2) as [ps|] eqn:Hp; [|reflexivity].
    exfalso. apply (gi_pass _ _ _ _ _ Hg w2); [rewrite Hp; discriminate|assumption]. }
  assert (Hkeys : existsb (fun e : N * N => (snd e =? w2)%N) (x_keys (xs_st s1)) = false).
  { rewrite Hk1. rewrite existsb_app. rewrite (existsb_keys_of_other w1 w2 (sh1 :: shs1) H21). rewrite orb_false_r.
    destruct (existsb (fun e : N * N => (snd e =? w2)%N) keysG) eqn:He; [|reflexivity].
    exfalso. apply existsb_exists in He. destruct He as [[sh v] [Hin Hv]]. cbn [snd] in Hv. apply N.eqb_eq in Hv. subst v.
    apply (gi_keys _ _ _ _ _ Hg sh w2 Hin). assumption. }
  assert (Hk : wallet_known (xs_st s1) w2 = false).
  { unfold wallet_known. rewrite absent2, Hpass, Hkeys. reflexivity. }
  exists c0, st1. eexists.
  split; [exact Hinv|]. split; [exact Hnone|]. split; [exact Hninv|]. split; [exact Himp|]. split; [exact Hstep|].
  unfold sb. cbn [xstep]. unfold import_start. rewrite Hk. split; [reflexivity|].
  unfold with_st. rewrite Hcr1. reflexivity.
Qed.

Lemma xrun_split2 : forall h2,
  xrun repaired p B cap n0 (hg ++ XImportStart w1 pass1 (sh1 :: shs1) :: h1 ++ XImportStart w2 pass2 (sh2 :: shs2) :: h2) =
  fold_left (xstep repaired p B cap) h2 sb.
Proof.
  intros h2. unfold xrun. rewrite fold_left_app. cbn [fold_left]. rewrite fold_left_app. cbn [fold_left]. reflexivity.
Qed.

(* T4: NO premise about the database is left: hg creates the other wallets, issues their addresses and lets them
   follow the moving chain; w1 is restored; any history h1 of [xwf]; w2 is restored; any history h2 of [xwf2] *)
Theorem two_imports_from_genesis : forall h2, xwf2 p g U w1 w2 B cap sb h2 ->
  let s := xrun repaired p B cap n0 (hg ++ XImportStart w1 pass1 (sh1 :: shs1) :: h1 ++ XImportStart w2 pass2 (sh2 :: shs2) :: h2) in
  sinv2 p g U w1 w2 ((keysG ++ keys_of w1 (sh1 :: shs1)) ++ keys_of w2 (sh2 :: shs2)) s /\
  (in_step g s -> status_of (xs_st s) w1 = Some WReady -> status_of (xs_st s) w2 = Some WReady ->
     equals_live_all p (xs_st s) (xs_node s)) /\
  (forall v, v = w1 \/ v = w2 -> status_of (xs_st s) v <> Some WReady -> use_wallet (xs_st s) v = UUnready) /\
  x_dead (xs_st s) = [] /\ xs_crashed s = false.
Proof.
  intros h2 Hwf2 s.
  destruct second_import_step as [c0 [st1 [st2 [Hinv [Hnone [Hninv [Himp1 [Hsa [Himp2 Hsb]]]]]]]]].
  unfold s. rewrite xrun_split2. pose proof hist1 as hist1'. pose proof Hwf2 as Hwf2'.
  assert (Hs1 : s1 = fold_left (xstep repaired p B cap) h1 {| xs_node := xs_node sg; xs_st := st1; xs_all := xs_all sg; xs_crashed := false |})
    by (unfold s1; rewrite Hsa; reflexivity).
  rewrite Hsb in *. rewrite Hsa in hist1'. rewrite Hs1 in *.
  exact (two_imports_equal_live p g U U_ids w1 w2 w12 keysG B cap B_pos pass1 sh1 shs1 pass2 sh2 shs2 c0 (xs_node sg) (xs_all sg)
           (xs_st sg) st1 Hninv Hinv absent1 Hnone disjoint1 Himp1 h1 hist1' st2 Himp2 disjoint2 h2 Hwf2').
Qed.

(* T4, liveness from genesis *)
Theorem two_imports_live_from_genesis : forall h2 vs, xwf2 p g U w1 w2 B cap sb h2 ->
  let s := xrun repaired p B cap n0 (hg ++ XImportStart w1 pass1 (sh1 :: shs1) :: h1 ++ XImportStart w2 pass2 (sh2 :: shs2) :: h2) in
  in_step g s -> (forall v, In v vs -> v = w1 \/ v = w2) ->
  let s' := xrun repaired p B cap n0 (hg ++ XImportStart w1 pass1 (sh1 :: shs1) :: h1 ++ XImportStart w2 pass2 (sh2 :: shs2) :: h2 ++ map XBatch vs) in
  xs_node s' = xs_node s /\ in_step g s' /\
  (forall v, v = w1 \/ v = w2 ->
     (forall k, status_of (xs_st s) v = Some (WImporting k) ->
                chain_height (xs_node s) < k + Z.of_nat (count_occ N.eq_dec vs v) * B) ->
     status_of (xs_st s') v = Some WReady) /\
  (status_of (xs_st s') w1 = Some WReady -> status_of (xs_st s') w2 = Some WReady ->
     equals_live_all p (xs_st s') (xs_node s')).
Proof.
  intros h2 vs Hwf2 s Hstep Hb s'.
  destruct second_import_step as [c0 [st1 [st2 [Hinv [Hnone [Hninv [Himp1 [Hsa [Himp2 Hsb]]]]]]]]].
  unfold s' in *. unfold s in *. rewrite (xrun_split2 (h2 ++ map XBatch vs)). rewrite (xrun_split2 h2) in *.
  pose proof hist1 as hist1'. pose proof Hwf2 as Hwf2'.
  assert (Hs1 : s1 = fold_left (xstep repaired p B cap) h1 {| xs_node := xs_node sg; xs_st := st1; xs_all := xs_all sg; xs_crashed := false |})
    by (unfold s1; rewrite Hsa; reflexivity).
  rewrite Hsb in *. rewrite Hsa in hist1'. rewrite Hs1 in *.
  exact (two_imports_live p g U U_ids w1 w2 w12 keysG B cap B_pos pass1 sh1 shs1 pass2 sh2 shs2 c0 (xs_node sg) (xs_all sg)
           (xs_st sg) st1 Hninv Hinv absent1 Hnone disjoint1 Himp1 h1 hist1' st2 Himp2 disjoint2 h2 vs Hwf2' Hstep Hb).
Qed.

Theorem two_imports_live_tight_from_genesis : forall h2 vs, xwf2 p g U w1 w2 B cap sb h2 ->
  let s := xrun repaired p B cap n0 (hg ++ XImportStart w1 pass1 (sh1 :: shs1) :: h1 ++ XImportStart w2 pass2 (sh2 :: shs2) :: h2) in
  in_step g s -> (forall v, In v vs -> v = w1 \/ v = w2) ->
  let s' := xrun repaired p B cap n0 (hg ++ XImportStart w1 pass1 (sh1 :: shs1) :: h1 ++ XImportStart w2 pass2 (sh2 :: shs2) :: h2 ++ map XBatch vs) in
  xs_node s' = xs_node s /\ in_step g s' /\
  (forall v, v = w1 \/ v = w2 ->
     (forall k, status_of (xs_st s) v = Some (WImporting k) ->
                (0 < count_occ N.eq_dec vs v)%nat /\
                chain_height (xs_node s) <= k + Z.of_nat (count_occ N.eq_dec vs v) * B) ->
     status_of (xs_st s') v = Some WReady) /\
  (status_of (xs_st s') w1 = Some WReady -> status_of (xs_st s') w2 = Some WReady ->
     equals_live_all p (xs_st s') (xs_node s')).
Proof.
  intros h2 vs Hwf2 s Hstep Hb s'.
  destruct second_import_step as [c0 [st1 [st2 [Hinv [Hnone [Hninv [Himp1 [Hsa [Himp2 Hsb]]]]]]]]].
  unfold s' in *. unfold s in *. rewrite (xrun_split2 (h2 ++ map XBatch vs)). rewrite (xrun_split2 h2) in *.
  pose proof hist1 as hist1'. pose proof Hwf2 as Hwf2'.
  assert (Hs1 : s1 = fold_left (xstep repaired p B cap) h1 {| xs_node := xs_node sg; xs_st := st1; xs_all := xs_all sg; xs_crashed := false |})
    by (unfold s1; rewrite Hsa; reflexivity).
  rewrite Hsb in *. rewrite Hsa in hist1'. rewrite Hs1 in *.
  exact (two_imports_live_tight p g U U_ids w1 w2 w12 keysG B cap B_pos pass1 sh1 shs1 pass2 sh2 shs2 c0 (xs_node sg) (xs_all sg)
           (xs_st sg) st1 Hninv Hinv absent1 Hnone disjoint1 Himp1 h1 hist1' st2 Himp2 disjoint2 h2 vs Hwf2' Hstep Hb).
Qed.

End FromGenesis2.

Print Assumptions two_imports_live.
Print Assumptions two_imports_live_tight_from_genesis.
Print Assumptions two_imports_frame_vs_no_import.
Print Assumptions two_imports_records_once.
Print Assumptions two_imports_from_genesis.
