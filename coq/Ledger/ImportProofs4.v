(* Ledger/ImportProofs4.v — C07: REACHABILITY of the start state of the multi-wallet theorems.

   ImportProofs3.v proves "import = live" (import_equals_live_multi, ...) from a PREMISE: the database into
   which wallet w is restored satisfies [minv p g U w keys0 c0 st0] with w absent.  Here that premise is
   discharged for every state the model reaches from the initial state [xinit_sim n0] (no wallet, synced to
   the node's chain n0) by ANY history of
     wallet creations, address issuing (an address is issued before an attached block pays it), node
     attach/detach, processed announcements and rescan batches (no-ops: every wallet is ready).
   Part A  the invariant [ginv] of an "all wallets ready" store; to and from [minv] for an absent wallet
   Part B  every event preserves it
   Part C  histories ([gev_ok] / [gwf]), the main theorem [reach_minv]
   Part D  packaged with import_equals_live_multi / import_live_multi: from genesis
   Part E  a boolean checker for [gwf] and a closed example *)
From Coq Require Import List ZArith NArith Bool Lia Permutation.
Import ListNotations.
Open Scope Z_scope.
Require Import MW.Ledger.Model MW.Ledger.Spec MW.Ledger.Run MW.Ledger.WF MW.Ledger.Import MW.Ledger.Remove.
Require Import MW.Ledger.Proofs MW.Ledger.Proofs2 MW.Ledger.Proofs3 MW.Ledger.Proofs4 MW.Ledger.Proofs5 MW.Ledger.Proofs6.
Require Import MW.Ledger.RemoveProofs MW.Ledger.RemoveProofs2 MW.Ledger.RemoveProofs5 MW.Ledger.ImportProofs MW.Ledger.ImportProofs2.
Require Import MW.Ledger.ImportProofs3.

(* ================================================================ small facts *)

Lemma filter_none_negb_all : forall (A : Type) (f : A -> bool) l,
  filter f l = [] -> filter (fun x => negb (f x)) l = l.
Proof.
  intros A f l. induction l as [|x r IH]; intros H; [reflexivity|].
  cbn [filter] in *. destruct (f x); [discriminate|]. cbn [negb]. f_equal. apply IH. assumption.
Qed.

Lemma kept_isw_nil_notw : forall w cs, kept (isw w) cs = [] -> kept (notw w) cs = cs.
Proof.
  intros w cs H. unfold kept in *.
  change (keepc (notw w)) with (fun c => negb (keepc (isw w) c)).
  apply filter_none_negb_all. assumption.
Qed.

(* a wallet name that is not in the status table *)
Fixpoint maxkey {A : Type} (l : list (N * A)) : N :=
  match l with
  | [] => 0%N
  | (k, _) :: r => N.max k (maxkey r)
  end.

Lemma maxkey_ge : forall (A : Type) (l : list (N * A)) k, In k (map fst l) -> (k <= maxkey l)%N.
Proof.
  intros A l k. induction l as [|[k0 v0] r IH]; intros H; [destruct H|].
  cbn [map fst maxkey] in *. destruct H as [H|H].
  - subst k0. apply N.le_max_l.
  - specialize (IH H). pose proof (N.le_max_r k0 (maxkey r)). lia.
Qed.

Lemma fresh_wallet : forall st, exists w, status_of st w = None.
Proof.
  intros st. exists (N.succ (maxkey (x_status st))). unfold status_of. apply lookupN_notin_none.
  intros Hin. apply maxkey_ge in Hin. lia.
Qed.

Lemma lookupN_In : forall (A : Type) (l : list (N * A)) k v, lookupN l k = Some v -> In (k, v) l.
Proof.
  intros A l k v. induction l as [|[k0 v0] r IH]; intros H; [discriminate|].
  cbn [lookupN] in H. destruct (k0 =? k)%N eqn:E.
  - apply N.eqb_eq in E. inversion H. subst. left. reflexivity.
  - right. apply IH. assumption.
Qed.

(* what processConnectedBlock leaves alone: passphrases; the status of a ready / an absent wallet *)
Lemma xconnect_all_pass : forall p n bs st st', xconnect_all p n st bs = XOk st' -> x_pass st' = x_pass st.
Proof.
  intros p n bs. induction bs as [|b r IH]; intros st st' H.
  - inversion H. reflexivity.
  - cbn [xconnect_all] in H. destruct (xconnect_block p n st b) as [st1| |] eqn:Hb; try discriminate.
    rewrite (IH st1 st' H). unfold xconnect_block in Hb.
    destruct (node_at n (b_height b)) as [nb|]; [|discriminate].
    destruct (negb (b_id nb =? b_id b)%N); [discriminate|].
    destruct (filter_block_txs (ready_own st) (credits (x_w st)) (node_tx n) [] (b_txs b)); [|discriminate].
    destruct (connect_block p true (ready_own st) (credits (x_w st)) (node_tx n) (x_w st) b); [|discriminate].
    inversion Hb. reflexivity.
Qed.

Lemma xconnect_all_status4 : forall p n bs st st', xconnect_all p n st bs = XOk st' -> x_status st' = x_status st.
Proof.
  intros p n bs. induction bs as [|b r IH]; intros st st' H.
  - inversion H. reflexivity.
  - cbn [xconnect_all] in H. destruct (xconnect_block p n st b) as [st1| |] eqn:Hb; try discriminate.
    rewrite (IH st1 st' H). unfold xconnect_block in Hb.
    destruct (node_at n (b_height b)) as [nb|]; [|discriminate].
    destruct (negb (b_id nb =? b_id b)%N); [discriminate|].
    destruct (filter_block_txs (ready_own st) (credits (x_w st)) (node_tx n) [] (b_txs b)); [|discriminate].
    destruct (connect_block p true (ready_own st) (credits (x_w st)) (node_tx n) (x_w st) b); [|discriminate].
    inversion Hb. reflexivity.
Qed.

Lemma pull_back_status : forall h (l : list (N * wst)) v,
  (lookupN l v = None -> lookupN (map (fun e => (fst e, pull_back h (snd e))) l) v = None) /\
  (lookupN l v = Some WReady -> lookupN (map (fun e => (fst e, pull_back h (snd e))) l) v = Some WReady).
Proof.
  intros h l v. induction l as [|[k0 s0] r IH]; [split; intros H; [reflexivity|discriminate]|].
  cbn [map fst snd lookupN]. destruct (k0 =? v)%N.
  - split; intros H; [discriminate|]. inversion H. reflexivity.
  - exact IH.
Qed.

Lemma xprocess_pass_status : forall p n st b st', xprocess repaired p n st b = XOk st' ->
  x_pass st' = x_pass st /\
  forall v, (status_of st v = None -> status_of st' v = None) /\
            (status_of st v = Some WReady -> status_of st' v = Some WReady).
Proof.
  intros p n st b st' H. unfold xprocess in H.
  destruct (snd (tip (x_w st)) =? b_prev b)%N.
  - split; [apply (xconnect_all_pass _ _ _ _ _ H)|]. intros v. unfold status_of.
    rewrite (xconnect_all_status4 _ _ _ _ _ H). split; intros Hs; assumption.
  - destruct (collect n (x_w st) (S (Z.to_nat (b_height b))) b []) as [[fork bs]|]; [|discriminate].
    rewrite xrollback_repaired_eq in H.
    split; [rewrite (xconnect_all_pass _ _ _ _ _ H); reflexivity|]. intros v. unfold status_of.
    rewrite (xconnect_all_status4 _ _ _ _ _ H). cbn [x_status]. apply pull_back_status.
Qed.

(* ================================================================ Part A: the invariant *)

Section Reach.
Variable p : params.
Variable g : block.
Variable U : list block.
Hypothesis U_ids : forall b1 b2, In b1 U -> In b2 U -> b_id b1 = b_id b2 -> b1 = b2.
Variables B cap : Z.
Hypothesis B_pos : 0 < B.

(* the store of an instance whose wallets are all READY and have followed the chain c live: it is their
   ledger of c, with the block records (no reference to any particular wallet) *)
Record ginv (c : list block) (st : xstate) : Prop := {
  gi_wf : wf_chain c;
  gi_g : from_g g c;
  gi_U : incl c U;
  gi_xw : x_w st = L p (lookupN (x_keys st)) c;
  gi_dead : x_dead st = [];
  gi_cov : covered (x_brecs st) (credits (x_w st));
  gi_ready : forall sh v, lookupN (x_keys st) sh = Some v -> status_of st v = Some WReady;
  gi_all : forall v s, status_of st v = Some s -> s = WReady;
  gi_pass : forall v, lookupN (x_pass st) v <> None -> status_of st v <> None;
  gi_keys : forall sh v, In (sh, v) (x_keys st) -> status_of st v <> None;   (* also for a shadowed row of the table *)
  gi_bok : brs_ok c (x_brecs st);
  gi_ble : brs_le (chain_height c) (x_brecs st)
}.

(* for an absent wallet w, it is the start state of ImportProofs3 *)
Lemma ginv_minv : forall c st w, ginv c st -> status_of st w = None ->
  minv p g U w (x_keys st) c st /\ (forall sh, ownW w (x_keys st) sh = None).
Proof.
  intros c st w [Hwf Hg HU Hxw Hd Hcov Hr Hall Hpass Hkeys Hbok Hble] Hs.
  apply minv_live_start; try assumption; try reflexivity.
  intros sh v Hl. split; [|apply (Hr sh v Hl)].
  intros Heq. subst v. rewrite (Hr sh w Hl) in Hs. discriminate.
Qed.

(* and back *)
Lemma minv_ginv : forall c st w keys,
  minv p g U w keys c st -> status_of st w = None -> (forall sh, ownW w keys sh = None) ->
  (forall v s, status_of st v = Some s -> s = WReady) ->
  (forall v, lookupN (x_pass st) v <> None -> status_of st v <> None) ->
  (forall sh v, In (sh, v) (x_keys st) -> status_of st v <> None) ->
  ginv c st.
Proof.
  intros c st w keys Hinv Hs Hnone Hall Hpass Hkin.
  destruct Hinv as [Hwf Hg HU Hsy Hkeys Hdead Hcov Hoth [top [Htop [Hrange [Hcw [Hco [Hbok Hble]]]]]]].
  assert (Hne : forall sh v, lookupN keys sh = Some v -> v <> w).
  { intros sh v Hl Heq. subst v. specialize (Hnone sh). unfold ownW, kown in Hnone.
    rewrite Hl, N.eqb_refl in Hnone. discriminate. }
  constructor; try assumption.
  - rewrite (E_none_fn p _ _ Hnone) in Hcw. apply kept_isw_nil_notw in Hcw. rewrite Hcw in Hco.
    rewrite (xw_eta st), Hsy, Hco, Hkeys. unfold L. f_equal. apply E_ext_all.
    intros sh. unfold own0, own_sel, ownA. destruct (lookupN keys sh) as [v|] eqn:Hl; [|reflexivity].
    unfold notw, notk, isw. pose proof (Hne sh v Hl) as Hv. apply N.eqb_neq in Hv. rewrite Hv. reflexivity.
  - intros sh v Hl. rewrite Hkeys in Hl. apply (Hoth sh v Hl (Hne sh v Hl)).
Qed.

(* the initial state *)
Lemma ginv_init : forall n0, ninv g U n0 -> ginv n0 (xinit n0).
Proof.
  intros n0 [Hwf [Hg HU]]. constructor; cbn [xinit x_w x_keys x_pass x_status x_brecs x_dead credits]; try assumption.
  - unfold L. rewrite (E_none_fn p (lookupN []) (ptxs n0)); [reflexivity|]. intros sh. reflexivity.
  - reflexivity.
  - intros c [].
  - intros sh v H. discriminate.
  - intros v s H. discriminate.
  - intros v H. exfalso. apply H. reflexivity.
  - intros sh v [].
  - intros br [].
  - intros br [].
Qed.

(* ================================================================ Part B: the events *)

Lemma ginv_process : forall c n st b st',
  ninv g U n -> ginv c st -> In b U -> b <> g -> xprocess repaired p n st b = XOk st' ->
  exists c', ginv c' st' /\ incl c' (c ++ n).
Proof.
  intros c n st b st' Hninv Hg HbU Hbg Hx.
  destruct (fresh_wallet st) as [w Hw].
  destruct (ginv_minv c st w Hg Hw) as [Hinv Hnone].
  destruct (mprocess_inv p g U U_ids w (x_keys st) c n st b st' Hninv Hinv HbU Hbg Hx) as [c' [Hinv' Hincl]].
  destruct (xprocess_pass_status p n st b st' Hx) as [Hp Hst].
  exists c'. split; [|assumption].
  apply (minv_ginv c' st' w (x_keys st) Hinv'); [apply (Hst w); assumption|assumption| | |].
  - intros v s Hs. destruct (status_of st v) as [s0|] eqn:Hs0.
    + pose proof (gi_all _ _ Hg v s0 Hs0). subst s0. destruct (Hst v) as [_ Hr]. rewrite (Hr Hs0) in Hs. inversion Hs. reflexivity.
    + destruct (Hst v) as [Hn _]. rewrite (Hn Hs0) in Hs. discriminate.
  - intros v Hl. rewrite Hp in Hl. pose proof (gi_pass _ _ Hg v Hl) as Hs0.
    destruct (status_of st v) as [s0|] eqn:Hs1; [|contradiction].
    pose proof (gi_all _ _ Hg v s0 Hs1). subst s0. destruct (Hst v) as [_ Hr]. rewrite (Hr Hs1). discriminate.
  - intros sh v Hin. rewrite (mi_keys _ _ _ _ _ _ _ Hinv') in Hin. pose proof (gi_keys _ _ Hg sh v Hin) as Hs0.
    destruct (status_of st v) as [s0|] eqn:Hs1; [|contradiction].
    pose proof (gi_all _ _ Hg v s0 Hs1). subst s0. destruct (Hst v) as [_ Hr]. rewrite (Hr Hs1). discriminate.
Qed.

Lemma ginv_batch : forall c n st v, ginv c st -> fst (import_batch repaired p B n st v) = st.
Proof.
  intros c n st v Hg. unfold import_batch. destruct (status_of st v) as [s|] eqn:Hs; [|reflexivity].
  rewrite (gi_all _ _ Hg v s Hs). reflexivity.
Qed.

Lemma wallet_known_false : forall st w, wallet_known st w = false ->
  status_of st w = None /\ lookupN (x_pass st) w = None /\ forall sh, ~ In (sh, w) (x_keys st).
Proof.
  intros st w H. unfold wallet_known in H. apply orb_false_iff in H. destruct H as [H H3].
  apply orb_false_iff in H. destruct H as [H1 H2].
  split; [destruct (status_of st w); [discriminate|reflexivity]|].
  split; [destruct (lookupN (x_pass st) w); [discriminate|reflexivity]|].
  intros sh Hin. assert (Ht : existsb (fun e => (snd e =? w)%N) (x_keys st) = true).
  { apply existsb_exists. exists (sh, w). split; [assumption|]. cbn [snd]. apply N.eqb_refl. }
  rewrite Ht in H3. discriminate.
Qed.

Lemma ginv_new_wallet : forall c st v pass st', ginv c st -> new_wallet st v pass = Some st' -> ginv c st'.
Proof.
  intros c st v pass st' Hg H. unfold new_wallet, import_start in H.
  destruct (wallet_known st v) eqn:Hk; [discriminate|]. inversion H. subst st'. clear H.
  destruct (wallet_known_false st v Hk) as [Hs [Hp Hnk]].
  destruct Hg as [Hwf Hgc HU Hxw Hd Hcov Hr Hall Hpass Hkeys Hbok Hble].
  constructor; cbn [x_w x_keys x_pass x_status x_brecs x_dead map]; rewrite ?app_nil_r; try assumption.
  - rewrite Hd. reflexivity.
  - intros sh v0 Hl. unfold status_of. cbn [x_status]. apply lookupN_app_some. apply (Hr sh v0 Hl).
  - intros v0 s. unfold status_of. cbn [x_status]. intros Hl.
    destruct (lookupN (x_status st) v0) as [s0|] eqn:Hs0.
    + rewrite (lookupN_app_some _ _ _ _ _ Hs0) in Hl. inversion Hl. subst s0. apply (Hall v0 s Hs0).
    + rewrite (lookupN_app_none _ _ _ _ Hs0) in Hl. cbn [lookupN] in Hl. destruct (v =? v0)%N; [|discriminate].
      inversion Hl. reflexivity.
  - intros v0 Hl. unfold status_of. cbn [x_status].
    destruct (N.eq_dec v0 v) as [Heq|Hne].
    + subst v0. unfold status_of in Hs. rewrite (lookupN_app_none _ _ _ _ Hs). cbn [lookupN]. rewrite N.eqb_refl. discriminate.
    + rewrite (lookupN_app_other _ _ _ _ _ Hne) in Hl. pose proof (Hpass v0 Hl) as Hs0. unfold status_of in Hs0.
      destruct (lookupN (x_status st) v0) as [s0|] eqn:Hs1; [|contradiction].
      rewrite (lookupN_app_some _ _ _ _ _ Hs1). discriminate.
  - intros sh v0 Hin. pose proof (Hkeys sh v0 Hin) as Hs0. unfold status_of in *. cbn [x_status].
    destruct (lookupN (x_status st) v0) as [s0|] eqn:Hs1; [|contradiction].
    rewrite (lookupN_app_some _ _ _ _ _ Hs1). discriminate.
Qed.

(* NewAddress for a ready wallet, the script hash not paid by any block of the chain the handler follows *)
Lemma ginv_new_addr : forall c st sh v, ginv c st -> status_of st v = Some WReady ->
  (forall b, In b c -> ~ pays b sh) -> ginv c (new_address st sh v).
Proof.
  intros c st sh v Hg Hv Hfresh.
  destruct Hg as [Hwf Hgc HU Hxw Hd Hcov Hr Hall Hpass Hkeys Hbok Hble].
  constructor; cbn [new_address x_w x_keys x_pass x_status x_brecs x_dead]; try assumption.
  - rewrite Hxw. apply L_own_ext. intros b t o Hb Ht Ho. symmetry. apply lookupN_app_other.
    intros Heq. apply (Hfresh b Hb). exists t, o. split; [assumption|split; assumption].
  - intros sh0 v0 Hl. change (status_of (new_address st sh v) v0) with (status_of st v0).
    destruct (lookupN (x_keys st) sh0) as [v'|] eqn:Hl0.
    + rewrite (lookupN_app_some _ _ _ _ _ Hl0) in Hl. inversion Hl. subst v'. apply (Hr sh0 v0 Hl0).
    + rewrite (lookupN_app_none _ _ _ _ Hl0) in Hl. cbn [lookupN] in Hl. destruct (sh =? sh0)%N; [|discriminate].
      inversion Hl. subst v0. assumption.
  - intros sh0 v0 Hin. change (status_of (new_address st sh v) v0) with (status_of st v0).
    apply in_app_or in Hin. destruct Hin as [Hin|[Hin|[]]]; [apply (Hkeys sh0 v0 Hin)|].
    inversion Hin. subst. rewrite Hv. discriminate.
Qed.

(* ================================================================ Part C: histories *)

(* what may happen at simulation state s, the blocks attached so far being A (the node's start chain included):
   the chain events of ImportProofs2.ev_ok; CreateWallet with any name (a name in use: refused, no change);
   NewAddress for a READY wallet of a script hash that no block attached so far pays; a rescan batch for any
   wallet name (nothing is importing) *)
Definition gev_ok (A : list block) (s : xsim) (e : xevent) : Prop :=
  match e with
  | XAttach b => In b U /\ wf_chain (xs_node s ++ [b])
  | XDetach => wf_chain (removelast (xs_node s))
  | XProcess b => In b U /\ b <> g
  | XNewWallet _ _ => True
  | XNewAddr sh v => status_of (xs_st s) v = Some WReady /\ (forall b, In b A -> ~ pays b sh)
  | XBatch _ => True
  | _ => False
  end.

Definition grow (A : list block) (e : xevent) : list block :=
  match e with XAttach b => A ++ [b] | _ => A end.

Fixpoint gwf (A : list block) (s : xsim) (h : list xevent) : Prop :=
  match h with
  | [] => True
  | e :: r => gev_ok A s e /\ gwf (grow A e) (xstep repaired p B cap s e) r
  end.

Definition gsinv (A : list block) (s : xsim) : Prop :=
  xs_crashed s = false /\ ninv g U (xs_node s) /\ incl (xs_node s) A /\
  exists c, ginv c (xs_st s) /\ incl c A.

Lemma gsinv_step : forall A s e, gsinv A s -> gev_ok A s e -> gsinv (grow A e) (xstep repaired p B cap s e).
Proof.
  intros A s e [Hcr [Hninv [HnA [c [Hg HcA]]]]] Hok. pose proof Hninv as [Hwfn [Hgn HnU]].
  destruct e as [b| |b|w0 ps|sh w0|w0 ps shs|v|w0 ps|w0|w0|]; cbn [gev_ok] in Hok; try contradiction; cbn [grow].
  - destruct Hok as [HbU Hwf']. cbn [xstep]. unfold gsinv. cbn [xs_node xs_st xs_crashed].
    split; [assumption|]. split; [|split].
    + split; [assumption|split].
      * destruct Hgn as [n' Hn']. rewrite Hn'. exists (n' ++ [b]). reflexivity.
      * intros z Hz. apply in_app_or in Hz. destruct Hz as [Hz|[Hz|[]]]; [apply HnU; assumption|subst z; assumption].
    + intros z Hz. apply in_app_or in Hz. apply in_or_app. destruct Hz as [Hz|Hz]; [left; apply HnA; assumption|right; assumption].
    + exists c. split; [assumption|]. apply incl_appl. assumption.
  - cbn [xstep]. unfold gsinv. cbn [xs_node xs_st xs_crashed].
    split; [assumption|]. split; [|split].
    + split; [assumption|split].
      * apply from_g_removelast; [assumption|]. apply wf_nonempty. assumption.
      * intros z Hz. apply HnU. apply removelast_in. assumption.
    + intros z Hz. apply HnA. apply removelast_in. assumption.
    + exists c. split; assumption.
  - destruct Hok as [HbU Hbg]. cbn [xstep]. rewrite Hcr.
    destruct (xprocess repaired p (xs_node s) (xs_st s) b) as [st'| |] eqn:Hx.
    + destruct (ginv_process c _ _ b st' Hninv Hg HbU Hbg Hx) as [c' [Hg' Hincl]].
      unfold gsinv. cbn [with_st xs_node xs_st xs_crashed].
      split; [assumption|]. split; [assumption|]. split; [assumption|]. exists c'. split; [assumption|].
      intros z Hz. apply Hincl in Hz. apply in_app_or in Hz. destruct Hz as [Hz|Hz]; [apply HcA|apply HnA]; assumption.
    + split; [assumption|]. split; [assumption|]. split; [assumption|]. exists c. split; assumption.
    + exfalso. apply (xprocess_repaired_no_panic p _ _ _ Hx).
  - cbn [xstep]. destruct (new_wallet (xs_st s) w0 ps) as [st'|] eqn:Hnw.
    + unfold gsinv. cbn [with_st xs_node xs_st xs_crashed].
      split; [assumption|]. split; [assumption|]. split; [assumption|]. exists c. split; [|assumption].
      apply (ginv_new_wallet c _ w0 ps st' Hg Hnw).
    + split; [assumption|]. split; [assumption|]. split; [assumption|]. exists c. split; assumption.
  - destruct Hok as [Hv Hfresh]. cbn [xstep]. unfold gsinv. cbn [with_st xs_node xs_st xs_crashed].
    split; [assumption|]. split; [assumption|]. split; [assumption|]. exists c. split; [|assumption].
    apply ginv_new_addr; [assumption|assumption|]. intros b0 Hb0. apply Hfresh. apply HcA. assumption.
  - cbn [xstep]. unfold gsinv. cbn [with_st xs_node xs_st xs_crashed]. rewrite (ginv_batch c _ _ v Hg).
    split; [assumption|]. split; [assumption|]. split; [assumption|]. exists c. split; assumption.
Qed.

Lemma gsinv_run : forall h A s, gsinv A s -> gwf A s h -> exists A', gsinv A' (fold_left (xstep repaired p B cap) h s).
Proof.
  induction h as [|e r IH]; intros A s Hs Hwf; [exists A; assumption|].
  cbn [fold_left]. destruct Hwf as [Hok Hr]. apply (IH (grow A e)); [apply gsinv_step; assumption|assumption].
Qed.

Lemma gsinv_init : forall n0, ninv g U n0 -> gsinv n0 (xinit_sim n0).
Proof.
  intros n0 Hn. unfold gsinv, xinit_sim. cbn [xs_node xs_st xs_crashed].
  split; [reflexivity|]. split; [assumption|]. split; [apply incl_refl|]. exists n0. split; [apply ginv_init; assumption|apply incl_refl].
Qed.

(* every reachable state is an "all ready" store of some chain of U *)
Theorem reach_ginv : forall n0 h, ninv g U n0 -> gwf n0 (xinit_sim n0) h ->
  let s := xrun repaired p B cap n0 h in
  xs_crashed s = false /\ ninv g U (xs_node s) /\ exists c, ginv c (xs_st s).
Proof.
  intros n0 h Hn Hwf s.
  destruct (gsinv_run h n0 (xinit_sim n0) (gsinv_init n0 Hn) Hwf) as [A' [Hcr [Hninv [_ [c [Hg _]]]]]].
  split; [assumption|]. split; [assumption|]. exists c. assumption.
Qed.

(* MAIN THEOREM: every reachable state satisfies the premise of the multi-wallet theorems, for every absent wallet *)
Theorem reach_minv : forall n0 h, ninv g U n0 -> gwf n0 (xinit_sim n0) h ->
  let s := xrun repaired p B cap n0 h in
  forall w, status_of (xs_st s) w = None ->
  exists c, minv p g U w (x_keys (xs_st s)) c (xs_st s) /\
            (forall sh, ownW w (x_keys (xs_st s)) sh = None) /\
            ninv g U (xs_node s) /\ xs_crashed s = false.
Proof.
  intros n0 h Hn Hwf s w Hw.
  destruct (reach_ginv n0 h Hn Hwf) as [Hcr [Hninv [c Hg]]]. fold s in Hcr, Hninv, Hg.
  destruct (ginv_minv c _ w Hg Hw) as [Hinv Hnone].
  exists c. split; [assumption|]. split; [assumption|]. split; assumption.
Qed.

End Reach.

(* ================================================================ Part D: packaged — restore into ANY reachable database *)

(* ImportWallet of an absent wallet into an "all ready" store is never refused *)
Lemma ginv_import_start_some : forall p g U c st w pass shs,
  ginv p g U c st -> status_of st w = None -> exists st1, import_start st w pass shs = Some st1.
Proof.
  intros p g U c st w pass shs Hg Hs. unfold import_start.
  assert (Hk : wallet_known st w = false).
  { unfold wallet_known. rewrite Hs. cbn [is_some orb].
    destruct (lookupN (x_pass st) w) as [ps|] eqn:Hp.
    - exfalso. apply (gi_pass _ _ _ _ _ Hg w); [rewrite Hp; discriminate|assumption].
    - cbn [is_some orb]. destruct (existsb (fun e => (snd e =? w)%N) (x_keys st)) eqn:He; [|reflexivity].
      exfalso. apply existsb_exists in He. destruct He as [[sh v] [Hin Hv]]. cbn [snd] in Hv. apply N.eqb_eq in Hv. subst v.
      apply (gi_keys _ _ _ _ _ Hg sh w Hin). assumption. }
  rewrite Hk. eexists. reflexivity.
Qed.

Section FromGenesis.
Variable p : params.
Variable g : block.
Variable U : list block.
Hypothesis U_ids : forall b1 b2, In b1 U -> In b2 U -> b_id b1 = b_id b2 -> b1 = b2.
Variables B cap : Z.
Hypothesis B_pos : 0 < B.
Variables (n0 : node) (h1 : list xevent).
Hypothesis node0 : ninv g U n0.
Hypothesis hist1 : gwf p g U B cap n0 (xinit_sim n0) h1.
Variables (w pass sh : N) (shs : list N).

Let s1 := xrun repaired p B cap n0 h1.
Hypothesis absent1 : status_of (xs_st s1) w = None.
Hypothesis disjoint1 : forall s, In s (sh :: shs) -> lookupN (x_keys (xs_st s1)) s = None.

(* the restore request is accepted, and the simulation state after it is the start state of ImportProofs3.Packaged *)
Lemma import_start_step : exists c0 st1,
  minv p g U w (x_keys (xs_st s1)) c0 (xs_st s1) /\ (forall s, ownW w (x_keys (xs_st s1)) s = None) /\
  ninv g U (xs_node s1) /\
  import_start (xs_st s1) w pass (sh :: shs) = Some st1 /\
  xstep repaired p B cap s1 (XImportStart w pass (sh :: shs)) =
    {| xs_node := xs_node s1; xs_st := st1; xs_all := xs_all s1; xs_crashed := false |}.
Proof.
  destruct (reach_ginv p g U U_ids B cap n0 h1 node0 hist1) as [Hcr [Hninv [c Hg]]]. fold s1 in Hcr, Hninv, Hg.
  destruct (ginv_minv p g U c _ w Hg absent1) as [Hinv Hnone].
  destruct (ginv_import_start_some p g U c _ w pass (sh :: shs) Hg absent1) as [st1 Himp].
  exists c, st1. split; [assumption|]. split; [assumption|]. split; [assumption|]. split; [assumption|].
  cbn [xstep]. rewrite Himp. unfold with_st. rewrite Hcr. reflexivity.
Qed.

Lemma xrun_split : forall h2,
  xrun repaired p B cap n0 (h1 ++ XImportStart w pass (sh :: shs) :: h2) =
  fold_left (xstep repaired p B cap) h2 (xstep repaired p B cap s1 (XImportStart w pass (sh :: shs))).
Proof. intros h2. unfold xrun. rewrite fold_left_app. reflexivity. Qed.

(* C07 T (a) from genesis: no premise about the database — it is whatever h1 made of the empty instance *)
Theorem import_equals_live_from_genesis : forall h2,
  xwf p g U w B cap (xstep repaired p B cap s1 (XImportStart w pass (sh :: shs))) h2 ->
  let keys0 := x_keys (xs_st s1) in
  let s := xrun repaired p B cap n0 (h1 ++ XImportStart w pass (sh :: shs) :: h2) in
  sinv_m p g U w (keys0 ++ keys_of w (sh :: shs)) s /\
  (in_step g s -> status_of (xs_st s) w = Some WReady -> equals_live_all p (xs_st s) (xs_node s)) /\
  (status_of (xs_st s) w <> Some WReady -> use_wallet (xs_st s) w = UUnready) /\
  x_dead (xs_st s) = [] /\ xs_crashed s = false.
Proof.
  intros h2 Hwf keys0 s.
  destruct import_start_step as [c0 [st1 [Hinv [Hnone [Hninv [Himp Hstep]]]]]].
  unfold s. rewrite xrun_split. rewrite Hstep in *.
  apply (import_equals_live_multi p g U U_ids w (x_keys (xs_st s1)) B cap B_pos pass sh shs c0 (xs_node s1) (xs_all s1)
           (xs_st s1) st1 Hninv Hinv absent1 Hnone disjoint1 Himp h2 Hwf).
Qed.

(* C07 T (c) from genesis *)
Theorem import_live_from_genesis : forall h2 m,
  xwf p g U w B cap (xstep repaired p B cap s1 (XImportStart w pass (sh :: shs))) h2 ->
  let s := xrun repaired p B cap n0 (h1 ++ XImportStart w pass (sh :: shs) :: h2) in
  in_step g s ->
  (forall k, status_of (xs_st s) w = Some (WImporting k) -> chain_height (xs_node s) < k + Z.of_nat m * B) ->
  let s' := xrun repaired p B cap n0 (h1 ++ XImportStart w pass (sh :: shs) :: h2 ++ repeat (XBatch w) m) in
  xs_node s' = xs_node s /\ in_step g s' /\ status_of (xs_st s') w = Some WReady /\
  equals_live_all p (xs_st s') (xs_node s').
Proof.
  intros h2 m Hwf s Hin Hm s'.
  destruct import_start_step as [c0 [st1 [Hinv [Hnone [Hninv [Himp Hstep]]]]]].
  unfold s' in *. unfold s in *. rewrite (xrun_split (h2 ++ repeat (XBatch w) m)). rewrite (xrun_split h2) in *. rewrite Hstep in *.
  apply (import_live_multi p g U U_ids w (x_keys (xs_st s1)) B cap B_pos pass sh shs c0 (xs_node s1) (xs_all s1)
           (xs_st s1) st1 Hninv Hinv absent1 Hnone disjoint1 Himp h2 m Hwf Hin Hm).
Qed.

End FromGenesis.

(* ================================================================ Part E: a checker for gwf; a closed example *)

Definition gev_ok_b (g : block) (U A : list block) (s : xsim) (e : xevent) : bool :=
  match e with
  | XAttach b => in_b b U && wf_chain_b (xs_node s ++ [b])
  | XDetach => wf_chain_b (removelast (xs_node s))
  | XProcess b => in_b b U && negb (b_id b =? b_id g)%N
  | XNewWallet _ _ => true
  | XNewAddr sh v => match status_of (xs_st s) v with Some WReady => true | _ => false end
                     && forallb (fun b => negb (pays_b b sh)) A
  | XBatch _ => true
  | _ => false
  end.

Fixpoint gwf_b (p : params) (g : block) (U : list block) (B cap : Z) (A : list block) (s : xsim) (h : list xevent) : bool :=
  match h with
  | [] => true
  | e :: r => gev_ok_b g U A s e && gwf_b p g U B cap (grow A e) (xstep repaired p B cap s e) r
  end.

Lemma gwf_b_sound : forall p g U B cap h A s, gwf_b p g U B cap A s h = true -> gwf p g U B cap A s h.
Proof.
  intros p g U B cap. induction h as [|e r IH]; intros A s H; [exact I|].
  cbn [gwf_b] in H. apply andb_true_iff in H. destruct H as [He Hr]. split; [|apply IH; assumption].
  destruct e as [b| |b|w0 ps|sh w0|w0 ps shs|v|w0 ps|w0|w0|]; cbn [gev_ok_b gev_ok] in *; try discriminate; try exact I.
  - apply andb_true_iff in He. destruct He as [Hu Hw].
    split; [apply in_b_sound; assumption|apply wf_chain_b_sound; assumption].
  - apply wf_chain_b_sound. assumption.
  - apply andb_true_iff in He. destruct He as [Hu Hn]. split; [apply in_b_sound; assumption|].
    intros Heq. subst b. rewrite N.eqb_refl in Hn. discriminate.
  - apply andb_true_iff in He. destruct He as [Hs Hf]. split.
    + destruct (status_of (xs_st s) w0) as [[| |]|]; try discriminate. reflexivity.
    + intros b Hb Hp. rewrite forallb_forall in Hf. specialize (Hf b Hb).
      rewrite (pays_b_complete b sh Hp) in Hf. discriminate.
Qed.

(* the history of Properties/C07.v (hist_shared_pre): wallet 1 is created and issues script hash 1; block 1 pays
   script hashes 2 and 9 (nobody's), block 2 holds transaction 5 (spends (1,0), pays script hash 1 and 2), block 3 *)
Definition r_p0 : params := {| p_cbmat := 4; p_bindlock := 4294967294 |}.
Definition r_g0 : block := {| b_id := 0; b_prev := 0; b_height := 0; b_txs := [] |}.
Definition r_cb (id : N) (outs : list txout) : tx := {| t_id := id; t_cb := true; t_ins := []; t_outs := outs |}.
Definition r_pay (sh : N) (v : Z) : txout := {| o_sh := sh; o_val := v; o_class := CStd |}.
Definition r_sb1 := {| b_id := 1; b_prev := 0; b_height := 1; b_txs := [r_cb 1 [r_pay 2 100; r_pay 9 1000]] |}.
Definition r_sT : tx := {| t_id := 5; t_cb := false; t_ins := [(1, 0)%N]; t_outs := [r_pay 1 60; r_pay 2 40] |}.
Definition r_sb2 := {| b_id := 2; b_prev := 1; b_height := 2; b_txs := [r_cb 2 []; r_sT] |}.
Definition r_sb3 := {| b_id := 3; b_prev := 2; b_height := 3; b_txs := [r_cb 3 []] |}.
Definition r_chain : list block := [r_g0; r_sb1; r_sb2; r_sb3].
Definition r_hist_pre : list xevent :=
  [XNewWallet 1 11; XNewAddr 1 1; XAttach r_sb1; XProcess r_sb1; XAttach r_sb2; XProcess r_sb2; XAttach r_sb3; XProcess r_sb3].

Example r_ids : forall b1 b2, In b1 r_chain -> In b2 r_chain -> b_id b1 = b_id b2 -> b1 = b2.
Proof. apply ids_b_sound. vm_compute. reflexivity. Qed.

Example r_ninv : ninv r_g0 r_chain [r_g0].
Proof.
  split; [apply wf_chain_b_sound; vm_compute; reflexivity|]. split; [exists []; reflexivity|].
  intros z [Hz|[]]. subst z. left. reflexivity.
Qed.

Example r_hist_pre_gwf : gwf r_p0 r_g0 r_chain 1000 20000 [r_g0] (xinit_sim [r_g0]) r_hist_pre.
Proof. apply gwf_b_sound. vm_compute. reflexivity. Qed.

(* hence, without looking at the database the history produces: wallet 2 can be restored into it and the
   premises of ImportProofs3's theorems hold *)
Example r_hist_pre_start :
  let s := xrun repaired r_p0 1000 20000 [r_g0] r_hist_pre in
  exists c, minv r_p0 r_g0 r_chain 2 (x_keys (xs_st s)) c (xs_st s) /\
            (forall sh, ownW 2 (x_keys (xs_st s)) sh = None) /\ ninv r_g0 r_chain (xs_node s) /\ xs_crashed s = false.
Proof.
  apply (reach_minv r_p0 r_g0 r_chain r_ids 1000 20000 [r_g0] r_hist_pre r_ninv r_hist_pre_gwf 2).
  vm_compute. reflexivity.
Qed.

Example r_restore_after_pre : forall h2,
  let e := XImportStart 2 22 [2%N] in
  xwf r_p0 r_g0 r_chain 2 1000 20000 (xstep repaired r_p0 1000 20000 (xrun repaired r_p0 1000 20000 [r_g0] r_hist_pre) e) h2 ->
  let s := xrun repaired r_p0 1000 20000 [r_g0] (r_hist_pre ++ e :: h2) in
  in_step r_g0 s -> status_of (xs_st s) 2 = Some WReady -> equals_live_all r_p0 (xs_st s) (xs_node s).
Proof.
  intros h2 e Hwf s.
  assert (Habs : status_of (xs_st (xrun repaired r_p0 1000 20000 [r_g0] r_hist_pre)) 2 = None) by (vm_compute; reflexivity).
  assert (Hdis : forall s0, In s0 [2%N] -> lookupN (x_keys (xs_st (xrun repaired r_p0 1000 20000 [r_g0] r_hist_pre))) s0 = None).
  { intros s0 [<-|[]]. vm_compute. reflexivity. }
  destruct (import_equals_live_from_genesis r_p0 r_g0 r_chain r_ids 1000 20000 ltac:(lia) [r_g0] r_hist_pre r_ninv r_hist_pre_gwf
              2 22 2 [] Habs Hdis h2 Hwf) as [_ [H _]].
  exact H.
Qed.

Print Assumptions reach_minv.
Print Assumptions import_equals_live_from_genesis.
Print Assumptions import_live_from_genesis.
Print Assumptions r_restore_after_pre.
