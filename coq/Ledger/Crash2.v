(* Ledger/Crash2.v — C06, additions to Ledger/Crash.v used by the general theorems
   (Ledger/CrashProofs2.v).  Definitions only. *)
From Coq Require Import List ZArith NArith Bool.
Import ListNotations.
Open Scope Z_scope.
Require Import MW.Ledger.Model MW.Ledger.Spec MW.Ledger.Run MW.Ledger.Crash.

(* crashes at ARBITRARY instants: the process runs j1 events (of any kind: the node may move after
   the wallet's last commit — the outage), stops, is restarted (everything volatile rebuilt from
   the store, then NtfnsHandler.Start), runs j2 more events, ...
   [Crash.crashes] is the special case in which every crash comes right after a commit. *)
Fixpoint crashes_at (p : params) (tipfix : bool) (ff : Z) (g : block) (js : list nat) (pr : proc) (h : list event)
  : option proc :=
  match js with
  | [] => Some (prun p pr h)
  | j :: js' =>
      match restart p tipfix ff g (prun p pr (firstn j h)) with
      | Some pr2 => crashes_at p tipfix ff g js' pr2 (skipn j h)
      | None => None
      end
  end.

(* environment assumption: the genesis block's previous-hash field (the zero hash) is no other
   block's hash.  (Needed only when the node has been reorganised back to its bare genesis while
   the wallet is ahead of it: Start then announces the genesis block itself.) *)
Definition genesis_prev_free (g : block) (bs : list block) : Prop :=
  forall b, In b bs -> b_id b = b_prev g -> b = g.
