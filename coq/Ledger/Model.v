(* Ledger/Model.v — executable, record-level model of the wallet ledger:
   masswallet/ntfnshandler.go (filterTx, filterBlock, disconnectBlock, reorg, processConnectedBlock)
   masswallet/txmgr/txstore.go (insertMinedTx, updateMinedBalance, Rollback)
   masswallet/txmgr/utxostore.go (AddCredits, ScriptAddressBalance, ScriptAddressUnspents).
   Definitions only.  Names: transaction ids, block ids and script hashes are opaque
   numbers (N) assigned by the environment; amounts and heights are Z.
   Abstraction: the buckets credits/unspent/balance/debits are represented by one list of
   credits with a spent mark (the unspent set and the balance are derived); this is the
   projection the queries expose and the correspondence check compares. *)
From Coq Require Import List ZArith NArith Bool.
Import ListNotations.
Open Scope Z_scope.

(* ---------------------------------------------------------------- chain side *)

Inductive oclass := CStd | CStaking (frozen : Z) | CBindingOld | CBindingNew | CUnsupported.

Record txout := { o_sh : N; o_val : Z; o_class : oclass }.
Record tx := { t_id : N; t_cb : bool; t_ins : list (N * N); t_outs : list txout }.
Record block := { b_id : N; b_prev : N; b_height : Z; b_txs : list tx }.

(* consensus parameters in force (package variables in mass-core; the harness lowers them) *)
Record params := { p_cbmat : Z; p_bindlock : Z }.

Definition oclass_code (c : oclass) : N :=
  match c with CStd => 0 | CStaking _ => 1 | CBindingOld => 2 | CBindingNew => 3 | CUnsupported => 9 end%N.

(* PkScript.Maturity(): staking = frozen + 1, new binding = locked period, else 0;
   a coinbase output additionally needs the coinbase maturity (AddCredits, after the repair
   recorded in KNOWN_FINDINGS.txt: a coinbase paying a staking/binding script keeps the longer lock) *)
Definition script_maturity (p : params) (c : oclass) : Z :=
  match c with
  | CStaking f => f + 1
  | CBindingNew => p_bindlock p
  | _ => 0
  end.
Definition maturity_of (p : params) (cb : bool) (c : oclass) : Z :=
  if cb then Z.max (p_cbmat p) (script_maturity p c) else script_maturity p c.

(* ---------------------------------------------------------------- wallet side *)

Record credit := {
  c_tx : N; c_vout : N; c_height : Z; c_bid : N;
  c_amount : Z; c_sh : N; c_wallet : N; c_class : oclass; c_maturity : Z;
  c_spent : option (N * N * Z)          (* spending tx, its input index, its block height *)
}.

Record wstate := {
  credits : list credit;                (* oldest first *)
  synced : list (Z * N)                 (* (height, block id), newest first; never empty *)
}.

Definition set_spent (c : credit) (s : option (N * N * Z)) : credit :=
  {| c_tx := c_tx c; c_vout := c_vout c; c_height := c_height c; c_bid := c_bid c;
     c_amount := c_amount c; c_sh := c_sh c; c_wallet := c_wallet c; c_class := c_class c;
     c_maturity := c_maturity c; c_spent := s |}.

Definition is_unspent (c : credit) : bool := match c_spent c with None => true | Some _ => false end.

Definition op_eqb (a b : N * N) : bool := (fst a =? fst b)%N && (snd a =? snd b)%N.
Definition credit_op (c : credit) : N * N := (c_tx c, c_vout c).

(* owner : script hash -> wallet, for addresses of READY wallets (keystore lookup +
   readyWallets filter of filterTx); None for strangers and for wallets that are not ready *)
Definition owner_fn := N -> option N.

Inductive perr := EMaybeChainRevoked | EInvalidTx | ECreditNotFound | EDuplicateCredit | EOther.
Inductive res (A : Type) := Ok (a : A) | Err (e : perr).
Arguments Ok {A} a. Arguments Err {A} e.

(* ExistCreditFromTx: some credit of the store was created by transaction h *)
Definition exist_credit_from_tx (cs : list credit) (h : N) : bool :=
  existsb (fun c => (c_tx c =? h)%N) cs.

Definition find_tx (txs : list tx) (h : N) : option tx := find (fun t => (t_id t =? h)%N) txs.

(* one relevant input: index in the transaction, previous outpoint, owning wallet *)
Record rel_in := { ri_index : N; ri_prev : N * N; ri_wallet : N }.
Record rel_out := { ro_index : N; ro_out : txout; ro_wallet : N }.
Record relrec := { rr_tx : tx; rr_ins : list rel_in; rr_outs : list rel_out }.

(* filterTx for a mined transaction, input half.
   view   : the credits ExistCreditFromTx can see (the committed store in the code as found —
            a separate read transaction — or the store of the open write transaction)
   inblk  : transactions of the current block seen so far, including t itself (recInCurBlk)
   lookup : FetchTxBySha on the node, then the pending set *)
Fixpoint filter_ins (own : owner_fn) (view : list credit) (inblk : list tx) (lookup : N -> option tx)
         (ins : list (N * N)) (i : N) : res (list rel_in) :=
  match ins with
  | [] => Ok []
  | (ph, pv) :: rest =>
      let continue_ := filter_ins own view inblk lookup rest (i + 1)%N in
      let with_prev (pt : tx) :=
        match nth_error (t_outs pt) (N.to_nat pv) with
        | None => Err EInvalidTx
        | Some o =>
            match o_class o with
            | CUnsupported => continue_
            | _ =>
                match own (o_sh o) with
                | None => continue_
                | Some w =>
                    match continue_ with
                    | Ok l => Ok ({| ri_index := i; ri_prev := (ph, pv); ri_wallet := w |} :: l)
                    | Err e => Err e
                    end
                end
            end
        end in
      match find_tx inblk ph with
      | Some bro => with_prev bro
      | None =>
          if exist_credit_from_tx view ph then
            match lookup ph with
            | Some pt => with_prev pt
            | None => Err EMaybeChainRevoked
            end
          else continue_
      end
  end.

Fixpoint filter_outs (own : owner_fn) (outs : list txout) (i : N) : list rel_out :=
  match outs with
  | [] => []
  | o :: rest =>
      let l := filter_outs own rest (i + 1)%N in
      match o_class o with
      | CUnsupported => l
      | _ => match own (o_sh o) with
             | None => l
             | Some w => {| ro_index := i; ro_out := o; ro_wallet := w |} :: l
             end
      end
  end.

Definition filter_tx (own : owner_fn) (view : list credit) (inblk : list tx) (lookup : N -> option tx)
           (t : tx) : res (option relrec) :=
  match (if t_cb t then Ok [] else filter_ins own view inblk lookup (t_ins t) 0%N) with
  | Err e => Err e
  | Ok ins =>
      let outs := filter_outs own (t_outs t) 0%N in
      match ins, outs with
      | [], [] => Ok None
      | _, _ => Ok (Some {| rr_tx := t; rr_ins := ins; rr_outs := outs |})
      end
  end.

(* filterBlock, first half: filter every transaction in block order *)
Fixpoint filter_block_txs (own : owner_fn) (view : list credit) (lookup : N -> option tx)
         (seen : list tx) (txs : list tx) : res (list relrec) :=
  match txs with
  | [] => Ok []
  | t :: rest =>
      let seen' := seen ++ [t] in
      match filter_tx own view seen' lookup t with
      | Err e => Err e
      | Ok r =>
          match filter_block_txs own view lookup seen' rest with
          | Err e => Err e
          | Ok l => Ok (match r with Some rr => rr :: l | None => l end)
          end
      end
  end.

(* updateMinedBalance: spend the unspent credit of (wallet, outpoint) *)
Fixpoint spend_credit (cs : list credit) (w : N) (op : N * N) (by_ : N * N * Z) : option (list credit) :=
  match cs with
  | [] => None
  | c :: rest =>
      if op_eqb (credit_op c) op && (c_wallet c =? w)%N && is_unspent c
      then Some (set_spent c (Some by_) :: rest)
      else match spend_credit rest w op by_ with
           | Some rest' => Some (c :: rest')
           | None => None
           end
  end.

Fixpoint apply_ins (cs : list credit) (t : tx) (h : Z) (ins : list rel_in) : res (list credit) :=
  match ins with
  | [] => Ok cs
  | ri :: rest =>
      match spend_credit cs (ri_wallet ri) (ri_prev ri) (t_id t, ri_index ri, h) with
      | None => Err ECreditNotFound
      | Some cs' => apply_ins cs' t h rest
      end
  end.

(* existsCredit(txhash, index, block) *)
Definition exists_credit_at (cs : list credit) (op : N * N) (h : Z) (bid : N) : bool :=
  existsb (fun c => op_eqb (credit_op c) op && (c_height c =? h) && (c_bid c =? bid)%N) cs.

Fixpoint apply_outs (p : params) (cs : list credit) (t : tx) (h : Z) (bid : N) (outs : list rel_out)
  : res (list credit) :=
  match outs with
  | [] => Ok cs
  | ro :: rest =>
      if exists_credit_at cs (t_id t, ro_index ro) h bid then Err EDuplicateCredit
      else
        let c := {| c_tx := t_id t; c_vout := ro_index ro; c_height := h; c_bid := bid;
                    c_amount := o_val (ro_out ro); c_sh := o_sh (ro_out ro); c_wallet := ro_wallet ro;
                    c_class := o_class (ro_out ro);
                    c_maturity := maturity_of p (t_cb t) (o_class (ro_out ro));
                    c_spent := None |} in
        apply_outs p (cs ++ [c]) t h bid rest
  end.

(* AddRelevantTx for each relevant record, in block order *)
Fixpoint apply_recs (p : params) (cs : list credit) (h : Z) (bid : N) (recs : list relrec) : res (list credit) :=
  match recs with
  | [] => Ok cs
  | r :: rest =>
      match apply_ins cs (rr_tx r) h (rr_ins r) with
      | Err e => Err e
      | Ok cs1 =>
          match apply_outs p cs1 (rr_tx r) h bid (rr_outs r) with
          | Err e => Err e
          | Ok cs2 => apply_recs p cs2 h bid rest
          end
      end
  end.

(* filterBlock: [view_committed] = credits of the committed store, used for ExistCreditFromTx
   when [a1fix] is false (the code as found); when true the open transaction's own view is used *)
Definition connect_block (p : params) (a1fix : bool) (own : owner_fn) (committed : list credit)
           (lookup : N -> option tx) (st : wstate) (b : block) : res wstate :=
  let view := if a1fix then credits st else committed in
  match filter_block_txs own view lookup [] (b_txs b) with
  | Err e => Err e
  | Ok recs =>
      match apply_recs p (credits st) (b_height b) (b_id b) recs with
      | Err e => Err e
      | Ok cs => Ok {| credits := cs; synced := (b_height b, b_id b) :: synced st |}
      end
  end.

(* TxStore.Rollback(height) + ResetSyncedTo(height-1): drop what blocks >= height created,
   un-spend what they spent *)
Definition rollback_credits (cs : list credit) (h : Z) : list credit :=
  map (fun c => match c_spent c with
                | Some (_, _, sh) => if h <=? sh then set_spent c None else c
                | None => c
                end)
      (filter (fun c => c_height c <? h) cs).

Definition rollback_to (st : wstate) (h : Z) : wstate :=
  {| credits := rollback_credits (credits st) h;
     synced := filter (fun e => fst e <? h) (synced st) |}.

Definition tip (st : wstate) : Z * N := hd (0, 0%N) (synced st).
Definition synced_at (st : wstate) (h : Z) : option N :=
  match find (fun e => fst e =? h) (synced st) with Some e => Some (snd e) | None => None end.

(* ---------------------------------------------------------------- the node as the wallet sees it *)

(* best chain, genesis first; getBlock / FetchBlockLocByHeight / FetchTxBySha answer from it *)
Definition node := list block.

Definition node_block (n : node) (bid : N) : option block := find (fun b => (b_id b =? bid)%N) n.
Definition node_at (n : node) (h : Z) : option block := find (fun b => b_height b =? h) n.
Definition node_tx (n : node) (h : N) : option tx := find_tx (flat_map b_txs n) h.

(* reorg(): collect the blocks to connect by walking back from the announced block through the
   node until a block already synced at that height is met; roll the ledger back to it.
   fuel bounds the walk (height of the announced block + 1 is enough). *)
Fixpoint collect (n : node) (st : wstate) (fuel : nat) (b : block) (acc : list block)
  : option (Z * list block) :=
  match fuel with
  | O => None
  | S f =>
      if (match synced_at st (b_height b) with Some bid => (bid =? b_id b)%N | None => false end)
      then Some (b_height b, acc)                      (* common ancestor: already synced *)
      else match node_block n (b_prev b) with
           | None => None                               (* ancestor unknown: ErrMaybeChainRevoked *)
           | Some pb => collect n st f pb (b :: acc)
           end
  end.

Fixpoint connect_all (p : params) (a1fix : bool) (own : owner_fn) (committed : list credit) (n : node)
         (st : wstate) (bs : list block) : res wstate :=
  match bs with
  | [] => Ok st
  | b :: rest =>
      (* filterBlock: FetchBlockLocByHeight must name this very block *)
      match node_at n (b_height b) with
      | None => Err EOther
      | Some nb =>
          if negb (b_id nb =? b_id b)%N then Err EMaybeChainRevoked
          else match connect_block p a1fix own committed (node_tx n) st b with
               | Err e => Err e
               | Ok st' => connect_all p a1fix own committed n st' rest
               end
      end
  end.

(* processConnectedBlock: one atomic commit or no change *)
Definition process (p : params) (a1fix : bool) (own : owner_fn) (n : node) (st : wstate) (b : block)
  : res wstate :=
  if (snd (tip st) =? b_prev b)%N then
    connect_all p a1fix own (credits st) n st [b]
  else
    match collect n st (S (Z.to_nat (b_height b))) b [] with
    | None => Err EMaybeChainRevoked
    | Some (fork, bs) =>
        connect_all p a1fix own (credits st) n (rollback_to st (fork + 1)) bs
    end.

Definition process_or_keep (p : params) (a1fix : bool) (own : owner_fn) (n : node) (st : wstate) (b : block)
  : wstate := match process p a1fix own n st b with Ok st' => st' | Err _ => st end.

(* ---------------------------------------------------------------- queries *)

Definition wallet_unspent (st : wstate) (w : N) : list credit :=
  filter (fun c => (c_wallet c =? w)%N && is_unspent c) (credits st).

(* GrossBalance (the stored per-wallet balance) *)
Definition gross_balance (st : wstate) (w : N) : Z :=
  fold_right (fun c a => c_amount c + a) 0 (wallet_unspent st w).

Definition confs (st : wstate) (c : credit) : Z := fst (tip st) - c_height c + 1.

(* spendable / withdrawable classification of ScriptAddressBalance (node mempool empty) *)
Definition mature (st : wstate) (c : credit) : bool := c_maturity c <=? confs st c.

(* ScriptAddressUnspents / GetUtxo: zero-amount coins are not listed *)
Definition listed_unspent (st : wstate) (w : N) : list credit :=
  filter (fun c => negb (c_amount c =? 0)) (wallet_unspent st w).

Definition sum_where (f : credit -> bool) (cs : list credit) : Z :=
  fold_right (fun c a => if f c then c_amount c + a else a) 0 cs.

Definition is_std (c : credit) : bool := match c_class c with CStd => true | _ => false end.
Definition is_staking (c : credit) : bool := match c_class c with CStaking _ => true | _ => false end.
Definition is_binding (c : credit) : bool :=
  match c_class c with CBindingOld | CBindingNew => true | _ => false end.

Definition bal_spendable (st : wstate) (w : N) : Z :=
  sum_where (fun c => mature st c && is_std c) (listed_unspent st w).
Definition bal_wstaking (st : wstate) (w : N) : Z :=
  sum_where (fun c => mature st c && is_staking c) (listed_unspent st w).
Definition bal_wbinding (st : wstate) (w : N) : Z :=
  sum_where (fun c => mature st c && is_binding c) (listed_unspent st w).

Definition init_state (genesis_id : N) : wstate := {| credits := []; synced := [(0, genesis_id)] |}.
