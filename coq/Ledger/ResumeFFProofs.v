(* Ledger/ResumeFFProofs.v — C06: Start() with its fast-forward, as repaired ([f_ff_check]), on the
   multi-wallet layer while a wallet is being restored and the node's chain is ANY other chain
   than the one the handler followed when the process stopped.

   The invariant is C07's [xinv p g U w keys c st] (Ledger/ImportProofs2.v): the handler follows
   the chain c and the store holds exactly the restored wallet's history of c up to the rescan
   cursor.  Results:
     start_sync_xinv      Remove.v's Start (no fast-forward) from any such state, any c and n:
                          succeeds, the handler then follows the node's chain
     start_sync_ff_xinv   the same for Start with the fast-forward, any margin ff
     ff_restart_live      ... and m further rescan batches make the wallet ready with the ledger and
                          the report of the node's chain
     ff_restart_moving    the same from any reachable point of any history of C07's event system *)
From Coq Require Import List ZArith NArith Bool Lia.
Import ListNotations.
Open Scope Z_scope.
Require Import MW.Ledger.Model MW.Ledger.Spec MW.Ledger.Run MW.Ledger.WF MW.Ledger.Import MW.Ledger.Remove.
Require Import MW.Ledger.Proofs MW.Ledger.Proofs2 MW.Ledger.Proofs3 MW.Ledger.Proofs4 MW.Ledger.Proofs5 MW.Ledger.Proofs6.
Require Import MW.Ledger.RemoveProofs MW.Ledger.ImportProofs MW.Ledger.ImportProofs2.
Require Import MW.Ledger.Resume MW.Ledger.ResumeFF.

(* ---------------------------------------------------------------- no wallet is ready *)

Lemma lookup_ready_has_ready : forall (l : list (N * wst)) v,
  lookupN l v = Some WReady -> existsb (fun e => match snd e with WReady => true | _ => false end) l = true.
Proof.
  induction l as [|[k s] r IH]; intros v H; [discriminate|].
  cbn [lookupN] in H. cbn [existsb snd]. destruct (k =? v)%N.
  - inversion H. subst s. reflexivity.
  - rewrite (IH v H). apply orb_true_r.
Qed.

Lemma has_ready_none : forall st, has_ready st = false -> forall sh, ready_own st sh = None.
Proof.
  intros st H sh. unfold ready_own. destruct (key_owner st sh) as [v|]; [|reflexivity].
  unfold is_ready, status_of. destruct (lookupN (x_status st) v) as [[| |]|] eqn:Hl; try reflexivity.
  unfold has_ready in H. rewrite (lookup_ready_has_ready _ _ Hl) in H. discriminate.
Qed.

Lemma has_ready_pull_back : forall h (l : list (N * wst)),
  existsb (fun e => match snd e with WReady => true | _ => false end) (map (fun e => (fst e, pull_back h (snd e))) l)
  = existsb (fun e => match snd e with WReady => true | _ => false end) l.
Proof.
  intros h l. induction l as [|[k s] r IH]; [reflexivity|].
  cbn [map existsb fst snd]. rewrite IH. destruct s; reflexivity.
Qed.

Lemma xconnect_block_status : forall p n st b st', xconnect_block p n st b = XOk st' -> x_status st' = x_status st.
Proof.
  intros p n st b st' H. unfold xconnect_block in H.
  destruct (node_at n (b_height b)); [|discriminate].
  destruct (negb _); [discriminate|].
  destruct (filter_block_txs _ _ _ _ _); [|discriminate].
  destruct (connect_block _ _ _ _ _ _ _); [|discriminate].
  inversion H. reflexivity.
Qed.

Lemma xconnect_all_status : forall p n bs st st', xconnect_all p n st bs = XOk st' -> x_status st' = x_status st.
Proof.
  intros p n bs. induction bs as [|b r IH]; intros st st' H.
  - inversion H. reflexivity.
  - cbn [xconnect_all] in H. destruct (xconnect_block p n st b) as [st1| |] eqn:Hb; try discriminate.
    rewrite (IH _ _ H). apply (xconnect_block_status _ _ _ _ _ Hb).
Qed.

Lemma xprocess_has_ready : forall p n st b st',
  xprocess repaired p n st b = XOk st' -> has_ready st' = has_ready st.
Proof.
  intros p n st b st' H. unfold xprocess in H. unfold has_ready.
  destruct (snd (tip (x_w st)) =? b_prev b)%N.
  - rewrite (xconnect_all_status _ _ _ _ _ H). reflexivity.
  - destruct (collect n (x_w st) (S (Z.to_nat (b_height b))) b []) as [[fork bs]|]; [|discriminate].
    rewrite xrollback_repaired_eq in H.
    rewrite (xconnect_all_status _ _ _ _ _ H). cbn [x_status]. apply has_ready_pull_back.
Qed.

(* ---------------------------------------------------------------- positions on a well-formed chain *)

Lemma node_at_in : forall n h b, node_at n h = Some b -> In b n /\ b_height b = h.
Proof.
  intros n h b H. unfold node_at in H. apply find_some in H. destruct H as [Hin Hh].
  split; [assumption|]. apply Z.eqb_eq. assumption.
Qed.

Lemma node_at_split : forall n h b, wf_chain n -> node_at n h = Some b ->
  exists n1 n2, n = n1 ++ b :: n2 /\ h = Z.of_nat (length n1).
Proof.
  intros n h b Hwf H. destruct (node_at_in _ _ _ H) as [Hin Hh].
  apply in_split in Hin. destruct Hin as [n1 [n2 Hn]]. exists n1, n2. split; [assumption|].
  destruct (wf_linked _ Hwf) as [pv Hl]. rewrite Hn in Hl. rewrite (linked_height _ _ _ _ _ Hl) in Hh. lia.
Qed.

Lemma node_at_next : forall n n1 b n2, wf_chain n -> n = n1 ++ b :: n2 -> node_at n (Z.of_nat (length n1)) = Some b.
Proof.
  intros n n1 b n2 Hwf Hn. destruct (wf_linked _ Hwf) as [pv Hl].
  assert (Hh : b_height b = Z.of_nat (length n1)).
  { rewrite Hn in Hl. rewrite (linked_height _ _ _ _ _ Hl). lia. }
  rewrite <- Hh. apply (node_at_on_chain n n1 b n2 Hwf Hn).
Qed.

Lemma node_at_beyond : forall n h, wf_chain n -> Z.of_nat (length n) <= h -> node_at n h = None.
Proof.
  intros n h Hwf Hh. destruct (node_at n h) as [b|] eqn:H; [|reflexivity]. exfalso.
  destruct (node_at_in _ _ _ H) as [Hin Hb]. destruct (wf_linked _ Hwf) as [pv Hl].
  pose proof (linked_height_lt n pv b Hl Hin) as Hr. unfold chain_height in Hr. lia.
Qed.

Lemma node_at_within : forall n h, 0 <= h < Z.of_nat (length n) -> wf_chain n -> exists b, node_at n h = Some b.
Proof.
  intros n h Hh Hwf.
  destruct (nth_error n (Z.to_nat h)) as [b|] eqn:Hn.
  - apply nth_error_split in Hn. destruct Hn as [n1 [n2 [Hn Hlen]]]. exists b.
    replace h with (Z.of_nat (length n1)) by lia. apply (node_at_next n n1 b n2 Hwf Hn).
  - apply nth_error_None in Hn. lia.
Qed.

(* ================================================================ the theorems *)

Section FF.
Variable p : params.
Variable g : block.
Variable U : list block.
Hypothesis U_ids : forall b1 b2, In b1 U -> In b2 U -> b_id b1 = b_id b2 -> b1 = b2.
Variable w : N.
Variable keys : list (N * N).
Hypothesis keys_w : forall sh v, lookupN keys sh = Some v -> v = w.

Notation xinv := (xinv p g U w keys).
Notation ninv := (ninv g U).

(* crash + reopen keeps the invariant (it speaks of persistent fields only, and of [x_dead = []]) *)
Lemma xinv_xreopen : forall c st, xinv c st -> xinv c (xreopen st).
Proof.
  intros c st [H1 H2 H3 H4 H5 H6 H7 H8]. constructor; try assumption; reflexivity.
Qed.

(* the tip of a state that follows the chain c *)
Lemma xinv_tip : forall c st, xinv c st ->
  fst (tip (x_w st)) = chain_height c /\ snd (tip (x_w st)) = b_id (last c g).
Proof.
  intros c st Hinv. pose proof (xi_wf _ _ _ _ _ _ _ Hinv) as Hwf. pose proof (xi_synced _ _ _ _ _ _ _ Hinv) as Hsy.
  destruct (exists_last (wf_nonempty _ Hwf)) as [cpre [z Hc]].
  rewrite (xw_eta st), Hsy, Hc, tip_synced_of. cbn [fst snd]. rewrite last_last.
  destruct (wf_linked _ Hwf) as [pv Hl]. rewrite Hc in Hl.
  rewrite (linked_height _ _ _ _ _ Hl). unfold chain_height. rewrite app_length. cbn [length]. split; [lia|reflexivity].
Qed.

(* catch-up when the handler follows a prefix of the node's chain *)
Lemma catchup_prefix : forall n n2 n1 st fuel,
  ninv n -> n = n1 ++ n2 -> n1 <> [] -> xinv n1 st -> (length n2 <= fuel)%nat ->
  exists st', catchup repaired p n st fuel = XOk st' /\ xinv n st'.
Proof.
  intros n n2. induction n2 as [|b n2 IH]; intros n1 st fuel Hninv Hn Hne Hinv Hfuel.
  - rewrite app_nil_r in Hn. subst n1. exists st. split; [|assumption].
    destruct fuel as [|f]; [reflexivity|]. cbn [catchup].
    destruct (xinv_tip _ _ Hinv) as [Ht _]. rewrite Ht. unfold chain_height.
    rewrite node_at_beyond; [reflexivity|apply Hninv|lia].
  - destruct fuel as [|f]; [cbn [length] in Hfuel; lia|]. cbn [catchup].
    destruct (xinv_tip _ _ Hinv) as [Ht _]. rewrite Ht. unfold chain_height.
    assert (Hlen : (0 < length n1)%nat) by (destruct n1; [contradiction|cbn; lia]).
    replace (Z.of_nat (length n1) - 1 + 1) with (Z.of_nat (length n1)) by lia.
    rewrite (node_at_next n n1 b n2 (proj1 Hninv) Hn).
    destruct (xprocess_on_node p g U U_ids w keys keys_w n1 n st b n1 n2 Hninv Hinv Hn Hne) as [st1 [Hx Hinv1]].
    rewrite Hx. apply (IH (n1 ++ [b]) st1 f Hninv).
    + rewrite Hn, <- app_assoc. reflexivity.
    + destruct n1; discriminate.
    + assumption.
    + cbn [length] in Hfuel. lia.
Qed.

(* Remove.v's Start (catch-up by height, then the tip check of the repaired code) from ANY chain c the
   handler followed, on ANY chain n of the node (but a bare genesis) *)
Theorem start_sync_xinv : forall c n st,
  ninv n -> (2 <= length n)%nat -> xinv c st ->
  exists st', start_sync repaired p n st = XOk st' /\ xinv n st'.
Proof.
  intros c n st Hninv Hlen Hinv. pose proof Hninv as [Hwfn [Hgn HnU]].
  destruct (xinv_tip _ _ Hinv) as [Ht Htid].
  assert (Hc0 : 0 <= chain_height c).
  { pose proof (wf_nonempty _ (xi_wf _ _ _ _ _ _ _ Hinv)) as Hne. unfold chain_height. destruct c; [contradiction|cbn [length]; lia]. }
  unfold start_sync. cbv zeta. destruct (length n) as [|f] eqn:Hf; [lia|]. cbn [catchup]. rewrite <- Hf.
  destruct (node_at n (fst (tip (x_w st)) + 1)) as [b|] eqn:Hat.
  - (* the node is higher than the stored tip: catch up by height *)
    destruct (node_at_split n _ b Hwfn Hat) as [n1 [n2 [Hn Hh]]].
    assert (Hne : n1 <> []). { intros E. subst n1. cbn [length] in Hh. lia. }
    destruct (xprocess_on_node p g U U_ids w keys keys_w c n st b n1 n2 Hninv Hinv Hn Hne) as [st1 [Hx Hinv1]].
    rewrite Hx.
    destruct (catchup_prefix n n2 (n1 ++ [b]) st1 f Hninv) as [st' [Hcu Hinv']].
    + rewrite Hn, <- app_assoc. reflexivity.
    + destruct n1; discriminate.
    + assumption.
    + rewrite Hn, app_length in Hf. cbn [length] in Hf. lia.
    + rewrite Hcu. rewrite Ht in *.
      replace (Z.of_nat (length n) - 1 <=? chain_height c) with false.
      * rewrite andb_false_r. exists st'. split; [reflexivity|assumption].
      * symmetry. apply Z.leb_gt. rewrite Hn, app_length. cbn [length]. lia.
  - (* nothing to catch up by height: the tip check *)
    assert (Hge : Z.of_nat (length n) - 1 <= fst (tip (x_w st))).
    { destruct (Z.le_gt_cases (Z.of_nat (length n)) (fst (tip (x_w st)) + 1)) as [Hle|Hgt]; [lia|].
      destruct (node_at_within n (fst (tip (x_w st)) + 1)) as [b Hb]; [lia|assumption|congruence]. }
    replace (Z.of_nat (length n) - 1 <=? fst (tip (x_w st))) with true by (symmetry; apply Z.leb_le; assumption).
    cbn [f_start_reorg repaired andb].
    pose proof (app_removelast_last g (wf_nonempty _ Hwfn)) as Hn.
    assert (Hlast : node_at n (Z.of_nat (length n) - 1) = Some (last n g)).
    { replace (Z.of_nat (length n) - 1) with (Z.of_nat (length (removelast n))).
      - apply (node_at_next n (removelast n) (last n g) [] Hwfn Hn).
      - rewrite Hn at 2. rewrite app_length. cbn [length]. lia. }
    rewrite Hlast.
    destruct (b_id (last n g) =? snd (tip (x_w st)))%N eqn:Hid.
    + apply N.eqb_eq in Hid. exists st. split; [reflexivity|].
      rewrite <- (xinv_in_step p g U U_ids w keys c n st Hninv Hinv (eq_sym Hid)) at 1. assumption.
    + assert (Hne : removelast n <> []).
      { intros E. rewrite E in Hn. assert (Hl1 : length n = 1%nat) by (rewrite Hn; reflexivity). lia. }
      destruct (xprocess_on_node p g U U_ids w keys keys_w c n st (last n g) (removelast n) [] Hninv Hinv Hn Hne) as [st1 [Hx Hinv1]].
      rewrite Hx. exists st1. split; [reflexivity|]. rewrite <- Hn in Hinv1. assumption.
Qed.

(* the fast-forward on top of a prefix of the node's chain, no wallet ready: every record written is
   what processing the block would have committed *)
Lemma ff_records_prefix : forall n upto fuel n1 n2 st,
  ninv n -> n = n1 ++ n2 -> n1 <> [] -> xinv n1 st -> has_ready st = false ->
  exists m1 m2, n = m1 ++ m2 /\ m1 <> [] /\ xinv m1 (ff_records n st upto fuel).
Proof.
  intros n upto fuel. induction fuel as [|f IH]; intros n1 n2 st Hninv Hn Hne Hinv Hnr.
  - exists n1, n2. split; [assumption|split; assumption].
  - cbn [ff_records]. destruct (xinv_tip _ _ Hinv) as [Ht _]. rewrite Ht. unfold chain_height.
    assert (Hlen : (0 < length n1)%nat) by (destruct n1; [contradiction|cbn; lia]).
    replace (Z.of_nat (length n1) - 1 + 1) with (Z.of_nat (length n1)) by lia.
    destruct (Z.of_nat (length n1) <? upto); [|exists n1, n2; split; [assumption|split; assumption]].
    destruct n2 as [|b n2].
    + rewrite node_at_beyond; [exists n1, []; split; [assumption|split; assumption]|apply Hninv|].
      rewrite Hn, app_nil_r. lia.
    + rewrite (node_at_next n n1 b n2 (proj1 Hninv) Hn).
      destruct (xconnect_block_inv p g U w keys keys_w n1 n st b n2 Hninv Hinv Hn) as [st1 [Hx Hinv1]].
      rewrite (xconnect_block_none p n st b n1 n2 (proj1 Hninv) Hn Hne (has_ready_none st Hnr)) in Hx.
      inversion Hx as [Hst1]. rewrite <- Hst1 in Hinv1.
      assert (Hh : Z.of_nat (length n1) = b_height b).
      { destruct (wf_linked _ (proj1 Hninv)) as [pv Hl]. rewrite Hn in Hl. rewrite (linked_height _ _ _ _ _ Hl). lia. }
      rewrite Hh.
      apply (IH (n1 ++ [b]) n2 _ Hninv).
      * rewrite Hn, <- app_assoc. reflexivity.
      * destruct n1; discriminate.
      * exact Hinv1.
      * exact Hnr.
Qed.

(* the stored tip is the node's block of that height: the handler follows a prefix of the node's chain *)
Lemma tip_on_node_prefix : forall c n st, ninv n -> xinv c st -> tip_on_node n st = true ->
  exists n2, n = c ++ n2.
Proof.
  intros c n st Hninv Hinv Hon. pose proof Hninv as [Hwfn [Hgn HnU]].
  pose proof (xi_wf _ _ _ _ _ _ _ Hinv) as Hwfc. pose proof (xi_U _ _ _ _ _ _ _ Hinv) as HcU.
  destruct (xinv_tip _ _ Hinv) as [Ht Htid].
  unfold tip_on_node in Hon. destruct (node_at n (fst (tip (x_w st)))) as [b|] eqn:Hat; [|discriminate].
  apply N.eqb_eq in Hon. rewrite Htid in Hon.
  destruct (exists_last (wf_nonempty _ Hwfc)) as [cpre [z Hc]].
  rewrite Hc, last_last in Hon.
  destruct (node_at_in _ _ _ Hat) as [Hbn _].
  assert (Hbz : b = z).
  { apply U_ids; [apply HnU; assumption| |assumption]. apply HcU. rewrite Hc. apply in_or_app. right. left. reflexivity. }
  subst b. apply in_split in Hbn. destruct Hbn as [m1 [m2 Hn]].
  destruct (wf_linked _ Hwfn) as [pvn Hln]. destruct (wf_linked _ Hwfc) as [pvc Hlc].
  assert (Hpre : cpre = m1).
  { apply (common_prefix c n pvc pvn 0 Hlc Hln (agree_U U U_ids c n HcU HnU) cpre z [] m1 m2); assumption. }
  exists m2. rewrite Hn, Hc, Hpre, <- app_assoc. reflexivity.
Qed.

(* T: Start with the fast-forward, as repaired, any margin ff, from ANY chain c the handler followed when
   the process stopped, on ANY chain n the node has at the restart (but a bare genesis), whatever the
   state of the restore (any cursor, ready or not): Start succeeds and the handler then follows the
   node's chain with a store that holds exactly the wallet's history of that chain up to the cursor *)
Theorem start_sync_ff_xinv : forall ff c n st,
  0 <= ff -> ninv n -> (2 <= length n)%nat -> xinv c st ->
  exists st', start_sync_ff repaired p ff n st = XOk st' /\ xinv n st'.
Proof.
  intros ff c n st Hff0 Hninv Hlen Hinv. pose proof Hninv as [Hwfn [Hgn HnU]].
  unfold start_sync_ff. cbv zeta.
  destruct (negb (has_ready st) && (ff <? Z.of_nat (length n) - 1) &&
            (fst (tip (x_w st)) + 1 <? Z.of_nat (length n) - 1 - ff)) eqn:Hcond;
    [|apply (start_sync_xinv c n st Hninv Hlen Hinv)].
  apply andb_true_iff in Hcond. destruct Hcond as [Hcond Hroom]. apply andb_true_iff in Hcond. destruct Hcond as [Hnr Hff].
  apply negb_true_iff in Hnr. apply Z.ltb_lt in Hroom. apply Z.ltb_lt in Hff.
  cbn [f_ff_check repaired andb].
  destruct (tip_on_node n st) eqn:Hon; cbn [negb].
  - (* the stored tip is still on the node's chain: fast-forward *)
    destruct (tip_on_node_prefix c n st Hninv Hinv Hon) as [n2 Hn].
    destruct (ff_records_prefix n (Z.of_nat (length n) - 1 - ff) (length n) c n2 st Hninv Hn
                (wf_nonempty _ (xi_wf _ _ _ _ _ _ _ Hinv)) Hinv Hnr) as [m1 [m2 [_ [_ Hinv1]]]].
    apply (start_sync_xinv m1 n _ Hninv Hlen Hinv1).
  - (* it was replaced: the next block goes through the reorganisation path, then the fast-forward *)
    destruct (xinv_tip _ _ Hinv) as [Ht _].
    assert (Hc0 : 0 <= chain_height c).
    { pose proof (wf_nonempty _ (xi_wf _ _ _ _ _ _ _ Hinv)) as Hne. unfold chain_height. destruct c; [contradiction|cbn [length]; lia]. }
    destruct (node_at_within n (fst (tip (x_w st)) + 1)) as [b Hat]; [lia|assumption|].
    rewrite Hat.
    destruct (node_at_split n _ b Hwfn Hat) as [n1 [n2 [Hn Hh]]].
    assert (Hne : n1 <> []). { intros E. subst n1. cbn [length] in Hh. lia. }
    destruct (xprocess_on_node p g U U_ids w keys keys_w c n st b n1 n2 Hninv Hinv Hn Hne) as [st1 [Hx Hinv1]].
    rewrite Hx.
    assert (Hnr1 : has_ready st1 = false) by (rewrite (xprocess_has_ready _ _ _ _ _ Hx); assumption).
    destruct (ff_records_prefix n (Z.of_nat (length n) - 1 - ff) (length n) (n1 ++ [b]) n2 st1 Hninv) as [m1 [m2 [_ [_ Hinv2]]]].
    + rewrite Hn, <- app_assoc. reflexivity.
    + destruct n1; discriminate.
    + assumption.
    + assumption.
    + apply (start_sync_xinv m1 n _ Hninv Hlen Hinv2).
Qed.

(* ... and the resumed rescan: m further batches make the wallet ready as soon as cursor + m * B exceeds
   the height of the node's chain; its ledger and its report are those of the node's chain *)
Theorem ff_restart_live : forall ff B m c n st,
  0 <= ff -> ninv n -> (2 <= length n)%nat -> 0 < B -> xinv c st ->
  exists st', start_sync_ff repaired p ff n (xreopen st) = XOk st' /\ xinv n st' /\
    ((forall k, status_of st' w = Some (WImporting k) -> chain_height n < k + Z.of_nat m * B) ->
     let st'' := batches repaired p B n st' w m in
     status_of st'' w = Some WReady /\
     ledger_of_chain p true (kown w keys) n = Ok (x_w st'') /\
     xreport st'' w = spec_report p (kown w keys) n w).
Proof.
  intros ff B m c n st Hff0 Hninv Hlen HB Hinv.
  destruct (start_sync_ff_xinv ff c n (xreopen st) Hff0 Hninv Hlen (xinv_xreopen _ _ Hinv)) as [st' [Hs Hinv']].
  exists st'. split; [assumption|split; [assumption|]]. intros Hm st''.
  pose proof (batches_inv p g U U_ids w keys B n m n st' Hninv HB Hinv') as Hinv''. fold st'' in Hinv''.
  assert (Hr : status_of st'' w = Some WReady).
  { destruct (xi_state _ _ _ _ _ _ _ Hinv') as [top [[Hs'|[Hs' _]] _]].
    - apply (batches_live p g U U_ids w keys B n m st' top Hninv HB Hinv' Hs'). apply Hm. assumption.
    - unfold st''. rewrite (batches_ready p w); assumption. }
  split; [assumption|].
  pose proof (xinv_ready_correct p g U w keys n st'' Hinv'' Hr) as Hx.
  split; [rewrite Hx; apply ledger_of_chain_L; apply Hninv|].
  unfold xreport. rewrite Hx. apply report_L. apply Hninv.
Qed.

End FF.

(* ---------------------------------------------------------------- packaged *)

(* T: crash + reopen + Start (fast-forward, as repaired) from any state of the invariant *)
Theorem ff_restart_any_chain : forall p g U w keys ff c n st,
  (forall b1 b2, In b1 U -> In b2 U -> b_id b1 = b_id b2 -> b1 = b2) ->
  (forall sh v, lookupN keys sh = Some v -> v = w) ->
  0 <= ff -> ninv g U n -> (2 <= length n)%nat -> xinv p g U w keys c st ->
  exists st', start_sync_ff repaired p ff n (xreopen st) = XOk st' /\ xinv p g U w keys n st'.
Proof.
  intros p g U w keys ff c n st Uids Kw Hff Hn Hlen Hinv.
  exact (start_sync_ff_xinv p g U Uids w keys Kw ff c n (xreopen st) Hff Hn Hlen (xinv_xreopen p g U w keys c st Hinv)).
Qed.


(* T: a wallet is being restored; the node and the handler do whatever C07's event system allows
   (blocks attached and detached at any depth, announcements of any block processed or still
   outstanding, rescan batches — [xwf]); at ANY point of that history the process stops and is
   restarted on the same store while the node is where it is (on a chain the handler may never have
   heard of; not a bare genesis).  Start as repaired, with its fast-forward (any margin ff >= 0):
   succeeds; the handler is on the node's tip; and m further rescan batches make the wallet ready —
   as soon as cursor + m * B exceeds the height of the node's chain — with exactly the ledger and the
   report of the node's chain. *)
Theorem ff_restart_moving : forall p g U w pass sh shs B cap n0 h ff m,
  (forall b1 b2, In b1 U -> In b2 U -> b_id b1 = b_id b2 -> b1 = b2) -> 0 < B -> 0 <= ff ->
  wf_chain n0 -> from_g g n0 -> incl n0 U ->
  xwf p g U w B cap (xrun repaired p B cap n0 [XImportStart w pass (sh :: shs)]) h ->
  let s := xrun repaired p B cap n0 (XImportStart w pass (sh :: shs) :: h) in
  let own := kown w (keys_of w (sh :: shs)) in
  (2 <= length (xs_node s))%nat ->
  exists st', start_sync_ff repaired p ff (xs_node s) (xreopen (xs_st s)) = XOk st' /\
    snd (tip (x_w st')) = b_id (last (xs_node s) g) /\
    ((forall k, status_of st' w = Some (WImporting k) -> chain_height (xs_node s) < k + Z.of_nat m * B) ->
     let st'' := batches repaired p B (xs_node s) st' w m in
     status_of st'' w = Some WReady /\
     ledger_of_chain p true own (xs_node s) = Ok (x_w st'') /\
     xreport st'' w = spec_report p own (xs_node s) w).
Proof.
  intros p g U w pass sh shs B cap n0 h ff m Uids HB Hff Hwfn Hgn HnU Hwf s own Hlen.
  pose proof (xrun_sinv p g U w pass sh shs B cap n0 h Uids HB Hwfn Hgn HnU Hwf) as Hs. fold s in Hs.
  destruct Hs as [_ [Hninv [c Hinv]]].
  destruct (ff_restart_live p g U Uids w _ (keys_of_w w (sh :: shs)) ff B m c _ _ Hff Hninv Hlen HB Hinv)
    as [st' [Hst [Hinv' Hlive]]].
  exists st'. split; [assumption|]. split; [|exact Hlive].
  apply (xinv_tip p g U w _ _ _ Hinv').
Qed.
