(* Ledger/Remove.v — wallet removal on the multi-wallet layer (Ledger/Import.v), and the event
   system both C07 and C08 quantify over:
     masswallet/wallet.go        : RemoveWallet (passphrase check), CreateWallet, NewAddress
     masswallet/ntfnshandler.go  : OnRemoveWallet (refused while importing; flag), asyncRemove phase 1
                                   and the phase 2 loop, worker (tasks re-created from the flags at start)
     masswallet/txmgr/txstore.go : RemoveRelevantTx, removableTxForRemoveWallet, checkBlockRecordAfterTxRemoved
     masswallet/txmgr/utxostore.go: removeRelevantCredit (cap per round), Remove*ByWalletId, RemoveMinedBalance
     masswallet/keystore/manager.go: DeleteKeystore.
   Definitions only (proofs: RemoveProofs.v). *)
From Coq Require Import List ZArith NArith Bool.
Import ListNotations.
Open Scope Z_scope.
Require Import MW.Ledger.Model MW.Ledger.Spec MW.Ledger.Run MW.Ledger.Import.

(* ---------------------------------------------------------------- the request *)

Inductive rres := ROk | RBadPass | RUnready | RErr.

(* RemoveWallet: CheckPrivPassphrase, then OnRemoveWallet: refused unless the status is "done";
   sets the removal flag (a wallet already flagged is flagged again) *)
Definition remove_request (st : xstate) (w pass : N) : xstate * rres :=
  match lookupN (x_pass st) w with
  | None => (st, RErr)
  | Some pw =>
      if negb (pw =? pass)%N then (st, RBadPass)
      else match status_of st w with
           | None => (st, RErr)
           | Some (WImporting _) => (st, RUnready)
           | Some _ => (with_status st (setN (x_status st) w WRemoving), ROk)
           end
  end.

(* ---------------------------------------------------------------- phase 1 *)

(* RemoveUnspentByWalletId, RemoveAddressByWalletId, RemoveGameHistoryByWalletId (both game
   buckets), RemoveMinedBalance in one commit.  Unspent, address and mined game rows are views of
   the credits in this model; what changes here is the balance row and the pending game rows. *)
Definition remove_phase1 (st : xstate) (w : N) : xstate :=
  match status_of st w with
  | Some WRemoving =>
      if is_some (lookupN (x_pass st) w) then
        {| x_w := x_w st; x_keys := x_keys st; x_pass := x_pass st; x_status := x_status st; x_brecs := x_brecs st;
           x_balrow := remN w (x_balrow st);
           x_ugame := filter (fun e => negb (fst (fst e) =? w)%N) (x_ugame st);
           x_dead := x_dead st; x_p1 := x_p1 st ++ [w] |}
      else st
  | _ => st
  end.

(* ---------------------------------------------------------------- phase 2, one round *)

(* removeRelevantCredit: walk the credits bucket; delete the credits (and their debit rows — the
   spent marks vanish with them) whose script hash belongs to the wallet; stop the round at [cap]
   deletions, or when a transaction already met in this round shows up at another height.
   Returns the credits kept, heightOfTx, and "finish".  The code walks in key order (transaction
   hash); the model walks in its list order: which credits a capped round takes differs, the state
   after the last round does not. *)
Fixpoint rm_credits (shs : list N) (cap : Z) (cs : list credit) (count : Z) (hot : list (N * Z))
  : list credit * list (N * Z) * bool :=
  match cs with
  | [] => ([], hot, true)
  | c :: r =>
      if memN (c_sh c) shs then
        let clash := match lookupN hot (c_tx c) with
                     | Some hg => negb (hg =? c_height c)
                     | None => false
                     end in
        if (cap <=? count) || clash then (c :: r, hot, false)
        else rm_credits shs cap r (count + 1) (setN hot (c_tx c) (c_height c))
      else
        let '(kept, hot', fin) := rm_credits shs cap r count hot in
        (c :: kept, hot', fin)
  end.

(* removableTxForRemoveWallet: EVERY output is unsupported, pays the wallet being removed, or pays
   nobody the keystore manager knows.  As found, inputs are not looked at; repaired, a transaction
   one of whose inputs spends an output (looked up on the node's best chain, FetchTxBySha) of
   another keystore-known wallet is kept. *)
Definition spends_other (st : xstate) (shs : list N) (n : node) (t : tx) : bool :=
  negb (t_cb t) &&
  existsb (fun op => match node_tx n (fst op) with
                     | Some pt => match nth_error (t_outs pt) (N.to_nat (snd op)) with
                                  | Some o => match o_class o with
                                              | CUnsupported => false
                                              | _ => negb (memN (o_sh o) shs) && is_some (key_owner st (o_sh o))
                                              end
                                  | None => false
                                  end
                     | None => false
                     end) (t_ins t).

(* Repaired once more (f_removable_debit): the owner of a spent output is read from the credit rows the
   store itself holds for that output (bucket "c": every row of the previous transaction with that
   output index), not from the node.  The code reads them after removeRelevantCredit has deleted rows
   of the wallet being removed; those rows carry one of [shs] and do not count either way, so the
   credits before the round are used here. *)
Definition spends_other_db (st : xstate) (shs : list N) (t : tx) : bool :=
  negb (t_cb t) &&
  existsb (fun op => existsb (fun c => (c_tx c =? fst op)%N && (c_vout c =? snd op)%N &&
                                       negb (memN (c_sh c) shs) && is_some (key_owner st (c_sh c)))
                             (credits (x_w st))) (t_ins t).

Definition removable (fx : fixes) (st : xstate) (shs : list N) (n : node) (t : tx) : bool :=
  negb (f_removable fx && (if f_removable_debit fx then spends_other_db st shs t else spends_other st shs n t)) &&
  forallb (fun o => match o_class o with
                    | CUnsupported => true
                    | _ => memN (o_sh o) shs || negb (is_some (key_owner st (o_sh o)))
                    end) (t_outs t).

(* delete the tx records of removable transactions and repair (or delete) their block records *)
Definition drop_tx (brs : list brec) (h : Z) (t : N) : list brec :=
  flat_map (fun br =>
              if br_h br =? h then
                match remN t (br_txs br) with
                | [] => []
                | l => [{| br_h := br_h br; br_bid := br_bid br; br_txs := l |}]
                end
              else [br]) brs.

Fixpoint repair (fx : fixes) (st : xstate) (shs : list N) (n : node) (lookup : N -> option tx) (brs : list brec) (hot : list (N * Z)) : list brec :=
  match hot with
  | [] => brs
  | (t, h) :: r =>
      let brs' := if listed_at brs h t then
                    match lookup t with
                    | Some tx0 => if removable fx st shs n tx0 then drop_tx brs h t else brs
                    | None => brs
                    end
                  else brs in
      repair fx st shs n lookup brs' r
  end.

(* RemoveRelevantTx + (when finished) DeleteWalletStatus + DeleteKeystore, one commit.
   [lookup] = FetchTxByFileLoc (the node's block files).  Returns the state and "finished". *)
Definition remove_round (fx : fixes) (cap : Z) (n : node) (lookup : N -> option tx) (st : xstate) (w : N) : xstate * bool :=
  match status_of st w with
  | Some WRemoving =>
      if memN w (x_p1 st) then
        let shs := sh_of_wallet st w in
        let '(kept, hot, fin) := match shs with
                                 | [] => (credits (x_w st), [], true)
                                 | _ => rm_credits shs cap (credits (x_w st)) 0 []
                                 end in
        let brs := repair fx st shs n lookup (x_brecs st) hot in
        if fin then
          ({| x_w := {| credits := kept; synced := synced (x_w st) |};
              x_keys := filter (fun e => negb (snd e =? w)%N) (x_keys st);
              x_pass := delN (x_pass st) w;
              x_status := delN (x_status st) w;
              x_brecs := brs; x_balrow := x_balrow st; x_ugame := x_ugame st;
              x_dead := x_dead st; x_p1 := remN w (x_p1 st) |}, true)
        else
          ({| x_w := {| credits := kept; synced := synced (x_w st) |};
              x_keys := x_keys st; x_pass := x_pass st; x_status := x_status st;
              x_brecs := brs; x_balrow := x_balrow st; x_ugame := x_ugame st;
              x_dead := x_dead st; x_p1 := x_p1 st |}, false)
      else (st, false)
  | _ => (st, false)
  end.

(* ---------------------------------------------------------------- what "erased" means *)

(* some record of the model is keyed by wallet w or by one of the script hashes [shs] it had *)
Definition mentions (st : xstate) (w : N) (shs : list N) : bool :=
  existsb (fun c => (c_wallet c =? w)%N || memN (c_sh c) shs) (credits (x_w st))
  || memN w (x_balrow st)
  || existsb (fun e => (fst (fst e) =? w)%N) (x_ugame st)
  || is_some (status_of st w)
  || is_some (lookupN (x_pass st) w)
  || existsb (fun e => (snd e =? w)%N || memN (fst e) shs) (x_keys st).

Definition listed (st : xstate) (w : N) : bool := is_some (status_of st w).

(* ---------------------------------------------------------------- histories *)

Inductive xevent :=
| XAttach (b : block)                     (* node: b becomes the best block *)
| XDetach                                 (* node: the best block is disconnected *)
| XProcess (b : block)                    (* handler: the queued announcement of b is processed now *)
| XNewWallet (w pass : N)
| XNewAddr (sh w : N)
| XImportStart (w pass : N) (shs : list N)
| XBatch (w : N)                          (* worker: one run of asyncImport *)
| XRemoveReq (w pass : N)
| XPhase1 (w : N)                         (* worker: asyncRemove phase 1 *)
| XRound (w : N)                          (* worker: one round of the phase 2 loop *)
| XRestart.                               (* the process stops (volatile state lost) and starts again *)

Record xsim := {
  xs_node : node;
  xs_st : xstate;
  xs_all : list tx;                       (* every transaction the node ever stored (block files) *)
  xs_crashed : bool                       (* the handler goroutine died in a panic *)
}.

Definition with_st (s : xsim) (st : xstate) : xsim :=
  {| xs_node := xs_node s; xs_st := st; xs_all := xs_all s; xs_crashed := xs_crashed s |}.

(* Start(): catch up block by block with the node's chain (the first failure stops the start); repaired:
   when there was nothing to catch up by height and the node's best block is not the stored tip, that
   block goes through processConnectedBlock (a reorganisation to an equal or lower height while the
   wallet was down).  The fast-forward over all but the last 2000 blocks when no wallet is ready is
   not modelled (it equals processing: no wallet is ready). *)
Fixpoint catchup (fx : fixes) (p : params) (n : node) (st : xstate) (fuel : nat) : xres xstate :=
  match fuel with
  | O => XOk st
  | S f =>
      match node_at n (fst (tip (x_w st)) + 1) with
      | None => XOk st
      | Some b =>
          match xprocess fx p n st b with
          | XOk st' => catchup fx p n st' f
          | XErr => XErr
          | XPanic => XPanic
          end
      end
  end.

Definition start_sync (fx : fixes) (p : params) (n : node) (st : xstate) : xres xstate :=
  let sync_h := fst (tip (x_w st)) in
  let index_h := Z.of_nat (length n) - 1 in
  match catchup fx p n st (length n) with
  | XOk st1 =>
      if f_start_reorg fx && (index_h <=? sync_h) then
        match node_at n index_h with
        | Some b => if (b_id b =? snd (tip (x_w st1)))%N then XOk st1 else xprocess fx p n st1 b
        | None => XOk st1
        end
      else XOk st1
  | XErr => XErr
  | XPanic => XPanic
  end.

Definition xstep (fx : fixes) (p : params) (B cap : Z) (s : xsim) (e : xevent) : xsim :=
  match e with
  | XAttach b => {| xs_node := xs_node s ++ [b]; xs_st := xs_st s; xs_all := xs_all s ++ b_txs b; xs_crashed := xs_crashed s |}
  | XDetach => {| xs_node := removelast (xs_node s); xs_st := xs_st s; xs_all := xs_all s; xs_crashed := xs_crashed s |}
  | XProcess b =>
      if xs_crashed s then s
      else match xprocess fx p (xs_node s) (xs_st s) b with
           | XOk st' => with_st s st'
           | XErr => s
           | XPanic => {| xs_node := xs_node s; xs_st := xs_st s; xs_all := xs_all s; xs_crashed := true |}
           end
  | XNewWallet w pass => match new_wallet (xs_st s) w pass with Some st' => with_st s st' | None => s end
  | XNewAddr sh w => with_st s (new_address (xs_st s) sh w)
  | XImportStart w pass shs => match import_start (xs_st s) w pass shs with Some st' => with_st s st' | None => s end
  | XBatch w => with_st s (fst (import_batch fx p B (xs_node s) (xs_st s) w))
  | XRemoveReq w pass => with_st s (fst (remove_request (xs_st s) w pass))
  | XPhase1 w => with_st s (remove_phase1 (xs_st s) w)
  | XRound w => with_st s (fst (remove_round fx cap (xs_node s) (find_tx (xs_all s)) (xs_st s) w))
  | XRestart =>
      let st0 := {| x_w := x_w (xs_st s); x_keys := x_keys (xs_st s); x_pass := x_pass (xs_st s);
                    x_status := x_status (xs_st s); x_brecs := x_brecs (xs_st s); x_balrow := x_balrow (xs_st s);
                    x_ugame := x_ugame (xs_st s); x_dead := []; x_p1 := [] |} in
      match start_sync fx p (xs_node s) st0 with
      | XOk st' => {| xs_node := xs_node s; xs_st := st'; xs_all := xs_all s; xs_crashed := false |}
      | XErr => {| xs_node := xs_node s; xs_st := st0; xs_all := xs_all s; xs_crashed := false |}
      | XPanic => {| xs_node := xs_node s; xs_st := st0; xs_all := xs_all s; xs_crashed := true |}
      end
  end.

Definition xinit_sim (n : node) : xsim :=
  {| xs_node := n; xs_st := xinit n; xs_all := flat_map b_txs n; xs_crashed := false |}.

Definition xrun (fx : fixes) (p : params) (B cap : Z) (n : node) (h : list xevent) : xsim :=
  fold_left (xstep fx p B cap) h (xinit_sim n).
