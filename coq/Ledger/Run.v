(* Ledger/Run.v — histories: the node's chain moves, tips are announced and processed,
   wallets are queried.  [run] is what the correspondence driver executes and what the
   C01 theorems quantify over.  Definitions only. *)
From Coq Require Import List ZArith NArith Bool.
Import ListNotations.
Open Scope Z_scope.
Require Import MW.Ledger.Model MW.Ledger.Spec.

Inductive event :=
| EvOwner (sh w : N)            (* an address of ready wallet w is issued *)
| EvAttach (b : block)          (* node: b becomes the best block (extends the tip) *)
| EvDetach                      (* node: the best block is disconnected *)
| EvProcess (b : block)         (* wallet: the queued announcement of b is processed now *)
| EvQuery (w : N).              (* wallet w is observed *)

Record sim := {
  s_node : node;                (* best chain, genesis first *)
  s_wallet : wstate;
  s_own : list (N * N);         (* script hash -> ready wallet *)
  s_obs : list (N * wstate * node)   (* queries answered so far, newest first *)
}.

Definition own_of (l : list (N * N)) : owner_fn :=
  fun sh => match find (fun e => (fst e =? sh)%N) l with Some e => Some (snd e) | None => None end.

Definition step (p : params) (a1fix : bool) (s : sim) (e : event) : sim :=
  match e with
  | EvOwner sh w => {| s_node := s_node s; s_wallet := s_wallet s; s_own := (sh, w) :: s_own s; s_obs := s_obs s |}
  | EvAttach b => {| s_node := s_node s ++ [b]; s_wallet := s_wallet s; s_own := s_own s; s_obs := s_obs s |}
  | EvDetach => {| s_node := removelast (s_node s); s_wallet := s_wallet s; s_own := s_own s; s_obs := s_obs s |}
  | EvProcess b =>
      {| s_node := s_node s;
         s_wallet := process_or_keep p a1fix (own_of (s_own s)) (s_node s) (s_wallet s) b;
         s_own := s_own s; s_obs := s_obs s |}
  | EvQuery w => {| s_node := s_node s; s_wallet := s_wallet s; s_own := s_own s;
                    s_obs := (w, s_wallet s, s_node s) :: s_obs s |}
  end.

Definition init_sim (genesis : block) : sim :=
  {| s_node := [genesis]; s_wallet := init_state (b_id genesis); s_own := []; s_obs := [] |}.

Definition run (p : params) (a1fix : bool) (genesis : block) (h : list event) : sim :=
  fold_left (step p a1fix) h (init_sim genesis).

(* ---------------------------------------------------------------- what a query reports *)

Record utxo_row := { u_tx : N; u_vout : N; u_amount : Z; u_height : Z; u_sh : N; u_maturity : Z; u_confs : Z; u_spendable : bool }.

Definition row_of_credit (st : wstate) (c : credit) : utxo_row :=
  {| u_tx := c_tx c; u_vout := c_vout c; u_amount := c_amount c; u_height := c_height c; u_sh := c_sh c;
     u_maturity := c_maturity c; u_confs := confs st c; u_spendable := mature st c |}.

Record report := { r_synced : Z; r_total : Z; r_spendable : Z; r_wstaking : Z; r_wbinding : Z; r_rows : list utxo_row }.

Definition model_report (st : wstate) (w : N) : report :=
  {| r_synced := fst (tip st); r_total := gross_balance st w; r_spendable := bal_spendable st w;
     r_wstaking := bal_wstaking st w; r_wbinding := bal_wbinding st w;
     r_rows := map (row_of_credit st) (listed_unspent st w) |}.

Definition row_of_coin (p : params) (c : list block) (k : coin) : utxo_row :=
  {| u_tx := k_tx k; u_vout := k_vout k; u_amount := k_amount k; u_height := k_height k; u_sh := k_sh k;
     u_maturity := coin_maturity p k; u_confs := chain_height c - k_height k + 1;
     u_spendable := consensus_spendable p (chain_height c + 1) k |}.

Definition spec_report (p : params) (own : owner_fn) (c : list block) (w : N) : report :=
  {| r_synced := chain_height c; r_total := balance_of_chain own c w;
     r_spendable := spec_spendable p own c w; r_wstaking := spec_wstaking p own c w;
     r_wbinding := spec_wbinding p own c w;
     r_rows := map (row_of_coin p c) (filter (fun k => negb (k_amount k =? 0)) (utxo_of_chain own c w)) |}.
