(* Ledger/Crash3.v — C06, the process model of Ledger/Crash.v with NtfnsHandler.Start as repaired a
   second time (KNOWN_FINDINGS, fixed: C06 fast-forward over a replaced tip).  Definitions only
   (proofs: Ledger/CrashProofs3.v).

   masswallet/ntfnshandler.go Start, the branch "no wallet ready, node more than [ff] blocks long":
   before the sync records of the heights syncHeight+1 .. indexHeight-ff-1 are written, the stored
   tip is compared with the node's block at that height (FetchBlockShaByHeight(syncHeight) against
   bestBlock.Hash).  If the node has replaced it, the block of height syncHeight+1 goes through
   processConnectedBlock (the reorganisation path) first; a failure there fails the start; after
   it the stored tip is that block and Start goes on exactly as [Crash.start] does from there
   (fast-forward of what is still below indexHeight-ff, catch-up of the rest; the tip check of the
   first repair cannot apply: the node is higher than the stored tip).
   In this model "no wallet ready" is "no address issued" (Crash.v), so the fast-forward over a
   replaced tip was harmless here (Properties/C06.v T6-T8); the restore in progress, where it was
   not, is Ledger/ResumeFF.v.  What the repair changes in this model: the run with crashes is again
   EXACTLY a run of the process that never stops (T2) at every crash point. *)
From Coq Require Import List ZArith NArith Bool.
Import ListNotations.
Open Scope Z_scope.
Require Import MW.Ledger.Model MW.Ledger.Spec MW.Ledger.Run MW.Ledger.Crash MW.Ledger.Crash2.

(* FetchBlockShaByHeight(syncHeight) = bestBlock.Hash *)
Definition tip_on_node (pr : proc) : bool :=
  match node_at (s_node (pr_sim pr)) (fst (tip (s_wallet (pr_sim pr)))) with
  | Some b => (b_id b =? snd (pr_best pr))%N
  | None => false
  end.

(* Start would fast-forward at least one height *)
Definition ff_wanted (ff : Z) (pr : proc) : bool :=
  let hs := fst (tip (s_wallet (pr_sim pr))) in
  let hi := chain_height (s_node (pr_sim pr)) in
  no_ready_wallet pr && (ff <? hi) && (hs + 1 <? hi - ff).

(* Start as repaired (both repairs) *)
Definition start_chk (p : params) (ff : Z) (g : block) (pr : proc) : option proc :=
  if ff_wanted ff pr && negb (tip_on_node pr) then
    match above (s_node (pr_sim pr)) (fst (tip (s_wallet (pr_sim pr)))) with
    | b :: _ =>
        match catch_up p pr [b] with
        | Some pr1 => start p true ff g pr1
        | None => None
        end
    | [] => None
    end
  else start p true ff g pr.

Definition restart_chk (p : params) (ff : Z) (g : block) (pr : proc) : option proc :=
  start_chk p ff g (reopen pr).

(* runs with crashes, as [Crash.crashes] / [Crash2.crashes_at] *)
Fixpoint crashes_chk (p : params) (ff : Z) (g : block) (ks : list nat) (pr : proc) (h : list event) : option proc :=
  match ks with
  | [] => Some (prun p pr h)
  | k :: ks' =>
      let '(pr1, _, post) := cut p k pr h in
      match restart_chk p ff g pr1 with
      | Some pr2 => crashes_chk p ff g ks' pr2 post
      | None => None
      end
  end.

Fixpoint crashes_at_chk (p : params) (ff : Z) (g : block) (js : list nat) (pr : proc) (h : list event) : option proc :=
  match js with
  | [] => Some (prun p pr h)
  | j :: js' =>
      match restart_chk p ff g (prun p pr (firstn j h)) with
      | Some pr2 => crashes_at_chk p ff g js' pr2 (skipn j h)
      | None => None
      end
  end.

Definition crash_run_chk (p : params) (ff : Z) (g : block) (k : nat) (h : list event) : option proc :=
  crashes_chk p ff g [k] (init_proc g) h.

(* the one kind of crash point T2/T3 still exclude (T6-T8 cover it under [genesis_prev_free]): the node
   has been reorganised back to its bare genesis while the wallet is ahead of it *)
Definition not_bare_genesis (g : block) (pr : proc) : Prop :=
  last (s_node (pr_sim pr)) g <> g \/ snd (tip (s_wallet (pr_sim pr))) = b_id g.
