(* Ledger/Import.v — the multi-wallet layer around the frozen ledger model (Ledger/Model.v):
   per-wallet status (ready | importing with a rescan cursor | being removed), the keystore's
   script-hash table, block records, and the operations of
     masswallet/ntfnshandler.go : getReadyWallets, filterBlock, disconnectBlock (cursor pull-back),
                                  reorg, processConnectedBlock, asyncImport, filterTxForImporting
     masswallet/txmgr/txstore.go: insertMinedTxForImporting (ErrChainReorg), Rollback (driven by the
                                  block records; balance-map look-up that dereferences a missing entry)
     masswallet/wallet.go       : ImportWallet / ImportWalletWithMnemonic, UseWallet / CheckReady.
   Definitions only (proofs: ImportProofs.v).

   Representation.  [x_w] is the frozen [wstate]: ONE list of credits for all wallets (with spent
   marks = the debit records) and the synced chain.  Unspent rows, balances, address rows and mined
   staking/binding rows are views of the credits (as in Model.v); what the removal and the rollback
   need in addition is explicit: which wallets have a balance ROW ([x_balrow]; Rollback dereferences
   the row of every keystore-known wallet it un-spends a coin for), the block records ([x_brecs];
   Rollback walks them, removal edits them), and the pending staking/binding rows that Rollback
   re-creates for a wallet that is being removed ([x_ugame]).  The pending set itself (unmined
   transactions, their inputs and credits) is not modelled here. *)
From Coq Require Import List ZArith NArith Bool.
Import ListNotations.
Open Scope Z_scope.
Require Import MW.Ledger.Model MW.Ledger.Spec MW.Ledger.Run.

(* repairs made in /repo after the first run of this check (KNOWN_FINDINGS.txt, fixed: C08); the
   model follows the repaired code when the switch is true and the code as found when false *)
Record fixes := {
  f_removable : bool;   (* removableTxForRemoveWallet also keeps a transaction that spends another managed wallet's coin *)
  f_rollback : bool;    (* Rollback skips the row bookkeeping of a wallet that has no balance row *)
  f_import_retry : bool; (* the worker retries an import batch that failed on a missing credit instead of dropping the task *)
  f_start_reorg : bool; (* Start() lets the node's best block go through the reorg logic when there is nothing to catch up by height *)
  f_rollback_order : bool; (* Rollback tolerates a block record that lists the spender of an in-block coin before its creator *)
  f_import_tipcheck : bool; (* asyncImport refuses (retry) a batch when the chain it reads is not the chain the handler is synced to *)
  f_removable_debit : bool; (* removableTxForRemoveWallet decides from the wallet database alone, not from the node's current best chain *)
  f_ff_check : bool; (* Start() takes the sync-record fast-forward only when the stored tip is still on the node's chain *)
  f_keystore_undo : bool (* 96d76da: a failed NewAddress / last removal round repairs the cached keystore in memory (ForgetAddresses,
                            RestoreCachedKeystore: no database access) instead of reloading it from the store (f6a5978 / 33294fa:
                            a reload that can fail itself); Ledger/FaultOps.v *)
}.
Definition repaired : fixes :=
  {| f_removable := true; f_rollback := true; f_import_retry := true; f_start_reorg := true; f_rollback_order := true;
     f_import_tipcheck := true; f_removable_debit := true; f_ff_check := true; f_keystore_undo := true |}.
Definition as_found : fixes :=
  {| f_removable := false; f_rollback := false; f_import_retry := false; f_start_reorg := false; f_rollback_order := false;
     f_import_tipcheck := false; f_removable_debit := false; f_ff_check := false; f_keystore_undo := false |}.

Inductive wst := WReady | WImporting (cursor : Z) | WRemoving.

Record brec := { br_h : Z; br_bid : N; br_txs : list N }.

Record xstate := {
  x_w : wstate;                   (* credits of every wallet + synced chain *)
  x_keys : list (N * N);          (* keystore manager: script hash -> wallet, for every keystore present *)
  x_pass : list (N * N);          (* wallet -> private passphrase (an opaque name) *)
  x_status : list (N * wst);      (* bucket "ws" *)
  x_brecs : list brec;            (* block records (and, implicitly, the tx records they list) *)
  x_balrow : list N;              (* wallets that have a row in the balance bucket *)
  x_ugame : list (N * N * N);     (* pending staking/binding rows (wallet, tx, vout) of wallets being removed *)
  x_dead : list N;                (* volatile: wallets whose import task the worker has dropped *)
  x_p1 : list N                   (* volatile: wallets whose removal task has done phase 1 in this run *)
}.

Inductive xres (A : Type) := XOk (a : A) | XErr | XPanic.
Arguments XOk {A} a. Arguments XErr {A}. Arguments XPanic {A}.

(* ---------------------------------------------------------------- small list-as-map helpers *)

Definition memN (x : N) (l : list N) : bool := existsb (N.eqb x) l.
Definition remN (x : N) (l : list N) : list N := filter (fun y => negb (y =? x)%N) l.

Fixpoint lookupN {A : Type} (l : list (N * A)) (k : N) : option A :=
  match l with
  | [] => None
  | (k', v) :: r => if (k' =? k)%N then Some v else lookupN r k
  end.

Definition delN {A : Type} (l : list (N * A)) (k : N) : list (N * A) :=
  filter (fun e => negb (fst e =? k)%N) l.

Definition setN {A : Type} (l : list (N * A)) (k : N) (v : A) : list (N * A) :=
  if existsb (fun e => (fst e =? k)%N) l
  then map (fun e => if (fst e =? k)%N then (k, v) else e) l
  else l ++ [(k, v)].

Definition is_some {A : Type} (o : option A) : bool := match o with Some _ => true | None => false end.

(* ---------------------------------------------------------------- setters *)

Definition with_w (st : xstate) (w : wstate) : xstate :=
  {| x_w := w; x_keys := x_keys st; x_pass := x_pass st; x_status := x_status st; x_brecs := x_brecs st;
     x_balrow := x_balrow st; x_ugame := x_ugame st; x_dead := x_dead st; x_p1 := x_p1 st |}.
Definition with_status (st : xstate) (s : list (N * wst)) : xstate :=
  {| x_w := x_w st; x_keys := x_keys st; x_pass := x_pass st; x_status := s; x_brecs := x_brecs st;
     x_balrow := x_balrow st; x_ugame := x_ugame st; x_dead := x_dead st; x_p1 := x_p1 st |}.
Definition with_brecs (st : xstate) (b : list brec) : xstate :=
  {| x_w := x_w st; x_keys := x_keys st; x_pass := x_pass st; x_status := x_status st; x_brecs := b;
     x_balrow := x_balrow st; x_ugame := x_ugame st; x_dead := x_dead st; x_p1 := x_p1 st |}.
Definition with_dead (st : xstate) (d : list N) : xstate :=
  {| x_w := x_w st; x_keys := x_keys st; x_pass := x_pass st; x_status := x_status st; x_brecs := x_brecs st;
     x_balrow := x_balrow st; x_ugame := x_ugame st; x_dead := d; x_p1 := x_p1 st |}.

(* ---------------------------------------------------------------- who owns a script hash *)

(* GetManagedAddressByScriptHash: every keystore present, whatever the wallet's status *)
Definition key_owner (st : xstate) : owner_fn := lookupN (x_keys st).

Definition status_of (st : xstate) (w : N) : option wst := lookupN (x_status st) w.

(* getReadyWallets: status "done" and not flagged for removal *)
Definition is_ready (st : xstate) (w : N) : bool :=
  match status_of st w with Some WReady => true | _ => false end.

(* the owner function filterTx works with: keystore look-up, then the readyWallets filter *)
Definition ready_own (st : xstate) : owner_fn :=
  fun sh => match key_owner st sh with
            | Some w => if is_ready st w then Some w else None
            | None => None
            end.

(* importingAddrMgr.Address(): the addresses of wallet w only *)
Definition own_w (st : xstate) (w : N) : owner_fn :=
  fun sh => match key_owner st sh with
            | Some v => if (v =? w)%N then Some w else None
            | None => None
            end.

Definition sh_of_wallet (st : xstate) (w : N) : list N :=
  map fst (filter (fun e => (snd e =? w)%N) (x_keys st)).

(* UseWallet / CheckReady *)
Inductive ures := UOk | UUnready | UErr.
Definition use_wallet (st : xstate) (w : N) : ures :=
  match status_of st w with
  | Some WReady => UOk
  | Some _ => UUnready
  | None => UErr
  end.

(* ---------------------------------------------------------------- block records *)

Definition rec_ids (recs : list relrec) : list N := map (fun r => t_id (rr_tx r)) recs.

Definition brec_at (brs : list brec) (h : Z) : option brec := find (fun br => br_h br =? h) brs.

(* insertMinedTx / insertMinedTxForImporting: append the hash to the record of that height, or
   create the record *)
Definition add_ids (brs : list brec) (h : Z) (bid : N) (ids : list N) : list brec :=
  match ids with
  | [] => brs
  | _ =>
      match brec_at brs h with
      | None => brs ++ [{| br_h := h; br_bid := bid; br_txs := ids |}]
      | Some _ =>
          map (fun br => if br_h br =? h
                         then {| br_h := br_h br; br_bid := br_bid br;
                                 br_txs := br_txs br ++ filter (fun i => negb (memN i (br_txs br))) ids |}
                         else br) brs
      end
  end.

(* the tx record (hash, height) exists *)
Definition listed_at (brs : list brec) (h : Z) (t : N) : bool :=
  existsb (fun br => (br_h br =? h) && memN t (br_txs br)) brs.

(* ... in a block record that a rollback to [h] walks over *)
Definition listed_from (brs : list brec) (h : Z) (t : N) (th : Z) : bool := (h <=? th) && listed_at brs th t.

(* ---------------------------------------------------------------- connecting blocks (ready wallets) *)

(* filterBlock for one block: FetchBlockLocByHeight must name this very block; every transaction is
   filtered for the READY wallets; relevant ones are inserted (Model.connect_block) and listed *)
Definition xconnect_block (p : params) (n : node) (st : xstate) (b : block) : xres xstate :=
  match node_at n (b_height b) with
  | None => XErr
  | Some nb =>
      if negb (b_id nb =? b_id b)%N then XErr
      else
        let own := ready_own st in
        match filter_block_txs own (credits (x_w st)) (node_tx n) [] (b_txs b) with
        | Err _ => XErr
        | Ok recs =>
            match connect_block p true own (credits (x_w st)) (node_tx n) (x_w st) b with
            | Err _ => XErr
            | Ok w' => XOk (with_brecs (with_w st w') (add_ids (x_brecs st) (b_height b) (b_id b) (rec_ids recs)))
            end
        end
  end.

Fixpoint xconnect_all (p : params) (n : node) (st : xstate) (bs : list block) : xres xstate :=
  match bs with
  | [] => XOk st
  | b :: rest =>
      match xconnect_block p n st b with
      | XOk st' => xconnect_all p n st' rest
      | XErr => XErr
      | XPanic => XPanic
      end
  end.

(* ---------------------------------------------------------------- Rollback + disconnectBlock *)

Definition rb_unspend (brs : list brec) (h : Z) (c : credit) : bool :=
  match c_spent c with Some (t, _, sh) => listed_from brs h t sh | None => false end.
Definition rb_delete (brs : list brec) (h : Z) (c : credit) : bool :=
  listed_from brs h (c_tx c) (c_height c).

Definition is_game (c : credit) : bool := is_staking c || is_binding c.

Fixpoint posN (t : N) (l : list N) : option nat :=
  match l with
  | [] => None
  | x :: r => if (x =? t)%N then Some O else option_map S (posN t r)
  end.

(* Rollback walks the transactions of a block record BACKWARDS, each one completely (un-spend what it
   spent, then delete what it created).  A coin created and spent in the same block is handled
   correctly only if its spender comes later in the record than its creator.  insertMinedTx appends
   in block order, but the rescan (insertMinedTxForImporting) appends the transactions it adds AFTER
   those already recorded for other wallets: the creator can then follow the spender, Rollback deletes
   the credit first and fails on the spender's debit ("unexpected unspend non-existence credit"). *)
Definition misordered (brs : list brec) (h : Z) (c : credit) : bool :=
  match c_spent c with
  | Some (t2, _, hs) =>
      (h <=? hs) && (hs =? c_height c) &&
      match brec_at brs hs with
      | Some br => match posN t2 (br_txs br), posN (c_tx c) (br_txs br) with
                   | Some i2, Some i1 => Nat.ltb i2 i1
                   | _, _ => false
                   end
      | None => false
      end
  | None => false
  end.

Definition pull_back (h : Z) (s : wst) : wst :=
  match s with
  | WImporting k => WImporting (Z.min k (h - 1))
  | _ => s
  end.

(* disconnect every synced block of height >= h.
   - a credit is un-spent iff the transaction that spent it is listed in a block record that is
     walked (its debit row names the credit); if the keystore knows the credit's script hash, the
     owner's entry of the balance map is dereferenced: as found, a wallet without a balance row
     panics (txstore.go: allMined[ma.Account()].Add on the zero Amount); repaired, its rows are skipped;
   - a credit is deleted iff the transaction that created it is listed; a staking/binding credit
     of a keystore-known wallet re-creates a pending game row keyed by that wallet (recorded here
     for wallets being removed; repaired: not for a wallet without a balance row);
   - the block records walked are deleted, the synced chain is cut, rescan cursors are pulled back. *)
Definition xrollback (fx : fixes) (st : xstate) (h : Z) : xres xstate :=
  let brs := x_brecs st in
  let cs := credits (x_w st) in
  if negb (f_rollback fx) && existsb (fun c => rb_unspend brs h c &&
                       match key_owner st (c_sh c) with
                       | Some v => negb (memN v (x_balrow st))
                       | None => false
                       end) cs
  then XPanic
  else if negb (f_rollback_order fx) && existsb (misordered brs h) cs then XErr
  else
    let cs' := map (fun c => if rb_unspend brs h c then set_spent c None else c)
                   (filter (fun c => negb (rb_delete brs h c)) cs) in
    let residue := flat_map (fun c =>
                      if rb_delete brs h c && is_game c
                      then match key_owner st (c_sh c) with
                           | Some v => match status_of st v with
                                       | Some WRemoving =>
                                           if f_rollback fx && negb (memN v (x_balrow st)) then []
                                           else [(v, c_tx c, c_vout c)]
                                       | _ => []
                                       end
                           | None => []
                           end
                      else []) cs in
    XOk {| x_w := {| credits := cs'; synced := filter (fun e => fst e <? h) (synced (x_w st)) |};
           x_keys := x_keys st; x_pass := x_pass st;
           x_status := map (fun e => (fst e, pull_back h (snd e))) (x_status st);
           x_brecs := filter (fun br => br_h br <? h) brs;
           x_balrow := x_balrow st;
           x_ugame := x_ugame st ++ residue;
           x_dead := x_dead st; x_p1 := x_p1 st |}.

(* processConnectedBlock: extend the tip, or reorganise (Model.collect finds the fork and the
   blocks to connect); one atomic commit or no change *)
Definition xprocess (fx : fixes) (p : params) (n : node) (st : xstate) (b : block) : xres xstate :=
  if (snd (tip (x_w st)) =? b_prev b)%N then xconnect_all p n st [b]
  else
    match collect n (x_w st) (S (Z.to_nat (b_height b))) b [] with
    | None => XErr
    | Some (fork, bs) =>
        match xrollback fx st (fork + 1) with
        | XOk st1 => xconnect_all p n st1 bs
        | XErr => XErr
        | XPanic => XPanic
        end
    end.

(* ---------------------------------------------------------------- keystore import *)

Definition wallet_known (st : xstate) (w : N) : bool :=
  is_some (status_of st w) || is_some (lookupN (x_pass st) w) || existsb (fun e => (snd e =? w)%N) (x_keys st).

(* ImportWallet / ImportWalletWithMnemonic: keystore (discovered script hashes [shs]), zero
   balance row, status importing from height 0 (ready at once when no address was derived) *)
Definition import_start (st : xstate) (w pass : N) (shs : list N) : option xstate :=
  if wallet_known st w then None
  else Some {| x_w := x_w st;
               x_keys := x_keys st ++ map (fun sh => (sh, w)) shs;
               x_pass := x_pass st ++ [(w, pass)];
               x_status := x_status st ++ [(w, match shs with [] => WReady | _ => WImporting 0 end)];
               x_brecs := x_brecs st;
               x_balrow := x_balrow st ++ [w];
               x_ugame := x_ugame st;
               x_dead := remN w (x_dead st); x_p1 := x_p1 st |}.

(* CreateWallet + NewAddress *)
Definition new_wallet (st : xstate) (w pass : N) : option xstate := import_start st w pass [].
Definition new_address (st : xstate) (sh w : N) : xstate :=
  {| x_w := x_w st; x_keys := x_keys st ++ [(sh, w)]; x_pass := x_pass st; x_status := x_status st;
     x_brecs := x_brecs st; x_balrow := x_balrow st; x_ugame := x_ugame st; x_dead := x_dead st; x_p1 := x_p1 st |}.

(* ---------------------------------------------------------------- the rescan worker *)

(* FetchLastTxUntilHeight: the transaction on the node's chain at a height <= h *)
Definition node_tx_upto (n : node) (h : Z) (id : N) : option tx :=
  find_tx (flat_map b_txs (filter (fun b => b_height b <=? h) n)) id.

(* the node's script-hash index lists a transaction under every script hash one of its outputs
   pays or one of its inputs spends *)
Definition out_touches (own : owner_fn) (o : txout) : bool :=
  match o_class o with CUnsupported => false | _ => is_some (own (o_sh o)) end.
Definition in_touches (own : owner_fn) (n : node) (h : Z) (op : N * N) : bool :=
  match node_tx_upto n h (fst op) with
  | Some pt => match nth_error (t_outs pt) (N.to_nat (snd op)) with
               | Some o => out_touches own o
               | None => false
               end
  | None => false
  end.
Definition touches (own : owner_fn) (n : node) (h : Z) (t : tx) : bool :=
  existsb (out_touches own) (t_outs t) || (negb (t_cb t) && existsb (in_touches own n h) (t_ins t)).

(* filterTxForImporting, input half; None = "previous transaction not found" (ErrImportingContinuable) *)
Fixpoint import_ins (own : owner_fn) (n : node) (h : Z) (ins : list (N * N)) (i : N) : option (list rel_in) :=
  match ins with
  | [] => Some []
  | (ph, pv) :: rest =>
      match node_tx_upto n h ph with
      | None => None
      | Some pt =>
          match nth_error (t_outs pt) (N.to_nat pv) with
          | None => None
          | Some o =>
              match import_ins own n h rest (i + 1)%N with
              | None => None
              | Some l =>
                  match o_class o with
                  | CUnsupported => Some l
                  | _ => match own (o_sh o) with
                         | Some w => Some ({| ri_index := i; ri_prev := (ph, pv); ri_wallet := w |} :: l)
                         | None => Some l
                         end
                  end
              end
          end
      end
  end.

Inductive iout := IOk | IRetry | IAbandon.

(* one related transaction: filterTxForImporting, insertMinedTxForImporting (block record of that
   height: created, or checked against the block being read — a different block there is
   ErrChainReorg — and extended), updateMinedBalance (a missing coin is ErrUnexpectedCreditNotFound:
   the worker DROPS the task), AddCredits *)
Definition import_tx (p : params) (own : owner_fn) (n : node) (h : Z) (bid : N)
           (acc : list credit * list brec) (t : tx) : (list credit * list brec) + iout :=
  match (if t_cb t then Some [] else import_ins own n h (t_ins t) 0%N) with
  | None => inr IRetry
  | Some ins =>
      let outs := filter_outs own (t_outs t) 0%N in
      match ins, outs with
      | [], [] => inl acc
      | _, _ =>
          let '(cs, brs) := acc in
          let chk := match brec_at brs h with
                     | Some br => (br_bid br =? bid)%N
                     | None => true
                     end in
          if negb chk then inr IRetry
          else
            match apply_ins cs t h ins with
            | Err _ => inr IAbandon
            | Ok cs1 =>
                match apply_outs p cs1 t h bid outs with
                | Err _ => inr IRetry
                | Ok cs2 => inl (cs2, add_ids brs h bid [t_id t])
                end
            end
      end
  end.

Fixpoint import_txs (p : params) (own : owner_fn) (n : node) (h : Z) (bid : N)
         (acc : list credit * list brec) (ts : list tx) : (list credit * list brec) + iout :=
  match ts with
  | [] => inl acc
  | t :: rest =>
      match import_tx p own n h bid acc t with
      | inl acc' => import_txs p own n h bid acc' rest
      | inr e => inr e
      end
  end.

(* the blocks of the node between the cursor and [stop], ascending, each with the transactions the
   index lists for the wallet *)
Fixpoint import_blocks (p : params) (own : owner_fn) (n : node) (k stop : Z)
         (acc : list credit * list brec) (bs : list block) : (list credit * list brec) + iout :=
  match bs with
  | [] => inl acc
  | b :: rest =>
      if (k <? b_height b) && (b_height b <=? stop) then
        match import_txs p own n (b_height b) (b_id b) acc (filter (touches own n (b_height b)) (b_txs b)) with
        | inl acc' => import_blocks p own n k stop acc' rest
        | inr e => inr e
        end
      else import_blocks p own n k stop acc rest
  end.

(* the node's block at height h is the block the handler has synced at that height (SyncedBlock(h) against
   the node's header of height h); false when either is missing *)
Definition node_on_synced (n : node) (ws : wstate) (h : Z) : bool :=
  match node_at n h, synced_at ws h with
  | Some nb, Some bid => (bid =? b_id nb)%N
  | _, _ => false
  end.

(* asyncImport: ONE commit covering the heights (cursor, min(cursor + B, best)] where best is the
   handler's tip; hand-over (status ready) when that reaches best.  [B] is the batch size (1000 in
   the code).  The node [n] is read as it is NOW: it may be ahead of, or on another branch than,
   the handler's synced chain.  A batch that meets the spend of a coin it does not have
   (ErrUnexpectedCreditNotFound) made the worker drop the task as found; repaired, it is retried.
   As found, whatever was read is committed; repaired (f_import_tipcheck), the batch is refused
   (ErrImportingContinuable: retried) unless the node's block at the batch's upper height is the
   handler's synced block of that height, i.e. unless the blocks read are blocks of the handler's chain. *)
Definition import_batch (fx : fixes) (p : params) (B : Z) (n : node) (st : xstate) (w : N) : xstate * iout :=
  match status_of st w with
  | Some (WImporting k) =>
      if memN w (x_dead st) then (st, IOk)
      else
        let best := fst (tip (x_w st)) in
        let stop := Z.min (k + B) best in
        match import_blocks p (own_w st w) n k stop (credits (x_w st), x_brecs st) n with
        | inr IAbandon => if f_import_retry fx then (st, IRetry) else (with_dead st (x_dead st ++ [w]), IAbandon)
        | inr e => (st, e)
        | inl (cs, brs) =>
            if f_import_tipcheck fx && negb (node_on_synced n (x_w st) stop) then (st, IRetry) else
            (with_status (with_brecs (with_w st {| credits := cs; synced := synced (x_w st) |}) brs)
                         (setN (x_status st) w (if stop =? best then WReady else WImporting stop)), IOk)
        end
  | _ => (st, IOk)
  end.

(* ---------------------------------------------------------------- observations *)

Definition xreport (st : xstate) (w : N) : report := model_report (x_w st) w.

(* mined staking/binding history: one row per staking/binding credit, withdrawn = spent *)
Definition game_rows (st : xstate) (w : N) : list (N * N * Z * Z * bool * bool) :=
  map (fun c => (c_tx c, c_vout c, c_height c, c_amount c, negb (is_unspent c), is_binding c))
      (filter (fun c => (c_wallet c =? w)%N && is_game c) (credits (x_w st))).

(* an instance that starts with no wallet on a node whose chain is [n]: synced to it, empty ledger *)
Definition synced_chain (n : node) : list (Z * N) := rev (map (fun b => (b_height b, b_id b)) n).
Definition xinit (n : node) : xstate :=
  {| x_w := {| credits := []; synced := synced_chain n |}; x_keys := []; x_pass := []; x_status := [];
     x_brecs := []; x_balrow := []; x_ugame := []; x_dead := []; x_p1 := [] |}.
