(* Ledger/FaultGen.v — C18, the uniform fault model.  Definitions only (proofs: FaultGenProofs.v).

   Every write operation of the wallet has the shape

       err := mwdb.Update(db, func(tx) error { ... numbered database calls, computation,
                                               possibly updates of in-memory state ... })
       if err != nil { repair the in-memory state (possibly reading the store); return err }
       update the in-memory state; return the result

   (db.go Update: BeginTx, the closure, Rollback on error, Commit).  The store is committed
   entirely or not at all (LevelDB batch atomicity, environment).  This file describes such an
   operation as a PROGRAM over three kinds of state:
     St the store (the committed one, and the working copy of the open transaction),
     Vm the in-memory (volatile) state,
     X  what a database call answers,
   with the numbered calls as explicit nodes, so that "database call number k fails" is a position
   in the program and not a case distinction made by hand per operation. *)
From Coq Require Import List Bool Arith.
Import ListNotations.

Section Generic.
Variables St Vm X R E : Type.
Variable efault : E.              (* the error an injected storage fault makes the failing call return *)

(* the closure handed to mwdb.Update (with the reads done just before it) *)
Inductive prog : Type :=
| Ret (r : R)                                   (* the closure returns nil; r is what the caller gets *)
| Raise (e : E)                                 (* the closure returns an error of its own *)
| Db (act : St -> E + (St * X))                   (* a NUMBERED database call (get / put / delete / iterator /
                                                   bucket ...) with the computation around it: on the working
                                                   copy it fails for a reason of its own (inl) or changes the
                                                   working copy and answers; *)
     (k : X -> prog)                            (* what follows, given the answer; *)
     (h : prog)                                 (* what the code does when THIS call returns the injected error
                                                   ([Raise efault] when the error is returned to the caller) *)
| Mem (w : Vm -> Vm) (k : prog)                   (* an update of the in-memory state inside the closure *)
| Look (k : Vm -> prog).                         (* reading the in-memory state *)

Definition predo (f : option nat) : option nat :=
  match f with Some (S j) => Some j | _ => f end.

(* the closure run on working copy t and memory m; f = Some j: the (j+1)-th numbered call from here
   returns the injected error, None: no fault.  Result: what the closure returned (with the working
   copy), the memory, and the fault counter that is left (None once the fault has struck) *)
Fixpoint exec (p : prog) (f : option nat) (t : St) (m : Vm) : (E + (St * R)) * Vm * option nat :=
  match p with
  | Ret r => (inr (t, r), m, f)
  | Raise e => (inl e, m, f)
  | Db act k h =>
      match f with
      | Some O => exec h None t m
      | _ => match act t with
             | inl e => (inl e, m, predo f)
             | inr (t', x) => exec (k x) (predo f) t' m
             end
      end
  | Mem w k => exec k f t (w m)
  | Look k => exec (k m) f t m
  end.

(* the numbered calls the closure makes when nothing fails *)
Fixpoint calls (p : prog) (t : St) (m : Vm) : nat :=
  match p with
  | Ret _ | Raise _ => O
  | Db act k _ => Datatypes.S (match act t with inl _ => O | inr (t', x) => calls (k x) t' m end)
  | Mem w k => calls k t (w m)
  | Look k => calls (k m) t m
  end.

(* every injected error is returned to the caller (no failed call is taken for an answer) *)
Inductive propagates : prog -> Prop :=
| PRet : forall r, propagates (Ret r)
| PRaise : forall e, propagates (Raise e)
| PDb : forall act k, (forall x, propagates (k x)) -> propagates (Db act k (Raise efault))
| PMem : forall w k, propagates k -> propagates (Mem w k)
| PLook : forall k, (forall m, propagates (k m)) -> propagates (Look k).

(* the closure does not touch the in-memory state: updates happen after the commit only *)
Inductive clean : prog -> Prop :=
| CRet : forall r, clean (Ret r)
| CRaise : forall e, clean (Raise e)
| CDb : forall act k h, (forall x, clean (k x)) -> clean h -> clean (Db act k h)
| CLook : forall k, (forall m, clean (k m)) -> clean (Look k).

(* every in-memory update the closure can make is one of the functions Q *)
Inductive writes (Q : (Vm -> Vm) -> Prop) : prog -> Prop :=
| WRet : forall r, writes Q (Ret r)
| WRaise : forall e, writes Q (Raise e)
| WDb : forall act k h, (forall x, writes Q (k x)) -> writes Q h -> writes Q (Db act k h)
| WMem : forall w k, Q w -> writes Q k -> writes Q (Mem w k)
| WLook : forall k, (forall m, writes Q (k m)) -> writes Q (Look k).

(* ---------------------------------------------------------------- operations *)

Record oper := {
  body : prog;
  post : R -> Vm -> Vm;             (* in-memory updates after a successful commit *)
  undo : bool -> St -> Vm -> Vm      (* the repair after a failure, given the committed store; the flag says
                                     that the repair's own read of the store fails as well *)
}.

(* the faults of one attempt: database call number k of the attempt fails (0 = BeginTx, 1.. = the
   calls of the closure, the one after the last = Commit; a k beyond that: nothing fails); u: the
   read of the repair that follows fails too *)
Inductive fault := NoFault | Fault (k : nat) (u : bool).

Definition fundo (f : fault) : bool := match f with NoFault => false | Fault _ u => u end.

Definition attempt (o : oper) (f : fault) (s : St) (m : Vm) : St * Vm * (E + R) :=
  match f with
  | Fault O u => (s, undo o u s m, inl efault)
  | _ =>
      let '(out, m1, lf) := exec (body o) (match f with NoFault => None | Fault k _ => Some (Nat.pred k) end) s m in
      match out with
      | inl e => (s, undo o (fundo f) s m1, inl e)
      | inr (t, r) =>
          match lf with
          | Some O => (s, undo o (fundo f) s m1, inl efault)        (* Commit fails *)
          | _ => (t, post o r m1, inr r)
          end
      end
  end.

(* the number of numbered calls of the attempt when nothing fails *)
Definition ncalls (o : oper) (s : St) (m : Vm) : nat :=
  1 + calls (body o) s m + match fst (fst (exec (body o) None s m)) with inl _ => 0 | inr _ => 1 end.

(* the operation is repeated until it succeeds: the attempts with the faults [fs], one after the
   other as long as they fail, then an attempt without fault *)
Fixpoint retry (o : oper) (fs : list fault) (s : St) (m : Vm) : St * Vm * (E + R) :=
  match fs with
  | [] => attempt o NoFault s m
  | f :: rest =>
      let '(s1, m1, res) := attempt o f s m in
      match res with
      | inr r => (s1, m1, inr r)
      | inl _ => retry o rest s1 m1
      end
  end.

(* the failed attempt leaves the in-memory state as it was: the obligation on an operation whose
   closure updates memory ([clean] operations with an idle repair meet it for free, FaultGenProofs) *)
Definition undone (o : oper) (s : St) (m : Vm) (f : fault) : Prop :=
  forall s' m' e, attempt o f s m = (s', m', inl e) -> m' = m.

End Generic.

Arguments Ret {St Vm X R E} r.
Arguments Raise {St Vm X R E} e.
Arguments Db {St Vm X R E} act k h.
Arguments Mem {St Vm X R E} w k.
Arguments Look {St Vm X R E} k.
Arguments exec {St Vm X R E} p f t m.
Arguments calls {St Vm X R E} p t m.
Arguments propagates {St Vm X R E} efault p.
Arguments clean {St Vm X R E} p.
Arguments writes {St Vm X R E} Q p.
Arguments body {St Vm X R E} o.
Arguments post {St Vm X R E} o.
Arguments undo {St Vm X R E} o.
Arguments Build_oper {St Vm X R E} body post undo.
Arguments attempt {St Vm X R E} efault o f s m.
Arguments ncalls {St Vm X R E} o s m.
Arguments retry {St Vm X R E} efault o fs s m.
Arguments undone {St Vm X R E} efault o s m f.

(* ---------------------------------------------------------------- the usual calls *)

Section Calls.
Variables St Vm X R E : Type.
Variable efault : E.

(* a call whose error is returned to the caller *)
Definition Call (act : St -> E + (St * X)) (k : X -> prog St Vm X R E) : prog St Vm X R E :=
  Db act k (Raise efault).
(* a read: the working copy stays as it is *)
Definition Read (q : St -> E + X) (k : X -> prog St Vm X R E) : prog St Vm X R E :=
  Call (fun t => match q t with inl e => inl e | inr x => inr (t, x) end) k.
(* a write that answers nothing *)
Definition Write (w : St -> E + St) (x0 : X) (k : prog St Vm X R E) : prog St Vm X R E :=
  Call (fun t => match w t with inl e => inl e | inr t' => inr (t', x0) end) (fun _ => k).

End Calls.

Arguments Call {St Vm X R E} efault act k.
Arguments Read {St Vm X R E} efault q k.
Arguments Write {St Vm X R E} efault w x0 k.

(* ---------------------------------------------------------------- histories of operations of any kind *)

(* steps of the environment (the node's chain moves, ...) and operations — each of its own answer,
   result and error type — each with the faults of its failed attempts *)
Inductive hev (St Vm : Type) : Type :=
| HEnv (g : St -> Vm -> St * Vm)
| HOp (X R E : Type) (efault : E) (o : oper St Vm X R E) (fs : list fault).
Arguments HEnv {St Vm} g.
Arguments HOp {St Vm} X R E efault o fs.

Definition hstep {St Vm : Type} (sm : St * Vm) (e : hev St Vm) : St * Vm :=
  match e with
  | HEnv g => g (fst sm) (snd sm)
  | HOp X R E efault o fs => fst (retry efault o fs (fst sm) (snd sm))
  end.

Definition hrun {St Vm : Type} (h : list (hev St Vm)) (s : St) (m : Vm) : St * Vm := fold_left hstep h (s, m).

Definition strip {St Vm : Type} (e : hev St Vm) : hev St Vm :=
  match e with HOp X R E efault o _ => HOp X R E efault o [] | _ => e end.
