(* Ledger/Proofs5.v — C01, part 5: a boolean checker for [wf_history] with its soundness proof,
   used for the non-vacuity examples (closed histories are checked by computation). *)
From Coq Require Import List ZArith NArith Bool Lia.
Import ListNotations.
Open Scope Z_scope.
Require Import MW.Ledger.Model MW.Ledger.Spec MW.Ledger.Run MW.Ledger.WF MW.Ledger.Proofs.

Fixpoint list_eqb {A : Type} (eqb : A -> A -> bool) (l1 l2 : list A) : bool :=
  match l1, l2 with
  | [], [] => true
  | x :: r1, y :: r2 => eqb x y && list_eqb eqb r1 r2
  | _, _ => false
  end.

Lemma list_eqb_sound : forall (A : Type) (eqb : A -> A -> bool),
  (forall x y, eqb x y = true -> x = y) -> forall l1 l2, list_eqb eqb l1 l2 = true -> l1 = l2.
Proof.
  intros A eqb Heq. induction l1 as [|x r1 IH]; intros [|y r2] H; try discriminate.
  - reflexivity.
  - cbn [list_eqb] in H. apply andb_true_iff in H. destruct H as [H1 H2].
    rewrite (Heq _ _ H1), (IH _ H2). reflexivity.
Qed.

Definition oclass_eqb (a b : oclass) : bool :=
  match a, b with
  | CStd, CStd => true
  | CStaking f1, CStaking f2 => f1 =? f2
  | CBindingOld, CBindingOld => true
  | CBindingNew, CBindingNew => true
  | CUnsupported, CUnsupported => true
  | _, _ => false
  end.

Lemma oclass_eqb_sound : forall a b, oclass_eqb a b = true -> a = b.
Proof.
  intros [|f1| | |] [|f2| | |] H; try discriminate; try reflexivity.
  cbn in H. apply Z.eqb_eq in H. subst. reflexivity.
Qed.

Definition txout_eqb (a b : txout) : bool :=
  (o_sh a =? o_sh b)%N && (o_val a =? o_val b) && oclass_eqb (o_class a) (o_class b).

Lemma txout_eqb_sound : forall a b, txout_eqb a b = true -> a = b.
Proof.
  intros [s1 v1 c1] [s2 v2 c2] H. unfold txout_eqb in H. cbn [o_sh o_val o_class] in H.
  apply andb_true_iff in H. destruct H as [H H3]. apply andb_true_iff in H. destruct H as [H1 H2].
  apply N.eqb_eq in H1. apply Z.eqb_eq in H2. apply oclass_eqb_sound in H3. subst. reflexivity.
Qed.

Definition tx_eqb (a b : tx) : bool :=
  (t_id a =? t_id b)%N && Bool.eqb (t_cb a) (t_cb b) && list_eqb op_eqb (t_ins a) (t_ins b)
  && list_eqb txout_eqb (t_outs a) (t_outs b).

Lemma tx_eqb_sound : forall a b, tx_eqb a b = true -> a = b.
Proof.
  intros [i1 c1 n1 o1] [i2 c2 n2 o2] H. unfold tx_eqb in H. cbn [t_id t_cb t_ins t_outs] in H.
  apply andb_true_iff in H. destruct H as [H H4]. apply andb_true_iff in H. destruct H as [H H3].
  apply andb_true_iff in H. destruct H as [H1 H2].
  apply N.eqb_eq in H1. apply Bool.eqb_prop in H2.
  apply (list_eqb_sound _ op_eqb (fun x y Hxy => proj1 (op_eqb_eq x y) Hxy)) in H3.
  apply (list_eqb_sound _ txout_eqb txout_eqb_sound) in H4. subst. reflexivity.
Qed.

Definition block_eqb (a b : block) : bool :=
  (b_id a =? b_id b)%N && (b_prev a =? b_prev b)%N && (b_height a =? b_height b)
  && list_eqb tx_eqb (b_txs a) (b_txs b).

Lemma block_eqb_sound : forall a b, block_eqb a b = true -> a = b.
Proof.
  intros [i1 p1 h1 t1] [i2 p2 h2 t2] H. unfold block_eqb in H. cbn [b_id b_prev b_height b_txs] in H.
  apply andb_true_iff in H. destruct H as [H H4]. apply andb_true_iff in H. destruct H as [H H3].
  apply andb_true_iff in H. destruct H as [H1 H2].
  apply N.eqb_eq in H1. apply N.eqb_eq in H2. apply Z.eqb_eq in H3.
  apply (list_eqb_sound _ tx_eqb tx_eqb_sound) in H4. subst. reflexivity.
Qed.

(* ---------------------------------------------------------------- wf_chain *)

Fixpoint nodup_b {A : Type} (eqb : A -> A -> bool) (l : list A) : bool :=
  match l with
  | [] => true
  | x :: r => negb (existsb (eqb x) r) && nodup_b eqb r
  end.

Lemma nodup_b_sound : forall (A : Type) (eqb : A -> A -> bool),
  (forall x, eqb x x = true) -> forall l, nodup_b eqb l = true -> NoDup l.
Proof.
  intros A eqb Hrefl. induction l as [|x r IH]; intros H.
  - constructor.
  - cbn [nodup_b] in H. apply andb_true_iff in H. destruct H as [H1 H2]. constructor.
    + intros Hin. apply negb_true_iff in H1.
      assert (Ht : existsb (eqb x) r = true). { apply existsb_exists. exists x. split; [assumption|apply Hrefl]. }
      congruence.
    + apply IH. assumption.
Qed.

Fixpoint linked_b (prev : N) (h : Z) (c : list block) : bool :=
  match c with
  | [] => true
  | b :: rest => (b_prev b =? prev)%N && (b_height b =? h) && linked_b (b_id b) (h + 1) rest
  end.

Lemma linked_b_sound : forall c prev h, linked_b prev h c = true -> linked prev h c.
Proof.
  induction c as [|b rest IH]; intros prev h H.
  - exact I.
  - cbn [linked_b] in H. apply andb_true_iff in H. destruct H as [H H3].
    apply andb_true_iff in H. destruct H as [H1 H2]. apply N.eqb_eq in H1. apply Z.eqb_eq in H2.
    cbn [linked]. split; [assumption|split; [assumption|apply IH; assumption]].
Qed.

Definition created_before_b (seen : list tx) (op : N * N) : bool :=
  existsb (fun t => (t_id t =? fst op)%N && (N.to_nat (snd op) <? length (t_outs t))%nat) seen.

Fixpoint inputs_ok_b (seen : list tx) (txs : list tx) : bool :=
  match txs with
  | [] => true
  | t :: rest =>
      (if t_cb t then true else forallb (created_before_b seen) (t_ins t)) && inputs_ok_b (seen ++ [t]) rest
  end.

Lemma inputs_ok_b_sound : forall txs seen, inputs_ok_b seen txs = true -> inputs_ok seen txs.
Proof.
  induction txs as [|t rest IH]; intros seen H.
  - exact I.
  - cbn [inputs_ok_b] in H. apply andb_true_iff in H. destruct H as [H1 H2].
    cbn [inputs_ok]. split; [|apply IH; assumption].
    intros Hcb op Hop. rewrite Hcb in H1. rewrite forallb_forall in H1. specialize (H1 op Hop).
    unfold created_before_b in H1. apply existsb_exists in H1. destruct H1 as [t' [Hin Ht']].
    apply andb_true_iff in Ht'. destruct Ht' as [Hid Hlen]. apply N.eqb_eq in Hid. apply Nat.ltb_lt in Hlen.
    exists t'. split; [assumption|split; assumption].
Qed.

Definition wf_chain_b (c : list block) : bool :=
  match c with
  | [] => false
  | g :: rest =>
      (b_height g =? 0) && (match b_txs g with [] => true | _ => false end) && linked_b (b_id g) 1 rest
  end
  && nodup_b N.eqb (map b_id c)
  && nodup_b N.eqb (map t_id (chain_txs c))
  && inputs_ok_b [] (chain_txs c)
  && nodup_b op_eqb (all_inputs c).

Lemma wf_chain_b_sound : forall c, wf_chain_b c = true -> wf_chain c.
Proof.
  intros c H. unfold wf_chain_b in H.
  apply andb_true_iff in H. destruct H as [H H5]. apply andb_true_iff in H. destruct H as [H H4].
  apply andb_true_iff in H. destruct H as [H H3]. apply andb_true_iff in H. destruct H as [H1 H2].
  constructor.
  - destruct c as [|g rest]; [discriminate|].
    apply andb_true_iff in H1. destruct H1 as [H1 Hl]. apply andb_true_iff in H1. destruct H1 as [Hh Htx].
    exists g, rest. split; [reflexivity|split; [apply Z.eqb_eq; assumption|split]].
    + destruct (b_txs g); [reflexivity|discriminate].
    + apply linked_b_sound. assumption.
  - apply (nodup_b_sound _ N.eqb N.eqb_refl). assumption.
  - apply (nodup_b_sound _ N.eqb N.eqb_refl). assumption.
  - apply inputs_ok_b_sound. assumption.
  - apply (nodup_b_sound _ op_eqb op_eqb_refl). assumption.
Qed.

(* ---------------------------------------------------------------- wf_history *)

Definition is_owner (e : event) : bool := match e with EvOwner _ _ => true | _ => false end.

Fixpoint take_owners (h : list event) : list event :=
  match h with
  | e :: r => if is_owner e then e :: take_owners r else []
  | [] => []
  end.

Fixpoint drop_owners (h : list event) : list event :=
  match h with
  | e :: r => if is_owner e then drop_owners r else h
  | [] => []
  end.

Lemma take_drop_owners : forall h, h = take_owners h ++ drop_owners h.
Proof.
  induction h as [|e r IH]; [reflexivity|]. cbn [take_owners drop_owners].
  destruct (is_owner e); [cbn [app]; f_equal; assumption|reflexivity].
Qed.

Lemma take_owners_all : forall h e, In e (take_owners h) -> exists sh w, e = EvOwner sh w.
Proof.
  induction h as [|x r IH]; intros e H; [destruct H|].
  cbn [take_owners] in H. destruct x as [sh w|b| |b|w]; cbn [is_owner] in H; try (destruct H; fail).
  destruct H as [H|H]; [subst e; exists sh, w; reflexivity|apply IH; assumption].
Qed.

Definition owners_first_b (h : list event) : bool := forallb (fun e => negb (is_owner e)) (drop_owners h).

Lemma owners_first_b_sound : forall h, owners_first_b h = true -> owners_first h.
Proof.
  intros h H. exists (take_owners h), (drop_owners h). split; [apply take_drop_owners|split].
  - apply take_owners_all.
  - intros e He sh w Heq. unfold owners_first_b in H. rewrite forallb_forall in H.
    specialize (H e He). subst e. discriminate.
Qed.

Definition ids_b (l : list block) : bool :=
  forallb (fun b1 => forallb (fun b2 => implb (b_id b1 =? b_id b2)%N (block_eqb b1 b2)) l) l.

Lemma ids_b_sound : forall l, ids_b l = true ->
  forall b1 b2, In b1 l -> In b2 l -> b_id b1 = b_id b2 -> b1 = b2.
Proof.
  intros l H b1 b2 H1 H2 Hid. unfold ids_b in H. rewrite forallb_forall in H.
  specialize (H b1 H1). rewrite forallb_forall in H. specialize (H b2 H2).
  apply N.eqb_eq in Hid. rewrite Hid in H. cbn [implb] in H. apply block_eqb_sound. assumption.
Qed.

Definition announced_b (h : list event) : bool :=
  forallb (fun e => match e with
                    | EvProcess b => existsb (fun e' => match e' with EvAttach b' => block_eqb b b' | _ => false end) h
                    | _ => true
                    end) h.

Lemma announced_b_sound : forall h, announced_b h = true -> forall b, In (EvProcess b) h -> In (EvAttach b) h.
Proof.
  intros h H b Hb. unfold announced_b in H. rewrite forallb_forall in H. specialize (H _ Hb). cbv beta iota in H.
  apply existsb_exists in H. destruct H as [e' [He' Heq]]. destruct e' as [sh w|b'| |b'|w]; try discriminate.
  apply block_eqb_sound in Heq. subst b'. assumption.
Qed.

Definition wf_history_b (p : params) (a1fix : bool) (g : block) (h : list event) : bool :=
  forallb (fun s => wf_chain_b (s_node s)) (sims p a1fix (init_sim g) h)
  && owners_first_b h && ids_b (g :: blocks_of_history h) && announced_b h.

Theorem wf_history_b_sound : forall p a g h, wf_history_b p a g h = true -> wf_history p a g h.
Proof.
  intros p a g h H. unfold wf_history_b in H.
  apply andb_true_iff in H. destruct H as [H H4]. apply andb_true_iff in H. destruct H as [H H3].
  apply andb_true_iff in H. destruct H as [H1 H2]. constructor.
  - intros s Hs. rewrite forallb_forall in H1. apply wf_chain_b_sound. apply (H1 s Hs).
  - apply owners_first_b_sound. assumption.
  - apply ids_b_sound. assumption.
  - apply announced_b_sound. assumption.
Qed.
