(* Ledger/RemoveProofs2.v — C08, part 2: tools for the history theorem of wallet removal.
   A store that also holds credits of wallets that are not ready ("garbage": the credits a removal
   has not deleted yet) behaves, for the ready wallets, like the store without them:
   - updateMinedBalance / AddCredits / AddRelevantTx commute with dropping the garbage,
   - filterBlock computes the same relevant records whatever the garbage,
   - the ledger of a chain for a smaller owner function is the ledger filtered,
   - a report depends on the owner function only through the wallet reported. *)
From Coq Require Import List ZArith NArith Bool Lia.
Import ListNotations.
Open Scope Z_scope.
Require Import MW.Ledger.Model MW.Ledger.Spec MW.Ledger.Run MW.Ledger.WF MW.Ledger.Import MW.Ledger.Remove.
Require Import MW.Ledger.Proofs MW.Ledger.Proofs2 MW.Ledger.Proofs3 MW.Ledger.Proofs4 MW.Ledger.Proofs6.
Require Import MW.Ledger.RemoveProofs.

(* ---------------------------------------------------------------- results *)

Definition res_map {A B : Type} (f : A -> B) (r : res A) : res B :=
  match r with Ok a => Ok (f a) | Err e => Err e end.

Lemma res_map_ok : forall (A B : Type) (f : A -> B) r b, res_map f r = Ok b -> exists a, r = Ok a /\ f a = b.
Proof. intros A B f [a|e] b H; cbn in H; [inversion H; exists a; split; reflexivity|discriminate]. Qed.

(* ---------------------------------------------------------------- dropping the garbage *)

Section Keep.
Variable keepw : N -> bool.
Definition keepc (c : credit) : bool := keepw (c_wallet c).
Definition kept (cs : list credit) : list credit := filter keepc cs.
Definition junk (cs : list credit) : list credit := filter (fun c => negb (keepc c)) cs.

Lemma keepc_set_spent : forall c s, keepc (set_spent c s) = keepc c.
Proof. reflexivity. Qed.

Lemma kept_app : forall a b, kept (a ++ b) = kept a ++ kept b.
Proof. intros. apply filter_app. Qed.

Lemma junk_app : forall a b, junk (a ++ b) = junk a ++ junk b.
Proof. intros. apply filter_app. Qed.

Lemma spend_credit_kept : forall cs w op by_,
  keepw w = true ->
  spend_credit (kept cs) w op by_ = option_map kept (spend_credit cs w op by_).
Proof.
  intros cs w op by_ Hw. induction cs as [|c r IH]; [reflexivity|].
  unfold kept in *. cbn [filter spend_credit].
  destruct (keepc c) eqn:Hk.
  - cbn [spend_credit].
    destruct (op_eqb (credit_op c) op && (c_wallet c =? w)%N && is_unspent c) eqn:Ht.
    + cbn [option_map filter]. rewrite keepc_set_spent, Hk. reflexivity.
    + rewrite IH. destruct (spend_credit r w op by_) as [r'|]; [|reflexivity].
      cbn [option_map filter]. rewrite Hk. reflexivity.
  - assert (Ht : op_eqb (credit_op c) op && (c_wallet c =? w)%N && is_unspent c = false).
    { destruct (c_wallet c =? w)%N eqn:E.
      - apply N.eqb_eq in E. unfold keepc in Hk. rewrite E in Hk. congruence.
      - rewrite andb_false_r. reflexivity. }
    rewrite Ht. rewrite IH. destruct (spend_credit r w op by_) as [r'|]; [|reflexivity].
    cbn [option_map filter]. rewrite Hk. reflexivity.
Qed.

Lemma spend_credit_junk : forall cs w op by_ cs',
  keepw w = true -> spend_credit cs w op by_ = Some cs' -> junk cs' = junk cs.
Proof.
  intros cs w op by_. induction cs as [|c r IH]; intros cs' Hw H; [discriminate|].
  cbn [spend_credit] in H.
  destruct (op_eqb (credit_op c) op && (c_wallet c =? w)%N && is_unspent c) eqn:Ht.
  - inversion H. subst cs'. unfold junk. cbn [filter]. rewrite keepc_set_spent.
    apply andb_true_iff in Ht. destruct Ht as [Ht _]. apply andb_true_iff in Ht. destruct Ht as [_ Ht].
    apply N.eqb_eq in Ht. unfold keepc. rewrite Ht, Hw. reflexivity.
  - destruct (spend_credit r w op by_) as [r'|] eqn:Hr; [|discriminate]. inversion H. subst cs'.
    unfold junk in *. cbn [filter]. rewrite (IH r' Hw eq_refl). reflexivity.
Qed.

Lemma apply_ins_kept : forall t h ris cs,
  (forall ri, In ri ris -> keepw (ri_wallet ri) = true) ->
  apply_ins (kept cs) t h ris = res_map kept (apply_ins cs t h ris).
Proof.
  intros t h ris. induction ris as [|ri r IH]; intros cs Hk; [reflexivity|].
  cbn [apply_ins]. rewrite spend_credit_kept by (apply Hk; left; reflexivity).
  destruct (spend_credit cs (ri_wallet ri) (ri_prev ri) (t_id t, ri_index ri, h)) as [cs1|]; [|reflexivity].
  cbn [option_map]. apply IH. intros ri' Hri'. apply Hk. right. assumption.
Qed.

Lemma apply_ins_junk : forall t h ris cs cs',
  (forall ri, In ri ris -> keepw (ri_wallet ri) = true) ->
  apply_ins cs t h ris = Ok cs' -> junk cs' = junk cs.
Proof.
  intros t h ris. induction ris as [|ri r IH]; intros cs cs' Hk H.
  - inversion H. reflexivity.
  - cbn [apply_ins] in H.
    destruct (spend_credit cs (ri_wallet ri) (ri_prev ri) (t_id t, ri_index ri, h)) as [cs1|] eqn:Hs; [|discriminate].
    rewrite (IH cs1 cs'); [|intros ri' Hri'; apply Hk; right; assumption|assumption].
    apply (spend_credit_junk _ _ _ _ _ (Hk ri (or_introl eq_refl)) Hs).
Qed.

Lemma exists_credit_at_split : forall cs op h bid,
  exists_credit_at cs op h bid = exists_credit_at (kept cs) op h bid || exists_credit_at (junk cs) op h bid.
Proof.
  intros cs op h bid. unfold exists_credit_at, kept, junk. induction cs as [|c r IH]; [reflexivity|].
  cbn [existsb filter]. rewrite IH. destruct (keepc c); cbn [negb existsb].
  - rewrite orb_assoc. reflexivity.
  - set (x := op_eqb (credit_op c) op && (c_height c =? h) && (c_bid c =? bid)%N).
    set (a := existsb _ (filter keepc r)). set (b := existsb _ (filter _ r)).
    destruct x, a, b; reflexivity.
Qed.

(* AddCredits: the junk never collides with a credit that is being added *)
Lemma apply_outs_kept : forall p t h bid outs cs,
  (forall ro, In ro outs -> keepw (ro_wallet ro) = true) ->
  (forall ro, In ro outs -> exists_credit_at (junk cs) (t_id t, ro_index ro) h bid = false) ->
  apply_outs p (kept cs) t h bid outs = res_map kept (apply_outs p cs t h bid outs) /\
  (forall cs', apply_outs p cs t h bid outs = Ok cs' -> junk cs' = junk cs).
Proof.
  intros p t h bid outs. induction outs as [|ro r IH]; intros cs Hk Hj.
  - split; [reflexivity|]. intros cs' H. inversion H. reflexivity.
  - cbn [apply_outs]. rewrite (exists_credit_at_split cs). rewrite (Hj ro (or_introl eq_refl)). rewrite orb_false_r.
    destruct (exists_credit_at (kept cs) (t_id t, ro_index ro) h bid); [split; [reflexivity|intros; discriminate]|].
    set (c := {| c_tx := t_id t; c_vout := ro_index ro; c_height := h; c_bid := bid;
                 c_amount := o_val (ro_out ro); c_sh := o_sh (ro_out ro); c_wallet := ro_wallet ro;
                 c_class := o_class (ro_out ro); c_maturity := maturity_of p (t_cb t) (o_class (ro_out ro));
                 c_spent := None |}).
    assert (Hkc : keepc c = true). { unfold keepc. cbn. apply Hk. left. reflexivity. }
    assert (Hkept : kept (cs ++ [c]) = kept cs ++ [c]).
    { rewrite kept_app. unfold kept at 2. cbn [filter]. rewrite Hkc. reflexivity. }
    assert (Hjunk : junk (cs ++ [c]) = junk cs).
    { rewrite junk_app. unfold junk at 2. cbn [filter]. rewrite Hkc. cbn [negb]. apply app_nil_r. }
    destruct (IH (cs ++ [c])) as [IH1 IH2].
    + intros ro' Hro'. apply Hk. right. assumption.
    + intros ro' Hro'. rewrite Hjunk. apply Hj. right. assumption.
    + rewrite <- Hkept. split; [exact IH1|]. intros cs' H. rewrite (IH2 cs' H). exact Hjunk.
Qed.

Lemma apply_recs_kept : forall p h bid recs cs,
  (forall r ri, In r recs -> In ri (rr_ins r) -> keepw (ri_wallet ri) = true) ->
  (forall r ro, In r recs -> In ro (rr_outs r) -> keepw (ro_wallet ro) = true) ->
  (forall r ro, In r recs -> In ro (rr_outs r) ->
     exists_credit_at (junk cs) (t_id (rr_tx r), ro_index ro) h bid = false) ->
  apply_recs p (kept cs) h bid recs = res_map kept (apply_recs p cs h bid recs) /\
  (forall cs', apply_recs p cs h bid recs = Ok cs' -> junk cs' = junk cs).
Proof.
  intros p h bid recs. induction recs as [|r rest IH]; intros cs Hi Ho Hj.
  - split; [reflexivity|]. intros cs' H. inversion H. reflexivity.
  - cbn [apply_recs].
    rewrite apply_ins_kept by (intros ri Hri; apply (Hi r ri); [left; reflexivity|assumption]).
    destruct (apply_ins cs (rr_tx r) h (rr_ins r)) as [cs1|e] eqn:Hins; [|split; [reflexivity|intros; discriminate]].
    cbn [res_map].
    assert (Hj1 : junk cs1 = junk cs).
    { apply (apply_ins_junk _ _ _ _ _ (fun ri Hri => Hi r ri (or_introl eq_refl) Hri) Hins). }
    destruct (apply_outs_kept p (rr_tx r) h bid (rr_outs r) cs1) as [Ho1 Ho2].
    + intros ro Hro. apply (Ho r ro); [left; reflexivity|assumption].
    + intros ro Hro. rewrite Hj1. apply (Hj r ro); [left; reflexivity|assumption].
    + rewrite Ho1. destruct (apply_outs p cs1 (rr_tx r) h bid (rr_outs r)) as [cs2|e] eqn:Houts;
        [|split; [reflexivity|intros; discriminate]].
      cbn [res_map].
      assert (Hj2 : junk cs2 = junk cs). { rewrite (Ho2 cs2 eq_refl). exact Hj1. }
      destruct (IH cs2) as [IH1 IH2].
      * intros r' ri Hr' Hri. apply (Hi r' ri); [right; assumption|assumption].
      * intros r' ro Hr' Hro. apply (Ho r' ro); [right; assumption|assumption].
      * intros r' ro Hr' Hro. rewrite Hj2. apply (Hj r' ro); [right; assumption|assumption].
      * split; [exact IH1|]. intros cs' H. rewrite (IH2 cs' H). exact Hj2.
Qed.

End Keep.

(* ---------------------------------------------------------------- filterBlock with a larger view *)

Lemma exist_credit_filter : forall f cs h,
  exist_credit_from_tx (filter f cs) h = true -> exist_credit_from_tx cs h = true.
Proof.
  intros f cs h H. unfold exist_credit_from_tx in *. apply existsb_exists in H. destruct H as [c [Hc Hh]].
  apply filter_In in Hc. apply existsb_exists. exists c. tauto.
Qed.

(* [filter_block_txs_spec] of C01 with ANY view that contains the credits of the chain so far:
   more credits in the view only make ExistCreditFromTx answer "yes" more often, and a "yes" is
   followed by the look-up of the previous transaction on the node, which decides *)
Lemma filter_block_txs_view : forall p own lookup l0 all txs seen view,
  all = txs_of l0 ++ seen ++ txs -> wf_txs all ->
  (forall t, In t (txs_of l0) -> lookup (t_id t) = Some t) ->
  (forall h, exist_credit_from_tx (E p own l0) h = true -> exist_credit_from_tx view h = true) ->
  filter_block_txs own view lookup seen txs = Ok (filter rec_keep (map (rec_of own all) txs)).
Proof.
  intros p own lookup l0 all txs. induction txs as [|t rest IH]; intros seen view Hall Hwf Hlook Hview.
  - reflexivity.
  - cbn [filter_block_txs map filter].
    assert (Hall' : all = txs_of l0 ++ (seen ++ [t]) ++ rest).
    { rewrite Hall. rewrite <- (app_assoc seen). reflexivity. }
    rewrite (filter_tx_spec own view (seen ++ [t]) lookup all t).
    + rewrite (IH (seen ++ [t]) view Hall' Hwf Hlook Hview).
      destruct (rec_keep (rec_of own all t)); reflexivity.
    + intros Hcb. apply filter_ins_spec.
      * apply (wt_ids _ Hwf).
      * rewrite Hall'. apply incl_appr. apply incl_appl. apply incl_refl.
      * intros op Hop.
        assert (Hcr : created_before (txs_of l0 ++ seen) op).
        { pose proof (wt_inputs _ Hwf) as Hin. rewrite Hall in Hin. rewrite app_assoc in Hin.
          apply inputs_ok_app in Hin. destruct Hin as [_ Hin]. cbn [app inputs_ok] in Hin.
          destruct Hin as [Ht _]. apply Ht; assumption. }
        destruct Hcr as [pt [Hpt [Hid Hlen]]].
        assert (Hptall : In pt all).
        { rewrite Hall. rewrite app_assoc. apply in_or_app. left. assumption. }
        exists pt. split; [assumption|split; [assumption|split; [assumption|]]].
        apply in_app_or in Hpt. destruct Hpt as [Hpt|Hpt].
        -- right. split; [rewrite <- Hid; apply Hlook; assumption|].
           intros Hex. destruct (owned_out own all op) as [w|] eqn:Hown; [|reflexivity].
           exfalso.
           destruct (owned_coin_exists own l0 all op pt w (wt_ids _ Hwf) Hpt Hptall Hid Hown) as [k [Hk [Hop' _]]].
           assert (Htrue : exist_credit_from_tx (E p own l0) (fst op) = true).
           { unfold E. rewrite exist_credit_mkE. apply existsb_exists. exists k. split; [assumption|]. apply N.eqb_eq.
             rewrite <- Hop'. reflexivity. }
           apply Hview in Htrue. congruence.
        -- left. apply in_or_app. left. assumption.
Qed.

(* ---------------------------------------------------------------- relevant outputs and inputs *)

Lemma filter_outs_in : forall own outs i ro,
  In ro (filter_outs own outs i) ->
  exists j, ro_index ro = (i + N.of_nat j)%N /\ nth_error outs j = Some (ro_out ro) /\
            out_owner own (ro_out ro) = Some (ro_wallet ro).
Proof.
  intros own outs. induction outs as [|o rest IH]; intros i ro Hin; [destruct Hin|].
  rewrite filter_outs_cons in Hin.
  assert (Hrest : In ro (filter_outs own rest (i + 1)%N) ->
    exists j, ro_index ro = (i + N.of_nat j)%N /\ nth_error (o :: rest) j = Some (ro_out ro) /\
              out_owner own (ro_out ro) = Some (ro_wallet ro)).
  { intros H. destruct (IH _ _ H) as [j [H1 [H2 H3]]]. exists (S j). split; [lia|split; assumption]. }
  destruct (out_owner own o) as [w|] eqn:Ho; [|apply Hrest; assumption].
  destruct Hin as [Hro|Hin]; [|apply Hrest; assumption].
  subst ro. cbn. exists 0%nat. split; [lia|split; [reflexivity|assumption]].
Qed.

Lemma out_owner_some : forall own o w, out_owner own o = Some w -> own (o_sh o) = Some w /\ o_class o <> CUnsupported.
Proof.
  intros own o w H. unfold out_owner in H. destruct (o_class o); try discriminate; split; try assumption; discriminate.
Qed.

Lemma owned_out_some : forall own all op w, owned_out own all op = Some w ->
  exists t o, In t all /\ t_id t = fst op /\ nth_error (t_outs t) (N.to_nat (snd op)) = Some o /\
              own (o_sh o) = Some w /\ o_class o <> CUnsupported.
Proof.
  intros own all op w H. unfold owned_out in H.
  destruct (find_tx all (fst op)) as [t|] eqn:Hf; [|discriminate].
  apply find_tx_some in Hf. destruct Hf as [Hin Hid].
  destruct (nth_error (t_outs t) (N.to_nat (snd op))) as [o|] eqn:Hn; [|discriminate].
  exists t, o. split; [assumption|split; [assumption|split; [assumption|]]].
  apply out_owner_some. exact H.
Qed.

(* a coin knows its output *)
Lemma coins_of_outs_in_full : forall own t h bid outs i k,
  In k (coins_of_outs own t h bid outs i) ->
  exists j o, nth_error outs j = Some o /\ k_vout k = (i + N.of_nat j)%N /\
              out_owner own o = Some (k_wallet k) /\ k_sh k = o_sh o /\ k_class k = o_class o.
Proof.
  intros own t h bid outs. induction outs as [|o rest IH]; intros i k Hin; [destruct Hin|].
  rewrite coins_of_outs_cons in Hin.
  assert (Hrest : In k (coins_of_outs own t h bid rest (i + 1)%N) ->
    exists j o', nth_error (o :: rest) j = Some o' /\ k_vout k = (i + N.of_nat j)%N /\
                 out_owner own o' = Some (k_wallet k) /\ k_sh k = o_sh o' /\ k_class k = o_class o').
  { intros H. destruct (IH _ _ H) as [j [o' [H1 [H2 H3]]]]. exists (S j), o'. split; [exact H1|split; [lia|exact H3]]. }
  destruct (out_owner own o) as [w|] eqn:Ho; [|apply Hrest; assumption].
  destruct Hin as [Hk|Hin]; [|apply Hrest; assumption].
  subst k. cbn. exists 0%nat, o. split; [reflexivity|split; [lia|split; [assumption|split; reflexivity]]].
Qed.

(* a coin of a positioned list: its transaction, position and output *)
Lemma coins_l_in_full : forall own l k, In k (coins_l own l) ->
  exists x o, In x l /\ k_tx k = t_id (pt_tx x) /\ k_height k = pt_h x /\ k_bid k = pt_bid x /\
              nth_error (t_outs (pt_tx x)) (N.to_nat (k_vout k)) = Some o /\
              own (o_sh o) = Some (k_wallet k) /\ o_class o <> CUnsupported /\ k_sh k = o_sh o /\ k_class k = o_class o.
Proof.
  intros own l k Hk. apply coins_l_in in Hk. destruct Hk as [x [Hx Hk]]. unfold coins_pt in Hk.
  pose proof (coins_of_outs_in _ _ _ _ _ _ _ Hk) as [H1 [H2 [H3 _]]].
  destruct (coins_of_outs_in_full _ _ _ _ _ _ _ Hk) as [j [o [Hj [Hv [Ho [Hsh Hcl]]]]]].
  apply out_owner_some in Ho. destruct Ho as [Ho Hc].
  exists x, o. split; [assumption|split; [assumption|split; [assumption|split; [assumption|]]]].
  rewrite Hv, N.add_0_l, Nat2N.id. tauto.
Qed.

(* ---------------------------------------------------------------- one block on a store with garbage *)

Lemma rec_of_ins_wallet : forall own all t ri, In ri (rr_ins (rec_of own all t)) ->
  exists sh, own sh = Some (ri_wallet ri).
Proof.
  intros own all t ri H. unfold rec_of in H. cbn [rr_ins] in H. destruct (t_cb t); [destruct H|].
  apply rel_ins_of_in in H. destruct H as [_ H]. apply owned_out_some in H.
  destruct H as [t' [o [_ [_ [_ [Ho _]]]]]]. exists (o_sh o). assumption.
Qed.

Lemma rec_of_outs_wallet : forall own all t ro, In ro (rr_outs (rec_of own all t)) ->
  own (o_sh (ro_out ro)) = Some (ro_wallet ro).
Proof.
  intros own all t ro H. unfold rec_of in H. cbn [rr_outs] in H.
  apply filter_outs_in in H. destruct H as [j [_ [_ H]]]. apply out_owner_some in H. tauto.
Qed.

Lemma connect_kept : forall p own keepw cs lookup c b,
  (forall sh v, own sh = Some v -> keepw v = true) ->
  kept keepw cs = E p own (ptxs c) ->
  wf_txs (chain_txs (c ++ [b])) ->
  (forall t, In t (chain_txs c) -> lookup (t_id t) = Some t) ->
  (forall t ro, In t (b_txs b) -> In ro (filter_outs own (t_outs t) 0%N) ->
     exists_credit_at (junk keepw cs) (t_id t, ro_index ro) (b_height b) (b_id b) = false) ->
  let recs := filter rec_keep (map (rec_of own (chain_txs (c ++ [b]))) (b_txs b)) in
  filter_block_txs own cs lookup [] (b_txs b) = Ok recs /\
  exists cs', apply_recs p cs (b_height b) (b_id b) recs = Ok cs' /\
              kept keepw cs' = E p own (ptxs (c ++ [b])) /\ junk keepw cs' = junk keepw cs.
Proof.
  intros p own keepw cs lookup c b HK Hkept Hwf Hlook Hjunk recs.
  set (all := chain_txs (c ++ [b])) in *.
  assert (Hct : all = txs_of (ptxs c) ++ [] ++ b_txs b).
  { unfold all. rewrite chain_txs_app, txs_of_ptxs. cbn. rewrite app_nil_r. reflexivity. }
  split.
  - apply (filter_block_txs_view p own lookup (ptxs c) all (b_txs b) [] cs Hct Hwf).
    + rewrite txs_of_ptxs. assumption.
    + intros h Hex. rewrite <- Hkept in Hex. unfold kept in Hex. apply (exist_credit_filter _ _ _ Hex).
  - assert (Hrecs_in : forall r, In r recs -> exists t, In t (b_txs b) /\ r = rec_of own all t).
    { intros r Hr. unfold recs in Hr. apply filter_In in Hr. destruct Hr as [Hr _].
      apply in_map_iff in Hr. destruct Hr as [t [Hrt Ht]]. exists t. split; [assumption|symmetry; assumption]. }
    destruct (apply_recs_kept keepw p (b_height b) (b_id b) recs cs) as [Heq Hj].
    + intros r ri Hr Hri. destruct (Hrecs_in r Hr) as [t [Ht Hrt]]. subst r.
      destruct (rec_of_ins_wallet _ _ _ _ Hri) as [sh Hsh]. apply (HK sh). assumption.
    + intros r ro Hr Hro. destruct (Hrecs_in r Hr) as [t [Ht Hrt]]. subst r.
      apply (HK (o_sh (ro_out ro))). apply (rec_of_outs_wallet _ _ _ _ Hro).
    + intros r ro Hr Hro. destruct (Hrecs_in r Hr) as [t [Ht Hrt]]. subst r.
      change (rr_tx (rec_of own all t)) with t. apply (Hjunk t ro Ht). exact Hro.
    + rewrite Hkept in Heq. unfold recs in Heq at 1. rewrite apply_recs_filter in Heq.
      rewrite (apply_recs_spec p own (b_height b) (b_id b) all (b_txs b) (ptxs c)) in Heq.
      * symmetry in Heq. apply res_map_ok in Heq. destruct Heq as [cs' [Hcs' Hk']].
        exists cs'. split; [assumption|split; [|apply Hj; assumption]].
        rewrite Hk'. rewrite ptxs_app. cbn [ptxs flat_map]. rewrite app_nil_r. reflexivity.
      * rewrite Hct in Hwf. exact Hwf.
      * apply (wt_ids _ Hwf).
      * rewrite Hct. apply incl_refl.
Qed.

(* ---------------------------------------------------------------- a smaller owner function *)

(* the owner function without wallet w *)
Definition own_minus (own : owner_fn) (w : N) : owner_fn :=
  fun sh => match own sh with Some v => if (v =? w)%N then None else Some v | None => None end.

Lemma coins_of_outs_minus : forall own w t h bid outs i,
  coins_of_outs (own_minus own w) t h bid outs i =
  filter (fun k => negb (k_wallet k =? w)%N) (coins_of_outs own t h bid outs i).
Proof.
  intros own w t h bid outs. induction outs as [|o rest IH]; intros i; [reflexivity|].
  rewrite !coins_of_outs_cons. unfold out_owner, own_minus.
  destruct (o_class o); try (apply IH);
    (destruct (own (o_sh o)) as [v|]; [|apply IH]);
    (destruct (v =? w)%N eqn:E; cbn [filter k_wallet]; rewrite E; cbn [negb]; [apply IH|f_equal; apply IH]).
Qed.

Lemma coins_l_minus : forall own w l,
  coins_l (own_minus own w) l = filter (fun k => negb (k_wallet k =? w)%N) (coins_l own l).
Proof.
  intros own w l. induction l as [|x l IH]; [reflexivity|].
  change (coins_l (own_minus own w) (x :: l)) with (coins_pt (own_minus own w) x ++ coins_l (own_minus own w) l).
  change (coins_l own (x :: l)) with (coins_pt own x ++ coins_l own l).
  rewrite filter_app, IH. f_equal. apply coins_of_outs_minus.
Qed.

Lemma mkE_filter : forall p (g : N -> bool) coins f,
  filter (fun c => g (c_wallet c)) (mkE p coins f) = mkE p (filter (fun k => g (k_wallet k)) coins) f.
Proof.
  intros p g coins f. unfold mkE. induction coins as [|k r IH]; [reflexivity|].
  cbn [map filter]. change (c_wallet (mk_credit p k (f (coin_op k)))) with (k_wallet k).
  destruct (g (k_wallet k)); cbn [map]; rewrite IH; reflexivity.
Qed.

Lemma coins_l_ext_all : forall own1 own2 l, (forall sh, own1 sh = own2 sh) -> coins_l own1 l = coins_l own2 l.
Proof. intros own1 own2 l H. apply coins_l_ext. intros x o _ _. apply H. Qed.

(* ---------------------------------------------------------------- a report looks at one wallet *)

Lemma coins_of_outs_wallet_ext : forall own1 own2 v t h bid outs i,
  (forall sh, own1 sh = Some v <-> own2 sh = Some v) ->
  filter (fun k => (k_wallet k =? v)%N) (coins_of_outs own1 t h bid outs i) =
  filter (fun k => (k_wallet k =? v)%N) (coins_of_outs own2 t h bid outs i).
Proof.
  intros own1 own2 v t h bid outs i Hv. revert i. induction outs as [|o rest IH]; intros i; [reflexivity|].
  rewrite !coins_of_outs_cons. unfold out_owner.
  assert (Hgen : forall (cl : oclass) (a b : option N), (a = Some v <-> b = Some v) ->
    filter (fun k => (k_wallet k =? v)%N)
      match a with
      | Some w => {| k_tx := t_id t; k_vout := i; k_height := h; k_bid := bid; k_amount := o_val o;
                     k_sh := o_sh o; k_wallet := w; k_class := cl; k_cb := t_cb t |}
                  :: coins_of_outs own1 t h bid rest (i + 1)%N
      | None => coins_of_outs own1 t h bid rest (i + 1)%N
      end =
    filter (fun k => (k_wallet k =? v)%N)
      match b with
      | Some w => {| k_tx := t_id t; k_vout := i; k_height := h; k_bid := bid; k_amount := o_val o;
                     k_sh := o_sh o; k_wallet := w; k_class := cl; k_cb := t_cb t |}
                  :: coins_of_outs own2 t h bid rest (i + 1)%N
      | None => coins_of_outs own2 t h bid rest (i + 1)%N
      end).
  { intros cl a b Hab. destruct a as [wa|]; destruct b as [wb|]; cbn [filter k_wallet].
    - destruct (wa =? v)%N eqn:Ea; destruct (wb =? v)%N eqn:Eb.
      + apply N.eqb_eq in Ea, Eb. subst. f_equal. apply IH.
      + apply N.eqb_eq in Ea. subst wa. destruct Hab as [Hab _]. specialize (Hab eq_refl). inversion Hab. subst.
        rewrite N.eqb_refl in Eb. discriminate.
      + apply N.eqb_eq in Eb. subst wb. destruct Hab as [_ Hab]. specialize (Hab eq_refl). inversion Hab. subst.
        rewrite N.eqb_refl in Ea. discriminate.
      + apply IH.
    - destruct (wa =? v)%N eqn:Ea; [|apply IH].
      apply N.eqb_eq in Ea. subst wa. destruct Hab as [Hab _]. specialize (Hab eq_refl). discriminate.
    - destruct (wb =? v)%N eqn:Eb; [|apply IH].
      apply N.eqb_eq in Eb. subst wb. destruct Hab as [_ Hab]. specialize (Hab eq_refl). discriminate.
    - apply IH. }
  destruct (o_class o) eqn:Hcl; try (apply Hgen; apply Hv). apply IH.
Qed.

Lemma coins_of_chain_wallet_ext : forall own1 own2 v c,
  (forall sh, own1 sh = Some v <-> own2 sh = Some v) ->
  filter (fun k => (k_wallet k =? v)%N) (coins_of_chain own1 c) =
  filter (fun k => (k_wallet k =? v)%N) (coins_of_chain own2 c).
Proof.
  intros own1 own2 v c Hv. unfold coins_of_chain. induction c as [|b c IH]; [reflexivity|].
  cbn [flat_map]. rewrite !filter_app, IH. f_equal.
  unfold coins_of_block. induction (b_txs b) as [|t r IHt]; [reflexivity|].
  cbn [flat_map]. rewrite !filter_app, IHt. f_equal. apply coins_of_outs_wallet_ext. assumption.
Qed.

Lemma filter_andb : forall (A : Type) (f g : A -> bool) l,
  filter (fun x => f x && g x) l = filter g (filter f l).
Proof.
  intros A f g l. induction l as [|a r IH]; [reflexivity|].
  cbn [filter]. destruct (f a); cbn [andb filter]; [destruct (g a); rewrite IH; reflexivity|exact IH].
Qed.

Lemma utxo_of_chain_wallet_ext : forall own1 own2 v c,
  (forall sh, own1 sh = Some v <-> own2 sh = Some v) ->
  utxo_of_chain own1 c v = utxo_of_chain own2 c v.
Proof.
  intros own1 own2 v c Hv. unfold utxo_of_chain.
  rewrite (filter_andb _ (fun k => (k_wallet k =? v)%N) (fun k => negb (spent_in c (k_tx k, k_vout k)))).
  rewrite (filter_andb _ (fun k => (k_wallet k =? v)%N) (fun k => negb (spent_in c (k_tx k, k_vout k))) (coins_of_chain own2 c)).
  rewrite (coins_of_chain_wallet_ext own1 own2 v c Hv). reflexivity.
Qed.

Lemma spec_report_wallet_ext : forall p own1 own2 v c,
  (forall sh, own1 sh = Some v <-> own2 sh = Some v) ->
  spec_report p own1 c v = spec_report p own2 c v.
Proof.
  intros p own1 own2 v c Hv. unfold spec_report, balance_of_chain, spec_spendable, spec_wstaking, spec_wbinding.
  rewrite (utxo_of_chain_wallet_ext own1 own2 v c Hv). reflexivity.
Qed.
