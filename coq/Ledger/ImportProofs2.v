(* Ledger/ImportProofs2.v — C07, general form: the rescan of a restored wallet interleaved with a
   MOVING chain (blocks attached / detached on the node — the node may leave a branch and come back
   to it —, announcements processed by the handler — extensions and reorganisations, with the cursor
   pull-back — between rescan batches, batches that find the node on a chain the handler has not been
   told about yet: the repaired asyncImport refuses those, [f_import_tipcheck]).

   Part 1  list / chain utilities
   Part 2  algebra of [rollback_credits]; the repaired [xrollback] is [rollback_credits] when the block
           records cover the credits
   Part 3  what ANY committed batch does (on any node chain): it touches heights above the cursor only
   Part 4  a batch that reads a chain agreeing with the imported part is exact on that chain
   Part 5  connecting blocks (no ready wallet / the wallet ready)
   Part 6  the invariant [xinv] and its preservation by every event
   Part 7  histories, the theorems handed to Properties/C07.v *)
From Coq Require Import List ZArith NArith Bool Lia.
Import ListNotations.
Open Scope Z_scope.
Require Import MW.Ledger.Model MW.Ledger.Spec MW.Ledger.Run MW.Ledger.WF MW.Ledger.Import MW.Ledger.Remove.
Require Import MW.Ledger.Proofs MW.Ledger.Proofs2 MW.Ledger.Proofs3 MW.Ledger.Proofs4 MW.Ledger.Proofs5 MW.Ledger.Proofs6.
Require Import MW.Ledger.RemoveProofs MW.Ledger.ImportProofs.

(* ================================================================ Part 1: utilities *)

Lemma upto_app_l : forall m (c1 c2 : list block),
  (Z.to_nat m + 1 <= length c1)%nat -> upto m (c1 ++ c2) = upto m c1.
Proof.
  intros m c1 c2 H. unfold upto. rewrite firstn_app.
  replace (Z.to_nat m + 1 - length c1)%nat with O by lia. cbn [firstn]. apply app_nil_r.
Qed.

Lemma upto_exact : forall m (c1 c2 : list block),
  (Z.to_nat m + 1 = length c1)%nat -> upto m (c1 ++ c2) = c1.
Proof.
  intros m c1 c2 H. rewrite upto_app_l by lia. unfold upto. rewrite H. apply firstn_all.
Qed.

Lemma upto_incl : forall m (c : list block), incl (upto m c) c.
Proof. intros m c x Hx. unfold upto in Hx. rewrite <- (firstn_skipn (Z.to_nat m + 1) c). apply in_or_app. left. assumption. Qed.

Lemma upto_split : forall m (c : list block), c = upto m c ++ skipn (Z.to_nat m + 1) c.
Proof. intros. unfold upto. symmetry. apply firstn_skipn. Qed.

Lemma upto_length : forall m (c : list block), 0 <= m <= chain_height c ->
  length (upto m c) = (Z.to_nat m + 1)%nat.
Proof. intros m c H. unfold upto. apply firstn_length_le. unfold chain_height in H. lia. Qed.

Lemma upto_upto : forall a b (c : list block), a <= b -> upto a (upto b c) = upto a c.
Proof. intros a b c H. unfold upto. rewrite firstn_firstn. f_equal. lia. Qed.

Lemma chain_height_app1 : forall (c : list block) b, chain_height (c ++ [b]) = chain_height c + 1.
Proof. intros. unfold chain_height. rewrite app_length. cbn [length]. lia. Qed.

Lemma linked_nth : forall c pv h0 i x, linked pv h0 c -> nth_error c i = Some x -> b_height x = h0 + Z.of_nat i.
Proof.
  intros c pv h0 i x Hl Hn. apply nth_error_split in Hn. destruct Hn as [a [r [Hc Hlen]]]. subst c i.
  apply (linked_height _ _ _ _ _ Hl).
Qed.

Lemma linked_in_nth : forall c pv x, linked pv 0 c -> In x c -> nth_error c (Z.to_nat (b_height x)) = Some x.
Proof.
  intros c pv x Hl Hx. apply in_split in Hx. destruct Hx as [a [r Hc]]. subst c.
  rewrite (linked_height _ _ _ _ _ Hl). cbn. rewrite Nat2Z.id.
  rewrite nth_error_app2 by lia. rewrite Nat.sub_diag. reflexivity.
Qed.

Lemma linked_height_lt : forall c pv x, linked pv 0 c -> In x c -> 0 <= b_height x <= chain_height c.
Proof.
  intros c pv x Hl Hx. rewrite <- (app_nil_r c) in Hl. destruct (linked_heights_split _ _ _ Hl) as [H1 _].
  specialize (H1 x Hx). unfold chain_height.
  apply in_split in Hx. destruct Hx as [a [r Hc]]. subst c. rewrite app_nil_r in Hl.
  rewrite (linked_height _ _ _ _ _ Hl) in *. lia.
Qed.

Lemma in_upto : forall c pv x m, linked pv 0 c -> In x c -> b_height x <= m -> In x (upto m c).
Proof.
  intros c pv x m Hl Hx Hm. pose proof (linked_in_nth c pv x Hl Hx) as Hn.
  pose proof (linked_height_lt c pv x Hl Hx) as Hr.
  unfold upto. rewrite <- (firstn_skipn (Z.to_nat m + 1) c) in Hn.
  rewrite nth_error_app1 in Hn.
  - apply nth_error_In in Hn. assumption.
  - rewrite firstn_length.
    assert (Hlt : (Z.to_nat (b_height x) < length c)%nat).
    { unfold chain_height in Hr. lia. }
    lia.
Qed.

Lemma upto_heights : forall c pv x m, linked pv 0 c -> 0 <= m -> In x (upto m c) -> b_height x <= m.
Proof.
  intros c pv x m Hl Hm Hx. rewrite (upto_split m c) in Hl.
  destruct (linked_heights_split _ _ _ Hl) as [H1 _]. specialize (H1 x Hx).
  unfold upto in H1. rewrite firstn_length in H1. lia.
Qed.

Lemma skip_heights : forall c pv x m, linked pv 0 c -> 0 <= m <= chain_height c ->
  In x (skipn (Z.to_nat m + 1) c) -> m < b_height x.
Proof.
  intros c pv x m Hl Hm Hx. rewrite (upto_split m c) in Hl.
  destruct (linked_heights_split _ _ _ Hl) as [_ H2]. specialize (H2 x Hx).
  rewrite upto_length in H2 by assumption. lia.
Qed.

(* the block of a linked chain at a height: position = height *)
Lemma nth_upto : forall (c : list block) m i, (i <= Z.to_nat m)%nat -> nth_error (upto m c) i = nth_error c i.
Proof.
  intros c m i H. unfold upto. rewrite <- (firstn_skipn (Z.to_nat m + 1) c) at 2.
  destruct (Nat.lt_ge_cases i (length (firstn (Z.to_nat m + 1) c))) as [Hlt|Hge].
  - rewrite nth_error_app1 by assumption. reflexivity.
  - rewrite firstn_length in Hge.
    assert (Hc : (length c <= i)%nat) by lia.
    rewrite (proj2 (nth_error_None _ _)).
    + symmetry. apply nth_error_None. rewrite app_length, firstn_length, skipn_length. lia.
    + rewrite firstn_length. lia.
Qed.

Lemma wf_upto : forall c m, wf_chain c -> 0 <= m -> wf_chain (upto m c).
Proof.
  intros c m Hwf Hm. pose proof (wf_nonempty _ Hwf) as Hne.
  rewrite (upto_split m c) in Hwf. apply (wf_chain_prefix _ _ Hwf).
  unfold upto. destruct c; [contradiction|]. replace (Z.to_nat m + 1)%nat with (S (Z.to_nat m)) by lia.
  cbn [firstn]. discriminate.
Qed.

Lemma from_g_upto : forall g c m, from_g g c -> from_g g (upto m c).
Proof.
  intros g c m [c' Hc]. subst c. unfold upto. replace (Z.to_nat m + 1)%nat with (S (Z.to_nat m)) by lia.
  cbn [firstn]. eexists. reflexivity.
Qed.

(* ================================================================ Part 2: rollback_credits *)

Definition unsp (h : Z) (c : credit) : credit :=
  match c_spent c with
  | Some (_, _, sh) => if h <=? sh then set_spent c None else c
  | None => c
  end.

Lemma rollback_credits_unsp : forall cs h, rollback_credits cs h = map (unsp h) (filter (fun c => c_height c <? h) cs).
Proof. reflexivity. Qed.

Lemma set_spent_none_id : forall c, c_spent c = None -> set_spent c None = c.
Proof. intros [a b c d e f g h i j] H. cbn in H. subst j. reflexivity. Qed.

Lemma unsp_height : forall h c, c_height (unsp h c) = c_height c.
Proof.
  intros h c. unfold unsp. destruct (c_spent c) as [[[a b] sh]|]; [|reflexivity].
  destruct (h <=? sh); reflexivity.
Qed.

Lemma unsp_unsp : forall h1 h2 c, h1 <= h2 -> unsp h1 (unsp h2 c) = unsp h1 c.
Proof.
  intros h1 h2 c H. unfold unsp at 2 3. destruct (c_spent c) as [[[a b] sh]|] eqn:Hs.
  - destruct (h2 <=? sh) eqn:H2.
    + apply Z.leb_le in H2. assert (H1 : h1 <=? sh = true) by (apply Z.leb_le; lia). rewrite H1.
      unfold unsp. cbn [set_spent c_spent]. reflexivity.
    + unfold unsp. rewrite Hs. reflexivity.
  - unfold unsp. rewrite Hs. reflexivity.
Qed.

Lemma rollback_credits_twice : forall cs h1 h2, h1 <= h2 ->
  rollback_credits (rollback_credits cs h2) h1 = rollback_credits cs h1.
Proof.
  intros cs h1 h2 H. rewrite !rollback_credits_unsp. induction cs as [|c cs IH]; [reflexivity|].
  cbn [filter]. destruct (c_height c <? h2) eqn:E2.
  - cbn [map filter]. rewrite unsp_height. destruct (c_height c <? h1) eqn:E1.
    + cbn [map]. rewrite unsp_unsp by assumption. f_equal. exact IH.
    + exact IH.
  - assert (E1 : c_height c <? h1 = false). { apply Z.ltb_ge. apply Z.ltb_ge in E2. lia. }
    rewrite E1. exact IH.
Qed.

Lemma rollback_credits_app : forall a b h, rollback_credits (a ++ b) h = rollback_credits a h ++ rollback_credits b h.
Proof. intros. rewrite !rollback_credits_unsp. rewrite filter_app, map_app. reflexivity. Qed.

(* the ledger of the first t+1 blocks rolled back to height m *)
Lemma rollback_E_upto : forall p own c t m, wf_chain c -> 0 <= t <= chain_height c -> 0 <= m ->
  rollback_credits (E p own (ptxs (upto t c))) (m + 1) = E p own (ptxs (upto (Z.min t m) c)).
Proof.
  intros p own c t m Hwf Ht Hm. destruct (wf_linked _ Hwf) as [pv Hl].
  set (a := Z.min t m).
  assert (Hsplit : upto t c = upto a c ++ skipn (Z.to_nat a + 1) (upto t c)).
  { rewrite <- (upto_upto a t c) by (unfold a; lia). apply upto_split. }
  assert (Hlt : linked pv 0 (upto t c)).
  { rewrite (upto_split t c) in Hl. apply (linked_prefix _ _ _ _ Hl). }
  rewrite Hsplit at 1. rewrite ptxs_app. apply rollback_credits_E.
  - intros x Hx. destruct (ptxs_height _ _ Hx) as [b [Hb Hh]]. rewrite Hh.
    pose proof (upto_heights c pv b a Hl ltac:(unfold a; lia) Hb). unfold a in *. lia.
  - intros x Hx. destruct (ptxs_height _ _ Hx) as [b [Hb Hh]]. rewrite Hh.
    destruct (Z.le_gt_cases t m) as [Hle|Hgt].
    + exfalso. assert (Ha : a = t) by (unfold a; lia). rewrite Ha in Hb.
      rewrite skipn_all2 in Hb; [destruct Hb|]. rewrite upto_length by lia. lia.
    + assert (Ha : a = m) by (unfold a; lia). rewrite Ha in Hb.
      assert (Hch : chain_height (upto t c) = t). { unfold chain_height. rewrite upto_length by lia. lia. }
      pose proof (skip_heights (upto t c) pv b m Hlt ltac:(lia) Hb). lia.
Qed.

(* ---------------------------------------------------------------- block records that cover the credits *)

(* P h t: "transaction t is listed in the block record of height h" *)
Definition cov (P : Z -> N -> Prop) (c : credit) : Prop :=
  P (c_height c) (c_tx c) /\ forall t i sh, c_spent c = Some (t, i, sh) -> P sh t.

Definition lst (brs : list brec) : Z -> N -> Prop := fun h t => listed_at brs h t = true.

Definition covered (brs : list brec) (cs : list credit) : Prop := forall c, In c cs -> cov (lst brs) c.

Lemma rollback_by_records : forall brs cs h, covered brs cs ->
  map (fun c => if rb_unspend brs h c then set_spent c None else c) (filter (fun c => negb (rb_delete brs h c)) cs)
  = rollback_credits cs h.
Proof.
  intros brs cs h Hc. rewrite rollback_credits_unsp.
  assert (Hf : filter (fun c => negb (rb_delete brs h c)) cs = filter (fun c => c_height c <? h) cs).
  { apply filter_ext_in. intros c Hin. destruct (Hc c Hin) as [H1 _]. unfold lst in H1.
    unfold rb_delete, listed_from. rewrite H1, andb_true_r. rewrite Z.ltb_antisym. reflexivity. }
  rewrite Hf. apply map_ext_in. intros c Hin. apply filter_In in Hin. destruct Hin as [Hin _].
  destruct (Hc c Hin) as [_ H2]. unfold rb_unspend, unsp.
  destruct (c_spent c) as [[[t i] sh]|]; [|reflexivity].
  unfold listed_from. specialize (H2 t i sh eq_refl). unfold lst in H2. rewrite H2, andb_true_r. reflexivity.
Qed.

Lemma covered_rollback : forall brs cs h, covered brs cs ->
  covered (filter (fun br => br_h br <? h) brs) (rollback_credits cs h).
Proof.
  intros brs cs h Hc c Hin. rewrite rollback_credits_unsp in Hin. apply in_map_iff in Hin.
  destruct Hin as [c0 [Heq Hin]]. apply filter_In in Hin. destruct Hin as [Hin Hh].
  destruct (Hc c0 Hin) as [H1 H2].
  assert (Hkeep : forall hh t, hh < h -> lst brs hh t -> lst (filter (fun br => br_h br <? h) brs) hh t).
  { intros hh t Hlt Hl. unfold lst, listed_at in *. apply existsb_exists in Hl. destruct Hl as [br [Hbr Hb]].
    apply existsb_exists. exists br. split; [|assumption]. apply filter_In. split; [assumption|].
    apply andb_true_iff in Hb. destruct Hb as [Hb _]. apply Z.eqb_eq in Hb. apply Z.ltb_lt. lia. }
  apply Z.ltb_lt in Hh. subst c. split.
  - rewrite unsp_height. unfold unsp. destruct (c_spent c0) as [[[a b] sh]|]; [destruct (h <=? sh)|];
      cbn [set_spent c_tx]; apply Hkeep; assumption.
  - intros t i sh Hs. unfold unsp in Hs. destruct (c_spent c0) as [[[a b] sh0]|] eqn:Hs0.
    + destruct (h <=? sh0) eqn:Hle.
      * cbn [set_spent c_spent] in Hs. discriminate.
      * rewrite Hs0 in Hs. inversion Hs. subst a b sh0. apply Z.leb_gt in Hle.
        apply Hkeep; [assumption|]. apply (H2 t i sh eq_refl).
    + rewrite Hs0 in Hs. discriminate.
Qed.

(* ---------------------------------------------------------------- add_ids *)

Lemma memN_in : forall x l, memN x l = true <-> In x l.
Proof. exact memN_true. Qed.

Lemma lst_add_ids_mono : forall brs h bid ids hh t, lst brs hh t -> lst (add_ids brs h bid ids) hh t.
Proof.
  intros brs h bid ids hh t H. unfold add_ids. destruct ids as [|i0 ir]; [assumption|].
  unfold lst, listed_at in *. destruct (brec_at brs h) as [br0|].
  - apply existsb_exists in H. destruct H as [br [Hbr Hb]]. apply existsb_exists.
    apply andb_true_iff in Hb. destruct Hb as [Hh Hm].
    destruct (br_h br =? h) eqn:E.
    + exists {| br_h := br_h br; br_bid := br_bid br;
                br_txs := br_txs br ++ filter (fun i => negb (memN i (br_txs br))) (i0 :: ir) |}.
      split.
      * apply in_map_iff. exists br. rewrite E. split; [reflexivity|assumption].
      * cbn [br_h br_txs]. rewrite Hh. cbn [andb]. apply memN_in. apply in_or_app. left. apply memN_in. assumption.
    + exists br. split.
      * apply in_map_iff. exists br. rewrite E. split; [reflexivity|assumption].
      * rewrite Hh, Hm. reflexivity.
  - rewrite existsb_app. rewrite H. reflexivity.
Qed.

Lemma lst_add_ids_new : forall brs h bid ids t, In t ids -> lst (add_ids brs h bid ids) h t.
Proof.
  intros brs h bid ids t Hin. unfold add_ids. destruct ids as [|i0 ir]; [destruct Hin|].
  unfold lst, listed_at. destruct (brec_at brs h) as [br0|] eqn:Hb.
  - apply brec_at_in in Hb. destruct Hb as [Hbr Hh]. apply existsb_exists.
    exists {| br_h := br_h br0; br_bid := br_bid br0;
              br_txs := br_txs br0 ++ filter (fun i => negb (memN i (br_txs br0))) (i0 :: ir) |}.
    split.
    + apply in_map_iff. exists br0. rewrite Hh, Z.eqb_refl. split; [reflexivity|assumption].
    + cbn [br_h br_txs]. rewrite Hh, Z.eqb_refl. cbn [andb]. apply memN_in. apply in_or_app.
      destruct (memN t (br_txs br0)) eqn:Hm.
      * left. apply memN_in. assumption.
      * right. apply filter_In. split; [assumption|]. rewrite Hm. reflexivity.
  - rewrite existsb_app. cbn [existsb br_h br_txs]. rewrite Z.eqb_refl. cbn [andb].
    assert (Hm : memN t (i0 :: ir) = true) by (apply memN_in; assumption).
    rewrite Hm. rewrite orb_true_r. reflexivity.
Qed.

(* records of other heights are untouched *)
Lemma add_ids_other : forall brs h bid ids br, In br (add_ids brs h bid ids) -> br_h br <> h -> In br brs.
Proof.
  intros brs h bid ids br Hin Hne. unfold add_ids in Hin. destruct ids as [|i0 ir]; [assumption|].
  destruct (brec_at brs h) as [br0|].
  - apply in_map_iff in Hin. destruct Hin as [br1 [Heq Hin]]. destruct (br_h br1 =? h) eqn:E.
    + subst br. cbn [br_h] in Hne. apply Z.eqb_eq in E. contradiction.
    + subst br. assumption.
  - apply in_app_or in Hin. destruct Hin as [Hin|[Hin|[]]]; [assumption|]. subst br. cbn [br_h] in Hne. contradiction.
Qed.

Definition brs_le (m : Z) (brs : list brec) : Prop := forall br, In br brs -> br_h br <= m.

Lemma add_ids_le : forall brs h bid ids m, brs_le m brs -> h <= m -> brs_le m (add_ids brs h bid ids).
Proof.
  intros brs h bid ids m Hle Hh br Hin. destruct (Z.eq_dec (br_h br) h) as [E|E]; [lia|].
  apply Hle. apply (add_ids_other _ _ _ _ _ Hin E).
Qed.

(* ---------------------------------------------------------------- apply_ins / apply_outs: coverage and rollback *)

Lemma spend_credit_cov : forall (P : Z -> N -> Prop) cs w op t i h cs',
  (forall c, In c cs -> cov P c) -> P h t ->
  spend_credit cs w op (t, i, h) = Some cs' -> forall c, In c cs' -> cov P c.
Proof.
  intros P cs w op t i h. induction cs as [|c0 r IH]; intros cs' Hc Hp H c Hin; [discriminate|].
  cbn [spend_credit] in H. destruct (op_eqb (credit_op c0) op && (c_wallet c0 =? w)%N && is_unspent c0).
  - inversion H. subst cs'. destruct Hin as [Hin|Hin].
    + subst c. destruct (Hc c0 (or_introl eq_refl)) as [H1 _]. split; [exact H1|].
      intros t' i' sh Hs. cbn [set_spent c_spent] in Hs. inversion Hs. subst. assumption.
    + apply Hc. right. assumption.
  - destruct (spend_credit r w op (t, i, h)) as [r'|] eqn:Hr; [|discriminate]. inversion H. subst cs'.
    destruct Hin as [Hin|Hin].
    + subst c. apply Hc. left. reflexivity.
    + apply (IH r'); auto. intros x Hx. apply Hc. right. assumption.
Qed.

Lemma apply_ins_cov : forall (P : Z -> N -> Prop) t h ins cs cs',
  (forall c, In c cs -> cov P c) -> P h (t_id t) ->
  apply_ins cs t h ins = Ok cs' -> forall c, In c cs' -> cov P c.
Proof.
  intros P t h ins. induction ins as [|ri r IH]; intros cs cs' Hc Hp H.
  - inversion H. subst. assumption.
  - cbn [apply_ins] in H. destruct (spend_credit cs (ri_wallet ri) (ri_prev ri) (t_id t, ri_index ri, h)) as [cs1|] eqn:Hs; [|discriminate].
    apply (IH cs1 cs'); [|assumption|assumption]. apply (spend_credit_cov P cs _ _ _ _ _ cs1 Hc Hp Hs).
Qed.

Lemma apply_outs_cov : forall (P : Z -> N -> Prop) p t h bid outs cs cs',
  (forall c, In c cs -> cov P c) -> P h (t_id t) ->
  apply_outs p cs t h bid outs = Ok cs' -> forall c, In c cs' -> cov P c.
Proof.
  intros P p t h bid outs. induction outs as [|ro r IH]; intros cs cs' Hc Hp H.
  - inversion H. subst. assumption.
  - cbn [apply_outs] in H. destruct (exists_credit_at cs (t_id t, ro_index ro) h bid); [discriminate|].
    refine (IH _ cs' _ Hp H). intros c Hin. apply in_app_or in Hin. destruct Hin as [Hin|[Hin|[]]].
    + apply Hc. assumption.
    + subst c. split; cbn [c_height c_tx c_spent]; [assumption|]. intros; discriminate.
Qed.

Lemma spend_credit_rollback : forall cs w op t i h cs' m,
  spend_credit cs w op (t, i, h) = Some cs' -> m <= h -> rollback_credits cs' m = rollback_credits cs m.
Proof.
  intros cs w op t i h. induction cs as [|c0 r IH]; intros cs' m H Hm; [discriminate|].
  cbn [spend_credit] in H. destruct (op_eqb (credit_op c0) op && (c_wallet c0 =? w)%N && is_unspent c0) eqn:Hc.
  - inversion H. subst cs'. rewrite !rollback_credits_unsp. cbn [filter set_spent c_height].
    destruct (c_height c0 <? m); [|reflexivity]. cbn [map]. f_equal.
    apply andb_true_iff in Hc. destruct Hc as [_ Hu]. unfold is_unspent in Hu.
    destruct (c_spent c0) eqn:Hs; [discriminate|].
    unfold unsp. cbn [set_spent c_spent]. rewrite Hs.
    assert (Hle : m <=? h = true) by (apply Z.leb_le; assumption). rewrite Hle.
    cbn [set_spent c_tx c_vout c_height c_bid c_amount c_sh c_wallet c_class c_maturity].
    apply (set_spent_none_id c0 Hs).
  - destruct (spend_credit r w op (t, i, h)) as [r'|] eqn:Hr; [|discriminate]. inversion H. subst cs'.
    change (c0 :: r') with ([c0] ++ r'). change (c0 :: r) with ([c0] ++ r).
    rewrite !rollback_credits_app. f_equal. apply IH; auto.
Qed.

Lemma apply_ins_rollback : forall t h ins cs cs' m,
  apply_ins cs t h ins = Ok cs' -> m <= h -> rollback_credits cs' m = rollback_credits cs m.
Proof.
  intros t h ins. induction ins as [|ri r IH]; intros cs cs' m H Hm.
  - inversion H. reflexivity.
  - cbn [apply_ins] in H. destruct (spend_credit cs (ri_wallet ri) (ri_prev ri) (t_id t, ri_index ri, h)) as [cs1|] eqn:Hs; [|discriminate].
    rewrite (IH cs1 cs' m H Hm). apply (spend_credit_rollback _ _ _ _ _ _ _ _ Hs Hm).
Qed.

Lemma apply_outs_rollback : forall p t h bid outs cs cs' m,
  apply_outs p cs t h bid outs = Ok cs' -> m <= h -> rollback_credits cs' m = rollback_credits cs m.
Proof.
  intros p t h bid outs. induction outs as [|ro r IH]; intros cs cs' m H Hm.
  - inversion H. reflexivity.
  - cbn [apply_outs] in H. destruct (exists_credit_at cs (t_id t, ro_index ro) h bid); [discriminate|].
    rewrite (IH _ cs' m H Hm). rewrite rollback_credits_app. rewrite !rollback_credits_unsp.
    cbn [filter c_height]. assert (E : h <? m = false) by (apply Z.ltb_ge; assumption). rewrite E.
    cbn [map]. apply app_nil_r.
Qed.

(* ================================================================ Part 3: any committed batch *)

Definition import_body (p : params) (h : Z) (bid : N) (cs : list credit) (brs : list brec) (t : tx)
           (ins : list rel_in) (outs : list rel_out) : (list credit * list brec) + iout :=
  if negb (match brec_at brs h with Some br => (br_bid br =? bid)%N | None => true end) then inr IRetry
  else match apply_ins cs t h ins with
       | Err _ => inr IAbandon
       | Ok cs1 => match apply_outs p cs1 t h bid outs with
                   | Err _ => inr IRetry
                   | Ok cs2 => inl (cs2, add_ids brs h bid [t_id t])
                   end
       end.

Lemma import_tx_unfold : forall p own n h bid cs brs t,
  import_tx p own n h bid (cs, brs) t =
  match (if t_cb t then Some [] else import_ins own n h (t_ins t) 0%N) with
  | None => inr IRetry
  | Some ins =>
      match ins, filter_outs own (t_outs t) 0%N with
      | [], [] => inl (cs, brs)
      | _, _ => import_body p h bid cs brs t ins (filter_outs own (t_outs t) 0%N)
      end
  end.
Proof.
  intros. unfold import_tx, import_body.
  destruct (if t_cb t then Some [] else import_ins own n h (t_ins t) 0%N) as [ins|]; [|reflexivity].
  destruct ins; destruct (filter_outs own (t_outs t) 0%N); reflexivity.
Qed.

Lemma import_body_above : forall p h bid cs brs t ins outs cs' brs' m,
  import_body p h bid cs brs t ins outs = inl (cs', brs') -> m < h ->
  rollback_credits cs' (m + 1) = rollback_credits cs (m + 1) /\
  (covered brs cs -> covered brs' cs') /\
  (forall br, In br brs' -> br_h br <= m -> In br brs) /\
  (forall M, brs_le M brs -> h <= M -> brs_le M brs').
Proof.
  intros p h bid cs brs t ins outs cs' brs' m H Hm. unfold import_body in H.
  destruct (negb _); [discriminate|].
  destruct (apply_ins cs t h ins) as [cs1|] eqn:Hi; [|discriminate].
  destruct (apply_outs p cs1 t h bid outs) as [cs2|] eqn:Ho; [|discriminate].
  remember (add_ids brs h bid [t_id t]) as X eqn:HX. inversion H. subst cs' brs' X. clear H. split; [|split; [|split]].
  - rewrite (apply_outs_rollback _ _ _ _ _ _ _ _ Ho) by lia. apply (apply_ins_rollback _ _ _ _ _ _ Hi). lia.
  - intros Hc.
    assert (Hnew : lst (add_ids brs h bid [t_id t]) h (t_id t)).
    { apply lst_add_ids_new. left. reflexivity. }
    assert (Hc0 : forall c, In c cs -> cov (lst (add_ids brs h bid [t_id t])) c).
    { intros c Hin. destruct (Hc c Hin) as [H1 H2]. split.
      - apply lst_add_ids_mono. assumption.
      - intros t' i sh Hs. apply lst_add_ids_mono. apply (H2 t' i sh Hs). }
    pose proof (apply_ins_cov _ _ _ _ _ _ Hc0 Hnew Hi) as Hc1.
    exact (apply_outs_cov _ _ _ _ _ _ _ _ Hc1 Hnew Ho).
  - intros br Hin Hle. apply (add_ids_other _ _ _ _ _ Hin). lia.
  - intros M HM HhM. apply add_ids_le; assumption.
Qed.

Lemma import_tx_above : forall p own n h bid cs brs t cs' brs' m,
  import_tx p own n h bid (cs, brs) t = inl (cs', brs') -> m < h ->
  rollback_credits cs' (m + 1) = rollback_credits cs (m + 1) /\
  (covered brs cs -> covered brs' cs') /\
  (forall br, In br brs' -> br_h br <= m -> In br brs) /\
  (forall M, brs_le M brs -> h <= M -> brs_le M brs').
Proof.
  intros p own n h bid cs brs t cs' brs' m H Hm. rewrite import_tx_unfold in H.
  destruct (if t_cb t then Some [] else import_ins own n h (t_ins t) 0%N) as [ins|]; [|discriminate].
  assert (Hsame : inl (cs, brs) = (inl (cs', brs') : (list credit * list brec) + iout) ->
          rollback_credits cs' (m + 1) = rollback_credits cs (m + 1) /\
          (covered brs cs -> covered brs' cs') /\
          (forall br, In br brs' -> br_h br <= m -> In br brs) /\
          (forall M, brs_le M brs -> h <= M -> brs_le M brs')).
  { intros Heq. inversion Heq. subst. split; [reflexivity|split; [auto|split; auto]]. }
  destruct ins; destruct (filter_outs own (t_outs t) 0%N);
    [apply Hsame; assumption| | |]; apply (import_body_above _ _ _ _ _ _ _ _ _ _ _ H Hm).
Qed.

Lemma import_txs_above : forall p own n h bid ts cs brs cs' brs' m,
  import_txs p own n h bid (cs, brs) ts = inl (cs', brs') -> m < h ->
  rollback_credits cs' (m + 1) = rollback_credits cs (m + 1) /\
  (covered brs cs -> covered brs' cs') /\
  (forall br, In br brs' -> br_h br <= m -> In br brs) /\
  (forall M, brs_le M brs -> h <= M -> brs_le M brs').
Proof.
  intros p own n h bid ts. induction ts as [|t r IH]; intros cs brs cs' brs' m H Hm.
  - inversion H. subst. split; [reflexivity|split; [auto|split; auto]].
  - cbn [import_txs] in H. destruct (import_tx p own n h bid (cs, brs) t) as [[cs1 brs1]|e] eqn:Ht; [|discriminate].
    destruct (import_tx_above _ _ _ _ _ _ _ _ _ _ _ Ht Hm) as [A1 [A2 [A3 A4]]].
    destruct (IH _ _ _ _ _ H Hm) as [B1 [B2 [B3 B4]]].
    split; [congruence|split; [auto|split]].
    + intros br Hin Hle. apply A3; [|assumption]. apply B3; assumption.
    + intros M HM HhM. apply B4; [|assumption]. apply A4; assumption.
Qed.

Lemma import_blocks_above : forall p own n k stop bs cs brs cs' brs',
  import_blocks p own n k stop (cs, brs) bs = inl (cs', brs') ->
  rollback_credits cs' (k + 1) = rollback_credits cs (k + 1) /\
  (covered brs cs -> covered brs' cs') /\
  (forall br, In br brs' -> br_h br <= k -> In br brs) /\
  (forall M, brs_le M brs -> stop <= M -> brs_le M brs').
Proof.
  intros p own n k stop bs. induction bs as [|b r IH]; intros cs brs cs' brs' H.
  - inversion H. subst. split; [reflexivity|split; [auto|split; auto]].
  - cbn [import_blocks] in H. destruct ((k <? b_height b) && (b_height b <=? stop)) eqn:Hr.
    + destruct (import_txs p own n (b_height b) (b_id b) (cs, brs) (filter (touches own n (b_height b)) (b_txs b)))
        as [[cs1 brs1]|e] eqn:Ht; [|discriminate].
      apply andb_true_iff in Hr. destruct Hr as [Hk Hs]. apply Z.ltb_lt in Hk. apply Z.leb_le in Hs.
      destruct (import_txs_above _ _ _ _ _ _ _ _ _ _ _ Ht Hk) as [A1 [A2 [A3 A4]]].
      destruct (IH _ _ _ _ H) as [B1 [B2 [B3 B4]]].
      split; [congruence|split; [auto|split]].
      * intros br Hin Hle. apply A3; [|assumption]. apply B3; assumption.
      * intros M HM HhM. apply B4; [|assumption]. apply A4; [assumption|lia].
    + apply (IH _ _ _ _ H).
Qed.

(* ================================================================ Part 4: a batch on a chain that agrees below the cursor *)

Lemma import_blocks_exact : forall p own n k stop brs,
  wf_chain n -> 0 <= k <= chain_height n -> k <= stop -> brs_ok n brs ->
  exists brs',
    import_blocks p own n k stop (E p own (ptxs (upto k n)), brs) n
      = inl (E p own (ptxs (upto (Z.min stop (chain_height n)) n)), brs') /\ brs_ok n brs'.
Proof.
  intros p own n k stop brs Hwf Hk Hks Hbr.
  destruct (wf_linked _ Hwf) as [pv Hl].
  set (s := Z.min stop (chain_height n)).
  set (a := (Z.to_nat k + 1)%nat). set (b := (Z.to_nat s + 1)%nat).
  assert (Hs : k <= s <= chain_height n) by (unfold s; lia).
  assert (Hab : (a <= b)%nat) by (unfold a, b; lia).
  assert (Hlen : Z.of_nat (length n) = chain_height n + 1) by (unfold chain_height; lia).
  assert (Hbl : (b <= length n)%nat) by (unfold b; lia).
  pose proof (chain_split3 n a b Hab) as Hsplit.
  set (pre := firstn a n) in *. set (mid := firstn (b - a) (skipn a n)) in *. set (post := skipn b n) in *.
  assert (Hprelen : length pre = a). { unfold pre. apply firstn_length_le. lia. }
  assert (Hpm : pre ++ mid = firstn b n). { unfold pre, mid. apply firstn_firstn_skipn. assumption. }
  assert (Hpmlen : length (pre ++ mid) = b). { rewrite Hpm. apply firstn_length_le. assumption. }
  assert (Hpre_h : forall x, In x pre -> b_height x <= k).
  { intros x Hx. rewrite Hsplit in Hl. destruct (linked_heights_split _ _ _ Hl) as [H1 _].
    specialize (H1 x Hx). rewrite Hprelen in H1. unfold a in H1. lia. }
  assert (Hmid_h : forall x, In x mid -> k < b_height x <= stop).
  { intros x Hx. split.
    - rewrite Hsplit in Hl. destruct (linked_heights_split _ _ _ Hl) as [_ H2].
      specialize (H2 x (in_or_app _ _ _ (or_introl Hx))). rewrite Hprelen in H2. unfold a in H2. lia.
    - rewrite Hsplit in Hl. rewrite app_assoc in Hl. destruct (linked_heights_split _ _ _ Hl) as [H1 _].
      specialize (H1 x (in_or_app _ _ _ (or_intror Hx))). rewrite Hpmlen in H1. unfold b, s in H1. lia. }
  assert (Hpost_h : forall x, In x post -> stop < b_height x).
  { intros x Hx.
    assert (Hxn : In x n). { rewrite Hsplit. apply in_or_app. right. apply in_or_app. right. assumption. }
    pose proof (linked_height_lt n pv x Hl Hxn) as Hup.
    rewrite Hsplit in Hl. rewrite app_assoc in Hl. destruct (linked_heights_split _ _ _ Hl) as [_ H2].
    specialize (H2 x Hx). rewrite Hpmlen in H2. unfold b, s in H2. lia. }
  destruct (import_blocks_mid p own n k stop mid pre post brs Hwf Hsplit Hmid_h Hbr) as [brs' [Hmid Hok']].
  exists brs'. split; [|assumption].
  rewrite Hsplit at 3. rewrite import_blocks_app.
  rewrite (import_blocks_skip p own n k stop pre) by (intros x Hx; left; apply Hpre_h; assumption).
  rewrite import_blocks_app. unfold upto. fold a. fold pre. rewrite Hmid.
  fold b. rewrite <- Hpm.
  apply import_blocks_skip. intros x Hx. right. apply Hpost_h. assumption.
Qed.

(* ================================================================ Part 5: connecting blocks *)

Lemma collect_synced_ext : forall n st1 st2 fuel b acc,
  synced st1 = synced st2 -> collect n st1 fuel b acc = collect n st2 fuel b acc.
Proof.
  intros n st1 st2 fuel. induction fuel as [|f IH]; intros b acc H; [reflexivity|].
  cbn [collect]. unfold synced_at. rewrite H.
  destruct (match find (fun e => fst e =? b_height b) (synced st2) with Some e => Some (snd e) | None => None end) as [bid|].
  - destruct (bid =? b_id b)%N; [reflexivity|]. destruct (node_block n (b_prev b)); [apply IH; assumption|reflexivity].
  - destruct (node_block n (b_prev b)); [apply IH; assumption|reflexivity].
Qed.

Lemma matched_synced_ext : forall st1 st2 b, synced st1 = synced st2 -> matched st1 b = matched st2 b.
Proof. intros st1 st2 b H. unfold matched, synced_at. rewrite H. reflexivity. Qed.

Lemma rel_ins_of_none : forall own txs ins i, (forall sh, own sh = None) -> rel_ins_of own txs ins i = [].
Proof.
  intros own txs ins. induction ins as [|op r IH]; intros i H; [reflexivity|].
  cbn [rel_ins_of]. assert (Ho : owned_out own txs op = None).
  { unfold owned_out. destruct (find_tx txs (fst op)); [|reflexivity].
    destruct (nth_error (t_outs t) (N.to_nat (snd op))); [|reflexivity]. destruct (o_class t0); auto. }
  rewrite Ho. apply IH. assumption.
Qed.

Lemma filter_outs_none : forall own outs i, (forall sh, own sh = None) -> filter_outs own outs i = [].
Proof.
  intros own outs. induction outs as [|o r IH]; intros i H; [reflexivity|].
  cbn [filter_outs]. rewrite (IH (i + 1)%N H). rewrite H. destruct (o_class o); reflexivity.
Qed.

Lemma filter_block_txs_none : forall own view lookup l0 all txs seen,
  all = l0 ++ seen ++ txs -> wf_txs all ->
  (forall t, In t l0 -> lookup (t_id t) = Some t) -> (forall sh, own sh = None) ->
  filter_block_txs own view lookup seen txs = Ok [].
Proof.
  intros own view lookup l0 all txs. induction txs as [|t rest IH]; intros seen Hall Hwf Hlook Hnone.
  - reflexivity.
  - cbn [filter_block_txs].
    assert (Hall' : all = l0 ++ (seen ++ [t]) ++ rest).
    { rewrite Hall. rewrite <- (app_assoc seen). reflexivity. }
    rewrite (filter_tx_spec own view (seen ++ [t]) lookup all t).
    + rewrite (IH (seen ++ [t]) Hall' Hwf Hlook Hnone).
      unfold rec_keep, rec_of. cbn [rr_ins rr_outs].
      rewrite (filter_outs_none own _ _ Hnone). rewrite (rel_ins_of_none own _ _ _ Hnone).
      destruct (t_cb t); reflexivity.
    + intros Hcb. apply filter_ins_spec.
      * apply (wt_ids _ Hwf).
      * rewrite Hall'. apply incl_appr. apply incl_appl. apply incl_refl.
      * intros op Hop.
        assert (Hcr : created_before (l0 ++ seen) op).
        { pose proof (wt_inputs _ Hwf) as Hin. rewrite Hall in Hin. rewrite app_assoc in Hin.
          apply inputs_ok_app in Hin. destruct Hin as [_ Hin]. cbn [app inputs_ok] in Hin.
          destruct Hin as [Ht _]. apply Ht; assumption. }
        destruct Hcr as [pt [Hpt [Hid Hlen]]].
        assert (Hptall : In pt all).
        { rewrite Hall. rewrite app_assoc. apply in_or_app. left. assumption. }
        exists pt. split; [assumption|split; [assumption|split; [assumption|]]].
        apply in_app_or in Hpt. destruct Hpt as [Hpt|Hpt].
        -- right. split; [rewrite <- Hid; apply Hlook; assumption|].
           intros _. unfold owned_out. destruct (find_tx all (fst op)); [|reflexivity].
           destruct (nth_error (t_outs t0) (N.to_nat (snd op))); [|reflexivity]. destruct (o_class t1); auto.
        -- left. apply in_or_app. left. assumption.
Qed.

Lemma node_at_on_chain : forall n c b r, wf_chain n -> n = c ++ b :: r -> node_at n (b_height b) = Some b.
Proof.
  intros n c b r Hwf Hn. destruct (wf_linked _ Hwf) as [pv Hl]. unfold node_at. rewrite Hn at 1.
  rewrite Hn in Hl. apply (node_at_found _ _ _ _ _ Hl).
Qed.

Lemma chain_prefix_facts : forall n c b r, wf_chain n -> n = c ++ b :: r -> c <> [] ->
  wf_chain (c ++ [b]) /\ wf_txs (chain_txs (c ++ [b])) /\
  (forall t, In t (chain_txs c) -> node_tx n (t_id t) = Some t).
Proof.
  intros n c b r Hwf Hn Hne.
  assert (Hn2 : n = (c ++ [b]) ++ r). { rewrite Hn, <- app_assoc. reflexivity. }
  assert (Hwfp : wf_chain (c ++ [b])).
  { rewrite Hn2 in Hwf. apply (wf_chain_prefix _ _ Hwf). destruct c; discriminate. }
  split; [assumption|split; [apply wf_chain_txs; assumption|]].
  intros t Ht. apply node_tx_found; [assumption|]. rewrite Hn, chain_txs_app. apply in_or_app. left. assumption.
Qed.

(* no wallet is ready: the block is connected, nothing is recorded *)
Lemma xconnect_block_none : forall p n st b c r,
  wf_chain n -> n = c ++ b :: r -> c <> [] -> (forall sh, ready_own st sh = None) ->
  xconnect_block p n st b =
  XOk (with_w st {| credits := credits (x_w st); synced := (b_height b, b_id b) :: synced (x_w st) |}).
Proof.
  intros p n st b c r Hwf Hn Hne Hnone.
  destruct (chain_prefix_facts n c b r Hwf Hn Hne) as [Hwfp [Hwft Hlook]].
  unfold xconnect_block. rewrite (node_at_on_chain n c b r Hwf Hn). rewrite N.eqb_refl. cbn [negb].
  assert (Hf : filter_block_txs (ready_own st) (credits (x_w st)) (node_tx n) [] (b_txs b) = Ok []).
  { apply (filter_block_txs_none _ _ _ (chain_txs c) (chain_txs (c ++ [b]))); auto.
    rewrite chain_txs_app. cbn. rewrite app_nil_r. reflexivity. }
  rewrite Hf. unfold connect_block. rewrite Hf. cbn [apply_recs rec_ids map add_ids]. reflexivity.
Qed.

Lemma apply_recs_cov : forall (P : Z -> N -> Prop) p h bid recs cs cs',
  (forall c, In c cs -> cov P c) -> (forall r, In r recs -> P h (t_id (rr_tx r))) ->
  apply_recs p cs h bid recs = Ok cs' -> forall c, In c cs' -> cov P c.
Proof.
  intros P p h bid recs. induction recs as [|r rest IH]; intros cs cs' Hc Hp H.
  - inversion H. subst. assumption.
  - cbn [apply_recs] in H. destruct (apply_ins cs (rr_tx r) h (rr_ins r)) as [cs1|] eqn:Hi; [|discriminate].
    destruct (apply_outs p cs1 (rr_tx r) h bid (rr_outs r)) as [cs2|] eqn:Ho; [|discriminate].
    assert (Hr : P h (t_id (rr_tx r))) by (apply Hp; left; reflexivity).
    pose proof (apply_ins_cov _ _ _ _ _ _ Hc Hr Hi) as Hc1.
    pose proof (apply_outs_cov _ _ _ _ _ _ _ _ Hc1 Hr Ho) as Hc2.
    apply (IH cs2 cs' Hc2); [|assumption]. intros x Hx. apply Hp. right. assumption.
Qed.

(* the wallet is ready and the store is the ledger of c: C01's step, plus the block record *)
Lemma xconnect_block_ready : forall p n st b c r own,
  wf_chain n -> n = c ++ b :: r -> c <> [] -> (forall sh, ready_own st sh = own sh) ->
  x_w st = L p own c -> covered (x_brecs st) (credits (x_w st)) ->
  exists st', xconnect_block p n st b = XOk st' /\ x_w st' = L p own (c ++ [b]) /\
    covered (x_brecs st') (credits (x_w st')) /\
    (exists ids, x_brecs st' = add_ids (x_brecs st) (b_height b) (b_id b) ids) /\
    x_keys st' = x_keys st /\ x_status st' = x_status st /\ x_dead st' = x_dead st.
Proof.
  intros p n st b c r own Hwf Hn Hne Hown Hxw Hcov.
  destruct (chain_prefix_facts n c b r Hwf Hn Hne) as [Hwfp [Hwft Hlook]].
  assert (HL : forall c0, L p own c0 = L p (ready_own st) c0).
  { intros c0. apply L_own_ext. intros. symmetry. apply Hown. }
  assert (Hcb : connect_block p true (ready_own st) (credits (x_w st)) (node_tx n) (x_w st) b = Ok (L p own (c ++ [b]))).
  { rewrite Hxw at 2. rewrite (HL c), (HL (c ++ [b])). apply connect_block_L; assumption. }
  unfold xconnect_block. rewrite (node_at_on_chain n c b r Hwf Hn). rewrite N.eqb_refl. cbn [negb].
  rewrite Hcb. unfold connect_block in Hcb.
  destruct (filter_block_txs (ready_own st) (credits (x_w st)) (node_tx n) [] (b_txs b)) as [recs|e] eqn:Hf; [|discriminate].
  destruct (apply_recs p (credits (x_w st)) (b_height b) (b_id b) recs) as [cs'|e] eqn:Ha; [|discriminate].
  eexists. split; [reflexivity|]. cbn [with_brecs with_w x_w x_brecs x_keys x_status x_dead].
  split; [reflexivity|]. split; [|split; [eexists; reflexivity|repeat split]].
  pose proof (f_equal (fun r => match r with Ok s => credits s | Err _ => [] end) Hcb) as Hcs.
  cbv beta iota in Hcs. rewrite <- Hcs. cbn [credits].
  set (brs' := add_ids (x_brecs st) (b_height b) (b_id b) (rec_ids recs)).
  intros x Hx. refine (apply_recs_cov (lst brs') p _ _ recs _ _ _ _ Ha x Hx).
  - intros c0 Hc0. destruct (Hcov c0 Hc0) as [H1 H2]. split.
    + apply lst_add_ids_mono. assumption.
    + intros t i sh Hs. apply lst_add_ids_mono. apply (H2 t i sh Hs).
  - intros r0 Hr0. apply lst_add_ids_new. unfold rec_ids. apply in_map_iff. exists r0. split; [reflexivity|assumption].
Qed.

(* ================================================================ Part 6: the invariant *)

Lemma oclass_eq_dec : forall a b : oclass, {a = b} + {a <> b}.
Proof. decide equality. apply Z.eq_dec. Qed.
Lemma txout_eq_dec : forall a b : txout, {a = b} + {a <> b}.
Proof. decide equality; [apply oclass_eq_dec|apply Z.eq_dec|apply N.eq_dec]. Qed.
Lemma tx_eq_dec : forall a b : tx, {a = b} + {a <> b}.
Proof.
  decide equality.
  - apply (list_eq_dec txout_eq_dec).
  - apply list_eq_dec. intros x y. decide equality; apply N.eq_dec.
  - apply bool_dec.
  - apply N.eq_dec.
Qed.
Lemma block_eq_dec : forall a b : block, {a = b} + {a <> b}.
Proof. decide equality; [apply (list_eq_dec tx_eq_dec)|apply Z.eq_dec|apply N.eq_dec|apply N.eq_dec]. Qed.

Lemma xrollback_repaired_eq : forall st h,
  xrollback repaired st h =
  XOk {| x_w := {| credits := map (fun c => if rb_unspend (x_brecs st) h c then set_spent c None else c)
                                (filter (fun c => negb (rb_delete (x_brecs st) h c)) (credits (x_w st)));
                   synced := filter (fun e => fst e <? h) (synced (x_w st)) |};
         x_keys := x_keys st; x_pass := x_pass st;
         x_status := map (fun e => (fst e, pull_back h (snd e))) (x_status st);
         x_brecs := filter (fun br => br_h br <? h) (x_brecs st);
         x_balrow := x_balrow st;
         x_ugame := x_ugame st ++ flat_map (fun c =>
                      if rb_delete (x_brecs st) h c && is_game c
                      then match key_owner st (c_sh c) with
                           | Some v => match status_of st v with
                                       | Some WRemoving =>
                                           if f_rollback repaired && negb (memN v (x_balrow st)) then []
                                           else [(v, c_tx c, c_vout c)]
                                       | _ => []
                                       end
                           | None => []
                           end
                      else []) (credits (x_w st));
         x_dead := x_dead st; x_p1 := x_p1 st |}.
Proof. reflexivity. Qed.

Section Moving.
Variable p : params.
Variable g : block.
Variable U : list block.
Hypothesis U_ids : forall b1 b2, In b1 U -> In b2 U -> b_id b1 = b_id b2 -> b1 = b2.
Variable w : N.
Variable keys : list (N * N).
Hypothesis keys_w : forall sh v, lookupN keys sh = Some v -> v = w.

(* the owner function of the restored wallet (= [own_w st w] for every state with these keys) *)
Definition kown : owner_fn :=
  fun sh => match lookupN keys sh with
            | Some v => if (v =? w)%N then Some w else None
            | None => None
            end.

Lemma own_w_kown : forall st, x_keys st = keys -> own_w st w = kown.
Proof. intros st H. unfold own_w, key_owner, kown. rewrite H. reflexivity. Qed.

Lemma ready_own_importing : forall st k, x_keys st = keys -> status_of st w = Some (WImporting k) ->
  forall sh, ready_own st sh = None.
Proof.
  intros st k Hk Hs sh. unfold ready_own, key_owner. rewrite Hk.
  destruct (lookupN keys sh) as [v|] eqn:Hl; [|reflexivity].
  rewrite (keys_w sh v Hl). unfold is_ready. rewrite Hs. reflexivity.
Qed.

Lemma ready_own_ready : forall st, x_keys st = keys -> status_of st w = Some WReady ->
  forall sh, ready_own st sh = kown sh.
Proof.
  intros st Hk Hs sh. unfold ready_own, key_owner, kown. rewrite Hk.
  destruct (lookupN keys sh) as [v|] eqn:Hl; [|reflexivity].
  rewrite (keys_w sh v Hl). unfold is_ready. rewrite Hs. rewrite N.eqb_refl. reflexivity.
Qed.

Definition ninv (n : node) : Prop := wf_chain n /\ from_g g n /\ incl n U.

(* [top]: the height up to which the wallet's history is supposed to be in the store: the rescan
   cursor while importing, the handler's height once ready *)
Definition top_is (c : list block) (st : xstate) (top : Z) : Prop :=
  status_of st w = Some (WImporting top) \/ (status_of st w = Some WReady /\ top = chain_height c).

(* clean: the store holds exactly the wallet's credits of the handler's chain up to [top] *)
Definition clean (c : list block) (top : Z) (st : xstate) : Prop :=
  credits (x_w st) = E p kown (ptxs (upto top c)) /\ brs_ok c (x_brecs st) /\ brs_le top (x_brecs st).

(* the invariant, for the chain c the handler follows — whatever the node's chain is: the repaired batch
   commits only blocks of c (it compares the node's block at its upper height with the synced one), so
   the store never holds anything of a chain the handler has not been told about *)
Record xinv (c : list block) (st : xstate) : Prop := {
  xi_wf : wf_chain c;
  xi_g : from_g g c;
  xi_U : incl c U;
  xi_synced : synced (x_w st) = synced_of c;
  xi_keys : x_keys st = keys;
  xi_dead : x_dead st = [];
  xi_cov : covered (x_brecs st) (credits (x_w st));
  xi_state : exists top, top_is c st top /\ 0 <= top <= chain_height c /\ clean c top st
}.

Lemma agree_U : forall c n, incl c U -> incl n U -> ids_agree c n.
Proof. intros c n Hc Hn b1 b2 H1 H2 Hid. apply U_ids; [apply Hc|apply Hn|]; assumption. Qed.

Lemma tip_synced_of : forall c z cs, tip {| credits := cs; synced := synced_of (c ++ [z]) |} = (b_height z, b_id z).
Proof. intros. unfold tip. cbn [synced]. rewrite synced_of_snoc. reflexivity. Qed.

Lemma xw_eta : forall st, x_w st = {| credits := credits (x_w st); synced := synced (x_w st) |}.
Proof. intros st. destruct (x_w st). reflexivity. Qed.

(* the handler has processed the node's tip: it follows the node's chain *)
Lemma xinv_in_step : forall c n st, ninv n -> xinv c st ->
  snd (tip (x_w st)) = b_id (last n g) -> c = n.
Proof.
  intros c n st [Hwfn [Hgn HnU]] Hinv Htip. destruct Hinv as [Hwfc Hgc HcU Hsy _ _ _ _].
  destruct (wf_linked _ Hwfn) as [pvn Hln]. destruct (wf_linked _ Hwfc) as [pvc Hlc].
  destruct (exists_last (wf_nonempty _ Hwfc)) as [cpre [z Hc]].
  pose proof (wf_nonempty _ Hwfn) as Hnne.
  pose proof (app_removelast_last g Hnne) as Hn.
  rewrite (xw_eta st), Hsy, Hc, tip_synced_of in Htip. cbn [snd] in Htip.
  assert (Hz : z = last n g).
  { apply U_ids; [| |assumption].
    - apply HcU. rewrite Hc. apply in_or_app. right. left. reflexivity.
    - apply HnU. rewrite Hn at 2. apply in_or_app. right. left. reflexivity. }
  assert (Hpre : cpre = removelast n).
  { apply (common_prefix c n pvc pvn 0 Hlc Hln (agree_U _ _ HcU HnU) cpre z [] (removelast n) []).
    - assumption.
    - rewrite Hz. assumption. }
  rewrite Hc, Hn, Hpre, Hz. reflexivity.
Qed.

(* ---------------------------------------------------------------- Rollback on the handler's own chain *)

Lemma in_prefix_by_height : forall c c1 y c2 pv b, linked pv 0 c -> c = c1 ++ y :: c2 ->
  In b c -> b_height b <= b_height y -> In b (c1 ++ [y]).
Proof.
  intros c c1 y c2 pv b Hl Hc Hb Hh.
  assert (Hy : b_height y = Z.of_nat (length c1)). { rewrite Hc in Hl. rewrite (linked_height _ _ _ _ _ Hl). lia. }
  pose proof (in_upto c pv b (b_height y) Hl Hb Hh) as Hin.
  assert (Hc' : c = (c1 ++ [y]) ++ c2) by (rewrite Hc, <- app_assoc; reflexivity).
  rewrite Hc' in Hin. rewrite upto_exact in Hin; [assumption|]. rewrite app_length. cbn [length]. lia.
Qed.

Lemma xrollback_fields : forall st h, covered (x_brecs st) (credits (x_w st)) ->
  exists st1, xrollback repaired st h = XOk st1 /\
    credits (x_w st1) = rollback_credits (credits (x_w st)) h /\
    synced (x_w st1) = filter (fun e => fst e <? h) (synced (x_w st)) /\
    x_keys st1 = x_keys st /\ x_dead st1 = x_dead st /\
    x_brecs st1 = filter (fun br => br_h br <? h) (x_brecs st).
Proof.
  intros st h Hcov. rewrite xrollback_repaired_eq. eexists. split; [reflexivity|].
  cbn [x_w credits synced x_keys x_dead x_brecs]. repeat split. apply rollback_by_records. assumption.
Qed.

Lemma xrollback_own : forall c st c1 y c2,
  xinv c st -> c = c1 ++ y :: c2 ->
  exists st1, xrollback repaired st (b_height y + 1) = XOk st1 /\ xinv (c1 ++ [y]) st1.
Proof.
  intros c st c1 y c2 [Hwf Hg HU Hsy Hkeys Hdead Hcov [top [Htop [Hrange [Hcr [Hbok Hble]]]]]] Hc.
  destruct (wf_linked _ Hwf) as [pv Hl].
  set (hy := b_height y). set (c' := c1 ++ [y]).
  assert (Hc' : c = c' ++ c2) by (unfold c'; rewrite Hc, <- app_assoc; reflexivity).
  assert (Hy : hy = Z.of_nat (length c1)). { unfold hy. rewrite Hc in Hl. rewrite (linked_height _ _ _ _ _ Hl). lia. }
  assert (Hlen' : length c' = (Z.to_nat hy + 1)%nat). { unfold c'. rewrite app_length. cbn [length]. lia. }
  assert (Hch' : chain_height c' = hy). { unfold chain_height. lia. }
  assert (Hhyc : 0 <= hy <= chain_height c). { unfold chain_height. rewrite Hc, app_length. cbn [length]. lia. }
  assert (Hup : forall m, m <= hy -> upto m c = upto m c').
  { intros m Hm. rewrite Hc'. apply upto_app_l. lia. }
  assert (Hupy : upto hy c = c'). { rewrite Hc'. apply upto_exact. lia. }
  assert (Hwf' : wf_chain c'). { rewrite Hc' in Hwf. apply (wf_chain_prefix _ _ Hwf). unfold c'. destruct c1; discriminate. }
  assert (Hin' : forall b, In b c -> b_height b <= hy -> In b c').
  { intros b Hb Hh. apply (in_prefix_by_height c c1 y c2 pv b Hl Hc Hb Hh). }
  destruct (xrollback_fields st (b_height y + 1) Hcov) as [st1 [Hrb1 [Fcr [Fsy [Fk [Fd Fb]]]]]].
  exists st1. split; [assumption|].
  constructor; rewrite ?Fcr, ?Fsy, ?Fk, ?Fd, ?Fb; try assumption.
  - destruct Hg as [r Hr]. rewrite Hc in Hr. unfold c'. destruct c1 as [|z c1'].
    + cbn [app] in Hr. inversion Hr. exists []. reflexivity.
    + cbn [app] in Hr. inversion Hr. exists (c1' ++ [y]). reflexivity.
  - intros z Hz. apply HU. rewrite Hc'. apply in_or_app. left. assumption.
  - pose proof (f_equal synced (rollback_at p kown c c1 y c2 pv Hl Hc)) as Hs.
    cbn [rollback_to synced L] in Hs. rewrite Hsy. exact Hs.
  - apply covered_rollback. assumption.
  - exists (Z.min top hy). split; [|split; [lia|]].
    + destruct Htop as [Hs|[Hs Ht]].
      * left. unfold hy. rewrite (rollback_pulls_cursor_back repaired st (b_height y + 1) _ w top Hrb1 Hs).
        do 2 f_equal. lia.
      * right. split; [|lia].
        destruct (rollback_keeps_other_status repaired st (b_height y + 1) _ w Hrb1) as [Hr _].
        apply Hr. assumption.
    + unfold clean. rewrite Fcr, Fb. split; [|split].
      * rewrite Hcr. fold hy. rewrite (rollback_E_upto p kown c top hy Hwf) by lia.
        rewrite Hup by lia. reflexivity.
      * intros br Hbr. apply filter_In in Hbr. destruct Hbr as [Hbr Hh]. apply Z.ltb_lt in Hh. fold hy in Hh.
        destruct (Hbok br Hbr) as [b [Hb [Hbh Hbid]]]. exists b. split; [|split; assumption].
        apply Hin'; [assumption|lia].
      * intros br Hbr. apply filter_In in Hbr. destruct Hbr as [Hbr Hh]. apply Z.ltb_lt in Hh. fold hy in Hh.
        specialize (Hble br Hbr). lia.
Qed.

(* ---------------------------------------------------------------- connecting the node's next blocks *)

Lemma brs_ok_mono : forall c c' brs, incl c c' -> brs_ok c brs -> brs_ok c' brs.
Proof. intros c c' brs Hi Hok br Hbr. destruct (Hok br Hbr) as [b [Hb Hr]]. exists b. split; [apply Hi; assumption|assumption]. Qed.

Lemma xconnect_block_inv : forall c n st b r,
  ninv n -> xinv c st -> n = c ++ b :: r ->
  exists st', xconnect_block p n st b = XOk st' /\ xinv (c ++ [b]) st'.
Proof.
  intros c n st b r [Hwfn [Hgn HnU]] Hinv Hn.
  destruct Hinv as [Hwf Hg HU Hsy Hkeys Hdead Hcov [top [Htop [Hrange [Hcr [Hbok Hble]]]]]].
  pose proof (wf_nonempty _ Hwf) as Hne.
  destruct (chain_prefix_facts n c b r Hwfn Hn Hne) as [Hwfp [Hwft Hlook]].
  destruct (wf_linked _ Hwfn) as [pvn Hln].
  assert (Hhb : b_height b = chain_height c + 1).
  { rewrite Hn in Hln. rewrite (linked_height _ _ _ _ _ Hln). unfold chain_height. lia. }
  assert (Hg' : from_g g (c ++ [b])). { destruct Hg as [c0 Hc0]. rewrite Hc0. exists (c0 ++ [b]). reflexivity. }
  assert (HU' : incl (c ++ [b]) U).
  { intros z Hz. apply HnU. rewrite Hn. apply in_app_or in Hz. apply in_or_app. destruct Hz as [Hz|[Hz|[]]]; [left; assumption|].
    right. left. assumption. }
  assert (Hlen : (Z.to_nat top + 1 <= length c)%nat) by (unfold chain_height in Hrange; lia).
  destruct Htop as [Hs|[Hs Ht]].
  - (* importing: nothing is relevant *)
    rewrite (xconnect_block_none p n st b c r Hwfn Hn Hne (ready_own_importing st top Hkeys Hs)).
    eexists. split; [reflexivity|].
    constructor; cbn [with_w x_w credits synced x_keys x_dead x_brecs]; try assumption.
    + rewrite synced_of_snoc, Hsy. reflexivity.
    + exists top. split; [left; exact Hs|]. split; [rewrite chain_height_app1; lia|].
      unfold clean. cbn [with_w x_w credits x_brecs]. split; [|split].
      * rewrite Hcr. rewrite upto_app_l by assumption. reflexivity.
      * apply (brs_ok_mono c); [apply incl_appl; apply incl_refl|assumption].
      * assumption.
  - (* ready: C01's step *)
    assert (Hxw : x_w st = L p kown c).
    { rewrite (xw_eta st). unfold L. rewrite Hcr, Hsy, Ht, upto_all. reflexivity. }
    destruct (xconnect_block_ready p n st b c r kown Hwfn Hn Hne (ready_own_ready st Hkeys Hs) Hxw Hcov)
      as [st' [Hx [Hxw' [Hcov' [[ids Hbr'] [Hk' [Hst' Hd']]]]]]].
    exists st'. split; [assumption|].
    constructor; try assumption.
    + rewrite Hxw'. reflexivity.
    + congruence.
    + congruence.
    + exists (chain_height (c ++ [b])). split; [|split].
      * right. split; [|reflexivity]. unfold status_of in *. rewrite Hst'. assumption.
      * rewrite chain_height_app1. lia.
      * unfold clean. rewrite Hxw', Hbr'. cbn [L credits]. split; [|split].
        -- rewrite upto_all. reflexivity.
        -- apply add_ids_ok; [|apply in_or_app; right; left; reflexivity].
           apply (brs_ok_mono c); [apply incl_appl; apply incl_refl|assumption].
        -- rewrite chain_height_app1. apply add_ids_le; [|lia]. intros br Hbr. specialize (Hble br Hbr). lia.
Qed.

Lemma xconnect_all_inv : forall bs c n st r,
  ninv n -> xinv c st -> n = c ++ bs ++ r ->
  exists st', xconnect_all p n st bs = XOk st' /\ xinv (c ++ bs) st'.
Proof.
  induction bs as [|b bs IH]; intros c n st r Hn Hinv Heq.
  - exists st. split; [reflexivity|]. rewrite app_nil_r. assumption.
  - cbn [xconnect_all].
    destruct (xconnect_block_inv c n st b (bs ++ r) Hn Hinv Heq) as [st1 [Hx Hinv1]].
    rewrite Hx.
    destruct (IH (c ++ [b]) n st1 r Hn Hinv1) as [st' [Hx' Hinv']].
    { rewrite Heq, <- app_assoc. reflexivity. }
    exists st'. split; [assumption|]. rewrite <- app_assoc in Hinv'. exact Hinv'.
Qed.

(* ---------------------------------------------------------------- announcing a block of the node *)

(* T: announcing ANY block of the node's chain (not the genesis) to the handler always succeeds, from
   every state of the invariant; afterwards the handler follows the node's chain up to that block *)
Lemma xprocess_on_node : forall c n st b n1 n2,
  ninv n -> xinv c st -> n = n1 ++ b :: n2 -> n1 <> [] ->
  exists st', xprocess repaired p n st b = XOk st' /\ xinv (n1 ++ [b]) st'.
Proof.
  intros c n st b n1 n2 Hninv Hinv Hn Hne. pose proof Hninv as [Hwfn [Hgn HnU]].
  pose proof Hinv as [Hwfc Hgc HcU Hsy _ _ _ _].
  destruct (wf_linked _ Hwfn) as [pvn Hln]. destruct (wf_linked _ Hwfc) as [pvc Hlc].
  pose proof (agree_U _ _ HcU HnU) as Hids.
  unfold xprocess. destruct (snd (tip (x_w st)) =? b_prev b)%N eqn:Htip.
  - (* extends the handler's tip: the handler's chain is the node's chain below b *)
    destruct (exists_last (wf_nonempty _ Hwfc)) as [cpre [y Hc]].
    destruct (exists_last Hne) as [n1' [x' Hn1]].
    rewrite (xw_eta st), Hsy, Hc, tip_synced_of in Htip. cbn [snd] in Htip. apply N.eqb_eq in Htip.
    assert (Hn' : n = n1' ++ x' :: b :: n2). { rewrite Hn, Hn1, <- app_assoc. reflexivity. }
    assert (Hyx : y = x').
    { apply Hids.
      - rewrite Hc. apply in_or_app. right. left. reflexivity.
      - rewrite Hn'. apply in_or_app. right. left. reflexivity.
      - rewrite Htip. rewrite Hn' in Hln. apply (linked_prev _ _ _ _ _ _ Hln). }
    subst x'.
    assert (Hpre : cpre = n1').
    { apply (common_prefix c n pvc pvn 0 Hlc Hln Hids cpre y [] n1' (b :: n2)); assumption. }
    assert (Hcn : c = n1). { rewrite Hc, Hn1, Hpre. reflexivity. }
    cbn [xconnect_all]. rewrite <- Hcn in *.
    destruct (xconnect_block_inv c n st b n2 Hninv Hinv Hn) as [st' [Hx Hinv']].
    rewrite Hx. exists st'. split; [reflexivity|assumption].
  - (* reorganisation *)
    assert (Hfuel : (length n1 < S (Z.to_nat (b_height b)))%nat).
    { rewrite Hn in Hln. rewrite (linked_height _ _ _ _ _ Hln). lia. }
    assert (Hgen : same_genesis c n). { apply (same_genesis_from_g g); assumption. }
    destruct (collect_spec p kown c n pvc pvn Hlc Hln (wf_bids _ Hwfn) Hgen Hids
                _ n1 b [] n2 Hn Hfuel) as [m1 [y [m2 [Hsplit [Hy Hcol]]]]].
    rewrite (collect_synced_ext n (x_w st) (L p kown c)) by (rewrite Hsy; reflexivity).
    rewrite Hcol.
    apply in_split in Hy. destruct Hy as [c1 [c2 Hc]].
    assert (Hn' : n = m1 ++ y :: m2 ++ n2).
    { rewrite Hn. change (b :: n2) with ([b] ++ n2). rewrite app_assoc, Hsplit, <- app_assoc. reflexivity. }
    assert (Hc1 : c1 = m1).
    { apply (common_prefix c n pvc pvn 0 Hlc Hln Hids c1 y c2 m1 (m2 ++ n2)); assumption. }
    subst c1.
    destruct (xrollback_own c st m1 y c2 Hinv Hc) as [st1 [Hrb Hinv1]].
    rewrite Hrb.
    destruct (xconnect_all_inv m2 (m1 ++ [y]) n st1 n2 Hninv Hinv1) as [st' [Hx Hinv']].
    { rewrite Hn', <- app_assoc. reflexivity. }
    exists st'. split; [assumption|].
    rewrite <- app_assoc in Hinv'. cbn [app] in Hinv'. rewrite <- Hsplit in Hinv'. exact Hinv'.
Qed.

(* ---------------------------------------------------------------- any announcement *)

Lemma xconnect_all_ok_in : forall n bs st st',
  xconnect_all p n st bs = XOk st' -> forall y, In y bs -> exists nb, In nb n /\ b_id nb = b_id y.
Proof.
  intros n bs. induction bs as [|x bs IH]; intros st st' H y Hy; [destruct Hy|].
  cbn [xconnect_all] in H. destruct (xconnect_block p n st x) as [st1| |] eqn:Hx; try discriminate.
  destruct Hy as [Hy|Hy]; [|apply (IH _ _ H y Hy)]. subst y.
  unfold xconnect_block in Hx. destruct (node_at n (b_height x)) as [nb|] eqn:Hat; [|discriminate].
  destruct (b_id nb =? b_id x)%N eqn:Hid; cbn [negb] in Hx; [|discriminate].
  exists nb. split; [|apply N.eqb_eq; assumption]. unfold node_at in Hat. apply find_some in Hat. tauto.
Qed.

(* T: a processed announcement of any block (a block of the node, or an old block of the handler's own
   chain) keeps the invariant; a refused one changes nothing *)
Lemma xprocess_inv : forall c n st b st',
  ninv n -> xinv c st -> In b U -> b <> g ->
  xprocess repaired p n st b = XOk st' ->
  exists c', xinv c' st' /\ incl c' (c ++ n).
Proof.
  intros c n st b st' Hninv Hinv HbU Hbg H. pose proof Hninv as [Hwfn [Hgn HnU]].
  pose proof Hinv as [Hwfc Hgc HcU Hsy _ _ _ _].
  assert (Hnode : In b n -> exists c', xinv c' st' /\ incl c' (c ++ n)).
  { intros Hbn. apply in_split in Hbn. destruct Hbn as [n1 [n2 Hn]].
    assert (Hne : n1 <> []).
    { intros Hnil. subst n1. destruct Hgn as [n' Hn']. rewrite Hn in Hn'. cbn [app] in Hn'. inversion Hn'. contradiction. }
    destruct (xprocess_on_node c n st b n1 n2 Hninv Hinv Hn Hne) as [st'' [Hx Hinv']].
    rewrite Hx in H. inversion H. subst st''. exists (n1 ++ [b]). split; [assumption|].
    apply incl_appr. rewrite Hn. intros z Hz. apply in_app_or in Hz. apply in_or_app.
    destruct Hz as [Hz|[Hz|[]]]; [left; assumption|right; left; assumption]. }
  assert (Hbyid : forall nb, In nb n -> b_id nb = b_id b -> In b n).
  { intros nb Hin Hid. rewrite <- (U_ids nb b (HnU _ Hin) HbU Hid). assumption. }
  pose proof H as H'. unfold xprocess in H'.
  destruct (snd (tip (x_w st)) =? b_prev b)%N.
  - destruct (xconnect_all_ok_in _ _ _ _ H' b (or_introl eq_refl)) as [nb [Hin Hid]].
    apply Hnode. apply (Hbyid nb Hin Hid).
  - destruct (collect n (x_w st) (S (Z.to_nat (b_height b))) b []) as [[fork bs]|] eqn:Hcol; [|discriminate].
    destruct (xrollback repaired st (fork + 1)) as [st1| |] eqn:Hrb; try discriminate.
    destruct (collect_cases _ _ _ _ _ _ _ Hcol) as [[Hm [Hf Hbs]]|Hin].
    + (* an old block of the handler's own chain: rolled back to it *)
      subst fork bs. cbn [xconnect_all] in H'. inversion H'. subst st1.
      assert (Hbc : In b c).
      { apply (matched_in p kown c [b] b).
        - apply agree_U; [assumption|]. intros z [Hz|[]]. subst z. assumption.
        - left. reflexivity.
        - rewrite <- Hm. apply matched_synced_ext. rewrite Hsy. reflexivity. }
      apply in_split in Hbc. destruct Hbc as [c1 [c2 Hc]].
      destruct (xrollback_own c st c1 b c2 Hinv Hc) as [st1 [Hrb' Hinv']].
      rewrite Hrb' in Hrb. inversion Hrb. subst st1.
      exists (c1 ++ [b]). split; [assumption|]. apply incl_appl. rewrite Hc. intros z Hz.
      apply in_app_or in Hz. apply in_or_app. destruct Hz as [Hz|[Hz|[]]]; [left; assumption|right; left; assumption].
    + destruct (xconnect_all_ok_in _ _ _ _ H' b Hin) as [nb [Hin' Hid]].
      apply Hnode. apply (Hbyid nb Hin' Hid).
Qed.

Lemma xprocess_repaired_no_panic : forall n st b, xprocess repaired p n st b <> XPanic.
Proof. intros n st b. apply (xprocess_repaired_safe repaired p n st b eq_refl). Qed.

(* ---------------------------------------------------------------- where two chains part *)

Lemma firstn_S_nth : forall (A : Type) (l : list A) k x, nth_error l k = Some x -> firstn (S k) l = firstn k l ++ [x].
Proof.
  intros A l. induction l as [|a l IH]; intros k x H.
  - destruct k; discriminate.
  - destruct k as [|k].
    + cbn in H. inversion H. reflexivity.
    + cbn [nth_error] in H. change (firstn (S (S k)) (a :: l)) with (a :: firstn (S k) l).
      rewrite (IH k x H). reflexivity.
Qed.

Lemma fork_point_nat : forall c n pvc pvn,
  linked pvc 0 c -> linked pvn 0 n -> from_g g c -> from_g g n ->
  forall m, (m < length c)%nat ->
  exists i, (i <= m)%nat /\ (i < length n)%nat /\ firstn (S i) c = firstn (S i) n /\
            ((i < m)%nat -> forall x, nth_error c (S i) = Some x -> ~ In x n).
Proof.
  intros c n pvc pvn Hlc Hln [c0 Hc] [n0 Hn]. induction m as [|m IH]; intros Hm.
  - exists O. subst c n. cbn [length firstn]. repeat split; try lia.
  - destruct (IH ltac:(lia)) as [i [Hi [Hin [Hf Hx]]]].
    destruct (Nat.eq_dec i m) as [Heq|Hneq].
    + subst i. destruct (nth_error c (S m)) as [x|] eqn:Hnx.
      2:{ apply nth_error_None in Hnx. lia. }
      destruct (in_dec block_eq_dec x n) as [Hxn|Hxn].
      * exists (S m). split; [lia|].
        pose proof (linked_nth c pvc 0 (S m) x Hlc Hnx) as Hh.
        pose proof (linked_in_nth n pvn x Hln Hxn) as Hnn. rewrite Hh in Hnn. cbn [Z.add] in Hnn. rewrite Nat2Z.id in Hnn.
        split; [apply nth_error_Some; congruence|]. split; [|lia].
        rewrite (firstn_S_nth _ c (S m) x Hnx), (firstn_S_nth _ n (S m) x Hnn). rewrite Hf. reflexivity.
      * exists m. split; [lia|split; [assumption|split; [assumption|]]].
        intros _ x' Hx'. rewrite Hnx in Hx'. inversion Hx'. subst x'. assumption.
    + exists i. split; [lia|split; [assumption|split; [assumption|]]]. intros _. apply Hx. lia.
Qed.

Lemma fork_point : forall c n, wf_chain c -> wf_chain n -> from_g g c -> from_g g n ->
  exists i, 0 <= i <= chain_height c /\ i <= chain_height n /\ upto i c = upto i n /\
            (forall x, nth_error c (Z.to_nat i + 1) = Some x -> ~ In x n).
Proof.
  intros c n Hwfc Hwfn Hgc Hgn. destruct (wf_linked _ Hwfc) as [pvc Hlc]. destruct (wf_linked _ Hwfn) as [pvn Hln].
  pose proof (wf_nonempty _ Hwfc) as Hne.
  assert (Hlen : (length c - 1 < length c)%nat). { destruct c; [contradiction|cbn [length]; lia]. }
  destruct (fork_point_nat c n pvc pvn Hlc Hln Hgc Hgn (length c - 1)%nat Hlen) as [i [Hi [Hin [Hf Hx]]]].
  exists (Z.of_nat i). unfold chain_height, upto. rewrite Nat2Z.id. replace (i + 1)%nat with (S i) by lia.
  split; [lia|split; [lia|split; [assumption|]]].
  intros x Hnx. destruct (Nat.eq_dec i (length c - 1)) as [Heq|Hneq].
  - exfalso. assert (Hnone : nth_error c (S i) = None) by (apply nth_error_None; lia). congruence.
  - apply Hx; [lia|assumption].
Qed.

Lemma below_on_node : forall c n pvc pvn a x a' x',
  linked pvc 0 c -> linked pvn 0 n -> ids_agree c n ->
  nth_error c a = Some x -> In x n -> (a' <= a)%nat -> nth_error c a' = Some x' -> In x' n.
Proof.
  intros c n pvc pvn a x a' x' Hlc Hln Hids Hx Hxn Hle Hx'.
  apply nth_error_split in Hx. destruct Hx as [c1 [c2 [Hc Hlen]]].
  apply in_split in Hxn. destruct Hxn as [m1 [m2 Hn]].
  assert (Hc1 : c1 = m1). { apply (common_prefix c n pvc pvn 0 Hlc Hln Hids c1 x c2 m1 m2); assumption. }
  subst m1. rewrite Hn. rewrite Hc in Hx'.
  destruct (Nat.eq_dec a' a) as [Heq|Hneq].
  - subst a'. rewrite nth_error_app2 in Hx' by lia. rewrite <- Hlen, Nat.sub_diag in Hx'. cbn in Hx'. inversion Hx'.
    apply in_or_app. right. left. reflexivity.
  - rewrite nth_error_app1 in Hx' by lia. apply in_or_app. left. apply (nth_error_In _ _ Hx').
Qed.

(* ---------------------------------------------------------------- a rescan batch, whatever the node's chain *)

Lemma nth_exists : forall (c : list block) i, (i < length c)%nat -> exists x, nth_error c i = Some x.
Proof.
  intros c i H. destruct (nth_error c i) as [x|] eqn:E; [exists x; reflexivity|].
  apply nth_error_None in E. lia.
Qed.

(* the comparison the repaired asyncImport makes before committing: if the node's block at height h is the
   handler's synced block of that height, the two chains are the same up to h *)
Lemma node_on_synced_upto : forall c n st h, ninv n -> xinv c st ->
  node_on_synced n (x_w st) h = true ->
  0 <= h <= chain_height c /\ h <= chain_height n /\ upto h c = upto h n.
Proof.
  intros c n st h [Hwfn [Hgn HnU]] [Hwf Hg HU Hsy _ _ _ _] Hchk.
  destruct (wf_linked _ Hwf) as [pvc Hlc]. destruct (wf_linked _ Hwfn) as [pvn Hln].
  pose proof (agree_U _ _ HU HnU) as Hids.
  apply node_on_synced_iff in Hchk. destruct Hchk as [nb [Hat Hm]].
  unfold node_at in Hat. apply find_some in Hat. destruct Hat as [Hnbn Hh]. apply Z.eqb_eq in Hh.
  assert (Hnbc : In nb c).
  { apply (matched_in p kown c n nb Hids Hnbn). rewrite <- Hm. apply matched_synced_ext. rewrite Hsy. reflexivity. }
  apply in_split in Hnbc. destruct Hnbc as [c1 [c2 Hc]].
  apply in_split in Hnbn. destruct Hnbn as [n1 [n2 Hn]].
  assert (Hc1 : c1 = n1). { apply (common_prefix c n pvc pvn 0 Hlc Hln Hids c1 nb c2 n1 n2); assumption. }
  subst n1.
  assert (Hlen : h = Z.of_nat (length c1)). { rewrite Hc in Hlc. rewrite (linked_height _ _ _ _ _ Hlc) in Hh. lia. }
  assert (Hc' : c = (c1 ++ [nb]) ++ c2) by (rewrite Hc, <- app_assoc; reflexivity).
  assert (Hn' : n = (c1 ++ [nb]) ++ n2) by (rewrite Hn, <- app_assoc; reflexivity).
  assert (Hl1 : (Z.to_nat h + 1 = length (c1 ++ [nb]))%nat). { rewrite app_length. cbn [length]. lia. }
  split; [|split].
  - unfold chain_height. rewrite Hc, app_length. cbn [length]. lia.
  - unfold chain_height. rewrite Hn, app_length. cbn [length]. lia.
  - rewrite Hc' at 1. rewrite Hn' at 1. rewrite !upto_exact by assumption. reflexivity.
Qed.

(* T: a batch — committed, retried, or refused because the node is not on the handler's chain — keeps the
   invariant, whatever well-formed chain the node has *)
Lemma batch_inv : forall B c n st, ninv n -> 0 < B -> xinv c st ->
  xinv c (fst (import_batch repaired p B n st w)).
Proof.
  intros B c n st Hninv HB Hinv. pose proof Hninv as [Hwfn [Hgn HnU]].
  pose proof Hinv as [Hwf Hg HU Hsy Hkeys Hdead Hcov [top [Htop [Hrange [Hcr [Hbok Hble]]]]]].
  destruct (wf_linked _ Hwf) as [pvc Hlc]. destruct (wf_linked _ Hwfn) as [pvn Hln].
  unfold import_batch. destruct Htop as [Hs|[Hs Ht]].
  2:{ rewrite Hs. exact Hinv. }
  rewrite Hs, Hdead. cbn [memN existsb].
  assert (Hbest : fst (tip (x_w st)) = chain_height c).
  { rewrite (xw_eta st), Hsy. apply tip_of_synced. assumption. }
  rewrite Hbest. rewrite (own_w_kown st Hkeys).
  set (stop := Z.min (top + B) (chain_height c)).
  assert (Hstop : top <= stop <= chain_height c) by (unfold stop; lia).
  destruct (import_blocks p kown n top stop (credits (x_w st), x_brecs st) n) as [[cs' brs']|e] eqn:Hb.
  2:{ destruct e; cbn; exact Hinv. }
  cbn [repaired f_import_tipcheck andb].
  destruct (node_on_synced n (x_w st) stop) eqn:Hchk; cbn [negb fst]; [|exact Hinv].
  (* the batch read blocks of the handler's chain only: it is exact on it *)
  destruct (node_on_synced_upto c n st stop Hninv Hinv Hchk) as [_ [Hsn Hups]].
  destruct (import_blocks_above _ _ _ _ _ _ _ _ _ _ Hb) as [G1 [G2 [G3 G4]]].
  assert (Hupt : upto top c = upto top n).
  { rewrite <- (upto_upto top stop c), <- (upto_upto top stop n) by lia. rewrite Hups. reflexivity. }
  assert (Hbokn : brs_ok n (x_brecs st)).
  { intros br Hbr. destruct (Hbok br Hbr) as [b0 [Hb0 [Hh0 Hid0]]]. exists b0. split; [|split; assumption].
    apply (upto_incl top n). rewrite <- Hupt. apply (in_upto c pvc b0 top Hlc Hb0). specialize (Hble br Hbr). lia. }
  destruct (import_blocks_exact p kown n top stop (x_brecs st) Hwfn ltac:(lia) ltac:(lia) Hbokn) as [brs'' [Hex Hbokn']].
  rewrite <- Hupt, <- Hcr in Hex. rewrite Hex in Hb. rewrite Z.min_l in Hb by lia.
  assert (Hcs : cs' = E p kown (ptxs (upto stop n))) by congruence.
  assert (Hbs : brs' = brs'') by congruence. subst brs''.
  assert (Hble' : brs_le stop brs').
  { apply G4; [|lia]. intros br Hbr. specialize (Hble br Hbr). lia. }
  constructor; cbn [with_status with_brecs with_w x_w x_brecs x_keys x_dead x_status credits synced]; try assumption.
  - apply G2. assumption.
  - exists stop. split; [|split; [lia|]].
    + unfold top_is, status_of. cbn [with_status x_status]. rewrite lookupN_setN_same.
      destruct (stop =? chain_height c) eqn:Es; [right; split; [reflexivity|apply Z.eqb_eq; assumption]|left; reflexivity].
    + unfold clean. cbn [with_status with_brecs with_w x_w x_brecs credits]. split; [|split; [|assumption]].
      * rewrite Hcs, Hups. reflexivity.
      * intros br Hbr. destruct (Hbokn' br Hbr) as [b0 [Hb0 [Hh0 Hid0]]]. exists b0. split; [|split; assumption].
        apply (upto_incl stop c). rewrite Hups. apply (in_upto n pvn b0 stop Hln Hb0). specialize (Hble' br Hbr). lia.
Qed.

(* ---------------------------------------------------------------- what the invariant gives *)

(* (b) the handler follows the node's chain and the wallet is ready: the store is the ledger of that chain *)
Lemma xinv_ready_correct : forall n st, xinv n st -> status_of st w = Some WReady -> x_w st = L p kown n.
Proof.
  intros n st [Hwf Hg HU Hsy Hkeys Hdead Hcov [top [Htop [Hrange [Hcr _]]]]] Hs.
  destruct Htop as [Hs'|[_ Ht]]; [congruence|].
  rewrite (xw_eta st). unfold L. rewrite Hcr, Hsy, Ht, upto_all. reflexivity.
Qed.

Lemma xinv_unready : forall c st, xinv c st -> status_of st w <> Some WReady -> use_wallet st w = UUnready.
Proof.
  intros c st [_ _ _ _ _ _ _ [top [Htop _]]] Hs. destruct Htop as [Hs'|[Hs' _]]; [|contradiction].
  unfold use_wallet. rewrite Hs'. reflexivity.
Qed.

Lemma xinv_cursor_range : forall c st k, xinv c st -> status_of st w = Some (WImporting k) -> 0 <= k <= chain_height c.
Proof.
  intros c st k [_ _ _ _ _ _ _ [top [Htop [Hr _]]]] Hs. destruct Htop as [Hs'|[Hs' _]]; [|congruence].
  rewrite Hs in Hs'. inversion Hs'. subst. assumption.
Qed.

(* in step, the state is the one the static theorem starts from *)
Lemma xinv_importing : forall n st k, xinv n st -> status_of st w = Some (WImporting k) ->
  importing p n w kown k st.
Proof.
  intros n st k [Hwf Hg HU Hsy Hkeys Hdead Hcov [top [Htop [Hrange [Hcr [Hbok _]]]]]] Hs.
  destruct Htop as [Hs'|[Hs' _]]; [|congruence]. rewrite Hs in Hs'. inversion Hs'. subst top.
  constructor; try assumption.
  - rewrite Hdead. reflexivity.
  - apply own_w_kown. assumption.
Qed.

(* (c) in step with a static chain: every batch commits and advances the cursor by B, or hands over *)
Lemma batch_progress : forall B n st k, 0 < B -> xinv n st -> status_of st w = Some (WImporting k) ->
  let stop := Z.min (k + B) (chain_height n) in
  snd (import_batch repaired p B n st w) = IOk /\
  status_of (fst (import_batch repaired p B n st w)) w =
    Some (if stop =? chain_height n then WReady else WImporting stop).
Proof.
  intros B n st k HB Hinv Hs stop. pose proof (xi_wf _ _ Hinv) as Hwf.
  destruct (import_batch_step repaired p B n w kown k st Hwf HB (xinv_importing n st k Hinv Hs)) as [st' [Hb [_ [_ Hcase]]]].
  rewrite Hb. cbn [fst snd]. split; [reflexivity|]. fold stop in Hcase.
  destruct (stop =? chain_height n); [assumption|]. destruct Hcase. assumption.
Qed.

Lemma batches_ready : forall fx B n m st, status_of st w = Some WReady -> batches fx p B n st w m = st.
Proof.
  intros fx B n m. induction m as [|m IH]; intros st Hs; [reflexivity|].
  cbn [batches]. rewrite (batch_noop_when_ready fx p B n st w Hs). cbn [fst]. apply IH. assumption.
Qed.

Lemma batches_inv : forall B n m c st, ninv n -> 0 < B -> xinv c st -> xinv c (batches repaired p B n st w m).
Proof.
  intros B n m. induction m as [|m IH]; intros c st Hn HB Hinv; [assumption|].
  cbn [batches]. apply IH; try assumption. apply batch_inv; assumption.
Qed.

Lemma batches_live : forall B n m st k, ninv n -> 0 < B -> xinv n st ->
  status_of st w = Some (WImporting k) -> chain_height n < k + Z.of_nat m * B ->
  status_of (batches repaired p B n st w m) w = Some WReady.
Proof.
  intros B n m. induction m as [|m IH]; intros st k Hn HB Hinv Hs Hm.
  - pose proof (xinv_cursor_range n st k Hinv Hs). lia.
  - cbn [batches]. destruct (batch_progress B n st k HB Hinv Hs) as [_ Hst].
    pose proof (batch_inv B n n st Hn HB Hinv) as Hinv1.
    destruct (Z.min (k + B) (chain_height n) =? chain_height n) eqn:Es.
    + rewrite batches_ready; assumption.
    + apply Z.eqb_neq in Es. apply (IH _ (Z.min (k + B) (chain_height n)) Hn HB Hinv1 Hst). lia.
Qed.

(* ---------------------------------------------------------------- the start *)

Lemma xinv_import_start : forall c0 pass st1,
  wf_chain c0 -> from_g g c0 -> incl c0 U -> keys <> [] ->
  import_start (xinit c0) w pass (map fst keys) = Some st1 ->
  (forall e, In e keys -> snd e = w) ->
  xinv c0 st1.
Proof.
  intros c0 pass st1 Hwf Hg HU Hne H Hall. unfold import_start in H. cbn in H. inversion H. subst st1. clear H.
  assert (Hk : map (fun sh => (sh, w)) (map fst keys) = keys).
  { rewrite map_map. rewrite <- (map_id keys) at 2. apply map_ext_in. intros [a b] Hin. cbn. rewrite <- (Hall _ Hin). reflexivity. }
  destruct (wf_genesis _ Hwf) as [g0 [rest [Hc [Hh [Htx Hl]]]]].
  constructor; cbn [x_w credits synced x_keys x_dead x_brecs xinit]; try assumption; try reflexivity.
  - intros c [].
  - exists 0. split; [|split].
    + left. unfold status_of. cbn. destruct keys; [contradiction|]. cbn. rewrite N.eqb_refl. reflexivity.
    + unfold chain_height. subst c0. cbn [length]. lia.
    + unfold clean. cbn [x_w credits x_brecs xinit]. split; [|split].
      * unfold upto. cbn. subst c0. cbn. unfold ptxs. cbn. unfold ptxs_of_block. rewrite Htx. reflexivity.
      * intros br [].
      * intros br [].
Qed.

End Moving.

(* ================================================================ Part 7: histories *)

Section MovingHistory.
Variable p : params.
Variable g : block.
Variable U : list block.
Hypothesis U_ids : forall b1 b2, In b1 U -> In b2 U -> b_id b1 = b_id b2 -> b1 = b2.
Variable w : N.
Variable keys : list (N * N).
Hypothesis keys_w : forall sh v, lookupN keys sh = Some v -> v = w.
Variable B cap : Z.
Hypothesis B_pos : 0 < B.

(* what the environment may do at simulation state s:
   - the node connects a block b (of the universe U in which ids name one block) that keeps its chain well
     formed — any such block, also one it disconnected earlier and the handler still has as synced;
   - the node disconnects its best block (not the genesis);
   - the handler processes the announcement of any block of U but the genesis — now, whatever the node's
     chain is at that moment;
   - the worker runs one rescan batch of wallet w. *)
Definition ev_ok (s : xsim) (e : xevent) : Prop :=
  match e with
  | XAttach b => In b U /\ wf_chain (xs_node s ++ [b])
  | XDetach => wf_chain (removelast (xs_node s))
  | XProcess b => In b U /\ b <> g
  | XBatch v => v = w
  | _ => False
  end.

Fixpoint xwf (s : xsim) (h : list xevent) : Prop :=
  match h with
  | [] => True
  | e :: r => ev_ok s e /\ xwf (xstep repaired p B cap s e) r
  end.

Definition sinv (s : xsim) : Prop :=
  xs_crashed s = false /\ ninv g U (xs_node s) /\ exists c, xinv p g U w keys c (xs_st s).

Lemma from_g_removelast : forall n, from_g g n -> removelast n <> [] -> from_g g (removelast n).
Proof.
  intros n [n' Hn] Hne. subst n. destruct n' as [|x n']; [cbn in Hne; contradiction|].
  exists (removelast (x :: n')). reflexivity.
Qed.

Lemma xinv_step : forall s e c,
  xs_crashed s = false -> ninv g U (xs_node s) -> xinv p g U w keys c (xs_st s) -> ev_ok s e ->
  let s' := xstep repaired p B cap s e in
  xs_crashed s' = false /\ ninv g U (xs_node s') /\
  exists c', xinv p g U w keys c' (xs_st s') /\ incl c' (c ++ xs_node s).
Proof.
  intros s e c Hcr Hninv Hinv Hok. pose proof Hninv as [Hwfn [Hgn HnU]].
  assert (Hcc : incl c (c ++ xs_node s)) by (apply incl_appl; apply incl_refl).
  destruct e as [b| |b|w0 ps|sh w0|w0 ps shs|v|w0 ps|w0|w0|]; cbn [ev_ok] in Hok; try contradiction.
  - (* attach *)
    destruct Hok as [HbU Hwf']. cbn [xstep]. split; [assumption|]. cbn [xs_node xs_st]. split.
    + split; [assumption|split].
      * destruct Hgn as [n' Hn']. rewrite Hn'. exists (n' ++ [b]). reflexivity.
      * intros z Hz. apply in_app_or in Hz. destruct Hz as [Hz|[Hz|[]]]; [apply HnU; assumption|subst z; assumption].
    + exists c. split; assumption.
  - (* detach *)
    cbn [xstep]. split; [assumption|]. cbn [xs_node xs_st]. split.
    + split; [assumption|split].
      * apply from_g_removelast; [assumption|]. apply wf_nonempty. assumption.
      * intros z Hz. apply HnU. apply removelast_in. assumption.
    + exists c. split; assumption.
  - (* process *)
    destruct Hok as [HbU Hbg]. cbn [xstep]. rewrite Hcr.
    destruct (xprocess repaired p (xs_node s) (xs_st s) b) as [st'| |] eqn:Hx.
    + destruct (xprocess_inv p g U U_ids w keys keys_w c _ _ b st' Hninv Hinv HbU Hbg Hx) as [c' [Hinv' Hincl]].
      split; [assumption|]. cbn [with_st xs_node xs_st]. split; [assumption|]. exists c'. split; assumption.
    + split; [assumption|]. split; [assumption|]. exists c. split; assumption.
    + exfalso. apply (xprocess_repaired_no_panic p _ _ _ Hx).
  - (* batch *)
    subst v. cbn [xstep]. split; [assumption|]. cbn [with_st xs_node xs_st]. split; [assumption|].
    exists c. split; [|assumption]. apply (batch_inv p g U U_ids w keys B c _ _ Hninv B_pos Hinv).
Qed.

Lemma sinv_step : forall s e, sinv s -> ev_ok s e -> sinv (xstep repaired p B cap s e).
Proof.
  intros s e [Hcr [Hninv [c Hinv]]] Hok.
  destruct (xinv_step s e c Hcr Hninv Hinv Hok) as [H1 [H2 [c' [H3 _]]]].
  split; [assumption|split; [assumption|exists c'; assumption]].
Qed.

Lemma sinv_run : forall h s, sinv s -> xwf s h -> sinv (fold_left (xstep repaired p B cap) h s).
Proof.
  induction h as [|e r IH]; intros s Hs Hwf; [assumption|].
  cbn [fold_left]. destruct Hwf as [Hok Hr]. apply IH; [apply sinv_step; assumption|assumption].
Qed.

(* the handler has processed the node's tip *)
Definition in_step (s : xsim) : Prop := snd (tip (x_w (xs_st s))) = b_id (last (xs_node s) g).

Lemma sinv_in_step : forall s, sinv s -> in_step s -> xinv p g U w keys (xs_node s) (xs_st s).
Proof.
  intros s [_ [Hninv [c Hinv]]] Hstep.
  rewrite <- (xinv_in_step p g U U_ids w keys c _ _ Hninv Hinv Hstep). assumption.
Qed.

(* (b) *)
Lemma sinv_correct : forall s, sinv s -> in_step s -> status_of (xs_st s) w = Some WReady ->
  let own := own_w (xs_st s) w in
  ledger_of_chain p true own (xs_node s) = Ok (x_w (xs_st s)) /\
  xreport (xs_st s) w = spec_report p own (xs_node s) w.
Proof.
  intros s Hs Hstep Hr own. pose proof (sinv_in_step s Hs Hstep) as Hinv.
  destruct Hs as [_ [[Hwfn _] _]].
  assert (Hown : own = kown w keys). { apply own_w_kown. apply (xi_keys _ _ _ _ _ _ _ Hinv). }
  rewrite Hown. pose proof (xinv_ready_correct p g U w keys _ _ Hinv Hr) as Hx.
  split; [rewrite Hx; apply ledger_of_chain_L; assumption|].
  unfold xreport. rewrite Hx. apply report_L. assumption.
Qed.

Lemma sinv_unready : forall s, sinv s -> status_of (xs_st s) w <> Some WReady -> use_wallet (xs_st s) w = UUnready.
Proof. intros s [_ [_ [c Hinv]]] H. apply (xinv_unready p g U w keys c _ Hinv H). Qed.

Lemma sinv_alive : forall s, sinv s -> x_dead (xs_st s) = [] /\ xs_crashed s = false.
Proof. intros s [Hc [_ [c Hinv]]]. split; [apply (xi_dead _ _ _ _ _ _ _ Hinv)|assumption]. Qed.

(* the handler always accepts the announcement of a block of the node's chain; of the tip: in step again *)
Lemma sinv_process_tip : forall s b, sinv s -> last (xs_node s) g = b -> b <> g ->
  let s' := xstep repaired p B cap s (XProcess b) in
  sinv s' /\ in_step s' /\ xs_node s' = xs_node s.
Proof.
  intros s b Hs Hlast Hbg s'. pose proof Hs as [Hcr [Hninv [c Hinv]]]. pose proof Hninv as [Hwfn [Hgn HnU]].
  pose proof (wf_nonempty _ Hwfn) as Hnne.
  pose proof (app_removelast_last g Hnne) as Hn. rewrite Hlast in Hn.
  assert (Hne : removelast (xs_node s) <> []).
  { intros Hnil. rewrite Hnil in Hn. destruct Hgn as [n' Hn']. rewrite Hn' in Hn. cbn [app] in Hn. inversion Hn. congruence. }
  destruct (xprocess_on_node p g U U_ids w keys keys_w c _ _ b _ [] Hninv Hinv Hn Hne) as [st' [Hx Hinv']].
  rewrite <- Hn in Hinv'.
  assert (Hs' : s' = with_st s st'). { unfold s'. cbn [xstep]. rewrite Hcr, Hx. reflexivity. }
  rewrite Hs'. cbn [with_st xs_node xs_st]. split; [|split; [|reflexivity]].
  - split; [assumption|]. split; [assumption|]. exists (xs_node s). assumption.
  - unfold in_step. cbn [with_st xs_node xs_st]. rewrite (xw_eta st'), (xi_synced _ _ _ _ _ _ _ Hinv').
    rewrite Hn at 1. rewrite tip_synced_of. rewrite Hlast. reflexivity.
Qed.

(* (c) liveness: chain static, handler in step, batches scheduled *)
Lemma fold_batches : forall m s,
  fold_left (xstep repaired p B cap) (repeat (XBatch w) m) s =
  with_st s (batches repaired p B (xs_node s) (xs_st s) w m).
Proof.
  induction m as [|m IH]; intros s.
  - cbn. destruct s. reflexivity.
  - cbn [repeat fold_left]. rewrite IH. cbn [xstep with_st xs_node xs_st batches]. reflexivity.
Qed.

Lemma import_batch_keeps_synced : forall fx n st, synced (x_w (fst (import_batch fx p B n st w))) = synced (x_w st).
Proof.
  intros fx n st. unfold import_batch. destruct (status_of st w) as [[|k|]|]; try reflexivity.
  destruct (memN w (x_dead st)); [reflexivity|].
  destruct (import_blocks _ _ _ _ _ _ _) as [[cs brs]|e]; [destruct (f_import_tipcheck fx && negb _); reflexivity|].
  destruct e; [| |destruct (f_import_retry fx)]; reflexivity.
Qed.

Lemma batches_keep_synced : forall fx n m st, synced (x_w (batches fx p B n st w m)) = synced (x_w st).
Proof.
  intros fx n m. induction m as [|m IH]; intros st; [reflexivity|].
  cbn [batches]. rewrite IH. apply import_batch_keeps_synced.
Qed.

Lemma sinv_live : forall s m, sinv s -> in_step s ->
  (forall k, status_of (xs_st s) w = Some (WImporting k) -> chain_height (xs_node s) < k + Z.of_nat m * B) ->
  let s' := fold_left (xstep repaired p B cap) (repeat (XBatch w) m) s in
  sinv s' /\ in_step s' /\ xs_node s' = xs_node s /\ status_of (xs_st s') w = Some WReady.
Proof.
  intros s m Hs Hstep Hm s'. pose proof (sinv_in_step s Hs Hstep) as Hinv.
  pose proof Hs as [Hcr [Hninv _]].
  unfold s'. rewrite fold_batches. cbn [with_st xs_node xs_st xs_crashed].
  pose proof (batches_inv p g U U_ids w keys B (xs_node s) m _ _ Hninv B_pos Hinv) as Hinv'.
  split; [|split; [|split; [reflexivity|]]].
  - split; [assumption|]. split; [assumption|]. eexists. exact Hinv'.
  - unfold in_step in *. cbn [with_st xs_node xs_st]. unfold tip in *. rewrite batches_keep_synced. assumption.
  - destruct (xi_state _ _ _ _ _ _ _ Hinv) as [top [[Hsi|[Hsr _]] _]].
    + apply (batches_live p g U U_ids w keys B _ m _ top Hninv B_pos Hinv Hsi). apply Hm. assumption.
    + rewrite batches_ready; assumption.
Qed.

End MovingHistory.

(* ---------------------------------------------------------------- packaged *)

Definition keys_of (w : N) (shs : list N) : list (N * N) := map (fun a => (a, w)) shs.

Lemma keys_of_w : forall w shs sh v, lookupN (keys_of w shs) sh = Some v -> v = w.
Proof.
  intros w shs sh v H. apply lookupN_in in H. unfold keys_of in H. apply in_map_iff in H.
  destruct H as [a [Ha _]]. inversion Ha. reflexivity.
Qed.

(* (a) the invariant holds after every well-formed history of chain events and batches, whatever chain
   c0 the handler follows and whatever chain n0 the node has when the wallet is restored *)
Theorem import_moving_from : forall p g U w pass sh shs B cap c0 n0 all0 st1 h,
  (forall b1 b2, In b1 U -> In b2 U -> b_id b1 = b_id b2 -> b1 = b2) -> 0 < B ->
  wf_chain c0 -> from_g g c0 -> incl c0 U -> wf_chain n0 -> from_g g n0 -> incl n0 U ->
  import_start (xinit c0) w pass (sh :: shs) = Some st1 ->
  let s0 := {| xs_node := n0; xs_st := st1; xs_all := all0; xs_crashed := false |} in
  xwf p g U w B cap s0 h ->
  sinv p g U w (keys_of w (sh :: shs)) (fold_left (xstep repaired p B cap) h s0).
Proof.
  intros p g U w pass sh shs B cap c0 n0 all0 st1 h Uids HB Hwfc Hgc HcU Hwfn Hgn HnU Hst s0 Hwf.
  apply (sinv_run p g U Uids w _ (keys_of_w w (sh :: shs)) B cap HB); [|assumption].
  split; [reflexivity|]. split; [split; [assumption|split; assumption]|].
  exists c0. cbn [s0 xs_node xs_st].
  apply (xinv_import_start p g U w _ (keys_of_w w (sh :: shs)) c0 pass st1); try assumption.
  - discriminate.
  - unfold keys_of. rewrite map_map. cbn [fst]. rewrite map_id. assumption.
  - intros e He. unfold keys_of in He. apply in_map_iff in He. destruct He as [a [Ha _]]. subst e. reflexivity.
Qed.

Lemma xrun_import_start : forall fx p B cap n0 w pass sh shs,
  exists st1, import_start (xinit n0) w pass (sh :: shs) = Some st1 /\
    xrun fx p B cap n0 [XImportStart w pass (sh :: shs)] =
    {| xs_node := n0; xs_st := st1; xs_all := flat_map b_txs n0; xs_crashed := false |}.
Proof. intros. eexists. split; reflexivity. Qed.

Lemma xrun_cons : forall fx p B cap n0 e h,
  xrun fx p B cap n0 (e :: h) = fold_left (xstep fx p B cap) h (xrun fx p B cap n0 [e]).
Proof. reflexivity. Qed.

Lemma xrun_app : forall fx p B cap n0 h1 h2,
  xrun fx p B cap n0 (h1 ++ h2) = fold_left (xstep fx p B cap) h2 (xrun fx p B cap n0 h1).
Proof. intros. unfold xrun. apply fold_left_app. Qed.

Lemma xrun_sinv : forall p g U w pass sh shs B cap n0 h,
  (forall b1 b2, In b1 U -> In b2 U -> b_id b1 = b_id b2 -> b1 = b2) -> 0 < B ->
  wf_chain n0 -> from_g g n0 -> incl n0 U ->
  xwf p g U w B cap (xrun repaired p B cap n0 [XImportStart w pass (sh :: shs)]) h ->
  sinv p g U w (keys_of w (sh :: shs)) (xrun repaired p B cap n0 (XImportStart w pass (sh :: shs) :: h)).
Proof.
  intros p g U w pass sh shs B cap n0 h Uids HB Hwfn Hgn HnU Hwf.
  rewrite xrun_cons. destruct (xrun_import_start repaired p B cap n0 w pass sh shs) as [st1 [Hst Hrun]].
  rewrite Hrun in *.
  apply (import_moving_from p g U w pass sh shs B cap n0 n0 _ st1 h); assumption.
Qed.

(* T (a)+(b): C07, the chain moving *)
Theorem import_equals_live_moving : forall p g U w pass sh shs B cap n0 h,
  (forall b1 b2, In b1 U -> In b2 U -> b_id b1 = b_id b2 -> b1 = b2) -> 0 < B ->
  wf_chain n0 -> from_g g n0 -> incl n0 U ->
  xwf p g U w B cap (xrun repaired p B cap n0 [XImportStart w pass (sh :: shs)]) h ->
  let s := xrun repaired p B cap n0 (XImportStart w pass (sh :: shs) :: h) in
  let own := own_w (xs_st s) w in
  sinv p g U w (keys_of w (sh :: shs)) s /\
  (in_step g s -> status_of (xs_st s) w = Some WReady ->
     ledger_of_chain p true own (xs_node s) = Ok (x_w (xs_st s)) /\
     xreport (xs_st s) w = spec_report p own (xs_node s) w) /\
  (status_of (xs_st s) w <> Some WReady -> use_wallet (xs_st s) w = UUnready) /\
  x_dead (xs_st s) = [] /\ xs_crashed s = false.
Proof.
  intros p g U w pass sh shs B cap n0 h Uids HB Hwfn Hgn HnU Hwf s own.
  pose proof (xrun_sinv p g U w pass sh shs B cap n0 h Uids HB Hwfn Hgn HnU Hwf) as Hs. fold s in Hs.
  split; [assumption|]. split; [|split].
  - intros Hstep Hr. apply (sinv_correct p g U Uids w _ s Hs Hstep Hr).
  - apply (sinv_unready p g U w _ s Hs).
  - apply (sinv_alive p g U w _ s Hs).
Qed.

(* T: the announcement of the node's best block is always accepted, whatever happened before; the handler
   is then in step and a ready wallet has the ledger of the node's chain *)
Theorem import_moving_process_tip : forall p g U w pass sh shs B cap n0 h b,
  (forall b1 b2, In b1 U -> In b2 U -> b_id b1 = b_id b2 -> b1 = b2) -> 0 < B ->
  wf_chain n0 -> from_g g n0 -> incl n0 U ->
  xwf p g U w B cap (xrun repaired p B cap n0 [XImportStart w pass (sh :: shs)]) h ->
  last (xs_node (xrun repaired p B cap n0 (XImportStart w pass (sh :: shs) :: h))) g = b -> b <> g ->
  let s := xrun repaired p B cap n0 (XImportStart w pass (sh :: shs) :: h ++ [XProcess b]) in
  let own := own_w (xs_st s) w in
  in_step g s /\
  (status_of (xs_st s) w = Some WReady ->
     ledger_of_chain p true own (xs_node s) = Ok (x_w (xs_st s)) /\
     xreport (xs_st s) w = spec_report p own (xs_node s) w).
Proof.
  intros p g U w pass sh shs B cap n0 h b Uids HB Hwfn Hgn HnU Hwf Hlast Hbg s own.
  pose proof (xrun_sinv p g U w pass sh shs B cap n0 h Uids HB Hwfn Hgn HnU Hwf) as Hs.
  destruct (sinv_process_tip p g U Uids w _ (keys_of_w w (sh :: shs)) B cap _ b Hs Hlast Hbg) as [Hs' [Hstep' _]].
  assert (Heq : s = xstep repaired p B cap (xrun repaired p B cap n0 (XImportStart w pass (sh :: shs) :: h)) (XProcess b)).
  { unfold s. change (XImportStart w pass (sh :: shs) :: h ++ [XProcess b]) with ((XImportStart w pass (sh :: shs) :: h) ++ [XProcess b]).
    rewrite xrun_app. reflexivity. }
  rewrite <- Heq in Hs', Hstep'. split; [assumption|].
  intros Hr. apply (sinv_correct p g U Uids w _ s Hs' Hstep' Hr).
Qed.

(* T (c): liveness.  From any reachable point where the handler is in step, m further batches with a static
   chain make the wallet ready — and correct — as soon as cursor + m * B exceeds the chain height *)
Theorem import_live_moving : forall p g U w pass sh shs B cap n0 h m,
  (forall b1 b2, In b1 U -> In b2 U -> b_id b1 = b_id b2 -> b1 = b2) -> 0 < B ->
  wf_chain n0 -> from_g g n0 -> incl n0 U ->
  xwf p g U w B cap (xrun repaired p B cap n0 [XImportStart w pass (sh :: shs)]) h ->
  let s := xrun repaired p B cap n0 (XImportStart w pass (sh :: shs) :: h) in
  in_step g s ->
  (forall k, status_of (xs_st s) w = Some (WImporting k) -> chain_height (xs_node s) < k + Z.of_nat m * B) ->
  let s' := xrun repaired p B cap n0 (XImportStart w pass (sh :: shs) :: h ++ repeat (XBatch w) m) in
  let own := own_w (xs_st s') w in
  xs_node s' = xs_node s /\ in_step g s' /\ status_of (xs_st s') w = Some WReady /\
  ledger_of_chain p true own (xs_node s') = Ok (x_w (xs_st s')) /\
  xreport (xs_st s') w = spec_report p own (xs_node s') w.
Proof.
  intros p g U w pass sh shs B cap n0 h m Uids HB Hwfn Hgn HnU Hwf s Hstep Hm s' own.
  pose proof (xrun_sinv p g U w pass sh shs B cap n0 h Uids HB Hwfn Hgn HnU Hwf) as Hs. fold s in Hs.
  destruct (sinv_live p g U Uids w _ B cap HB s m Hs Hstep Hm) as [Hs' [Hstep' [Hnode Hr]]].
  assert (Heq : s' = fold_left (xstep repaired p B cap) (repeat (XBatch w) m) s).
  { unfold s', s. change (XImportStart w pass (sh :: shs) :: h ++ repeat (XBatch w) m)
      with ((XImportStart w pass (sh :: shs) :: h) ++ repeat (XBatch w) m). apply xrun_app. }
  rewrite <- Heq in Hs', Hstep', Hnode, Hr.
  split; [assumption|split; [assumption|split; [assumption|]]].
  apply (sinv_correct p g U Uids w _ s' Hs' Hstep' Hr).
Qed.

(* ---------------------------------------------------------------- between: what a batch can answer *)

(* repaired: a batch commits or is retried; the task is never dropped *)
Lemma batch_never_abandons : forall p B n st w,
  snd (import_batch repaired p B n st w) <> IAbandon /\ x_dead (fst (import_batch repaired p B n st w)) = x_dead st.
Proof.
  intros p B n st w. unfold import_batch. destruct (status_of st w) as [[|k|]|]; try (split; [discriminate|reflexivity]).
  destruct (memN w (x_dead st)); [split; [discriminate|reflexivity]|].
  destruct (import_blocks _ _ _ _ _ _ _) as [[cs brs]|e].
  - destruct (f_import_tipcheck repaired && negb _); split; try discriminate; reflexivity.
  - destruct e; cbn; split; try discriminate; reflexivity.
Qed.

(* the rescan loop fails with "retry" or "abandon" only *)
Lemma import_tx_err : forall p own n h bid acc t e, import_tx p own n h bid acc t = inr e -> e <> IOk.
Proof.
  intros p own n h bid [cs brs] t e H. rewrite import_tx_unfold in H.
  destruct (if t_cb t then Some [] else import_ins own n h (t_ins t) 0%N) as [ins|]; [|inversion H; discriminate].
  assert (Hb : forall ins outs, import_body p h bid cs brs t ins outs = inr e -> e <> IOk).
  { intros ins0 outs0 Hb. unfold import_body in Hb. destruct (negb _); [inversion Hb; discriminate|].
    destruct (apply_ins cs t h ins0) as [cs1|]; [|inversion Hb; discriminate].
    destruct (apply_outs p cs1 t h bid outs0); inversion Hb; discriminate. }
  destruct ins; destruct (filter_outs own (t_outs t) 0%N); try discriminate; apply (Hb _ _ H).
Qed.

Lemma import_txs_err : forall p own n h bid ts acc e, import_txs p own n h bid acc ts = inr e -> e <> IOk.
Proof.
  intros p own n h bid ts. induction ts as [|t r IH]; intros acc e H; [discriminate|].
  cbn [import_txs] in H. destruct (import_tx p own n h bid acc t) as [acc'|e'] eqn:Ht.
  - apply (IH _ _ H).
  - inversion H. subst e'. apply (import_tx_err _ _ _ _ _ _ _ _ Ht).
Qed.

Lemma import_blocks_err : forall p own n k stop bs acc e, import_blocks p own n k stop acc bs = inr e -> e <> IOk.
Proof.
  intros p own n k stop bs. induction bs as [|b r IH]; intros acc e H; [discriminate|].
  cbn [import_blocks] in H. destruct ((k <? b_height b) && (b_height b <=? stop)); [|apply (IH _ _ H)].
  destruct (import_txs p own n (b_height b) (b_id b) acc (filter (touches own n (b_height b)) (b_txs b))) as [acc'|e'] eqn:Ht.
  - apply (IH _ _ H).
  - inversion H. subst e'. apply (import_txs_err _ _ _ _ _ _ _ _ Ht).
Qed.

(* repaired: a batch that finds the node's block at its upper height different from the handler's synced
   block of that height (or one of them missing) changes nothing and is retried *)
Lemma batch_refused_off_chain : forall p B n st w k,
  status_of st w = Some (WImporting k) ->
  node_on_synced n (x_w st) (Z.min (k + B) (fst (tip (x_w st)))) = false ->
  import_batch repaired p B n st w = (st, if memN w (x_dead st) then IOk else IRetry).
Proof.
  intros p B n st w k Hs Hchk. unfold import_batch. rewrite Hs. destruct (memN w (x_dead st)); [reflexivity|].
  rewrite Hchk. destruct (import_blocks _ _ _ _ _ _ _) as [[cs brs]|e] eqn:Hb; [reflexivity|].
  pose proof (import_blocks_err _ _ _ _ _ _ _ _ Hb) as He. destruct e; [contradiction|reflexivity|reflexivity].
Qed.

(* repaired, under the invariant: a batch that commits has read blocks of the handler's chain only — the
   node's chain and the handler's are the same up to the batch's upper height *)
Lemma batch_ok_on_chain : forall p g U, (forall b1 b2, In b1 U -> In b2 U -> b_id b1 = b_id b2 -> b1 = b2) ->
  forall w keys B c n st k, ninv g U n -> xinv p g U w keys c st ->
  status_of st w = Some (WImporting k) ->
  snd (import_batch repaired p B n st w) = IOk ->
  let stop := Z.min (k + B) (chain_height c) in
  stop <= chain_height n /\ upto stop c = upto stop n.
Proof.
  intros p g U Uids w keys B c n st k Hninv Hinv Hs Hok stop.
  assert (Hbest : fst (tip (x_w st)) = chain_height c).
  { rewrite (xw_eta st), (xi_synced _ _ _ _ _ _ _ Hinv). apply tip_of_synced. apply (xi_wf _ _ _ _ _ _ _ Hinv). }
  destruct (node_on_synced n (x_w st) stop) eqn:Hchk.
  - destruct (node_on_synced_upto p g U Uids w keys c n st stop Hninv Hinv Hchk) as [_ [H1 H2]]. split; assumption.
  - exfalso. unfold stop in Hchk. rewrite <- Hbest in Hchk.
    rewrite (batch_refused_off_chain p B n st w k Hs Hchk) in Hok. rewrite (xi_dead _ _ _ _ _ _ _ Hinv) in Hok.
    cbn in Hok. discriminate.
Qed.

(* ---------------------------------------------------------------- decidable well-formedness (for closed examples) *)

Definition in_b (b : block) (U : list block) : bool := existsb (block_eqb b) U.

Lemma in_b_sound : forall b U, in_b b U = true -> In b U.
Proof.
  intros b U H. unfold in_b in H. apply existsb_exists in H. destruct H as [x [Hx He]].
  rewrite (block_eqb_sound _ _ He). assumption.
Qed.

Definition ev_ok_b (g : block) (U : list block) (w : N) (s : xsim) (e : xevent) : bool :=
  match e with
  | XAttach b => in_b b U && wf_chain_b (xs_node s ++ [b])
  | XDetach => wf_chain_b (removelast (xs_node s))
  | XProcess b => in_b b U && negb (b_id b =? b_id g)%N
  | XBatch v => (v =? w)%N
  | _ => false
  end.

Fixpoint xwf_b (p : params) (g : block) (U : list block) (w : N) (B cap : Z) (s : xsim) (h : list xevent) : bool :=
  match h with
  | [] => true
  | e :: r => ev_ok_b g U w s e && xwf_b p g U w B cap (xstep repaired p B cap s e) r
  end.

Lemma xwf_b_sound : forall p g U w B cap h s, xwf_b p g U w B cap s h = true -> xwf p g U w B cap s h.
Proof.
  intros p g U w B cap. induction h as [|e r IH]; intros s H; [exact I|].
  cbn [xwf_b] in H. apply andb_true_iff in H. destruct H as [He Hr]. split; [|apply IH; assumption].
  destruct e as [b| |b|w0 ps|sh w0|w0 ps shs|v|w0 ps|w0|w0|]; cbn [ev_ok_b ev_ok] in *; try discriminate.
  - apply andb_true_iff in He. destruct He as [Hu Hw].
    split; [apply in_b_sound; assumption|apply wf_chain_b_sound; assumption].
  - apply wf_chain_b_sound. assumption.
  - apply andb_true_iff in He. destruct He as [Hu Hn]. split; [apply in_b_sound; assumption|].
    intros Heq. subst b. rewrite N.eqb_refl in Hn. discriminate.
  - apply N.eqb_eq. assumption.
Qed.

(* in step and still importing: exactly the state the static theorem ([import_equals_live]) starts from *)
Lemma sinv_importing : forall p g U w keys s k,
  (forall b1 b2, In b1 U -> In b2 U -> b_id b1 = b_id b2 -> b1 = b2) ->
  sinv p g U w keys s -> in_step g s -> status_of (xs_st s) w = Some (WImporting k) ->
  importing p (xs_node s) w (own_w (xs_st s) w) k (xs_st s).
Proof.
  intros p g U w keys s k Uids Hs Hstep Hk.
  pose proof (sinv_in_step p g U Uids w keys s Hs Hstep) as Hinv.
  rewrite (own_w_kown w keys _ (xi_keys _ _ _ _ _ _ _ Hinv)).
  apply (xinv_importing p g U w keys _ _ k Hinv Hk).
Qed.
