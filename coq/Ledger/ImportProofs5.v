(* Ledger/ImportProofs5.v — C07: "a shared transaction is recorded once", in general.

   The block records ([x_brecs]) hold at most one record per height and every record lists a transaction id
   at most once — whatever the rescan of a restored wallet, the live handler (extensions, reorganisations)
   and the Rollback do, in any interleaving.  With the invariant of ImportProofs3 ([minv]: every credit's
   creating transaction and every spent mark's spender are listed, the store is the live ledger of ALL
   wallets) this gives: once the handler is in step and the restored wallet ready, every transaction of the
   node's chain that pays a wallet of the database, or spends a coin of one, is listed EXACTLY once, in THE
   record of its block's height, and that record names the block.

   Part A  the field-free invariant [brs_nodup] and its preservation by every operation and every event
   Part B  the conclusion in the setting of ImportProofs3.Packaged ([import_records_once_multi])
   Part C  boolean checker

   NOT claimed: the converse (only relevant transactions are listed).  It does not follow from [minv] +
   [brs_nodup]: neither says anything about an id that is listed but belongs to no credit. *)
From Coq Require Import List ZArith NArith Bool Lia Permutation.
Import ListNotations.
Open Scope Z_scope.
Require Import MW.Ledger.Model MW.Ledger.Spec MW.Ledger.Run MW.Ledger.WF MW.Ledger.Import MW.Ledger.Remove.
Require Import MW.Ledger.Proofs MW.Ledger.Proofs2 MW.Ledger.Proofs3 MW.Ledger.Proofs4 MW.Ledger.Proofs5 MW.Ledger.Proofs6.
Require Import MW.Ledger.RemoveProofs MW.Ledger.RemoveProofs2 MW.Ledger.RemoveProofs5 MW.Ledger.ImportProofs MW.Ledger.ImportProofs2.
Require Import MW.Ledger.RemoveProofs3 MW.Ledger.ImportProofs3.

(* ================================================================ Part A: the invariant *)

(* at most one block record per height; each record lists a transaction id at most once *)
Definition brs_nodup (brs : list brec) : Prop :=
  NoDup (map br_h brs) /\ forall br, In br brs -> NoDup (br_txs br).

Lemma brs_nodup_nil : brs_nodup [].
Proof. split; [constructor|intros br []]. Qed.

(* ---------------------------------------------------------------- list utilities *)

Lemma NoDup_map_filter : forall (A B : Type) (g : A -> B) (f : A -> bool) (l : list A),
  NoDup (map g l) -> NoDup (map g (filter f l)).
Proof.
  intros A B g f l. induction l as [|a l IH]; intros H; [constructor|].
  cbn [map] in H. inversion H as [|x xs Hni Hnd]. subst x xs. cbn [filter].
  destruct (f a); [|apply IH; assumption].
  cbn [map]. constructor; [|apply IH; assumption].
  intros Hin. apply Hni. apply in_map_iff in Hin. destruct Hin as [y [Hy Hin]].
  apply filter_In in Hin. destruct Hin as [Hin _]. apply in_map_iff. exists y. split; assumption.
Qed.

Lemma nd_drop_l : forall (A : Type) (a b : list A), NoDup (a ++ b) -> NoDup b.
Proof. intros A a b H. apply NoDup_app_inv in H. tauto. Qed.

Lemma nd_drop_r : forall (A : Type) (a b : list A), NoDup (a ++ b) -> NoDup a.
Proof. intros A a b H. apply NoDup_app_inv in H. tauto. Qed.

Lemma NoDup_flat_map_in : forall (A B : Type) (g : A -> list B) (l : list A) x,
  NoDup (flat_map g l) -> In x l -> NoDup (g x).
Proof.
  intros A B g l x H Hx. apply in_split in Hx. destruct Hx as [l1 [l2 Hl]]. subst l.
  rewrite flat_map_app in H. apply nd_drop_l in H. cbn [flat_map] in H.
  apply nd_drop_r in H. assumption.
Qed.

(* a value occurs in the image of one element only *)
Lemma NoDup_flat_map_uniq : forall (A B : Type) (g : A -> list B) (l : list A) x y a,
  NoDup (flat_map g l) -> NoDup l -> In x l -> In y l -> In a (g x) -> In a (g y) -> x = y.
Proof.
  intros A B g l. induction l as [|z l IH]; intros x y a H Hl Hx Hy Hax Hay; [destruct Hx|].
  cbn [flat_map] in H. inversion Hl as [|z' l' Hzl Hl']. subst z' l'.
  assert (Hsep : forall u, In u l -> In a (g z) -> In a (g u) -> False).
  { intros u Hu Haz Hau. apply in_split in Haz. destruct Haz as [g1 [g2 Hg]]. rewrite Hg in H.
    rewrite <- app_assoc in H. cbn [app] in H. apply NoDup_remove_2 in H. apply H.
    apply in_or_app. right. apply in_or_app. right. apply in_flat_map. exists u. split; assumption. }
  destruct Hx as [Hx|Hx]; destruct Hy as [Hy|Hy].
  - congruence.
  - subst z. exfalso. apply (Hsep y Hy Hax Hay).
  - subst z. exfalso. apply (Hsep x Hx Hay Hax).
  - apply (IH x y a); try assumption. apply nd_drop_l in H. assumption.
Qed.

Lemma filter_unique : forall (brs : list brec) br,
  NoDup (map br_h brs) -> In br brs -> filter (fun x => br_h x =? br_h br) brs = [br].
Proof.
  induction brs as [|a brs IH]; intros br Hnd Hin; [destruct Hin|].
  cbn [map] in Hnd. inversion Hnd as [|x xs Hni Hnd']. subst x xs. cbn [filter].
  destruct Hin as [Hin|Hin].
  - subst a. rewrite Z.eqb_refl. f_equal.
    assert (Hnone : forall y, In y brs -> (br_h y =? br_h br) = false).
    { intros y Hy. apply Z.eqb_neq. intros Heq. apply Hni. rewrite <- Heq. apply in_map. assumption. }
    clear -Hnone. induction brs as [|y brs IH]; [reflexivity|]. cbn [filter].
    rewrite (Hnone y (or_introl eq_refl)). apply IH. intros z Hz. apply Hnone. right. assumption.
  - destruct (br_h a =? br_h br) eqn:E.
    + exfalso. apply Z.eqb_eq in E. apply Hni. rewrite E. apply in_map. assumption.
    + apply IH; assumption.
Qed.

Lemma brec_at_none_notin : forall brs h, brec_at brs h = None -> ~ In h (map br_h brs).
Proof.
  intros brs h H Hin. apply in_map_iff in Hin. destruct Hin as [br [Hh Hbr]].
  unfold brec_at in H. pose proof (find_none _ _ H br Hbr) as Hf. cbn beta in Hf.
  rewrite Hh, Z.eqb_refl in Hf. discriminate.
Qed.

Lemma brec_at_unique : forall brs br, NoDup (map br_h brs) -> In br brs -> brec_at brs (br_h br) = Some br.
Proof.
  intros brs br Hnd Hin. unfold brec_at.
  destruct (find (fun x => br_h x =? br_h br) brs) as [br'|] eqn:Hf.
  - apply find_some in Hf. destruct Hf as [Hin' Hh]. apply Z.eqb_eq in Hh.
    pose proof (filter_unique brs br Hnd Hin) as Hu.
    assert (Hin2 : In br' (filter (fun x => br_h x =? br_h br) brs)).
    { apply filter_In. split; [assumption|apply Z.eqb_eq; assumption]. }
    rewrite Hu in Hin2. destruct Hin2 as [Heq|[]]. subst br'. reflexivity.
  - exfalso. pose proof (find_none _ _ Hf br Hin) as Hn. cbn beta in Hn. rewrite Z.eqb_refl in Hn. discriminate.
Qed.

(* ---------------------------------------------------------------- A1: add_ids *)

Lemma add_ids_nodup : forall brs h bid ids, brs_nodup brs -> NoDup ids -> brs_nodup (add_ids brs h bid ids).
Proof.
  intros brs h bid ids [Hh Ht] Hids. unfold add_ids. destruct ids as [|i0 ir]; [split; assumption|].
  destruct (brec_at brs h) as [br0|] eqn:Hb.
  - split.
    + rewrite map_map. rewrite (map_ext _ br_h); [exact Hh|].
      intros br. destruct (br_h br =? h); reflexivity.
    + intros br Hin. apply in_map_iff in Hin. destruct Hin as [br1 [Heq Hin]].
      destruct (br_h br1 =? h); subst br; [|apply Ht; assumption].
      cbn [br_txs]. apply NoDup_app_intro.
      * apply Ht. assumption.
      * apply NoDup_filter. assumption.
      * intros x Hx Hx'. apply filter_In in Hx'. destruct Hx' as [_ Hm]. apply negb_true_iff in Hm.
        apply memN_in in Hx. congruence.
  - split.
    + rewrite map_app. cbn [map br_h]. apply NoDup_app_intro; [assumption|constructor; [intros []|constructor]|].
      intros x Hx [Hx'|[]]. subst x. apply (brec_at_none_notin _ _ Hb). assumption.
    + intros br Hin. apply in_app_or in Hin. destruct Hin as [Hin|[Hin|[]]]; [apply Ht; assumption|].
      subst br. assumption.
Qed.

(* ---------------------------------------------------------------- A2: the rollback filter *)

Lemma filter_brs_nodup : forall (f : brec -> bool) brs, brs_nodup brs -> brs_nodup (filter f brs).
Proof.
  intros f brs [Hh Ht]. split; [apply NoDup_map_filter; assumption|].
  intros br Hin. apply filter_In in Hin. apply Ht. tauto.
Qed.

(* ---------------------------------------------------------------- A3: the rescan *)

Lemma NoDup_single : forall (x : N), NoDup [x].
Proof. intros x. constructor; [intros []|constructor]. Qed.

Lemma import_body_nodup : forall p h bid cs brs t ins outs cs' brs',
  import_body p h bid cs brs t ins outs = inl (cs', brs') -> brs_nodup brs -> brs_nodup brs'.
Proof.
  intros p h bid cs brs t ins outs cs' brs' H Hnd. unfold import_body in H.
  destruct (negb _); [discriminate|].
  destruct (apply_ins cs t h ins) as [cs1|]; [|discriminate].
  destruct (apply_outs p cs1 t h bid outs) as [cs2|]; [|discriminate].
  remember (add_ids brs h bid [t_id t]) as X eqn:HX. inversion H. subst cs' brs' X.
  apply add_ids_nodup; [assumption|apply NoDup_single].
Qed.

Lemma import_tx_nodup : forall p own n h bid cs brs t cs' brs',
  import_tx p own n h bid (cs, brs) t = inl (cs', brs') -> brs_nodup brs -> brs_nodup brs'.
Proof.
  intros p own n h bid cs brs t cs' brs' H Hnd. rewrite import_tx_unfold in H.
  destruct (if t_cb t then Some [] else import_ins own n h (t_ins t) 0%N) as [ins|]; [|discriminate].
  destruct ins; destruct (filter_outs own (t_outs t) 0%N);
    [inversion H; subst; assumption| | |]; apply (import_body_nodup _ _ _ _ _ _ _ _ _ _ H Hnd).
Qed.

Lemma import_txs_nodup : forall p own n h bid ts cs brs cs' brs',
  import_txs p own n h bid (cs, brs) ts = inl (cs', brs') -> brs_nodup brs -> brs_nodup brs'.
Proof.
  intros p own n h bid ts. induction ts as [|t r IH]; intros cs brs cs' brs' H Hnd.
  - inversion H. subst. assumption.
  - cbn [import_txs] in H. destruct (import_tx p own n h bid (cs, brs) t) as [[cs1 brs1]|e] eqn:Ht; [|discriminate].
    apply (IH _ _ _ _ H). apply (import_tx_nodup _ _ _ _ _ _ _ _ _ _ Ht Hnd).
Qed.

Lemma import_blocks_nodup : forall p own n k stop bs cs brs cs' brs',
  import_blocks p own n k stop (cs, brs) bs = inl (cs', brs') -> brs_nodup brs -> brs_nodup brs'.
Proof.
  intros p own n k stop bs. induction bs as [|b r IH]; intros cs brs cs' brs' H Hnd.
  - inversion H. subst. assumption.
  - cbn [import_blocks] in H. destruct ((k <? b_height b) && (b_height b <=? stop)).
    + destruct (import_txs p own n (b_height b) (b_id b) (cs, brs) (filter (touches own n (b_height b)) (b_txs b)))
        as [[cs1 brs1]|e] eqn:Ht; [|discriminate].
      apply (IH _ _ _ _ H). apply (import_txs_nodup _ _ _ _ _ _ _ _ _ _ Ht Hnd).
    + apply (IH _ _ _ _ H Hnd).
Qed.

(* a rescan batch: ANY fixes, node chain, state, wallet *)
Lemma import_batch_nodup : forall fx p B n st w,
  brs_nodup (x_brecs st) -> brs_nodup (x_brecs (fst (import_batch fx p B n st w))).
Proof.
  intros fx p B n st w Hnd. unfold import_batch.
  destruct (status_of st w) as [[|k|]|]; try assumption.
  destruct (memN w (x_dead st)); [assumption|].
  destruct (import_blocks p (own_w st w) n k (Z.min (k + B) (fst (tip (x_w st)))) (credits (x_w st), x_brecs st) n)
    as [[cs brs]|e] eqn:Hb.
  - destruct (f_import_tipcheck fx && negb _); [assumption|].
    cbn [fst with_status with_brecs with_w x_brecs]. apply (import_blocks_nodup _ _ _ _ _ _ _ _ _ _ Hb Hnd).
  - destruct e; [assumption|assumption|]. destruct (f_import_retry fx); assumption.
Qed.

(* ---------------------------------------------------------------- A4: Rollback *)

Lemma xrollback_nodup : forall fx st h st',
  xrollback fx st h = XOk st' -> brs_nodup (x_brecs st) -> brs_nodup (x_brecs st').
Proof.
  intros fx st h st' H Hnd. unfold xrollback in H.
  destruct (negb (f_rollback fx) && existsb _ (credits (x_w st))); [discriminate|].
  destruct (negb (f_rollback_order fx) && existsb _ (credits (x_w st))); [discriminate|].
  inversion H. cbn [x_brecs]. apply filter_brs_nodup. assumption.
Qed.

(* ---------------------------------------------------------------- A5: connecting a block *)

Lemma filter_tx_rr : forall own view inblk lookup t r, filter_tx own view inblk lookup t = Ok (Some r) -> rr_tx r = t.
Proof.
  intros own view inblk lookup t r H. unfold filter_tx in H.
  destruct (if t_cb t then Ok [] else filter_ins own view inblk lookup (t_ins t) 0%N) as [ins|]; [|discriminate].
  destruct ins; destruct (filter_outs own (t_outs t) 0%N); try discriminate; inversion H; reflexivity.
Qed.

(* the ids recorded for a block are ids of the block's transactions, each at most once when the block lists
   an id once (they are a subsequence of the block's ids) *)
Lemma filter_block_txs_ids : forall own view lookup txs seen recs,
  filter_block_txs own view lookup seen txs = Ok recs ->
  incl (rec_ids recs) (map t_id txs) /\ (NoDup (map t_id txs) -> NoDup (rec_ids recs)).
Proof.
  intros own view lookup txs. induction txs as [|t rest IH]; intros seen recs H.
  - inversion H. subst. split; [intros x []|intros _; constructor].
  - cbn [filter_block_txs] in H.
    destruct (filter_tx own view (seen ++ [t]) lookup t) as [r|] eqn:Ht; [|discriminate].
    destruct (filter_block_txs own view lookup (seen ++ [t]) rest) as [l|] eqn:Hr; [|discriminate].
    destruct (IH _ _ Hr) as [Hincl Hndl]. inversion H. subst recs. clear H. destruct r as [rr|].
    + pose proof (filter_tx_rr _ _ _ _ _ _ Ht) as Hrr. unfold rec_ids in *. cbn [map]. rewrite Hrr. split.
      * intros x [Hx|Hx]; [left; assumption|right; apply Hincl; assumption].
      * intros Hnd. inversion Hnd as [|x xs Hni Hnd']. subst x xs. constructor; [|apply Hndl; assumption].
        intros Hin. apply Hni. apply Hincl. assumption.
    + split.
      * intros x Hx. right. apply Hincl. assumption.
      * intros Hnd. cbn [map] in Hnd. inversion Hnd. apply Hndl. assumption.
Qed.

Lemma xconnect_block_nodup : forall p n st b st',
  xconnect_block p n st b = XOk st' -> NoDup (map t_id (b_txs b)) ->
  brs_nodup (x_brecs st) -> brs_nodup (x_brecs st').
Proof.
  intros p n st b st' H Hb Hnd. unfold xconnect_block in H.
  destruct (node_at n (b_height b)) as [nb|]; [|discriminate].
  destruct (negb (b_id nb =? b_id b)%N); [discriminate|].
  destruct (filter_block_txs (ready_own st) (credits (x_w st)) (node_tx n) [] (b_txs b)) as [recs|] eqn:Hf; [|discriminate].
  destruct (connect_block p true (ready_own st) (credits (x_w st)) (node_tx n) (x_w st) b) as [w'|]; [|discriminate].
  inversion H. cbn [with_brecs x_brecs with_w]. apply add_ids_nodup; [assumption|].
  apply (proj2 (filter_block_txs_ids _ _ _ _ _ _ Hf) Hb).
Qed.

Lemma xconnect_all_nodup : forall p n bs st st',
  xconnect_all p n st bs = XOk st' -> (forall y, In y bs -> NoDup (map t_id (b_txs y))) ->
  brs_nodup (x_brecs st) -> brs_nodup (x_brecs st').
Proof.
  intros p n bs. induction bs as [|x bs IH]; intros st st' H Hbs Hnd.
  - inversion H. subst. assumption.
  - cbn [xconnect_all] in H. destruct (xconnect_block p n st x) as [st1| |] eqn:Hx; try discriminate.
    apply (IH _ _ H); [intros y Hy; apply Hbs; right; assumption|].
    apply (xconnect_block_nodup _ _ _ _ _ Hx); [apply Hbs; left; reflexivity|assumption].
Qed.

(* ---------------------------------------------------------------- A6: an announcement *)

Lemma collect_in_node : forall n st fuel b acc fork bs, collect n st fuel b acc = Some (fork, bs) ->
  forall x, In x bs -> In x acc \/ x = b \/ In x n.
Proof.
  intros n st fuel. induction fuel as [|f IH]; intros b acc fork bs H x Hx; cbn [collect] in H; [discriminate|].
  destruct (match synced_at st (b_height b) with Some bid => (bid =? b_id b)%N | None => false end).
  - inversion H. subst. left. exact Hx.
  - destruct (node_block n (b_prev b)) as [pb|] eqn:E; [|discriminate].
    destruct (IH pb (b :: acc) fork bs H x Hx) as [[Heq|Hin]|[Heq|Hin]].
    + right. left. symmetry. assumption.
    + left. exact Hin.
    + right. right. subst x. unfold node_block in E. apply find_some in E. exact (proj1 E).
    + right. right. exact Hin.
Qed.

Lemma node_block_txids : forall n b, wf_chain n -> In b n -> NoDup (map t_id (b_txs b)).
Proof.
  intros n b Hwf Hb. pose proof (wf_txids _ Hwf) as H. unfold chain_txs in H.
  apply in_split in Hb. destruct Hb as [l1 [l2 Hl]]. subst n.
  rewrite flat_map_app, map_app in H. apply nd_drop_l in H. cbn [flat_map] in H.
  rewrite map_app in H. apply nd_drop_r in H. assumption.
Qed.

Section Announce.
Variable g : block.
Variable U : list block.
Hypothesis U_ids : forall b1 b2, In b1 U -> In b2 U -> b_id b1 = b_id b2 -> b1 = b2.

(* every block the handler connects while processing an announcement is a block of the node's chain (its id
   is checked against the node's block of that height, and an id names one block of the universe): no block
   of the universe needs to be assumed free of repeated transaction ids — the node's chain is *)
Lemma xprocess_nodup : forall fx p n st b st',
  ninv g U n -> In b U ->
  xprocess fx p n st b = XOk st' -> brs_nodup (x_brecs st) -> brs_nodup (x_brecs st').
Proof.
  intros fx p n st b st' [Hwfn [_ HnU]] HbU H Hnd.
  assert (Hall : forall bs st1, (forall y, In y bs -> In y U) -> xconnect_all p n st1 bs = XOk st' ->
                   brs_nodup (x_brecs st1) -> brs_nodup (x_brecs st')).
  { intros bs st1 HbsU Hx Hnd1. apply (xconnect_all_nodup _ _ _ _ _ Hx); [|assumption].
    intros y Hy. destruct (xconnect_all_ok_in _ _ _ _ _ Hx y Hy) as [nb [Hnb Hid]].
    assert (Heq : nb = y) by (apply U_ids; [apply HnU; assumption|apply HbsU; assumption|assumption]).
    subst nb. apply (node_block_txids n y Hwfn Hnb). }
  unfold xprocess in H. destruct (snd (tip (x_w st)) =? b_prev b)%N.
  - apply (Hall [b] st); [|assumption|assumption]. intros y [Hy|[]]. subst y. assumption.
  - destruct (collect n (x_w st) (S (Z.to_nat (b_height b))) b []) as [[fork bs]|] eqn:Hcol; [|discriminate].
    destruct (xrollback fx st (fork + 1)) as [st1| |] eqn:Hrb; try discriminate.
    apply (Hall bs st1); [|assumption|apply (xrollback_nodup _ _ _ _ Hrb Hnd)].
    intros y Hy. destruct (collect_in_node _ _ _ _ _ _ _ Hcol y Hy) as [[]|[Heq|Hin]].
    + subst y. assumption.
    + apply HnU. assumption.
Qed.

(* ---------------------------------------------------------------- A7: histories *)

Lemma xstep_nodup : forall p w B cap s e,
  ninv g U (xs_node s) -> ev_ok g U w s e -> brs_nodup (x_brecs (xs_st s)) ->
  brs_nodup (x_brecs (xs_st (xstep repaired p B cap s e))).
Proof.
  intros p w B cap s e Hninv Hok Hnd.
  destruct e as [b| |b|w0 ps|sh w0|w0 ps shs|v|w0 ps|w0|w0|]; cbn [ev_ok] in Hok; try contradiction.
  - exact Hnd.
  - exact Hnd.
  - destruct Hok as [HbU _]. cbn [xstep]. destruct (xs_crashed s); [assumption|].
    destruct (xprocess repaired p (xs_node s) (xs_st s) b) as [st'| |] eqn:Hx; try assumption.
    cbn [with_st xs_st]. apply (xprocess_nodup _ _ _ _ _ _ Hninv HbU Hx Hnd).
  - cbn [xstep with_st xs_st]. apply import_batch_nodup. assumption.
Qed.

End Announce.

Section History.
Variable p : params.
Variable g : block.
Variable U : list block.
Hypothesis U_ids : forall b1 b2, In b1 U -> In b2 U -> b_id b1 = b_id b2 -> b1 = b2.
Variable w : N.
Variable B cap : Z.
Hypothesis B_pos : 0 < B.

Lemma brs_nodup_run : forall keysA h s,
  sinv_m p g U w keysA s -> xwf p g U w B cap s h -> brs_nodup (x_brecs (xs_st s)) ->
  brs_nodup (x_brecs (xs_st (fold_left (xstep repaired p B cap) h s))).
Proof.
  intros keysA. induction h as [|e r IH]; intros s Hs Hwf Hnd; [assumption|].
  cbn [fold_left]. destruct Hwf as [Hok Hr]. apply IH; [| assumption |].
  - destruct Hs as [Hcr [Hninv [c Hinv]]]. apply (minv_step p g U U_ids w B cap B_pos keysA s e c Hcr Hninv Hinv Hok).
  - destruct Hs as [_ [Hninv _]]. apply (xstep_nodup g U U_ids p w B cap s e Hninv Hok Hnd).
Qed.

End History.

(* ================================================================ Part B: recorded exactly once *)

(* transaction [tid] is listed exactly once among the block records of height [h]; there is exactly one
   record of that height, it names block [bid] and lists [tid] (once) *)
Definition recorded_once (brs : list brec) (h : Z) (bid : N) (tid : N) : Prop :=
  count_occ N.eq_dec (flat_map br_txs (filter (fun br => br_h br =? h) brs)) tid = 1%nat /\
  exists br, brec_at brs h = Some br /\ br_bid br = bid /\ In tid (br_txs br) /\ NoDup (br_txs br) /\
             forall br', In br' brs -> br_h br' = h -> br' = br.

Lemma listed_recorded : forall brs h tid,
  brs_nodup brs -> listed_at brs h tid = true ->
  exists br, In br brs /\ br_h br = h /\ recorded_once brs h (br_bid br) tid.
Proof.
  intros brs h tid [Hh Ht] Hl. unfold listed_at in Hl. apply existsb_exists in Hl.
  destruct Hl as [br [Hbr Hx]]. apply andb_true_iff in Hx. destruct Hx as [Hhe Hm].
  apply Z.eqb_eq in Hhe. apply memN_in in Hm.
  pose proof (filter_unique brs br Hh Hbr) as Hf. rewrite Hhe in Hf.
  exists br. split; [assumption|split; [assumption|]]. split.
  - rewrite Hf. cbn [flat_map]. rewrite app_nil_r.
    apply (proj1 (NoDup_count_occ' N.eq_dec (br_txs br)) (Ht br Hbr)). assumption.
  - exists br. split; [rewrite <- Hhe; apply brec_at_unique; assumption|]. split; [reflexivity|].
    split; [assumption|split; [apply Ht; assumption|]].
    intros br' Hbr' Hh'.
    assert (Hin : In br' (filter (fun x => br_h x =? h) brs)).
    { apply filter_In. split; [assumption|apply Z.eqb_eq; assumption]. }
    rewrite Hf in Hin. destruct Hin as [Heq|[]]. symmetry. assumption.
Qed.

(* ... and the record names the block of the chain at that height *)
Lemma listed_recorded_once : forall c brs b tid,
  brs_nodup brs -> brs_ok c brs -> uniq_heights c -> In b c ->
  listed_at brs (b_height b) tid = true -> recorded_once brs (b_height b) (b_id b) tid.
Proof.
  intros c brs b tid Hnd Hok Hu Hb Hl.
  destruct (listed_recorded brs (b_height b) tid Hnd Hl) as [br [Hbr [Hh Hr]]].
  rewrite (chk_from_ok c brs b Hok Hu Hb br Hbr Hh) in Hr. assumption.
Qed.

(* what makes a transaction relevant to the database *)

(* (pays) an output of a supported class pays a script hash of some keystore of the database *)
Definition pays_db (st : xstate) (t : tx) : Prop :=
  exists o v, In o (t_outs t) /\ o_class o <> CUnsupported /\ key_owner st (o_sh o) = Some v.

(* (spends, by the store) a credit of the store carries the spent mark (t, i, height of b) *)
Definition spends_marked (st : xstate) (b : block) (t : tx) : Prop :=
  exists cr i, In cr (credits (x_w st)) /\ c_spent cr = Some (t_id t, i, b_height b).

(* (spends, by the chain) t is not a coinbase and one of its inputs is an output of a transaction of the chain
   n, of a supported class, paying a script hash of some keystore of the database *)
Definition spends_chain (st : xstate) (n : list block) (t : tx) : Prop :=
  t_cb t = false /\
  exists op pt o v, In op (t_ins t) /\ In pt (chain_txs n) /\ t_id pt = fst op /\
    nth_error (t_outs pt) (N.to_nat (snd op)) = Some o /\
    o_class o <> CUnsupported /\ key_owner st (o_sh o) = Some v.

(* ---------------------------------------------------------------- completeness of E *)

Lemma out_owner_of : forall own o v, o_class o <> CUnsupported -> own (o_sh o) = Some v -> out_owner own o = Some v.
Proof. intros own o v Hc Ho. unfold out_owner. destruct (o_class o); try assumption. contradiction. Qed.

(* an owned output of a transaction of the chain is a coin of the chain *)
Lemma owned_output_coin : forall own n b t j o v,
  In b n -> In t (b_txs b) -> nth_error (t_outs t) j = Some o -> out_owner own o = Some v ->
  exists k, In k (coins_l own (ptxs n)) /\ k_tx k = t_id t /\ k_vout k = N.of_nat j /\ k_height k = b_height b.
Proof.
  intros own n b t j o v Hb Ht Hj Ho.
  destruct (coins_of_outs_complete own t (b_height b) (b_id b) (t_outs t) 0%N j o v Hj Ho) as [k [Hk [H1 [H2 _]]]].
  exists k. split; [|split; [assumption|split; [rewrite H2; apply N.add_0_l|]]].
  - unfold coins_l. apply in_flat_map. exists (t, b_height b, b_id b). split.
    + unfold ptxs. apply in_flat_map. exists b. split; [assumption|].
      unfold ptxs_of_block. apply in_map_iff. exists t. split; [reflexivity|assumption].
    + exact Hk.
  - apply coins_of_outs_in in Hk. tauto.
Qed.

Lemma coin_credit_in_E : forall p own l k, In k (coins_l own l) ->
  In (mk_credit p k (spender_l l (coin_op k))) (E p own l).
Proof.
  intros p own l k Hk. unfold E, mkE. apply in_map_iff. exists k. split; [reflexivity|assumption].
Qed.

(* in a well-formed chain the spender of an outpoint is THE transaction that has it as an input *)
Lemma spender_of_input : forall n b t op, wf_chain n -> In b n -> In t (b_txs b) -> t_cb t = false ->
  In op (t_ins t) -> exists i, spender_l (ptxs n) op = Some (t_id t, i, b_height b).
Proof.
  intros n b t op Hwf Hb Ht Hcb Hop.
  assert (Hndt : NoDup (chain_txs n)) by (apply (NoDup_map_inv t_id); apply (wf_txids _ Hwf)).
  assert (Hndn : NoDup n) by (apply (NoDup_map_inv b_id); apply (wf_bids _ Hwf)).
  assert (Htn : In t (chain_txs n)). { unfold chain_txs. apply in_flat_map. exists b. split; assumption. }
  destruct (spender_l (ptxs n) op) as [[[a i] hs]|] eqn:Hs.
  - destruct (spender_l_some_full _ _ _ _ _ Hs) as [x [Hx [Hxcb [Hxop [Ha Hhs]]]]].
    assert (Hxn : In (pt_tx x) (chain_txs n)).
    { rewrite <- txs_of_ptxs. unfold txs_of. apply in_map. assumption. }
    assert (Heq : pt_tx x = t).
    { apply (NoDup_flat_map_uniq _ _ ins_of (chain_txs n) (pt_tx x) t op); try assumption.
      - exact (wf_nodouble _ Hwf).
      - unfold ins_of. rewrite Hxcb. assumption.
      - unfold ins_of. rewrite Hcb. assumption. }
    unfold ptxs in Hx. apply in_flat_map in Hx. destruct Hx as [b' [Hb' Hx]].
    unfold ptxs_of_block in Hx. apply in_map_iff in Hx. destruct Hx as [t' [Hx Ht']]. subst x.
    unfold pt_tx, pt_h in *. cbn [fst snd] in *. subst t'.
    assert (Hbb : b' = b).
    { apply (NoDup_flat_map_uniq _ _ b_txs n b' b t); assumption. }
    subst b' a hs. exists i. reflexivity.
  - exfalso. pose proof (spender_chain_spent n op) as Hsp. rewrite Hs in Hsp. cbn in Hsp.
    symmetry in Hsp. apply negb_true_iff in Hsp.
    assert (Ht' : spent_in n op = true).
    { unfold spent_in. apply existsb_exists. exists t. split; [assumption|]. rewrite Hcb. cbn [negb andb].
      apply existsb_exists. exists op. split; [assumption|]. apply op_eqb_eq. reflexivity. }
    congruence.
Qed.

(* ---------------------------------------------------------------- under the invariant *)

Section Once.
Variable p : params.
Variable g : block.
Variable U : list block.
Variable w : N.

(* at ANY point: for the chain c the handler follows, the creating transaction of every credit of the store
   and the spender named by every spent mark is recorded exactly once, in the record of the block of c *)
Lemma credit_recorded_once : forall keysA c st, minv p g U w keysA c st -> brs_nodup (x_brecs st) ->
  forall cr b, In cr (credits (x_w st)) -> In b c ->
    (c_height cr = b_height b -> recorded_once (x_brecs st) (b_height b) (b_id b) (c_tx cr)) /\
    (forall tid i, c_spent cr = Some (tid, i, b_height b) -> recorded_once (x_brecs st) (b_height b) (b_id b) tid).
Proof.
  intros keysA c st Hinv Hnd cr b Hcr Hb.
  destruct (mi_state _ _ _ _ _ _ _ Hinv) as [top [_ [_ [_ [_ [Hok _]]]]]].
  destruct (wf_linked _ (mi_wf _ _ _ _ _ _ _ Hinv)) as [pv Hl].
  pose proof (linked_uniq_heights c pv Hl) as Hu.
  destruct (mi_cov _ _ _ _ _ _ _ Hinv cr Hcr) as [H1 H2]. unfold lst in H1, H2. split.
  - intros Hh. apply (listed_recorded_once c); try assumption. rewrite <- Hh. assumption.
  - intros tid i Hs. apply (listed_recorded_once c); try assumption. apply (H2 tid i _ Hs).
Qed.

(* when the store is the live ledger of the chain n for all wallets: every relevant transaction of n *)
Lemma relevant_recorded_once : forall keysA n st,
  minv p g U w keysA n st -> equals_live_all p st n -> brs_nodup (x_brecs st) ->
  forall b t, In b n -> In t (b_txs b) ->
    pays_db st t \/ spends_marked st b t \/ spends_chain st n t ->
    recorded_once (x_brecs st) (b_height b) (b_id b) (t_id t).
Proof.
  intros keysA n st Hinv Hlive Hnd b t Hb Ht Hrel.
  pose proof (mi_wf _ _ _ _ _ _ _ Hinv) as Hwf.
  pose proof (equals_live_all_coins p st n Hlive Hwf) as Hperm.
  assert (Hstore : forall k, In k (coins_l (key_owner st) (ptxs n)) ->
            In (mk_credit p k (spender_l (ptxs n) (coin_op k))) (credits (x_w st))).
  { intros k Hk. apply (Permutation_in _ (Permutation_sym Hperm)). apply coin_credit_in_E. assumption. }
  destruct Hrel as [[o [v [Ho [Hc Hown]]]]|[[cr [i [Hcr Hs]]]|[Hcb [op [pt [o [v [Hop [Hpt [Hid [Hj [Hc Hown]]]]]]]]]]]].
  - (* pays *)
    destruct (In_nth_error _ _ Ho) as [j Hj].
    destruct (owned_output_coin (key_owner st) n b t j o v Hb Ht Hj (out_owner_of _ _ _ Hc Hown)) as [k [Hk [Htx [_ Hh]]]].
    destruct (credit_recorded_once keysA n st Hinv Hnd _ b (Hstore k Hk) Hb) as [H1 _].
    cbn [mk_credit c_height c_tx] in H1. rewrite Htx in H1. apply H1. assumption.
  - (* spends: the store's spent mark *)
    destruct (credit_recorded_once keysA n st Hinv Hnd cr b Hcr Hb) as [_ H2]. apply (H2 _ i Hs).
  - (* spends: an owned output of the chain *)
    unfold chain_txs in Hpt. apply in_flat_map in Hpt. destruct Hpt as [b0 [Hb0 Hpt]].
    destruct (owned_output_coin (key_owner st) n b0 pt _ o v Hb0 Hpt Hj (out_owner_of _ _ _ Hc Hown)) as [k [Hk [Htx [Hv _]]]].
    assert (Hkop : coin_op k = op).
    { unfold coin_op. rewrite Htx, Hv, N2Nat.id, Hid. destruct op; reflexivity. }
    destruct (spender_of_input n b t op Hwf Hb Ht Hcb Hop) as [i Hsp].
    destruct (credit_recorded_once keysA n st Hinv Hnd _ b (Hstore k Hk) Hb) as [_ H2].
    apply (H2 (t_id t) i). cbn [mk_credit c_spent]. rewrite Hkop. assumption.
Qed.

End Once.

(* ---------------------------------------------------------------- packaged (the setting of ImportProofs3.Packaged) *)

Section Packaged5.
Variable p : params.
Variable g : block.
Variable U : list block.
Hypothesis U_ids : forall b1 b2, In b1 U -> In b2 U -> b_id b1 = b_id b2 -> b1 = b2.
Variable w : N.
Variable keys0 : list (N * N).
Variable B cap : Z.
Hypothesis B_pos : 0 < B.
Variables (pass sh : N) (shs : list N).
Variables (c0 n0 : list block) (all0 : list tx) (st0 st1 : xstate).
Hypothesis node0 : ninv g U n0.
Hypothesis start0 : minv p g U w keys0 c0 st0.
Hypothesis absent0 : status_of st0 w = None.
Hypothesis nokeys0 : forall s, ownW w keys0 s = None.
Hypothesis disjoint0 : forall s, In s (sh :: shs) -> lookupN keys0 s = None.
Hypothesis import0 : import_start st0 w pass (sh :: shs) = Some st1.
(* the database the wallet is restored into has at most one block record per height, each listing an id once *)
Hypothesis nodup0 : brs_nodup (x_brecs st0).

Let keysA := keys0 ++ keys_of w (sh :: shs).
Let s0 := {| xs_node := n0; xs_st := st1; xs_all := all0; xs_crashed := false |}.

Lemma import_start_brecs : x_brecs st1 = x_brecs st0.
Proof.
  pose proof import0 as H. unfold import_start in H. destruct (wallet_known st0 w); [discriminate|].
  inversion H. reflexivity.
Qed.

(* T: a shared transaction is recorded once.
   (i)   at EVERY point of the history the block records hold one record per height and every record lists a
         transaction id once;
   (ii)  at EVERY point, for the chain c the handler follows: the creating transaction of every credit of the
         store (of any wallet) and the spender named by every spent mark are listed exactly once, in the one
         record of their height, which names the block of c at that height;
   (iii) handler in step, w ready: every transaction of the node's chain that pays a wallet of the database or
         spends a coin of one is listed exactly once, in the one record of its block's height, naming the block. *)
Theorem import_records_once_multi : forall h, xwf p g U w B cap s0 h ->
  let s := fold_left (xstep repaired p B cap) h s0 in
  brs_nodup (x_brecs (xs_st s)) /\
  (exists c, minv p g U w keysA c (xs_st s) /\
     forall cr b, In cr (credits (x_w (xs_st s))) -> In b c ->
       (c_height cr = b_height b -> recorded_once (x_brecs (xs_st s)) (b_height b) (b_id b) (c_tx cr)) /\
       (forall tid i, c_spent cr = Some (tid, i, b_height b) ->
                      recorded_once (x_brecs (xs_st s)) (b_height b) (b_id b) tid)) /\
  (in_step g s -> status_of (xs_st s) w = Some WReady ->
   forall b t, In b (xs_node s) -> In t (b_txs b) ->
     pays_db (xs_st s) t \/ spends_marked (xs_st s) b t \/ spends_chain (xs_st s) (xs_node s) t ->
     recorded_once (x_brecs (xs_st s)) (b_height b) (b_id b) (t_id t)).
Proof.
  intros h Hwf s.
  pose proof (start_sinv_m p g U w keys0 pass sh shs c0 n0 all0 st0 st1 node0 start0 absent0 nokeys0 import0) as Hs0.
  fold keysA in Hs0. fold s0 in Hs0.
  pose proof (sinv_m_run p g U U_ids w B cap B_pos keysA h s0 Hs0 Hwf) as Hs. fold s in Hs.
  assert (Hnd0 : brs_nodup (x_brecs (xs_st s0))) by (cbn [s0 xs_st]; rewrite import_start_brecs; exact nodup0).
  pose proof (brs_nodup_run p g U U_ids w B cap B_pos keysA h s0 Hs0 Hwf Hnd0) as Hnd. fold s in Hnd.
  split; [assumption|]. split.
  - destruct Hs as [_ [_ [c Hinv]]]. exists c. split; [assumption|].
    intros cr b Hcr Hb. apply (credit_recorded_once p g U w keysA c _ Hinv Hnd cr b Hcr Hb).
  - intros Hstep Hr b t Hb Ht Hrel.
    pose proof (sinv_m_in_step p g U U_ids w keysA s Hs Hstep) as Hinv.
    pose proof (sinv_m_correct p g U U_ids w keysA s Hs Hstep Hr) as Hlive.
    apply (relevant_recorded_once p g U w keysA _ _ Hinv Hlive Hnd b t Hb Ht Hrel).
Qed.

End Packaged5.

(* ================================================================ Part C: checker (closed examples) *)

Definition brs_nodup_b (brs : list brec) : bool :=
  nodup_b Z.eqb (map br_h brs) && forallb (fun br => nodup_b N.eqb (br_txs br)) brs.

Lemma brs_nodup_b_sound : forall brs, brs_nodup_b brs = true -> brs_nodup brs.
Proof.
  intros brs H. unfold brs_nodup_b in H. apply andb_true_iff in H. destruct H as [H1 H2]. split.
  - apply (nodup_b_sound Z Z.eqb Z.eqb_refl). assumption.
  - intros br Hbr. rewrite forallb_forall in H2. apply (nodup_b_sound N N.eqb N.eqb_refl). apply H2. assumption.
Qed.

Definition recorded_once_b (brs : list brec) (h : Z) (bid tid : N) : bool :=
  match filter (fun br => br_h br =? h) brs with
  | [br] => (br_bid br =? bid)%N && (count_occ N.eq_dec (br_txs br) tid =? 1)%nat && nodup_b N.eqb (br_txs br)
  | _ => false
  end.

Lemma recorded_once_b_sound : forall brs h bid tid, recorded_once_b brs h bid tid = true -> recorded_once brs h bid tid.
Proof.
  intros brs h bid tid H. unfold recorded_once_b in H.
  destruct (filter (fun br => br_h br =? h) brs) as [|br [|br2 r]] eqn:Hf; try discriminate.
  apply andb_true_iff in H. destruct H as [H H3]. apply andb_true_iff in H. destruct H as [H1 H2].
  apply N.eqb_eq in H1. apply Nat.eqb_eq in H2. apply (nodup_b_sound N N.eqb N.eqb_refl) in H3.
  assert (Hbr : In br brs /\ br_h br = h).
  { assert (Hin : In br (filter (fun br => br_h br =? h) brs)) by (rewrite Hf; left; reflexivity).
    apply filter_In in Hin. destruct Hin as [Hin Hh]. apply Z.eqb_eq in Hh. tauto. }
  split.
  - rewrite Hf. cbn [flat_map]. rewrite app_nil_r. assumption.
  - exists br. split; [|split; [assumption|split; [|split; [assumption|]]]].
    + unfold brec_at. destruct (find (fun x => br_h x =? h) brs) as [br'|] eqn:Hfd.
      * apply find_some in Hfd.
        assert (Hin : In br' (filter (fun br => br_h br =? h) brs)) by (apply filter_In; exact Hfd).
        rewrite Hf in Hin. destruct Hin as [Heq|[]]. subst br'. reflexivity.
      * exfalso. pose proof (find_none _ _ Hfd br (proj1 Hbr)) as Hn. cbn beta in Hn.
        rewrite (proj2 Hbr), Z.eqb_refl in Hn. discriminate.
    + apply (count_occ_In N.eq_dec). lia.
    + intros br' Hbr' Hh'.
      assert (Hin : In br' (filter (fun br => br_h br =? h) brs)).
      { apply filter_In. split; [assumption|apply Z.eqb_eq; assumption]. }
      rewrite Hf in Hin. destruct Hin as [Heq|[]]. symmetry. assumption.
Qed.

(* a closed instance: a rescan id appended to a record that lists it already is not listed twice *)
Example add_ids_shared_once :
  let brs := add_ids (add_ids [] 5 77%N [10%N; 11%N]) 5 77%N [11%N; 12%N] in
  brs_nodup_b brs = true /\ recorded_once_b brs 5 77%N 11%N = true.
Proof. vm_compute. split; reflexivity. Qed.

Print Assumptions add_ids_nodup.
Print Assumptions import_batch_nodup.
Print Assumptions xrollback_nodup.
Print Assumptions xconnect_all_nodup.
Print Assumptions xprocess_nodup.
Print Assumptions brs_nodup_run.
Print Assumptions credit_recorded_once.
Print Assumptions relevant_recorded_once.
Print Assumptions import_records_once_multi.
Print Assumptions brs_nodup_b_sound.
Print Assumptions recorded_once_b_sound.
