(* Ledger/FaultSwallowProofs.v — proofs for Ledger/FaultSwallow.v (C18): the steps with a fault at one of the
   four calls, the code as it stands (the step fails, nothing changes, the repeated step is the step
   without fault) and closed witnesses for the code before each repair. *)
From Coq Require Import List ZArith NArith Bool Lia.
Import ListNotations.
Open Scope Z_scope.
Require Import MW.Ledger.Model MW.Ledger.Spec MW.Ledger.Run MW.Ledger.FaultGen MW.Ledger.FaultGenProofs.
Require MW.Ledger.Pending.
Require Import MW.Ledger.Import MW.Ledger.Remove MW.Ledger.FaultSwallow.

(* ================================================================ 1, 2: the import step *)

Section ImportStep.
Variables (tf : tfixes) (p : params) (own : owner_fn) (n : node).
Hypothesis Hb : t_brec_put tf = true.
Hypothesis Ht : t_txrec_get tf = true.

Lemma import_tx_f_repaired : forall h bid acc t c,
  import_tx_f tf p own n h bid acc t c = import_tx p own n h bid acc t \/
  import_tx_f tf p own n h bid acc t c = inr IRetry.
Proof.
  intros h bid acc t c. unfold import_tx_f. destruct (negb (tx_inserted own n h t)); [left; reflexivity|].
  destruct c; rewrite ?Hb, ?Ht; right; reflexivity.
Qed.

Lemma import_txs_f_repaired : forall h bid ts acc f,
  import_txs_f tf p own n h bid acc ts f = import_txs p own n h bid acc ts \/
  import_txs_f tf p own n h bid acc ts f = inr IRetry.
Proof.
  intros h bid ts. induction ts as [|t r IH]; intros acc f; [left; reflexivity|].
  cbn [import_txs_f import_txs].
  destruct f as [[tid c]|].
  - destruct (t_id t =? tid)%N.
    + destruct (import_tx_f_repaired h bid acc t c) as [H|H]; rewrite H.
      * destruct (import_tx p own n h bid acc t) as [acc'|e]; [apply IH|left; reflexivity].
      * right. reflexivity.
    + destruct (import_tx p own n h bid acc t) as [acc'|e]; [apply IH|left; reflexivity].
  - destruct (import_tx p own n h bid acc t) as [acc'|e]; [apply IH|left; reflexivity].
Qed.

Lemma import_blocks_f_repaired : forall k stop bs acc f,
  import_blocks_f tf p own n k stop acc bs f = import_blocks p own n k stop acc bs \/
  import_blocks_f tf p own n k stop acc bs f = inr IRetry.
Proof.
  intros k stop bs. induction bs as [|b r IH]; intros acc f; [left; reflexivity|].
  cbn [import_blocks_f import_blocks].
  destruct ((k <? b_height b) && (b_height b <=? stop)); [|apply IH].
  destruct (import_txs_f_repaired (b_height b) (b_id b) (filter (touches own n (b_height b)) (b_txs b)) acc f) as [H|H]; rewrite H.
  - destruct (import_txs p own n (b_height b) (b_id b) acc (filter (touches own n (b_height b)) (b_txs b))) as [acc'|e];
      [apply IH|left; reflexivity].
  - right. reflexivity.
Qed.

End ImportStep.

(* no fault: the step of the model, whatever the switches *)
Lemma import_txs_f_none : forall tf p own n h bid ts acc,
  import_txs_f tf p own n h bid acc ts None = import_txs p own n h bid acc ts.
Proof.
  intros tf p own n h bid ts. induction ts as [|t r IH]; intros acc; [reflexivity|].
  cbn [import_txs_f import_txs]. destruct (import_tx p own n h bid acc t) as [acc'|e]; [apply IH|reflexivity].
Qed.

Lemma import_blocks_f_none : forall tf p own n k stop bs acc,
  import_blocks_f tf p own n k stop acc bs None = import_blocks p own n k stop acc bs.
Proof.
  intros tf p own n k stop bs. induction bs as [|b r IH]; intros acc; [reflexivity|].
  cbn [import_blocks_f import_blocks]. rewrite import_txs_f_none.
  destruct ((k <? b_height b) && (b_height b <=? stop)); [|apply IH].
  destruct (import_txs p own n (b_height b) (b_id b) acc (filter (touches own n (b_height b)) (b_txs b))) as [acc'|e];
    [apply IH|reflexivity].
Qed.

Lemma import_batch_f_none : forall tf fx p B n st w,
  import_batch_f tf fx p B n st w None = import_batch fx p B n st w.
Proof.
  intros tf fx p B n st w. unfold import_batch_f, import_batch.
  destruct (status_of st w) as [[|k|]|]; try reflexivity.
  destruct (memN w (x_dead st)); [reflexivity|]. cbv zeta. rewrite import_blocks_f_none. reflexivity.
Qed.

(* the code as it stands: a fault at ANY call of ANY transaction of the batch — the block-record put and the
   transaction-record read included — either does not strike, or the batch reports "retry" with the store
   exactly as before; the repeated batch is then the batch of the model *)
Theorem import_batch_f_repaired : forall tf fx p B n st w f,
  t_brec_put tf = true -> t_txrec_get tf = true ->
  import_batch_f tf fx p B n st w f = import_batch fx p B n st w \/
  import_batch_f tf fx p B n st w f = (st, IRetry).
Proof.
  intros tf fx p B n st w f Hb Ht. unfold import_batch_f, import_batch.
  destruct (status_of st w) as [[|k|]|]; try (left; reflexivity).
  destruct (memN w (x_dead st)); [left; reflexivity|]. cbv zeta.
  destruct (import_blocks_f_repaired tf p (own_w st w) n Hb Ht k (Z.min (k + B) (fst (tip (x_w st)))) n
              (credits (x_w st), x_brecs st) f) as [H|H]; rewrite H; [left|right]; reflexivity.
Qed.

(* ---- the code before 9c52567 / 2491e9d: closed witnesses.
   Wallet 1 (address 9) is ready, wallet 2 (address 7) has just been restored; block 1 holds the coinbase 1
   paying address 9 (5) and address 7 (2), and transaction 6 paying address 7 (3) from a stranger's coin.
   The handler has processed block 1 for wallet 1: the block record of height 1 lists transaction 1.
   The import batch of wallet 2 rescans block 1. *)
Definition p0 : params := {| p_cbmat := 4; p_bindlock := 4294967294 |}.
Definition g1 : block := {| b_id := 0; b_prev := 0; b_height := 0;
  b_txs := [ {| t_id := 100; t_cb := true; t_ins := []; t_outs := [ {| o_sh := 50; o_val := 3; o_class := CStd |} ] |} ] |}.
Definition bA : block := {| b_id := 1; b_prev := 0; b_height := 1;
  b_txs := [ {| t_id := 1; t_cb := true; t_ins := [];
                t_outs := [ {| o_sh := 9; o_val := 5; o_class := CStd |}; {| o_sh := 7; o_val := 2; o_class := CStd |} ] |};
             {| t_id := 6; t_cb := false; t_ins := [(100, 0)%N]; t_outs := [ {| o_sh := 7; o_val := 3; o_class := CStd |} ] |} ] |}.
(* the branch the node moves to afterwards *)
Definition bB : block := {| b_id := 2; b_prev := 0; b_height := 1; b_txs := [ {| t_id := 2; t_cb := true; t_ins := []; t_outs := [] |} ] |}.
Definition bC : block := {| b_id := 3; b_prev := 2; b_height := 2; b_txs := [ {| t_id := 3; t_cb := true; t_ins := []; t_outs := [] |} ] |}.

Definition sw_pre : xsim :=
  xrun repaired p0 1000 20000 [g1] [XNewWallet 1 7; XNewAddr 9 1; XImportStart 2 8 [7%N]; XAttach bA; XProcess bA].
Definition sw_batch (tf : tfixes) (f : ifault) : xstate * iout :=
  import_batch_f tf repaired p0 1000 (xs_node sw_pre) (xs_st sw_pre) 2 f.
(* the node reorganises block 1 away; the wallet follows *)
Definition sw_reorg (st : xstate) : xstate :=
  xs_st (fold_left (xstep repaired p0 1000 20000) [XDetach; XAttach bB; XAttach bC; XProcess bC]
                   {| xs_node := xs_node sw_pre; xs_st := st; xs_all := xs_all sw_pre; xs_crashed := false |}).

(* 9c52567: the put that appends transaction 6 to the block record of height 1 fails.  The batch reports
   success, wallet 2 is ready with both coins, but the block record lists transaction 1 only; when block 1
   is reorganised away, the credit of transaction 6 stays: wallet 2 reports 3 where the run without the
   fault reports 0.  The code as it stands: the batch asks for a retry and nothing has changed *)
Lemma import_brec_put_refuted :
  x_brecs (xs_st sw_pre) = [{| br_h := 1; br_bid := 1; br_txs := [1%N] |}] /\
  snd (sw_batch t_as_found (Some (6%N, ICBrecPut))) = IOk /\
  status_of (fst (sw_batch t_as_found (Some (6%N, ICBrecPut)))) 2 = Some WReady /\
  x_brecs (fst (sw_batch t_as_found (Some (6%N, ICBrecPut)))) = [{| br_h := 1; br_bid := 1; br_txs := [1%N] |}] /\
  x_brecs (fst (sw_batch t_as_found None)) = [{| br_h := 1; br_bid := 1; br_txs := [1%N; 6%N] |}] /\
  gross_balance (x_w (fst (sw_batch t_as_found (Some (6%N, ICBrecPut))))) 2%N = 5 /\
  gross_balance (x_w (sw_reorg (fst (sw_batch t_as_found (Some (6%N, ICBrecPut)))))) 2%N = 3 /\
  gross_balance (x_w (sw_reorg (fst (sw_batch t_as_found None)))) 2%N = 0 /\
  tip (x_w (sw_reorg (fst (sw_batch t_as_found (Some (6%N, ICBrecPut)))))) = (2, 3%N) /\
  sw_batch t_repaired (Some (6%N, ICBrecPut)) = (xs_st sw_pre, IRetry).
Proof. vm_compute. repeat split; reflexivity. Qed.

(* 2491e9d: the read of the record of transaction 1 (already recorded for wallet 1) fails: "no record", and
   the block record lists transaction 1 twice *)
Lemma import_txrec_get_refuted :
  snd (sw_batch t_as_found (Some (1%N, ICTxrecGet))) = IOk /\
  x_brecs (fst (sw_batch t_as_found (Some (1%N, ICTxrecGet)))) = [{| br_h := 1; br_bid := 1; br_txs := [1%N; 1%N; 6%N] |}] /\
  x_brecs (fst (sw_batch t_as_found None)) = [{| br_h := 1; br_bid := 1; br_txs := [1%N; 6%N] |}] /\
  sw_batch t_repaired (Some (1%N, ICTxrecGet)) = (xs_st sw_pre, IRetry).
Proof. vm_compute. repeat split; reflexivity. Qed.

(* ================================================================ 3: the spenders of an outpoint *)

Section SpendersProofs.
Variables (tf : tfixes) (p : params) (own : owner_fn).
Hypothesis Hs : t_spenders_get tf = true.

Definition dsp_step (k : Pending.outp) (acc : Pending.pres Pending.pstate) (ri : rel_in) : Pending.pres Pending.pstate :=
  match acc with
  | Pending.PErr e => Pending.PErr e
  | Pending.POk s1 =>
      if op_eqb (ri_prev ri) k
      then (if t_spenders_get tf then Pending.PErr (Pending.PE EOther) else Pending.POk s1)
      else Pending.remove_spenders own s1 (ri_prev ri)
  end.
Definition dsp_step0 (acc : Pending.pres Pending.pstate) (ri : rel_in) : Pending.pres Pending.pstate :=
  match acc with Pending.PErr e => Pending.PErr e | Pending.POk s1 => Pending.remove_spenders own s1 (ri_prev ri) end.

Lemma dsp_fold_err : forall k l e, fold_left (dsp_step k) l (Pending.PErr e) = Pending.PErr e.
Proof. intros k l. induction l as [|ri r IH]; intros e; [reflexivity|]. cbn [fold_left dsp_step]. apply IH. Qed.

Lemma dsp_fold : forall k l acc,
  fold_left (dsp_step k) l acc = fold_left dsp_step0 l acc \/
  fold_left (dsp_step k) l acc = Pending.PErr (Pending.PE EOther).
Proof.
  intros k l. induction l as [|ri r IH]; intros acc; [left; reflexivity|].
  cbn [fold_left]. destruct acc as [s1|e]; cbn [dsp_step dsp_step0].
  - destruct (op_eqb (ri_prev ri) k).
    + rewrite Hs. right. apply dsp_fold_err.
    + apply IH.
  - apply IH.
Qed.

Lemma remove_double_spends_f_repaired : forall s r k,
  remove_double_spends_f tf own s r k = Pending.remove_double_spends own s r \/
  remove_double_spends_f tf own s r k = Pending.PErr (Pending.PE EOther).
Proof.
  intros s r k.
  assert (E1 : remove_double_spends_f tf own s r k =
               match fold_left (dsp_step k) (rr_ins r) (Pending.POk s) with
               | Pending.PErr e => Pending.PErr e
               | Pending.POk s2 => Pending.POk (Pending.set_uinputs s2 (Pending.del_inputs_of (Pending.ps_uinputs s2) (rr_tx r) (t_id (rr_tx r))))
               end) by reflexivity.
  assert (E0 : Pending.remove_double_spends own s r =
               match fold_left dsp_step0 (rr_ins r) (Pending.POk s) with
               | Pending.PErr e => Pending.PErr e
               | Pending.POk s2 => Pending.POk (Pending.set_uinputs s2 (Pending.del_inputs_of (Pending.ps_uinputs s2) (rr_tx r) (t_id (rr_tx r))))
               end) by reflexivity.
  rewrite E1, E0.
  destruct (dsp_fold k (rr_ins r) (Pending.POk s)) as [H|H]; rewrite H; [left|right]; reflexivity.
Qed.

Lemma p_apply_rec_f_repaired : forall h bid s r k,
  p_apply_rec_f tf p own h bid s r k = Pending.p_apply_rec p own h bid s r \/
  p_apply_rec_f tf p own h bid s r k = Pending.PErr (Pending.PE EOther).
Proof.
  intros h bid s r k. unfold p_apply_rec_f, Pending.p_apply_rec. cbv zeta.
  destruct (Pending.withdraw_ins _ _ _ _ _) as [[cs1 g1]|e]; [|left; reflexivity].
  destruct (remove_double_spends_f_repaired
              (Pending.settle (Pending.set_game (Pending.set_credits
                 (Pending.set_blocks s (Pending.br_add (Pending.ps_blocks s) h bid (rr_tx r))) cs1) g1) (rr_tx r)) r k) as [H|H];
    rewrite H; [left|right]; reflexivity.
Qed.

Lemma p_apply_recs_f_repaired : forall h bid recs s k,
  p_apply_recs_f tf p own h bid s recs k = Pending.p_apply_recs p own h bid s recs \/
  p_apply_recs_f tf p own h bid s recs k = Pending.PErr (Pending.PE EOther).
Proof.
  intros h bid recs. induction recs as [|r rest IH]; intros s k; [left; reflexivity|].
  cbn [p_apply_recs_f Pending.p_apply_recs].
  destruct (p_apply_rec_f_repaired h bid s r k) as [H|H]; rewrite H.
  - destruct (Pending.p_apply_rec p own h bid s r) as [s'|e]; [apply IH|left; reflexivity].
  - right. reflexivity.
Qed.

(* the code as it stands: the failed read fails the block (nothing is committed: the announcement is refused and
   repeated, C18_fault_retry_equiv_pending_process), or the fault does not strike *)
Theorem p_connect_block_f_repaired : forall n cum s b k,
  p_connect_block_f tf p own n cum s b k = Pending.p_connect_block p own n cum s b \/
  p_connect_block_f tf p own n cum s b k = Pending.PErr (Pending.PE EOther).
Proof.
  intros n cum s b k. unfold p_connect_block_f, Pending.p_connect_block.
  destruct (filter_block_txs own (credits (Pending.ps_w s)) (Pending.lookup_pending n cum) [] (b_txs b)) as [recs|e];
    [|left; reflexivity].
  destruct (p_apply_recs_f_repaired (b_height b) (b_id b) recs s k) as [H|H]; rewrite H; [left|right]; reflexivity.
Qed.

End SpendersProofs.

(* ---- the code before 3ddfb4f: a closed witness (the history of Properties/C09.v, C09_example_conflict).
   The wallet (address 1) has the coins of blocks 1 and 2; the unconfirmed transaction 10 spends coin (1,0):
   it is pending, registered as the spender of (1,0), with an unmined credit.  Block 3' confirms transaction 11,
   which spends (1,0) too.  Without fault transaction 10 is removed as a conflict; when the read of the
   spenders of (1,0) fails and is taken for "no spender", block 3' is connected and transaction 10, its
   registration and its unmined credit stay in the store for good *)
Module SpEx.
  Import Pending.
  Definition p : params := {| p_cbmat := 1; p_bindlock := 4294967294 |}.
  Definition g : block := {| b_id := 0; b_prev := 0; b_height := 0; b_txs := [] |}.
  Definition cb (id : N) : tx := {| t_id := id; t_cb := true; t_ins := []; t_outs := [ {| o_sh := 1; o_val := 5; o_class := CStd |} ] |}.
  Definition b1 : block := {| b_id := 1; b_prev := 0; b_height := 1; b_txs := [cb 1] |}.
  Definition b2 : block := {| b_id := 2; b_prev := 1; b_height := 2; b_txs := [cb 2] |}.
  Definition t10 : tx := {| t_id := 10; t_cb := false; t_ins := [(1, 0)%N];
                            t_outs := [ {| o_sh := 1; o_val := 3; o_class := CStd |}; {| o_sh := 9; o_val := 2; o_class := CStd |} ] |}.
  Definition t11 : tx := {| t_id := 11; t_cb := false; t_ins := [(1, 0)%N]; t_outs := [ {| o_sh := 9; o_val := 5; o_class := CStd |} ] |}.
  Definition b3' : block := {| b_id := 4; b_prev := 2; b_height := 3; b_txs := [cb 4; t11] |}.
  Definition sim : psim := prun p true g [PvOwner 1 1; PvAttach b1; PvProcess b1; PvAttach b2; PvProcess b2; PvReceive t10; PvAttach b3'].
  Definition s : pstate := h_store (q_h sim).
  Definition conn (tf : tfixes) : pres (pstate * list N) :=
    p_connect_block_f tf p (own_of (q_own sim)) (q_node sim) (ps_unmined s) s b3' (1, 0)%N.
  (* the pending side of the store after the block *)
  Definition view (r : pres (pstate * list N)) : option (list N * list outp * list outp) :=
    match r with
    | POk (s', _) => Some (map fst (ps_unmined s'), map fst (ps_uinputs s'), map uc_op (ps_ucredits s'))
    | PErr _ => None
    end.
End SpEx.

Lemma spenders_get_refuted :
  SpEx.view (Pending.p_connect_block SpEx.p (own_of (Pending.q_own SpEx.sim)) (Pending.q_node SpEx.sim)
               (Pending.ps_unmined SpEx.s) SpEx.s SpEx.b3') = Some ([], [], []) /\
  SpEx.view (SpEx.conn t_as_found) = Some ([10%N], [(1, 0)%N], [(10, 0)%N]) /\
  SpEx.conn t_repaired = Pending.PErr (Pending.PE EOther).
Proof. vm_compute. repeat split; reflexivity. Qed.

(* ================================================================ 4: the credit walk of a removal round *)

Lemma rm_walk_propagates : forall tf ops, t_rm_input_del tf = true -> propagates tt (rm_walk_prog tf ops).
Proof.
  intros tf ops H. induction ops as [|op r IH]; cbn [rm_walk_prog]; [apply PRet|].
  apply propagates_Write. rewrite H. apply PDb. intros _. exact IH.
Qed.

Lemma rm_walk_clean : forall tf ops, clean (rm_walk_prog tf ops).
Proof.
  intros tf ops. induction ops as [|op r IH]; cbn [rm_walk_prog]; [apply CRet|].
  apply clean_Write. apply CDb; [intros _; exact IH|]. destruct (t_rm_input_del tf); [apply CRaise|exact IH].
Qed.

(* the code as it stands: a fault at ANY call of the walk — the delete of an unmined-input row included —
   fails the round with the store as before; after any sequence of faults the repeated round is the round
   without fault *)
Theorem rm_walk_fault_retry : forall tf ops s m, t_rm_input_del tf = true ->
  (forall k u, (k < ncalls (rm_walk_op tf ops) s m)%nat ->
     attempt tt (rm_walk_op tf ops) (Fault k u) s m = (s, m, inl tt)) /\
  (forall fs, retry tt (rm_walk_op tf ops) fs s m = attempt tt (rm_walk_op tf ops) NoFault s m).
Proof.
  intros tf ops s m H.
  apply (fault_generic_clean _ _ _ _ _ tt (rm_walk_op tf ops) s m).
  - apply rm_walk_propagates. exact H.
  - apply rm_walk_clean.
  - intros u. reflexivity.
Qed.

(* before 9a3951f: the delete of the unmined-input row of coin 1 fails (call 2: BeginTx is 0, the credit row 1):
   the round reports success, and the row stays *)
Lemma rm_input_del_refuted :
  let s := {| rm_credits := [1; 2]%N; rm_uinputs := [1; 2]%N |} in
  attempt tt (rm_walk_op t_as_found [1; 2]%N) (Fault 2 false) s tt = ({| rm_credits := []; rm_uinputs := [1%N] |}, tt, inr tt) /\
  attempt tt (rm_walk_op t_as_found [1; 2]%N) NoFault s tt = ({| rm_credits := []; rm_uinputs := [] |}, tt, inr tt) /\
  attempt tt (rm_walk_op t_repaired [1; 2]%N) (Fault 2 false) s tt = (s, tt, inl tt).
Proof. vm_compute. repeat split; reflexivity. Qed.
