(* Ledger/Proofs.v — C01, part 1: the ledger of a chain, functionally.
   [E p own l] is the credit list a wallet must hold after the positioned transactions [l]
   (transaction, block height, block id — in chain order): one credit per coin the chain pays
   to a ready wallet, marked spent by the first input (chain order) that spends it.
   Main result of this file: [connect_block] on [L c] with block [b] yields [L (c ++ [b])]. *)
From Coq Require Import List ZArith NArith Bool Lia.
Import ListNotations.
Open Scope Z_scope.
Require Import MW.Ledger.Model MW.Ledger.Spec MW.Ledger.Run MW.Ledger.WF.

(* ---------------------------------------------------------------- definitions *)

Definition ptx := (tx * Z * N)%type.
Definition pt_tx (x : ptx) : tx := fst (fst x).
Definition pt_h (x : ptx) : Z := snd (fst x).
Definition pt_bid (x : ptx) : N := snd x.

Definition ptxs_of_block (b : block) : list ptx := map (fun t => (t, b_height b, b_id b)) (b_txs b).
Definition ptxs (c : list block) : list ptx := flat_map ptxs_of_block c.
Definition txs_of (l : list ptx) : list tx := map pt_tx l.

Definition coins_pt (own : owner_fn) (x : ptx) : list coin :=
  coins_of_outs own (pt_tx x) (pt_h x) (pt_bid x) (t_outs (pt_tx x)) 0%N.
Definition coins_l (own : owner_fn) (l : list ptx) : list coin := flat_map (coins_pt own) l.

Fixpoint find_in_ins (ins : list (N * N)) (i : N) (op : N * N) : option N :=
  match ins with
  | [] => None
  | x :: r => if op_eqb op x then Some i else find_in_ins r (i + 1)%N op
  end.

Definition spender_pt (x : ptx) (op : N * N) : option (N * N * Z) :=
  if t_cb (pt_tx x) then None
  else match find_in_ins (t_ins (pt_tx x)) 0%N op with
       | Some i => Some (t_id (pt_tx x), i, pt_h x)
       | None => None
       end.

Fixpoint spender_l (l : list ptx) (op : N * N) : option (N * N * Z) :=
  match l with
  | [] => None
  | x :: r => match spender_pt x op with Some s => Some s | None => spender_l r op end
  end.

Definition coin_op (k : coin) : N * N := (k_tx k, k_vout k).

Definition mk_credit (p : params) (k : coin) (s : option (N * N * Z)) : credit :=
  {| c_tx := k_tx k; c_vout := k_vout k; c_height := k_height k; c_bid := k_bid k;
     c_amount := k_amount k; c_sh := k_sh k; c_wallet := k_wallet k; c_class := k_class k;
     c_maturity := maturity_of p (k_cb k) (k_class k); c_spent := s |}.

Definition mkE (p : params) (coins : list coin) (f : N * N -> option (N * N * Z)) : list credit :=
  map (fun k => mk_credit p k (f (coin_op k))) coins.

Definition E (p : params) (own : owner_fn) (l : list ptx) : list credit :=
  mkE p (coins_l own l) (spender_l l).

Definition synced_of (c : list block) : list (Z * N) := rev (map (fun b => (b_height b, b_id b)) c).

Definition L (p : params) (own : owner_fn) (c : list block) : wstate :=
  {| credits := E p own (ptxs c); synced := synced_of c |}.

(* the wallet owning outpoint [op] when the transaction creating it is in [txs] *)
Definition owned_out (own : owner_fn) (txs : list tx) (op : N * N) : option N :=
  match find_tx txs (fst op) with
  | Some t => match nth_error (t_outs t) (N.to_nat (snd op)) with
              | Some o => match o_class o with CUnsupported => None | _ => own (o_sh o) end
              | None => None
              end
  | None => None
  end.

Fixpoint rel_ins_of (own : owner_fn) (txs : list tx) (ins : list (N * N)) (i : N) : list rel_in :=
  match ins with
  | [] => []
  | op :: r =>
      match owned_out own txs op with
      | Some w => {| ri_index := i; ri_prev := op; ri_wallet := w |} :: rel_ins_of own txs r (i + 1)%N
      | None => rel_ins_of own txs r (i + 1)%N
      end
  end.

Definition rec_of (own : owner_fn) (txs : list tx) (t : tx) : relrec :=
  {| rr_tx := t;
     rr_ins := if t_cb t then [] else rel_ins_of own txs (t_ins t) 0%N;
     rr_outs := filter_outs own (t_outs t) 0%N |}.

Definition rec_keep (r : relrec) : bool :=
  match rr_ins r, rr_outs r with [], [] => false | _, _ => true end.

(* inputs of a transaction as the chain counts them *)
Definition ins_of (t : tx) : list (N * N) := if t_cb t then [] else t_ins t.

(* well-formedness at the level of a transaction list *)
Record wf_txs (txs : list tx) : Prop := {
  wt_ids : NoDup (map t_id txs);
  wt_inputs : inputs_ok [] txs;
  wt_nodouble : NoDup (flat_map ins_of txs)
}.

(* ---------------------------------------------------------------- basics *)

Lemma op_eqb_eq : forall a b, op_eqb a b = true <-> a = b.
Proof.
  intros [a1 a2] [b1 b2]. unfold op_eqb. cbn [fst snd].
  rewrite andb_true_iff, !N.eqb_eq. split.
  - intros [H1 H2]. subst. reflexivity.
  - intros H. inversion H. split; reflexivity.
Qed.

Lemma op_eqb_refl : forall a, op_eqb a a = true.
Proof. intros a. apply op_eqb_eq. reflexivity. Qed.

Lemma op_eqb_neq : forall a b, op_eqb a b = false <-> a <> b.
Proof.
  intros a b. split.
  - intros H Heq. apply op_eqb_eq in Heq. congruence.
  - intros H. destruct (op_eqb a b) eqn:Hab; [|reflexivity]. apply op_eqb_eq in Hab. contradiction.
Qed.

Lemma op_eqb_sym : forall a b, op_eqb a b = op_eqb b a.
Proof.
  intros a b. destruct (op_eqb a b) eqn:H1; destruct (op_eqb b a) eqn:H2; try reflexivity.
  - apply op_eqb_eq in H1. subst. rewrite op_eqb_refl in H2. discriminate.
  - apply op_eqb_eq in H2. subst. rewrite op_eqb_refl in H1. discriminate.
Qed.

Lemma find_tx_some : forall l h t, find_tx l h = Some t -> In t l /\ t_id t = h.
Proof.
  intros l h t H. unfold find_tx in H. apply find_some in H. destruct H as [Hin Heq].
  apply N.eqb_eq in Heq. split; assumption.
Qed.

Lemma find_tx_none : forall l h, find_tx l h = None -> forall t, In t l -> t_id t <> h.
Proof.
  intros l h H t Hin Heq. unfold find_tx in H.
  pose proof (find_none _ _ H t Hin) as Hn. cbv beta in Hn. apply N.eqb_neq in Hn. contradiction.
Qed.

Lemma NoDup_map_inj_in : forall (A B : Type) (f : A -> B) (l : list A) x y,
  NoDup (map f l) -> In x l -> In y l -> f x = f y -> x = y.
Proof.
  intros A B f l. induction l as [|a l IH]; intros x y Hnd Hx Hy Hf.
  - destruct Hx.
  - cbn in Hnd. inversion Hnd as [|? ? Hnotin Hnd']. subst.
    destruct Hx as [Hx|Hx]; destruct Hy as [Hy|Hy].
    + congruence.
    + subst a. exfalso. apply Hnotin. rewrite Hf. apply in_map. assumption.
    + subst a. exfalso. apply Hnotin. rewrite <- Hf. apply in_map. assumption.
    + apply IH; assumption.
Qed.

Lemma find_tx_nodup : forall l t, NoDup (map t_id l) -> In t l -> find_tx l (t_id t) = Some t.
Proof.
  intros l t Hnd Hin. destruct (find_tx l (t_id t)) as [t'|] eqn:Hf.
  - apply find_tx_some in Hf. destruct Hf as [Hin' Hid].
    f_equal. apply (NoDup_map_inj_in _ _ t_id l); assumption.
  - exfalso. apply (find_tx_none _ _ Hf t Hin). reflexivity.
Qed.

Lemma exist_credit_app : forall a b h,
  exist_credit_from_tx (a ++ b) h = exist_credit_from_tx a h || exist_credit_from_tx b h.
Proof. intros a b h. unfold exist_credit_from_tx. apply existsb_app. Qed.

Lemma inputs_ok_app : forall a seen b,
  inputs_ok seen (a ++ b) <-> inputs_ok seen a /\ inputs_ok (seen ++ a) b.
Proof.
  induction a as [|t a IH]; intros seen b.
  - cbn. rewrite app_nil_r. tauto.
  - cbn [app inputs_ok]. rewrite IH. rewrite <- app_assoc. cbn [app]. tauto.
Qed.

Lemma inputs_ok_snoc : forall a seen t,
  inputs_ok seen (a ++ [t]) <->
  inputs_ok seen a /\ (t_cb t = false -> forall op, In op (t_ins t) -> created_before (seen ++ a) op).
Proof.
  intros a seen t. rewrite inputs_ok_app. cbn [inputs_ok]. tauto.
Qed.

Lemma NoDup_app_inv : forall (A : Type) (a b : list A),
  NoDup (a ++ b) -> NoDup a /\ NoDup b /\ (forall x, In x a -> ~ In x b).
Proof.
  intros A a b. induction a as [|x a IH]; intros Hnd.
  - cbn in Hnd. split; [constructor|split; [assumption|intros x []]].
  - cbn in Hnd. inversion Hnd as [|? ? Hnotin Hnd']. subst.
    destruct (IH Hnd') as [Ha [Hb Hab]]. split; [|split].
    + constructor; [|assumption]. intros Hin. apply Hnotin. apply in_or_app. left. assumption.
    + assumption.
    + intros y [Hy|Hy] Hyb.
      * subst y. apply Hnotin. apply in_or_app. right. assumption.
      * apply (Hab y); assumption.
Qed.

Lemma NoDup_app_intro : forall (A : Type) (a b : list A),
  NoDup a -> NoDup b -> (forall x, In x a -> ~ In x b) -> NoDup (a ++ b).
Proof.
  intros A a b Ha Hb Hab. induction a as [|x a IH].
  - assumption.
  - cbn. inversion Ha as [|? ? Hnotin Ha']. subst. constructor.
    + intros Hin. apply in_app_or in Hin. destruct Hin as [Hin|Hin].
      * contradiction.
      * apply (Hab x); [left; reflexivity|assumption].
    + apply IH; [assumption|]. intros y Hy. apply Hab. right. assumption.
Qed.

Lemma wf_txs_snoc : forall a t, wf_txs (a ++ [t]) ->
  wf_txs a /\
  ~ In (t_id t) (map t_id a) /\
  (forall op, In op (ins_of t) -> created_before a op) /\
  NoDup (ins_of t) /\
  (forall op, In op (ins_of t) -> ~ In op (flat_map ins_of a)).
Proof.
  intros a t [Hids Hin Hnd].
  rewrite map_app in Hids. cbn [map] in Hids.
  rewrite flat_map_app in Hnd. cbn [flat_map] in Hnd. rewrite app_nil_r in Hnd.
  apply inputs_ok_snoc in Hin. destruct Hin as [Hin Ht]. cbn [app] in Ht.
  apply NoDup_app_inv in Hids. destruct Hids as [Hids1 [_ Hids2]].
  apply NoDup_app_inv in Hnd. destruct Hnd as [Hnd1 [Hnd2 Hnd3]].
  split; [|split; [|split; [|split]]].
  - constructor; assumption.
  - intros Hi. apply (Hids2 _ Hi). left. reflexivity.
  - intros op Hop. unfold ins_of in Hop. destruct (t_cb t) eqn:Hcb; [destruct Hop|].
    apply Ht; [reflexivity|assumption].
  - assumption.
  - intros op Hop Hop'. apply (Hnd3 _ Hop' Hop).
Qed.

(* ---------------------------------------------------------------- filter_ins *)

Lemma owned_out_found : forall own all op pt,
  NoDup (map t_id all) -> In pt all -> t_id pt = fst op ->
  owned_out own all op =
  match nth_error (t_outs pt) (N.to_nat (snd op)) with
  | Some o => match o_class o with CUnsupported => None | _ => own (o_sh o) end
  | None => None
  end.
Proof.
  intros own all op pt Hnd Hin Hid. unfold owned_out. rewrite <- Hid.
  rewrite (find_tx_nodup _ _ Hnd Hin). reflexivity.
Qed.

Lemma filter_ins_spec : forall own view inblk lookup all ins i,
  NoDup (map t_id all) ->
  incl inblk all ->
  (forall op, In op ins -> exists pt, In pt all /\ t_id pt = fst op /\
       (N.to_nat (snd op) < length (t_outs pt))%nat /\
       (In pt inblk \/ (lookup (fst op) = Some pt /\
                        (exist_credit_from_tx view (fst op) = false -> owned_out own all op = None)))) ->
  filter_ins own view inblk lookup ins i = Ok (rel_ins_of own all ins i).
Proof.
  intros own view inblk lookup all ins. induction ins as [|[ph pv] rest IH]; intros i Hnd Hincl Hops.
  - reflexivity.
  - assert (Hrest : filter_ins own view inblk lookup rest (i + 1)%N = Ok (rel_ins_of own all rest (i + 1)%N)).
    { apply IH; [assumption|assumption|]. intros op Hop. apply Hops. right. assumption. }
    destruct (Hops (ph, pv) (or_introl eq_refl)) as [pt [Hpt [Hid [Hlen Hwhere]]]].
    cbn [fst snd] in Hid, Hlen, Hwhere.
    cbn [filter_ins rel_ins_of]. rewrite Hrest.
    rewrite (owned_out_found own all (ph, pv) pt Hnd Hpt Hid). cbn [fst snd].
    destruct (nth_error (t_outs pt) (N.to_nat pv)) as [o|] eqn:Hnth.
    2:{ apply nth_error_None in Hnth. lia. }
    assert (Hwith :
      match nth_error (t_outs pt) (N.to_nat pv) with
      | None => Err EInvalidTx
      | Some o =>
          match o_class o with
          | CUnsupported => Ok (rel_ins_of own all rest (i + 1)%N)
          | _ => match own (o_sh o) with
                 | None => Ok (rel_ins_of own all rest (i + 1)%N)
                 | Some w => Ok ({| ri_index := i; ri_prev := (ph, pv); ri_wallet := w |} :: rel_ins_of own all rest (i + 1)%N)
                 end
          end
      end =
      Ok match match o_class o with CUnsupported => None | _ => own (o_sh o) end with
         | Some w => {| ri_index := i; ri_prev := (ph, pv); ri_wallet := w |} :: rel_ins_of own all rest (i + 1)%N
         | None => rel_ins_of own all rest (i + 1)%N
         end).
    { rewrite Hnth. destruct (o_class o); try reflexivity; destruct (own (o_sh o)); reflexivity. }
    destruct (find_tx inblk ph) as [bro|] eqn:Hbro.
    + apply find_tx_some in Hbro. destruct Hbro as [Hbin Hbid].
      assert (bro = pt) as ->.
      { apply (NoDup_map_inj_in _ _ t_id all); [assumption|apply Hincl; assumption|assumption|congruence]. }
      exact Hwith.
    + destruct Hwhere as [Hinblk|[Hlook Hnone]].
      { exfalso. apply (find_tx_none _ _ Hbro pt Hinblk). assumption. }
      destruct (exist_credit_from_tx view ph) eqn:Hex.
      * rewrite Hlook. exact Hwith.
      * specialize (Hnone eq_refl).
        rewrite (owned_out_found own all (ph, pv) pt Hnd Hpt Hid) in Hnone. cbn [fst snd] in Hnone.
        rewrite Hnth in Hnone. rewrite Hnone. reflexivity.
Qed.

(* ---------------------------------------------------------------- coins *)

Definition out_owner (own : owner_fn) (o : txout) : option N :=
  match o_class o with CUnsupported => None | _ => own (o_sh o) end.

Lemma coins_of_outs_cons : forall own t h bid o rest i,
  coins_of_outs own t h bid (o :: rest) i =
  match out_owner own o with
  | Some w => {| k_tx := t_id t; k_vout := i; k_height := h; k_bid := bid; k_amount := o_val o;
                 k_sh := o_sh o; k_wallet := w; k_class := o_class o; k_cb := t_cb t |}
              :: coins_of_outs own t h bid rest (i + 1)%N
  | None => coins_of_outs own t h bid rest (i + 1)%N
  end.
Proof.
  intros own t h bid o rest i. unfold out_owner. cbn [coins_of_outs].
  destruct (o_class o); reflexivity.
Qed.

Lemma filter_outs_cons : forall own o rest i,
  filter_outs own (o :: rest) i =
  match out_owner own o with
  | Some w => {| ro_index := i; ro_out := o; ro_wallet := w |} :: filter_outs own rest (i + 1)%N
  | None => filter_outs own rest (i + 1)%N
  end.
Proof.
  intros own o rest i. unfold out_owner. cbn [filter_outs]. destruct (o_class o); reflexivity.
Qed.

Lemma coins_of_outs_in : forall own t h bid outs i k,
  In k (coins_of_outs own t h bid outs i) ->
  k_tx k = t_id t /\ k_height k = h /\ k_bid k = bid /\
  exists j o, nth_error outs j = Some o /\ k_vout k = (i + N.of_nat j)%N /\
              out_owner own o = Some (k_wallet k).
Proof.
  intros own t h bid outs. induction outs as [|o rest IH]; intros i k Hin.
  - destruct Hin.
  - rewrite coins_of_outs_cons in Hin.
    assert (Hrest : In k (coins_of_outs own t h bid rest (i + 1)%N) ->
      k_tx k = t_id t /\ k_height k = h /\ k_bid k = bid /\
      exists j o', nth_error (o :: rest) j = Some o' /\ k_vout k = (i + N.of_nat j)%N /\
                  out_owner own o' = Some (k_wallet k)).
    { intros Hin'. destruct (IH _ _ Hin') as [H1 [H2 [H3 [j [o' [Hj [Hv Ho]]]]]]].
      split; [assumption|split; [assumption|split; [assumption|]]].
      exists (S j), o'. split; [exact Hj|split; [lia|assumption]]. }
    destruct (out_owner own o) as [w|] eqn:Hown.
    + destruct Hin as [Hk|Hin]; [|apply Hrest; assumption].
      subst k. cbn. split; [reflexivity|split; [reflexivity|split; [reflexivity|]]].
      exists 0%nat, o. split; [reflexivity|split; [lia|assumption]].
    + apply Hrest; assumption.
Qed.

Lemma coins_of_outs_complete : forall own t h bid outs i j o w,
  nth_error outs j = Some o -> out_owner own o = Some w ->
  exists k, In k (coins_of_outs own t h bid outs i) /\ k_tx k = t_id t /\
            k_vout k = (i + N.of_nat j)%N /\ k_wallet k = w.
Proof.
  intros own t h bid outs. induction outs as [|o0 rest IH]; intros i j o w Hj Ho.
  - destruct j; discriminate.
  - rewrite coins_of_outs_cons. destruct j as [|j].
    + cbn in Hj. inversion Hj. subst o0. rewrite Ho.
      eexists. split; [left; reflexivity|]. cbn. split; [reflexivity|split; [lia|reflexivity]].
    + cbn in Hj. destruct (IH (i + 1)%N j o w Hj Ho) as [k [Hin [H1 [H2 H3]]]].
      exists k. split.
      * destruct (out_owner own o0); [right|]; assumption.
      * split; [assumption|split; [lia|assumption]].
Qed.

Lemma coins_of_outs_nodup : forall own t h bid outs i,
  NoDup (map coin_op (coins_of_outs own t h bid outs i)).
Proof.
  intros own t h bid outs. induction outs as [|o rest IH]; intros i.
  - constructor.
  - rewrite coins_of_outs_cons. destruct (out_owner own o) as [w|]; [|apply IH].
    cbn [map]. constructor; [|apply IH].
    intros Hin. apply in_map_iff in Hin. destruct Hin as [k [Hop Hk]].
    apply coins_of_outs_in in Hk. destruct Hk as [_ [_ [_ [j [o' [_ [Hv _]]]]]]].
    unfold coin_op in Hop. cbn in Hop. inversion Hop. lia.
Qed.

Lemma coins_l_app : forall own a b, coins_l own (a ++ b) = coins_l own a ++ coins_l own b.
Proof. intros. unfold coins_l. apply flat_map_app. Qed.

Lemma coins_l_in : forall own l k, In k (coins_l own l) ->
  exists x, In x l /\ In k (coins_pt own x).
Proof.
  intros own l k Hin. unfold coins_l in Hin. apply in_flat_map in Hin. exact Hin.
Qed.

Lemma coins_l_tx_in : forall own l k, In k (coins_l own l) -> In (k_tx k) (map t_id (txs_of l)).
Proof.
  intros own l k Hin. apply coins_l_in in Hin. destruct Hin as [x [Hx Hk]].
  unfold coins_pt in Hk. apply coins_of_outs_in in Hk. destruct Hk as [Htx _].
  rewrite Htx. unfold txs_of. rewrite map_map. apply in_map_iff. exists x. split; [reflexivity|assumption].
Qed.

Lemma coins_l_nodup : forall own l, NoDup (map t_id (txs_of l)) -> NoDup (map coin_op (coins_l own l)).
Proof.
  intros own l. induction l as [|x l IH]; intros Hnd.
  - constructor.
  - cbn in Hnd. inversion Hnd as [|? ? Hnotin Hnd']. subst.
    change (coins_l own (x :: l)) with (coins_pt own x ++ coins_l own l).
    rewrite map_app. apply NoDup_app_intro.
    + apply coins_of_outs_nodup.
    + apply IH. assumption.
    + intros op Hop Hop'. apply in_map_iff in Hop. destruct Hop as [k [Hk Hkin]].
      apply in_map_iff in Hop'. destruct Hop' as [k' [Hk' Hkin']].
      apply coins_of_outs_in in Hkin. destruct Hkin as [Htx _].
      apply coins_l_tx_in in Hkin'. apply Hnotin.
      assert (k_tx k' = k_tx k) as Heq.
      { unfold coin_op in Hk, Hk'. rewrite <- Hk in Hk'. inversion Hk'. reflexivity. }
      rewrite Heq, Htx in Hkin'. exact Hkin'.
Qed.

(* a coin of the list is an owned output of its transaction *)
Lemma coins_l_owned : forall own l all k,
  NoDup (map t_id all) -> incl (txs_of l) all -> In k (coins_l own l) ->
  owned_out own all (coin_op k) = Some (k_wallet k).
Proof.
  intros own l all k Hnd Hincl Hin. apply coins_l_in in Hin. destruct Hin as [x [Hx Hk]].
  unfold coins_pt in Hk. apply coins_of_outs_in in Hk.
  destruct Hk as [Htx [_ [_ [j [o [Hj [Hv Ho]]]]]]].
  assert (Hall : In (pt_tx x) all). { apply Hincl. unfold txs_of. apply in_map. assumption. }
  rewrite (owned_out_found own all (coin_op k) (pt_tx x) Hnd Hall).
  2:{ unfold coin_op. cbn. symmetry. assumption. }
  unfold coin_op. cbn [snd]. rewrite Hv. rewrite N.add_0_l, Nat2N.id. rewrite Hj. exact Ho.
Qed.

(* an owned output of a transaction of the list is a coin of the list *)
Lemma owned_coin_exists : forall own l all op pt w,
  NoDup (map t_id all) -> In pt (txs_of l) -> In pt all -> t_id pt = fst op ->
  owned_out own all op = Some w ->
  exists k, In k (coins_l own l) /\ coin_op k = op /\ k_wallet k = w.
Proof.
  intros own l all op pt w Hnd Hpt Hall Hid Hown.
  rewrite (owned_out_found own all op pt Hnd Hall Hid) in Hown.
  destruct (nth_error (t_outs pt) (N.to_nat (snd op))) as [o|] eqn:Hnth; [|discriminate].
  unfold txs_of in Hpt. apply in_map_iff in Hpt. destruct Hpt as [x [Hxt Hx]].
  destruct (coins_of_outs_complete own (pt_tx x) (pt_h x) (pt_bid x) (t_outs (pt_tx x)) 0%N
              (N.to_nat (snd op)) o w) as [k [Hk [H1 [H2 H3]]]].
  { rewrite Hxt. assumption. }
  { exact Hown. }
  exists k. split; [|split].
  - unfold coins_l. apply in_flat_map. exists x. split; assumption.
  - unfold coin_op. rewrite H1, H2, Hxt, Hid. rewrite N.add_0_l, N2Nat.id. destruct op; reflexivity.
  - assumption.
Qed.

Lemma exist_credit_mkE : forall p coins f h,
  exist_credit_from_tx (mkE p coins f) h = existsb (fun k => (k_tx k =? h)%N) coins.
Proof.
  intros p coins f h. unfold exist_credit_from_tx, mkE. induction coins as [|k coins IH].
  - reflexivity.
  - cbn [map existsb]. rewrite IH. reflexivity.
Qed.

Lemma mkE_ext : forall p coins f g,
  (forall k, In k coins -> f (coin_op k) = g (coin_op k)) -> mkE p coins f = mkE p coins g.
Proof.
  intros p coins f g H. unfold mkE. apply map_ext_in. intros k Hk. rewrite (H k Hk). reflexivity.
Qed.

Lemma mkE_app : forall p a b f, mkE p (a ++ b) f = mkE p a f ++ mkE p b f.
Proof. intros. unfold mkE. apply map_app. Qed.

(* ---------------------------------------------------------------- spend_credit, apply_ins *)

Definition upd (f : N * N -> option (N * N * Z)) (op : N * N) (by_ : N * N * Z) : N * N -> option (N * N * Z) :=
  fun o => if op_eqb o op then Some by_ else f o.

Lemma spend_credit_mkE : forall p coins f k w op by_,
  NoDup (map coin_op coins) -> In k coins -> coin_op k = op -> k_wallet k = w -> f op = None ->
  spend_credit (mkE p coins f) w op by_ = Some (mkE p coins (upd f op by_)).
Proof.
  intros p coins f k w op by_. induction coins as [|k0 coins IH]; intros Hnd Hin Hop Hw Hf.
  - destruct Hin.
  - cbn [map] in Hnd. inversion Hnd as [|? ? Hnotin Hnd']. subst.
    cbn [mkE map spend_credit].
    change (credit_op (mk_credit p k0 (f (coin_op k0)))) with (coin_op k0).
    change (c_wallet (mk_credit p k0 (f (coin_op k0)))) with (k_wallet k0).
    unfold is_unspent. change (c_spent (mk_credit p k0 (f (coin_op k0)))) with (f (coin_op k0)).
    destruct (op_eqb (coin_op k0) (coin_op k)) eqn:Heq.
    + apply op_eqb_eq in Heq.
      assert (k = k0) as ->.
      { destruct Hin as [Hin|Hin]; [symmetry; assumption|].
        exfalso. apply Hnotin. rewrite Heq. apply in_map. assumption. }
      rewrite N.eqb_refl, Hf. cbn [andb]. f_equal.
      unfold upd at 1. rewrite op_eqb_refl. f_equal.
      apply mkE_ext. intros k' Hk'. unfold upd.
      destruct (op_eqb (coin_op k') (coin_op k0)) eqn:Heq'; [|reflexivity].
      apply op_eqb_eq in Heq'. exfalso. apply Hnotin. rewrite <- Heq'. apply in_map. assumption.
    + cbn [andb]. destruct Hin as [Hin|Hin].
      { subst k0. rewrite op_eqb_refl in Heq. discriminate. }
      fold (mkE p coins f). rewrite (IH Hnd' Hin eq_refl eq_refl Hf).
      f_equal. unfold mkE. cbn [map]. f_equal. unfold upd. rewrite Heq. reflexivity.
Qed.

Definition upd_all (t : tx) (h : Z) (ris : list rel_in) (f : N * N -> option (N * N * Z)) :=
  fold_left (fun f ri => upd f (ri_prev ri) (t_id t, ri_index ri, h)) ris f.

Lemma apply_ins_mkE : forall p t h ris coins f,
  NoDup (map coin_op coins) -> NoDup (map ri_prev ris) ->
  (forall ri, In ri ris -> f (ri_prev ri) = None /\
      exists k, In k coins /\ coin_op k = ri_prev ri /\ k_wallet k = ri_wallet ri) ->
  apply_ins (mkE p coins f) t h ris = Ok (mkE p coins (upd_all t h ris f)).
Proof.
  intros p t h ris. induction ris as [|ri ris IH]; intros coins f Hnd Hris Hall.
  - reflexivity.
  - cbn [map] in Hris. inversion Hris as [|? ? Hnotin Hris']. subst.
    destruct (Hall ri (or_introl eq_refl)) as [Hf [k [Hk [Hop Hw]]]].
    cbn [apply_ins]. rewrite (spend_credit_mkE p coins f k (ri_wallet ri) (ri_prev ri) _ Hnd Hk Hop Hw Hf).
    unfold upd_all. cbn [fold_left]. apply IH; [assumption|assumption|].
    intros ri' Hri'. destruct (Hall ri' (or_intror Hri')) as [Hf' Hex]. split; [|assumption].
    unfold upd. destruct (op_eqb (ri_prev ri') (ri_prev ri)) eqn:Heq; [|assumption].
    apply op_eqb_eq in Heq. exfalso. apply Hnotin. rewrite <- Heq. apply in_map. assumption.
Qed.

Lemma upd_all_find : forall t h ris f op,
  NoDup (map ri_prev ris) ->
  upd_all t h ris f op =
  match find (fun ri => op_eqb op (ri_prev ri)) ris with
  | Some ri => Some (t_id t, ri_index ri, h)
  | None => f op
  end.
Proof.
  intros t h ris. induction ris as [|ri ris IH]; intros f op Hnd.
  - reflexivity.
  - cbn [map] in Hnd. inversion Hnd as [|? ? Hnotin Hnd']. subst.
    unfold upd_all. cbn [fold_left find]. fold (upd_all t h ris (upd f (ri_prev ri) (t_id t, ri_index ri, h))).
    rewrite (IH _ op Hnd').
    destruct (op_eqb op (ri_prev ri)) eqn:Heq.
    + apply op_eqb_eq in Heq. subst op.
      destruct (find (fun ri0 => op_eqb (ri_prev ri) (ri_prev ri0)) ris) as [ri'|] eqn:Hfind.
      * apply find_some in Hfind. destruct Hfind as [Hin Heq]. apply op_eqb_eq in Heq.
        exfalso. apply Hnotin. rewrite Heq. apply in_map. assumption.
      * unfold upd. rewrite op_eqb_refl. reflexivity.
    + destruct (find (fun ri0 => op_eqb op (ri_prev ri0)) ris); [reflexivity|].
      unfold upd. rewrite Heq. reflexivity.
Qed.

Lemma rel_ins_of_in : forall own all ins i ri,
  In ri (rel_ins_of own all ins i) ->
  In (ri_prev ri) ins /\ owned_out own all (ri_prev ri) = Some (ri_wallet ri).
Proof.
  intros own all ins. induction ins as [|op ins IH]; intros i ri Hin.
  - destruct Hin.
  - cbn [rel_ins_of] in Hin. destruct (owned_out own all op) as [w|] eqn:Hown.
    + destruct Hin as [Hri|Hin].
      * subst ri. cbn. split; [left; reflexivity|assumption].
      * destruct (IH _ _ Hin) as [H1 H2]. split; [right|]; assumption.
    + destruct (IH _ _ Hin) as [H1 H2]. split; [right|]; assumption.
Qed.

Lemma rel_ins_of_nodup : forall own all ins i,
  NoDup ins -> NoDup (map ri_prev (rel_ins_of own all ins i)).
Proof.
  intros own all ins. induction ins as [|op ins IH]; intros i Hnd.
  - constructor.
  - inversion Hnd as [|? ? Hnotin Hnd']. subst. cbn [rel_ins_of].
    destruct (owned_out own all op) as [w|]; [|apply IH; assumption].
    cbn [map]. constructor; [|apply IH; assumption].
    cbn. intros Hin. apply in_map_iff in Hin. destruct Hin as [ri [Hp Hri]].
    apply rel_ins_of_in in Hri. destruct Hri as [Hri _]. rewrite Hp in Hri. contradiction.
Qed.

Lemma find_rel_ins : forall own all ins i op w,
  owned_out own all op = Some w ->
  find (fun ri => op_eqb op (ri_prev ri)) (rel_ins_of own all ins i) =
  option_map (fun j => {| ri_index := j; ri_prev := op; ri_wallet := w |}) (find_in_ins ins i op).
Proof.
  intros own all ins. induction ins as [|x ins IH]; intros i op w Hown.
  - reflexivity.
  - cbn [rel_ins_of find_in_ins]. destruct (op_eqb op x) eqn:Heq.
    + apply op_eqb_eq in Heq. subst x. rewrite Hown. cbn [find ri_prev]. rewrite op_eqb_refl. reflexivity.
    + destruct (owned_out own all x) as [w'|].
      * cbn [find ri_prev]. rewrite Heq. apply IH. assumption.
      * apply IH. assumption.
Qed.

Lemma find_in_ins_some : forall ins i op j, find_in_ins ins i op = Some j -> In op ins.
Proof.
  induction ins as [|x ins IH]; intros i op j H.
  - discriminate.
  - cbn [find_in_ins] in H. destruct (op_eqb op x) eqn:Heq.
    + apply op_eqb_eq in Heq. left. symmetry. assumption.
    + right. apply (IH _ _ _ H).
Qed.

Lemma find_in_ins_none : forall ins i op, find_in_ins ins i op = None -> ~ In op ins.
Proof.
  induction ins as [|x ins IH]; intros i op H Hin.
  - destruct Hin.
  - cbn [find_in_ins] in H. destruct (op_eqb op x) eqn:Heq; [discriminate|].
    destruct Hin as [Hin|Hin].
    + subst x. rewrite op_eqb_refl in Heq. discriminate.
    + apply (IH _ _ H Hin).
Qed.

(* ---------------------------------------------------------------- apply_outs *)

Lemma apply_outs_spec : forall p own t h bid outs i cs,
  (forall cr, In cr cs -> c_tx cr = t_id t -> (c_vout cr < i)%N) ->
  apply_outs p cs t h bid (filter_outs own outs i) =
  Ok (cs ++ mkE p (coins_of_outs own t h bid outs i) (fun _ => None)).
Proof.
  intros p own t h bid outs. induction outs as [|o outs IH]; intros i cs Hcs.
  - cbn. rewrite app_nil_r. reflexivity.
  - rewrite filter_outs_cons, coins_of_outs_cons.
    destruct (out_owner own o) as [w|]; [|apply IH; intros cr Hcr Htx; specialize (Hcs cr Hcr Htx); lia].
    cbn [apply_outs ro_index ro_out ro_wallet].
    assert (Hex : exists_credit_at cs (t_id t, i) h bid = false).
    { unfold exists_credit_at. destruct (existsb _ cs) eqn:Hex; [|reflexivity].
      apply existsb_exists in Hex. destruct Hex as [cr [Hcr Hc]].
      apply andb_true_iff in Hc. destruct Hc as [Hc _]. apply andb_true_iff in Hc. destruct Hc as [Hc _].
      apply op_eqb_eq in Hc. unfold credit_op in Hc. inversion Hc as [[Htx Hv]].
      specialize (Hcs cr Hcr Htx). lia. }
    rewrite Hex. rewrite IH.
    + rewrite <- app_assoc. reflexivity.
    + intros cr Hcr Htx. apply in_app_or in Hcr. destruct Hcr as [Hcr|[Hcr|[]]].
      * specialize (Hcs cr Hcr Htx). lia.
      * subst cr. cbn. lia.
Qed.

(* ---------------------------------------------------------------- spenders *)

Lemma spender_l_app : forall a b op,
  spender_l (a ++ b) op = match spender_l a op with Some s => Some s | None => spender_l b op end.
Proof.
  induction a as [|x a IH]; intros b op.
  - reflexivity.
  - cbn [app spender_l]. destruct (spender_pt x op); [reflexivity|apply IH].
Qed.

Lemma spender_pt_some : forall x op s, spender_pt x op = Some s -> In op (ins_of (pt_tx x)).
Proof.
  intros x op s H. unfold spender_pt in H. unfold ins_of. destruct (t_cb (pt_tx x)); [discriminate|].
  destruct (find_in_ins (t_ins (pt_tx x)) 0%N op) eqn:Hf; [|discriminate].
  apply (find_in_ins_some _ _ _ _ Hf).
Qed.

Lemma spender_l_some : forall l op s, spender_l l op = Some s ->
  exists x, In x l /\ In op (ins_of (pt_tx x)).
Proof.
  induction l as [|x l IH]; intros op s H.
  - discriminate.
  - cbn [spender_l] in H. destruct (spender_pt x op) as [s'|] eqn:Hx.
    + exists x. split; [left; reflexivity|apply (spender_pt_some _ _ _ Hx)].
    + destruct (IH _ _ H) as [y [Hy Hop]]. exists y. split; [right|]; assumption.
Qed.

Lemma spender_l_some_flat : forall l op s, spender_l l op = Some s -> In op (flat_map ins_of (txs_of l)).
Proof.
  intros l op s H. apply spender_l_some in H. destruct H as [x [Hx Hop]].
  apply in_flat_map. exists (pt_tx x). split; [|assumption]. unfold txs_of. apply in_map. assumption.
Qed.

Lemma created_before_incl : forall a b op, incl a b -> created_before a op -> created_before b op.
Proof.
  intros a b op Hincl [t [Hin H]]. exists t. split; [apply Hincl; assumption|assumption].
Qed.

Lemma inputs_ok_in : forall a seen y op,
  inputs_ok seen a -> In y a -> In op (ins_of y) -> created_before (seen ++ a) op.
Proof.
  induction a as [|t a IH]; intros seen y op Hok Hy Hop.
  - destruct Hy.
  - cbn [inputs_ok] in Hok. destruct Hok as [Ht Hrest]. destruct Hy as [Hy|Hy].
    + subst y. unfold ins_of in Hop. destruct (t_cb t) eqn:Hcb; [destruct Hop|].
      apply (created_before_incl seen); [|apply Ht; [reflexivity|assumption]].
      apply incl_appl. apply incl_refl.
    + specialize (IH _ _ _ Hrest Hy Hop). rewrite <- app_assoc in IH. exact IH.
Qed.

(* no input of a well-formed list refers to a transaction id that is not in the list *)
Lemma wf_txs_input_known : forall txs y op,
  wf_txs txs -> In y txs -> In op (ins_of y) -> In (fst op) (map t_id txs).
Proof.
  intros txs y op Hwf Hy Hop.
  pose proof (inputs_ok_in txs [] y op (wt_inputs _ Hwf) Hy Hop) as [t [Hin [Hid _]]].
  cbn [app] in Hin. rewrite <- Hid. apply in_map. assumption.
Qed.

(* ---------------------------------------------------------------- one transaction *)

Lemma tx_step : forall p own l t h bid all,
  wf_txs (txs_of l ++ [t]) -> NoDup (map t_id all) -> incl (txs_of l ++ [t]) all ->
  exists cs1,
    apply_ins (E p own l) t h (rr_ins (rec_of own all t)) = Ok cs1 /\
    apply_outs p cs1 t h bid (rr_outs (rec_of own all t)) = Ok (E p own (l ++ [(t, h, bid)])).
Proof.
  intros p own l t h bid all Hwf Hnd Hincl.
  pose proof (wf_txs_snoc _ _ Hwf) as [Hwfl [Hnew [Hcreated [Hndt Hfresh]]]].
  assert (Hincl_l : incl (txs_of l) all).
  { intros y Hy. apply Hincl. apply in_or_app. left. assumption. }
  assert (Hcoins_nd : NoDup (map coin_op (coins_l own l))).
  { apply coins_l_nodup. apply (wt_ids _ Hwfl). }
  set (x := (t, h, bid)).
  exists (mkE p (coins_l own l) (spender_l (l ++ [x]))). split.
  - unfold E, rec_of. cbn [rr_ins].
    (* the function reached by marking *)
    assert (Hgoal : forall ris, ris = (if t_cb t then [] else rel_ins_of own all (t_ins t) 0%N) ->
      apply_ins (mkE p (coins_l own l) (spender_l l)) t h ris =
      Ok (mkE p (coins_l own l) (spender_l (l ++ [x])))).
    { intros ris Hris.
      assert (Hris_in : forall ri, In ri ris ->
                In (ri_prev ri) (ins_of t) /\ owned_out own all (ri_prev ri) = Some (ri_wallet ri)).
      { intros ri Hri. subst ris. unfold ins_of. destruct (t_cb t); [destruct Hri|].
        apply (rel_ins_of_in _ _ _ _ _ Hri). }
      assert (Hris_nd : NoDup (map ri_prev ris)).
      { subst ris. unfold ins_of in Hndt. destruct (t_cb t); [constructor|].
        apply rel_ins_of_nodup. assumption. }
      rewrite apply_ins_mkE; [|assumption|assumption|].
      - f_equal. apply mkE_ext. intros k Hk.
        rewrite (upd_all_find _ _ _ _ _ Hris_nd).
        rewrite spender_l_app. cbn [spender_l].
        assert (Hown : owned_out own all (coin_op k) = Some (k_wallet k)).
        { apply (coins_l_owned own l all k Hnd Hincl_l Hk). }
        unfold spender_pt. subst x. cbn [pt_tx pt_h fst snd].
        subst ris. destruct (t_cb t) eqn:Hcb.
        + cbn [find]. destruct (spender_l l (coin_op k)); reflexivity.
        + rewrite (find_rel_ins own all (t_ins t) 0%N (coin_op k) (k_wallet k) Hown).
          destruct (find_in_ins (t_ins t) 0%N (coin_op k)) as [j|] eqn:Hfind.
          * cbn [option_map ri_index].
            destruct (spender_l l (coin_op k)) as [s|] eqn:Hsp; [|reflexivity].
            exfalso. apply spender_l_some_flat in Hsp. apply find_in_ins_some in Hfind.
            apply (Hfresh (coin_op k)); [|assumption]. unfold ins_of. rewrite Hcb. assumption.
          * cbn [option_map]. destruct (spender_l l (coin_op k)); reflexivity.
      - intros ri Hri. destruct (Hris_in ri Hri) as [Hprev Hown]. split.
        + destruct (spender_l l (ri_prev ri)) as [s|] eqn:Hsp; [|reflexivity].
          exfalso. apply spender_l_some_flat in Hsp. apply (Hfresh _ Hprev Hsp).
        + destruct (Hcreated _ Hprev) as [pt [Hpt [Hid _]]].
          apply (owned_coin_exists own l all (ri_prev ri) pt (ri_wallet ri) Hnd Hpt (Hincl_l _ Hpt) Hid Hown). }
    apply Hgoal. reflexivity.
  - unfold rec_of. cbn [rr_outs]. rewrite (apply_outs_spec p own t h bid).
    + f_equal. unfold E. rewrite coins_l_app, mkE_app. f_equal.
      cbn [coins_l flat_map]. rewrite app_nil_r. unfold coins_pt. subst x. cbn [pt_tx pt_h pt_bid fst snd].
      apply mkE_ext. intros k Hk. apply coins_of_outs_in in Hk. destruct Hk as [Htx _].
      destruct (spender_l (l ++ [(t, h, bid)]) (coin_op k)) as [s|] eqn:Hsp; [|reflexivity].
      exfalso. apply spender_l_some in Hsp. destruct Hsp as [y [Hy Hop]].
      assert (Hyin : In (pt_tx y) (txs_of l ++ [t])).
      { unfold txs_of. change [t] with (map pt_tx [(t, h, bid)]). rewrite <- map_app. apply in_map. assumption. }
      pose proof (inputs_ok_in _ [] _ _ (wt_inputs _ Hwf) Hyin Hop) as Hcb. cbn [app] in Hcb.
      (* the creating transaction is strictly before the end, or the end itself; both impossible *)
      assert (Hstrict : created_before (txs_of l) (coin_op k)).
      { apply in_app_or in Hyin. destruct Hyin as [Hyl|[Hyt|[]]].
        - pose proof (inputs_ok_in _ [] _ _ (wt_inputs _ Hwfl) Hyl Hop) as H0. exact H0.
        - apply Hcreated. rewrite Hyt. assumption. }
      destruct Hstrict as [pt [Hpt [Hid _]]]. apply Hnew. unfold coin_op in Hid. cbn [fst] in Hid.
      rewrite <- Htx, <- Hid. apply in_map. assumption.
    + intros cr Hcr Htx. exfalso. unfold mkE in Hcr. apply in_map_iff in Hcr.
      destruct Hcr as [k [Hcr Hk]]. subst cr. cbn [c_tx mk_credit] in Htx.
      apply coins_l_tx_in in Hk. rewrite Htx in Hk. contradiction.
Qed.

(* ---------------------------------------------------------------- one block *)

Lemma wf_txs_prefix : forall a b, wf_txs (a ++ b) -> wf_txs a.
Proof.
  intros a b [Hids Hin Hnd]. constructor.
  - rewrite map_app in Hids. apply NoDup_app_inv in Hids. tauto.
  - apply inputs_ok_app in Hin. tauto.
  - rewrite flat_map_app in Hnd. apply NoDup_app_inv in Hnd. tauto.
Qed.

Lemma txs_of_app : forall a b, txs_of (a ++ b) = txs_of a ++ txs_of b.
Proof. intros. unfold txs_of. apply map_app. Qed.

Lemma filter_tx_spec : forall own view inblk lookup all t,
  (t_cb t = false -> filter_ins own view inblk lookup (t_ins t) 0%N = Ok (rel_ins_of own all (t_ins t) 0%N)) ->
  filter_tx own view inblk lookup t =
  Ok (if rec_keep (rec_of own all t) then Some (rec_of own all t) else None).
Proof.
  intros own view inblk lookup all t Hins. unfold filter_tx, rec_keep, rec_of. cbn [rr_ins rr_outs].
  destruct (t_cb t) eqn:Hcb.
  - destruct (filter_outs own (t_outs t) 0%N); reflexivity.
  - rewrite (Hins eq_refl).
    destruct (rel_ins_of own all (t_ins t) 0%N); destruct (filter_outs own (t_outs t) 0%N); reflexivity.
Qed.

Lemma filter_block_txs_spec : forall p own lookup l0 all txs seen,
  all = txs_of l0 ++ seen ++ txs -> wf_txs all ->
  (forall t, In t (txs_of l0) -> lookup (t_id t) = Some t) ->
  filter_block_txs own (E p own l0) lookup seen txs = Ok (filter rec_keep (map (rec_of own all) txs)).
Proof.
  intros p own lookup l0 all txs. induction txs as [|t rest IH]; intros seen Hall Hwf Hlook.
  - reflexivity.
  - cbn [filter_block_txs map filter].
    assert (Hall' : all = txs_of l0 ++ (seen ++ [t]) ++ rest).
    { rewrite Hall. rewrite <- (app_assoc seen). reflexivity. }
    rewrite (filter_tx_spec own (E p own l0) (seen ++ [t]) lookup all t).
    + rewrite (IH (seen ++ [t]) Hall' Hwf Hlook).
      destruct (rec_keep (rec_of own all t)); reflexivity.
    + intros Hcb. apply filter_ins_spec.
      * apply (wt_ids _ Hwf).
      * rewrite Hall'. apply incl_appr. apply incl_appl. apply incl_refl.
      * intros op Hop.
        assert (Hcr : created_before (txs_of l0 ++ seen) op).
        { pose proof (wt_inputs _ Hwf) as Hin. rewrite Hall in Hin. rewrite app_assoc in Hin.
          apply inputs_ok_app in Hin. destruct Hin as [_ Hin]. cbn [app inputs_ok] in Hin.
          destruct Hin as [Ht _]. apply Ht; assumption. }
        destruct Hcr as [pt [Hpt [Hid Hlen]]].
        assert (Hptall : In pt all).
        { rewrite Hall. rewrite app_assoc. apply in_or_app. left. assumption. }
        exists pt. split; [assumption|split; [assumption|split; [assumption|]]].
        apply in_app_or in Hpt. destruct Hpt as [Hpt|Hpt].
        -- right. split; [rewrite <- Hid; apply Hlook; assumption|].
           intros Hex. destruct (owned_out own all op) as [w|] eqn:Hown; [|reflexivity].
           exfalso.
           destruct (owned_coin_exists own l0 all op pt w (wt_ids _ Hwf) Hpt Hptall Hid Hown) as [k [Hk [Hop' _]]].
           unfold E in Hex. rewrite exist_credit_mkE in Hex.
           assert (Htrue : existsb (fun k0 => (k_tx k0 =? fst op)%N) (coins_l own l0) = true).
           { apply existsb_exists. exists k. split; [assumption|]. apply N.eqb_eq.
             rewrite <- Hop'. reflexivity. }
           congruence.
        -- left. apply in_or_app. left. assumption.
Qed.

Lemma apply_recs_filter : forall p h bid recs cs,
  apply_recs p cs h bid (filter rec_keep recs) = apply_recs p cs h bid recs.
Proof.
  intros p h bid recs. induction recs as [|r recs IH]; intros cs.
  - reflexivity.
  - cbn [filter]. destruct (rec_keep r) eqn:Hk.
    + cbn [apply_recs]. destruct (apply_ins cs (rr_tx r) h (rr_ins r)); [|reflexivity].
      destruct (apply_outs p a (rr_tx r) h bid (rr_outs r)); [|reflexivity]. apply IH.
    + cbn [apply_recs]. unfold rec_keep in Hk.
      destruct (rr_ins r); [|discriminate]. destruct (rr_outs r); [|discriminate].
      cbn [apply_ins apply_outs]. apply IH.
Qed.

Lemma apply_recs_spec : forall p own h bid all txs l,
  wf_txs (txs_of l ++ txs) -> NoDup (map t_id all) -> incl (txs_of l ++ txs) all ->
  apply_recs p (E p own l) h bid (map (rec_of own all) txs) =
  Ok (E p own (l ++ map (fun t => (t, h, bid)) txs)).
Proof.
  intros p own h bid all txs. induction txs as [|t rest IH]; intros l Hwf Hnd Hincl.
  - cbn. rewrite app_nil_r. reflexivity.
  - assert (Heq : txs_of l ++ t :: rest = (txs_of l ++ [t]) ++ rest).
    { rewrite <- app_assoc. reflexivity. }
    assert (Hwf1 : wf_txs (txs_of l ++ [t])).
    { rewrite Heq in Hwf. apply (wf_txs_prefix _ _ Hwf). }
    assert (Hincl1 : incl (txs_of l ++ [t]) all).
    { intros y Hy. apply Hincl. rewrite Heq. apply in_or_app. left. assumption. }
    destruct (tx_step p own l t h bid all Hwf1 Hnd Hincl1) as [cs1 [Hins Houts]].
    cbn [map apply_recs]. change (rr_tx (rec_of own all t)) with t.
    rewrite Hins, Houts.
    assert (Htx : txs_of (l ++ [(t, h, bid)]) = txs_of l ++ [t]).
    { rewrite txs_of_app. reflexivity. }
    rewrite IH.
    + rewrite <- app_assoc. reflexivity.
    + rewrite Htx, <- Heq. assumption.
    + assumption.
    + rewrite Htx, <- Heq. assumption.
Qed.

Lemma ptxs_app : forall a b, ptxs (a ++ b) = ptxs a ++ ptxs b.
Proof. intros. unfold ptxs. apply flat_map_app. Qed.

Lemma txs_of_ptxs : forall c, txs_of (ptxs c) = chain_txs c.
Proof.
  induction c as [|b c IH].
  - reflexivity.
  - cbn [ptxs flat_map chain_txs]. fold (ptxs c). fold (chain_txs c).
    rewrite txs_of_app, IH. f_equal.
    unfold txs_of, ptxs_of_block. rewrite map_map. cbn. apply map_id.
Qed.

Lemma chain_txs_app : forall a b, chain_txs (a ++ b) = chain_txs a ++ chain_txs b.
Proof. intros. unfold chain_txs. apply flat_map_app. Qed.

Lemma synced_of_snoc : forall c b, synced_of (c ++ [b]) = (b_height b, b_id b) :: synced_of c.
Proof. intros. unfold synced_of. rewrite map_app, rev_app_distr. reflexivity. Qed.

Theorem connect_block_L : forall p own cm lookup c b,
  wf_txs (chain_txs (c ++ [b])) ->
  (forall t, In t (chain_txs c) -> lookup (t_id t) = Some t) ->
  connect_block p true own cm lookup (L p own c) b = Ok (L p own (c ++ [b])).
Proof.
  intros p own cm lookup c b Hwf Hlook.
  assert (Hct : chain_txs (c ++ [b]) = txs_of (ptxs c) ++ [] ++ b_txs b).
  { rewrite chain_txs_app, txs_of_ptxs. cbn. rewrite app_nil_r. reflexivity. }
  unfold connect_block. cbn [L credits synced].
  rewrite (filter_block_txs_spec p own lookup (ptxs c) (chain_txs (c ++ [b])) (b_txs b) [] Hct Hwf).
  2:{ rewrite txs_of_ptxs. assumption. }
  rewrite apply_recs_filter.
  rewrite (apply_recs_spec p own (b_height b) (b_id b) (chain_txs (c ++ [b])) (b_txs b) (ptxs c)).
  - unfold L. rewrite synced_of_snoc. f_equal. f_equal.
    rewrite ptxs_app. cbn [ptxs flat_map]. rewrite app_nil_r. reflexivity.
  - rewrite Hct in Hwf. exact Hwf.
  - apply (wt_ids _ Hwf).
  - rewrite Hct. apply incl_refl.
Qed.
