(* Ledger/ImportProofs.v — lemmas about the status layer and the rescan worker (Ledger/Import.v). *)
From Coq Require Import List ZArith NArith Bool Lia.
Import ListNotations.
Open Scope Z_scope.
Require Import MW.Ledger.Model MW.Ledger.Spec MW.Ledger.Run MW.Ledger.WF MW.Ledger.Import.
Require Import MW.Ledger.Proofs MW.Ledger.Proofs2 MW.Ledger.Proofs3 MW.Ledger.RemoveProofs.

(* ---------------------------------------------------------------- unready until done *)

Lemma importing_is_unready : forall st w k,
  status_of st w = Some (WImporting k) ->
  use_wallet st w = UUnready /\ is_ready st w = false /\ (forall sh, ready_own st sh <> Some w).
Proof.
  intros st w k Hs. unfold use_wallet, is_ready. rewrite Hs. split; [reflexivity|split; [reflexivity|]].
  intros sh H. unfold ready_own in H. destruct (key_owner st sh) as [v|]; [|discriminate].
  destruct (is_ready st v) eqn:Hr; [|discriminate]. inversion H. subst v.
  unfold is_ready in Hr. rewrite Hs in Hr. discriminate.
Qed.

(* a batch hands the wallet over only when its range reaches the handler's tip, and only by a
   batch that committed *)
Lemma batch_ready_only_at_tip : forall fx p B n st w k st' o,
  status_of st w = Some (WImporting k) ->
  import_batch fx p B n st w = (st', o) ->
  status_of st' w = Some WReady ->
  o = IOk /\ fst (tip (x_w st)) <= k + B.
Proof.
  intros fx p B n st w k st' o Hs H Hr. unfold import_batch in H. rewrite Hs in H.
  destruct (memN w (x_dead st)).
  - inversion H. subst. rewrite Hs in Hr. discriminate.
  - destruct (import_blocks p (own_w st w) n k (Z.min (k + B) (fst (tip (x_w st)))) (credits (x_w st), x_brecs st) n)
      as [[cs brs]|e] eqn:Hb.
    + destruct (f_import_tipcheck fx && negb (node_on_synced n (x_w st) (Z.min (k + B) (fst (tip (x_w st)))))).
      { inversion H. subst. rewrite Hs in Hr. discriminate. }
      inversion H. subst st' o. clear H. unfold status_of, with_status in Hr. cbn [x_status] in Hr.
      rewrite lookupN_setN_same in Hr.
      destruct (Z.min (k + B) (fst (tip (x_w st))) =? fst (tip (x_w st))) eqn:E; [|discriminate].
      apply Z.eqb_eq in E. split; [reflexivity|lia].
    + destruct e; [| |destruct (f_import_retry fx)]; inversion H; subst; unfold status_of, with_dead in Hr; cbn [x_status] in Hr;
        unfold status_of in Hs; rewrite Hs in Hr; discriminate.
Qed.

(* a batch that does not commit changes nothing the wallet reports *)
Lemma batch_failed_keeps_ledger : forall fx p B n st w st' o,
  import_batch fx p B n st w = (st', o) -> o <> IOk ->
  x_w st' = x_w st /\ x_status st' = x_status st /\ x_brecs st' = x_brecs st.
Proof.
  intros fx p B n st w st' o H Ho. unfold import_batch in H.
  destruct (status_of st w) as [[|k|]|]; try (inversion H; subst; repeat split; reflexivity).
  destruct (memN w (x_dead st)); [inversion H; subst; repeat split; reflexivity|].
  destruct (import_blocks _ _ _ _ _ _ _) as [[cs brs]|e].
  - destruct (f_import_tipcheck fx && negb _); inversion H; subst; [repeat split; reflexivity|congruence].
  - destruct e; [| |destruct (f_import_retry fx)]; inversion H; subst; repeat split; reflexivity.
Qed.

(* disconnectBlock pulls the rescan cursor back below the disconnected height *)
Lemma rollback_pulls_cursor_back : forall fx st h st' w k,
  xrollback fx st h = XOk st' -> status_of st w = Some (WImporting k) ->
  status_of st' w = Some (WImporting (Z.min k (h - 1))).
Proof.
  intros fx st h st' w k H Hs. unfold xrollback in H.
  destruct (negb (f_rollback fx) && existsb _ (credits (x_w st))); [discriminate|].
  destruct (negb (f_rollback_order fx) && existsb _ (credits (x_w st))); [discriminate|].
  inversion H. subst st'. clear H. unfold status_of in *. cbn [x_status].
  induction (x_status st) as [|[k0 v0] r IH]; [discriminate|].
  cbn [map fst snd lookupN] in *. destruct (k0 =? w)%N.
  - inversion Hs. subst v0. reflexivity.
  - apply IH. assumption.
Qed.

Lemma rollback_keeps_other_status : forall fx st h st' w,
  xrollback fx st h = XOk st' ->
  (status_of st w = Some WReady -> status_of st' w = Some WReady) /\
  (status_of st w = Some WRemoving -> status_of st' w = Some WRemoving) /\
  (status_of st w = None -> status_of st' w = None).
Proof.
  intros fx st h st' w H. unfold xrollback in H.
  destruct (negb (f_rollback fx) && existsb _ (credits (x_w st))); [discriminate|].
  destruct (negb (f_rollback_order fx) && existsb _ (credits (x_w st))); [discriminate|].
  inversion H. subst st'. clear H. unfold status_of. cbn [x_status].
  induction (x_status st) as [|[k0 v0] r IH]; [repeat split; auto|].
  cbn [map fst snd lookupN]. destruct (k0 =? w)%N.
  - repeat split; intros Hs; inversion Hs; subst; reflexivity.
  - exact IH.
Qed.

(* ---------------------------------------------------------------- the chain as the rescan reads it *)

Lemma find_tx_in_unique : forall all sub id pt,
  NoDup (map t_id all) -> incl sub all -> In pt sub -> t_id pt = id -> find_tx sub id = Some pt.
Proof.
  intros all sub id pt Hnd Hincl Hin Hid.
  destruct (find_tx sub id) as [pt'|] eqn:Hf.
  - apply find_tx_some in Hf. destruct Hf as [Hin' Hid'].
    f_equal. apply (NoDup_map_inj_in _ _ t_id all); auto. congruence.
  - exfalso. apply (find_tx_none _ _ Hf pt Hin). assumption.
Qed.

(* FetchLastTxUntilHeight on a linked chain: the transactions of the first blocks *)
Lemma filter_upto : forall c1 c2 pv h,
  linked pv 0 (c1 ++ c2) -> h = Z.of_nat (length c1) - 1 ->
  filter (fun b => b_height b <=? h) (c1 ++ c2) = c1.
Proof.
  intros c1 c2 pv h Hl Hh. destruct (linked_heights_split _ _ _ Hl) as [H1 H2].
  rewrite filter_app. rewrite (filter_all_true _ _ c1), (filter_all_false _ _ c2).
  - apply app_nil_r.
  - intros b Hb. apply Z.leb_gt. specialize (H2 b Hb). lia.
  - intros b Hb. apply Z.leb_le. specialize (H1 b Hb). lia.
Qed.

Lemma node_tx_upto_prefix : forall c1 c2 pv h id,
  linked pv 0 (c1 ++ c2) -> h = Z.of_nat (length c1) - 1 ->
  node_tx_upto (c1 ++ c2) h id = find_tx (chain_txs c1) id.
Proof.
  intros c1 c2 pv h id Hl Hh. unfold node_tx_upto. rewrite (filter_upto _ _ _ _ Hl Hh). reflexivity.
Qed.

(* filterTxForImporting's input half computes the specification's relevant inputs *)
Lemma import_ins_spec : forall own n h all sub ins i,
  NoDup (map t_id all) -> incl sub all ->
  (forall id, node_tx_upto n h id = find_tx sub id) ->
  (forall op, In op ins -> exists pt, In pt sub /\ t_id pt = fst op /\ (N.to_nat (snd op) < length (t_outs pt))%nat) ->
  import_ins own n h ins i = Some (rel_ins_of own all ins i).
Proof.
  intros own n h all sub ins. induction ins as [|[ph pv] r IH]; intros i Hnd Hincl Hlook Hins; [reflexivity|].
  cbn [import_ins rel_ins_of].
  destruct (Hins (ph, pv) (or_introl eq_refl)) as [pt [Hpt [Hid Hlen]]]. cbn [fst snd] in *.
  rewrite Hlook. rewrite (find_tx_in_unique all sub ph pt Hnd Hincl Hpt Hid).
  rewrite (owned_out_found own all (ph, pv) pt Hnd (Hincl _ Hpt) Hid). cbn [snd].
  destruct (nth_error (t_outs pt) (N.to_nat pv)) as [o|] eqn:Hn.
  2:{ exfalso. apply nth_error_None in Hn. lia. }
  rewrite (IH (i + 1)%N Hnd Hincl Hlook).
  2:{ intros op Hop. apply Hins. right. assumption. }
  destruct (o_class o); try reflexivity; destruct (own (o_sh o)); reflexivity.
Qed.

(* ---------------------------------------------------------------- transactions the index does not list *)

Lemma out_touches_owner : forall own o, out_touches own o = is_some (out_owner own o).
Proof. intros own o. unfold out_touches, out_owner. destruct (o_class o); reflexivity. Qed.

Lemma coins_of_outs_none : forall own t h bid outs i,
  existsb (out_touches own) outs = false -> coins_of_outs own t h bid outs i = [].
Proof.
  intros own t h bid outs. induction outs as [|o r IH]; intros i H; [reflexivity|].
  cbn [existsb] in H. apply orb_false_iff in H. destruct H as [Ho Hr].
  rewrite coins_of_outs_cons. rewrite out_touches_owner in Ho.
  destruct (out_owner own o); [discriminate|]. apply IH. assumption.
Qed.

(* a transaction that touches none of the wallet's script hashes changes nothing *)
Lemma E_skip : forall p own n l t h bid all sub,
  NoDup (map t_id all) -> incl (txs_of l) sub -> incl sub all ->
  (forall id, node_tx_upto n h id = find_tx sub id) ->
  touches own n h t = false ->
  E p own (l ++ [(t, h, bid)]) = E p own l.
Proof.
  intros p own n l t h bid all sub Hnd Hl Hsub Hlook Ht.
  unfold touches in Ht. apply orb_false_iff in Ht. destruct Ht as [Hout Hin].
  unfold E. rewrite coins_l_app. cbn [coins_l flat_map]. rewrite app_nil_r.
  unfold coins_pt. cbn [pt_tx pt_h pt_bid fst snd].
  rewrite (coins_of_outs_none own t h bid (t_outs t) 0%N Hout). rewrite app_nil_r.
  apply mkE_ext. intros k Hk. rewrite spender_l_app. cbn [spender_l].
  destruct (spender_l l (coin_op k)); [reflexivity|].
  unfold spender_pt. cbn [pt_tx pt_h fst snd].
  destruct (t_cb t) eqn:Hcb; [reflexivity|]. cbn [negb andb] in Hin.
  destruct (find_in_ins (t_ins t) 0%N (coin_op k)) as [j|] eqn:Hf; [|reflexivity].
  exfalso. apply find_in_ins_some in Hf.
  assert (Htouch : in_touches own n h (coin_op k) = true).
  { apply coins_l_in in Hk. destruct Hk as [x [Hx Hk]]. unfold coins_pt in Hk.
    apply coins_of_outs_in in Hk. destruct Hk as [Htx [_ [_ [jj [o [Hj [Hv Ho]]]]]]].
    unfold in_touches, coin_op. cbn [fst snd]. rewrite Hlook.
    assert (Hptl : In (pt_tx x) sub). { apply Hl. unfold txs_of. apply in_map. assumption. }
    rewrite (find_tx_in_unique all sub (k_tx k) (pt_tx x) Hnd Hsub Hptl (eq_sym Htx)).
    rewrite Hv. rewrite N.add_0_l, Nnat.Nat2N.id. rewrite Hj.
    rewrite out_touches_owner, Ho. reflexivity. }
  assert (existsb (in_touches own n h) (t_ins t) = true).
  { apply existsb_exists. exists (coin_op k). split; assumption. }
  congruence.
Qed.

(* ---------------------------------------------------------------- block records stay those of the chain *)

Definition brs_ok (c : list block) (brs : list brec) : Prop :=
  forall br, In br brs -> exists b, In b c /\ b_height b = br_h br /\ b_id b = br_bid br.

Lemma add_ids_ok : forall c brs b ids,
  brs_ok c brs -> In b c -> brs_ok c (add_ids brs (b_height b) (b_id b) ids).
Proof.
  intros c brs b ids Hok Hb. unfold add_ids. destruct ids as [|i0 ir]; [assumption|].
  destruct (brec_at brs (b_height b)) as [br0|].
  - intros br Hbr. apply in_map_iff in Hbr. destruct Hbr as [br1 [Heq Hin]].
    destruct (br_h br1 =? b_height b); subst br; [cbn [br_h br_bid]|]; apply Hok; assumption.
  - intros br Hbr. apply in_app_or in Hbr. destruct Hbr as [Hbr|[Hbr|[]]]; [apply Hok; assumption|].
    subst br. exists b. cbn. repeat split; auto.
Qed.

Lemma brec_at_in : forall brs h br, brec_at brs h = Some br -> In br brs /\ br_h br = h.
Proof.
  intros brs h br H. unfold brec_at in H. apply find_some in H. destruct H as [Hin Hh].
  apply Z.eqb_eq in Hh. split; assumption.
Qed.

(* ---------------------------------------------------------------- one transaction, one block *)

Lemma import_tx_step : forall p own n h bid l brs t all sub,
  wf_txs (txs_of l ++ [t]) -> NoDup (map t_id all) -> incl (txs_of l ++ [t]) sub -> incl sub all ->
  (forall id, node_tx_upto n h id = find_tx sub id) ->
  (forall br, In br brs -> br_h br = h -> br_bid br = bid) ->
  exists brs',
    import_tx p own n h bid (E p own l, brs) t = inl (E p own (l ++ [(t, h, bid)]), brs') /\
    (brs' = brs \/ brs' = add_ids brs h bid [t_id t]).
Proof.
  intros p own n h bid l brs t all sub Hwf Hnd Hl Hsub Hlook Hchk.
  assert (Hincl : incl (txs_of l ++ [t]) all). { intros y Hy. apply Hsub. apply Hl. assumption. }
  destruct (tx_step p own l t h bid all Hwf Hnd Hincl) as [cs1 [Hins Houts]].
  pose proof (wf_txs_snoc _ _ Hwf) as [Hwfl [Hnew [Hcreated [Hndt Hfresh]]]].
  unfold import_tx.
  assert (Hi : (if t_cb t then Some [] else import_ins own n h (t_ins t) 0%N) = Some (rr_ins (rec_of own all t))).
  { unfold rec_of. cbn [rr_ins]. destruct (t_cb t) eqn:Hcb; [reflexivity|].
    apply (import_ins_spec own n h all sub); auto.
    intros op Hop. destruct (Hcreated op) as [pt [Hpt [Hid Hlen]]].
    { unfold ins_of. rewrite Hcb. assumption. }
    exists pt. split; [|split; assumption]. apply Hl. apply in_or_app. left. assumption. }
  rewrite Hi. unfold rec_of in *. cbn [rr_ins rr_outs] in *.
  set (ins := if t_cb t then [] else rel_ins_of own all (t_ins t) 0%N) in *.
  set (outs := filter_outs own (t_outs t) 0%N) in *.
  destruct ins as [|i0 ir] eqn:Ei; destruct outs as [|o0 orr] eqn:Eo.
  - (* not relevant after all: nothing changes *)
    cbn [apply_ins] in Hins. inversion Hins. subst cs1. cbn [apply_outs] in Houts. inversion Houts as [Heq].
    exists brs. split; [reflexivity|left; reflexivity].
  - assert (Hc : (match brec_at brs h with Some br => (br_bid br =? bid)%N | None => true end) = true).
    { destruct (brec_at brs h) as [br|] eqn:Hb; [|reflexivity]. apply brec_at_in in Hb. destruct Hb as [Hin Hh].
      apply N.eqb_eq. apply Hchk; assumption. }
    rewrite Hc. cbn [negb]. rewrite Hins, Houts. eexists. split; [reflexivity|right; reflexivity].
  - assert (Hc : (match brec_at brs h with Some br => (br_bid br =? bid)%N | None => true end) = true).
    { destruct (brec_at brs h) as [br|] eqn:Hb; [|reflexivity]. apply brec_at_in in Hb. destruct Hb as [Hin Hh].
      apply N.eqb_eq. apply Hchk; assumption. }
    rewrite Hc. cbn [negb]. rewrite Hins, Houts. eexists. split; [reflexivity|right; reflexivity].
  - assert (Hc : (match brec_at brs h with Some br => (br_bid br =? bid)%N | None => true end) = true).
    { destruct (brec_at brs h) as [br|] eqn:Hb; [|reflexivity]. apply brec_at_in in Hb. destruct Hb as [Hin Hh].
      apply N.eqb_eq. apply Hchk; assumption. }
    rewrite Hc. cbn [negb]. rewrite Hins, Houts. eexists. split; [reflexivity|right; reflexivity].
Qed.

Definition uniq_heights (c : list block) : Prop :=
  forall b1 b2, In b1 c -> In b2 c -> b_height b1 = b_height b2 -> b_id b1 = b_id b2.

Lemma chk_from_ok : forall c brs b, brs_ok c brs -> uniq_heights c -> In b c ->
  forall br, In br brs -> br_h br = b_height b -> br_bid br = b_id b.
Proof.
  intros c brs b Hok Hu Hb br Hbr Hh. destruct (Hok br Hbr) as [b' [Hb' [Hh' Hid']]].
  rewrite <- Hid'. apply Hu; auto. congruence.
Qed.

(* the listed transactions of one block, in block order: exactly what connecting the block does *)
Lemma import_txs_block : forall p own n c b all sub txs l brs,
  wf_txs (txs_of l ++ txs) -> NoDup (map t_id all) -> incl (txs_of l ++ txs) sub -> incl sub all ->
  (forall id, node_tx_upto n (b_height b) id = find_tx sub id) ->
  brs_ok c brs -> uniq_heights c -> In b c ->
  exists brs',
    import_txs p own n (b_height b) (b_id b) (E p own l, brs) (filter (touches own n (b_height b)) txs)
      = inl (E p own (l ++ map (fun t => (t, b_height b, b_id b)) txs), brs') /\
    brs_ok c brs'.
Proof.
  intros p own n c b all sub txs. induction txs as [|t r IH]; intros l brs Hwf Hnd Hl Hsub Hlook Hok Hu Hb.
  - cbn. rewrite app_nil_r. exists brs. split; [reflexivity|assumption].
  - assert (Hwf1 : wf_txs (txs_of l ++ [t])).
    { apply (wf_txs_prefix (txs_of l ++ [t]) r). rewrite <- app_assoc. exact Hwf. }
    assert (Hl1 : incl (txs_of l ++ [t]) sub).
    { intros y Hy. apply Hl. apply in_app_or in Hy. apply in_or_app. destruct Hy as [Hy|[Hy|[]]]; [left; assumption|].
      right. left. assumption. }
    assert (Hnext : txs_of (l ++ [(t, b_height b, b_id b)]) ++ r = txs_of l ++ t :: r).
    { rewrite txs_of_app. cbn. rewrite <- app_assoc. reflexivity. }
    cbn [filter map]. destruct (touches own n (b_height b) t) eqn:Ht.
    + cbn [import_txs].
      destruct (import_tx_step p own n (b_height b) (b_id b) l brs t all sub Hwf1 Hnd Hl1 Hsub Hlook
                  (chk_from_ok c brs b Hok Hu Hb)) as [brs1 [Hstep Hb1]].
      rewrite Hstep.
      assert (Hok1 : brs_ok c brs1).
      { destruct Hb1 as [->| ->]; [assumption|]. apply add_ids_ok; assumption. }
      destruct (IH (l ++ [(t, b_height b, b_id b)]) brs1) as [brs' [Hr Hok']]; auto.
      * rewrite Hnext. assumption.
      * rewrite Hnext. assumption.
      * exists brs'. split; [|assumption]. rewrite Hr. rewrite <- app_assoc. reflexivity.
    + assert (Hskip : E p own (l ++ [(t, b_height b, b_id b)]) = E p own l).
      { apply (E_skip p own n l t (b_height b) (b_id b) all sub); auto.
        intros y Hy. apply Hl. apply in_or_app. left. assumption. }
      destruct (IH (l ++ [(t, b_height b, b_id b)]) brs) as [brs' [Hr Hok']]; auto.
      * rewrite Hnext. assumption.
      * rewrite Hnext. assumption.
      * exists brs'. split; [|assumption]. rewrite Hskip in Hr. rewrite Hr. rewrite <- app_assoc. reflexivity.
Qed.

(* ---------------------------------------------------------------- a range of blocks *)

Lemma import_blocks_app : forall p own n k stop a b acc,
  import_blocks p own n k stop acc (a ++ b) =
  match import_blocks p own n k stop acc a with
  | inl acc' => import_blocks p own n k stop acc' b
  | inr e => inr e
  end.
Proof.
  intros p own n k stop a. induction a as [|x a IH]; intros b acc; [reflexivity|].
  cbn [app import_blocks]. destruct ((k <? b_height x) && (b_height x <=? stop)).
  - destruct (import_txs _ _ _ _ _ _ _); [apply IH|reflexivity].
  - apply IH.
Qed.

Lemma import_blocks_skip : forall p own n k stop bs acc,
  (forall b, In b bs -> b_height b <= k \/ stop < b_height b) ->
  import_blocks p own n k stop acc bs = inl acc.
Proof.
  intros p own n k stop bs. induction bs as [|x r IH]; intros acc H; [reflexivity|].
  cbn [import_blocks].
  assert (Hx : (k <? b_height x) && (b_height x <=? stop) = false).
  { destruct (H x (or_introl eq_refl)) as [Hle|Hgt].
    - apply andb_false_iff. left. apply Z.ltb_ge. assumption.
    - apply andb_false_iff. right. apply Z.leb_gt. assumption. }
  rewrite Hx. apply IH. intros b Hb. apply H. right. assumption.
Qed.

Lemma linked_uniq_heights : forall c pv, linked pv 0 c -> uniq_heights c.
Proof.
  intros c pv Hl b1 b2 H1 H2 Hh.
  apply in_split in H1. destruct H1 as [a1 [r1 Hc1]].
  apply in_split in H2. destruct H2 as [a2 [r2 Hc2]].
  pose proof Hl as Hl1. rewrite Hc1 in Hl1. apply linked_height in Hl1.
  pose proof Hl as Hl2. rewrite Hc2 in Hl2. apply linked_height in Hl2.
  assert (Hlen : length a1 = length a2) by lia.
  assert (Hn1 : nth_error c (length a1) = Some b1). { rewrite Hc1. rewrite nth_error_app2 by lia. rewrite Nat.sub_diag. reflexivity. }
  assert (Hn2 : nth_error c (length a2) = Some b2). { rewrite Hc2. rewrite nth_error_app2 by lia. rewrite Nat.sub_diag. reflexivity. }
  rewrite Hlen in Hn1. rewrite Hn1 in Hn2. inversion Hn2. reflexivity.
Qed.

(* consecutive blocks right after the part already imported *)
Lemma import_blocks_mid : forall p own c k stop mid done post brs,
  wf_chain c -> c = done ++ mid ++ post ->
  (forall b, In b mid -> k < b_height b <= stop) ->
  brs_ok c brs ->
  exists brs',
    import_blocks p own c k stop (E p own (ptxs done), brs) mid = inl (E p own (ptxs (done ++ mid)), brs') /\
    brs_ok c brs'.
Proof.
  intros p own c k stop mid. induction mid as [|b r IH]; intros done post brs Hwf Hc Hrange Hok.
  - cbn. rewrite app_nil_r. exists brs. split; [reflexivity|assumption].
  - destruct (wf_linked _ Hwf) as [pv Hl].
    assert (Hb : In b c). { rewrite Hc. apply in_or_app. right. left. reflexivity. }
    assert (Hc1 : c = (done ++ [b]) ++ (r ++ post)). { rewrite Hc. rewrite <- app_assoc. reflexivity. }
    assert (Hh : b_height b = Z.of_nat (length (done ++ [b])) - 1).
    { pose proof Hl as Hl'. rewrite Hc in Hl'. apply linked_height in Hl'. rewrite app_length. cbn. lia. }
    pose proof (wf_chain_txs _ Hwf) as Hwft.
    assert (Hwf1 : wf_txs (txs_of (ptxs done) ++ b_txs b)).
    { rewrite txs_of_ptxs. rewrite Hc1 in Hwft. rewrite chain_txs_app in Hwft.
      apply wf_txs_prefix in Hwft. rewrite chain_txs_app in Hwft. cbn in Hwft. rewrite app_nil_r in Hwft. exact Hwft. }
    assert (Hsub : incl (chain_txs (done ++ [b])) (chain_txs c)).
    { intros y Hy. rewrite Hc1. rewrite (chain_txs_app (done ++ [b])). apply in_or_app. left. assumption. }
    assert (Hl1 : incl (txs_of (ptxs done) ++ b_txs b) (chain_txs (done ++ [b]))).
    { rewrite txs_of_ptxs. rewrite chain_txs_app. cbn. rewrite app_nil_r. apply incl_refl. }
    assert (Hlook : forall id, node_tx_upto c (b_height b) id = find_tx (chain_txs (done ++ [b])) id).
    { intros id. rewrite Hc1 at 1. rewrite Hc1 in Hl. apply (node_tx_upto_prefix _ _ pv); assumption. }
    cbn [import_blocks].
    assert (Hin : (k <? b_height b) && (b_height b <=? stop) = true).
    { destruct (Hrange b (or_introl eq_refl)) as [H1 H2]. apply andb_true_iff. split; [apply Z.ltb_lt|apply Z.leb_le]; assumption. }
    rewrite Hin.
    destruct (import_txs_block p own c c b (chain_txs c) (chain_txs (done ++ [b])) (b_txs b) (ptxs done) brs
                Hwf1 (wt_ids _ Hwft) Hl1 Hsub Hlook Hok (linked_uniq_heights _ _ Hl) Hb) as [brs1 [Hstep Hok1]].
    rewrite Hstep.
    assert (Hp : ptxs done ++ map (fun t => (t, b_height b, b_id b)) (b_txs b) = ptxs (done ++ [b])).
    { rewrite ptxs_app. cbn. rewrite app_nil_r. reflexivity. }
    rewrite Hp.
    destruct (IH (done ++ [b]) post brs1 Hwf) as [brs' [Hr Hok']]; auto.
    + intros x Hx. apply Hrange. right. assumption.
    + exists brs'. split; [|assumption]. rewrite Hr. rewrite <- app_assoc. reflexivity.
Qed.

(* ---------------------------------------------------------------- one batch *)

Definition upto (m : Z) (c : list block) : list block := firstn (Z.to_nat m + 1) c.

(* the wallet is importing with cursor k on a wallet database whose only credits are its own, imported
   so far: exactly those of the chain's first k+1 blocks *)
Record importing (p : params) (c : list block) (w : N) (own : owner_fn) (k : Z) (st : xstate) : Prop := {
  im_credits : credits (x_w st) = E p own (ptxs (upto k c));
  im_synced : synced (x_w st) = synced_of c;
  im_brecs : brs_ok c (x_brecs st);
  im_status : status_of st w = Some (WImporting k);
  im_range : 0 <= k <= chain_height c;
  im_alive : memN w (x_dead st) = false;
  im_own : own_w st w = own
}.

Lemma tip_of_synced : forall c cs, wf_chain c ->
  fst (tip {| credits := cs; synced := synced_of c |}) = chain_height c.
Proof.
  intros c cs Hwf. rewrite <- (tip_height_L {| p_cbmat := 0; p_bindlock := 0 |} (fun _ => None) c Hwf). reflexivity.
Qed.

(* the comparison asyncImport makes before committing (repaired code): the node's block at height h is the
   handler's synced block of that height *)
Lemma node_on_synced_iff : forall n ws h,
  node_on_synced n ws h = true <-> exists nb, node_at n h = Some nb /\ matched ws nb = true.
Proof.
  intros n ws h. unfold node_on_synced, matched. split.
  - destruct (node_at n h) as [nb|] eqn:Hat; [|discriminate]. intros H. exists nb. split; [reflexivity|].
    unfold node_at in Hat. apply find_some in Hat. destruct Hat as [_ Hh]. apply Z.eqb_eq in Hh. rewrite Hh. exact H.
  - intros [nb [Hat H]]. rewrite Hat. unfold node_at in Hat. apply find_some in Hat. destruct Hat as [_ Hh].
    apply Z.eqb_eq in Hh. rewrite Hh in H. exact H.
Qed.

(* it holds when the node's chain IS the handler's chain *)
Lemma node_on_synced_self : forall c ws h, wf_chain c -> synced ws = synced_of c -> 0 <= h <= chain_height c ->
  node_on_synced c ws h = true.
Proof.
  intros c ws h Hwf Hsy Hh. destruct (wf_linked _ Hwf) as [pv Hl].
  destruct (nth_error c (Z.to_nat h)) as [x|] eqn:Hn.
  2:{ apply nth_error_None in Hn. unfold chain_height in Hh. lia. }
  apply nth_error_split in Hn. destruct Hn as [a [r [Hc Hlen]]].
  assert (Hx : b_height x = h). { rewrite Hc in Hl. rewrite (linked_height _ _ _ _ _ Hl). lia. }
  apply node_on_synced_iff. exists x. split.
  - unfold node_at. rewrite <- Hx. rewrite Hc at 1. rewrite Hc in Hl. apply (node_at_found _ _ _ _ _ Hl).
  - assert (Hm : matched ws x = matched (L {| p_cbmat := 0; p_bindlock := 0 |} (fun _ => None) c) x).
    { unfold matched, synced_at. rewrite Hsy. reflexivity. }
    rewrite Hm. apply (in_matched _ _ c x pv 0 Hl). rewrite Hc. apply in_or_app. right. left. reflexivity.
Qed.

Lemma firstn_firstn_skipn : forall (c : list block) a b, (a <= b)%nat ->
  firstn a c ++ firstn (b - a) (skipn a c) = firstn b c.
Proof.
  intros c a b Hab. rewrite <- (firstn_skipn a (firstn b c)).
  rewrite firstn_firstn. rewrite Nat.min_l by lia. f_equal.
  rewrite skipn_firstn_comm. reflexivity.
Qed.

Lemma chain_split3 : forall (c : list block) a b, (a <= b)%nat ->
  c = firstn a c ++ firstn (b - a) (skipn a c) ++ skipn b c.
Proof.
  intros c a b Hab. rewrite app_assoc. rewrite (firstn_firstn_skipn c a b Hab). symmetry. apply firstn_skipn.
Qed.

Theorem import_batch_step : forall fx p B c w own k st,
  wf_chain c -> 0 < B -> importing p c w own k st ->
  let stop := Z.min (k + B) (chain_height c) in
  exists st',
    import_batch fx p B c st w = (st', IOk) /\
    credits (x_w st') = E p own (ptxs (upto stop c)) /\ synced (x_w st') = synced_of c /\
    (if stop =? chain_height c then status_of st' w = Some WReady else importing p c w own stop st').
Proof.
  intros fx p B c w own k st Hwf HB [Hcr Hsy Hbr Hst Hrg Hal Hown] stop.
  destruct (wf_linked _ Hwf) as [pv Hl].
  assert (Htip : fst (tip (x_w st)) = chain_height c).
  { destruct (x_w st) as [cs sy] eqn:Hxw. cbn [synced] in Hsy. subst sy. apply (tip_of_synced c cs Hwf). }
  unfold import_batch. rewrite Hst, Hal, Htip. fold stop. rewrite Hown.
  set (a := (Z.to_nat k + 1)%nat). set (b := (Z.to_nat stop + 1)%nat).
  assert (Hstop : k <= stop <= chain_height c) by (unfold stop; lia).
  assert (Hab : (a <= b)%nat) by (unfold a, b; lia).
  assert (Hlen : Z.of_nat (length c) = chain_height c + 1) by (unfold chain_height; lia).
  assert (Hbl : (b <= length c)%nat) by (unfold b; lia).
  pose proof (chain_split3 c a b Hab) as Hsplit.
  set (pre := firstn a c) in *. set (mid := firstn (b - a) (skipn a c)) in *. set (post := skipn b c) in *.
  assert (Hprelen : length pre = a). { unfold pre. apply firstn_length_le. lia. }
  assert (Hpm : pre ++ mid = firstn b c). { unfold pre, mid. apply firstn_firstn_skipn. assumption. }
  assert (Hpmlen : length (pre ++ mid) = b). { rewrite Hpm. apply firstn_length_le. assumption. }
  (* heights of the three parts *)
  assert (Hpre_h : forall x, In x pre -> b_height x <= k).
  { intros x Hx. rewrite Hsplit in Hl. destruct (linked_heights_split _ _ _ Hl) as [H1 _].
    specialize (H1 x Hx). rewrite Hprelen in H1. unfold a in H1. lia. }
  assert (Hmid_h : forall x, In x mid -> k < b_height x <= stop).
  { intros x Hx. split.
    - rewrite Hsplit in Hl. destruct (linked_heights_split _ _ _ Hl) as [_ H2].
      specialize (H2 x (in_or_app _ _ _ (or_introl Hx))). rewrite Hprelen in H2. unfold a in H2. lia.
    - rewrite Hsplit in Hl. rewrite app_assoc in Hl. destruct (linked_heights_split _ _ _ Hl) as [H1 _].
      specialize (H1 x (in_or_app _ _ _ (or_intror Hx))). rewrite Hpmlen in H1. unfold b in H1. lia. }
  assert (Hpost_h : forall x, In x post -> stop < b_height x).
  { intros x Hx. rewrite Hsplit in Hl. rewrite app_assoc in Hl. destruct (linked_heights_split _ _ _ Hl) as [_ H2].
    specialize (H2 x Hx). rewrite Hpmlen in H2. unfold b in H2. lia. }
  destruct (import_blocks_mid p own c k stop mid pre post (x_brecs st) Hwf Hsplit Hmid_h Hbr) as [brs' [Hmid Hok']].
  assert (Hall : import_blocks p own c k stop (credits (x_w st), x_brecs st) (pre ++ mid ++ post)
                 = inl (E p own (ptxs (pre ++ mid)), brs')).
  { rewrite import_blocks_app.
    rewrite (import_blocks_skip p own c k stop pre) by (intros x Hx; left; apply Hpre_h; assumption).
    rewrite import_blocks_app. rewrite Hcr. unfold upto. fold a. fold pre. rewrite Hmid.
    apply import_blocks_skip. intros x Hx. right. apply Hpost_h. assumption. }
  rewrite <- Hsplit in Hall. rewrite Hall.
  rewrite (node_on_synced_self c (x_w st) stop Hwf Hsy) by lia. cbn [negb]. rewrite andb_false_r.
  eexists. split; [reflexivity|].
  cbn [with_status with_brecs with_w x_w credits synced].
  split; [unfold upto; fold b; rewrite Hpm; reflexivity|]. split; [assumption|].
  destruct (stop =? chain_height c) eqn:Es.
  - unfold status_of. cbn [x_status]. apply lookupN_setN_same.
  - constructor; cbn [with_status with_brecs with_w x_w credits synced x_brecs x_dead x_status].
    + unfold upto. fold b. rewrite Hpm. reflexivity.
    + assumption.
    + assumption.
    + unfold status_of. cbn [x_status]. apply lookupN_setN_same.
    + lia.
    + assumption.
    + rewrite <- Hown. reflexivity.
Qed.

(* ---------------------------------------------------------------- all batches *)

Fixpoint batches (fx : fixes) (p : params) (B : Z) (n : node) (st : xstate) (w : N) (m : nat) : xstate :=
  match m with
  | O => st
  | S m' => batches fx p B n (fst (import_batch fx p B n st w)) w m'
  end.

Lemma batch_noop_when_ready : forall fx p B n st w, status_of st w = Some WReady -> import_batch fx p B n st w = (st, IOk).
Proof. intros fx p B n st w H. unfold import_batch. rewrite H. reflexivity. Qed.

Lemma upto_all : forall c, upto (chain_height c) c = c.
Proof.
  intros c. unfold upto, chain_height. destruct c as [|b r]; [reflexivity|].
  replace (Z.to_nat (Z.of_nat (length (b :: r)) - 1) + 1)%nat with (length (b :: r)) by (cbn [length]; lia).
  apply firstn_all.
Qed.

Definition imported (p : params) (c : list block) (w : N) (own : owner_fn) (st : xstate) : Prop :=
  status_of st w = Some WReady /\ x_w st = L p own c.

Theorem import_batches : forall fx p B c w own, wf_chain c -> 0 < B ->
  forall m st, (importing p c w own (Z.of_nat m * B) st /\ Z.of_nat m * B <= chain_height c) \/ imported p c w own st ->
  forall j, let st' := batches fx p B c st w j in
    (importing p c w own (Z.of_nat (m + j) * B) st' /\ Z.of_nat (m + j) * B <= chain_height c) \/ imported p c w own st'.
Proof.
  intros fx p B c w own Hwf HB m st H j. revert m st H. induction j as [|j IH]; intros m st H.
  - cbn [batches]. rewrite Nat.add_0_r. exact H.
  - cbn [batches]. replace (m + S j)%nat with (S m + j)%nat by lia. apply IH.
    destruct H as [[Him Hle]|[Hr Hx]].
    + destruct (import_batch_step fx p B c w own (Z.of_nat m * B) st Hwf HB Him) as [st1 [Hb [Hcr [Hsy Hcase]]]].
      rewrite Hb. cbn [fst].
      destruct (Z.min (Z.of_nat m * B + B) (chain_height c) =? chain_height c) eqn:Es.
      * right. split; [assumption|]. apply Z.eqb_eq in Es. rewrite Es in Hcr. rewrite upto_all in Hcr.
        unfold L. destruct (x_w st1) as [cs sy]. cbn [credits synced] in *. subst. reflexivity.
      * left. apply Z.eqb_neq in Es.
        assert (Hlt : Z.of_nat m * B + B < chain_height c) by lia.
        replace (Z.of_nat (S m) * B) with (Z.of_nat m * B + B) by lia.
        rewrite Z.min_l in Hcase by lia. split; [assumption|lia].
    + right. rewrite (batch_noop_when_ready _ _ _ _ _ _ Hr). cbn [fst]. split; assumption.
Qed.

(* T: a wallet restored on a node whose chain is c, in a wallet database that holds no other credits,
   rescanned in batches of ANY size B > 0: after any number of batches it is either still importing
   (cursor = number of batches * B, at most the chain height, credits = those of the blocks up to the
   cursor) or ready with EXACTLY the ledger a wallet with the same addresses has after following
   the chain live from genesis; and after height/B + 1 batches it is ready. *)
Theorem import_equals_live : forall fx p B c w own st0 j,
  wf_chain c -> 0 < B -> importing p c w own 0 st0 ->
  let st := batches fx p B c st0 w j in
  (status_of st w = Some WReady ->
     ledger_of_chain p true own c = Ok (x_w st) /\ xreport st w = spec_report p own c w) /\
  (chain_height c < Z.of_nat j * B -> status_of st w = Some WReady) /\
  (status_of st w <> Some WReady -> use_wallet st w = UUnready).
Proof.
  intros fx p B c w own st0 j Hwf HB H0 st.
  assert (Hrange : 0 <= chain_height c) by (destruct H0; lia).
  assert (H00 : importing p c w own (Z.of_nat 0 * B) st0 /\ Z.of_nat 0 * B <= chain_height c).
  { change (Z.of_nat 0 * B) with 0. split; assumption. }
  pose proof (import_batches fx p B c w own Hwf HB 0%nat st0 (or_introl H00) j) as H.
  cbn [Nat.add] in H. fold st in H.
  split; [|split].
  - intros Hr. destruct H as [[Him _]|[_ Hx]].
    + destruct Him. congruence.
    + split; [rewrite Hx; apply ledger_of_chain_L; assumption|].
      unfold xreport. rewrite Hx. apply report_L. assumption.
  - intros Hj. destruct H as [[_ Hle]|[Hr _]]; [lia|assumption].
  - intros Hn. destruct H as [[Him _]|[Hr _]]; [|contradiction].
    destruct Him. unfold use_wallet. rewrite im_status0. reflexivity.
Qed.

(* the premise of [import_equals_live] is what ImportWallet / ImportWalletWithMnemonic establishes in
   an instance that has just started on the node's chain and holds no wallet yet *)
Lemma import_start_importing : forall p c w pass sh shs st0,
  wf_chain c -> import_start (xinit c) w pass (sh :: shs) = Some st0 ->
  importing p c w (own_w st0 w) 0 st0.
Proof.
  intros p c w pass sh shs st0 Hwf H. unfold import_start in H. cbn in H. inversion H. subst st0. clear H.
  destruct (wf_genesis _ Hwf) as [g [rest [Hc [Hh [Htx Hl]]]]].
  constructor; cbn [x_w credits synced x_brecs x_dead x_status xinit].
  - unfold upto. cbn. subst c. cbn. unfold ptxs. cbn. unfold ptxs_of_block. rewrite Htx. reflexivity.
  - reflexivity.
  - intros br [].
  - unfold status_of. cbn. rewrite N.eqb_refl. reflexivity.
  - unfold chain_height. subst c. cbn [length]. lia.
  - reflexivity.
  - reflexivity.
Qed.
