(* Ledger/ImportRemoveExamples.v — closed examples for Ledger/ImportRemoveProofs.v: the shared-transaction case
   (one wallet removed while another is restored; a transaction in which one paid the other), every interleaving. *)
From Coq Require Import List ZArith NArith Bool Lia.
Import ListNotations.
Open Scope Z_scope.
Require Import MW.Ledger.Model MW.Ledger.Spec MW.Ledger.Run MW.Ledger.WF MW.Ledger.Import MW.Ledger.Remove.
Require Import MW.Ledger.Proofs5 MW.Ledger.RemoveProofs MW.Ledger.RemoveProofs4 MW.Ledger.ImportProofs2 MW.Ledger.ImportProofs3 MW.Ledger.ImportProofs4.
Require Import MW.Ledger.ImportRemoveProofs.

(* ================================================================ Part C: closed examples — the shared-transaction case *)

(* Wallet r = 1 (script hashes 1, 3), w = 2 (script hash 2), a bystander v = 3 (script hash 4).
   block 1: coinbase pays r 100, w 50, v 70
   block 2: T5 = r pays w 60, change 40 to r                (spends r's coin, pays w and r)
   block 3: T6 = w pays r 50, no change                     (spends w's coin, pays r only)
   block 4: T7 spends w's coin of T5 and r's coin of T6, pays a stranger
   block 5: coinbase pays v.
   Wallet 1 and 3 watch the chain live; then RemoveWallet 1 and ImportWallet 2 in either order, and EVERY
   interleaving of the removal steps (phase 1, rounds with cap 1: one credit per round) with the rescan batches
   (batch size 1: one block per batch) — also with a reorganisation (Rollback) in the middle or at the end.
   While w's cursor is below block 1, T6's record is deleted by the round that deletes r's credit (no other
   wallet's row needs it: w's coin (1,1) is not recorded yet) and listed again by the rescan at block 3; once w's coin
   is recorded T6 is kept.  T5 is always kept (it pays w: the keystore knows w's script hash).
   Observed at the end: the handler alive; w's and v's reports, credit rows with spent marks and staking rows equal
   those of the run in which wallet 1 never existed and wallet 2 watched the chain live; wallet 1 is not listed and
   nothing mentions it; every credit's transaction and spender is listed in a block record. *)
Definition q_p0 : params := {| p_cbmat := 4; p_bindlock := 4294967294 |}.
Definition q_g0 : block := {| b_id := 0; b_prev := 0; b_height := 0; b_txs := [] |}.
Definition q_cb (id : N) (outs : list txout) : tx := {| t_id := id; t_cb := true; t_ins := []; t_outs := outs |}.
Definition q_pay (sh : N) (v : Z) : txout := {| o_sh := sh; o_val := v; o_class := CStd |}.
(* r = wallet 1 (script hashes 1, 3), w = wallet 2 (script hash 2), v = wallet 3 (script hash 4) *)
Definition q_b1 := {| b_id := 1; b_prev := 0; b_height := 1; b_txs := [q_cb 1 [q_pay 1 100; q_pay 2 50; q_pay 4 70]] |}.
Definition q_T5 : tx := {| t_id := 5; t_cb := false; t_ins := [(1, 0)%N]; t_outs := [q_pay 2 60; q_pay 3 40] |}.  (* r pays w, change to r *)
Definition q_b2 := {| b_id := 2; b_prev := 1; b_height := 2; b_txs := [q_cb 2 []; q_T5] |}.
Definition q_T6 : tx := {| t_id := 6; t_cb := false; t_ins := [(1, 1)%N]; t_outs := [q_pay 1 50] |}.  (* w pays r, no change *)
Definition q_b3 := {| b_id := 3; b_prev := 2; b_height := 3; b_txs := [q_cb 3 []; q_T6] |}.
Definition q_T7 : tx := {| t_id := 7; t_cb := false; t_ins := [(5, 0)%N; (6, 0)%N]; t_outs := [q_pay 9 110] |}.  (* spends a coin of w and a coin of r, pays a stranger *)
Definition q_b4 := {| b_id := 4; b_prev := 3; b_height := 4; b_txs := [q_cb 4 []; q_T7] |}.
Definition q_b5 := {| b_id := 5; b_prev := 4; b_height := 5; b_txs := [q_cb 8 [q_pay 4 5]] |}.
(* the other branch from block 2 *)
Definition q_b3' := {| b_id := 13; b_prev := 2; b_height := 3; b_txs := [q_cb 13 [q_pay 2 1]; q_T6] |}.
Definition q_b4' := {| b_id := 14; b_prev := 13; b_height := 4; b_txs := [q_cb 14 []] |}.
Definition q_b5' := {| b_id := 15; b_prev := 14; b_height := 5; b_txs := [q_cb 15 []; q_T7] |}.
Definition q_b6' := {| b_id := 16; b_prev := 15; b_height := 6; b_txs := [q_cb 16 []] |}.

Definition q_blocks : list xevent :=
  [XAttach q_b1; XProcess q_b1; XAttach q_b2; XProcess q_b2; XAttach q_b3; XProcess q_b3; XAttach q_b4; XProcess q_b4; XAttach q_b5; XProcess q_b5].
Definition q_pre : list xevent :=
  [XNewWallet 1 11; XNewAddr 1 1; XNewAddr 3 1; XNewWallet 3 33; XNewAddr 4 3] ++ q_blocks.
Definition q_reorg : list xevent :=
  [XDetach; XDetach; XDetach; XAttach q_b3'; XAttach q_b4'; XAttach q_b5'; XAttach q_b6'; XProcess q_b6'].
(* reference: wallet 1 never existed, wallet 2 watched live *)
Definition q_ref : list xevent :=
  [XNewWallet 3 33; XNewAddr 4 3; XNewWallet 2 22; XNewAddr 2 2] ++ q_blocks.

Fixpoint interleave (fuel : nat) (a b : list xevent) : list (list xevent) :=
  match fuel with
  | O => []
  | S f =>
    match a, b with
    | [], _ => [b]
    | _, [] => [a]
    | x :: a', y :: b' => map (cons x) (interleave f a' b) ++ map (cons y) (interleave f a b')
    end
  end.

Definition q_rem (k : nat) : list xevent := XPhase1 1 :: repeat (XRound 1) k.
Definition q_imp (k : nat) : list xevent := repeat (XBatch 2) k.

Definition obs (B cap : Z) (h : list xevent) :=
  let s := xrun repaired q_p0 B cap [q_g0] h in
  (xs_crashed s, xreport (xs_st s) 2, xreport (xs_st s) 3, status_of (xs_st s) 1, status_of (xs_st s) 2,
   mentions (xs_st s) 1 [1%N; 3%N], covered_b (x_brecs (xs_st s)) (credits (x_w (xs_st s))),
   game_rows (xs_st s) 2, proj 2 (credits (x_w (xs_st s))), proj 3 (credits (x_w (xs_st s))), length (credits (x_w (xs_st s)))).
Definition obs_ref (B cap : Z) (h : list xevent) :=
  let s := xrun repaired q_p0 B cap [q_g0] h in
  (xs_crashed s, xreport (xs_st s) 2, xreport (xs_st s) 3, @None wst, Some WReady,
   false, true, game_rows (xs_st s) 2, proj 2 (credits (x_w (xs_st s))), proj 3 (credits (x_w (xs_st s))), length (credits (x_w (xs_st s)))).

(* order A: removal requested first, then the import; order B: the other way round *)
Definition hists (first : list xevent) (tail : list xevent) : list (list xevent) :=
  map (fun m => q_pre ++ first ++ m ++ tail) (interleave 40 (q_rem 5) (q_imp 6)).

Definition ordA := [XRemoveReq 1 11; XImportStart 2 22 [2%N]].
Definition ordB := [XImportStart 2 22 [2%N]; XRemoveReq 1 11].



Definition q_c3 := {| b_id := 23; b_prev := 2; b_height := 3; b_txs := [q_cb 23 [q_pay 2 1]] |}.
Definition q_c4 := {| b_id := 24; b_prev := 23; b_height := 4; b_txs := [q_cb 24 []] |}.
Definition q_c5 := {| b_id := 25; b_prev := 24; b_height := 5; b_txs := [q_cb 25 []] |}.
Definition q_c6 := {| b_id := 26; b_prev := 25; b_height := 6; b_txs := [q_cb 26 []] |}.
Definition q_reorg2 : list xevent :=
  [XDetach; XDetach; XDetach; XAttach q_c3; XAttach q_c4; XAttach q_c5; XAttach q_c6; XProcess q_c6].
Definition q_reorg1 : list xevent :=
  [XDetach; XDetach; XDetach; XDetach; XDetach; XAttach q_c3; XAttach q_c4; XAttach q_c5; XAttach q_c6; XProcess q_c6].


Fixpoint interleave_c (fuel : nat) (a b : list (list xevent)) : list (list xevent) :=
  match fuel with
  | O => []
  | S f =>
    match a, b with
    | [], _ => [concat b]
    | _, [] => [concat a]
    | x :: a', y :: b' => map (app x) (interleave_c f a' b) ++ map (app y) (interleave_c f a b')
    end
  end.
Definition chunks (l : list xevent) : list (list xevent) := map (fun e => [e]) l.
Definition hists_mid (ro first : list xevent) (k1 : nat) (nr : nat) : list (list xevent) :=
  map (fun m => q_pre ++ first ++ m)
      (interleave_c 60 (chunks (q_rem nr)) (chunks (q_imp k1) ++ [ro] ++ chunks (q_imp 4))).
Definition all_mid (ro first : list xevent) (nr : nat) := hists_mid ro first 0 nr ++ hists_mid ro first 1 nr ++ hists_mid ro first 2 nr ++ hists_mid ro first 3 nr.

Example shared_tx_remove_then_import : map (obs 1 1) (hists ordA []) = repeat (obs_ref 1 1 q_ref) 924.
Proof. vm_compute. reflexivity. Qed.
Example shared_tx_import_then_remove : map (obs 1 1) (hists ordB []) = repeat (obs_ref 1 1 q_ref) 924.
Proof. vm_compute. reflexivity. Qed.
(* ... followed by a reorganisation that drops T6 and T7 (Rollback must un-spend w's coins: it finds T6 and T7 in
   the block records), resp. one that drops every block but the first *)
Example shared_tx_then_reorg : map (obs 1 1) (hists ordA q_reorg2) = repeat (obs_ref 1 1 (q_ref ++ q_reorg2)) 924.
Proof. vm_compute. reflexivity. Qed.
Example shared_tx_then_deep_reorg : map (obs 1 1) (hists ordB q_reorg1) = repeat (obs_ref 1 1 (q_ref ++ q_reorg1)) 924.
Proof. vm_compute. reflexivity. Qed.
(* ... with the reorganisation in the MIDDLE, at every position among the batches and the removal steps (batch size 2, cap 2) *)
Example shared_tx_reorg_inside : forall n, n = length (all_mid q_reorg2 ordA 3) ->
  map (obs 2 2) (all_mid q_reorg2 ordA 3) = repeat (obs_ref 2 2 (q_ref ++ q_reorg2)) n.
Proof. intros n ->. vm_compute. reflexivity. Qed.
Example shared_tx_reorg_inside_keeping_T6 : forall n, n = length (all_mid q_reorg ordB 3) ->
  map (obs 2 2) (all_mid q_reorg ordB 3) = repeat (obs_ref 2 2 (q_ref ++ q_reorg)) n.
Proof. intros n ->. vm_compute. reflexivity. Qed.

(* what happens to T6's record (transaction 6 in the block record of height 3; w pays r):
   - all of r's removal runs while w's cursor is still 0 (w's coin (1,1) not recorded): the record of T6 is DELETED
     (T5, which pays w, keeps its record); the five batches that follow list T6 again and mark w's coin spent by it;
   - one batch first (w's coin (1,1) recorded, cursor 1), then the whole removal: T6 keeps its record. *)
Definition listing (h : list xevent) :=
  let st := xs_st (xrun repaired q_p0 1 1 [q_g0] h) in
  (listed_at (x_brecs st) 2 5, listed_at (x_brecs st) 3 6, status_of st 1, status_of st 2,
   map (fun c => (c_tx c, c_vout c, c_spent c)) (proj 2 (credits (x_w st)))).
Example shared_tx_record_deleted_and_relisted :
  listing (q_pre ++ ordB ++ q_rem 4) = (true, false, None, Some (WImporting 0), []) /\
  listing (q_pre ++ ordB ++ q_rem 4 ++ q_imp 5)
    = (true, true, None, Some WReady, [(1%N, 1%N, Some (6%N, 0%N, 3)); (5%N, 0%N, Some (7%N, 0%N, 4))]) /\
  listing (q_pre ++ ordB ++ q_imp 1 ++ q_rem 4)
    = (true, true, None, Some (WImporting 1), [(1%N, 1%N, None)]).
Proof. vm_compute. repeat split; reflexivity. Qed.

(* ---------------------------------------------------------------- the premises of the packaged theorem hold on this history *)

Definition ev_ok_r_b (g : block) (U : list block) (w r : N) (s : xsim) (e : xevent) : bool :=
  match e with
  | XAttach b => in_b b U && wf_chain_b (xs_node s ++ [b])
  | XDetach => wf_chain_b (removelast (xs_node s))
  | XProcess b => in_b b U && negb (b_id b =? b_id g)%N
  | XBatch v => (v =? w)%N
  | XPhase1 v => (v =? r)%N
  | XRound v => (v =? r)%N
  | _ => false
  end.

Fixpoint xwf_r_b (p : params) (g : block) (U : list block) (w r : N) (B cap : Z) (s : xsim) (h : list xevent) : bool :=
  match h with
  | [] => true
  | e :: rest => ev_ok_r_b g U w r s e && xwf_r_b p g U w r B cap (xstep repaired p B cap s e) rest
  end.

Lemma xwf_r_b_sound : forall p g U w r B cap h s, xwf_r_b p g U w r B cap s h = true -> xwf_r p g U w r B cap s h.
Proof.
  intros p g U w r B cap. induction h as [|e rest IH]; intros s H; [exact I|].
  cbn [xwf_r_b] in H. apply andb_true_iff in H. destruct H as [He Hr]. split; [|apply IH; assumption].
  destruct e as [b| |b|w0 ps|sh w0|w0 ps shs|v|w0 ps|v|v|]; cbn [ev_ok_r_b ev_ok_r] in *; try discriminate.
  - apply andb_true_iff in He. destruct He as [H1 H2]. split; [apply in_b_sound; assumption|apply wf_chain_b_sound; assumption].
  - apply wf_chain_b_sound. assumption.
  - apply andb_true_iff in He. destruct He as [H1 H2]. split; [apply in_b_sound; assumption|].
    intros E. subst b. rewrite N.eqb_refl in H2. discriminate.
  - apply N.eqb_eq. assumption.
  - apply N.eqb_eq. assumption.
  - apply N.eqb_eq. assumption.
Qed.

Definition GU_b (U : list block) : bool :=
  forallb (fun t => forallb (fun t' => negb (t_id t =? t_id t')%N || tx_eqb t t') (chain_txs U)) (chain_txs U).

Lemma GU_b_sound : forall U, GU_b U = true -> GU U.
Proof.
  intros U H t t' Ht Ht' Hid. unfold GU_b in H. rewrite forallb_forall in H. specialize (H t Ht).
  rewrite forallb_forall in H. specialize (H t' Ht'). rewrite Hid, N.eqb_refl in H. cbn [negb orb] in H.
  apply tx_eqb_sound. assumption.
Qed.

Definition incl_tx_b (l1 l2 : list tx) : bool := forallb (fun t => existsb (tx_eqb t) l2) l1.
Lemma incl_tx_b_sound : forall l1 l2, incl_tx_b l1 l2 = true -> incl l1 l2.
Proof.
  intros l1 l2 H t Ht. unfold incl_tx_b in H. rewrite forallb_forall in H. specialize (H t Ht).
  apply existsb_exists in H. destruct H as [t' [Ht' He]]. rewrite (tx_eqb_sound _ _ He). assumption.
Qed.

Definition q_U : list block := [q_g0; q_b1; q_b2; q_b3; q_b4; q_b5; q_c3; q_c4; q_c5; q_c6].

Example q_ids : forall b1 b2, In b1 q_U -> In b2 q_U -> b_id b1 = b_id b2 -> b1 = b2.
Proof. apply ids_b_sound. vm_compute. reflexivity. Qed.
Example q_GU : GU q_U.
Proof. apply GU_b_sound. vm_compute. reflexivity. Qed.
Example q_ninv : ninv q_g0 q_U [q_g0].
Proof.
  split; [apply wf_chain_b_sound; vm_compute; reflexivity|]. split; [exists []; reflexivity|].
  intros z [Hz|[]]. subst z. left. reflexivity.
Qed.
Example q_pre_gwf : gwf q_p0 q_g0 q_U 1 1 [q_g0] (xinit_sim [q_g0]) q_pre.
Proof. apply gwf_b_sound. vm_compute. reflexivity. Qed.

Notation q_spre := (xrun repaired q_p0 1 1 [q_g0] q_pre).
Definition q_stA2 : xstate :=
  match import_start (fst (remove_request (xs_st q_spre) 1 11)) 2 22 [2%N] with Some s => s | None => xs_st q_spre end.
Definition q_s2 : xsim := {| xs_node := xs_node q_spre; xs_st := q_stA2; xs_all := xs_all q_spre; xs_crashed := false |}.

(* the state after [q_pre ++ RemoveWallet 1; ImportWallet 2] is the start state of the theorem, and its premises hold *)
Example shared_tx_start : xrun repaired q_p0 1 1 [q_g0] (q_pre ++ ordA) = q_s2.
Proof. vm_compute. reflexivity. Qed.

Fixpoint nodupN_b (l : list N) : bool :=
  match l with [] => true | x :: rest => negb (memN x rest) && nodupN_b rest end.
Lemma nodupN_b_sound : forall l, nodupN_b l = true -> NoDup l.
Proof.
  induction l as [|x rest IH]; intros H; [constructor|]. cbn [nodupN_b] in H. apply andb_true_iff in H. destruct H as [H1 H2].
  constructor; [apply memN_false; apply negb_true_iff; assumption|apply IH; assumption].
Qed.

Example q_pre_absent : status_of (xs_st q_spre) 2 = None.
Proof. vm_compute. reflexivity. Qed.
Example q_pre_all : incl (xs_all q_spre) (chain_txs q_U).
Proof. apply incl_tx_b_sound. vm_compute. reflexivity. Qed.
Example q_pre_fun : NoDup (map fst (x_keys (xs_st q_spre))).
Proof. apply nodupN_b_sound. vm_compute. reflexivity. Qed.
Example q_pre_ready : status_of (xs_st q_spre) 1 = Some WReady.
Proof. vm_compute. reflexivity. Qed.
Example q_pre_pass : lookupN (x_pass (xs_st q_spre)) 1 = Some 11%N.
Proof. vm_compute. reflexivity. Qed.
Example q_pre_p1 : memN 1 (x_p1 (xs_st q_spre)) = false.
Proof. vm_compute. reflexivity. Qed.
Example q_pre_fresh : forall s, In s [2%N] -> lookupN (x_keys (xs_st q_spre)) s = None.
Proof. intros s [<-|[]]. vm_compute. reflexivity. Qed.
Example q_pre_nd : NoDup [2%N].
Proof. apply nodupN_b_sound. reflexivity. Qed.
Example q_pre_imp : import_start (fst (remove_request (xs_st q_spre) 1 11)) 2 22 [2%N] = Some q_stA2.
Proof. vm_compute. reflexivity. Qed.

Example shared_tx_instance : forall h,
  xwf_r_b q_p0 q_g0 q_U 2 1 1 1 q_s2 h = true ->
  ir_conclusion q_p0 q_g0 2 1 (x_keys (xs_st q_spre)) 2 [] (xs_st q_spre) (fold_left (xstep repaired q_p0 1 1) h q_s2).
Proof.
  intros h Hwf. apply xwf_r_b_sound in Hwf.
  pose proof (reach_minv q_p0 q_g0 q_U q_ids 1 1 [q_g0] q_pre q_ninv q_pre_gwf) as Hreach. cbv zeta in Hreach.
  destruct (Hreach 2%N q_pre_absent) as [c0 [Hm [Hnk [Hnode _]]]].
  exact (import_during_removal_A q_p0 q_g0 q_U q_ids q_GU 2 1 ltac:(discriminate) (x_keys (xs_st q_spre)) 1 1 ltac:(lia)
           11 22 2 [] c0 (xs_node q_spre) (xs_all q_spre) (xs_st q_spre) Hnode q_pre_all Hm q_pre_absent Hnk q_pre_fun
           q_pre_ready q_pre_pass q_pre_p1 q_pre_nd q_pre_fresh q_stA2 h q_pre_imp Hwf).
Qed.

(* a history the instance applies to: removal steps, batches and a reorganisation interleaved; at its end the
   handler is in step, wallet 2 is ready and wallet 1 is gone *)
Definition q_h1 : list xevent :=
  [XPhase1 1; XBatch 2; XRound 1; XBatch 2; XRound 1] ++ q_reorg2 ++
  [XRound 1; XBatch 2; XBatch 2; XRound 1; XBatch 2; XRound 1; XBatch 2; XBatch 2; XRound 1].
Example shared_tx_instance_history :
  xwf_r_b q_p0 q_g0 q_U 2 1 1 1 q_s2 q_h1 = true /\
  let s := fold_left (xstep repaired q_p0 1 1) q_h1 q_s2 in
  snd (tip (x_w (xs_st s))) = b_id (last (xs_node s) q_g0) /\ status_of (xs_st s) 2 = Some WReady /\ status_of (xs_st s) 1 = None.
Proof. vm_compute. repeat split; reflexivity. Qed.

Print Assumptions round_keeps_others.
Print Assumptions import_during_removal_A.
Print Assumptions import_during_removal_B.
Print Assumptions shared_tx_instance.
