(* Ledger/ResumeFF.v — C06: Start's fast-forward on the multi-wallet layer (Ledger/Import.v,
   Ledger/Remove.v), which Remove.v's [start_sync] leaves out ("it equals processing: no wallet is
   ready"), and the history on which that is wrong.

   masswallet/ntfnshandler.go Start: when NO WALLET IS READY and the node is more than [ff] (2000)
   blocks long, the heights syncHeight+1 .. indexHeight-ff-1 are not processed: only their sync
   records are written (SetSyncedTo; putSyncedTo checks that the heights are contiguous, not that
   the hashes link).  "No wallet is ready" does not mean "no wallet has credits": a wallet that
   is being IMPORTED is not ready, and the batches committed so far have stored its credits up
   to the rescan cursor.  If the node has meanwhile abandoned blocks below the stored tip (and
   below that cursor), the fast-forward writes the node's records on top of the abandoned ones:
   disconnectBlock never runs for the abandoned blocks, their credits stay, and the cursor is
   not pulled back.  The rescan then continues above the cursor and hands the wallet over with
   coins of abandoned blocks (and without the coins the new branch pays at those heights).

   This file: the fast-forward as a definition ([start_sync_ff] = the fast-forward followed by
   Remove.v's [start_sync]) and the closed witness, a scaled-down copy (batch size 2, ff = 2) of a
   run on the real code: harness/cmd/ffprobe/main.go of the working copy (batch 1000, ff 2000: chain of 1002
   blocks, blocks 5 and 1000 pay the restored wallet; crash after the first rescan batch; the
   node abandons 1000..1002 and grows to 3010; after the restart the wallet becomes ready and
   reports 12 MASS, the chain pays 5; with the node at 1500 — no fast-forward — it reports 5).
   Reproduced through the committed harness by the import-only family of harness/cmd/c06
   (harness/internal/cfsim/importonly.go) and repaired in /repo (KNOWN_FINDINGS.txt, fixed: C06):
   the switch [f_ff_check] of Import.v's [fixes] selects the code as found (false) or as repaired
   (true).  General theorems for the repaired Start: ResumeFFProofs.v. *)
From Coq Require Import List ZArith NArith Bool.
Import ListNotations.
Open Scope Z_scope.
Require Import MW.Ledger.Model MW.Ledger.Spec MW.Ledger.Run MW.Ledger.Import MW.Ledger.Remove MW.Ledger.Resume.

(* getReadyWallets is not empty *)
Definition has_ready (st : xstate) : bool :=
  existsb (fun e => match snd e with WReady => true | _ => false end) (x_status st).

(* SetSyncedTo for the heights stored tip + 1 .. upto - 1, nothing else *)
Fixpoint ff_records (n : node) (st : xstate) (upto : Z) (fuel : nat) : xstate :=
  match fuel with
  | O => st
  | S f =>
      let h := fst (tip (x_w st)) + 1 in
      if h <? upto then
        match node_at n h with
        | Some b => ff_records n (with_w st {| credits := credits (x_w st); synced := (h, b_id b) :: synced (x_w st) |}) upto f
        | None => st
        end
      else st
  end.

(* FetchBlockShaByHeight(syncHeight) = bestBlock.Hash: the stored tip is still the node's block at
   its height *)
Definition tip_on_node (n : node) (st : xstate) : bool :=
  match node_at n (fst (tip (x_w st))) with
  | Some b => (b_id b =? snd (tip (x_w st)))%N
  | None => false
  end.

(* Start() with its fast-forward.  [f_ff_check fx = false]: the code as found — when no wallet is
   ready and the node is more than [ff] blocks long the sync records of the heights
   syncHeight+1 .. indexHeight-ff-1 are written, whatever the stored tip is.
   [f_ff_check fx = true]: as repaired — before fast-forwarding, the stored tip is compared with the
   node's block at that height; if it was replaced, the next block goes through
   processConnectedBlock (the reorganisation path: rollback, cursors pulled back) first; a
   failure there fails the start, as in the ordinary catch-up. *)
Definition start_sync_ff (fx : fixes) (p : params) (ff : Z) (n : node) (st : xstate) : xres xstate :=
  let index_h := Z.of_nat (length n) - 1 in
  let sync_h := fst (tip (x_w st)) in
  if negb (has_ready st) && (ff <? index_h) && (sync_h + 1 <? index_h - ff) then
    if f_ff_check fx && negb (tip_on_node n st) then
      match node_at n (sync_h + 1) with
      | Some b =>
          match xprocess fx p n st b with
          | XOk st1 => start_sync fx p n (ff_records n st1 (index_h - ff) (length n))
          | XErr => XErr
          | XPanic => XPanic
          end
      | None => XErr
      end
    else start_sync fx p n (ff_records n st (index_h - ff) (length n))
  else start_sync fx p n st.

(* without the fast-forward branch it is Remove.v's Start *)
Lemma start_sync_ff_off : forall fx p ff n st,
  negb (has_ready st) && (ff <? Z.of_nat (length n) - 1) = false -> start_sync_ff fx p ff n st = start_sync fx p n st.
Proof. intros fx p ff n st H. unfold start_sync_ff. rewrite H. reflexivity. Qed.

(* the code as it was when the defect was found (/repo d0557bc): every repair made until then, not this
   one, and not yet asyncImport's check that the chain it reads is the chain the handler is synced to
   ([f_import_tipcheck], C07, made since).  With that check and without this repair the same restart
   does not end with a wrong report but with a rescan that is retried for ever: the stored record of
   the batch's last height is the abandoned block's (observed on the real code: import-only family of
   harness/cmd/c06, crash right after ImportWallet). *)
Definition before_ff_check : fixes :=
  {| f_removable := true; f_rollback := true; f_import_retry := true; f_start_reorg := true; f_rollback_order := true;
     f_import_tipcheck := false; f_removable_debit := true; f_ff_check := false; f_keystore_undo := true |}.
(* ... and with that check (the code in /repo right before this repair) *)
Definition tipcheck_no_ff_check : fixes :=
  {| f_removable := true; f_rollback := true; f_import_retry := true; f_start_reorg := true; f_rollback_order := true;
     f_import_tipcheck := true; f_removable_debit := true; f_ff_check := false; f_keystore_undo := true |}.

(* ---------------------------------------------------------------- the witness *)

Definition pF : params := {| p_cbmat := 4; p_bindlock := 4294967294 |}.
Definition gF : block := {| b_id := 0; b_prev := 0; b_height := 0; b_txs := [] |}.
Definition cbF (id : N) (outs : list txout) : tx := {| t_id := id; t_cb := true; t_ins := []; t_outs := outs |}.
Definition payF (sh : N) (v : Z) : txout := {| o_sh := sh; o_val := v; o_class := CStd |}.
Definition blkF (id prev : N) (h : Z) (outs : list txout) : block :=
  {| b_id := id; b_prev := prev; b_height := h; b_txs := [cbF id outs] |}.

(* chain A: blocks 1 and 2 pay the wallet (script hash 1) 5 and 7 *)
Definition chainA : list block :=
  [gF; blkF 1 0 1 [payF 1 5]; blkF 2 1 2 [payF 1 7]; blkF 3 2 3 []; blkF 4 3 4 []].
(* the node abandons blocks 2..4 and grows to height 8 on a branch that never pays the wallet *)
Definition chainC : list block :=
  [gF; blkF 1 0 1 [payF 1 5]; blkF 12 1 2 []; blkF 13 12 3 []; blkF 14 13 4 []; blkF 15 14 5 [];
   blkF 16 15 6 []; blkF 17 16 7 []; blkF 18 17 8 []].

(* the wallet is restored on chain A (batch size 2): one batch, cursor 2, both coins stored *)
Definition stF0 : xstate := match import_start (xinit chainA) 1 7 [1%N] with Some s => s | None => xinit chainA end.
Definition stF1 : xstate := fst (import_batch repaired pF 2 chainA stF0 1).
(* crash; the node is on chain C when the process comes back; Start with fast-forward margin ff *)
Definition stF2 (fx : fixes) (ff : Z) : xstate :=
  match start_sync_ff fx pF ff chainC (xreopen stF1) with XOk s => s | _ => xreopen stF1 end.
(* the re-created task runs to the end *)
Definition stF3 (fx : fixes) (ff : Z) : xstate :=
  fold_left (fun s _ => fst (import_batch fx pF 2 chainC s 1)) [tt; tt; tt; tt] (stF2 fx ff).

Theorem ff_stale_import_refuted :
  (* at the crash: importing, cursor 2, not ready, the stored tip (block 4) abandoned by the node *)
  status_of stF1 1 = Some (WImporting 2) /\ has_ready stF1 = false /\
  synced (x_w stF1) = [(4, 4%N); (3, 3%N); (2, 2%N); (1, 1%N); (0, 0%N)] /\
  tip_on_node chainC (xreopen stF1) = false /\
  (* Start as found with the fast-forward (ff = 2 < 8): succeeds, the records of the abandoned blocks
     2..4 stay under those of the node's chain, the cursor stays at 2 *)
  start_sync_ff before_ff_check pF 2 chainC (xreopen stF1) = XOk (stF2 before_ff_check 2) /\
  synced (x_w (stF2 before_ff_check 2)) =
    [(8, 18%N); (7, 17%N); (6, 16%N); (5, 15%N); (4, 4%N); (3, 3%N); (2, 2%N); (1, 1%N); (0, 0%N)] /\
  status_of (stF2 before_ff_check 2) 1 = Some (WImporting 2) /\
  (* the rescan finishes: the wallet is ready, synced to the node's tip, and reports 12; the chain pays 5 *)
  status_of (stF3 before_ff_check 2) 1 = Some WReady /\ fst (tip (x_w (stF3 before_ff_check 2))) = 8 /\
  r_total (xreport (stF3 before_ff_check 2) 1) = 12 /\
  r_total (spec_report pF (key_owner (stF3 before_ff_check 2)) chainC 1) = 5 /\
  (* the same restart without the fast-forward (ff = 2000): the reorganisation is processed, the
     cursor is pulled back, the report is the specification *)
  status_of (stF2 before_ff_check 2000) 1 = Some (WImporting 1) /\
  status_of (stF3 before_ff_check 2000) 1 = Some WReady /\
  xreport (stF3 before_ff_check 2000) 1 = spec_report pF (key_owner (stF3 before_ff_check 2000)) chainC 1 /\
  (* with asyncImport's chain check (the code right before this repair) the same fast-forward leaves a
     rescan that never finishes: the record of the batch's upper height 4 is the abandoned block's, every
     batch is refused, the wallet stays "importing" *)
  synced (x_w (stF2 tipcheck_no_ff_check 2)) = synced (x_w (stF2 before_ff_check 2)) /\
  snd (import_batch tipcheck_no_ff_check pF 2 chainC (stF2 tipcheck_no_ff_check 2) 1) = IRetry /\
  status_of (stF3 tipcheck_no_ff_check 2) 1 = Some (WImporting 2).
Proof. vm_compute. repeat split; reflexivity. Qed.

(* the same crash, the same fast-forward margin, Start as repaired: the stored tip (4, block 4) is not
   the node's block 14 of that height, so block 15 (height 5) goes through the reorganisation path
   first: rollback to the fork at height 1 (the coin of the abandoned block 2 is deleted, the cursor is
   pulled back to 1), blocks 12..15 connected; the fast-forward has nothing left below 8 - 2, blocks
   16..18 are processed; the rescan finishes and the report is the specification *)
Example ff_stale_import_repaired :
  start_sync_ff repaired pF 2 chainC (xreopen stF1) = XOk (stF2 repaired 2) /\
  synced (x_w (stF2 repaired 2)) =
    [(8, 18%N); (7, 17%N); (6, 16%N); (5, 15%N); (4, 14%N); (3, 13%N); (2, 12%N); (1, 1%N); (0, 0%N)] /\
  status_of (stF2 repaired 2) 1 = Some (WImporting 1) /\
  status_of (stF3 repaired 2) 1 = Some WReady /\
  r_total (xreport (stF3 repaired 2) 1) = 5 /\
  xreport (stF3 repaired 2) 1 = spec_report pF (key_owner (stF3 repaired 2)) chainC 1.
Proof. vm_compute. repeat split; reflexivity. Qed.
