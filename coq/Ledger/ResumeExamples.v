(* Ledger/ResumeExamples.v — the theorems of ResumeProofs.v on concrete runs: the hypotheses are
   satisfiable, the crashes are not no-ops, the work really takes several commits. *)
From Coq Require Import List ZArith NArith Bool Lia.
Import ListNotations.
Open Scope Z_scope.
Require Import MW.Ledger.Model MW.Ledger.Spec MW.Ledger.Run MW.Ledger.WF MW.Ledger.Import MW.Ledger.Remove.
Require Import MW.Ledger.Proofs5 MW.Ledger.RemoveProofs MW.Ledger.ImportProofs MW.Ledger.Resume MW.Ledger.ResumeProofs.

Definition p0 : params := {| p_cbmat := 4; p_bindlock := 4294967294 |}.
Definition g0 : block := {| b_id := 0; b_prev := 0; b_height := 0; b_txs := [] |}.
Definition cb (id : N) (outs : list txout) : tx := {| t_id := id; t_cb := true; t_ins := []; t_outs := outs |}.
Definition pay (sh : N) (v : Z) : txout := {| o_sh := sh; o_val := v; o_class := CStd |}.

(* ---------------------------------------------------------------- (i) a restore, batch size 2 *)

(* the node's chain has 5 blocks (heights 0..4) when the wallet (script hash 1) is restored; blocks 1
   and 3 pay it.  Batch 1 covers heights 1..2 (cursor 2).  The process dies, is restarted; Start's
   catch-up processes block 5 (which pays the wallet too; it is not ready: nothing is credited); the
   re-created task continues from the cursor: heights 3..4, then 5 and hand-over. *)
Definition chain5 : list block :=
  [ g0;
    {| b_id := 1; b_prev := 0; b_height := 1; b_txs := [cb 1 [pay 1 10; pay 9 1000]] |};
    {| b_id := 2; b_prev := 1; b_height := 2; b_txs := [cb 2 []] |};
    {| b_id := 3; b_prev := 2; b_height := 3; b_txs := [cb 3 [pay 1 7]] |};
    {| b_id := 4; b_prev := 3; b_height := 4; b_txs := [cb 4 []] |} ].
Definition blk5 : block := {| b_id := 5; b_prev := 4; b_height := 5; b_txs := [cb 5 [pay 1 5]] |}.
Definition chain6 : list block := chain5 ++ [blk5].
Definition st_imp : xstate :=
  match import_start (xinit chain5) 1 7 [1%N] with Some s => s | None => xinit chain5 end.
Definition es_imp : list sev := [SBatch chain5; SReopen; SProc chain6 blk5; SBatch chain6; SBatch chain6].

Example import_resumes_example :
  let crashed := srun repaired p0 2 1 1 st_imp es_imp in
  let straight := srun repaired p0 2 1 1 st_imp (erase false es_imp) in
  (* hypotheses of [import_resumes] / [task_resumes] *)
  f_import_retry repaired = true /\ memN 1 (x_dead st_imp) = false /\
  (forall e, In e es_imp -> is_step e = false) /\
  erase false es_imp = [SBatch chain5; SProc chain6 blk5; SBatch chain6; SBatch chain6] /\
  (* unfinished work at the crash: importing, cursor 2, one of the three credits *)
  status_of (srun repaired p0 2 1 1 st_imp [SBatch chain5]) 1 = Some (WImporting 2) /\
  length (credits (x_w (srun repaired p0 2 1 1 st_imp [SBatch chain5]))) = 1%nat /\
  rebuild_queue (xreopen (srun repaired p0 2 1 1 st_imp [SBatch chain5])) = [(1%N, false)] /\
  (* the catch-up block is processed while the wallet is importing: tip 5, still one credit *)
  fst (tip (x_w (srun repaired p0 2 1 1 st_imp [SBatch chain5; SReopen; SProc chain6 blk5]))) = 5 /\
  length (credits (x_w (srun repaired p0 2 1 1 st_imp [SBatch chain5; SReopen; SProc chain6 blk5]))) = 1%nat /\
  (* same end *)
  crashed = straight /\
  status_of crashed 1 = Some WReady /\
  length (credits (x_w crashed)) = 3%nat /\ r_total (xreport crashed 1) = 22 /\
  xreport crashed 1 = spec_report p0 (key_owner crashed) chain6 1.
Proof.
  cbv zeta. split; [reflexivity|]. split; [reflexivity|].
  split; [intros e He; repeat (destruct He as [<-|He]; [reflexivity|]); destruct He|].
  vm_compute. repeat split; reflexivity.
Qed.

(* the same restore in the event system, with REAL restarts (reopen + Start) between the batches, on
   the static 5-block chain: the hypotheses of [import_resumes_xrun_ready] *)
Example import_resumes_xrun_example :
  let es := [XBatch 1; XRestart; XBatch 1; XRestart; XRestart; XBatch 1] in
  let s := fold_left (xstep as_found p0 2 1) es {| xs_node := chain5; xs_st := st_imp; xs_all := []; xs_crashed := false |} in
  (forall e, In e es -> e = XBatch 1 \/ e = XRestart) /\
  chain_height chain5 < Z.of_nat (count_batches 1 es) * 2 /\
  xs_st s = batches as_found p0 2 chain5 st_imp 1 3 /\
  status_of (xs_st s) 1 = Some WReady /\ r_total (xreport (xs_st s) 1) = 17 /\
  status_of (batches as_found p0 2 chain5 st_imp 1 1) 1 = Some (WImporting 2).
Proof.
  cbv zeta. split; [intros e He; repeat (destruct He as [<-|He]; [auto|]); destruct He|].
  vm_compute. repeat split; reflexivity.
Qed.

Lemma st_imp_importing : importing p0 chain5 1 (own_w st_imp 1) 0 st_imp.
Proof.
  constructor.
  - vm_compute. reflexivity.
  - vm_compute. reflexivity.
  - intros br [].
  - reflexivity.
  - vm_compute. split; discriminate.
  - reflexivity.
  - reflexivity.
Qed.

(* ---------------------------------------------------------------- (ii) a removal, cap 1 *)

(* two wallets; wallet 1 (script hash 1) owns three credits (blocks 1, 2, 3), wallet 2 one (block 2).
   RemoveWallet 1; phase 1; round 1 (cap 1: one credit goes); crash; Start's catch-up processes block 4
   (pays wallet 2); the re-created task redoes phase 1, then round 2; crash; phase 1 again, round 3
   (the last credit; the walk ends: status, passphrase and keystore deleted). *)
Definition blk (i prev : N) (h : Z) (outs : list txout) : block :=
  {| b_id := i; b_prev := prev; b_height := h; b_txs := [cb i outs] |}.
Definition r1 := blk 1 0 1 [pay 1 10].
Definition r2 := blk 2 1 2 [pay 1 20; pay 2 3].
Definition r3 := blk 3 2 3 [pay 1 30].
Definition r4 := blk 4 3 4 [pay 2 4].
Definition hist_rm : list xevent :=
  [XNewWallet 1 11; XNewAddr 1 1; XNewWallet 2 22; XNewAddr 2 2;
   XAttach r1; XProcess r1; XAttach r2; XProcess r2; XAttach r3; XProcess r3; XRemoveReq 1 11].
Definition s_rm : xsim := xrun repaired p0 2 1 [g0] hist_rm.
Definition n3 : node := xs_node s_rm.
Definition n4 : node := n3 ++ [r4].
Definition all4 : list tx := xs_all s_rm ++ b_txs r4.
Definition es_rm : list sev :=
  [SStep n3 all4; SReopen; SProc n4 r4; SStep n4 all4; SStep n4 all4; SReopen; SStep n4 all4; SStep n4 all4].
Definition wcredits (st : xstate) (w : N) : nat := length (filter (fun c => (c_wallet c =? w)%N) (credits (x_w st))).

Example removal_resumes_example :
  let st0 := xs_st s_rm in
  let start := remove_phase1 st0 1 in
  let run := srun repaired p0 2 1 1 start in
  let crashed := run es_rm in
  let straight := run (erase false es_rm) in
  (* hypotheses of [removal_resumes] *)
  f_rollback repaired = true /\ status_of st0 1 = Some WRemoving /\ is_some (lookupN (x_pass st0) 1) = true /\
  (forall e, In e es_rm -> is_batch e = false) /\
  erase false es_rm = [SStep n3 all4; SProc n4 r4; SStep n4 all4; SStep n4 all4] /\
  (* phase 1 did something, and the process remembers it *)
  memN 1 (x_balrow st0) = true /\ memN 1 (x_balrow start) = false /\ x_p1 start = [1%N] /\
  (* the rounds: 3 credits, then 2 (crash: the volatile mark is lost, the flag is not), 1, 0 *)
  wcredits start 1 = 3%nat /\
  wcredits (run [SStep n3 all4]) 1 = 2%nat /\ x_p1 (run [SStep n3 all4]) = [1%N] /\
  x_p1 (run [SStep n3 all4; SReopen]) = [] /\
  rebuild_queue (run [SStep n3 all4; SReopen]) = [(1%N, true)] /\
  (* the step after the reopen is phase 1 again: no credit goes, the mark is back *)
  wcredits (run [SStep n3 all4; SReopen; SProc n4 r4; SStep n4 all4]) 1 = 2%nat /\
  x_p1 (run [SStep n3 all4; SReopen; SProc n4 r4; SStep n4 all4]) = [1%N] /\
  wcredits (run [SStep n3 all4; SReopen; SProc n4 r4; SStep n4 all4; SStep n4 all4]) 1 = 1%nat /\
  status_of (run [SStep n3 all4; SReopen; SProc n4 r4; SStep n4 all4; SStep n4 all4]) 1 = Some WRemoving /\
  (* same end: wallet 1 erased, wallet 2 untouched and on the new tip *)
  crashed = straight /\
  status_of crashed 1 = None /\ mentions crashed 1 [1%N] = false /\
  rebuild_queue crashed = [] /\
  fst (tip (x_w crashed)) = 4 /\ r_total (xreport crashed 2) = 7.
Proof.
  cbv zeta. split; [reflexivity|]. split; [vm_compute; reflexivity|]. split; [vm_compute; reflexivity|].
  split; [intros e He; repeat (destruct He as [<-|He]; [reflexivity|]); destruct He|].
  vm_compute. repeat split; reflexivity.
Qed.

(* the code as found re-creates rows of the wallet when a reorganisation is processed during the
   removal; the restarted task's phase 1 deletes them again, the uncrashed task's does not run again:
   this is why [removal_resumes] asks for the repaired Rollback when announcements are processed, and
   [removal_resumes_static] does not *)

(* Wallet 1's third credit is a staking output in block 3.  After phase 1 and one round, block 3 is
   reorganised away (3' replaces it).  As found, Rollback re-creates the pending staking row of the
   wallet being removed.  The run that crashes after that redoes phase 1 and deletes the row; the run
   that does not crash keeps it for ever: the removal "finishes" with a row of the wallet left. *)
Definition q3 := blk 3 2 3 [{| o_sh := 1; o_val := 30; o_class := CStaking 10 |}].
Definition q3' := blk 13 2 3 [].
Definition hist_rm2 : list xevent :=
  [XNewWallet 1 11; XNewAddr 1 1; XAttach r1; XProcess r1; XAttach r2; XProcess r2; XAttach q3; XProcess q3; XRemoveReq 1 11].
Definition s_rm2 : xsim := xrun as_found p0 2 1 [g0] hist_rm2.
Definition m3' : node := [g0; r1; r2; q3'].
Definition all3' : list tx := xs_all s_rm2 ++ b_txs q3'.
Definition es_rm2 : list sev :=
  [SStep (xs_node s_rm2) all3'; SProc m3' q3'; SReopen; SStep m3' all3'; SStep m3' all3'; SStep m3' all3'; SStep m3' all3'].

Theorem removal_as_found_rollback_refuted :
  let st0 := xs_st s_rm2 in
  let start := remove_phase1 st0 1 in
  let crashed := srun as_found p0 2 1 1 start es_rm2 in
  let straight := srun as_found p0 2 1 1 start (erase false es_rm2) in
  status_of st0 1 = Some WRemoving /\ is_some (lookupN (x_pass st0) 1) = true /\
  (forall e, In e es_rm2 -> is_batch e = false) /\
  status_of crashed 1 = None /\ status_of straight 1 = None /\
  mentions crashed 1 [1%N] = false /\ mentions straight 1 [1%N] = true /\
  x_ugame crashed = [] /\ x_ugame straight = [(1%N, 3%N, 0%N)] /\
  ~ peq crashed straight.
Proof.
  cbv zeta. split; [vm_compute; reflexivity|]. split; [vm_compute; reflexivity|].
  split; [intros e He; repeat (destruct He as [<-|He]; [reflexivity|]); destruct He|].
  split; [vm_compute; reflexivity|]. split; [vm_compute; reflexivity|].
  split; [vm_compute; reflexivity|]. split; [vm_compute; reflexivity|].
  split; [vm_compute; reflexivity|]. split; [vm_compute; reflexivity|].
  intros H. apply (peq_mentions _ _ 1%N [1%N]) in H. vm_compute in H. discriminate.
Qed.

(* repaired: the same run ends erased either way *)
Example removal_repaired_rollback :
  let s := xrun repaired p0 2 1 [g0] hist_rm2 in
  let start := remove_phase1 (xs_st s) 1 in
  let crashed := srun repaired p0 2 1 1 start es_rm2 in
  let straight := srun repaired p0 2 1 1 start (erase false es_rm2) in
  crashed = straight /\ mentions crashed 1 [1%N] = false /\ fst (tip (x_w crashed)) = 3.
Proof. vm_compute. repeat split; reflexivity. Qed.

(* ---------------------------------------------------------------- the theorems, instantiated *)

Lemma chain5_wf : wf_chain chain5.
Proof. apply wf_chain_b_sound. vm_compute. reflexivity. Qed.

Example import_resumes_instance :
  peq (srun repaired p0 2 1 1 st_imp es_imp)
      (srun repaired p0 2 1 1 st_imp (filter (fun e => negb (is_reopen e)) es_imp)).
Proof.
  apply import_resumes; [reflexivity|reflexivity|].
  intros e He; repeat (destruct He as [<-|He]; [reflexivity|]); destruct He.
Qed.

Example import_resumes_xrun_instance :
  let es := [XBatch 1; XRestart; XBatch 1; XRestart; XRestart; XBatch 1] in
  let s := fold_left (xstep as_found p0 2 1) es {| xs_node := chain5; xs_st := st_imp; xs_all := []; xs_crashed := false |} in
  status_of (xs_st s) 1 = Some WReady /\
  ledger_of_chain p0 true (own_w st_imp 1) chain5 = Ok (x_w (xs_st s)) /\
  xreport (xs_st s) 1 = spec_report p0 (own_w st_imp 1) chain5 1.
Proof.
  apply import_resumes_xrun_ready.
  - exact chain5_wf.
  - lia.
  - exact st_imp_importing.
  - intros e He; repeat (destruct He as [<-|He]; [auto|]); destruct He.
  - vm_compute. reflexivity.
Qed.

Example removal_resumes_instance :
  peq (srun repaired p0 2 1 1 (remove_phase1 (xs_st s_rm) 1) es_rm)
      (srun repaired p0 2 1 1 (remove_phase1 (xs_st s_rm) 1) (erase false es_rm)).
Proof.
  apply (removal_resumes repaired p0 2 1 1 es_rm (xs_st s_rm)); [reflexivity|vm_compute; reflexivity|vm_compute; reflexivity|].
  intros e He; repeat (destruct He as [<-|He]; [reflexivity|]); destruct He.
Qed.
