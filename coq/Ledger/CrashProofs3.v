(* Ledger/CrashProofs3.v — C06: the theorems of Ledger/CrashProofs.v / CrashProofs2.v for Start as
   repaired a second time ([Crash3.start_chk]: the fast-forward only on top of a stored tip that is
   still on the node's chain, else the reorganisation path first).
   Part 1  general level (invariant [GP] of CrashProofs2.v): every restart succeeds, no premise on the
           crash points; crash_equiv_chk, crash_equiv_at_chk, restart_any_chain_chk
   Part 2  exact level (invariant [PInv] of CrashProofs.v): the restart IS live processing of the
           announcements [catchup_events] at EVERY crash point but the bare-genesis one — the premise
           [on_chain] of [safe_point] is gone; crash_is_history_chk, restart_on_tip_chk *)
From Coq Require Import List ZArith NArith Bool Lia.
Import ListNotations.
Open Scope Z_scope.
Require Import MW.Ledger.Model MW.Ledger.Spec MW.Ledger.Run MW.Ledger.WF.
Require Import MW.Ledger.Proofs MW.Ledger.Proofs2 MW.Ledger.Proofs3 MW.Ledger.Proofs4 MW.Ledger.Proofs5 MW.Ledger.Proofs6.
Require Import MW.Ledger.Crash MW.Ledger.CrashProofs MW.Ledger.Crash2 MW.Ledger.CrashProofs2 MW.Ledger.Crash3.

(* ================================================================ Part 1: general level *)

Section ChkG.
Variable p : params.
Variable g : block.
Variable B : list block.
Hypothesis B_ids : forall b1 b2, In b1 B -> In b2 B -> b_id b1 = b_id b2 -> b1 = b2.
Hypothesis B_gpf : genesis_prev_free g B.
Variable ff : Z.
Hypothesis ff_nonneg : 0 <= ff.

(* the first block above the stored tip, when Start would fast-forward *)
Lemma ff_wanted_above : forall pr, wf_chain (s_node (pr_sim pr)) -> ff_wanted ff pr = true ->
  exists b r, above (s_node (pr_sim pr)) (fst (tip (s_wallet (pr_sim pr)))) = b :: r.
Proof.
  intros pr Hwf Hw. unfold ff_wanted in Hw. cbv zeta in Hw.
  apply andb_true_iff in Hw. destruct Hw as [_ Hroom]. apply Z.ltb_lt in Hroom.
  destruct (above_last (s_node (pr_sim pr)) g (fst (tip (s_wallet (pr_sim pr)))) Hwf ltac:(lia)) as [Hne _].
  destruct (above (s_node (pr_sim pr)) (fst (tip (s_wallet (pr_sim pr))))) as [|b r]; [contradiction|].
  exists b, r. reflexivity.
Qed.

Lemma start_chk_G : forall A pr,
  GP p g A pr -> incl A B ->
  exists pr', start_chk p ff g pr = Some pr' /\ GP p g A pr' /\
    s_node (pr_sim pr') = s_node (pr_sim pr) /\ s_own (pr_sim pr') = s_own (pr_sim pr) /\
    snd (pr_best pr') = b_id (last (s_node (pr_sim pr)) g).
Proof.
  intros A pr Hinv HAB. unfold start_chk.
  destruct (ff_wanted ff pr && negb (tip_on_node pr)) eqn:Hc.
  - apply andb_true_iff in Hc. destruct Hc as [Hw _].
    destruct (GP_node p g A pr Hinv) as [Hwfn [Hgn HnA]].
    destruct (ff_wanted_above pr Hwfn Hw) as [b [r Hab]]. rewrite Hab.
    assert (Hb : In b (above (s_node (pr_sim pr)) (fst (tip (s_wallet (pr_sim pr)))))) by (rewrite Hab; left; reflexivity).
    destruct (above_in _ _ _ Hb) as [Hin Hh].
    assert (Hbg : b <> g).
    { intros Heq. subst b. pose proof (GP_tip_nonneg p g A pr Hinv) as H0.
      rewrite (genesis_height g _ Hwfn Hgn) in Hh. lia. }
    destruct (catch_up_G p g B B_ids [b] A pr Hinv HAB) as [pr1 [Hcu [Hinv1 [Hn1 Ho1]]]].
    { intros b' [Hb'|[]]. subst b'. split; assumption. }
    rewrite Hcu.
    destruct (start_G p g B B_ids B_gpf true ff A pr1 Hinv1 HAB) as [pr' [Hst [Hinv' [Hn' [Ho' Hb']]]]].
    exists pr'. split; [exact Hst|split; [exact Hinv'|split; [congruence|split; [congruence|]]]].
    rewrite (Hb' eq_refl), Hn1. reflexivity.
  - destruct (start_G p g B B_ids B_gpf true ff A pr Hinv HAB) as [pr' [Hst [Hinv' [Hn' [Ho' Hb']]]]].
    exists pr'. split; [exact Hst|split; [exact Hinv'|split; [exact Hn'|split; [exact Ho'|exact (Hb' eq_refl)]]]].
Qed.

Lemma crashes_chk_G : forall ks A pr post,
  GP p g A pr -> incl A B ->
  (forall s', In s' (sims p true (pr_sim pr) post) -> wf_chain (s_node s')) ->
  (forall e, In e post -> okev g B e) -> fresh_ok A post -> incl (A ++ attached post) B ->
  exists pr', crashes_chk p ff g ks pr post = Some pr' /\ GP p g (A ++ attached post) pr' /\
    s_node (pr_sim pr') = s_node (pr_sim (prun p pr post)) /\
    s_own (pr_sim pr') = s_own (pr_sim (prun p pr post)).
Proof.
  induction ks as [|k ks IH]; intros A pr post Hinv HAB Hsims Hok Hfresh HAB'.
  - exists (prun p pr post). cbn [crashes_chk].
    destruct (GP_run p g B B_ids post A pr Hinv HAB Hsims Hok Hfresh HAB') as [H1 _].
    split; [reflexivity|split; [exact H1|split; reflexivity]].
  - cbn [crashes_chk].
    destruct (cut p k pr post) as [[pr1 pre] post'] eqn:Hcut.
    destruct (cut_spec p _ _ _ _ _ _ Hcut) as [Hpost Hpr1].
    destruct (fresh_ok_app pre A post' ltac:(rewrite <- Hpost; exact Hfresh)) as [Hf1 Hf2].
    assert (HA1 : incl (A ++ attached pre) B).
    { intros z Hz. apply HAB'. rewrite Hpost, attached_app, app_assoc. apply in_or_app. left. exact Hz. }
    destruct (GP_run p g B B_ids pre A pr Hinv HAB) as [Hinv1 Hsim1]; try assumption.
    { intros s' Hs'. apply Hsims. rewrite Hpost. apply sims_prefix_in. exact Hs'. }
    { intros e He. apply Hok. rewrite Hpost. apply in_or_app. left. exact He. }
    rewrite <- Hpr1 in Hinv1, Hsim1.
    unfold restart_chk. rewrite (reopen_coherent pr1 (GP_coh p g _ pr1 Hinv1)).
    destruct (start_chk_G (A ++ attached pre) pr1 Hinv1 HA1) as [pr2 [Hstart [Hinv2 [Hn2 [Ho2 _]]]]].
    rewrite Hstart.
    destruct (IH (A ++ attached pre) pr2 post' Hinv2 HA1) as [pr' [Hcr [Hinv' [Hn' Ho']]]]; try assumption.
    { apply (sims_wf_transfer p true post' (pr_sim pr1) (pr_sim pr2)); [symmetry; exact Hn2|].
      intros x Hx. apply Hsims. rewrite Hpost. apply sims_app_in. rewrite <- Hsim1. exact Hx. }
    { intros e He. apply Hok. rewrite Hpost. apply in_or_app. right. exact He. }
    { rewrite <- app_assoc, <- attached_app, <- Hpost. exact HAB'. }
    exists pr'. split; [exact Hcr|split; [|split]].
    + rewrite Hpost, attached_app, app_assoc. exact Hinv'.
    + rewrite Hn', !prun_node, Hn2, Hpr1, prun_node, Hpost, fold_left_app. reflexivity.
    + rewrite Ho', !prun_own, Ho2, Hpr1, prun_own, Hpost, fold_left_app. reflexivity.
Qed.

Lemma crashes_at_chk_G : forall js A pr post,
  GP p g A pr -> incl A B ->
  (forall s', In s' (sims p true (pr_sim pr) post) -> wf_chain (s_node s')) ->
  (forall e, In e post -> okev g B e) -> fresh_ok A post -> incl (A ++ attached post) B ->
  exists pr', crashes_at_chk p ff g js pr post = Some pr' /\ GP p g (A ++ attached post) pr' /\
    s_node (pr_sim pr') = s_node (pr_sim (prun p pr post)) /\
    s_own (pr_sim pr') = s_own (pr_sim (prun p pr post)).
Proof.
  induction js as [|j js IH]; intros A pr post Hinv HAB Hsims Hok Hfresh HAB'.
  - exists (prun p pr post). cbn [crashes_at_chk].
    destruct (GP_run p g B B_ids post A pr Hinv HAB Hsims Hok Hfresh HAB') as [H1 _].
    split; [reflexivity|split; [exact H1|split; reflexivity]].
  - cbn [crashes_at_chk].
    set (pre := firstn j post). set (post' := skipn j post).
    assert (Hpost : post = pre ++ post'). { symmetry. apply firstn_skipn. }
    destruct (fresh_ok_app pre A post' ltac:(rewrite <- Hpost; exact Hfresh)) as [Hf1 Hf2].
    assert (HA1 : incl (A ++ attached pre) B).
    { intros z Hz. apply HAB'. rewrite Hpost, attached_app, app_assoc. apply in_or_app. left. exact Hz. }
    destruct (GP_run p g B B_ids pre A pr Hinv HAB) as [Hinv1 Hsim1]; try assumption.
    { intros s' Hs'. apply Hsims. rewrite Hpost. apply sims_prefix_in. exact Hs'. }
    { intros e He. apply Hok. rewrite Hpost. apply in_or_app. left. exact He. }
    set (pr1 := prun p pr pre) in *.
    unfold restart_chk. rewrite (reopen_coherent pr1 (GP_coh p g _ pr1 Hinv1)).
    destruct (start_chk_G (A ++ attached pre) pr1 Hinv1 HA1) as [pr2 [Hstart [Hinv2 [Hn2 [Ho2 _]]]]].
    rewrite Hstart.
    destruct (IH (A ++ attached pre) pr2 post' Hinv2 HA1) as [pr' [Hcr [Hinv' [Hn' Ho']]]]; try assumption.
    { apply (sims_wf_transfer p true post' (pr_sim pr1) (pr_sim pr2)); [symmetry; exact Hn2|].
      intros x Hx. apply Hsims. rewrite Hpost. apply sims_app_in. rewrite <- Hsim1. exact Hx. }
    { intros e He. apply Hok. rewrite Hpost. apply in_or_app. right. exact He. }
    { rewrite <- app_assoc, <- attached_app, <- Hpost. exact HAB'. }
    exists pr'. split; [exact Hcr|split; [|split]].
    + rewrite Hpost, attached_app, app_assoc. exact Hinv'.
    + rewrite Hn', !prun_node, Hn2. unfold pr1. rewrite prun_node, Hpost, fold_left_app. reflexivity.
    + rewrite Ho', !prun_own, Ho2. unfold pr1. rewrite prun_own, Hpost, fold_left_app. reflexivity.
Qed.

End ChkG.

(* every list of crash points, no premise on them, Start as repaired: each restart succeeds, and once
   the node's tip announcement is processed every wallet reports what the run that never stopped
   reports — what the node's best chain pays to its addresses and has not spent *)
Theorem crash_equiv_chk : forall p ff g h bt ks,
  0 <= ff ->
  wf_history_gen p true g (h ++ [EvProcess bt]) ->
  last (s_node (run p true g h)) g = bt ->
  genesis_prev_free g (g :: blocks_of_history (h ++ [EvProcess bt])) ->
  exists pr', crashes_chk p ff g ks (init_proc g) h = Some pr' /\
    forall w, observe (finish p g pr') w = observe (finish p g (prun p (init_proc g) h)) w /\
              observe (finish p g pr') w =
              spec_report p (own_of (s_own (run p true g h))) (s_node (run p true g h)) w.
Proof.
  intros p ff g h bt ks Hff Hwf Hlast Hgpf.
  destruct (history_setup p g h bt Hwf) as [Hids [Hwfg [Hsims [Hok [Hfresh [HAB Hbg]]]]]].
  set (B := g :: blocks_of_history (h ++ [EvProcess bt])) in *.
  assert (HgB : incl [g] B). { intros z [Hz|[]]. subst z. left. reflexivity. }
  pose proof (init_GP p g Hwfg) as Hinv0.
  destruct (crashes_chk_G p g B Hids Hgpf ff Hff ks [g] (init_proc g) h Hinv0 HgB Hsims Hok Hfresh HAB)
    as [pr' [Hcr [Hinv' [Hn' Ho']]]].
  destruct (GP_run p g B Hids h [g] (init_proc g) Hinv0 HgB Hsims Hok Hfresh HAB) as [Hinv1 Hsim1].
  change (fold_left (step p true) h (pr_sim (init_proc g))) with (run p true g h) in Hsim1.
  rewrite Hsim1 in Hn', Ho'.
  assert (Hl' : last (s_node (pr_sim pr')) g <> g). { rewrite Hn', Hlast. exact Hbg. }
  assert (Hl1 : last (s_node (pr_sim (prun p (init_proc g) h))) g <> g). { rewrite Hsim1, Hlast. exact Hbg. }
  destruct (finish_G p g B Hids _ pr' Hinv' HAB Hl') as [Hf' [Hfn' [Hfo' Hfb']]].
  destruct (finish_G p g B Hids _ _ Hinv1 HAB Hl1) as [Hf1 [Hfn1 [Hfo1 Hfb1]]].
  exists pr'. split; [exact Hcr|]. intros w.
  rewrite (GP_report p g B Hids _ _ Hf' HAB) by (rewrite Hfn'; exact Hfb').
  rewrite (GP_report p g B Hids _ _ Hf1 HAB) by (rewrite Hfn1; exact Hfb1).
  rewrite Hfn', Hfo', Hfn1, Hfo1, Hn', Ho', Hsim1. split; reflexivity.
Qed.

(* the same for crashes at arbitrary instants *)
Theorem crash_equiv_at_chk : forall p ff g h bt js,
  0 <= ff ->
  wf_history_gen p true g (h ++ [EvProcess bt]) ->
  last (s_node (run p true g h)) g = bt ->
  genesis_prev_free g (g :: blocks_of_history (h ++ [EvProcess bt])) ->
  exists pr', crashes_at_chk p ff g js (init_proc g) h = Some pr' /\
    forall w, observe (finish p g pr') w = observe (finish p g (prun p (init_proc g) h)) w /\
              observe (finish p g pr') w =
              spec_report p (own_of (s_own (run p true g h))) (s_node (run p true g h)) w.
Proof.
  intros p ff g h bt js Hff Hwf Hlast Hgpf.
  destruct (history_setup p g h bt Hwf) as [Hids [Hwfg [Hsims [Hok [Hfresh [HAB Hbg]]]]]].
  set (B := g :: blocks_of_history (h ++ [EvProcess bt])) in *.
  assert (HgB : incl [g] B). { intros z [Hz|[]]. subst z. left. reflexivity. }
  pose proof (init_GP p g Hwfg) as Hinv0.
  destruct (crashes_at_chk_G p g B Hids Hgpf ff Hff js [g] (init_proc g) h Hinv0 HgB Hsims Hok Hfresh HAB)
    as [pr' [Hcr [Hinv' [Hn' Ho']]]].
  destruct (GP_run p g B Hids h [g] (init_proc g) Hinv0 HgB Hsims Hok Hfresh HAB) as [Hinv1 Hsim1].
  change (fold_left (step p true) h (pr_sim (init_proc g))) with (run p true g h) in Hsim1.
  rewrite Hsim1 in Hn', Ho'.
  assert (Hl' : last (s_node (pr_sim pr')) g <> g). { rewrite Hn', Hlast. exact Hbg. }
  assert (Hl1 : last (s_node (pr_sim (prun p (init_proc g) h))) g <> g). { rewrite Hsim1, Hlast. exact Hbg. }
  destruct (finish_G p g B Hids _ pr' Hinv' HAB Hl') as [Hf' [Hfn' [Hfo' Hfb']]].
  destruct (finish_G p g B Hids _ _ Hinv1 HAB Hl1) as [Hf1 [Hfn1 [Hfo1 Hfb1]]].
  exists pr'. split; [exact Hcr|]. intros w.
  rewrite (GP_report p g B Hids _ _ Hf' HAB) by (rewrite Hfn'; exact Hfb').
  rewrite (GP_report p g B Hids _ _ Hf1 HAB) by (rewrite Hfn1; exact Hfb1).
  rewrite Hfn', Hfo', Hfn1, Hfo1, Hn', Ho', Hsim1. split; reflexivity.
Qed.

(* restart at ANY point of a history (after any earlier crashes), Start as repaired: it succeeds, the
   stored tip is the node's tip and every report is the specification of the node's chain *)
Theorem restart_any_chain_chk : forall p ff g h bt ks pre post pr1,
  0 <= ff ->
  wf_history_gen p true g (h ++ [EvProcess bt]) ->
  genesis_prev_free g (g :: blocks_of_history (h ++ [EvProcess bt])) ->
  h = pre ++ post ->
  crashes_chk p ff g ks (init_proc g) pre = Some pr1 ->
  s_node (pr_sim pr1) = s_node (run p true g pre) /\ s_own (pr_sim pr1) = s_own (run p true g pre) /\
  exists pr2, restart_chk p ff g pr1 = Some pr2 /\
    s_node (pr_sim pr2) = s_node (pr_sim pr1) /\ s_own (pr_sim pr2) = s_own (pr_sim pr1) /\
    snd (tip (s_wallet (pr_sim pr2))) = b_id (last (s_node (pr_sim pr1)) g) /\
    forall w, observe pr2 w = spec_report p (own_of (s_own (pr_sim pr1))) (s_node (pr_sim pr1)) w.
Proof.
  intros p ff g h bt ks pre post pr1 Hff Hwf Hgpf Hh Hcr.
  destruct (history_setup p g h bt Hwf) as [Hids [Hwfg [Hsims [Hok [Hfresh [HAB Hbg]]]]]].
  set (B := g :: blocks_of_history (h ++ [EvProcess bt])) in *.
  assert (HgB : incl [g] B). { intros z [Hz|[]]. subst z. left. reflexivity. }
  pose proof (init_GP p g Hwfg) as Hinv0.
  destruct (fresh_ok_app pre [g] post ltac:(rewrite <- Hh; exact Hfresh)) as [Hf1 _].
  assert (HA1 : incl ([g] ++ attached pre) B).
  { intros z Hz. apply HAB. rewrite Hh, attached_app, app_assoc. apply in_or_app. left. exact Hz. }
  assert (Hsims1 : forall s', In s' (sims p true (pr_sim (init_proc g)) pre) -> wf_chain (s_node s')).
  { intros s' Hs'. apply Hsims. rewrite Hh. apply sims_prefix_in. exact Hs'. }
  assert (Hok1 : forall e, In e pre -> okev g B e).
  { intros e He. apply Hok. rewrite Hh. apply in_or_app. left. exact He. }
  destruct (crashes_chk_G p g B Hids Hgpf ff Hff ks [g] (init_proc g) pre Hinv0 HgB Hsims1 Hok1 Hf1 HA1)
    as [pr' [Hcr' [Hinv' [Hn' Ho']]]].
  rewrite Hcr in Hcr'. inversion Hcr'. subst pr'. clear Hcr'.
  destruct (GP_run p g B Hids pre [g] (init_proc g) Hinv0 HgB Hsims1 Hok1 Hf1 HA1) as [_ Hsim1].
  change (fold_left (step p true) pre (pr_sim (init_proc g))) with (run p true g pre) in Hsim1.
  rewrite Hsim1 in Hn', Ho'.
  split; [exact Hn'|split; [exact Ho'|]].
  unfold restart_chk. rewrite (reopen_coherent pr1 (GP_coh p g _ pr1 Hinv')).
  destruct (start_chk_G p g B Hids Hgpf ff Hff _ pr1 Hinv' HA1) as [pr2 [Hstart [Hinv2 [Hn2 [Ho2 Hb2]]]]].
  exists pr2. split; [exact Hstart|split; [exact Hn2|split; [exact Ho2|]]].
  split.
  - destruct (GP_coh p g _ pr2 Hinv2) as [Hbt _]. rewrite <- Hbt. exact Hb2.
  - intros w. rewrite (GP_report p g B Hids _ _ Hinv2 HA1) by (rewrite Hn2; exact Hb2).
    rewrite Hn2, Ho2. reflexivity.
Qed.

(* ================================================================ Part 2: exact level *)

Section ChkP.
Variable p : params.
Variable g : block.
Variable B : list block.
Hypothesis B_ids : forall b1 b2, In b1 B -> In b2 B -> b_id b1 = b_id b2 -> b1 = b2.
Variable ff : Z.
Hypothesis ff_nonneg : 0 <= ff.

(* the stored tip is the node's block of that height: the stored chain is a prefix of the node's chain *)
Lemma tip_on_node_on_chain : forall A pr, PInv p g A pr -> incl A B -> tip_on_node pr = true -> on_chain pr.
Proof.
  intros A pr [[Hb Hca] [Hwfn [Hgn [HnA [c [Hwfc [Hgc [HcA Hst]]]]]]]] HAB Hon.
  unfold tip_on_node in Hon. rewrite Hb in Hon.
  destruct (exists_last (wf_nonempty _ Hwfc)) as [cpre [z Hc]].
  rewrite Hst, Hc, tip_L_snoc in Hon. cbn [fst snd] in Hon.
  destruct (node_at (s_node (pr_sim pr)) (b_height z)) as [b'|] eqn:Hat; [|discriminate].
  apply N.eqb_eq in Hon.
  unfold node_at in Hat. apply find_some in Hat. destruct Hat as [Hin _].
  assert (HnB : incl (s_node (pr_sim pr)) B). { intros x Hx. apply HAB. apply HnA. exact Hx. }
  assert (HcB : incl c B). { intros x Hx. apply HAB. apply HcA. exact Hx. }
  assert (Hbz : b' = z).
  { apply B_ids; [apply HnB; exact Hin| |exact Hon]. apply HcB. rewrite Hc. apply in_or_app. right. left. reflexivity. }
  subst b'. apply in_split in Hin. destruct Hin as [m1 [m2 Hn]].
  destruct (wf_linked _ Hwfn) as [pvn Hln]. destruct (wf_linked _ Hwfc) as [pvc Hlc].
  assert (Hpre : cpre = m1).
  { apply (common_prefix c (s_node (pr_sim pr)) pvc pvn 0 Hlc Hln (ids_agree_B B B_ids _ _ HcB HnB) cpre z [] m1 m2); assumption. }
  exists c, m2. split; [apply (wf_nonempty _ Hwfc)|split].
  - rewrite Hn, Hc, Hpre, <- app_assoc. reflexivity.
  - rewrite Hst. reflexivity.
Qed.

(* nothing is below the fast-forward line: Start's fast-forward branch is its catch-up *)
Lemma start_noskip : forall tipfix pr,
  wf_chain (s_node (pr_sim pr)) -> -1 <= fst (tip (s_wallet (pr_sim pr))) ->
  (fst (tip (s_wallet (pr_sim pr))) + 1 <? chain_height (s_node (pr_sim pr)) - ff) = false ->
  start p tipfix ff g pr = start p tipfix (chain_height (s_node (pr_sim pr))) g pr.
Proof.
  intros tipfix pr Hwf Hhs Hroom. apply Z.ltb_ge in Hroom. unfold start. cbv zeta.
  rewrite Z.ltb_irrefl, andb_false_r.
  destruct (no_ready_wallet pr && (ff <? chain_height (s_node (pr_sim pr)))); [|reflexivity].
  set (n := s_node (pr_sim pr)) in *. set (hs := fst (tip (s_wallet (pr_sim pr)))) in *.
  destruct (wf_linked _ Hwf) as [pv Hl].
  pose proof (above_hlinked n pv 0 hs Hl ltac:(lia)) as Hhl.
  assert (Hge : forall x, In x (above n hs) -> (b_height x <? chain_height n - ff) = false).
  { intros x Hx. apply Z.ltb_ge. pose proof (hlinked_ge _ _ _ Hhl Hx). lia. }
  rewrite (filter_all_false _ _ _ Hge). cbn [fold_left].
  rewrite (filter_all_true _ (fun b => negb (b_height b <? chain_height n - ff)) (above n hs)); [reflexivity|].
  intros x Hx. rewrite (Hge x Hx). reflexivity.
Qed.

(* Start as repaired on a coherent process, at ANY crash point but the bare-genesis one: it succeeds,
   it is live processing of the announcements [catchup_events], it ends on the node's tip *)
Lemma start_chk_ok : forall A pr,
  PInv p g A pr -> incl A B -> not_bare_genesis g pr ->
  exists pr', start_chk p ff g pr = Some pr' /\ pr' = prun p pr (catchup_events true g pr) /\
    PInv p g A pr' /\ s_node (pr_sim pr') = s_node (pr_sim pr) /\ s_own (pr_sim pr') = s_own (pr_sim pr) /\
    snd (tip (s_wallet (pr_sim pr'))) = b_id (last (s_node (pr_sim pr)) g).
Proof.
  intros A pr Hinv HAB Hgen.
  assert (Hwfn : wf_chain (s_node (pr_sim pr))). { destruct Hinv as [_ [H _]]. exact H. }
  assert (Hgn : from_g g (s_node (pr_sim pr))). { destruct Hinv as [_ [_ [H _]]]. exact H. }
  pose proof (tip_height_nonneg p g A pr Hinv) as Hhs0.
  unfold start_chk. destruct (ff_wanted ff pr) eqn:Hw; cbn [andb].
  - destruct (tip_on_node pr) eqn:Hon; cbn [negb].
    + (* fast-forward on top of a tip that is on the node's chain *)
      destruct (start_ok p g B B_ids true ff A pr Hinv HAB) as [pr' [H1 [H2 [H3 [H4 [H5 H6]]]]]].
      { split; [right; split; [exact ff_nonneg|apply (tip_on_node_on_chain A pr Hinv HAB Hon)]|exact Hgen]. }
      exists pr'. split; [exact H1|split; [exact H2|split; [exact H3|split; [exact H4|split; [exact H5|exact (H6 eq_refl)]]]]].
    + (* the stored tip was replaced: the reorganisation path first *)
      set (n := s_node (pr_sim pr)) in *. set (hs := fst (tip (s_wallet (pr_sim pr)))) in *.
      pose proof Hw as Hw'. unfold ff_wanted in Hw'. cbv zeta in Hw'. fold n in Hw'. fold hs in Hw'.
      apply andb_true_iff in Hw'. destruct Hw' as [_ Hroom]. apply Z.ltb_lt in Hroom.
      destruct (ff_wanted_above g ff ff_nonneg pr Hwfn Hw) as [b [r Hab]]. fold n in Hab. fold hs in Hab. rewrite Hab.
      destruct (wf_linked _ Hwfn) as [pv Hl].
      pose proof (above_hlinked n pv 0 hs Hl ltac:(lia)) as Hhl. rewrite Hab in Hhl. cbn [hlinked] in Hhl.
      destruct Hhl as [Hbh _].
      assert (Hb : In b (above n hs)) by (rewrite Hab; left; reflexivity).
      destruct (above_in _ _ _ Hb) as [Hin _].
      assert (Hbg : b <> g).
      { intros Heq. subst b. rewrite (genesis_height g _ Hwfn Hgn) in Hbh. lia. }
      destruct (catch_up_ok p g B B_ids [b] A pr Hinv HAB) as [pr1 [Hcu [Hinv1 [Hn1 [Ho1 Hlast1]]]]].
      { intros b' [Hb'|[]]. subst b'. split; assumption. }
      rewrite Hcu.
      destruct (Hlast1 ltac:(discriminate)) as [n1 [n2 [Hn Hw1]]]. cbn [last] in Hn, Hw1. fold n in Hn.
      assert (Hn1ne : n1 <> []).
      { intros E. subst n1. destruct Hgn as [n' Hn']. fold n in Hn'. rewrite Hn in Hn'. cbn [app] in Hn'. inversion Hn'. contradiction. }
      assert (Hlen : Z.of_nat (length n1) = hs + 1).
      { rewrite Hn in Hl. rewrite (linked_height _ _ _ _ _ Hl) in Hbh. lia. }
      assert (Hon1 : on_chain pr1).
      { exists (n1 ++ [b]), n2. split; [destruct n1; discriminate|split].
        - rewrite Hn1. fold n. rewrite Hn, <- app_assoc. reflexivity.
        - rewrite Hw1. reflexivity. }
      assert (Hlastn : last n g <> g).
      { intros Heq. pose proof (wf_last_height n g Hwfn) as Hh. rewrite Heq, (genesis_height g _ Hwfn Hgn) in Hh. lia. }
      destruct (start_ok p g B B_ids true ff A pr1 Hinv1 HAB) as [pr' [H1 [H2 [H3 [H4 [H5 H6]]]]]].
      { split; [right; split; [exact ff_nonneg|exact Hon1]|left; rewrite Hn1; exact Hlastn]. }
      exists pr'. split; [exact H1|].
      split; [|split; [exact H3|split; [rewrite H4; exact Hn1|split; [rewrite H5; exact Ho1|rewrite (H6 eq_refl), Hn1; reflexivity]]]].
      (* the announcements *)
      assert (Hp1 : pr1 = pstep p pr (EvProcess b)). { rewrite (catch_up_prun p _ _ _ Hcu). reflexivity. }
      assert (Hce : catchup_events true g pr = EvProcess b :: catchup_events true g pr1).
      { unfold catchup_events. rewrite Hn1. fold n. fold hs. rewrite Hab.
        assert (Htip1 : fst (tip (s_wallet (pr_sim pr1))) = hs + 1).
        { rewrite Hw1, tip_L_snoc. cbn [fst]. exact Hbh. }
        rewrite Htip1.
        replace (chain_height n <=? hs) with false by (symmetry; apply Z.leb_gt; lia).
        replace (chain_height n <=? hs + 1) with false by (symmetry; apply Z.leb_gt; lia).
        rewrite !andb_false_r. cbn [andb]. rewrite !app_nil_r. cbn [map]. f_equal. f_equal.
        (* the rest of the blocks above *)
        assert (Ha : above n (chain_height n1) = b :: n2) by (apply (above_chain n n1 (b :: n2) Hwfn Hn Hn1ne)).
        assert (Hch : chain_height n1 = hs) by (unfold chain_height; lia).
        rewrite Hch, Hab in Ha. inversion Ha as [Hr].
        assert (Hn' : n = (n1 ++ [b]) ++ n2) by (rewrite Hn, <- app_assoc; reflexivity).
        rewrite <- (above_chain n (n1 ++ [b]) n2 Hwfn Hn' ltac:(destruct n1; discriminate)).
        replace (chain_height (n1 ++ [b])) with (hs + 1); [reflexivity|].
        unfold chain_height. rewrite app_length. cbn [length]. lia. }
      rewrite H2, Hce. unfold prun. cbn [fold_left]. rewrite <- Hp1. reflexivity.
  - (* nothing to fast-forward *)
    destruct (no_ready_wallet pr && (ff <? chain_height (s_node (pr_sim pr)))) eqn:Hcond.
    + unfold ff_wanted in Hw. cbv zeta in Hw. rewrite Hcond in Hw. cbn [andb] in Hw.
      rewrite (start_noskip true pr Hwfn ltac:(lia) Hw).
      destruct (start_ok_noff p g B B_ids true (chain_height (s_node (pr_sim pr))) A pr Hinv HAB) as [pr' [H1 [H2 [H3 [H4 [H5 H6]]]]]]; [|exact Hgen|].
      { rewrite Z.ltb_irrefl. apply andb_false_r. }
      exists pr'. split; [exact H1|split; [exact H2|split; [exact H3|split; [exact H4|split; [exact H5|exact (H6 eq_refl)]]]]].
    + destruct (start_ok_noff p g B B_ids true ff A pr Hinv HAB Hcond Hgen) as [pr' [H1 [H2 [H3 [H4 [H5 H6]]]]]].
      exists pr'. split; [exact H1|split; [exact H2|split; [exact H3|split; [exact H4|split; [exact H5|exact (H6 eq_refl)]]]]].
Qed.

End ChkP.

(* one crash, Start as repaired: the crashed run is a run of the process that never stops, on the
   history with the restart's announcements inserted at the crash point — at every crash point but the
   one at which the node has gone back to its bare genesis while the wallet is ahead of it *)
Theorem crash_is_history_chk : forall p ff g h bt k,
  0 <= ff ->
  wf_history_gen p true g (h ++ [EvProcess bt]) ->
  not_bare_genesis g (fst (fst (cut p k (init_proc g) h))) ->
  crash_run_chk p ff g k h = Some (prun p (init_proc g) (crash_history p true g k h)).
Proof.
  intros p ff g h bt k Hff Hwf Hsafe.
  destruct (history_setup p g h bt Hwf) as [Hids [Hwfg [Hsims [Hok [Hfresh [HAB Hbg]]]]]].
  set (B := g :: blocks_of_history (h ++ [EvProcess bt])) in *.
  assert (HgB : incl [g] B). { intros z [Hz|[]]. subst z. left. reflexivity. }
  pose proof (init_PInv p g Hwfg) as Hinv0.
  unfold crash_run_chk, crash_history. cbn [crashes_chk] in *.
  destruct (cut p k (init_proc g) h) as [[pr1 pre] post] eqn:Hcut. cbn [fst] in Hsafe.
  destruct (cut_spec p _ _ _ _ _ _ Hcut) as [Hh Hpr1].
  destruct (fresh_ok_app pre [g] post ltac:(rewrite <- Hh; exact Hfresh)) as [Hf1 _].
  assert (HA1 : incl ([g] ++ attached pre) B).
  { intros z Hz. apply HAB. rewrite Hh, attached_app, app_assoc. apply in_or_app. left. exact Hz. }
  destruct (PInv_run p g B Hids pre [g] (init_proc g) Hinv0 HgB) as [Hinv1 _]; try assumption.
  { intros s' Hs'. apply Hsims. rewrite Hh. apply sims_prefix_in. exact Hs'. }
  { intros e He. apply Hok. rewrite Hh. apply in_or_app. left. exact He. }
  rewrite <- Hpr1 in Hinv1.
  unfold restart_chk. rewrite (reopen_coherent pr1 (proj1 Hinv1)).
  destruct (start_chk_ok p g B Hids ff Hff _ pr1 Hinv1 HA1 Hsafe) as [pr2 [Hstart [Hpr2 _]]].
  rewrite Hstart. f_equal. rewrite Hpr2, Hpr1. unfold prun. rewrite !fold_left_app. reflexivity.
Qed.

(* "the wallet opens" and is on the node's tip as soon as Start has returned *)
Theorem restart_on_tip_chk : forall p ff g h bt k pr1 pre post,
  0 <= ff ->
  wf_history_gen p true g (h ++ [EvProcess bt]) ->
  cut p k (init_proc g) h = (pr1, pre, post) -> not_bare_genesis g pr1 ->
  exists pr2, restart_chk p ff g pr1 = Some pr2 /\
    snd (tip (s_wallet (pr_sim pr2))) = b_id (last (s_node (pr_sim pr1)) g) /\
    s_node (pr_sim pr2) = s_node (pr_sim pr1).
Proof.
  intros p ff g h bt k pr1 pre post Hff Hwf Hcut Hsp.
  destruct (history_setup p g h bt Hwf) as [Hids [Hwfg [Hsims [Hok [Hfresh [HAB Hbg]]]]]].
  set (B := g :: blocks_of_history (h ++ [EvProcess bt])) in *.
  assert (HgB : incl [g] B). { intros z [Hz|[]]. subst z. left. reflexivity. }
  pose proof (init_PInv p g Hwfg) as Hinv0.
  destruct (cut_spec p _ _ _ _ _ _ Hcut) as [Hh Hpr1].
  destruct (fresh_ok_app pre [g] post ltac:(rewrite <- Hh; exact Hfresh)) as [Hf1 _].
  assert (HA1 : incl ([g] ++ attached pre) B).
  { intros z Hz. apply HAB. rewrite Hh, attached_app, app_assoc. apply in_or_app. left. exact Hz. }
  destruct (PInv_run p g B Hids pre [g] (init_proc g) Hinv0 HgB) as [Hinv1 _]; try assumption.
  { intros s' Hs'. apply Hsims. rewrite Hh. apply sims_prefix_in. exact Hs'. }
  { intros e He. apply Hok. rewrite Hh. apply in_or_app. left. exact He. }
  rewrite <- Hpr1 in Hinv1.
  unfold restart_chk. rewrite (reopen_coherent pr1 (proj1 Hinv1)).
  destruct (start_chk_ok p g B Hids ff Hff _ pr1 Hinv1 HA1 Hsp) as [pr2 [Hstart [_ [_ [Hn2 [_ Htip]]]]]].
  exists pr2. split; [exact Hstart|split; [exact Htip|exact Hn2]].
Qed.
