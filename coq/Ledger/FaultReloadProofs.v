(* Ledger/FaultReloadProofs.v — proofs for Ledger/FaultReload.v (C18). *)
From Coq Require Import List Arith Bool NArith Lia.
Import ListNotations.
Require Import MW.Ledger.FaultReload.
Require Import MW.Ledger.FaultProofs.

Section ReloadProofs.
Variable derive : nat -> N.

Lemma step_store : forall u e s,
  let '(s1, res) := step derive true u e s in
  match res with
  | Some a => a = derive (s_next s) /\ s_next s1 = S (s_next s)
  | None => s_next s1 = s_next s /\ s_rows s1 = s_rows s
  end.
Proof.
  intros u [f|l] s; cbn [step].
  - unfold new_address. destruct (s_cache s) as [c|]; [|split; reflexivity].
    destruct f as [|l]; [|destruct u]; cbn; split; reflexivity.
  - cbn. split; reflexivity.
Qed.

(* (i) the code as it is: whatever fails, however often, however the reloads end (completely,
   partially, not at all) and whatever loads happen in between, the addresses handed out are the
   children s_next, s_next+1, ... without gap or repetition, and the stored child number has
   advanced by exactly the number of addresses handed out *)
Lemma run_indices : forall u evs s,
  let '(s', outs) := run derive true u evs s in
  outs = map derive (seq (s_next s) (length outs)) /\ s_next s' = s_next s + length outs.
Proof.
  intros u. induction evs as [|e r IH]; intros s.
  - cbn. split; [reflexivity|lia].
  - cbn [run]. pose proof (step_store u e s) as Hst.
    destruct (step derive true u e s) as [s1 res].
    specialize (IH s1). destruct (run derive true u r s1) as [s2 l]. destruct IH as [IH1 IH2].
    destruct res as [a|].
    + destruct Hst as [Ha Hn]. cbn [length seq map]. rewrite Hn in IH1, IH2. split.
      * rewrite Ha. f_equal. exact IH1.
      * lia.
    + destruct Hst as [Hn _]. rewrite Hn in IH1, IH2. split; assumption.
Qed.

(* every call that is not struck by a fault succeeds as long as no reload has lost the keystore *)
Lemma run_count : forall evs s,
  s_cache s <> None -> no_load_fails evs ->
  length (snd (run derive true false evs s)) = clean_calls evs /\ s_cache (fst (run derive true false evs s)) <> None.
Proof.
  induction evs as [|e r IH]; intros s Hc Hn.
  - cbn. split; [reflexivity|exact Hc].
  - inversion Hn as [|e' r' He Hr]; subst. cbn [run].
    destruct (step derive true false e s) as [s1 res] eqn:Hs.
    assert (H1 : s_cache s1 <> None /\ (res <> None <-> match e with ENew NNone => True | _ => False end)).
    { destruct e as [f|l]; cbn [step] in Hs.
      - unfold new_address in Hs. destruct (s_cache s) as [c|] eqn:Hcs; [|contradiction].
        destruct f as [|l].
        + inversion Hs; subst. cbn. split; [discriminate|split; [trivial|discriminate]].
        + inversion Hs; subst. cbn [s_cache]. destruct l; cbn; try contradiction;
            (split; [discriminate|split; [intros H; contradiction|intros []]]).
      - inversion Hs; subst. cbn [s_cache]. destruct l; cbn; try contradiction;
          (split; [discriminate|split; [intros H; contradiction|intros []]]). }
    destruct H1 as [Hc1 Hres]. specialize (IH s1 Hc1 Hr).
    destruct (run derive true false r s1) as [s2 l]. cbn [fst snd] in *. destruct IH as [IH1 IH2].
    split; [|exact IH2].
    unfold clean_calls in *. cbn [filter].
    destruct e as [[|l0]|l0]; destruct res as [a|]; cbn [length];
      try (exfalso; apply (proj1 Hres); discriminate);
      try (exfalso; apply (proj2 Hres I); reflexivity); lia.
Qed.

(* the rows of the store are exactly the addresses handed out *)
Lemma set_row_in : forall i a rows j b,
  In (j, b) (set_row i a rows) <-> ((j = i /\ b = a) \/ (j <> i /\ In (j, b) rows)).
Proof.
  intros i a rows j b. unfold set_row. cbn [In]. rewrite filter_In. cbn [fst].
  split.
  - intros [H|[H1 H2]].
    + inversion H; subst. left. split; reflexivity.
    + right. apply negb_true_iff, Nat.eqb_neq in H2. split; assumption.
  - intros [[H1 H2]|[H1 H2]].
    + subst. left. reflexivity.
    + right. split; [exact H2|]. apply negb_true_iff, Nat.eqb_neq. exact H1.
Qed.

Lemma step_rows_ok : forall u e s, rows_ok derive s -> rows_ok derive (fst (step derive true u e s)).
Proof.
  intros u [f|l] s Hok; cbn [step]; [|exact Hok].
  unfold new_address. destruct (s_cache s) as [c|]; [|exact Hok].
  destruct f as [|l]; cbn [fst]; [|destruct u; exact Hok].
  intros j b. cbn [s_rows s_next]. rewrite set_row_in, (Hok j b). split.
  - intros [[H1 H2]|[H1 [H2 H3]]]; subst; split; try reflexivity; lia.
  - intros [H1 H2]. destruct (Nat.eq_dec j (s_next s)) as [E|E].
    + left. subst. split; reflexivity.
    + right. split; [exact E|split; [lia|exact H2]].
Qed.

Lemma run_rows_ok : forall u evs s, rows_ok derive s -> rows_ok derive (fst (run derive true u evs s)).
Proof.
  intros u. induction evs as [|e r IH]; intros s Hok; [exact Hok|].
  cbn [run]. pose proof (step_rows_ok u e s Hok) as H1.
  destruct (step derive true u e s) as [s1 res]. specialize (IH s1 H1).
  destruct (run derive true u r s1) as [s2 l]. exact IH.
Qed.

(* a stale mirror is never observable: two states that differ in the mirror only hand out the
   same addresses and end in stores that are equal (and in tables that differ in the mirror only) *)
Lemma step_mirror_blind : forall u e s1 s2,
  same_but_mirror s1 s2 ->
  snd (step derive true u e s1) = snd (step derive true u e s2) /\
  same_but_mirror (fst (step derive true u e s1)) (fst (step derive true u e s2)).
Proof.
  intros u e s1 s2 [Hn [Hr Hc]].
  assert (Hload : forall l, same_but_mirror {| s_next := s_next s1; s_rows := s_rows s1; s_cache := load l s1 |}
                                            {| s_next := s_next s2; s_rows := s_rows s2; s_cache := load l s2 |}).
  { intros l. unfold same_but_mirror. cbn [s_next s_rows s_cache]. split; [exact Hn|split; [exact Hr|]].
    destruct l; cbn; try rewrite Hr; trivial. }
  destruct e as [f|l]; cbn [step]; [|split; [reflexivity|apply Hload]].
  unfold new_address.
  destruct (s_cache s1) as [c1|] eqn:H1; destruct (s_cache s2) as [c2|] eqn:H2; try contradiction.
  - destruct f as [|l]; cbn [fst snd].
    + rewrite Hn. split; [reflexivity|].
      unfold same_but_mirror. cbn [s_next s_rows s_cache c_addrs]. rewrite Hr, Hc. repeat split; reflexivity.
    + destruct u; cbn [fst snd]; (split; [reflexivity|]); [|apply Hload].
      unfold same_but_mirror. rewrite H1, H2. repeat split; assumption.
  - cbn [fst snd]. split; [reflexivity|]. unfold same_but_mirror. rewrite H1, H2. repeat split; assumption.
Qed.

Lemma run_mirror_blind : forall u evs s1 s2,
  same_but_mirror s1 s2 ->
  snd (run derive true u evs s1) = snd (run derive true u evs s2) /\
  same_but_mirror (fst (run derive true u evs s1)) (fst (run derive true u evs s2)).
Proof.
  intros u. induction evs as [|e r IH]; intros s1 s2 H.
  - cbn. split; [reflexivity|exact H].
  - cbn [run]. destruct (step_mirror_blind u e s1 s2 H) as [Hres Hs].
    destruct (step derive true u e s1) as [t1 r1]. destruct (step derive true u e s2) as [t2 r2].
    cbn [fst snd] in Hres, Hs. subst r2. specialize (IH t1 t2 Hs).
    destruct (run derive true u r t1) as [u1 l1]. destruct (run derive true u r t2) as [u2 l2].
    cbn [fst snd] in *. destruct IH as [IH1 IH2]. subst l2. split; [reflexivity|exact IH2].
Qed.

(* with the in-memory repair a failed NewAddress cannot lose the keystore: every call not struck by a
   fault succeeds, whatever the faults of the others *)
Lemma run_count_mem_undo : forall evs s,
  s_cache s <> None -> no_lost_load evs ->
  length (snd (run derive true true evs s)) = clean_calls evs /\ s_cache (fst (run derive true true evs s)) <> None.
Proof.
  induction evs as [|e r IH]; intros s Hc Hn.
  - cbn. split; [reflexivity|exact Hc].
  - inversion Hn as [|e' r' He Hr]; subst. cbn [run].
    destruct (step derive true true e s) as [s1 res] eqn:Hs.
    assert (H1 : s_cache s1 <> None /\ (res <> None <-> match e with ENew NNone => True | _ => False end)).
    { destruct e as [f|l]; cbn [step] in Hs.
      - unfold new_address in Hs. destruct (s_cache s) as [c|] eqn:Hcs; [|contradiction].
        destruct f as [|l].
        + inversion Hs; subst. cbn. split; [discriminate|split; [trivial|discriminate]].
        + inversion Hs; subst. rewrite Hcs. split; [discriminate|split; [intros H; contradiction|intros []]].
      - inversion Hs; subst. cbn [s_cache]. destruct l; cbn; try contradiction;
          (split; [discriminate|split; [intros H; contradiction|intros []]]). }
    destruct H1 as [Hc1 Hres]. specialize (IH s1 Hc1 Hr).
    destruct (run derive true true r s1) as [s2 l]. cbn [fst snd] in *. destruct IH as [IH1 IH2].
    split; [|exact IH2].
    unfold clean_calls in *. cbn [filter].
    destruct e as [[|l0]|l0]; destruct res as [a|]; cbn [length];
      try (exfalso; apply (proj1 Hres); discriminate);
      try (exfalso; apply (proj2 Hres I); reflexivity); lia.
Qed.

End ReloadProofs.

(* ---------------------------------------------------------------- refinement of Ledger/Fault.v *)

(* Fault.attempts (the reload is all-or-nothing there) is this model with every reload ending in LoadOk;
   letting the reloads of the failed calls end in any way that keeps the keystore (completely or
   with the child-number read lost: [ls], one entry per failed call, LoadOk when the list runs out)
   does not change the addresses handed out *)
Require Import MW.Ledger.Fault.

Fixpoint events_of (fs : list fpos) (ls : list reload) : list event :=
  match fs with
  | [] => []
  | FNone :: r => ENew NNone :: events_of r ls
  | _ :: r =>
      match ls with
      | [] => ENew (NFail LoadOk) :: events_of r []
      | l :: ls' => ENew (NFail l) :: events_of r ls'
      end
  end.

Lemma events_of_ok : forall fs ls, Forall (fun l => l <> LoadFails) ls ->
  no_load_fails (events_of fs ls) /\ clean_calls (events_of fs ls) = successes fs.
Proof.
  induction fs as [|f r IH]; intros ls Hls.
  - split; [constructor|reflexivity].
  - destruct f; cbn [events_of].
    + destruct (IH ls Hls) as [H1 H2]. split; [constructor; [exact I|exact H1]|].
      unfold clean_calls, successes in *. cbn [filter length]. rewrite H2. reflexivity.
    + destruct ls as [|l ls'].
      * destruct (IH [] Hls) as [H1 H2]. split; [constructor; [exact I|exact H1]|exact H2].
      * inversion Hls as [|l0 ls0 Hl Hls']; subst. destruct (IH ls' Hls') as [H1 H2].
        split; [constructor; [destruct l; try exact I; contradiction|exact H1]|exact H2].
    + destruct ls as [|l ls'].
      * destruct (IH [] Hls) as [H1 H2]. split; [constructor; [exact I|exact H1]|exact H2].
      * inversion Hls as [|l0 ls0 Hl Hls']; subst. destruct (IH ls' Hls') as [H1 H2].
        split; [constructor; [destruct l; try exact I; contradiction|exact H1]|exact H2].
Qed.

Lemma run_refines_attempts : forall (derive : N -> nat -> N) repaired fs ls k w s,
  Forall (fun l => l <> LoadFails) ls -> s_cache s <> None -> s_next s = next_index (k_store k) w ->
  snd (run (derive w) true false (events_of fs ls) s) = snd (attempts derive repaired fs k w).
Proof.
  intros derive repaired fs ls k w s Hls Hc Hn.
  destruct (events_of_ok fs ls Hls) as [H1 H2].
  pose proof (run_indices (derive w) false (events_of fs ls) s) as Hi.
  pose proof (run_count (derive w) (events_of fs ls) s Hc H1) as [Hcnt _].
  destruct (run (derive w) true false (events_of fs ls) s) as [s' outs]. cbn [snd] in *. destruct Hi as [Hi _].
  rewrite Hi, Hcnt, H2, Hn. symmetry. apply (proj1 (attempts_indices derive repaired fs k w)).
Qed.

(* ---------------------------------------------------------------- the variant that reads the mirror *)

Definition derive0 (i : nat) : N := (100 + N.of_nat i)%N.
Definition fresh : kst := {| s_next := 0; s_rows := []; s_cache := Some {| c_addrs := []; c_mirror := 0 |} |}.

(* shape (a): two addresses are issued; the third call fails (any call of the transaction) and the
   repairing reload loses the read of the child numbers; storage works again: the next two calls
   hand out children 0 and 1 AGAIN, and the stored child number says 2 after four addresses *)
Definition evs_a : list event := [ENew NNone; ENew NNone; ENew (NFail LoadPartial); ENew NNone; ENew NNone].

(* shape (b): a keystore with three addresses is loaded (ImportWallet / restart) while the read of
   the child numbers fails; the load reports success; the next NewAddress hands out child 0 *)
Definition three : kst := {| s_next := 3; s_rows := [(2, derive0 2); (1, derive0 1); (0, derive0 0)]; s_cache := None |}.
Definition evs_b : list event := [ELoad LoadPartial; ENew NNone].

Lemma new_address_mirror_refuted :
  (no_load_fails evs_a /\ rows_ok derive0 fresh /\
   run derive0 false false evs_a fresh =
     ({| s_next := 2; s_rows := [(1, 101%N); (0, 100%N)];
         s_cache := Some {| c_addrs := [101; 100; 101; 100]%N; c_mirror := 2 |} |}, [100; 101; 100; 101]%N) /\
   snd (run derive0 true false evs_a fresh) = [100; 101; 102; 103]%N /\ s_next (fst (run derive0 true false evs_a fresh)) = 4) /\
  (no_load_fails evs_b /\ rows_ok derive0 three /\
   snd (run derive0 false false evs_b three) = [100]%N /\ s_next (fst (run derive0 false false evs_b three)) = 1 /\
   snd (run derive0 true false evs_b three) = [103]%N /\ s_next (fst (run derive0 true false evs_b three)) = 4).
Proof.
  split.
  - split; [repeat constructor|split].
    + intros i a. cbn. split; [intros []|intros [H _]; lia].
    + vm_compute. repeat split; reflexivity.
  - split; [repeat constructor|split].
    + intros i a. unfold three, derive0. cbn [s_rows s_next In]. split.
      * intros [H|[H|[H|[]]]]; inversion H; subst; split; try lia; reflexivity.
      * intros [H1 H2]. subst a. destruct i as [|[|[|i]]]; [right; right; left|right; left|left|lia]; reflexivity.
    + vm_compute. repeat split; reflexivity.
Qed.

(* the code as it is, the reload of a failed NewAddress fails altogether (BeginReadTx, or a read other
   than the child numbers): the keystore is out of the table, the next call fails although storage works
   (R2 of Properties/C18.v in this model); with the in-memory repair the next call succeeds *)
Definition evs_c : list event := [ENew NNone; ENew (NFail LoadFails); ENew NNone].

Lemma new_address_lost_keystore_refuted :
  run derive0 true false evs_c fresh = ({| s_next := 1; s_rows := [(0, 100%N)]; s_cache := None |}, [100%N]) /\
  snd (run derive0 true true evs_c fresh) = [100; 101]%N.
Proof. vm_compute. split; reflexivity. Qed.

(* the code as it stands (mem_undo = true) with the mirror variant: shape (a) is gone with the reload (a failed
   call leaves the keystore, mirror included, as it was), shape (b) — a keystore loaded by an import or at
   start-up while the child-number read fails — still re-issues child 0 *)
Lemma new_address_mirror_refuted_mem_undo :
  snd (run derive0 false true evs_a fresh) = [100; 101; 102; 103]%N /\
  snd (run derive0 false true evs_b three) = [100]%N /\ s_next (fst (run derive0 false true evs_b three)) = 1 /\
  snd (run derive0 true true evs_b three) = [103]%N /\ s_next (fst (run derive0 true true evs_b three)) = 4.
Proof. vm_compute. repeat split; reflexivity. Qed.
