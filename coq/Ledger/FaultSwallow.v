(* Ledger/FaultSwallow.v — C18: four storage errors that txmgr took for answers.  Definitions only
   (proofs: FaultSwallowProofs.v).

   Ledger/FaultOps.v writes every operation as a program in which EVERY numbered database call
   returns the injected error to the caller ([Call]: handler [Raise efault]); one [Call] there stands
   for all the database calls of one step (one block of an import batch, one block connected, the
   credit walk of a removal round).  That is the code as it stands.  Until the four repairs below,
   four calls INSIDE such steps did not return their error (found by the single-fault target coverage
   of checks/C18.py with the whole database compared at the end of a run):

     9c52567  txstore.go insertMinedTxForImporting: "blkHash, err := readBlockHashFromValue(..)" in the
              else branch declared a second err, so the error of putRawBlockRecord (the transaction is
              APPENDED to an existing block record) was lost: the import step went on and committed the
              transaction record, the credits and the balance with the block record not listing the
              transaction; a later reorganisation of that block (Rollback walks the block records)
              leaves the credits behind.  (Creating a record — putBlockRecord — assigned the outer err.)
     2491e9d  txstore_db.go existsTxRecord dropped the error of its Get: a failed read was "no record" in
              insertMinedTx / insertMinedTxForImporting: the transaction, already recorded for another
              wallet, was listed a second time in its block record.
     3ddfb4f  utxostore_db.go fetchUnminedInputSpendTxHashes dropped the error of its Get and answered
              "no spender": removeDoubleSpends (removeConflict, deleteUnminedInputs, Rollback) then left the
              unmined record, credits and inputs of a transaction the connected block conflicts with.
     9a3951f  utxostore.go removeRelevantCredit / removeRelevantUnminedCredit: "_ = deleteRawUnminedInput(..)":
              the row of the removed wallet's coin in bucket "mi" stayed.

   Each has a switch here (true = the code as it stands, false = the code before that commit), a model of
   the step with a fault AT THAT CALL — on the models the steps come from: Import.import_tx (1, 2),
   Pending.remove_double_spends (3); the credit walk of a removal has no unmined inputs in Remove.v, so
   (4) is a program of the uniform fault model (FaultGen) over the two buckets the walk deletes from.
   As in Ledger/Fault.v ([BSwallow], [process_blind]) a swallowed error is the step continuing with the
   answer the code took the failure for. *)
From Coq Require Import List ZArith NArith Bool.
Import ListNotations.
Open Scope Z_scope.
Require Import MW.Ledger.Model MW.Ledger.Spec MW.Ledger.Run MW.Ledger.FaultGen.
Require MW.Ledger.Pending.
Require Import MW.Ledger.Import.

Record tfixes := {
  t_brec_put : bool;       (* 9c52567: a failed putRawBlockRecord (append) fails the import step *)
  t_txrec_get : bool;      (* 2491e9d: a failed read of the transaction record fails the step *)
  t_spenders_get : bool;   (* 3ddfb4f: a failed read of the spenders of an outpoint fails the step *)
  t_rm_input_del : bool    (* 9a3951f: a failed delete of an unmined-input row fails the removal round *)
}.
Definition t_repaired : tfixes := {| t_brec_put := true; t_txrec_get := true; t_spenders_get := true; t_rm_input_del := true |}.
Definition t_as_found : tfixes := {| t_brec_put := false; t_txrec_get := false; t_spenders_get := false; t_rm_input_del := false |}.

(* ================================================================ 1, 2: one step of a background import *)

(* which database call of insertMinedTxForImporting the fault strikes *)
Inductive icall :=
| ICBrecPut      (* the put of the block record *)
| ICTxrecGet     (* the Get behind existsTxRecord *)
| ICOther.       (* any other call of the step: its error has always been returned *)

(* the transaction makes database calls at all (filterTxForImporting found something of the wallet's) *)
Definition tx_inserted (own : owner_fn) (n : node) (h : Z) (t : tx) : bool :=
  match (if t_cb t then Some [] else import_ins own n h (t_ins t) 0%N) with
  | None => false
  | Some ins => match ins, filter_outs own (t_outs t) 0%N with [], [] => false | _, _ => true end
  end.

(* insertMinedTxForImporting with existsTxRecord answering "no record" whatever is there: the hash is
   appended to the record of the height (or the record created) without looking *)
Definition add_id_blind (brs : list brec) (h : Z) (bid : N) (id : N) : list brec :=
  match brec_at brs h with
  | None => brs ++ [{| br_h := h; br_bid := bid; br_txs := [id] |}]
  | Some _ => map (fun br => if br_h br =? h
                             then {| br_h := br_h br; br_bid := br_bid br; br_txs := br_txs br ++ [id] |}
                             else br) brs
  end.

(* Import.import_tx with a fault at call [c] of this transaction *)
Definition import_tx_f (tf : tfixes) (p : params) (own : owner_fn) (n : node) (h : Z) (bid : N)
           (acc : list credit * list brec) (t : tx) (c : icall) : (list credit * list brec) + iout :=
  if negb (tx_inserted own n h t) then import_tx p own n h bid acc t        (* no database call to strike *)
  else
    match c with
    | ICOther => inr IRetry
    | ICBrecPut =>
        if t_brec_put tf then inr IRetry
        else match import_tx p own n h bid acc t with
             | inr e => inr e
             | inl (cs2, brs2) =>
                 match brec_at (snd acc) h with
                 | None => inr IRetry                                     (* putBlockRecord: the outer err *)
                 | Some br =>
                     if memN (t_id t) (br_txs br) then inl (cs2, brs2)    (* already listed: no put at all *)
                     else inl (cs2, snd acc)                              (* the append is lost, the step goes on *)
                 end
             end
    | ICTxrecGet =>
        if t_txrec_get tf then inr IRetry
        else match import_tx p own n h bid acc t with
             | inr e => inr e
             | inl (cs2, _) => inl (cs2, add_id_blind (snd acc) h bid (t_id t))
             end
    end.

(* the fault names the transaction whose call it strikes *)
Definition ifault := option (N * icall).

Fixpoint import_txs_f (tf : tfixes) (p : params) (own : owner_fn) (n : node) (h : Z) (bid : N)
         (acc : list credit * list brec) (ts : list tx) (f : ifault) : (list credit * list brec) + iout :=
  match ts with
  | [] => inl acc
  | t :: rest =>
      match (match f with
             | Some (tid, c) => if (t_id t =? tid)%N then import_tx_f tf p own n h bid acc t c
                                else import_tx p own n h bid acc t
             | None => import_tx p own n h bid acc t
             end) with
      | inl acc' => import_txs_f tf p own n h bid acc' rest f
      | inr e => inr e
      end
  end.

Fixpoint import_blocks_f (tf : tfixes) (p : params) (own : owner_fn) (n : node) (k stop : Z)
         (acc : list credit * list brec) (bs : list block) (f : ifault) : (list credit * list brec) + iout :=
  match bs with
  | [] => inl acc
  | b :: rest =>
      if (k <? b_height b) && (b_height b <=? stop) then
        match import_txs_f tf p own n (b_height b) (b_id b) acc (filter (touches own n (b_height b)) (b_txs b)) f with
        | inl acc' => import_blocks_f tf p own n k stop acc' rest f
        | inr e => inr e
        end
      else import_blocks_f tf p own n k stop acc rest f
  end.

(* Import.import_batch with the fault *)
Definition import_batch_f (tf : tfixes) (fx : fixes) (p : params) (B : Z) (n : node) (st : xstate) (w : N) (f : ifault)
  : xstate * iout :=
  match status_of st w with
  | Some (WImporting k) =>
      if memN w (x_dead st) then (st, IOk)
      else
        let best := fst (tip (x_w st)) in
        let stop := Z.min (k + B) best in
        match import_blocks_f tf p (own_w st w) n k stop (credits (x_w st), x_brecs st) n f with
        | inr IAbandon => if f_import_retry fx then (st, IRetry) else (with_dead st (x_dead st ++ [w]), IAbandon)
        | inr e => (st, e)
        | inl (cs, brs) =>
            (* (as Import.import_batch: the comparison of the node's block at the batch's upper height with the synced one) *)
            if f_import_tipcheck fx && negb (node_on_synced n (x_w st) stop) then (st, IRetry)
            else
            (with_status (with_brecs (with_w st {| credits := cs; synced := synced (x_w st) |}) brs)
                         (setN (x_status st) w (if stop =? best then WReady else WImporting stop)), IOk)
        end
  | _ => (st, IOk)
  end.

(* ================================================================ 3: connecting a block, the spenders of an outpoint *)

Section Spenders.
Variables (tf : tfixes) (p : params) (own : owner_fn).

(* Pending.remove_double_spends with the read of the spenders registered under outpoint [k] failing *)
Definition remove_double_spends_f (s : Pending.pstate) (r : relrec) (k : Pending.outp) : Pending.pres Pending.pstate :=
  match fold_left (fun (acc : Pending.pres Pending.pstate) (ri : rel_in) =>
                     match acc with
                     | Pending.PErr e => Pending.PErr e
                     | Pending.POk s1 =>
                         if op_eqb (ri_prev ri) k
                         then (if t_spenders_get tf then Pending.PErr (Pending.PE EOther)
                               else Pending.POk s1)                               (* "no spender" *)
                         else Pending.remove_spenders own s1 (ri_prev ri)
                     end)
                  (rr_ins r) (Pending.POk s) with
  | Pending.PErr e => Pending.PErr e
  | Pending.POk s2 => Pending.POk (Pending.set_uinputs s2 (Pending.del_inputs_of (Pending.ps_uinputs s2) (rr_tx r) (t_id (rr_tx r))))
  end.

(* Pending.p_apply_rec / p_apply_recs / p_connect_block with that fault *)
Definition p_apply_rec_f (h : Z) (bid : N) (s : Pending.pstate) (r : relrec) (k : Pending.outp) : Pending.pres Pending.pstate :=
  let t := rr_tx r in
  let s0 := Pending.set_blocks s (Pending.br_add (Pending.ps_blocks s) h bid t) in
  match Pending.withdraw_ins (credits (Pending.ps_w s0)) (Pending.ps_game s0) t h (rr_ins r) with
  | Pending.PErr e => Pending.PErr e
  | Pending.POk (cs1, g1) =>
      let s1 := Pending.settle (Pending.set_game (Pending.set_credits s0 cs1) g1) t in
      match remove_double_spends_f s1 r k with
      | Pending.PErr e => Pending.PErr e
      | Pending.POk s2 =>
          match apply_outs p (credits (Pending.ps_w s2)) t h bid (rr_outs r) with
          | Err e => Pending.PErr (Pending.PE e)
          | Ok cs2 => Pending.POk (Pending.add_game (Pending.set_credits s2 cs2) (t_id t) h (rr_outs r))
          end
      end
  end.

Fixpoint p_apply_recs_f (h : Z) (bid : N) (s : Pending.pstate) (recs : list relrec) (k : Pending.outp) : Pending.pres Pending.pstate :=
  match recs with
  | [] => Pending.POk s
  | r :: rest =>
      match p_apply_rec_f h bid s r k with
      | Pending.PErr e => Pending.PErr e
      | Pending.POk s' => p_apply_recs_f h bid s' rest k
      end
  end.

Definition p_connect_block_f (n : node) (cum : list (N * Pending.uval)) (s : Pending.pstate) (b : block) (k : Pending.outp)
  : Pending.pres (Pending.pstate * list N) :=
  match filter_block_txs own (credits (Pending.ps_w s)) (Pending.lookup_pending n cum) [] (b_txs b) with
  | Err e => Pending.PErr (Pending.PE e)
  | Ok recs =>
      match p_apply_recs_f (b_height b) (b_id b) s recs k with
      | Pending.PErr e => Pending.PErr e
      | Pending.POk s' =>
          Pending.POk (Pending.set_w s' {| credits := credits (Pending.ps_w s'); synced := (b_height b, b_id b) :: synced (Pending.ps_w s') |},
                       map (fun r => t_id (rr_tx r)) recs)
      end
  end.

(* a relevant input of the block names the outpoint: the fault can strike *)
Definition spends_relevant (recs : list relrec) (k : Pending.outp) : bool :=
  existsb (fun r => existsb (fun ri => op_eqb (ri_prev ri) k) (rr_ins r)) recs.

End Spenders.

(* ================================================================ 4: the credit walk of a removal round *)

(* the two buckets the walk deletes from, rows named by the outpoint of the wallet's coin *)
Record rmst := { rm_credits : list N; rm_uinputs : list N }.

Definition del_row (x : N) (l : list N) : list N := filter (fun y => negb (y =? x)%N) l.

(* removeRelevantCredit: for every credit of the wallet: deleteRawCredit, then deleteRawUnminedInput, whose
   error was dropped ("_ =") before 9a3951f *)
Fixpoint rm_walk_prog (tf : tfixes) (ops : list N) : prog rmst unit unit unit unit :=
  match ops with
  | [] => Ret tt
  | op :: rest =>
      Write tt (fun t => inr {| rm_credits := del_row op (rm_credits t); rm_uinputs := rm_uinputs t |}) tt
        (Db (fun t => inr ({| rm_credits := rm_credits t; rm_uinputs := del_row op (rm_uinputs t) |}, tt))
            (fun _ => rm_walk_prog tf rest)
            (if t_rm_input_del tf then Raise tt else rm_walk_prog tf rest))
  end.

Definition rm_walk_op (tf : tfixes) (ops : list N) : oper rmst unit unit unit unit :=
  {| body := rm_walk_prog tf ops; post := fun _ m => m; undo := fun _ _ m => m |}.
