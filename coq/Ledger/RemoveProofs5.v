(* Ledger/RemoveProofs5.v — C08, part 5: the wallet-management steps (RemoveWallet request, phase 1,
   a phase 2 round, CreateWallet, NewAddress) keep the store invariants [StInv] and the
   representation [XRep] of the ready wallets' credits. *)
From Coq Require Import List ZArith NArith Bool Lia.
Import ListNotations.
Open Scope Z_scope.
Require Import MW.Ledger.Model MW.Ledger.Spec MW.Ledger.Run MW.Ledger.WF MW.Ledger.Import MW.Ledger.Remove.
Require Import MW.Ledger.Proofs MW.Ledger.Proofs2 MW.Ledger.Proofs3 MW.Ledger.Proofs4 MW.Ledger.Proofs6.
Require Import MW.Ledger.RemoveProofs MW.Ledger.RemoveProofs2 MW.Ledger.RemoveProofs3 MW.Ledger.RemoveProofs4.

(* ---------------------------------------------------------------- list-as-map facts *)

Lemma lookupN_app_some : forall (A : Type) (l1 l2 : list (N * A)) k v,
  lookupN l1 k = Some v -> lookupN (l1 ++ l2) k = Some v.
Proof.
  intros A l1 l2 k v. induction l1 as [|[k0 v0] r IH]; [discriminate|].
  cbn [app lookupN]. destruct (k0 =? k)%N; [auto|apply IH].
Qed.

Lemma lookupN_app_none : forall (A : Type) (l1 l2 : list (N * A)) k,
  lookupN l1 k = None -> lookupN (l1 ++ l2) k = lookupN l2 k.
Proof.
  intros A l1 l2 k. induction l1 as [|[k0 v0] r IH]; [reflexivity|].
  cbn [app lookupN]. destruct (k0 =? k)%N; [discriminate|apply IH].
Qed.

Lemma lookupN_app_other : forall (A : Type) (l : list (N * A)) k k' v,
  k' <> k -> lookupN (l ++ [(k, v)]) k' = lookupN l k'.
Proof.
  intros A l k k' v Hne. destruct (lookupN l k') as [v'|] eqn:Hl.
  - apply lookupN_app_some. assumption.
  - rewrite (lookupN_app_none _ _ _ _ Hl). cbn. destruct (k =? k')%N eqn:E; [apply N.eqb_eq in E; congruence|reflexivity].
Qed.

Lemma lookupN_none_notin : forall (A : Type) (l : list (N * A)) k, lookupN l k = None -> ~ In k (map fst l).
Proof.
  intros A l k. induction l as [|[k0 v0] r IH]; intros H Hin; [destruct Hin|].
  cbn [lookupN] in H. destruct (k0 =? k)%N eqn:E; [discriminate|].
  destruct Hin as [Hin|Hin]; [cbn in Hin; subst; rewrite N.eqb_refl in E; discriminate|apply (IH H Hin)].
Qed.

Lemma lookupN_notin_none : forall (A : Type) (l : list (N * A)) k, ~ In k (map fst l) -> lookupN l k = None.
Proof.
  intros A l k H. destruct (lookupN l k) as [v|] eqn:Hl; [|reflexivity].
  exfalso. apply H. apply lookupN_in in Hl. apply in_map_iff. exists (k, v). split; [reflexivity|assumption].
Qed.

Lemma in_setN : forall (A : Type) (l : list (N * A)) k v e, In e (setN l k v) -> e = (k, v) \/ In e l.
Proof.
  intros A l k v e H. unfold setN in H. destruct (existsb (fun e0 => (fst e0 =? k)%N) l).
  - apply in_map_iff in H. destruct H as [e0 [He Hin]]. destruct (fst e0 =? k)%N; [left; symmetry|right; subst]; assumption.
  - apply in_app_or in H. destruct H as [H|[H|[]]]; [right; assumption|left; symmetry; assumption].
Qed.

Lemma lookupN_filter_snd : forall (l : list (N * N)) w sh v,
  NoDup (map fst l) -> lookupN l sh = Some v -> v <> w ->
  lookupN (filter (fun e => negb (snd e =? w)%N) l) sh = Some v.
Proof.
  intros l w sh v. induction l as [|[k0 v0] r IH]; intros Hnd Hl Hne; [discriminate|].
  cbn [map fst] in Hnd. inversion Hnd as [|? ? Hnotin Hnd']. subst.
  cbn [lookupN] in Hl. cbn [filter snd]. destruct (k0 =? sh)%N eqn:E.
  - inversion Hl. subst v0. destruct (v =? w)%N eqn:E2; [apply N.eqb_eq in E2; contradiction|].
    cbn [negb lookupN]. rewrite E. reflexivity.
  - destruct (v0 =? w)%N; cbn [negb]; [apply IH; assumption|]. cbn [lookupN]. rewrite E. apply IH; assumption.
Qed.

Lemma lookupN_filter_none : forall (l : list (N * N)) (q : N * N -> bool) sh,
  NoDup (map fst l) -> (forall v, lookupN l sh = Some v -> q (sh, v) = false) -> lookupN (filter q l) sh = None.
Proof.
  intros l q sh. induction l as [|[k0 v0] r IH]; intros Hnd H; [reflexivity|].
  cbn [map fst] in Hnd. inversion Hnd as [|? ? Hnotin Hnd']. subst.
  cbn [filter]. cbn [lookupN] in H. destruct (k0 =? sh)%N eqn:E.
  - apply N.eqb_eq in E. subst k0. rewrite (H v0 eq_refl).
    apply lookupN_notin_none. intros Hin. apply Hnotin. apply in_map_iff in Hin. destruct Hin as [e [He Hin]].
    apply filter_In in Hin. apply in_map_iff. exists e. tauto.
  - destruct (q (k0, v0)); [cbn [lookupN]; rewrite E|]; apply IH; assumption.
Qed.

Lemma NoDup_map_filter : forall (A B : Type) (f : A -> B) (q : A -> bool) l, NoDup (map f l) -> NoDup (map f (filter q l)).
Proof.
  intros A B f q l. induction l as [|a r IH]; intros H; [constructor|].
  cbn [map] in H. inversion H as [|? ? Hnotin Hnd]. subst. cbn [filter]. destruct (q a); [|apply IH; assumption].
  cbn [map]. constructor; [|apply IH; assumption].
  intros Hin. apply Hnotin. apply in_map_iff in Hin. destruct Hin as [x [Hx Hin]]. apply filter_In in Hin.
  apply in_map_iff. exists x. tauto.
Qed.

Lemma forallb_false_intro : forall (A : Type) (f : A -> bool) l x, In x l -> f x = false -> forallb f l = false.
Proof.
  intros A f l x Hin Hf. destruct (forallb f l) eqn:E; [|reflexivity].
  rewrite forallb_forall in E. rewrite (E x Hin) in Hf. discriminate.
Qed.

(* ---------------------------------------------------------------- the request *)

Section Manage.
Variable p : params.
Variable U : list block.
Variable S : list N.

Lemma request_keeps : forall st w pass c1 c2 f,
  StInv U S st -> XRep p st c1 c2 f ->
  StInv U S (fst (remove_request st w pass)) /\ XRep p (fst (remove_request st w pass)) c1 c2 f.
Proof.
  intros st w pass c1 c2 f HS HR. unfold remove_request.
  destruct (lookupN (x_pass st) w) as [pw|]; [|split; assumption].
  destruct (negb (pw =? pass)%N); [split; assumption|].
  destruct (status_of st w) as [s|] eqn:Hs; [|split; assumption].
  assert (Hgoal : StInv U S (with_status st (setN (x_status st) w WRemoving)) /\
                  XRep p (with_status st (setN (x_status st) w WRemoving)) c1 c2 f).
  { set (st' := with_status st (setN (x_status st) w WRemoving)).
    assert (Hstat : forall v, status_of st' v = if (v =? w)%N then Some WRemoving else status_of st v).
    { intros v. unfold status_of, st', with_status. cbn [x_status]. destruct (v =? w)%N eqn:E.
      - apply N.eqb_eq in E. subst v. apply lookupN_setN_same.
      - apply lookupN_setN_other. apply N.eqb_neq. assumption. }
    split.
    - constructor.
      + exact (si_keyed _ _ _ HS).
      + exact (si_fun _ _ _ HS).
      + exact (si_sound _ _ _ HS).
      + intros v k Hin. unfold st', with_status in Hin. cbn [x_status] in Hin.
        apply in_setN in Hin. destruct Hin as [Hin|Hin]; [discriminate|]. apply (si_noimp _ _ _ HS v k Hin).
      + intros v Hv. change (x_p1 st') with (x_p1 st) in Hv. destruct (si_p1 _ _ _ HS v Hv) as [H1 H2].
        split; [|exact H2]. rewrite Hstat. destruct (v =? w)%N; [reflexivity|assumption].
      + exact (si_issued _ _ _ HS).
    - destruct HR as [Hsy HR]. split; [exact Hsy|].
      apply (Rep_minus p _ _ _ _ _ _ _ w) in HR.
      apply (Rep_own_ext p _ (ready_own st') _ (is_ready st') _ _ _ _ _) in HR; [exact HR| |].
      + intros b t o _ _ _. unfold own_minus, ready_own. change (key_owner st' (o_sh o)) with (key_owner st (o_sh o)).
        destruct (key_owner st (o_sh o)) as [v|]; [|reflexivity].
        unfold is_ready. rewrite (Hstat v).
        destruct (v =? w)%N eqn:E.
        * destruct (match status_of st v with Some WReady => true | _ => false end); [rewrite E|]; reflexivity.
        * destruct (match status_of st v with Some WReady => true | _ => false end); [rewrite E|]; reflexivity.
      + intros c _. unfold is_ready. rewrite (Hstat (c_wallet c)).
        destruct (c_wallet c =? w)%N; cbn [negb]; [apply andb_false_r|apply andb_true_r]. }
  destruct s; [exact Hgoal|split; assumption|exact Hgoal].
Qed.

(* ---------------------------------------------------------------- phase 1 *)

Lemma phase1_keeps : forall st w c1 c2 f,
  StInv U S st -> XRep p st c1 c2 f ->
  StInv U S (remove_phase1 st w) /\ XRep p (remove_phase1 st w) c1 c2 f.
Proof.
  intros st w c1 c2 f HS HR.
  destruct (status_of st w) as [[|k|]|] eqn:Hs; try (unfold remove_phase1; rewrite Hs; split; assumption).
  destruct (is_some (lookupN (x_pass st) w)) eqn:Hp; [|unfold remove_phase1; rewrite Hs, Hp; split; assumption].
  destruct (remove_phase1_no_residue st w Hs Hp) as [Hres Hp1].
  destruct (remove_phase1_frames_others st w) as [Hw [Hst [Hk [_ Hbr]]]].
  set (st' := remove_phase1 st w) in *.
  split.
  - constructor.
    + intros cr Hcr. rewrite Hw in Hcr. unfold key_owner. rewrite Hk. apply (si_keyed _ _ _ HS cr Hcr).
    + unfold keys_functional. rewrite Hk. exact (si_fun _ _ _ HS).
    + intros cr Hcr. rewrite Hw in Hcr. apply (si_sound _ _ _ HS cr Hcr).
    + unfold no_importing. rewrite Hst. exact (si_noimp _ _ _ HS).
    + intros v Hv. destruct (N.eq_dec v w) as [->|Hne].
      * split; [unfold status_of; rewrite Hst; exact Hs|exact Hres].
      * assert (Hv0 : memN v (x_p1 st) = true).
        { unfold st', remove_phase1 in Hv. rewrite Hs, Hp in Hv. cbn [x_p1] in Hv. rewrite memN_app in Hv.
          apply orb_true_iff in Hv. destruct Hv as [Hv|Hv]; [assumption|].
          cbn in Hv. rewrite orb_false_r in Hv. apply N.eqb_eq in Hv. contradiction. }
        destruct (si_p1 _ _ _ HS v Hv0) as [H1 [H2 H3]].
        split; [unfold status_of; rewrite Hst; exact H1|].
        unfold st', remove_phase1. rewrite Hs, Hp. split; cbn [x_balrow x_ugame].
        -- apply memN_remN_other. assumption.
        -- intros e He. apply filter_In in He. apply H3. tauto.
    + rewrite Hk. exact (si_issued _ _ _ HS).
  - destruct HR as [Hsy HR]. split; [rewrite Hw; exact Hsy|].
    rewrite (ready_own_eq st st' Hk Hst), (is_ready_eq st st' Hst), Hw, Hbr. exact HR.
Qed.

(* ---------------------------------------------------------------- CreateWallet, NewAddress *)

Lemma wallet_known_false : forall st w, wallet_known st w = false ->
  status_of st w = None /\ (forall sh, key_owner st sh <> Some w).
Proof.
  intros st w H. unfold wallet_known in H. apply orb_false_iff in H. destruct H as [H H3].
  apply orb_false_iff in H. destruct H as [H1 H2]. split.
  - destruct (status_of st w); [discriminate|reflexivity].
  - intros sh Hk. apply lookupN_in in Hk.
    assert (existsb (fun e => (snd e =? w)%N) (x_keys st) = true).
    { apply existsb_exists. exists (sh, w). split; [assumption|apply N.eqb_refl]. }
    congruence.
Qed.

Lemma new_wallet_keeps : forall st w pass st' c1 c2 f,
  StInv U S st -> XRep p st c1 c2 f -> new_wallet st w pass = Some st' ->
  StInv U S st' /\ XRep p st' c1 c2 f.
Proof.
  intros st w pass st' c1 c2 f HS HR H. unfold new_wallet, import_start in H.
  destruct (wallet_known st w) eqn:Hkn; [discriminate|]. injection H as Hst'.
  destruct (wallet_known_false _ _ Hkn) as [Hsw Hkw].
  assert (Hk : x_keys st' = x_keys st). { rewrite <- Hst'. cbn [x_keys map]. apply app_nil_r. }
  assert (Hstat : forall v, v <> w -> status_of st' v = status_of st v).
  { intros v Hne. rewrite <- Hst'. unfold status_of. cbn [x_status]. apply lookupN_app_other. assumption. }
  assert (Hcw : forall cr, In cr (credits (x_w st)) -> c_wallet cr <> w).
  { intros cr Hcr Heq. apply (Hkw (c_sh cr)). rewrite <- Heq. apply (si_keyed _ _ _ HS cr Hcr). }
  split.
  - constructor.
    + intros cr Hcr. rewrite <- Hst' in Hcr. cbn [x_w] in Hcr. unfold key_owner. rewrite Hk. apply (si_keyed _ _ _ HS cr Hcr).
    + unfold keys_functional. rewrite Hk. exact (si_fun _ _ _ HS).
    + intros cr Hcr. rewrite <- Hst' in Hcr. cbn [x_w] in Hcr. apply (si_sound _ _ _ HS cr Hcr).
    + intros v k Hin. rewrite <- Hst' in Hin. cbn [x_status] in Hin. apply in_app_or in Hin.
      destruct Hin as [Hin|[Hin|[]]]; [apply (si_noimp _ _ _ HS v k Hin)|discriminate].
    + intros v Hv. assert (Hv0 : memN v (x_p1 st) = true) by (rewrite <- Hst' in Hv; exact Hv).
      destruct (si_p1 _ _ _ HS v Hv0) as [H1 [H2 H3]].
      assert (Hne : v <> w) by (intros ->; congruence).
      split; [rewrite (Hstat v Hne); exact H1|]. rewrite <- Hst'. split; cbn [x_balrow x_ugame]; [|exact H3].
      rewrite memN_app, H2. cbn. rewrite orb_false_r. apply N.eqb_neq. assumption.
    + rewrite Hk. exact (si_issued _ _ _ HS).
  - destruct HR as [Hsy HR]. split; [rewrite <- Hst'; exact Hsy|].
    assert (Hcs : credits (x_w st') = credits (x_w st)) by (rewrite <- Hst'; reflexivity).
    assert (Hbr : x_brecs st' = x_brecs st) by (rewrite <- Hst'; reflexivity).
    rewrite Hcs, Hbr.
    apply (Rep_own_ext p (ready_own st) (ready_own st') (is_ready st) (is_ready st')); [| |exact HR].
    + intros b t o _ _ _. unfold ready_own, key_owner. rewrite Hk. fold (key_owner st).
      destruct (key_owner st (o_sh o)) as [v|] eqn:Hko; [|reflexivity].
      assert (Hne : v <> w) by (intros ->; apply (Hkw _ Hko)).
      unfold is_ready. rewrite (Hstat v Hne). reflexivity.
    + intros cr Hcr. unfold is_ready. rewrite (Hstat _ (Hcw cr Hcr)). reflexivity.
Qed.

Lemma new_address_keeps : forall st sh w c1 c2 f,
  StInv U S st -> XRep p st c1 c2 f -> incl (c1 ++ c2) U ->
  ~ In sh S -> (forall b, In b U -> ~ pays b sh) ->
  StInv U (S ++ [sh]) (new_address st sh w) /\ XRep p (new_address st sh w) c1 c2 f.
Proof.
  intros st sh w c1 c2 f HS HR HcU Hfresh Hunpaid.
  set (st' := new_address st sh w).
  assert (Hnk : lookupN (x_keys st) sh = None).
  { apply lookupN_notin_none. intros Hin. apply Hfresh. apply (si_issued _ _ _ HS). assumption. }
  assert (Hko : forall sh', sh' <> sh -> key_owner st' sh' = key_owner st sh').
  { intros sh' Hne. unfold key_owner, st', new_address. cbn [x_keys]. apply lookupN_app_other. assumption. }
  assert (Hst : x_status st' = x_status st) by reflexivity.
  assert (Hsound_sh : forall cr, credit_sound U cr -> c_sh cr <> sh).
  { intros cr [t [o [Ht [_ [Hn [Hosh _]]]]]] Heq. apply in_chain_txs in Ht. destruct Ht as [b [Hb Ht]].
    apply (Hunpaid b Hb). exists t, o. split; [assumption|split; [apply (nth_error_In _ _ Hn)|congruence]]. }
  split.
  - constructor.
    + intros cr Hcr. change (credits (x_w st')) with (credits (x_w st)) in Hcr.
      rewrite (Hko _ (Hsound_sh cr (si_sound _ _ _ HS cr Hcr))). apply (si_keyed _ _ _ HS cr Hcr).
    + unfold keys_functional, st', new_address. cbn [x_keys]. rewrite map_app. cbn [map fst].
      apply NoDup_app_intro; [exact (si_fun _ _ _ HS)|constructor; [intros []|constructor]|].
      intros x Hx [Hx'|[]]. subst x. apply Hfresh. apply (si_issued _ _ _ HS). assumption.
    + exact (si_sound _ _ _ HS).
    + exact (si_noimp _ _ _ HS).
    + exact (si_p1 _ _ _ HS).
    + unfold st', new_address. cbn [x_keys]. rewrite map_app. cbn [map fst].
      apply incl_app; [apply incl_appl; exact (si_issued _ _ _ HS)|apply incl_appr; apply incl_refl].
  - destruct HR as [Hsy HR]. split; [exact Hsy|].
    change (credits (x_w st')) with (credits (x_w st)). change (x_brecs st') with (x_brecs st).
    apply (Rep_own_ext p (ready_own st) (ready_own st') (is_ready st) (is_ready st')); [| |exact HR].
    + intros b t o Hb Ht Ho.
      assert (Hne : o_sh o <> sh).
      { intros Heq. apply (Hunpaid b (HcU b Hb)). exists t, o. tauto. }
      unfold ready_own. rewrite (Hko _ Hne). rewrite (is_ready_eq st st' Hst). reflexivity.
    + intros cr _. rewrite (is_ready_eq st st' Hst). reflexivity.
Qed.

End Manage.

(* ---------------------------------------------------------------- a phase 2 round *)

Section Round.
Variable fx : fixes.
Hypothesis Hfx_rm : f_removable fx = true.
Variable p : params.
Variable U : list block.
Variable S : list N.
Hypothesis U_txs : GU U.

Lemma repair_keeps : forall st shs n lookup hot brs h t,
  listed_at brs h t = true ->
  (forall tx0, lookup t = Some tx0 -> removable fx st shs n tx0 = false) ->
  listed_at (repair fx st shs n lookup brs hot) h t = true.
Proof.
  intros st shs n lookup hot. induction hot as [|[t0 h0] r IH]; intros brs h t Hl Hrem; [exact Hl|].
  cbn [repair]. apply IH; [|exact Hrem].
  destruct (listed_at brs h0 t0); [|exact Hl].
  destruct (lookup t0) as [tx0|] eqn:Hlk; [|exact Hl].
  destruct (removable fx st shs n tx0) eqn:Hr; [|exact Hl].
  rewrite listed_at_drop_tx_other; [exact Hl|].
  destruct (Z.eq_dec h h0) as [Hh|Hh]; [|left; exact Hh].
  destruct (N.eq_dec t t0) as [Ht|Ht]; [|right; exact Ht].
  exfalso. subst t0. rewrite (Hrem tx0 Hlk) in Hr. discriminate.
Qed.

Lemma removable_false_out : forall st shs n tx0 o,
  In o (t_outs tx0) -> o_class o <> CUnsupported -> memN (o_sh o) shs = false ->
  is_some (key_owner st (o_sh o)) = true -> removable fx st shs n tx0 = false.
Proof.
  intros st shs n tx0 o Hin Hc Hm Hk. unfold removable. apply andb_false_iff. right.
  apply (forallb_false_intro _ _ _ o Hin). rewrite Hm, Hk. destruct (o_class o); try reflexivity. contradiction.
Qed.

(* the spender of a coin whose credit row the store holds: kept whatever the node's chain is (repaired:
   f_removable_debit) *)
Lemma removable_false_in_db : forall st shs n tx0 op c,
  f_removable_debit fx = true ->
  t_cb tx0 = false -> In op (t_ins tx0) -> In c (credits (x_w st)) -> c_tx c = fst op -> c_vout c = snd op ->
  memN (c_sh c) shs = false -> is_some (key_owner st (c_sh c)) = true ->
  removable fx st shs n tx0 = false.
Proof.
  intros st shs n tx0 op c Hdb Hcb Hin Hc Ht Hv Hm Hk. unfold removable. apply andb_false_iff. left.
  rewrite Hfx_rm, Hdb. cbn [andb]. apply negb_false_iff. unfold spends_other_db. rewrite Hcb. cbn [negb andb].
  apply existsb_exists. exists op. split; [assumption|]. apply existsb_exists. exists c. split; [assumption|].
  rewrite Ht, Hv, !N.eqb_refl, Hm, Hk. reflexivity.
Qed.

Lemma removable_false_in : forall st shs n tx0 op pt o,
  t_cb tx0 = false -> In op (t_ins tx0) -> node_tx n (fst op) = Some pt ->
  nth_error (t_outs pt) (N.to_nat (snd op)) = Some o ->
  o_class o <> CUnsupported -> memN (o_sh o) shs = false -> is_some (key_owner st (o_sh o)) = true ->
  (exists c, In c (credits (x_w st)) /\ c_tx c = fst op /\ c_vout c = snd op /\ c_sh c = o_sh o) ->
  removable fx st shs n tx0 = false.
Proof.
  intros st shs n tx0 op pt o Hcb Hin Hnt Hnth Hc Hm Hk [c [Hcin [Hct [Hcv Hcs]]]].
  destruct (f_removable_debit fx) eqn:Hdb.
  { apply (removable_false_in_db st shs n tx0 op c Hdb Hcb Hin Hcin Hct Hcv); rewrite Hcs; assumption. }
  unfold removable. apply andb_false_iff. left.
  rewrite Hfx_rm, Hdb. cbn [andb]. apply negb_false_iff. unfold spends_other. rewrite Hcb. cbn [negb andb].
  apply existsb_exists. exists op. split; [assumption|]. rewrite Hnt, Hnth, Hm, Hk.
  destruct (o_class o); try reflexivity. contradiction.
Qed.

(* a coin of the represented chain that belongs to a selected wallet has its credit row in the store *)
Lemma Rep_coin_credit : forall own keepw cs brs c1 c2 f k,
  Rep p own keepw cs brs c1 c2 f -> In k (coins_l own (ptxs (c1 ++ c2))) ->
  In (mk_credit p k (f (coin_op k))) cs.
Proof.
  intros own keepw cs brs c1 c2 f k HR Hk.
  assert (H : In (mk_credit p k (f (coin_op k))) (kept keepw cs)).
  { rewrite (rp_credits _ _ _ _ _ _ _ _ HR). unfold mkE. apply in_map_iff. exists k. split; [reflexivity|assumption]. }
  unfold kept in H. apply filter_In in H. tauto.
Qed.

(* the round keeps the invariants when the spender of a represented coin is kept: repaired
   (f_removable_debit) because the store holds the coin's credit row, whatever the node's chain is;
   before that repair only while the coin's block [c1] is on the node's chain *)
Lemma round_keeps_gen : forall cap n lookup st w c1 c2 f,
  (forall t tx0, lookup t = Some tx0 -> In tx0 (chain_txs U) /\ t_id tx0 = t) ->
  f_removable_debit fx = true \/ (wf_chain n /\ exists n2, n = c1 ++ n2) ->
  StInv U S st -> XRep p st c1 c2 f -> incl (c1 ++ c2) U ->
  StInv U S (fst (remove_round fx cap n lookup st w)) /\
  XRep p (fst (remove_round fx cap n lookup st w)) c1 c2 f.
Proof.
  intros cap n lookup st w c1 c2 f Hlookup Hnode HS HR HcU.
  unfold remove_round.
  destruct (status_of st w) as [[|k|]|] eqn:Hs; try (split; assumption).
  destruct (memN w (x_p1 st)) eqn:Hp1; [|split; assumption].
  set (shs := sh_of_wallet st w).
  set (cs := credits (x_w st)).
  destruct (match shs with [] => (cs, [], true) | _ => rm_credits shs cap cs 0 [] end) as [[keptl hot] fin] eqn:Hrm.
  set (brs' := repair fx st shs n lookup (x_brecs st) hot).
  assert (Hrw : is_ready st w = false). { unfold is_ready. rewrite Hs. reflexivity. }
  pose proof (si_keyed _ _ _ HS) as Hkeyed. pose proof (si_fun _ _ _ HS) as Hfun.
  (* F1 *)
  assert (Hincl : incl keptl cs).
  { destruct shs as [|s0 sr]; [inversion Hrm; apply incl_refl|]. apply (rm_credits_incl _ _ _ _ _ _ _ _ Hrm). }
  (* ready wallets' credits carry none of w's script hashes *)
  assert (Hnotshs : forall c, In c cs -> is_ready st (c_wallet c) = true -> memN (c_sh c) shs = false).
  { intros c Hc Hr. apply (other_wallet_other_hash st w (c_wallet c) c Hkeyed Hfun Hc eq_refl).
    intros Heq. rewrite Heq in Hr. congruence. }
  (* F2 *)
  assert (Hkept : kept (is_ready st) keptl = kept (is_ready st) cs).
  { destruct shs as [|s0 sr] eqn:Hshs; [inversion Hrm; reflexivity|].
    pose proof (rm_credits_others _ _ _ _ _ _ _ _ Hrm) as Ho. unfold kept.
    rewrite <- (filter_filter_sub _ (keepc (is_ready st)) (fun c => negb (memN (c_sh c) (s0 :: sr))) keptl).
    - rewrite Ho. apply filter_filter_sub. intros c Hc Hk. rewrite (Hnotshs c Hc Hk). reflexivity.
    - intros c Hc Hk. rewrite (Hnotshs c (Hincl c Hc) Hk). reflexivity. }
  (* F3 *)
  assert (Hfin : fin = true -> forall c, In c keptl -> c_wallet c <> w).
  { intros Hf c Hc Heq. subst fin.
    assert (Hm : memN (c_sh c) shs = true).
    { apply key_owner_in_sh. rewrite <- Heq. apply Hkeyed. apply Hincl. assumption. }
    destruct shs as [|s0 sr] eqn:Hshs; [discriminate|].
    rewrite (rm_credits_finished _ _ _ _ _ _ _ Hrm c Hc) in Hm. discriminate. }
  (* an output paying a ready wallet blocks the removal of its transaction *)
  assert (Hready_out : forall o v, ready_own st (o_sh o) = Some v ->
            memN (o_sh o) shs = false /\ is_some (key_owner st (o_sh o)) = true).
  { intros o v Hv. apply ready_own_some in Hv. destruct Hv as [Hko Hrd]. split; [|rewrite Hko; reflexivity].
    apply memN_false. intros Hin. destruct (in_sh_of_wallet _ _ _ Hin) as [v' [Hin' Hv']]. subst v'.
    apply lookupN_in in Hko. pose proof (nodup_fst_inj _ _ _ _ _ Hfun Hko Hin') as Heq. subst v. congruence. }
  destruct HR as [Hsy HR].
  (* the representation over the old owner function *)
  assert (HR1 : Rep p (ready_own st) (is_ready st) keptl brs' c1 c2 f).
  { apply (Rep_brs p _ _ cs keptl (x_brecs st) brs' c1 c2 f Hkept); [| |exact HR].
    - intros k Hk Hl. apply repair_keeps; [exact Hl|]. intros tx0 Hlk.
      apply Hlookup in Hlk. destruct Hlk as [Htx0 Hid0].
      destruct (coins_l_in_full _ _ _ Hk) as [x [o [Hx [Htx [_ [_ [Hnth [Ho [Hc _]]]]]]]]].
      destruct (in_ptxs _ _ Hx) as [b [Hb [Ht _]]].
      assert (tx0 = pt_tx x).
      { apply U_txs; [assumption| |congruence]. apply in_chain_txs. exists b. split; [apply HcU|]; assumption. }
      subst tx0. destruct (Hready_out o _ Ho) as [Hm Hk'].
      apply (removable_false_out st shs n (pt_tx x) o (nth_error_In _ _ Hnth) Hc Hm Hk').
    - intros k a i hs Hk Hf Hl. apply repair_keeps; [exact Hl|]. intros tx0 Hlk.
      apply Hlookup in Hlk. destruct Hlk as [Htx0 Hid0].
      rewrite (rp_live _ _ _ _ _ _ _ _ HR k Hk) in Hf.
      apply spender_l_some_full in Hf. destruct Hf as [x [Hx [Hcb [Hop [Ha _]]]]].
      destruct (in_ptxs _ _ Hx) as [b [Hb [Ht _]]].
      assert (tx0 = pt_tx x).
      { apply U_txs; [assumption| |congruence]. apply in_chain_txs. exists b. split; [apply HcU|]; assumption. }
      subst tx0.
      destruct (coins_l_in_full _ _ _ Hk) as [x' [o [Hx' [Htx' [_ [_ [Hnth [Ho [Hc [Hksh _]]]]]]]]]].
      destruct (in_ptxs _ _ Hx') as [b' [Hb' [Ht' _]]].
      destruct (Hready_out o _ Ho) as [Hm0 Hk0].
      assert (Hcred : In (mk_credit p k (f (coin_op k))) (credits (x_w st))).
      { apply (Rep_coin_credit _ _ _ _ _ _ _ k HR). apply coins_l_prefix_in. exact Hk. }
      destruct Hnode as [Hdb|[Hwfn [n2 Hn]]].
      { apply (removable_false_in_db st shs n (pt_tx x) (coin_op k) (mk_credit p k (f (coin_op k))) Hdb Hcb Hop Hcred);
          cbn [mk_credit c_tx c_vout c_sh coin_op fst snd]; try reflexivity; rewrite Hksh; assumption. }
      assert (Hnt : node_tx n (fst (coin_op k)) = Some (pt_tx x')).
      { unfold coin_op. cbn [fst]. rewrite Htx'. apply node_tx_found; [assumption|].
        apply in_chain_txs. exists b'. split; [|assumption]. rewrite Hn. apply in_or_app. left. assumption. }
      destruct (Hready_out o _ Ho) as [Hm Hk'].
      apply (removable_false_in st shs n (pt_tx x) (coin_op k) (pt_tx x') o Hcb Hop Hnt Hnth Hc Hm Hk').
      exists (mk_credit p k (f (coin_op k))). split; [exact Hcred|cbn [mk_credit c_tx c_vout c_sh coin_op fst snd]; tauto]. }
  destruct fin; cbn [fst].
  - (* the last round: status, passphrase and keystore go *)
    set (st' := {| x_w := {| credits := keptl; synced := synced (x_w st) |};
                   x_keys := filter (fun e => negb (snd e =? w)%N) (x_keys st);
                   x_pass := delN (x_pass st) w; x_status := delN (x_status st) w; x_brecs := brs';
                   x_balrow := x_balrow st; x_ugame := x_ugame st; x_dead := x_dead st; x_p1 := remN w (x_p1 st) |}).
    assert (Hstat : forall v, v <> w -> status_of st' v = status_of st v).
    { intros v Hne. unfold status_of, st'. cbn [x_status]. apply lookupN_delN_other. assumption. }
    assert (Hstatw : status_of st' w = None).
    { unfold status_of, st'. cbn [x_status]. apply lookupN_delN. }
    assert (Hrd : forall v, is_ready st' v = is_ready st v).
    { intros v. unfold is_ready. destruct (N.eq_dec v w) as [->|Hne].
      - rewrite Hstatw, Hs. reflexivity.
      - rewrite (Hstat v Hne). reflexivity. }
    assert (Hko_other : forall sh v, key_owner st sh = Some v -> v <> w -> key_owner st' sh = Some v).
    { intros sh v Hk Hne. unfold key_owner, st'. cbn [x_keys]. apply lookupN_filter_snd; assumption. }
    assert (Hown : forall sh, ready_own st' sh = ready_own st sh).
    { intros sh. unfold ready_own. destruct (key_owner st sh) as [v|] eqn:Hko.
      - destruct (N.eq_dec v w) as [->|Hne].
        + rewrite Hrw.
          assert (Hnone : key_owner st' sh = None).
          { unfold key_owner, st'. cbn [x_keys]. apply lookupN_filter_none; [exact Hfun|].
            intros v Hv. unfold key_owner in Hko. rewrite Hko in Hv. inversion Hv. subst v. cbn [snd].
            rewrite N.eqb_refl. reflexivity. }
          rewrite Hnone. reflexivity.
        + rewrite (Hko_other sh v Hko Hne). rewrite Hrd. reflexivity.
      - assert (Hnone : key_owner st' sh = None).
        { unfold key_owner, st'. cbn [x_keys]. apply lookupN_filter_none; [exact Hfun|].
          intros v Hv. unfold key_owner in Hko. rewrite Hko in Hv. discriminate. }
        rewrite Hnone. reflexivity. }
    split.
    + constructor.
      * intros cr Hcr. cbn [st' x_w credits] in Hcr. apply Hko_other; [apply Hkeyed; apply Hincl; assumption|].
        apply (Hfin eq_refl cr Hcr).
      * unfold keys_functional, st'. cbn [x_keys]. apply NoDup_map_filter. exact Hfun.
      * intros cr Hcr. cbn [st' x_w credits] in Hcr. apply (si_sound _ _ _ HS cr (Hincl cr Hcr)).
      * intros v k Hin. cbn [st' x_status] in Hin. unfold delN in Hin. apply filter_In in Hin.
        apply (si_noimp _ _ _ HS v k). tauto.
      * intros v Hv. cbn [st' x_p1] in Hv. apply memN_true in Hv. unfold remN in Hv. apply filter_In in Hv.
        destruct Hv as [Hv Hne]. apply negb_true_iff in Hne. apply N.eqb_neq in Hne.
        destruct (si_p1 _ _ _ HS v (proj2 (memN_true v _) Hv)) as [H1 H2].
        split; [rewrite (Hstat v Hne); exact H1|exact H2].
      * intros sh Hsh. cbn [st' x_keys] in Hsh. apply (si_issued _ _ _ HS). apply in_map_iff in Hsh.
        destruct Hsh as [e [He Hin]]. apply filter_In in Hin. apply in_map_iff. exists e. tauto.
    + split; [exact Hsy|]. cbn [st' x_w credits x_brecs].
      apply (Rep_own_ext p (ready_own st) (ready_own st') (is_ready st) (is_ready st')); [| |exact HR1].
      * intros b t o _ _ _. symmetry. apply Hown.
      * intros cr _. symmetry. apply Hrd.
  - (* more rounds to come *)
    set (st' := {| x_w := {| credits := keptl; synced := synced (x_w st) |};
                   x_keys := x_keys st; x_pass := x_pass st; x_status := x_status st; x_brecs := brs';
                   x_balrow := x_balrow st; x_ugame := x_ugame st; x_dead := x_dead st; x_p1 := x_p1 st |}).
    split.
    + constructor.
      * intros cr Hcr. cbn [st' x_w credits] in Hcr. apply (Hkeyed cr (Hincl cr Hcr)).
      * exact Hfun.
      * intros cr Hcr. cbn [st' x_w credits] in Hcr. apply (si_sound _ _ _ HS cr (Hincl cr Hcr)).
      * exact (si_noimp _ _ _ HS).
      * exact (si_p1 _ _ _ HS).
      * exact (si_issued _ _ _ HS).
    + split; [exact Hsy|]. exact HR1.
Qed.

Lemma round_keeps : forall cap n st w c1 c2 n2 f,
  StInv U S st -> XRep p st c1 c2 f ->
  wf_chain n -> incl n U -> n = c1 ++ n2 -> incl (c1 ++ c2) U ->
  StInv U S (fst (remove_round fx cap n (find_tx (chain_txs U)) st w)) /\
  XRep p (fst (remove_round fx cap n (find_tx (chain_txs U)) st w)) c1 c2 f.
Proof.
  intros cap n st w c1 c2 n2 f HS HR Hwfn HnU Hn HcU.
  apply round_keeps_gen; try assumption.
  - intros t tx0 H. apply find_tx_some in H. exact H.
  - right. split; [assumption|]. exists n2. assumption.
Qed.

End Round.
