(* Ledger/Proofs4.v — C01, part 4: histories (T4).  Invariant: at every point of a well-formed
   history the wallet's ledger is [L] of SOME well-formed chain from the same genesis made of
   blocks of the history; a failed [process] changes nothing, a successful one moves the ledger to
   the node's chain up to the announced block, or back to a prefix of the wallet's own chain. *)
From Coq Require Import List ZArith NArith Bool Lia.
Import ListNotations.
Open Scope Z_scope.
Require Import MW.Ledger.Model MW.Ledger.Spec MW.Ledger.Run MW.Ledger.WF.
Require Import MW.Ledger.Proofs MW.Ledger.Proofs2 MW.Ledger.Proofs3.

(* ---------------------------------------------------------------- what a successful process did *)

Lemma connect_all_ok_in : forall p a own cm n bs st st',
  connect_all p a own cm n st bs = Ok st' ->
  forall y, In y bs -> exists nb, In nb n /\ b_id nb = b_id y.
Proof.
  intros p a own cm n bs. induction bs as [|x bs IH]; intros st st' H y Hy.
  - destruct Hy.
  - cbn [connect_all] in H. destruct (node_at n (b_height x)) as [nb|] eqn:Hat; [|discriminate].
    destruct (b_id nb =? b_id x)%N eqn:Hid; cbn [negb] in H; [|discriminate].
    destruct (connect_block p a own cm (node_tx n) st x) as [st1|] eqn:Hcb; [|discriminate].
    destruct Hy as [Hy|Hy].
    + subst y. exists nb. split.
      * unfold node_at in Hat. apply find_some in Hat. tauto.
      * apply N.eqb_eq. assumption.
    + apply (IH _ _ H y Hy).
Qed.

Lemma collect_suffix : forall n st fuel x acc f bs,
  collect n st fuel x acc = Some (f, bs) -> exists pre, bs = pre ++ acc.
Proof.
  intros n st fuel. induction fuel as [|k IH]; intros x acc f bs H.
  - discriminate.
  - cbn [collect] in H. fold (matched st x) in H. destruct (matched st x).
    + inversion H. exists []. reflexivity.
    + destruct (node_block n (b_prev x)) as [pb|]; [|discriminate].
      destruct (IH _ _ _ _ H) as [pre Hpre]. exists (pre ++ [x]). rewrite <- app_assoc. exact Hpre.
Qed.

Lemma collect_cases : forall n st fuel x acc f bs,
  collect n st fuel x acc = Some (f, bs) ->
  (matched st x = true /\ f = b_height x /\ bs = acc) \/ In x bs.
Proof.
  intros n st fuel x acc f bs H. destruct fuel as [|k]; [discriminate|].
  cbn [collect] in H. fold (matched st x) in H. destruct (matched st x).
  - left. inversion H. tauto.
  - right. destruct (node_block n (b_prev x)) as [pb|]; [|discriminate].
    destruct (collect_suffix _ _ _ _ _ _ _ H) as [pre Hpre]. rewrite Hpre.
    apply in_or_app. right. left. reflexivity.
Qed.

Lemma rollback_at : forall p own c c1 y c2 pv,
  linked pv 0 c -> c = c1 ++ y :: c2 -> rollback_to (L p own c) (b_height y + 1) = L p own (c1 ++ [y]).
Proof.
  intros p own c c1 y c2 pv Hl Hc.
  assert (Hc' : c = (c1 ++ [y]) ++ c2). { rewrite Hc, <- app_assoc. reflexivity. }
  rewrite Hc' in Hl. destruct (linked_heights_split _ _ _ Hl) as [H1 H2].
  assert (Hh : b_height y + 1 = Z.of_nat (length (c1 ++ [y]))).
  { rewrite <- app_assoc in Hl. cbn [app] in Hl. rewrite (linked_height _ _ _ _ _ Hl).
    rewrite app_length. cbn [length]. lia. }
  rewrite Hc'. apply rollback_L; rewrite Hh; assumption.
Qed.

Lemma removelast_in : forall (A : Type) (l : list A) x, In x (removelast l) -> In x l.
Proof.
  intros A l. induction l as [|a l IH]; intros x H.
  - destruct H.
  - cbn [removelast] in H. destruct l as [|b l]; [destruct H|].
    destruct H as [H|H]; [left; assumption|right; apply IH; assumption].
Qed.

(* ---------------------------------------------------------------- the invariant *)

Section History.
Variable p : params.
Variable g : block.
Variable ownl : list (N * N).
Variable B : list block.
Hypothesis B_ids : forall b1 b2, In b1 B -> In b2 B -> b_id b1 = b_id b2 -> b1 = b2.

Let own := own_of ownl.

Definition from_g (c : list block) : Prop := exists c', c = g :: c'.

Definition Inv (s : sim) : Prop :=
  s_own s = ownl /\ wf_chain (s_node s) /\ from_g (s_node s) /\ incl (s_node s) B /\
  exists c, wf_chain c /\ from_g c /\ incl c B /\ s_wallet s = L p own c.

Definition ok_event (e : event) : Prop :=
  (forall sh w, e <> EvOwner sh w) /\
  (forall b, e = EvAttach b \/ e = EvProcess b -> In b B) /\
  e <> EvProcess g.

Lemma ids_agree_B : forall c n, incl c B -> incl n B -> ids_agree c n.
Proof. intros c n Hc Hn b1 b2 H1 H2 Hid. apply B_ids; [apply Hc|apply Hn|]; assumption. Qed.

Lemma same_genesis_from_g : forall c n, from_g c -> from_g n -> same_genesis c n.
Proof. intros c n [c' Hc] [n' Hn]. exists g, c', n'. split; assumption. Qed.

Lemma process_ok_L : forall n c b st',
  wf_chain n -> from_g n -> incl n B -> wf_chain c -> from_g c -> incl c B ->
  In b B -> b <> g ->
  process p true own n (L p own c) b = Ok st' ->
  exists c', wf_chain c' /\ from_g c' /\ incl c' B /\ (incl c' n \/ incl c' c) /\ st' = L p own c'.
Proof.
  intros n c b st' Hwfn Hgn HnB Hwfc Hgc HcB HbB Hbg Hproc.
  assert (Hon_node : forall nb, In nb n -> b_id nb = b_id b -> In b n).
  { intros nb Hin Hid. rewrite <- (B_ids nb b (HnB _ Hin) HbB Hid). assumption. }
  destruct (wf_linked _ Hwfc) as [pvc Hlc].
  (* the two outcomes *)
  assert (Hcases : In b n \/ exists c1 c2, c = c1 ++ b :: c2 /\ st' = L p own (c1 ++ [b])).
  { pose proof Hproc as Hproc'. unfold process in Hproc'.
    destruct (snd (tip (L p own c)) =? b_prev b)%N.
    - left. destruct (connect_all_ok_in _ _ _ _ _ _ _ _ Hproc' b (or_introl eq_refl)) as [nb [Hin Hid]].
      apply (Hon_node nb Hin Hid).
    - destruct (collect n (L p own c) (S (Z.to_nat (b_height b))) b []) as [[f bs]|] eqn:Hcol; [|discriminate].
      destruct (collect_cases _ _ _ _ _ _ _ Hcol) as [[Hm [Hf Hbs]]|Hin].
      + right. subst f bs. cbn [connect_all] in Hproc'. inversion Hproc' as [Hst]. clear Hproc'.
        assert (Hbc : In b c).
        { apply (matched_in p own c [b] b); [|left; reflexivity|assumption].
          apply ids_agree_B; [assumption|]. intros z [Hz|[]]. subst z. assumption. }
        apply in_split in Hbc. destruct Hbc as [c1 [c2 Hc]]. exists c1, c2. split; [assumption|].
        apply (rollback_at p own c c1 b c2 pvc Hlc Hc).
      + left. destruct (connect_all_ok_in _ _ _ _ _ _ _ _ Hproc' b Hin) as [nb [Hin' Hid]].
        apply (Hon_node nb Hin' Hid). }
  destruct Hcases as [Hbn|[c1 [c2 [Hc Hst]]]].
  - apply in_split in Hbn. destruct Hbn as [n1 [n2 Hn]].
    assert (Hne : n1 <> []).
    { intros Hnil. subst n1. destruct Hgn as [n' Hn']. rewrite Hn in Hn'. cbn [app] in Hn'.
      inversion Hn'. contradiction. }
    rewrite (process_reorg_gen p own n c b n1 n2 Hwfn Hwfc (same_genesis_from_g _ _ Hgc Hgn)
               (ids_agree_B _ _ HcB HnB) Hn Hne) in Hproc.
    inversion Hproc as [Hst]. exists (n1 ++ [b]).
    assert (Hn' : n = (n1 ++ [b]) ++ n2). { rewrite Hn, <- app_assoc. reflexivity. }
    split; [|split; [|split; [|split]]].
    + rewrite Hn' in Hwfn. apply (wf_chain_prefix _ _ Hwfn). destruct n1; discriminate.
    + destruct Hgn as [n' Hgn]. rewrite Hn in Hgn. destruct n1 as [|z n1']; [contradiction|].
      cbn [app] in Hgn. inversion Hgn. exists (n1' ++ [b]). reflexivity.
    + intros z Hz. apply HnB. rewrite Hn'. apply in_or_app. left. assumption.
    + left. intros z Hz. rewrite Hn'. apply in_or_app. left. assumption.
    + reflexivity.
  - exists (c1 ++ [b]).
    assert (Hc' : c = (c1 ++ [b]) ++ c2). { rewrite Hc, <- app_assoc. reflexivity. }
    split; [|split; [|split; [|split]]].
    + rewrite Hc' in Hwfc. apply (wf_chain_prefix _ _ Hwfc). destruct c1; discriminate.
    + destruct Hgc as [c' Hgc]. rewrite Hc in Hgc. destruct c1 as [|z c1'].
      * cbn [app] in Hgc. inversion Hgc. contradiction.
      * cbn [app] in Hgc. inversion Hgc. exists (c1' ++ [b]). reflexivity.
    + intros z Hz. apply HcB. rewrite Hc'. apply in_or_app. left. assumption.
    + right. intros z Hz. rewrite Hc'. apply in_or_app. left. assumption.
    + assumption.
Qed.

Lemma Inv_step : forall s e,
  Inv s -> ok_event e -> wf_chain (s_node (step p true s e)) -> Inv (step p true s e).
Proof.
  intros s e [Hown [Hwfn [Hgn [HnB [c [Hwfc [Hgc [HcB Hst]]]]]]]] [Hno [HeB Hng]] Hwf'.
  destruct e as [sh w|b| |b|w].
  - exfalso. apply (Hno sh w). reflexivity.
  - (* attach *)
    cbn [step s_node s_wallet s_own] in *. unfold Inv. cbn [s_node s_wallet s_own].
    split; [assumption|split; [assumption|split; [|split]]].
    + destruct Hgn as [n' Hn]. exists (n' ++ [b]). rewrite Hn. reflexivity.
    + intros z Hz. apply in_app_or in Hz. destruct Hz as [Hz|[Hz|[]]].
      * apply HnB. assumption.
      * subst z. apply HeB. left. reflexivity.
    + exists c. tauto.
  - (* detach *)
    cbn [step s_node s_wallet s_own] in *. unfold Inv. cbn [s_node s_wallet s_own].
    split; [assumption|split; [assumption|split; [|split]]].
    + destruct Hgn as [n' Hn]. rewrite Hn in *. destruct n' as [|z n'].
      * exfalso. cbn in Hwf'. apply (wf_nonempty _ Hwf'). reflexivity.
      * exists (removelast (z :: n')). reflexivity.
    + intros z Hz. apply HnB. apply removelast_in. assumption.
    + exists c. tauto.
  - (* process *)
    cbn [step s_node s_wallet s_own] in *. unfold Inv. cbn [s_node s_wallet s_own].
    split; [assumption|split; [assumption|split; [assumption|split; [assumption|]]]].
    unfold process_or_keep. rewrite Hown. fold own.
    destruct (process p true own (s_node s) (s_wallet s) b) as [st'|err] eqn:Hproc.
    + rewrite Hst in Hproc.
      destruct (process_ok_L (s_node s) c b st') as [c' [H1 [H2 [H3 [_ H4]]]]]; try assumption.
      * apply HeB. right. reflexivity.
      * intros Hbg. apply Hng. rewrite Hbg. reflexivity.
      * exists c'. tauto.
    + exists c. tauto.
  - (* query *)
    cbn [step s_node s_wallet s_own] in *. unfold Inv. cbn [s_node s_wallet s_own].
    split; [assumption|split; [assumption|split; [assumption|split; [assumption|]]]].
    exists c. tauto.
Qed.

Lemma sims_head : forall a s h, In s (sims p a s h).
Proof. intros a s h. destruct h; left; reflexivity. Qed.

Lemma Inv_run : forall post s,
  Inv s -> (forall s', In s' (sims p true s post) -> wf_chain (s_node s')) ->
  (forall e, In e post -> ok_event e) ->
  Inv (fold_left (step p true) post s).
Proof.
  induction post as [|e post IH]; intros s Hinv Hsims Hok.
  - assumption.
  - cbn [fold_left]. apply IH.
    + apply Inv_step; [assumption|apply Hok; left; reflexivity|].
      apply Hsims. cbn [sims]. right. apply sims_head.
    + intros s' Hs'. apply Hsims. cbn [sims]. right. assumption.
    + intros e' He'. apply Hok. right. assumption.
Qed.

End History.

(* ---------------------------------------------------------------- histories *)

Lemma sims_app_in : forall p a h1 h2 s s',
  In s' (sims p a (fold_left (step p a) h1 s) h2) -> In s' (sims p a s (h1 ++ h2)).
Proof.
  intros p a h1. induction h1 as [|e h1 IH]; intros h2 s s' H.
  - exact H.
  - cbn [app sims]. right. apply IH. exact H.
Qed.

Lemma sims_prefix_in : forall p a h1 h2 s s',
  In s' (sims p a s h1) -> In s' (sims p a s (h1 ++ h2)).
Proof.
  intros p a h1. induction h1 as [|e h1 IH]; intros h2 s s' H.
  - cbn in H. destruct H as [H|[]]. subst s'. apply sims_head.
  - cbn [app sims] in *. destruct H as [H|H]; [left; assumption|right; apply IH; assumption].
Qed.

Lemma sims_fold_in : forall p a h1 h2 s, In (fold_left (step p a) h1 s) (sims p a s (h1 ++ h2)).
Proof. intros. apply sims_app_in. apply sims_head. Qed.

Lemma node_from_g : forall p a g h s,
  from_g g (s_node s) -> (forall s', In s' (sims p a s h) -> wf_chain (s_node s')) ->
  from_g g (s_node (fold_left (step p a) h s)).
Proof.
  intros p a g h. induction h as [|e h IH]; intros s Hg Hsims.
  - assumption.
  - cbn [fold_left]. apply IH.
    + assert (Hwf' : wf_chain (s_node (step p a s e))).
      { apply Hsims. cbn [sims]. right. apply sims_head. }
      destruct Hg as [n' Hn]. destruct e as [sh w|b| |b|w]; cbn [step s_node] in *.
      * exists n'. assumption.
      * exists (n' ++ [b]). rewrite Hn. reflexivity.
      * rewrite Hn in *. destruct n' as [|z n'].
        -- exfalso. cbn in Hwf'. apply (wf_nonempty _ Hwf'). reflexivity.
        -- exists (removelast (z :: n')). reflexivity.
      * exists n'. assumption.
      * exists n'. assumption.
    + intros s' Hs'. apply Hsims. cbn [sims]. right. assumption.
Qed.

Lemma no_attach_genesis : forall p a g h,
  (forall s, In s (sims p a (init_sim g) h) -> wf_chain (s_node s)) -> ~ In (EvAttach g) h.
Proof.
  intros p a g h Hsims Hin. apply in_split in Hin. destruct Hin as [h1 [h2 Hh]].
  assert (Hg1 : from_g g (s_node (fold_left (step p a) h1 (init_sim g)))).
  { apply node_from_g.
    - exists []. reflexivity.
    - intros s' Hs'. apply Hsims. rewrite Hh. apply sims_prefix_in. assumption. }
  assert (Hwf : wf_chain (s_node (fold_left (step p a) (h1 ++ [EvAttach g]) (init_sim g)))).
  { apply Hsims. rewrite Hh. change (EvAttach g :: h2) with ([EvAttach g] ++ h2). rewrite app_assoc.
    apply sims_fold_in. }
  rewrite fold_left_app in Hwf. cbn [fold_left step s_node] in Hwf.
  destruct Hg1 as [n' Hn]. rewrite Hn in Hwf. pose proof (wf_bids _ Hwf) as Hnd.
  cbn [app map] in Hnd. inversion Hnd as [|? ? Hnotin _]. apply Hnotin.
  rewrite map_app. apply in_or_app. right. left. reflexivity.
Qed.

Lemma run_owners : forall p a pre s,
  (forall e, In e pre -> exists sh w, e = EvOwner sh w) ->
  s_node (fold_left (step p a) pre s) = s_node s /\ s_wallet (fold_left (step p a) pre s) = s_wallet s.
Proof.
  intros p a pre. induction pre as [|e pre IH]; intros s Hpre.
  - split; reflexivity.
  - destruct (Hpre e (or_introl eq_refl)) as [sh [w He]]. subst e. cbn [fold_left].
    destruct (IH (step p a s (EvOwner sh w))) as [H1 H2].
    + intros e He. apply Hpre. right. assumption.
    + rewrite H1, H2. split; reflexivity.
Qed.

Lemma blocks_of_history_in : forall h e b,
  In e h -> e = EvAttach b \/ e = EvProcess b -> In b (blocks_of_history h).
Proof.
  intros h e b He Hb. unfold blocks_of_history. apply in_flat_map. exists e. split; [assumption|].
  destruct Hb as [Hb|Hb]; subst e; left; reflexivity.
Qed.

(* the invariant holds after every prefix [pre ++ q] of a well-formed history [pre ++ q ++ r] *)
Lemma history_invariant : forall p g hf pre post,
  wf_history p true g hf -> hf = pre ++ post ->
  (forall e, In e pre -> exists sh w, e = EvOwner sh w) ->
  (forall e, In e post -> forall sh w, e <> EvOwner sh w) ->
  let s1 := fold_left (step p true) pre (init_sim g) in
  let B := g :: blocks_of_history hf in
  (forall e, In e post -> ok_event g B e) /\
  forall q r, post = q ++ r -> Inv p g (s_own s1) B (fold_left (step p true) q s1).
Proof.
  intros p g hf pre post Hwf Hsplit Hpre Hpost s1 B.
  pose proof (wfh_chain _ _ _ _ Hwf) as Hsims.
  pose proof (wfh_blockids _ _ _ _ Hwf) as Hids. fold B in Hids.
  assert (Hnog : ~ In (EvAttach g) hf). { apply (no_attach_genesis p true g hf Hsims). }
  assert (Hok : forall e, In e post -> ok_event g B e).
  { intros e He. assert (Hehf : In e hf). { rewrite Hsplit. apply in_or_app. right. assumption. }
    split; [|split].
    - apply Hpost. assumption.
    - intros b' Hb'. right. apply (blocks_of_history_in hf e b' Hehf Hb').
    - intros Heg. subst e. apply Hnog. apply (wfh_announced _ _ _ _ Hwf). assumption. }
  split; [assumption|].
  destruct (run_owners p true pre (init_sim g) Hpre) as [Hn1 Hw1]. fold s1 in Hn1, Hw1.
  cbn [init_sim s_node s_wallet] in Hn1, Hw1.
  assert (Hwfg : wf_chain [g]). { apply (Hsims (init_sim g)). apply sims_head. }
  assert (Hinv1 : Inv p g (s_own s1) B s1).
  { unfold Inv. rewrite Hn1, Hw1. split; [reflexivity|split; [assumption|split; [exists []; reflexivity|split]]].
    - intros z [Hz|[]]. subst z. left. reflexivity.
    - exists [g]. split; [assumption|split; [exists []; reflexivity|split]].
      + intros z [Hz|[]]. subst z. left. reflexivity.
      + destruct (wf_genesis _ Hwfg) as [g' [rest [Hc [Hh0 [Htx _]]]]]. inversion Hc. subst g' rest.
        symmetry. apply L_genesis; assumption. }
  intros q r Hq. apply (Inv_run p g (s_own s1) B Hids).
  - assumption.
  - intros s' Hs'. apply Hsims. rewrite Hsplit, Hq. apply sims_app_in. fold s1.
    apply sims_prefix_in. assumption.
  - intros e He. apply Hok. rewrite Hq. apply in_or_app. left. assumption.
Qed.

(* T4 *)
Theorem history_theorem : forall p g h b,
  wf_history p true g (h ++ [EvProcess b]) ->
  last (s_node (run p true g h)) g = b ->
  let s := run p true g (h ++ [EvProcess b]) in
  forall w, model_report (s_wallet s) w = spec_report p (own_of (s_own s)) (s_node s) w.
Proof.
  intros p g h b Hwf Hlast s w.
  destruct (wfh_owners _ _ _ _ Hwf) as [pre [post [Hsplit [Hpre Hpost]]]].
  assert (Hpost_ne : post <> []).
  { intros Hnil. subst post. rewrite app_nil_r in Hsplit.
    assert (Hin : In (EvProcess b) pre). { rewrite <- Hsplit. apply in_or_app. right. left. reflexivity. }
    destruct (Hpre _ Hin) as [sh [w' He]]. discriminate. }
  destruct (exists_last Hpost_ne) as [post' [elast Hpost']].
  assert (Hh : h = pre ++ post' /\ elast = EvProcess b).
  { rewrite Hpost', app_assoc in Hsplit. apply app_inj_tail in Hsplit.
    destruct Hsplit as [H1 H2]. split; [assumption|symmetry; assumption]. }
  destruct Hh as [Hh Hel]. subst elast.
  destruct (history_invariant p g _ pre post Hwf Hsplit Hpre Hpost) as [Hok Hinv].
  specialize (Hinv post' [EvProcess b] Hpost').
  set (s1 := fold_left (step p true) pre (init_sim g)) in *.
  set (B := g :: blocks_of_history (h ++ [EvProcess b])) in *.
  assert (Hrun_h : run p true g h = fold_left (step p true) post' s1).
  { unfold run. rewrite Hh, fold_left_app. reflexivity. }
  rewrite <- Hrun_h in Hinv.
  destruct Hinv as [Hown [Hwfn [Hgn [HnB [c [Hwfc [Hgc [HcB Hst]]]]]]]].
  assert (Hokb : ok_event g B (EvProcess b)).
  { apply Hok. rewrite Hpost'. apply in_or_app. right. left. reflexivity. }
  destruct Hokb as [_ [HbB Hng]].
  assert (Hbg : b <> g). { intros Heq. apply Hng. rewrite Heq. reflexivity. }
  (* the node's chain ends in b, which is not the genesis *)
  set (n := s_node (run p true g h)) in *.
  assert (Hnne : n <> []). { apply wf_nonempty. assumption. }
  assert (Hn : n = removelast n ++ [b]). { rewrite <- Hlast. apply app_removelast_last. assumption. }
  assert (Hn1 : removelast n <> []).
  { intros Hnil. rewrite Hnil in Hn. destruct Hgn as [n' Hgn]. rewrite Hgn in Hn. cbn [app] in Hn.
    inversion Hn. symmetry in H0. contradiction. }
  assert (Hs : s = step p true (run p true g h) (EvProcess b)).
  { unfold s, run. rewrite fold_left_app. reflexivity. }
  assert (Hids : forall b1 b2, In b1 B -> In b2 B -> b_id b1 = b_id b2 -> b1 = b2).
  { apply (wfh_blockids _ _ _ _ Hwf). }
  pose proof (process_reorg_gen p (own_of (s_own s1)) n c b (removelast n) [] Hwfn Hwfc
                (same_genesis_from_g g _ _ Hgc Hgn) (ids_agree_B B Hids _ _ HcB HnB) Hn Hn1) as Hproc.
  rewrite <- Hn in Hproc.
  rewrite Hs. cbn [step s_wallet s_own s_node]. fold n. rewrite Hown, Hst.
  unfold process_or_keep. rewrite Hproc. apply report_L. assumption.
Qed.
