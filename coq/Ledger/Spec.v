(* Ledger/Spec.v — the specification side of C01 (and of C06–C10, C12 which reuse it):
   what a chain pays to a wallet and has not spent, written directly over the chain,
   with no reference to the wallet's store.  Definitions only. *)
From Coq Require Import List ZArith NArith Bool.
Import ListNotations.
Open Scope Z_scope.
Require Import MW.Ledger.Model.

Definition chain_txs (c : list block) : list tx := flat_map b_txs c.

(* an output of the chain that pays an address of a ready wallet *)
Record coin := {
  k_tx : N; k_vout : N; k_height : Z; k_bid : N; k_amount : Z; k_sh : N; k_wallet : N;
  k_class : oclass; k_cb : bool
}.

Fixpoint coins_of_outs (own : owner_fn) (t : tx) (h : Z) (bid : N) (outs : list txout) (i : N) : list coin :=
  match outs with
  | [] => []
  | o :: rest =>
      let l := coins_of_outs own t h bid rest (i + 1)%N in
      match o_class o with
      | CUnsupported => l
      | _ => match own (o_sh o) with
             | None => l
             | Some w => {| k_tx := t_id t; k_vout := i; k_height := h; k_bid := bid; k_amount := o_val o;
                            k_sh := o_sh o; k_wallet := w; k_class := o_class o; k_cb := t_cb t |} :: l
             end
      end
  end.

Definition coins_of_block (own : owner_fn) (b : block) : list coin :=
  flat_map (fun t => coins_of_outs own t (b_height b) (b_id b) (t_outs t) 0%N) (b_txs b).

Definition coins_of_chain (own : owner_fn) (c : list block) : list coin :=
  flat_map (coins_of_block own) c.

(* some transaction of the chain spends the outpoint *)
Definition spent_in (c : list block) (op : N * N) : bool :=
  existsb (fun t => negb (t_cb t) && existsb (op_eqb op) (t_ins t)) (chain_txs c).

Definition utxo_of_chain (own : owner_fn) (c : list block) (w : N) : list coin :=
  filter (fun k => (k_wallet k =? w)%N && negb (spent_in c (k_tx k, k_vout k))) (coins_of_chain own c).

Definition balance_of_chain (own : owner_fn) (c : list block) (w : N) : Z :=
  fold_right (fun k a => k_amount k + a) 0 (utxo_of_chain own c w).

(* consensus maturity: the block at height [next] may spend the coin *)
Definition coin_maturity (p : params) (k : coin) : Z := maturity_of p (k_cb k) (k_class k).
Definition consensus_spendable (p : params) (next : Z) (k : coin) : bool :=
  coin_maturity p k <=? next - k_height k.

Definition chain_height (c : list block) : Z := Z.of_nat (length c) - 1.

Definition k_is_std (k : coin) : bool := match k_class k with CStd => true | _ => false end.
Definition k_is_staking (k : coin) : bool := match k_class k with CStaking _ => true | _ => false end.
Definition k_is_binding (k : coin) : bool := match k_class k with CBindingOld | CBindingNew => true | _ => false end.

Definition spec_sum (f : coin -> bool) (ks : list coin) : Z :=
  fold_right (fun k a => if f k then k_amount k + a else a) 0 ks.

Definition spec_spendable (p : params) (own : owner_fn) (c : list block) (w : N) : Z :=
  spec_sum (fun k => consensus_spendable p (chain_height c + 1) k && k_is_std k) (utxo_of_chain own c w).
Definition spec_wstaking (p : params) (own : owner_fn) (c : list block) (w : N) : Z :=
  spec_sum (fun k => consensus_spendable p (chain_height c + 1) k && k_is_staking k) (utxo_of_chain own c w).
Definition spec_wbinding (p : params) (own : owner_fn) (c : list block) (w : N) : Z :=
  spec_sum (fun k => consensus_spendable p (chain_height c + 1) k && k_is_binding k) (utxo_of_chain own c w).

(* well-formed chain (environment assumption E1/E4 of DESIGN appendix A) *)
Definition outpoints_created (c : list block) : list (N * N) :=
  flat_map (fun t => map (fun i => (t_id t, N.of_nat i)) (seq 0 (length (t_outs t)))) (chain_txs c).

Definition all_inputs (c : list block) : list (N * N) :=
  flat_map (fun t => if t_cb t then [] else t_ins t) (chain_txs c).
