(* Ledger/Proofs3.v — C01, part 3: announcing a block of the node to a wallet that follows any
   other well-formed chain with the same genesis makes its ledger the ledger of the node's chain
   up to that block (T3): collect finds the fork point, rollback gives the ledger of the common
   prefix, connect_all follows the node from there. *)
From Coq Require Import List ZArith NArith Bool Lia.
Import ListNotations.
Open Scope Z_scope.
Require Import MW.Ledger.Model MW.Ledger.Spec MW.Ledger.Run MW.Ledger.WF MW.Ledger.Proofs MW.Ledger.Proofs2.

Definition ids_agree (c n : list block) : Prop :=
  forall b1 b2, In b1 c -> In b2 n -> b_id b1 = b_id b2 -> b1 = b2.

Definition same_genesis (c n : list block) : Prop :=
  exists g c' n', c = g :: c' /\ n = g :: n'.

Lemma find_app_none : forall (A : Type) (f : A -> bool) l1 l2,
  (forall x, In x l1 -> f x = false) -> find f (l1 ++ l2) = find f l2.
Proof.
  intros A f l1 l2 H. induction l1 as [|x l1 IH]; [reflexivity|].
  cbn [app find]. rewrite (H x (or_introl eq_refl)). apply IH. intros y Hy. apply H. right. assumption.
Qed.

Lemma synced_at_in : forall p own c y pv h0,
  linked pv h0 c -> In y c -> synced_at (L p own c) (b_height y) = Some (b_id y).
Proof.
  intros p own c y pv h0 Hl Hy. apply in_split in Hy. destruct Hy as [a [r Hc]]. subst c.
  unfold synced_at, L. cbn [synced]. unfold synced_of.
  rewrite map_app. cbn [map]. rewrite rev_app_distr. cbn [rev]. rewrite <- app_assoc. cbn [app].
  rewrite find_app_none.
  - cbn [find fst]. rewrite Z.eqb_refl. reflexivity.
  - intros e He. apply in_rev in He. apply in_map_iff in He. destruct He as [z [He Hz]]. subst e.
    cbn [fst]. apply in_split in Hz. destruct Hz as [r1 [r2 Hr]]. subst r.
    pose proof (linked_height a y _ pv h0 Hl) as Hy.
    assert (Hl' : linked pv h0 ((a ++ y :: r1) ++ z :: r2)).
    { rewrite <- app_assoc. exact Hl. }
    pose proof (linked_height _ z _ pv h0 Hl') as Hz. rewrite app_length in Hz. cbn [length] in Hz.
    apply Z.eqb_neq. lia.
Qed.

Lemma synced_at_some : forall p own c h bid,
  synced_at (L p own c) h = Some bid -> exists y, In y c /\ b_height y = h /\ b_id y = bid.
Proof.
  intros p own c h bid H. unfold synced_at, L in H. cbn [synced] in H. unfold synced_of in H.
  destruct (find (fun e => fst e =? h) (rev (map (fun b => (b_height b, b_id b)) c))) as [e|] eqn:Hf; [|discriminate].
  inversion H. subst bid. apply find_some in Hf. destruct Hf as [He Hh].
  apply in_rev in He. apply in_map_iff in He. destruct He as [y [He Hy]]. subst e.
  cbn [fst snd] in *. apply Z.eqb_eq in Hh. exists y. tauto.
Qed.

Definition matched (st : wstate) (x : block) : bool :=
  match synced_at st (b_height x) with Some bid => (bid =? b_id x)%N | None => false end.

Lemma matched_in : forall p own c n x, ids_agree c n -> In x n -> matched (L p own c) x = true -> In x c.
Proof.
  intros p own c n x Hids Hx Hm. unfold matched in Hm.
  destruct (synced_at (L p own c) (b_height x)) as [bid|] eqn:Hs; [|discriminate].
  apply N.eqb_eq in Hm. subst bid. apply synced_at_some in Hs. destruct Hs as [y [Hy [_ Hid]]].
  rewrite <- (Hids y x Hy Hx Hid). assumption.
Qed.

Lemma in_matched : forall p own c x pv h0, linked pv h0 c -> In x c -> matched (L p own c) x = true.
Proof.
  intros p own c x pv h0 Hl Hx. unfold matched. rewrite (synced_at_in p own c x pv h0 Hl Hx).
  apply N.eqb_refl.
Qed.

Lemma node_block_found : forall n x, NoDup (map b_id n) -> In x n -> node_block n (b_id x) = Some x.
Proof.
  intros n x Hnd Hx. unfold node_block.
  destruct (find (fun b => (b_id b =? b_id x)%N) n) as [y|] eqn:Hf.
  - apply find_some in Hf. destruct Hf as [Hy Hid]. apply N.eqb_eq in Hid.
    f_equal. apply (NoDup_map_inj_in _ _ b_id n); assumption.
  - pose proof (find_none _ _ Hf x Hx) as Hn. cbv beta in Hn. rewrite N.eqb_refl in Hn. discriminate.
Qed.

Lemma collect_spec : forall p own c n pvc pvn,
  linked pvc 0 c -> linked pvn 0 n -> NoDup (map b_id n) -> same_genesis c n -> ids_agree c n ->
  forall fuel n1 x acc r,
  n = n1 ++ x :: acc ++ r -> (length n1 < fuel)%nat ->
  exists m1 y m2, n1 ++ x :: acc = m1 ++ y :: m2 /\ In y c /\
                  collect n (L p own c) fuel x acc = Some (b_height y, m2).
Proof.
  intros p own c n pvc pvn Hlc Hln Hnd Hgen Hids. induction fuel as [|f IH]; intros n1 x acc r Hn Hfuel.
  - lia.
  - cbn [collect]. fold (matched (L p own c) x).
    assert (Hxn : In x n). { rewrite Hn. apply in_or_app. right. left. reflexivity. }
    destruct (matched (L p own c) x) eqn:Hm.
    + exists n1, x, acc. split; [reflexivity|split; [|reflexivity]].
      apply (matched_in p own c n x Hids Hxn Hm).
    + destruct n1 as [|g0 n1'] eqn:Hn1.
      { exfalso. destruct Hgen as [g [c' [n' [Hc Hn']]]]. rewrite Hn in Hn'. cbn [app] in Hn'.
        inversion Hn'. subst x.
        rewrite (in_matched p own c g pvc 0 Hlc) in Hm; [discriminate|]. rewrite Hc. left. reflexivity. }
      assert (Hne : g0 :: n1' <> []) by discriminate.
      destruct (exists_last Hne) as [n1'' [x' Hlast]]. rewrite Hlast in *. clear Hne.
      assert (Hn2 : n = n1'' ++ x' :: (x :: acc) ++ r).
      { rewrite Hn. rewrite <- app_assoc. reflexivity. }
      assert (Hprev : b_prev x = b_id x').
      { rewrite Hn2 in Hln. cbn [app] in Hln. apply (linked_prev _ _ _ _ _ _ Hln). }
      rewrite Hprev. rewrite node_block_found; [|assumption|].
      2:{ rewrite Hn2. apply in_or_app. right. left. reflexivity. }
      destruct (IH n1'' x' (x :: acc) r Hn2) as [m1 [y [m2 [Hsplit [Hy Hcol]]]]].
      { rewrite app_length in Hfuel. cbn [length] in Hfuel. lia. }
      exists m1, y, m2. split; [|split; assumption].
      rewrite <- Hsplit. rewrite <- app_assoc. reflexivity.
Qed.

Lemma common_prefix : forall c n pvc pvn h0, linked pvc h0 c -> linked pvn h0 n -> ids_agree c n ->
  forall c1 y c2 m1 m2, c = c1 ++ y :: c2 -> n = m1 ++ y :: m2 -> c1 = m1.
Proof.
  intros c n pvc pvn h0 Hlc Hln Hids c1. induction c1 as [|x c1' IH] using rev_ind; intros y c2 m1 m2 Hc Hn.
  - rewrite Hc in Hlc. rewrite Hn in Hln.
    pose proof (linked_height _ _ _ _ _ Hlc) as H1. pose proof (linked_height _ _ _ _ _ Hln) as H2.
    cbn [length] in H1. destruct m1; [reflexivity|]. cbn [length] in H2. lia.
  - destruct m1 as [|z m1'] eqn:Hm1.
    { rewrite Hc in Hlc. rewrite Hn in Hln.
      pose proof (linked_height _ _ _ _ _ Hlc) as H1. pose proof (linked_height _ _ _ _ _ Hln) as H2.
      rewrite app_length in H1. cbn [length] in H1, H2. lia. }
    assert (Hne : z :: m1' <> []) by discriminate.
    destruct (exists_last Hne) as [m1'' [x' Hlast]]. rewrite Hlast in *. clear Hne.
    assert (Hc' : c = c1' ++ x :: y :: c2). { rewrite Hc, <- app_assoc. reflexivity. }
    assert (Hn' : n = m1'' ++ x' :: y :: m2). { rewrite Hn, <- app_assoc. reflexivity. }
    assert (Hxx : x = x').
    { apply Hids.
      - rewrite Hc'. apply in_or_app. right. left. reflexivity.
      - rewrite Hn'. apply in_or_app. right. left. reflexivity.
      - rewrite Hc' in Hlc. rewrite Hn' in Hln.
        rewrite <- (linked_prev _ _ _ _ _ _ Hlc). apply (linked_prev _ _ _ _ _ _ Hln). }
    subst x'. f_equal. apply (IH x (y :: c2) m1'' (y :: m2) Hc' Hn').
Qed.

(* announcing ANY block of the node that is not the genesis *)
Theorem process_reorg_gen : forall p own n c b n1 n2,
  wf_chain n -> wf_chain c -> same_genesis c n -> ids_agree c n ->
  n = n1 ++ b :: n2 -> n1 <> [] ->
  process p true own n (L p own c) b = Ok (L p own (n1 ++ [b])).
Proof.
  intros p own n c b n1 n2 Hwfn Hwfc Hgen Hids Hn Hne.
  destruct (wf_linked _ Hwfn) as [pvn Hln]. destruct (wf_linked _ Hwfc) as [pvc Hlc].
  unfold process. destruct (snd (tip (L p own c)) =? b_prev b)%N eqn:Htip.
  - (* extends the wallet's tip: the wallet's chain is the node's chain below b *)
    destruct (exists_last (wf_nonempty _ Hwfc)) as [cpre [y Hc]].
    destruct (exists_last Hne) as [n1' [x' Hn1]].
    rewrite Hc in Htip at 1. rewrite tip_L_snoc in Htip. cbn [snd] in Htip. apply N.eqb_eq in Htip.
    assert (Hn' : n = n1' ++ x' :: b :: n2). { rewrite Hn, Hn1, <- app_assoc. reflexivity. }
    assert (Hyx : y = x').
    { apply Hids.
      - rewrite Hc. apply in_or_app. right. left. reflexivity.
      - rewrite Hn'. apply in_or_app. right. left. reflexivity.
      - rewrite Htip. rewrite Hn' in Hln. apply (linked_prev _ _ _ _ _ _ Hln). }
    subst x'.
    assert (Hpre : cpre = n1').
    { apply (common_prefix c n pvc pvn 0 Hlc Hln Hids cpre y [] n1' (b :: n2)); assumption. }
    assert (Hcn : c = n1). { rewrite Hc, Hn1, Hpre. reflexivity. }
    rewrite Hcn. apply (connect_all_L p own _ n [b] n1 n2 Hwfn); [|assumption]. rewrite Hn. reflexivity.
  - (* reorganisation *)
    assert (Hfuel : (length n1 < S (Z.to_nat (b_height b)))%nat).
    { rewrite Hn in Hln. rewrite (linked_height _ _ _ _ _ Hln). lia. }
    destruct (collect_spec p own c n pvc pvn Hlc Hln (wf_bids _ Hwfn) Hgen Hids
                _ n1 b [] n2 Hn Hfuel) as [m1 [y [m2 [Hsplit [Hy Hcol]]]]].
    rewrite Hcol.
    apply in_split in Hy. destruct Hy as [c1 [c2 Hc]].
    assert (Hn' : n = m1 ++ y :: m2 ++ n2).
    { rewrite Hn. change (b :: n2) with ([b] ++ n2). rewrite app_assoc, Hsplit, <- app_assoc. reflexivity. }
    assert (Hc1 : c1 = m1).
    { apply (common_prefix c n pvc pvn 0 Hlc Hln Hids c1 y c2 m1 (m2 ++ n2)); assumption. }
    subst c1.
    assert (Hroll : rollback_to (L p own c) (b_height y + 1) = L p own (m1 ++ [y])).
    { rewrite Hc. change (y :: c2) with ([y] ++ c2). rewrite app_assoc.
      assert (Hl2 : linked pvc 0 ((m1 ++ [y]) ++ c2)).
      { rewrite <- app_assoc. cbn [app]. rewrite <- Hc. assumption. }
      destruct (linked_heights_split _ _ _ Hl2) as [H1 H2].
      assert (Hh : b_height y + 1 = Z.of_nat (length (m1 ++ [y]))).
      { rewrite Hc in Hlc. rewrite (linked_height _ _ _ _ _ Hlc). rewrite app_length. cbn [length]. lia. }
      apply rollback_L; rewrite Hh; assumption. }
    rewrite Hroll.
    rewrite (connect_all_L p own _ n m2 (m1 ++ [y]) n2 Hwfn).
    + rewrite <- app_assoc. cbn [app]. rewrite <- Hsplit. reflexivity.
    + rewrite Hn'. rewrite <- app_assoc. reflexivity.
    + destruct m1; discriminate.
Qed.

(* T3 *)
Theorem process_reorg : forall p own n c st b,
  wf_chain n -> wf_chain c -> same_genesis c n -> ids_agree c n ->
  ledger_of_chain p true own c = Ok st ->
  (exists n1, n1 <> [] /\ n = n1 ++ [b]) ->
  exists st', process p true own n st b = Ok st' /\ ledger_of_chain p true own n = Ok st'.
Proof.
  intros p own n c st b Hwfn Hwfc Hgen Hids Hst [n1 [Hne Hn]].
  rewrite (ledger_of_chain_L p own c Hwfc) in Hst. inversion Hst. subst st.
  exists (L p own n). split.
  - rewrite Hn at 2. apply (process_reorg_gen p own n c b n1 [] Hwfn Hwfc Hgen Hids Hn Hne).
  - apply ledger_of_chain_L. assumption.
Qed.
