(* Ledger/Crash.v — C06: the wallet PROCESS over the Ledger model: a persistent store (what
   LevelDB holds: the ledger with its sync records, the issued addresses) and the volatile state
   a crash loses (the handler's copy of the tip, the keystore's in-memory address table, the
   worker's task queue), the restart (NewWalletManager + NtfnsHandler.Start), and runs with
   crashes.  Definitions only.
   Code modelled: ntfnshandler.go NewNtfnsHandler (bestBlock := syncStore.SyncedTo), Start
   (fast-forward when no wallet is ready and the node is more than [ff] blocks ahead, then
   processConnectedBlock for syncedTo+1 .. BestBlockHeight), processConnectedBlock (the branch
   "Previous == bestBlock.Hash" is decided on the VOLATILE copy; bestBlock := newBlock after a
   successful commit only), worker (task queue rebuilt from the wallet status records),
   keystore.NewKeystoreManager (address tables reloaded from the keystore buckets).
   Histories are those of Ledger/Run.v (EvOwner = NewAddress, one commit; EvProcess = one commit
   or none); unconfirmed transactions do not occur in them (the pending set is C09's model). *)
From Coq Require Import List ZArith NArith Bool.
Import ListNotations.
Open Scope Z_scope.
Require Import MW.Ledger.Model MW.Ledger.Spec MW.Ledger.Run.

(* ---------------------------------------------------------------- the process *)

Record proc := {
  pr_sim : sim;              (* node (environment) + store: s_wallet (ledger, sync), s_own (issued addresses) + the harness' record s_obs *)
  pr_best : Z * N;           (* NtfnsHandler.bestBlock: volatile copy of the synced tip *)
  pr_cache : list (N * N)    (* KeystoreManager.managedKeystores[..].addrs: volatile script hash -> wallet table *)
}.

Definition with_wallet (s : sim) (st : wstate) : sim :=
  {| s_node := s_node s; s_wallet := st; s_own := s_own s; s_obs := s_obs s |}.

(* filterTx asks the keystore's in-memory table *)
Definition own_live (pr : proc) : owner_fn := own_of (pr_cache pr).

(* processConnectedBlock: the volatile copy of the tip decides between "extends the tip" and reorg *)
Definition process_best (p : params) (own : owner_fn) (n : node) (best : Z * N) (st : wstate) (b : block)
  : res wstate :=
  if (snd best =? b_prev b)%N then
    connect_all p true own (credits st) n st [b]
  else
    match collect n st (S (Z.to_nat (b_height b))) b [] with
    | None => Err EMaybeChainRevoked
    | Some (fork, bs) => connect_all p true own (credits st) n (rollback_to st (fork + 1)) bs
    end.

Definition pstep (p : params) (pr : proc) (e : event) : proc :=
  match e with
  | EvOwner sh w =>
      (* NewAddress: keystore bucket + address row in one commit; the in-memory table follows *)
      {| pr_sim := step p true (pr_sim pr) e; pr_best := pr_best pr; pr_cache := (sh, w) :: pr_cache pr |}
  | EvProcess b =>
      match process_best p (own_live pr) (s_node (pr_sim pr)) (pr_best pr) (s_wallet (pr_sim pr)) b with
      | Ok st' => {| pr_sim := with_wallet (pr_sim pr) st'; pr_best := (b_height b, b_id b); pr_cache := pr_cache pr |}
      | Err _ => pr
      end
  | _ => {| pr_sim := step p true (pr_sim pr) e; pr_best := pr_best pr; pr_cache := pr_cache pr |}
  end.

(* does the event commit a write transaction? *)
Definition commits_ev (p : params) (pr : proc) (e : event) : bool :=
  match e with
  | EvOwner _ _ => true
  | EvProcess b =>
      match process_best p (own_live pr) (s_node (pr_sim pr)) (pr_best pr) (s_wallet (pr_sim pr)) b with
      | Ok _ => true
      | Err _ => false
      end
  | _ => false
  end.

Definition prun (p : params) (pr : proc) (h : list event) : proc := fold_left (pstep p) h pr.

Definition init_proc (g : block) : proc :=
  {| pr_sim := init_sim g; pr_best := (0, b_id g); pr_cache := [] |}.

Fixpoint commits (p : params) (pr : proc) (h : list event) : nat :=
  match h with
  | [] => O
  | e :: r => (if commits_ev p pr e then 1 else 0)%nat + commits p (pstep p pr e) r
  end.

(* the state right after the k-th commit of the run of h from pr, the events consumed so far and
   the events not yet issued (k = 0: before anything; k beyond the commits of the run: its end) *)
Fixpoint cut (p : params) (k : nat) (pr : proc) (h : list event) : proc * list event * list event :=
  match h with
  | [] => (pr, [], [])
  | e :: r =>
      match k with
      | O => (pr, [], h)
      | S k' =>
          let '(pr', pre, post) := cut p (if commits_ev p pr e then k' else k) (pstep p pr e) r in
          (pr', e :: pre, post)
      end
  end.

(* ---------------------------------------------------------------- crash and restart *)

(* everything volatile is lost; NewWalletManager / NewNtfnsHandler rebuild it from the store *)
Definition reopen (pr : proc) : proc :=
  {| pr_sim := pr_sim pr;
     pr_best := tip (s_wallet (pr_sim pr));          (* bestBlock := syncStore.SyncedTo *)
     pr_cache := s_own (pr_sim pr) |}.               (* address tables reloaded from the keystore buckets *)

(* the node's best-chain blocks above height h, lowest first (FetchBlockByHeight h+1 .. BestBlockHeight) *)
Definition above (n : node) (h : Z) : list block := filter (fun b => h <? b_height b) n.

(* fast-forward step of Start: SetSyncedTo only, no ledger effect, one commit per height *)
Definition ff_step (pr : proc) (b : block) : proc :=
  let w := s_wallet (pr_sim pr) in
  {| pr_sim := with_wallet (pr_sim pr) {| credits := credits w; synced := (b_height b, b_id b) :: synced w |};
     pr_best := (b_height b, b_id b);
     pr_cache := pr_cache pr |}.

(* catch-up of Start: processConnectedBlock per block; an error aborts Start (the wallet does not open) *)
Fixpoint catch_up (p : params) (pr : proc) (bs : list block) : option proc :=
  match bs with
  | [] => Some pr
  | b :: r =>
      match process_best p (own_live pr) (s_node (pr_sim pr)) (pr_best pr) (s_wallet (pr_sim pr)) b with
      | Ok st' => catch_up p {| pr_sim := with_wallet (pr_sim pr) st'; pr_best := (b_height b, b_id b); pr_cache := pr_cache pr |} r
      | Err _ => None
      end
  end.

Definition no_ready_wallet (pr : proc) : bool := match s_own (pr_sim pr) with [] => true | _ => false end.

(* NtfnsHandler.Start; [ff] is the literal 2000 of the code.
   [tipfix]: the code as repaired (KNOWN_FINDINGS: restart-stays-on-abandoned-tip): when there is
   nothing to catch up by height (syncHeight >= indexHeight) the node's best block is fetched and,
   if it is not the stored tip, goes through processConnectedBlock (reorg).  [tipfix = false] is
   the code as found: catch-up by height only. *)
Definition tip_check (p : params) (g : block) (pr : proc) : option proc :=
  let n := s_node (pr_sim pr) in
  let blk := last n g in
  if (snd (pr_best pr) =? b_id blk)%N then Some pr else catch_up p pr [blk].

Definition start (p : params) (tipfix : bool) (ff : Z) (g : block) (pr : proc) : option proc :=
  let n := s_node (pr_sim pr) in
  let hs := fst (tip (s_wallet (pr_sim pr))) in        (* syncHeight, read from the store *)
  let hi := chain_height n in                          (* indexHeight *)
  let todo := above n hs in
  let caught :=
    if no_ready_wallet pr && (ff <? hi) then
      let skip := filter (fun b => b_height b <? hi - ff) todo in
      let rest := filter (fun b => negb (b_height b <? hi - ff)) todo in
      catch_up p (fold_left ff_step skip pr) rest
    else catch_up p pr todo in
  match caught with
  | None => None
  | Some pr1 => if tipfix && (hi <=? hs) then tip_check p g pr1 else Some pr1
  end.

Definition restart (p : params) (tipfix : bool) (ff : Z) (g : block) (pr : proc) : option proc :=
  start p tipfix ff g (reopen pr).

(* a run with crashes: the process stops right after its k1-th commit, is restarted, stops again
   right after k2 further commits (counted after the restart has completed), ... *)
Fixpoint crashes (p : params) (tipfix : bool) (ff : Z) (g : block) (ks : list nat) (pr : proc) (h : list event)
  : option proc :=
  match ks with
  | [] => Some (prun p pr h)
  | k :: ks' =>
      let '(pr1, _, post) := cut p k pr h in
      match restart p tipfix ff g pr1 with
      | Some pr2 => crashes p tipfix ff g ks' pr2 post
      | None => None
      end
  end.

Definition crash_run (p : params) (tipfix : bool) (ff : Z) (g : block) (k : nat) (h : list event) : option proc :=
  crashes p tipfix ff g [k] (init_proc g) h.

(* the same run written as a history of the process that never stops: the announcements of the
   node's blocks above the stored tip are inserted at the crash point *)
Definition catchup_events (tipfix : bool) (g : block) (pr : proc) : list event :=
  let n := s_node (pr_sim pr) in
  let t := tip (s_wallet (pr_sim pr)) in
  map EvProcess (above n (fst t)) ++
  (if tipfix && (chain_height n <=? fst t) && negb (snd t =? b_id (last n g))%N then [EvProcess (last n g)] else []).

Definition crash_history (p : params) (tipfix : bool) (g : block) (k : nat) (h : list event) : list event :=
  let '(pr1, pre, post) := cut p k (init_proc g) h in pre ++ catchup_events tipfix g pr1 ++ post.

(* "after catching up with the node": the announcement of the node's tip is processed *)
Definition finish (p : params) (g : block) (pr : proc) : proc :=
  pstep p pr (EvProcess (last (s_node (pr_sim pr)) g)).

Definition observe (pr : proc) (w : N) : report := model_report (s_wallet (pr_sim pr)) w.

(* the stored sync records are those of a prefix of the node's best chain (the node was not
   reorganised below the wallet's tip) *)
Definition on_chain (pr : proc) : Prop :=
  exists c m, c <> [] /\ s_node (pr_sim pr) = c ++ m /\
              synced (s_wallet (pr_sim pr)) = rev (map (fun b => (b_height b, b_id b)) c).

(* the crash points covered by the C06 theorems: Start does not take its fast-forward branch, or
   takes it with the stored tip still on the node's chain; and the node has not been reorganised
   back to its bare genesis while the wallet is ahead of it *)
Definition safe_point (g : block) (ff : Z) (pr : proc) : Prop :=
  (no_ready_wallet pr && (ff <? chain_height (s_node (pr_sim pr))) = false \/ (0 <= ff /\ on_chain pr)) /\
  (last (s_node (pr_sim pr)) g <> g \/ snd (tip (s_wallet (pr_sim pr))) = b_id g).

Fixpoint crashes_safe (p : params) (tipfix : bool) (ff : Z) (g : block) (ks : list nat) (pr : proc) (h : list event) : Prop :=
  match ks with
  | [] => True
  | k :: ks' =>
      let '(pr1, _, post) := cut p k pr h in
      safe_point g ff pr1 /\
      match restart p tipfix ff g pr1 with
      | Some pr2 => crashes_safe p tipfix ff g ks' pr2 post
      | None => True
      end
  end.

(* the volatile state is a function of the store *)
Definition coherent (pr : proc) : Prop :=
  pr_best pr = tip (s_wallet (pr_sim pr)) /\ pr_cache pr = s_own (pr_sim pr).

(* ---------------------------------------------------------------- the worker's task queue *)

(* wallet status records (syncStore.WalletStatus): ready, being imported, marked removed *)
Inductive wstat := WReady | WImporting | WRemoving.

Record tasks := {
  t_status : list (N * wstat);   (* persistent: one record per wallet, in key order *)
  t_queue : list N               (* volatile: WalletTaskChan *)
}.

Inductive tevent :=
| TCreate (w : N)                (* CreateWallet: status ready *)
| TImport (w : N)                (* ImportWallet*: status "importing" committed, then PushImport *)
| TRemove (w : N)                (* RemoveWallet: MarkDeleteWallet committed, then PushRemove *)
| TStep (fin : bool).            (* the worker takes the head task and runs one step (one commit);
                                    fin: the step completed the task (decided by ledger and node) *)

Definition set_status (l : list (N * wstat)) (w : N) (s : wstat) : list (N * wstat) :=
  map (fun e => if (fst e =? w)%N then (w, s) else e) l.
Definition del_status (l : list (N * wstat)) (w : N) : list (N * wstat) :=
  filter (fun e => negb (fst e =? w)%N) l.
Definition status_of (l : list (N * wstat)) (w : N) : option wstat :=
  match find (fun e => (fst e =? w)%N) l with Some e => Some (snd e) | None => None end.

Definition tstep (t : tasks) (e : tevent) : tasks :=
  match e with
  | TCreate w => {| t_status := t_status t ++ [(w, WReady)]; t_queue := t_queue t |}
  | TImport w => {| t_status := t_status t ++ [(w, WImporting)]; t_queue := t_queue t ++ [w] |}
  | TRemove w =>
      match status_of (t_status t) w with
      | Some WReady => {| t_status := set_status (t_status t) w WRemoving; t_queue := t_queue t ++ [w] |}
      | _ => t                                     (* ErrWalletUnready / unknown wallet: refused *)
      end
  | TStep fin =>
      match t_queue t with
      | [] => t
      | w :: q =>
          if fin then
            match status_of (t_status t) w with
            | Some WImporting => {| t_status := set_status (t_status t) w WReady; t_queue := q |}
            | Some WRemoving => {| t_status := del_status (t_status t) w; t_queue := q |}
            | _ => {| t_status := t_status t; t_queue := q |}
            end
          else {| t_status := t_status t; t_queue := q ++ [w] |}    (* pushed again *)
      end
  end.

Definition unfinished (l : list (N * wstat)) : list N :=
  map fst (filter (fun e => match snd e with WReady => false | _ => true end) l).

(* worker(): the queue is rebuilt from the status records *)
Definition treopen (t : tasks) : tasks := {| t_status := t_status t; t_queue := unfinished (t_status t) |}.

(* fresh wallet ids: a wallet is created / restored once *)
Definition tfresh (t : tasks) (e : tevent) : Prop :=
  match e with
  | TCreate w | TImport w => ~ In w (map fst (t_status t))
  | _ => True
  end.


Definition trun (t : tasks) (es : list tevent) : tasks := fold_left tstep es t.

Fixpoint tfresh_all (t : tasks) (es : list tevent) : Prop :=
  match es with
  | [] => True
  | e :: r => tfresh t e /\ tfresh_all (tstep t e) r
  end.

