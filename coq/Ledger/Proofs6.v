(* Ledger/Proofs6.v — C01, part 6: T4 with addresses issued at any time, provided an address is
   issued before any attached block pays it ([wf_history_gen]); [wf_history] is a special case. *)
From Coq Require Import List ZArith NArith Bool Lia.
Import ListNotations.
Open Scope Z_scope.
Require Import MW.Ledger.Model MW.Ledger.Spec MW.Ledger.Run MW.Ledger.WF.
Require Import MW.Ledger.Proofs MW.Ledger.Proofs2 MW.Ledger.Proofs3 MW.Ledger.Proofs4.

(* the ledger of a chain depends on the owner function only through the outputs of the chain *)
Lemma coins_of_outs_ext : forall own1 own2 t h bid outs i,
  (forall o, In o outs -> own1 (o_sh o) = own2 (o_sh o)) ->
  coins_of_outs own1 t h bid outs i = coins_of_outs own2 t h bid outs i.
Proof.
  intros own1 own2 t h bid outs. induction outs as [|o outs IH]; intros i H.
  - reflexivity.
  - cbn [coins_of_outs]. rewrite (IH (i + 1)%N).
    + rewrite (H o (or_introl eq_refl)). reflexivity.
    + intros o' Ho'. apply H. right. assumption.
Qed.

Lemma coins_l_ext : forall own1 own2 l,
  (forall x o, In x l -> In o (t_outs (pt_tx x)) -> own1 (o_sh o) = own2 (o_sh o)) ->
  coins_l own1 l = coins_l own2 l.
Proof.
  intros own1 own2 l. induction l as [|x l IH]; intros H.
  - reflexivity.
  - change (coins_l own1 (x :: l)) with (coins_pt own1 x ++ coins_l own1 l).
    change (coins_l own2 (x :: l)) with (coins_pt own2 x ++ coins_l own2 l).
    rewrite IH.
    + f_equal. unfold coins_pt. apply coins_of_outs_ext. intros o Ho. apply (H x o); [left; reflexivity|assumption].
    + intros y o Hy Ho. apply (H y o); [right; assumption|assumption].
Qed.

Lemma L_own_ext : forall p own1 own2 c,
  (forall b t o, In b c -> In t (b_txs b) -> In o (t_outs t) -> own1 (o_sh o) = own2 (o_sh o)) ->
  L p own1 c = L p own2 c.
Proof.
  intros p own1 own2 c H. unfold L, E. rewrite (coins_l_ext own1 own2 (ptxs c)); [reflexivity|].
  intros x o Hx Ho. unfold ptxs in Hx. apply in_flat_map in Hx. destruct Hx as [b [Hb Hx]].
  unfold ptxs_of_block in Hx. apply in_map_iff in Hx. destruct Hx as [t [Hxt Ht]]. subst x.
  apply (H b t o); assumption.
Qed.

Definition attached (h : list event) : list block :=
  flat_map (fun e => match e with EvAttach b => [b] | _ => [] end) h.

Fixpoint fresh_ok (A : list block) (h : list event) : Prop :=
  match h with
  | [] => True
  | EvOwner sh w :: r => (forall b, In b A -> ~ pays b sh) /\ fresh_ok A r
  | EvAttach b :: r => fresh_ok (A ++ [b]) r
  | _ :: r => fresh_ok A r
  end.

Lemma fresh_ok_intro : forall h A,
  (forall h1 sh w h2, h = h1 ++ EvOwner sh w :: h2 -> forall b, In b A \/ In (EvAttach b) h1 -> ~ pays b sh) ->
  fresh_ok A h.
Proof.
  induction h as [|e r IH]; intros A H.
  - exact I.
  - assert (Hr : forall A', (forall b, In b A' -> In b A \/ In (EvAttach b) [e]) -> fresh_ok A' r).
    { intros A' HA'. apply IH. intros h1 sh w h2 Hr b Hb.
      apply (H (e :: h1) sh w h2); [rewrite Hr; reflexivity|].
      destruct Hb as [Hb|Hb].
      - destruct (HA' b Hb) as [Hb'|[Hb'|[]]]; [left; assumption|right; left; assumption].
      - right. right. assumption. }
    destruct e as [sh w|b| |b|w]; cbn [fresh_ok].
    + split.
      * intros b Hb. apply (H [] sh w r); [reflexivity|left; assumption].
      * apply Hr. intros b Hb. left. assumption.
    + apply Hr. intros b' Hb'. apply in_app_or in Hb'. destruct Hb' as [Hb'|[Hb'|[]]].
      * left. assumption.
      * subst b'. right. left. reflexivity.
    + apply Hr. intros b Hb. left. assumption.
    + apply Hr. intros b' Hb'. left. assumption.
    + apply Hr. intros b Hb. left. assumption.
Qed.

Section HistoryGen.
Variable p : params.
Variable g : block.
Variable B : list block.
Hypothesis B_ids : forall b1 b2, In b1 B -> In b2 B -> b_id b1 = b_id b2 -> b1 = b2.

Definition Inv2 (A : list block) (s : sim) : Prop :=
  wf_chain (s_node s) /\ from_g g (s_node s) /\ incl (s_node s) A /\
  exists c, wf_chain c /\ from_g g c /\ incl c A /\ s_wallet s = L p (own_of (s_own s)) c.

Definition okev (e : event) : Prop :=
  (forall b, e = EvAttach b \/ e = EvProcess b -> In b B) /\ e <> EvProcess g.

Lemma Inv2_mono : forall A A' s, incl A A' -> Inv2 A s -> Inv2 A' s.
Proof.
  intros A A' s HA [H1 [H2 [H3 [c [H4 [H5 [H6 H7]]]]]]].
  split; [assumption|split; [assumption|split; [intros z Hz; apply HA; apply H3; assumption|]]].
  exists c. split; [assumption|split; [assumption|split; [intros z Hz; apply HA; apply H6; assumption|assumption]]].
Qed.

Lemma Inv2_run : forall post s A,
  Inv2 A s -> incl A B ->
  (forall s', In s' (sims p true s post) -> wf_chain (s_node s')) ->
  (forall e, In e post -> okev e) -> fresh_ok A post ->
  Inv2 (A ++ attached post) (fold_left (step p true) post s).
Proof.
  induction post as [|e post IH]; intros s A Hinv HAB Hsims Hok Hfresh.
  - cbn [attached flat_map fold_left]. rewrite app_nil_r. assumption.
  - assert (Hwf' : wf_chain (s_node (step p true s e))).
    { apply Hsims. cbn [sims]. right. apply sims_head. }
    assert (Hsims' : forall s', In s' (sims p true (step p true s e) post) -> wf_chain (s_node s')).
    { intros s' Hs'. apply Hsims. cbn [sims]. right. assumption. }
    assert (Hok' : forall e', In e' post -> okev e').
    { intros e' He'. apply Hok. right. assumption. }
    destruct (Hok e (or_introl eq_refl)) as [HeB Hng].
    destruct Hinv as [Hwfn [Hgn [HnA [c [Hwfc [Hgc [HcA Hst]]]]]]].
    cbn [fold_left].
    destruct e as [sh w|b| |b|w]; cbn [fresh_ok] in Hfresh.
    + (* a new address, not paid by any block attached so far *)
      destruct Hfresh as [Hnew Hfresh]. cbn [attached flat_map app]. fold (attached post).
      apply IH; try assumption.
      cbn [step]. unfold Inv2. cbn [s_node s_wallet s_own].
      split; [assumption|split; [assumption|split; [assumption|]]].
      exists c. split; [assumption|split; [assumption|split; [assumption|]]].
      rewrite Hst. apply L_own_ext. intros b t o Hb Ht Ho.
      unfold own_of. cbn [find fst]. destruct (sh =? o_sh o)%N eqn:Heq; [|reflexivity].
      exfalso. apply N.eqb_eq in Heq. apply (Hnew b (HcA b Hb)). exists t, o. split; [assumption|split; [assumption|]].
      symmetry. assumption.
    + (* attach *)
      cbn [attached flat_map]. fold (attached post). cbn [app]. 
      change (A ++ b :: attached post) with (A ++ [b] ++ attached post). rewrite app_assoc.
      apply IH; try assumption.
      * cbn [step]. unfold Inv2. cbn [s_node s_wallet s_own]. cbn [step s_node] in Hwf'.
        split; [assumption|split; [|split]].
        -- destruct Hgn as [n' Hn]. exists (n' ++ [b]). rewrite Hn. reflexivity.
        -- apply incl_app; [apply incl_appl; assumption|apply incl_appr; apply incl_refl].
        -- exists c. split; [assumption|split; [assumption|split; [apply incl_appl; assumption|assumption]]].
      * apply incl_app; [assumption|]. intros z [Hz|[]]. subst z. apply HeB. left. reflexivity.
    + (* detach *)
      cbn [attached flat_map app]. fold (attached post).
      apply IH; try assumption.
      cbn [step]. unfold Inv2. cbn [s_node s_wallet s_own]. cbn [step s_node] in Hwf'.
      split; [assumption|split; [|split]].
      * destruct Hgn as [n' Hn]. rewrite Hn in *. destruct n' as [|z n'].
        -- exfalso. cbn in Hwf'. apply (wf_nonempty _ Hwf'). reflexivity.
        -- exists (removelast (z :: n')). reflexivity.
      * intros z Hz. apply HnA. apply removelast_in. assumption.
      * exists c. tauto.
    + (* process *)
      cbn [attached flat_map app]. fold (attached post).
      apply IH; try assumption.
      cbn [step]. unfold Inv2. cbn [s_node s_wallet s_own].
      split; [assumption|split; [assumption|split; [assumption|]]].
      unfold process_or_keep.
      destruct (process p true (own_of (s_own s)) (s_node s) (s_wallet s) b) as [st'|err] eqn:Hproc.
      * rewrite Hst in Hproc.
        destruct (process_ok_L p g (s_own s) B B_ids (s_node s) c b st') as [c' [H1 [H2 [_ [H3 H4]]]]]; try assumption.
        -- intros z Hz. apply HAB. apply HnA. assumption.
        -- intros z Hz. apply HAB. apply HcA. assumption.
        -- apply HeB. right. reflexivity.
        -- intros Hbg. apply Hng. rewrite Hbg. reflexivity.
        -- exists c'. split; [assumption|split; [assumption|split; [|assumption]]].
           destruct H3 as [H3|H3]; intros z Hz; [apply HnA|apply HcA]; apply H3; assumption.
      * exists c. tauto.
    + (* query *)
      cbn [attached flat_map app]. fold (attached post).
      apply IH; try assumption.
      cbn [step]. unfold Inv2. cbn [s_node s_wallet s_own].
      split; [assumption|split; [assumption|split; [assumption|]]]. exists c. tauto.
Qed.

End HistoryGen.

(* T4, general form *)
Theorem history_theorem_gen : forall p g h b,
  wf_history_gen p true g (h ++ [EvProcess b]) ->
  last (s_node (run p true g h)) g = b ->
  let s := run p true g (h ++ [EvProcess b]) in
  forall w, model_report (s_wallet s) w = spec_report p (own_of (s_own s)) (s_node s) w.
Proof.
  intros p g h b Hwf Hlast s w.
  set (hf := h ++ [EvProcess b]) in *.
  set (B := g :: blocks_of_history hf).
  pose proof (wfg_chain _ _ _ _ Hwf) as Hsims.
  pose proof (wfg_blockids _ _ _ _ Hwf) as Hids. fold B in Hids.
  assert (Hnog : ~ In (EvAttach g) hf). { apply (no_attach_genesis p true g hf Hsims). }
  assert (Hok : forall e, In e hf -> okev g B e).
  { intros e He. split.
    - intros b' Hb'. right. apply (blocks_of_history_in hf e b' He Hb').
    - intros Heg. subst e. apply Hnog. apply (wfg_announced _ _ _ _ Hwf). assumption. }
  assert (Hwfg : wf_chain [g]). { apply (Hsims (init_sim g)). apply sims_head. }
  destruct (wf_genesis _ Hwfg) as [g' [rest [Hc [Hh0 [Htx _]]]]]. inversion Hc. subst g' rest. clear Hc.
  assert (Hinv0 : Inv2 p g [g] (init_sim g)).
  { unfold Inv2. cbn [init_sim s_node s_wallet s_own].
    split; [assumption|split; [exists []; reflexivity|split; [apply incl_refl|]]].
    exists [g]. split; [assumption|split; [exists []; reflexivity|split; [apply incl_refl|]]].
    symmetry. apply L_genesis; assumption. }
  assert (Hfresh : fresh_ok [g] h).
  { apply fresh_ok_intro. intros h1 sh w0 h2 Hh b0 Hb0 Hpays. destruct Hb0 as [[Hb0|[]]|Hb0].
    - subst b0. destruct Hpays as [t [o [Ht _]]]. rewrite Htx in Ht. destruct Ht.
    - assert (Heq : hf = h1 ++ EvOwner sh w0 :: (h2 ++ [EvProcess b])).
      { unfold hf. rewrite Hh, <- app_assoc. reflexivity. }
      apply (wfg_owners _ _ _ _ Hwf h1 sh w0 (h2 ++ [EvProcess b]) Heq b0 Hb0 Hpays). }
  assert (Hinv : Inv2 p g ([g] ++ attached h) (run p true g h)).
  { unfold run. apply (Inv2_run p g B Hids).
    - assumption.
    - intros z [Hz|[]]. subst z. left. reflexivity.
    - intros s' Hs'. apply Hsims. unfold hf. apply sims_prefix_in. assumption.
    - intros e He. apply Hok. unfold hf. apply in_or_app. left. assumption.
    - assumption. }
  assert (HAB : incl ([g] ++ attached h) B).
  { intros z Hz. apply in_app_or in Hz. destruct Hz as [[Hz|[]]|Hz].
    - subst z. left. reflexivity.
    - right. unfold attached in Hz. apply in_flat_map in Hz. destruct Hz as [e [He Hz]].
      destruct e as [sh w0|b0| |b0|w0]; try (destruct Hz; fail). destruct Hz as [Hz|[]]. subst z.
      apply (blocks_of_history_in hf (EvAttach b0) b0); [|left; reflexivity].
      unfold hf. apply in_or_app. left. assumption. }
  destruct Hinv as [Hwfn [Hgn [HnA [c [Hwfc [Hgc [HcA Hst]]]]]]].
  assert (Hokb : okev g B (EvProcess b)).
  { apply Hok. unfold hf. apply in_or_app. right. left. reflexivity. }
  destruct Hokb as [_ Hng].
  assert (Hbg : b <> g). { intros Heq. apply Hng. rewrite Heq. reflexivity. }
  set (n := s_node (run p true g h)) in *.
  assert (Hnne : n <> []). { apply wf_nonempty. assumption. }
  assert (Hn : n = removelast n ++ [b]). { rewrite <- Hlast. apply app_removelast_last. assumption. }
  assert (Hn1 : removelast n <> []).
  { intros Hnil. rewrite Hnil in Hn. destruct Hgn as [n' Hgn]. rewrite Hgn in Hn. cbn [app] in Hn.
    inversion Hn. symmetry in H0. contradiction. }
  assert (Hs : s = step p true (run p true g h) (EvProcess b)).
  { unfold s, hf, run. rewrite fold_left_app. reflexivity. }
  set (own := own_of (s_own (run p true g h))) in *.
  assert (HnB : incl n B). { intros z Hz. apply HAB. apply HnA. assumption. }
  assert (HcB : incl c B). { intros z Hz. apply HAB. apply HcA. assumption. }
  pose proof (process_reorg_gen p own n c b (removelast n) [] Hwfn Hwfc
                (same_genesis_from_g g _ _ Hgc Hgn) (ids_agree_B B Hids _ _ HcB HnB) Hn Hn1) as Hproc.
  rewrite <- Hn in Hproc.
  rewrite Hs. cbn [step s_wallet s_own s_node]. fold n. fold own. rewrite Hst.
  unfold process_or_keep. rewrite Hproc. apply report_L. assumption.
Qed.

(* the generator's discipline (all addresses first) is a special case *)
Lemma owners_first_before_paid : forall h, owners_first h -> owners_before_paid h.
Proof.
  intros h [pre [post [Hh [Hpre Hpost]]]] h1 sh w h2 Hsplit b Hb _.
  (* the attach event is before an owner event: it must lie in pre or in post, both impossible *)
  assert (Hown_in : In (EvOwner sh w) h). { rewrite Hsplit. apply in_or_app. right. left. reflexivity. }
  assert (Hown_pre : In (EvOwner sh w) pre).
  { rewrite Hh in Hown_in. apply in_app_or in Hown_in. destruct Hown_in as [H|H]; [assumption|].
    exfalso. apply (Hpost _ H sh w). reflexivity. }
  (* h1 ++ [EvOwner] is a prefix of pre *)
  assert (Hpref : forall (l1 l2 m1 m2 : list event) x, l1 ++ x :: l2 = m1 ++ m2 ->
            (forall e, In e m2 -> e <> x) -> In x m1 -> forall y, In y l1 -> In y m1).
  { clear. induction l1 as [|a l1 IH]; intros l2 m1 m2 x Heq Hm2 Hx y Hy.
    - destruct Hy.
    - destruct m1 as [|c m1]; [destruct Hx|]. cbn [app] in Heq. inversion Heq. subst c.
      destruct Hy as [Hy|Hy]; [left; assumption|]. right.
      destruct Hx as [Hx|Hx].
      + (* a = x: then x occurs in l1 ++ x :: l2 twice; still fine: use IH if x in m1, else contradiction *)
        subst a. destruct (in_app_or m1 m2 x) as [Hx1|Hx2].
        * rewrite <- H1. apply in_or_app. right. left. reflexivity.
        * apply (IH l2 m1 m2 x H1 Hm2 Hx1 y Hy).
        * exfalso. apply (Hm2 x Hx2). reflexivity.
      + apply (IH l2 m1 m2 x H1 Hm2 Hx y Hy). }
  assert (Hb_pre : In (EvAttach b) pre).
  { apply (Hpref h1 h2 pre post (EvOwner sh w)).
    - rewrite <- Hsplit. assumption.
    - intros e He Heq. apply (Hpost e He sh w). assumption.
    - assumption.
    - assumption. }
  destruct (Hpre _ Hb_pre) as [sh' [w' Heq]]. discriminate.
Qed.

Lemma wf_history_gen_of : forall p a g h, wf_history p a g h -> wf_history_gen p a g h.
Proof.
  intros p a g h [H1 H2 H3 H4]. constructor; try assumption. apply owners_first_before_paid. assumption.
Qed.

(* ---------------------------------------------------------------- boolean checker for wf_history_gen *)
Require Import MW.Ledger.Proofs5.

Definition pays_b (b : block) (sh : N) : bool :=
  existsb (fun t => existsb (fun o => (o_sh o =? sh)%N) (t_outs t)) (b_txs b).

Lemma pays_b_complete : forall b sh, pays b sh -> pays_b b sh = true.
Proof.
  intros b sh [t [o [Ht [Ho Hsh]]]]. unfold pays_b. apply existsb_exists. exists t. split; [assumption|].
  apply existsb_exists. exists o. split; [assumption|]. apply N.eqb_eq. assumption.
Qed.

Fixpoint owners_before_paid_go (A : list block) (h : list event) : bool :=
  match h with
  | [] => true
  | EvOwner sh w :: r => forallb (fun b => negb (pays_b b sh)) A && owners_before_paid_go A r
  | EvAttach b :: r => owners_before_paid_go (b :: A) r
  | _ :: r => owners_before_paid_go A r
  end.

Lemma owners_before_paid_go_sound : forall h A, owners_before_paid_go A h = true ->
  forall h1 sh w h2, h = h1 ++ EvOwner sh w :: h2 -> forall b, In b A \/ In (EvAttach b) h1 -> ~ pays b sh.
Proof.
  induction h as [|e r IH]; intros A Hgo h1 sh w h2 Hh b Hb Hpays.
  - destruct h1; discriminate.
  - destruct h1 as [|e1 h1].
    + cbn [app] in Hh. inversion Hh. subst e r. cbn [owners_before_paid_go] in Hgo.
      apply andb_true_iff in Hgo. destruct Hgo as [Hgo _]. rewrite forallb_forall in Hgo.
      destruct Hb as [Hb|[]]. specialize (Hgo b Hb). rewrite (pays_b_complete _ _ Hpays) in Hgo. discriminate.
    + cbn [app] in Hh. inversion Hh. subst e1 r.
      assert (Hnext : forall A', owners_before_paid_go A' (h1 ++ EvOwner sh w :: h2) = true ->
                                 (In b A' \/ In (EvAttach b) h1) -> False).
      { intros A' Hgo' Hb'. apply (IH A' Hgo' h1 sh w h2 eq_refl b Hb' Hpays). }
      destruct e as [sh' w'|b'| |b'|w']; cbn [owners_before_paid_go] in Hgo.
      * apply andb_true_iff in Hgo. destruct Hgo as [_ Hgo]. apply (Hnext A Hgo).
        destruct Hb as [Hb|[Hb|Hb]]; [left; assumption|discriminate|right; assumption].
      * apply (Hnext (b' :: A) Hgo).
        destruct Hb as [Hb|[Hb|Hb]]; [left; right; assumption| |right; assumption].
        inversion Hb. left. left. reflexivity.
      * apply (Hnext A Hgo). destruct Hb as [Hb|[Hb|Hb]]; [left; assumption|discriminate|right; assumption].
      * apply (Hnext A Hgo). destruct Hb as [Hb|[Hb|Hb]]; [left; assumption|discriminate|right; assumption].
      * apply (Hnext A Hgo). destruct Hb as [Hb|[Hb|Hb]]; [left; assumption|discriminate|right; assumption].
Qed.

Definition wf_history_gen_b (p : params) (a1fix : bool) (g : block) (h : list event) : bool :=
  forallb (fun s => wf_chain_b (s_node s)) (sims p a1fix (init_sim g) h)
  && owners_before_paid_go [] h && ids_b (g :: blocks_of_history h) && announced_b h.

Theorem wf_history_gen_b_sound : forall p a g h, wf_history_gen_b p a g h = true -> wf_history_gen p a g h.
Proof.
  intros p a g h H. unfold wf_history_gen_b in H.
  apply andb_true_iff in H. destruct H as [H H4]. apply andb_true_iff in H. destruct H as [H H3].
  apply andb_true_iff in H. destruct H as [H1 H2]. constructor.
  - intros s Hs. rewrite forallb_forall in H1. apply wf_chain_b_sound. apply (H1 s Hs).
  - intros h1 sh w h2 Hh b Hb. apply (owners_before_paid_go_sound h [] H2 h1 sh w h2 Hh b). right. assumption.
  - apply ids_b_sound. assumption.
  - apply announced_b_sound. assumption.
Qed.
