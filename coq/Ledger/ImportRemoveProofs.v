(* Ledger/ImportRemoveProofs.v — C07 / C08 together: one wallet r is being REMOVED while another wallet w is
   being RESTORED in the same database, with chain events in between.

   ImportProofs3-7 (minv, minv2) require every other keyed wallet to be READY; RemoveProofs4-9 (StInv) require
   that nobody is importing.  Here both tasks run at once.

   Part A  the removal round never deletes a transaction record that a credit row or a spent mark of ANOTHER
           wallet needs (whatever that wallet's status is: ready, or importing with its cursor anywhere) —
           the shared-transaction case.  What the importing wallet has not recorded yet is listed (again) by
           the rescan itself ([import_tx]: add_ids), see Part B.
   Part B  the invariant [minv_r]: the database seen without r's remaining rows ([strip]) satisfies [minv]
           (w's credits = ledger of w's keys up to the cursor, the ready wallets' credits = their ledger over the
           whole synced chain, block records cover them); r's remaining rows are keyed and name real outputs.
           Kept by: every removal step of r (phase 1, a round with any cap; the last round leaves a plain [minv]
           database in which nothing mentions r), a rescan batch of w on any node chain (refused or committed),
           announcements (tip extension, reorganisation with Rollback, stale blocks), attach / detach.
           Histories [xwf_r], what holds at every point of them ([import_remove_run]).
   Part C  the two requests in either order; the packaged theorems [import_during_removal_A/B].
   Closed examples (vm_compute; every interleaving of the shared-transaction histories): Ledger/ImportRemoveExamples.v. *)
From Coq Require Import List ZArith NArith Bool Lia Permutation.
Import ListNotations.
Open Scope Z_scope.
Require Import MW.Ledger.Model MW.Ledger.Spec MW.Ledger.Run MW.Ledger.WF MW.Ledger.Import MW.Ledger.Remove.
Require Import MW.Ledger.Proofs MW.Ledger.Proofs2 MW.Ledger.Proofs3 MW.Ledger.Proofs4 MW.Ledger.Proofs5 MW.Ledger.Proofs6.
Require Import MW.Ledger.RemoveProofs MW.Ledger.RemoveProofs2 MW.Ledger.RemoveProofs3 MW.Ledger.RemoveProofs4 MW.Ledger.RemoveProofs5.
Require Import MW.Ledger.RemoveProofs7.
Require Import MW.Ledger.ImportProofs MW.Ledger.ImportProofs2 MW.Ledger.ImportProofs3.
Require MW.Ledger.FaultOpsProofs.

(* ================================================================ Part A: the round and the other wallets' records *)

(* the spent mark of a credit names a transaction the node has stored that really spends it *)
Definition spent_sound (U : list block) (cr : credit) : Prop :=
  forall a i hs, c_spent cr = Some (a, i, hs) ->
    exists t, In t (chain_txs U) /\ t_id t = a /\ t_cb t = false /\ In (c_tx cr, c_vout cr) (t_ins t).

(* the rows of everybody but r *)
Definition others (r : N) (cs : list credit) : list credit := kept (notw r) cs.

Lemma others_in : forall r cs c, In c (others r cs) <-> In c cs /\ c_wallet c <> r.
Proof.
  intros r cs c. unfold others. rewrite kept_in. unfold notw, notk, isw. split; intros [H1 H2]; split; try assumption.
  - intros E. rewrite E, N.eqb_refl in H2. discriminate.
  - apply negb_true_iff. apply N.eqb_neq. assumption.
Qed.

Lemma repair_sub : forall fx st shs n lookup hot brs h t,
  listed_at (repair fx st shs n lookup brs hot) h t = true -> listed_at brs h t = true.
Proof.
  intros fx st shs n lookup hot. induction hot as [|[t0 h0] r IH]; intros brs h t H; [exact H|].
  cbn [repair] in H. apply IH in H.
  destruct (listed_at brs h0 t0); [|exact H].
  destruct (lookup t0) as [tx0|]; [|exact H].
  destruct (removable fx st shs n tx0); [|exact H].
  destruct (Z.eq_dec h h0) as [Hh|Hh]; [destruct (N.eq_dec t t0) as [Ht|Ht]|].
  - subst. clear IH. exfalso. revert H. unfold listed_at, drop_tx. induction brs as [|br rest IHb]; [discriminate|].
    cbn [flat_map]. destruct (br_h br =? h0) eqn:Eh.
    + destruct (remN t0 (br_txs br)) as [|x l] eqn:Er.
      * cbn [app]. exact IHb.
      * cbn [app existsb br_h br_txs]. rewrite Eh. cbn [andb].
        assert (Hm : memN t0 (x :: l) = false).
        { rewrite <- Er. apply memN_false. unfold remN. intros Hin. apply filter_In in Hin. destruct Hin as [_ Hne].
          rewrite N.eqb_refl in Hne. discriminate. }
        rewrite Hm. cbn [orb]. exact IHb.
    + cbn [app existsb]. rewrite Eh. cbn [andb orb]. exact IHb.
  - rewrite listed_at_drop_tx_other in H by (right; exact Ht). exact H.
  - rewrite listed_at_drop_tx_other in H by (left; exact Hh). exact H.
Qed.

Lemma drop_tx_recs : forall brs h t br, In br (drop_tx brs h t) ->
  exists br0, In br0 brs /\ br_h br0 = br_h br /\ br_bid br0 = br_bid br.
Proof.
  intros brs h t br H. unfold drop_tx in H. apply in_flat_map in H. destruct H as [br0 [Hin H]].
  exists br0. split; [assumption|]. destruct (br_h br0 =? h).
  - destruct (remN t (br_txs br0)); [destruct H|]. destruct H as [H|[]]. subst br. split; reflexivity.
  - destruct H as [H|[]]. subst br. split; reflexivity.
Qed.

Lemma repair_recs : forall fx st shs n lookup hot brs br, In br (repair fx st shs n lookup brs hot) ->
  exists br0, In br0 brs /\ br_h br0 = br_h br /\ br_bid br0 = br_bid br.
Proof.
  intros fx st shs n lookup hot. induction hot as [|[t0 h0] r IH]; intros brs br H.
  - exists br. split; [exact H|split; reflexivity].
  - cbn [repair] in H. apply IH in H. destruct H as [br1 [H1 [Hh Hb]]].
    destruct (listed_at brs h0 t0); [|exists br1; tauto].
    destruct (lookup t0) as [tx0|]; [|exists br1; tauto].
    destruct (removable fx st shs n tx0); [|exists br1; tauto].
    destruct (drop_tx_recs _ _ _ _ H1) as [br0 [H0 [Hh0 Hb0]]]. exists br0. split; [assumption|split; congruence].
Qed.

Section RoundOthers.
Variable fx : fixes.
Hypothesis Hfx_rm : f_removable fx = true.
Hypothesis Hfx_db : f_removable_debit fx = true.
Variable U : list block.
Hypothesis U_txs : GU U.

(* ONE round of the removal of r (any cap; also the last one), on ANY database in which the rows of the other
   wallets are keyed by the keystore, name real outputs and carry real spent marks:
   - the other wallets' credit rows (with their spent marks) are untouched;
   - every transaction record such a row needs — the transaction that created it, the transaction that spent
     it — is still there afterwards.  In particular a transaction T shared by r and a wallet w that is being
     restored keeps its record as soon as ONE row of w needs it (w's output of T is recorded, or a recorded
     coin of w is marked spent by T); if no row of w needs it yet (cursor below), T's record may go — the
     rescan lists T again when it reaches T's block;
   - block records are only shrunk: nothing is listed that was not, heights and block ids stay. *)
Lemma round_keeps_others : forall cap n lookup st r,
  (forall t tx0, lookup t = Some tx0 -> In tx0 (chain_txs U) /\ t_id tx0 = t) ->
  keys_functional st ->
  (forall c, In c (others r (credits (x_w st))) ->
     key_owner st (c_sh c) = Some (c_wallet c) /\ credit_sound U c /\ spent_sound U c) ->
  let st' := fst (remove_round fx cap n lookup st r) in
  others r (credits (x_w st')) = others r (credits (x_w st)) /\
  incl (credits (x_w st')) (credits (x_w st)) /\
  synced (x_w st') = synced (x_w st) /\
  (covered (x_brecs st) (others r (credits (x_w st))) -> covered (x_brecs st') (others r (credits (x_w st')))) /\
  (forall h t, listed_at (x_brecs st') h t = true -> listed_at (x_brecs st) h t = true) /\
  (forall br, In br (x_brecs st') -> exists br0, In br0 (x_brecs st) /\ br_h br0 = br_h br /\ br_bid br0 = br_bid br).
Proof.
  intros cap n lookup st r Hlookup Hfun Hoth st'.
  assert (Hsame : st' = st -> others r (credits (x_w st')) = others r (credits (x_w st)) /\
            incl (credits (x_w st')) (credits (x_w st)) /\ synced (x_w st') = synced (x_w st) /\
            (covered (x_brecs st) (others r (credits (x_w st))) -> covered (x_brecs st') (others r (credits (x_w st')))) /\
            (forall h t, listed_at (x_brecs st') h t = true -> listed_at (x_brecs st) h t = true) /\
            (forall br, In br (x_brecs st') -> exists br0, In br0 (x_brecs st) /\ br_h br0 = br_h br /\ br_bid br0 = br_bid br)).
  { intros ->. split; [reflexivity|]. split; [apply incl_refl|]. split; [reflexivity|]. split; [tauto|]. split; [tauto|].
    intros br Hbr. exists br. split; [assumption|split; reflexivity]. }
  unfold st', remove_round in *. clear st'.
  destruct (status_of st r) as [[|k|]|] eqn:Hs; try (apply Hsame; reflexivity).
  destruct (memN r (x_p1 st)) eqn:Hp1; [|apply Hsame; reflexivity].
  clear Hsame.
  set (shs := sh_of_wallet st r).
  set (cs := credits (x_w st)) in *.
  destruct (match shs with [] => (cs, [], true) | _ => rm_credits shs cap cs 0 [] end) as [[keptl hot] fin] eqn:Hrm.
  set (brs' := repair fx st shs n lookup (x_brecs st) hot).
  assert (Hincl : incl keptl cs).
  { destruct shs as [|s0 sr]; [inversion Hrm; apply incl_refl|]. apply (rm_credits_incl _ _ _ _ _ _ _ _ Hrm). }
  assert (Hnotshs : forall c, In c cs -> c_wallet c <> r -> memN (c_sh c) shs = false).
  { intros c Hc Hne. apply memN_false. intros Hin. destruct (in_sh_of_wallet _ _ _ Hin) as [v' [Hin' Hv']]. subst v'.
    destruct (Hoth c) as [Hk _]; [apply others_in; split; assumption|].
    unfold key_owner in Hk. apply lookupN_in in Hk.
    apply Hne. apply (nodup_fst_inj _ _ _ _ _ Hfun Hk Hin'). }
  assert (Hkept : others r keptl = others r cs).
  { unfold others, kept. destruct shs as [|s0 sr] eqn:Hshs; [inversion Hrm; reflexivity|].
    pose proof (rm_credits_others _ _ _ _ _ _ _ _ Hrm) as Ho.
    assert (Hsub : forall l, incl l cs -> filter (keepc (notw r)) (filter (fun c => negb (memN (c_sh c) (s0 :: sr))) l) = filter (keepc (notw r)) l).
    { intros l Hl. apply RemoveProofs.filter_filter_sub. intros c Hc Hk. rewrite (Hnotshs c (Hl c Hc)); [reflexivity|].
      unfold keepc, notw, notk, isw in Hk. apply negb_true_iff in Hk. apply N.eqb_neq in Hk. assumption. }
    rewrite <- (Hsub keptl Hincl), Ho. apply Hsub. apply incl_refl. }
  assert (Hcov : covered (x_brecs st) (others r cs) -> covered brs' (others r keptl)).
  { intros Hc. rewrite Hkept. intros c Hin. destruct (Hc c Hin) as [H1 H2].
    destruct (Hoth c Hin) as [Hkey [[t [o [Ht [Hid [Hnth [Hsh Hcl]]]]]] Hsp]].
    apply others_in in Hin. destruct Hin as [Hin Hne].
    assert (Hm : memN (c_sh c) shs = false) by (apply Hnotshs; assumption).
    split.
    - unfold lst in *. apply repair_keeps; [exact H1|]. intros tx0 Hlk. apply Hlookup in Hlk. destruct Hlk as [Htx0 Hid0].
      assert (tx0 = t) by (apply U_txs; [assumption|assumption|congruence]). subst tx0.
      apply (removable_false_out fx st shs n t o (nth_error_In _ _ Hnth) Hcl); rewrite Hsh; [exact Hm|].
      rewrite Hkey. reflexivity.
    - intros a i hs Hspent. unfold lst in *. apply repair_keeps; [exact (H2 a i hs Hspent)|].
      intros tx0 Hlk. apply Hlookup in Hlk. destruct Hlk as [Htx0 Hid0].
      destruct (Hsp a i hs Hspent) as [ts [Hts [Hida [Hcb Hop]]]].
      assert (tx0 = ts) by (apply U_txs; [assumption|assumption|congruence]). subst tx0.
      apply (removable_false_in_db fx Hfx_rm st shs n ts (c_tx c, c_vout c) c Hfx_db Hcb Hop Hin); try reflexivity; [exact Hm|].
      rewrite Hkey. reflexivity. }
  destruct fin; cbn [fst x_w x_brecs credits synced]; fold brs'.
  - split; [exact Hkept|]. split; [exact Hincl|]. split; [reflexivity|]. split; [exact Hcov|].
    split; [intros h t; apply repair_sub|intros br; apply repair_recs].
  - split; [exact Hkept|]. split; [exact Hincl|]. split; [reflexivity|]. split; [exact Hcov|].
    split; [intros h t; apply repair_sub|intros br; apply repair_recs].
Qed.

End RoundOthers.

(* ================================================================ Part B: the invariant *)

Lemma filter_all_true : forall (A : Type) (f : A -> bool) l, (forall x, In x l -> f x = true) -> filter f l = l.
Proof.
  intros A f l H. induction l as [|a l IH]; [reflexivity|]. cbn [filter]. rewrite (H a (or_introl eq_refl)).
  f_equal. apply IH. intros x Hx. apply H. right. assumption.
Qed.

Lemma kept_comm : forall f h cs, kept f (kept h cs) = kept h (kept f cs).
Proof.
  intros f h cs. unfold kept. induction cs as [|c l IH]; [reflexivity|]. cbn [filter].
  destruct (keepc h c) eqn:Eh; destruct (keepc f c) eqn:Ef; cbn [filter]; rewrite ?Eh, ?Ef, IH; reflexivity.
Qed.

Lemma kept_filter_comm : forall f (q : credit -> bool) cs, kept f (filter q cs) = filter q (kept f cs).
Proof.
  intros f q cs. unfold kept. induction cs as [|c l IH]; [reflexivity|]. cbn [filter].
  destruct (q c) eqn:Eq; destruct (keepc f c) eqn:Ef; cbn [filter]; rewrite ?Eq, ?Ef, IH; reflexivity.
Qed.

Lemma kept_map_comm : forall f (m : credit -> credit) cs, (forall c, c_wallet (m c) = c_wallet c) ->
  kept f (map m cs) = map m (kept f cs).
Proof.
  intros f m cs Hm. unfold kept. induction cs as [|c l IH]; [reflexivity|]. cbn [map filter].
  unfold keepc at 1. rewrite Hm. fold (keepc f c). destruct (keepc f c); cbn [map]; rewrite IH; reflexivity.
Qed.

Lemma E_row_facts : forall p U own c0 cr, incl c0 U -> In cr (E p own (ptxs c0)) ->
  own (c_sh cr) = Some (c_wallet cr) /\ credit_sound U cr /\ spent_sound U cr.
Proof.
  intros p U own c0 cr HU Hin. unfold E, mkE in Hin. apply in_map_iff in Hin. destruct Hin as [k [Hk Hin]]. subst cr.
  destruct (coin_sound p U own c0 k HU Hin (spender_l (ptxs c0) (coin_op k))) as [H1 H2].
  split; [exact H2|]. split; [exact H1|].
  intros a i hs Hs. cbn [mk_credit c_spent c_tx c_vout] in *.
  apply spender_l_some_full in Hs. destruct Hs as [x [Hx [Hcb [Hop [Ha _]]]]].
  destruct (in_ptxs _ _ Hx) as [b [Hb [Ht _]]].
  exists (pt_tx x). split; [apply in_chain_txs; exists b; split; [apply HU|]; assumption|].
  split; [symmetry; assumption|]. split; assumption.
Qed.

Lemma ownW_lookup : forall w keys sh v, ownW w keys sh = Some v -> lookupN keys sh = Some v.
Proof.
  intros w keys sh v H. unfold ownW, kown in H. destruct (lookupN keys sh) as [v'|]; [|discriminate].
  destruct (v' =? w)%N eqn:E; inversion H. subst v. apply N.eqb_eq in E. subst. reflexivity.
Qed.

Lemma own0_lookup : forall w keys sh v, own0 w keys sh = Some v -> lookupN keys sh = Some v.
Proof.
  intros w keys sh v H. unfold own0, own_sel, ownA in H. destruct (lookupN keys sh) as [v'|]; [|discriminate].
  destruct (notw w v'); inversion H. reflexivity.
Qed.

Lemma lookupN_map_pull : forall (l : list (N * wst)) h v,
  lookupN (map (fun e => (fst e, pull_back h (snd e))) l) v = option_map (pull_back h) (lookupN l v).
Proof.
  intros l h v. induction l as [|[k s] l IH]; [reflexivity|]. cbn [map lookupN fst snd].
  destruct (k =? v)%N; [reflexivity|exact IH].
Qed.

Lemma delN_map_pull : forall (l : list (N * wst)) h k,
  delN (map (fun e => (fst e, pull_back h (snd e))) l) k = map (fun e => (fst e, pull_back h (snd e))) (delN l k).
Proof.
  intros l h k. unfold delN. induction l as [|[k0 s] l IH]; [reflexivity|]. cbn [map filter fst snd].
  destruct (k0 =? k)%N; cbn [negb map fst snd]; rewrite IH; reflexivity.
Qed.

Lemma delN_setN_other : forall (A : Type) (l : list (N * A)) k k' v, k' <> k ->
  forall x, lookupN (delN (setN l k' v) k) x = lookupN (setN (delN l k) k' v) x.
Proof.
  intros A l k k' v Hne x. destruct (N.eq_dec x k) as [->|Hxk].
  - rewrite lookupN_delN. rewrite lookupN_setN_other by (intros E; apply Hne; symmetry; exact E). rewrite lookupN_delN. reflexivity.
  - rewrite lookupN_delN_other by assumption. destruct (N.eq_dec x k') as [->|Hxk'].
    + rewrite !lookupN_setN_same. reflexivity.
    + rewrite !lookupN_setN_other by assumption. rewrite lookupN_delN_other by assumption. reflexivity.
Qed.

Section IR.
Variable p : params.
Variable g : block.
Variable U : list block.
Hypothesis U_ids : forall b1 b2, In b1 U -> In b2 U -> b_id b1 = b_id b2 -> b1 = b2.
Hypothesis U_txs : GU U.
Variables w r : N.
Hypothesis w_ne_r : w <> r.
Variable keysS : list (N * N).       (* the keystore table WITHOUT r's entries: the other wallets' keys and w's *)

(* the database without the rows of r *)
Definition strip (st : xstate) : xstate :=
  {| x_w := {| credits := others r (credits (x_w st)); synced := synced (x_w st) |};
     x_keys := filter (fun e => negb (snd e =? r)%N) (x_keys st);
     x_pass := delN (x_pass st) r;
     x_status := delN (x_status st) r;
     x_brecs := x_brecs st;
     x_balrow := remN r (x_balrow st);
     x_ugame := filter (fun e => negb (fst (fst e) =? r)%N) (x_ugame st);
     x_dead := x_dead st; x_p1 := remN r (x_p1 st) |}.

(* r is being removed (status WRemoving, its keystore still there) while w is absent, importing or ready and
   every other keyed wallet is ready:
   - without r's rows the database satisfies [minv]: w's credits = the ledger of w's keys up to its cursor, the
     ready wallets' credits = their ledger over the whole synced chain, the block records cover these rows;
   - r's remaining rows (what the removal has not deleted yet; as in RemoveProofs4 [StInv] nothing more is known
     of them) are keyed by r's keystore and name real outputs;
   - once phase 1 has run, r has no balance row and no pending game row. *)
Record minv_r (c : list block) (st : xstate) : Prop := {
  mr_minv : minv p g U w keysS c (strip st);
  mr_status : status_of st r = Some WRemoving;
  mr_fun : keys_functional st;
  mr_junk : forall cr, In cr (credits (x_w st)) -> c_wallet cr = r -> key_owner st (c_sh cr) = Some r /\ credit_sound U cr;
  mr_p1 : memN r (x_p1 st) = true -> no_residue st r
}.

Lemma strip_status : forall st v, v <> r -> status_of (strip st) v = status_of st v.
Proof. intros st v H. unfold status_of, strip. cbn [x_status]. apply lookupN_delN_other. assumption. Qed.

Lemma strip_key_back : forall st sh v, keys_functional st ->
  lookupN (x_keys (strip st)) sh = Some v -> lookupN (x_keys st) sh = Some v /\ v <> r.
Proof.
  intros st sh v Hfun H. cbn [strip x_keys] in H. destruct (lookupN (x_keys st) sh) as [v0|] eqn:Hl.
  - destruct (N.eq_dec v0 r) as [->|Hne].
    + rewrite (lookupN_filter_none (x_keys st) _ sh Hfun) in H; [discriminate|].
      intros v1 Hv1. rewrite Hl in Hv1. inversion Hv1. subst. cbn [snd]. rewrite N.eqb_refl. reflexivity.
    + rewrite (lookupN_filter_snd (x_keys st) r sh v0 Hfun Hl Hne) in H. inversion H. subst. split; [reflexivity|assumption].
  - rewrite (lookupN_filter_none (x_keys st) _ sh Hfun) in H; [discriminate|]. intros v1 Hv1. rewrite Hl in Hv1. discriminate.
Qed.

Lemma strip_key_fwd : forall st sh, keys_functional st ->
  lookupN (x_keys (strip st)) sh = match lookupN (x_keys st) sh with Some v => if (v =? r)%N then None else Some v | None => None end.
Proof.
  intros st sh Hfun. cbn [strip x_keys]. destruct (lookupN (x_keys st) sh) as [v0|] eqn:Hl.
  - destruct (v0 =? r)%N eqn:E.
    + apply N.eqb_eq in E. subst. apply (lookupN_filter_none (x_keys st) _ sh Hfun).
      intros v1 Hv1. rewrite Hl in Hv1. inversion Hv1. subst. cbn [snd]. rewrite N.eqb_refl. reflexivity.
    + apply N.eqb_neq in E. apply (lookupN_filter_snd (x_keys st) r sh v0 Hfun Hl E).
  - apply (lookupN_filter_none (x_keys st) _ sh Hfun). intros v1 Hv1. rewrite Hl in Hv1. discriminate.
Qed.

Lemma strip_ready_own : forall st, keys_functional st -> status_of st r = Some WRemoving ->
  forall sh, ready_own (strip st) sh = ready_own st sh.
Proof.
  intros st Hfun Hs sh. unfold ready_own, key_owner. rewrite (strip_key_fwd st sh Hfun).
  destruct (lookupN (x_keys st) sh) as [v|]; [|reflexivity]. destruct (v =? r)%N eqn:E.
  - apply N.eqb_eq in E. subst. unfold is_ready. rewrite Hs. reflexivity.
  - apply N.eqb_neq in E. unfold is_ready. rewrite (strip_status st v E). reflexivity.
Qed.

Lemma strip_own_w : forall st, keys_functional st -> forall sh, own_w (strip st) w sh = own_w st w sh.
Proof.
  intros st Hfun sh. unfold own_w, key_owner. rewrite (strip_key_fwd st sh Hfun).
  destruct (lookupN (x_keys st) sh) as [v|]; [|reflexivity]. destruct (v =? r)%N eqn:E; [|reflexivity].
  apply N.eqb_eq in E. subst. destruct (r =? w)%N eqn:E2; [|reflexivity]. apply N.eqb_eq in E2. exfalso. apply w_ne_r. symmetry. assumption.
Qed.

(* what the invariant says about the rows of everybody but r *)
Lemma others_facts : forall c st, minv_r c st -> forall cr, In cr (others r (credits (x_w st))) ->
  key_owner st (c_sh cr) = Some (c_wallet cr) /\ credit_sound U cr /\ spent_sound U cr.
Proof.
  intros c st [Hm Hs Hfun Hj _] cr Hin.
  destruct Hm as [Hwf Hg HU Hsy Hkeys _ _ _ [top [_ [_ [Hcw [Hco _]]]]]].
  cbn [strip x_w credits] in Hcw, Hco.
  assert (Hk : forall v, lookupN keysS (c_sh cr) = Some v -> key_owner st (c_sh cr) = Some v).
  { intros v Hv. rewrite <- Hkeys in Hv. apply (strip_key_back st _ _ Hfun) in Hv. unfold key_owner. tauto. }
  destruct (kept_or_junk (isw w) _ cr Hin) as [H|H].
  - rewrite Hcw in H.
    assert (HU' : incl (upto top c) U) by (intros z Hz; apply HU; apply (upto_incl top c); assumption).
    destruct (E_row_facts p U _ (upto top c) cr HU' H) as [H1 H2].
    split; [|exact H2]. apply Hk. apply (ownW_lookup w). assumption.
  - change (junk (isw w) (others r (credits (x_w st)))) with (kept (notw w) (others r (credits (x_w st)))) in H.
    rewrite Hco in H. destruct (E_row_facts p U _ c cr HU H) as [H1 H2].
    split; [|exact H2]. apply Hk. apply (own0_lookup w). assumption.
Qed.

Lemma minv_r_keyed : forall c st, minv_r c st -> credits_keyed st.
Proof.
  intros c st Hinv cr Hin. destruct (N.eq_dec (c_wallet cr) r) as [E|E].
  - rewrite E. apply (mr_junk _ _ Hinv cr Hin E).
  - apply (others_facts c st Hinv cr). apply others_in. split; assumption.
Qed.

(* [minv] reads the credits through its two projections, the synced chain, the key table, the statuses and the
   block records only *)
Lemma minv_update : forall keysA c st1 st2, minv p g U w keysA c st1 ->
  synced (x_w st2) = synced (x_w st1) -> x_keys st2 = x_keys st1 -> x_dead st2 = x_dead st1 ->
  (forall v, status_of st2 v = status_of st1 v) ->
  kept (isw w) (credits (x_w st2)) = kept (isw w) (credits (x_w st1)) ->
  kept (notw w) (credits (x_w st2)) = kept (notw w) (credits (x_w st1)) ->
  covered (x_brecs st2) (credits (x_w st2)) ->
  (forall br, In br (x_brecs st2) -> exists br0, In br0 (x_brecs st1) /\ br_h br0 = br_h br /\ br_bid br0 = br_bid br) ->
  minv p g U w keysA c st2.
Proof.
  intros keysA c st1 st2 [Hwf Hg HU Hsy Hkeys Hdead Hcov Hoth [top [Htop [Hrange [Hcw [Hco [Hbok Hble]]]]]]]
         Es Ek Ed Est Ew Eo Hcov2 Hrecs.
  constructor; try assumption.
  - rewrite Es. assumption.
  - rewrite Ek. assumption.
  - rewrite Ed. assumption.
  - intros sh v Hl Hne. rewrite Est. apply (Hoth sh v Hl Hne).
  - exists top. split; [|split; [assumption|split; [|split; [|split]]]].
    + unfold top_is_m in *. rewrite (Est w). exact Htop.
    + rewrite Ew. assumption.
    + rewrite Eo. assumption.
    + intros br Hbr. destruct (Hrecs br Hbr) as [br0 [H0 [Hh Hb]]]. destruct (Hbok br0 H0) as [b [Hb1 [Hb2 Hb3]]].
      exists b. split; [assumption|split; congruence].
    + intros br Hbr. destruct (Hrecs br Hbr) as [br0 [H0 [Hh Hb]]]. specialize (Hble br0 H0). lia.
Qed.

Lemma recs_refl : forall brs br, In br brs -> exists br0 : brec, In br0 brs /\ br_h br0 = br_h br /\ br_bid br0 = br_bid br.
Proof. intros brs br H. exists br. split; [assumption|split; reflexivity]. Qed.

(* ---------------------------------------------------------------- the removal steps of r *)

Lemma round_shape : forall fx cap n lookup st v,
  let st' := fst (remove_round fx cap n lookup st v) in
  x_dead st' = x_dead st /\ x_balrow st' = x_balrow st /\ x_ugame st' = x_ugame st /\
  ((snd (remove_round fx cap n lookup st v) = false /\
    x_keys st' = x_keys st /\ x_status st' = x_status st /\ x_pass st' = x_pass st /\ x_p1 st' = x_p1 st) \/
   (snd (remove_round fx cap n lookup st v) = true /\ memN v (x_p1 st) = true /\
    x_keys st' = filter (fun e => negb (snd e =? v)%N) (x_keys st) /\ x_status st' = delN (x_status st) v /\
    x_pass st' = delN (x_pass st) v /\ x_p1 st' = remN v (x_p1 st) /\
    forall c, In c (credits (x_w st')) -> memN (c_sh c) (sh_of_wallet st v) = false)).
Proof.
  intros fx cap n lookup st v. cbv zeta. unfold remove_round.
  destruct (status_of st v) as [[|k|]|]; cbn [fst snd]; try (repeat split; left; repeat split; fail).
  destruct (memN v (x_p1 st)) eqn:Hp1; cbn [fst snd]; [|repeat split; left; repeat split].
  destruct (sh_of_wallet st v) as [|s0 sr] eqn:Hshs.
  - cbn [fst snd x_dead x_balrow x_ugame x_keys x_status x_pass x_p1 x_w credits]. repeat split. right. repeat split.
  - destruct (rm_credits (s0 :: sr) cap (credits (x_w st)) 0 []) as [[keptl hot] fin] eqn:Hrm.
    destruct fin; cbn [fst snd x_dead x_balrow x_ugame x_keys x_status x_pass x_p1 x_w credits].
    + repeat split. right. repeat split. intros c Hc. apply (rm_credits_finished _ _ _ _ _ _ _ Hrm c Hc).
    + repeat split. left. repeat split.
Qed.

Section Round.
Variable fx : fixes.
Hypothesis Hfx_rm : f_removable fx = true.
Hypothesis Hfx_db : f_removable_debit fx = true.

(* a round of the removal of r, any cap: while more rounds are to come the invariant stays; the LAST round leaves
   a database that satisfies [minv] as it is — r is gone, and nothing the other wallets need went with it *)
Lemma rround_inv : forall cap n lookup c st,
  (forall t tx0, lookup t = Some tx0 -> In tx0 (chain_txs U) /\ t_id tx0 = t) ->
  minv_r c st ->
  let st' := fst (remove_round fx cap n lookup st r) in
  (snd (remove_round fx cap n lookup st r) = false /\ minv_r c st') \/
  (snd (remove_round fx cap n lookup st r) = true /\ minv p g U w keysS c st' /\
   mentions st' r (sh_of_wallet st r) = false).
Proof.
  intros cap n lookup c st Hlookup Hinv st'.
  pose proof (others_facts c st Hinv) as Hof.
  destruct (round_keeps_others fx Hfx_rm Hfx_db U U_txs cap n lookup st r Hlookup (mr_fun _ _ Hinv) Hof)
    as [Hk [Hincl [Hsy [Hcov [_ Hrecs]]]]].
  fold st' in Hk, Hincl, Hsy, Hcov, Hrecs.
  destruct (round_shape fx cap n lookup st r) as [Hd [Hbal [Hug Hshape]]]. fold st' in Hd, Hbal, Hug, Hshape.
  pose proof (mr_minv _ _ Hinv) as Hm.
  destruct Hshape as [[Hfin [Hkeys [Hst [Hpass Hp1]]]]|[Hfin [Hp1r [Hkeys [Hst [Hpass [Hp1 Hnone]]]]]]].
  - left. split; [exact Hfin|]. constructor.
    + apply (minv_update keysS c (strip st) (strip st') Hm); cbn [strip x_w x_keys x_dead x_status x_brecs credits synced].
      * exact Hsy.
      * rewrite Hkeys. reflexivity.
      * exact Hd.
      * intros v. unfold status_of. cbn [strip x_status]. rewrite Hst. reflexivity.
      * rewrite Hk. reflexivity.
      * rewrite Hk. reflexivity.
      * apply Hcov. exact (mi_cov _ _ _ _ _ _ _ Hm).
      * exact Hrecs.
    + unfold status_of. rewrite Hst. exact (mr_status _ _ Hinv).
    + unfold keys_functional. rewrite Hkeys. exact (mr_fun _ _ Hinv).
    + intros cr Hcr Hw. unfold key_owner. rewrite Hkeys. apply (mr_junk _ _ Hinv cr (Hincl cr Hcr) Hw).
    + intros H. rewrite Hp1 in H. destruct (mr_p1 _ _ Hinv H) as [H1 H2]. split.
      * rewrite Hbal. exact H1.
      * rewrite Hug. exact H2.
  - right. split; [exact Hfin|].
    assert (Hnor : forall cr, In cr (credits (x_w st')) -> c_wallet cr <> r).
    { intros cr Hcr E. destruct (mr_junk _ _ Hinv cr (Hincl cr Hcr) E) as [Hko _].
      apply key_owner_in_sh in Hko. rewrite (Hnone cr Hcr) in Hko. discriminate. }
    assert (Hall : others r (credits (x_w st')) = credits (x_w st')).
    { unfold others, kept. apply filter_all_true. intros cr Hcr. unfold keepc, notw, notk, isw.
      apply negb_true_iff. apply N.eqb_neq. apply Hnor. assumption. }
    split.
    + apply (minv_update keysS c (strip st) st' Hm); cbn [strip x_w x_keys x_dead x_status x_brecs credits synced].
      * exact Hsy.
      * exact Hkeys.
      * exact Hd.
      * intros v. unfold status_of. cbn [strip x_status]. rewrite Hst. reflexivity.
      * rewrite <- Hk, Hall. reflexivity.
      * rewrite <- Hk, Hall. reflexivity.
      * rewrite <- Hall. apply Hcov. exact (mi_cov _ _ _ _ _ _ _ Hm).
      * exact Hrecs.
    + destruct (remove_round fx cap n lookup st r) as [st2 fin] eqn:Hrr. cbn [snd] in Hfin. subst fin.
      cbn [fst] in st'. subst st'.
      apply (remove_erases fx cap n lookup st r st2 (minv_r_keyed c st Hinv) (mr_fun _ _ Hinv) (mr_p1 _ _ Hinv Hp1r) Hrr).
Qed.

End Round.

Lemma rphase1_inv : forall c st, minv_r c st -> minv_r c (remove_phase1 st r).
Proof.
  intros c st Hinv. unfold remove_phase1. rewrite (mr_status _ _ Hinv).
  destruct (is_some (lookupN (x_pass st) r)) eqn:Hp; [|exact Hinv].
  pose proof (mr_minv _ _ Hinv) as Hm. constructor.
  - apply (minv_update keysS c (strip st) _ Hm); cbn [strip x_w x_keys x_dead x_status x_brecs credits synced]; try reflexivity.
    + exact (mi_cov _ _ _ _ _ _ _ Hm).
    + apply recs_refl.
  - exact (mr_status _ _ Hinv).
  - exact (mr_fun _ _ Hinv).
  - exact (mr_junk _ _ Hinv).
  - intros _. destruct (remove_phase1_no_residue st r (mr_status _ _ Hinv) Hp) as [H _].
    unfold remove_phase1 in H. rewrite (mr_status _ _ Hinv), Hp in H. exact H.
Qed.

(* ---------------------------------------------------------------- the rescan with pointwise equal owner functions *)

Lemma out_owner_ext_all : forall own1 own2, (forall sh, own1 sh = own2 sh) -> forall o, out_owner own1 o = out_owner own2 o.
Proof. intros own1 own2 H o. unfold out_owner. destruct (o_class o); try reflexivity; apply H. Qed.

Lemma filter_outs_ext_all : forall own1 own2, (forall sh, own1 sh = own2 sh) ->
  forall outs i, filter_outs own1 outs i = filter_outs own2 outs i.
Proof.
  intros own1 own2 H outs. induction outs as [|o rest IH]; intros i; [reflexivity|].
  rewrite !filter_outs_cons, (out_owner_ext_all own1 own2 H). destruct (out_owner own2 o); rewrite IH; reflexivity.
Qed.

Lemma import_ins_ext_all : forall own1 own2, (forall sh, own1 sh = own2 sh) ->
  forall n h ins i, import_ins own1 n h ins i = import_ins own2 n h ins i.
Proof.
  intros own1 own2 H n h ins. induction ins as [|[ph pv] rest IH]; intros i; [reflexivity|].
  cbn [import_ins]. destruct (node_tx_upto n h ph) as [pt|]; [|reflexivity].
  destruct (nth_error (t_outs pt) (N.to_nat pv)) as [o|]; [|reflexivity].
  rewrite IH. destruct (import_ins own2 n h rest (i + 1)%N) as [l|]; [|reflexivity].
  rewrite H. reflexivity.
Qed.

Lemma existsb_ext_all : forall (A : Type) (f1 f2 : A -> bool) l, (forall x, f1 x = f2 x) -> existsb f1 l = existsb f2 l.
Proof. intros A f1 f2 l H. induction l as [|a l IH]; [reflexivity|]. cbn [existsb]. rewrite H, IH. reflexivity. Qed.

Lemma touches_ext_all : forall own1 own2, (forall sh, own1 sh = own2 sh) -> forall n h t, touches own1 n h t = touches own2 n h t.
Proof.
  intros own1 own2 H n h t. unfold touches.
  assert (Ho : forall o, out_touches own1 o = out_touches own2 o).
  { intros o. unfold out_touches. rewrite H. reflexivity. }
  rewrite (existsb_ext_all _ _ _ (t_outs t) Ho). f_equal. f_equal. apply existsb_ext_all.
  intros op. unfold in_touches. destruct (node_tx_upto n h (fst op)) as [pt|]; [|reflexivity].
  destruct (nth_error (t_outs pt) (N.to_nat (snd op))); [apply Ho|reflexivity].
Qed.

Lemma import_tx_ext_all : forall p0 own1 own2, (forall sh, own1 sh = own2 sh) ->
  forall n h bid acc t, import_tx p0 own1 n h bid acc t = import_tx p0 own2 n h bid acc t.
Proof.
  intros p0 own1 own2 H n h bid acc t. unfold import_tx.
  rewrite (import_ins_ext_all own1 own2 H), (filter_outs_ext_all own1 own2 H). reflexivity.
Qed.

Lemma import_txs_ext_all : forall p0 own1 own2, (forall sh, own1 sh = own2 sh) ->
  forall n h bid ts acc, import_txs p0 own1 n h bid acc ts = import_txs p0 own2 n h bid acc ts.
Proof.
  intros p0 own1 own2 H n h bid ts. induction ts as [|t rest IH]; intros acc; [reflexivity|].
  cbn [import_txs]. rewrite (import_tx_ext_all p0 own1 own2 H). destruct (import_tx p0 own2 n h bid acc t); [apply IH|reflexivity].
Qed.

Lemma import_blocks_ext_all : forall p0 own1 own2, (forall sh, own1 sh = own2 sh) ->
  forall n k stop bs acc, import_blocks p0 own1 n k stop acc bs = import_blocks p0 own2 n k stop acc bs.
Proof.
  intros p0 own1 own2 H n k stop bs. induction bs as [|b rest IH]; intros acc; [reflexivity|].
  cbn [import_blocks]. destruct ((k <? b_height b) && (b_height b <=? stop)); [|apply IH].
  rewrite (filter_ext _ _ (touches_ext_all own1 own2 H n (b_height b))).
  rewrite (import_txs_ext_all p0 own1 own2 H).
  destruct (import_txs p0 own2 n (b_height b) (b_id b) acc (filter (touches own2 n (b_height b)) (b_txs b))); [apply IH|reflexivity].
Qed.

(* ---------------------------------------------------------------- a rescan batch of w while r is being removed *)

(* one script hash, one wallet: no remaining row of r sits at an output that pays a wallet of the table without r *)
Lemma junk_r_never_at : forall c st own l t ro h bid,
  minv_r c st -> (forall sh v, own sh = Some v -> lookupN keysS sh = Some v) ->
  (forall cr, In cr l -> In cr (credits (x_w st)) /\ c_wallet cr = r) ->
  In t (chain_txs U) -> In ro (filter_outs own (t_outs t) 0%N) ->
  exists_credit_at l (t_id t, ro_index ro) h bid = false.
Proof.
  intros c st own l t ro h bid Hinv Hown Hl Ht Hro. unfold exists_credit_at. apply not_true_is_false. intros Hex.
  apply existsb_exists in Hex. destruct Hex as [cr [Hcr Hb]].
  apply andb_true_iff in Hb. destruct Hb as [Hb _]. apply andb_true_iff in Hb. destruct Hb as [Hb _].
  apply op_eqb_eq in Hb. unfold credit_op in Hb. inversion Hb as [[Htx Hvout]]. clear Hb.
  destruct (Hl cr Hcr) as [Hin Hw].
  destruct (mr_junk _ _ Hinv cr Hin Hw) as [Hko [t' [o [Ht' [Hid [Hnth [Hsh _]]]]]]].
  assert (t' = t) by (apply U_txs; [assumption|assumption|congruence]). subst t'.
  apply filter_outs_in in Hro. destruct Hro as [j [Hj [Hnj Ho]]].
  rewrite Hvout, Hj, N.add_0_l, Nat2N.id in Hnth. rewrite Hnj in Hnth. inversion Hnth. subst o.
  apply out_owner_some in Ho. destruct Ho as [Ho _]. apply Hown in Ho.
  rewrite <- (mi_keys _ _ _ _ _ _ _ (mr_minv _ _ Hinv)) in Ho.
  apply (strip_key_back st _ _ (mr_fun _ _ Hinv)) in Ho. destruct Ho as [Ho Hne].
  unfold key_owner in Hko. rewrite Hsh, Hko in Ho. inversion Ho. apply Hne. symmetry. assumption.
Qed.

Lemma kept_isw_others : forall l, kept (isw w) (others r l) = kept (isw w) l.
Proof.
  intros l. unfold others. apply kept_kept_sub. intros x Hx. unfold isw in Hx. apply N.eqb_eq in Hx. subst x.
  unfold notw, notk, isw. apply negb_true_iff. apply N.eqb_neq. exact w_ne_r.
Qed.

Lemma in_junk_notw_r : forall l cr, In cr (junk (notw r) l) -> In cr l /\ c_wallet cr = r.
Proof.
  intros l cr H. apply in_junk in H. destruct H as [H1 H2]. split; [assumption|].
  unfold notw, notk, isw in H2. apply negb_false_iff in H2. apply N.eqb_eq in H2. assumption.
Qed.

Lemma rbatch_inv : forall B c n st, ninv g U n -> 0 < B -> minv_r c st ->
  minv_r c (fst (import_batch repaired p B n st w)).
Proof.
  intros B c n st Hninv HB Hinv. pose proof Hninv as [Hwfn [Hgn HnU]].
  pose proof (mr_minv _ _ Hinv) as Hm. pose proof (mr_fun _ _ Hinv) as Hfun.
  pose proof Hm as [Hwf Hg HU Hsy Hkeys Hdead Hcov Hoth [top [Htop [Hrange [Hcw [Hco [Hbok Hble]]]]]]].
  cbn [strip x_w x_dead x_brecs credits synced] in Hsy, Hdead, Hcov, Hcw, Hco, Hbok, Hble.
  destruct (wf_linked _ Hwf) as [pvc Hlc]. destruct (wf_linked _ Hwfn) as [pvn Hln].
  unfold import_batch. rewrite <- (strip_status st w w_ne_r).
  destruct Htop as [Hs|[Ht [Hs|[Hs _]]]].
  2:{ rewrite Hs. exact Hinv. }
  2:{ rewrite Hs. exact Hinv. }
  rewrite Hs, Hdead. cbn [memN existsb].
  assert (Hbest : fst (tip (x_w st)) = chain_height c).
  { rewrite (xw_eta st), Hsy. apply tip_of_synced. assumption. }
  rewrite Hbest.
  set (oW := ownW w keysS).
  assert (HoW : forall sh, own_w st w sh = oW sh).
  { intros sh. rewrite <- (strip_own_w st Hfun sh). rewrite (own_w_kown w keysS (strip st) Hkeys). reflexivity. }
  rewrite (import_blocks_ext_all p (own_w st w) oW HoW).
  set (stop := Z.min (top + B) (chain_height c)).
  assert (Hstop : top <= stop <= chain_height c) by (unfold stop; lia).
  set (cs := credits (x_w st)) in *.
  destruct (import_blocks p oW n top stop (cs, x_brecs st) n) as [[cs' brs']|e] eqn:Hb.
  2:{ destruct e; cbn; exact Hinv. }
  cbn [repaired f_import_tipcheck andb].
  assert (Hnos : node_on_synced n (x_w (strip st)) stop = node_on_synced n (x_w st) stop) by reflexivity.
  destruct (node_on_synced n (x_w st) stop) eqn:Hchk; cbn [negb fst]; [|exact Hinv].
  destruct (node_on_synced_upto_m p g U U_ids w keysS c n (strip st) stop Hninv Hm Hnos) as [_ [Hsn Hups]].
  assert (Hupt : upto top c = upto top n).
  { rewrite <- (upto_upto top stop c), <- (upto_upto top stop n) by lia. rewrite Hups. reflexivity. }
  destruct (import_blocks_exact2 p oW n c top stop (x_brecs st) Hwfn ltac:(lia) Hsn) as [brs'' [Hex Hbok']].
  { rewrite <- Hups. apply upto_incl. }
  { apply (linked_uniq_heights _ _ Hlc). }
  { assumption. }
  unfold oW in Hex. rewrite <- Hupt, <- Hcw in Hex. fold oW in Hex.
  assert (Hread : forall b0 t, In b0 n -> top < b_height b0 <= stop -> In t (b_txs b0) -> In t (chain_txs c)).
  { intros b0 t Hb0 Hrg Ht0. unfold chain_txs. apply in_flat_map. exists b0. split; [|assumption].
    apply (upto_incl stop c). rewrite Hups. apply (in_upto n pvn b0 stop Hln Hb0). lia. }
  assert (HcU : forall t, In t (chain_txs c) -> In t (chain_txs U)).
  { intros t Ht0. apply in_chain_txs in Ht0. destruct Ht0 as [b0 [Hb0 Ht0]]. apply in_chain_txs. exists b0. split; [apply HU|]; assumption. }
  (* the batch on the database without r's rows *)
  destruct (import_blocks_proj (isw w) p oW (ownW_isw w keysS) n top stop n (others r cs) (x_brecs st) _ brs'' Hex) as [cs2 [Hb2 [Hk2 Hj2]]].
  { intros b0 t ro Hb0 Hrg Ht0 Hro. change (junk (isw w) (others r cs)) with (kept (notw w) (others r cs)). rewrite Hco.
    apply (others_never_at_w_outputs p w keysS); [apply (wf_txids _ Hwf)|apply (Hread b0 t Hb0 Hrg Ht0)|assumption]. }
  (* the batch on the database as it is *)
  rewrite kept_isw_others in Hex.
  destruct (import_blocks_proj (isw w) p oW (ownW_isw w keysS) n top stop n cs (x_brecs st) _ brs'' Hex) as [cs1 [Hb1 [Hk1 Hj1]]].
  { intros b0 t ro Hb0 Hrg Ht0 Hro. rewrite (exists_credit_at_split (notw r)). apply orb_false_iff. split.
    - change (junk (isw w) cs) with (kept (notw w) cs). rewrite kept_comm. fold (others r cs). rewrite Hco.
      apply (others_never_at_w_outputs p w keysS); [apply (wf_txids _ Hwf)|apply (Hread b0 t Hb0 Hrg Ht0)|assumption].
    - apply (junk_r_never_at c st oW _ t ro _ _ Hinv).
      + intros sh v Hv. apply (ownW_lookup w). assumption.
      + intros cr Hcr. apply in_junk_notw_r in Hcr. destruct Hcr as [Hcr Hw]. apply in_junk in Hcr. tauto.
      + apply HcU. apply (Hread b0 t Hb0 Hrg Ht0).
      + assumption. }
  rewrite Hb1 in Hb. inversion Hb. subst cs1 brs''. clear Hb.
  destruct (import_blocks_above _ _ _ _ _ _ _ _ _ _ Hb2) as [_ [G2 [_ G4]]].
  assert (Hoth' : others r cs' = kept (isw w) cs2 ++ junk (isw w) cs2 -> True) by (intros; exact I).
  assert (Hsub : forall cr, In cr (others r cs') -> In cr cs2).
  { intros cr Hcr. apply others_in in Hcr. destruct Hcr as [Hcr Hne].
    destruct (kept_or_junk (isw w) cs' cr Hcr) as [H|H].
    - rewrite Hk1, <- Hk2 in H. apply kept_in in H. tauto.
    - rewrite Hj1 in H. apply in_junk in H. destruct H as [H1 H2].
      assert (H3 : In cr (junk (isw w) (others r cs))).
      { unfold junk. apply filter_In. split; [apply others_in; split; assumption|]. unfold keepc. rewrite H2. reflexivity. }
      rewrite <- Hj2 in H3. apply in_junk in H3. tauto. }
  set (s' := if stop =? chain_height c then WReady else WImporting stop).
  constructor.
  - constructor; cbn [strip with_status with_brecs with_w x_w x_brecs x_keys x_dead x_status credits synced]; try assumption.
    + intros cr Hcr. apply (G2 Hcov cr (Hsub cr Hcr)).
    + intros sh v Hl Hne. unfold status_of. cbn [strip with_status with_brecs with_w x_status].
      assert (Hvr : v <> r).
      { rewrite <- Hkeys in Hl. apply (strip_key_back st _ _ Hfun) in Hl. tauto. }
      rewrite lookupN_delN_other by assumption. rewrite lookupN_setN_other by assumption.
      change (lookupN (x_status st) v) with (status_of st v).
      rewrite <- (strip_status st v Hvr). apply (Hoth sh v Hl Hne).
    + exists stop. split; [|split; [lia|]].
      * unfold top_is_m, status_of. cbn [strip with_status with_brecs with_w x_status].
        rewrite lookupN_delN_other by exact w_ne_r. rewrite lookupN_setN_same.
        destruct (stop =? chain_height c) eqn:Es; [right; split; [apply Z.eqb_eq; assumption|left; reflexivity]|left; reflexivity].
      * split; [|split; [|split]].
        -- rewrite kept_isw_others, Hk1, Hups. reflexivity.
        -- unfold others. rewrite kept_comm. change (kept (notw w) cs') with (junk (isw w) cs'). rewrite Hj1.
           change (junk (isw w) cs) with (kept (notw w) cs). rewrite kept_comm. exact Hco.
        -- assumption.
        -- apply G4; [assumption|lia].
  - unfold status_of. cbn [with_status x_status]. rewrite lookupN_setN_other by (intros E; apply w_ne_r; symmetry; exact E).
    exact (mr_status _ _ Hinv).
  - exact Hfun.
  - intros cr Hcr Hw. cbn [with_status with_brecs with_w x_w credits] in Hcr.
    assert (Hin : In cr cs).
    { destruct (kept_or_junk (isw w) cs' cr Hcr) as [H|H].
      - apply kept_in in H. destruct H as [_ H]. unfold isw in H. apply N.eqb_eq in H. exfalso. apply w_ne_r. congruence.
      - rewrite Hj1 in H. apply in_junk in H. tauto. }
    apply (mr_junk _ _ Hinv cr Hin Hw).
  - exact (mr_p1 _ _ Hinv).
Qed.

(* ---------------------------------------------------------------- announcements while r is being removed *)

Lemma rec_of_ext_all : forall own1 own2, (forall sh, own1 sh = own2 sh) -> forall all t, rec_of own1 all t = rec_of own2 all t.
Proof.
  intros own1 own2 H all t. unfold rec_of. f_equal; [|apply filter_outs_ext_all; assumption].
  destruct (t_cb t); [reflexivity|]. generalize 0%N. induction (t_ins t) as [|op rest IH]; intros i; [reflexivity|].
  cbn [rel_ins_of].
  assert (Ho : owned_out own1 all op = owned_out own2 all op).
  { unfold owned_out. destruct (find_tx all (fst op)) as [t0|]; [|reflexivity].
    destruct (nth_error (t_outs t0) (N.to_nat (snd op))) as [o|]; [|reflexivity]. rewrite H. reflexivity. }
  rewrite Ho. destruct (owned_out own2 all op); rewrite IH; reflexivity.
Qed.

(* the ledger of the ready wallets over the handler's chain is in the store *)
Lemma minv_E_in_store : forall keysA c st, minv p g U w keysA c st ->
  forall cr, In cr (E p (ready_own st) (ptxs c)) -> In cr (credits (x_w st)).
Proof.
  intros keysA c st [Hwf Hg HU Hsy Hkeys Hdead Hcov Hoth [top [Htop [Hrange [Hcw [Hco [Hbok Hble]]]]]]] cr Hin.
  destruct Htop as [Hs|[Ht Hs]].
  - rewrite (E_ext_all p _ _ _ (ready_own_importing_m w keysA st top Hkeys Hoth Hs)) in Hin.
    rewrite <- Hco in Hin. apply kept_in in Hin. tauto.
  - rewrite (E_ext_all p _ _ _ (ready_own_ready_m w keysA st Hkeys Hoth Hs)) in Hin.
    destruct (kept_or_junk (isw w) _ cr Hin) as [H|H].
    + rewrite E_sel in H. rewrite (E_ext_all p _ _ _ (ownA_isw w keysA)) in H.
      rewrite Ht, upto_all in Hcw. rewrite <- Hcw in H. apply kept_in in H. tauto.
    + change (junk (isw w) (E p (ownA keysA) (ptxs c))) with (kept (notw w) (E p (ownA keysA) (ptxs c))) in H.
      rewrite E_sel in H. change (own_sel (notw w) (ownA keysA)) with (own0 w keysA) in H.
      rewrite <- Hco in H. apply kept_in in H. tauto.
Qed.

Lemma rconnect_block_inv : forall c n st b r0,
  ninv g U n -> minv_r c st -> n = c ++ b :: r0 ->
  exists st', xconnect_block p n st b = XOk st' /\ minv_r (c ++ [b]) st'.
Proof.
  intros c n st b r0 Hninv Hinv Hn. pose proof Hninv as [Hwfn [Hgn HnU]].
  pose proof (mr_minv _ _ Hinv) as Hm. pose proof (mr_fun _ _ Hinv) as Hfun. pose proof (mr_status _ _ Hinv) as Hsr.
  destruct (mconnect_block_inv p g U w keysS c n (strip st) b r0 Hninv Hm Hn) as [s' [Hxs Hms']].
  pose proof (mi_wf _ _ _ _ _ _ _ Hm) as Hwf.
  pose proof (wf_nonempty _ Hwf) as Hne.
  destruct (chain_prefix_facts n c b r0 Hwfn Hn Hne) as [Hwfp [Hwft Hlook]].
  assert (Hat : node_at n (b_height b) = Some b) by (apply (node_at_on_chain n c b r0 Hwfn Hn)).
  set (cs := credits (x_w st)).
  set (all := chain_txs (c ++ [b])) in *.
  assert (Hct : all = txs_of (ptxs c) ++ [] ++ b_txs b).
  { unfold all. rewrite chain_txs_app, txs_of_ptxs. cbn. rewrite app_nil_r. reflexivity. }
  pose proof (strip_ready_own st Hfun Hsr) as Hown.
  set (ownS := ready_own (strip st)) in *. set (ownF := ready_own st) in *.
  set (recsF := filter rec_keep (map (rec_of ownF all) (b_txs b))).
  assert (Hrecs : filter rec_keep (map (rec_of ownS all) (b_txs b)) = recsF).
  { unfold recsF. f_equal. apply map_ext. intros t. apply rec_of_ext_all. exact Hown. }
  assert (Hlook' : forall t, In t (txs_of (ptxs c)) -> node_tx n (t_id t) = Some t) by (rewrite txs_of_ptxs; assumption).
  assert (HinS : forall cr, In cr (E p ownS (ptxs c)) -> In cr (others r cs)).
  { intros cr Hcr. apply (minv_E_in_store keysS c (strip st) Hm cr Hcr). }
  assert (HfS : filter_block_txs ownS (others r cs) (node_tx n) [] (b_txs b) = Ok recsF).
  { rewrite <- Hrecs. apply (filter_block_txs_view p ownS (node_tx n) (ptxs c) all (b_txs b) [] (others r cs) Hct Hwft Hlook').
    intros h Hex. unfold exist_credit_from_tx in *. apply existsb_exists in Hex. destruct Hex as [cr [Hcr Hh]].
    apply existsb_exists. exists cr. split; [apply HinS; assumption|assumption]. }
  assert (HfF : filter_block_txs ownF cs (node_tx n) [] (b_txs b) = Ok recsF).
  { apply (filter_block_txs_view p ownF (node_tx n) (ptxs c) all (b_txs b) [] cs Hct Hwft Hlook').
    intros h Hex. unfold exist_credit_from_tx in *. apply existsb_exists in Hex. destruct Hex as [cr [Hcr Hh]].
    apply existsb_exists. exists cr. split; [|assumption].
    rewrite (E_ext_all p ownF ownS (ptxs c)) in Hcr by (intros sh; symmetry; apply Hown).
    apply HinS in Hcr. apply others_in in Hcr. tauto. }
  (* the store without r's rows *)
  unfold xconnect_block in Hxs. rewrite Hat, N.eqb_refl in Hxs. cbn [negb] in Hxs.
  fold ownS in Hxs. cbn [strip x_w credits] in Hxs. fold cs in Hxs. rewrite HfS in Hxs.
  unfold connect_block in Hxs. cbn [credits synced] in Hxs. rewrite HfS in Hxs.
  destruct (apply_recs p (others r cs) (b_height b) (b_id b) recsF) as [csS'|e] eqn:HaS; [|discriminate].
  inversion Hxs as [Hs']. clear Hxs.
  (* the store as it is *)
  assert (Hrecs_in : forall r1, In r1 recsF -> exists t, In t (b_txs b) /\ r1 = rec_of ownF all t).
  { intros r1 Hr. unfold recsF in Hr. apply filter_In in Hr. destruct Hr as [Hr _].
    apply in_map_iff in Hr. destruct Hr as [t [Hrt Ht]]. exists t. split; [assumption|symmetry; assumption]. }
  assert (Hnotr : forall sh v, ownF sh = Some v -> notw r v = true).
  { intros sh v Hv. apply ready_own_some in Hv. destruct Hv as [_ Hrd]. unfold notw, notk, isw. apply negb_true_iff. apply N.eqb_neq.
    intros E. subst v. unfold is_ready in Hrd. rewrite Hsr in Hrd. discriminate. }
  assert (HbU : In b U). { apply HnU. rewrite Hn. apply in_or_app. right. left. reflexivity. }
  destruct (apply_recs_kept (notw r) p (b_height b) (b_id b) recsF cs) as [Heq Hj].
  { intros r1 ri Hr Hri. destruct (Hrecs_in r1 Hr) as [t [Ht Hrt]]. subst r1.
    destruct (rec_of_ins_wallet _ _ _ _ Hri) as [sh Hsh]. apply (Hnotr sh). assumption. }
  { intros r1 ro Hr Hro. destruct (Hrecs_in r1 Hr) as [t [Ht Hrt]]. subst r1.
    apply (Hnotr (o_sh (ro_out ro))). apply (rec_of_outs_wallet _ _ _ _ Hro). }
  { intros r1 ro Hr Hro. destruct (Hrecs_in r1 Hr) as [t [Ht Hrt]]. subst r1.
    change (rr_tx (rec_of ownF all t)) with t.
    apply (junk_r_never_at c st ownF _ t ro _ _ Hinv).
    - intros sh v Hv. unfold ownF in Hv. rewrite <- Hown in Hv. apply ready_own_some in Hv. destruct Hv as [Hv _].
      unfold key_owner in Hv. rewrite (mi_keys _ _ _ _ _ _ _ Hm) in Hv. exact Hv.
    - intros cr Hcr. apply in_junk_notw_r in Hcr. exact Hcr.
    - apply in_chain_txs. exists b. split; assumption.
    - exact Hro. }
  change (kept (notw r) cs) with (others r cs) in Heq. rewrite HaS in Heq. symmetry in Heq.
  apply res_map_ok in Heq. destruct Heq as [cs' [Ha Hk']].
  set (st' := with_brecs (with_w st {| credits := cs'; synced := (b_height b, b_id b) :: synced (x_w st) |})
                         (add_ids (x_brecs st) (b_height b) (b_id b) (rec_ids recsF))).
  exists st'. split.
  { unfold xconnect_block. rewrite Hat, N.eqb_refl. cbn [negb]. fold ownF cs. rewrite HfF.
    unfold connect_block. fold cs. rewrite HfF, Ha. reflexivity. }
  constructor.
  - apply (minv_update keysS (c ++ [b]) s' (strip st') Hms'); subst s';
      cbn [strip st' with_brecs with_w x_w x_keys x_dead x_status x_brecs credits synced]; try reflexivity.
    + unfold others. rewrite Hk'. reflexivity.
    + unfold others. rewrite Hk'. reflexivity.
    + unfold others. rewrite Hk'. exact (mi_cov _ _ _ _ _ _ _ Hms').
    + apply recs_refl.
  - exact Hsr.
  - exact Hfun.
  - intros cr Hcr Hw. cbn [st' with_brecs with_w x_w credits] in Hcr.
    assert (Hin : In cr (junk (notw r) cs')).
    { unfold junk. apply filter_In. split; [assumption|]. unfold keepc, notw, notk, isw. rewrite Hw, N.eqb_refl. reflexivity. }
    rewrite (Hj cs' Ha) in Hin. apply in_junk in Hin. apply (mr_junk _ _ Hinv cr (proj1 Hin) Hw).
  - exact (mr_p1 _ _ Hinv).
Qed.

Lemma rconnect_all_inv : forall bs c n st r0,
  ninv g U n -> minv_r c st -> n = c ++ bs ++ r0 ->
  exists st', xconnect_all p n st bs = XOk st' /\ minv_r (c ++ bs) st'.
Proof.
  induction bs as [|b bs IH]; intros c n st r0 Hn Hinv Heq.
  - exists st. split; [reflexivity|]. rewrite app_nil_r. assumption.
  - cbn [xconnect_all].
    destruct (rconnect_block_inv c n st b (bs ++ r0) Hn Hinv Heq) as [st1 [Hx Hinv1]].
    rewrite Hx.
    destruct (IH (c ++ [b]) n st1 r0 Hn Hinv1) as [st' [Hx' Hinv']].
    { rewrite Heq, <- app_assoc. reflexivity. }
    exists st'. split; [assumption|]. rewrite <- app_assoc in Hinv'. exact Hinv'.
Qed.

Lemma rrollback_own : forall c st c1 y c2,
  minv_r c st -> c = c1 ++ y :: c2 ->
  exists st1, xrollback repaired st (b_height y + 1) = XOk st1 /\ minv_r (c1 ++ [y]) st1.
Proof.
  intros c st c1 y c2 Hinv Hc. pose proof (mr_minv _ _ Hinv) as Hm.
  destruct (mrollback_own p g U w keysS c (strip st) c1 y c2 Hm Hc) as [s1 [Hrs Hm1]].
  set (h := b_height y + 1) in *.
  destruct (xrollback repaired st h) as [st1| |] eqn:Hrb.
  2:{ exfalso. unfold xrollback in Hrb. cbn [repaired f_rollback f_rollback_order negb andb] in Hrb. discriminate. }
  2:{ exfalso. unfold xrollback in Hrb. cbn [repaired f_rollback f_rollback_order negb andb] in Hrb. discriminate. }
  exists st1. split; [reflexivity|].
  pose proof Hrb as Hrb0.
  unfold xrollback in Hrb, Hrs. cbn [repaired f_rollback f_rollback_order negb andb] in Hrb, Hrs.
  injection Hrb as Hst1. injection Hrs as Hs1.
  assert (Hcred : others r (credits (x_w st1)) = credits (x_w s1)).
  { subst st1 s1. cbn [x_w credits strip x_brecs]. unfold others.
    rewrite kept_map_comm by (intros c0; destruct (rb_unspend (x_brecs st) h c0); reflexivity).
    rewrite kept_filter_comm. reflexivity. }
  constructor.
  - apply (minv_update keysS (c1 ++ [y]) s1 (strip st1) Hm1).
    + subst st1 s1. reflexivity.
    + subst st1 s1. reflexivity.
    + subst st1 s1. reflexivity.
    + intros v. subst st1 s1. unfold status_of. cbn [strip x_status]. rewrite delN_map_pull. reflexivity.
    + cbn [strip x_w credits]. rewrite Hcred. reflexivity.
    + cbn [strip x_w credits]. rewrite Hcred. reflexivity.
    + cbn [strip x_w credits x_brecs]. rewrite Hcred.
      assert (Hb : x_brecs st1 = x_brecs s1) by (subst st1 s1; reflexivity). rewrite Hb. exact (mi_cov _ _ _ _ _ _ _ Hm1).
    + assert (Hb : x_brecs (strip st1) = x_brecs s1) by (subst st1 s1; reflexivity). rewrite Hb. apply recs_refl.
  - subst st1. unfold status_of. cbn [x_status]. rewrite lookupN_map_pull.
    pose proof (mr_status _ _ Hinv) as Hsr. unfold status_of in Hsr. rewrite Hsr. reflexivity.
  - subst st1. exact (mr_fun _ _ Hinv).
  - intros cr Hcr Hw. subst st1. cbn [x_w credits] in Hcr. unfold key_owner. cbn [x_keys].
    apply in_map_iff in Hcr. destruct Hcr as [c0 [Hc0 Hin]]. apply filter_In in Hin. destruct Hin as [Hin _].
    assert (Hw0 : c_wallet c0 = r) by (rewrite <- Hw, <- Hc0; destruct (rb_unspend (x_brecs st) h c0); reflexivity).
    destruct (mr_junk _ _ Hinv c0 Hin Hw0) as [H1 H2].
    rewrite <- Hc0. destruct (rb_unspend (x_brecs st) h c0); [|split; assumption].
    split; [exact H1|apply credit_sound_set_spent; exact H2].
  - intros Hp1. assert (Hp : x_p1 st1 = x_p1 st) by (subst st1; reflexivity). rewrite Hp in Hp1.
    apply (xrollback_repaired_no_residue repaired st h st1 r eq_refl Hrb0 (mr_p1 _ _ Hinv Hp1)).
Qed.

Lemma rprocess_on_node : forall c n st b n1 n2,
  ninv g U n -> minv_r c st -> n = n1 ++ b :: n2 -> n1 <> [] ->
  exists st', xprocess repaired p n st b = XOk st' /\ minv_r (n1 ++ [b]) st'.
Proof.
  intros c n st b n1 n2 Hninv Hinv Hn Hne. pose proof Hninv as [Hwfn [Hgn HnU]].
  pose proof (mr_minv _ _ Hinv) as [Hwfc Hgc HcU Hsy _ _ _ _ _]. cbn [strip x_w synced] in Hsy.
  destruct (wf_linked _ Hwfn) as [pvn Hln]. destruct (wf_linked _ Hwfc) as [pvc Hlc].
  pose proof (agree_U_m U U_ids _ _ HcU HnU) as Hids.
  unfold xprocess. destruct (snd (tip (x_w st)) =? b_prev b)%N eqn:Htip.
  - destruct (exists_last (wf_nonempty _ Hwfc)) as [cpre [y Hc]].
    destruct (exists_last Hne) as [n1' [x' Hn1]].
    rewrite (xw_eta st), Hsy, Hc, tip_synced_of in Htip. cbn [snd] in Htip. apply N.eqb_eq in Htip.
    assert (Hn' : n = n1' ++ x' :: b :: n2). { rewrite Hn, Hn1, <- app_assoc. reflexivity. }
    assert (Hyx : y = x').
    { apply Hids.
      - rewrite Hc. apply in_or_app. right. left. reflexivity.
      - rewrite Hn'. apply in_or_app. right. left. reflexivity.
      - rewrite Htip. rewrite Hn' in Hln. apply (linked_prev _ _ _ _ _ _ Hln). }
    subst x'.
    assert (Hpre : cpre = n1').
    { apply (common_prefix c n pvc pvn 0 Hlc Hln Hids cpre y [] n1' (b :: n2)); assumption. }
    assert (Hcn : c = n1). { rewrite Hc, Hn1, Hpre. reflexivity. }
    cbn [xconnect_all]. rewrite <- Hcn in *.
    destruct (rconnect_block_inv c n st b n2 Hninv Hinv Hn) as [st' [Hx Hinv']].
    rewrite Hx. exists st'. split; [reflexivity|assumption].
  - assert (Hfuel : (length n1 < S (Z.to_nat (b_height b)))%nat).
    { rewrite Hn in Hln. rewrite (linked_height _ _ _ _ _ Hln). lia. }
    assert (Hgen : same_genesis c n). { apply (same_genesis_from_g g); assumption. }
    destruct (collect_spec p (ownW w keysS) c n pvc pvn Hlc Hln (wf_bids _ Hwfn) Hgen Hids
                _ n1 b [] n2 Hn Hfuel) as [m1 [y [m2 [Hsplit [Hy Hcol]]]]].
    rewrite (collect_synced_ext n (x_w st) (L p (ownW w keysS) c)) by (rewrite Hsy; reflexivity).
    rewrite Hcol.
    apply in_split in Hy. destruct Hy as [c1 [c2 Hc]].
    assert (Hn' : n = m1 ++ y :: m2 ++ n2).
    { rewrite Hn. change (b :: n2) with ([b] ++ n2). rewrite app_assoc, Hsplit, <- app_assoc. reflexivity. }
    assert (Hc1 : c1 = m1).
    { apply (common_prefix c n pvc pvn 0 Hlc Hln Hids c1 y c2 m1 (m2 ++ n2)); assumption. }
    subst c1.
    destruct (rrollback_own c st m1 y c2 Hinv Hc) as [st1 [Hrb Hinv1]].
    rewrite Hrb.
    destruct (rconnect_all_inv m2 (m1 ++ [y]) n st1 n2 Hninv Hinv1) as [st' [Hx Hinv']].
    { rewrite Hn', <- app_assoc. reflexivity. }
    exists st'. split; [assumption|].
    rewrite <- app_assoc in Hinv'. cbn [app] in Hinv'. rewrite <- Hsplit in Hinv'. exact Hinv'.
Qed.

(* an announcement that is processed — a block of the node's chain (tip extension or reorganisation with
   Rollback), or an old block of the handler's own chain (Rollback only) — keeps the invariant *)
Lemma rprocess_inv : forall c n st b st',
  ninv g U n -> minv_r c st -> In b U -> b <> g ->
  xprocess repaired p n st b = XOk st' -> exists c', minv_r c' st'.
Proof.
  intros c n st b st' Hninv Hinv HbU Hbg Hx. pose proof Hninv as [Hwfn [Hgn HnU]].
  pose proof (mr_minv _ _ Hinv) as [Hwfc Hgc HcU Hsy _ _ _ _ _]. cbn [strip x_w synced] in Hsy.
  assert (Hbyid : forall nb, In nb n -> b_id nb = b_id b -> In b n).
  { intros nb Hin Hid. rewrite <- (U_ids nb b (HnU _ Hin) HbU Hid). assumption. }
  destruct (in_dec block_eq_dec b n) as [Hbn|Hbn].
  - apply in_split in Hbn. destruct Hbn as [n1 [n2 Hn]].
    assert (Hne : n1 <> []).
    { intros Hnil. subst n1. destruct Hgn as [n' Hn']. rewrite Hn in Hn'. cbn [app] in Hn'. inversion Hn'. contradiction. }
    destruct (rprocess_on_node c n st b n1 n2 Hninv Hinv Hn Hne) as [st'' [Hx' Hinv']].
    rewrite Hx' in Hx. inversion Hx. subst st''. exists (n1 ++ [b]). assumption.
  - unfold xprocess in Hx. destruct (snd (tip (x_w st)) =? b_prev b)%N eqn:Htip.
    + exfalso. destruct (xconnect_all_ok_in p _ _ _ _ Hx b (or_introl eq_refl)) as [nb [Hin Hid]].
      apply Hbn. apply (Hbyid nb Hin Hid).
    + destruct (collect n (x_w st) (S (Z.to_nat (b_height b))) b []) as [[fork bs]|] eqn:Hcol; [|discriminate].
      destruct (xrollback repaired st (fork + 1)) as [st1| |] eqn:Hrb; try discriminate.
      destruct (collect_cases _ _ _ _ _ _ _ Hcol) as [[Hmt [Hf Hbs]]|Hin].
      * subst fork bs.
        assert (Hbc : In b c).
        { apply (matched_in p (ownW w keysS) c [b] b).
          - apply (agree_U_m U U_ids); [assumption|]. intros z [Hz|[]]. subst z. assumption.
          - left. reflexivity.
          - rewrite <- Hmt. apply matched_synced_ext. rewrite Hsy. reflexivity. }
        apply in_split in Hbc. destruct Hbc as [c1 [c2 Hc]].
        destruct (rrollback_own c st c1 b c2 Hinv Hc) as [st1' [Hrb' Hinv1]].
        rewrite Hrb' in Hrb. inversion Hrb. subst st1'. cbn [xconnect_all] in Hx. inversion Hx. subst st'.
        exists (c1 ++ [b]). assumption.
      * exfalso. destruct (xconnect_all_ok_in p _ _ _ _ Hx b Hin) as [nb [Hin' Hid]].
        apply Hbn. apply (Hbyid nb Hin' Hid).
Qed.

(* ---------------------------------------------------------------- histories *)

Variable B cap : Z.
Hypothesis B_pos : 0 < B.
Variable shsR : list N.              (* the script hashes r had *)

(* the events of a history in which w is being restored and r removed:
   the node attaches / detaches blocks of the universe, the handler processes an announcement (any block: of the
   node's chain, stale, of another branch), the worker runs a rescan batch of w, phase 1 or a round of the removal of r *)
Definition ev_ok_r (s : xsim) (e : xevent) : Prop :=
  match e with
  | XAttach b => In b U /\ wf_chain (xs_node s ++ [b])
  | XDetach => wf_chain (removelast (xs_node s))
  | XProcess b => In b U /\ b <> g
  | XBatch v => v = w
  | XPhase1 v => v = r
  | XRound v => v = r
  | _ => False
  end.

Fixpoint xwf_r (s : xsim) (h : list xevent) : Prop :=
  match h with
  | [] => True
  | e :: rest => ev_ok_r s e /\ xwf_r (xstep repaired p B cap s e) rest
  end.

(* r is being removed ([minv_r]) — or its removal has finished: the database satisfies [minv] as it is and
   nothing mentions r *)
Definition rstate (c : list block) (st : xstate) : Prop :=
  (minv_r c st /\ sh_of_wallet st r = shsR) \/ (minv p g U w keysS c st /\ Clean r shsR st).

Definition sinv_r (s : xsim) : Prop :=
  xs_crashed s = false /\ ninv g U (xs_node s) /\ incl (xs_all s) (chain_txs U) /\ exists c, rstate c (xs_st s).

Lemma import_batch_fields : forall fx B0 n st v,
  let st' := fst (import_batch fx p B0 n st v) in
  x_pass st' = x_pass st /\ x_balrow st' = x_balrow st /\ x_ugame st' = x_ugame st /\
  forall u, u <> v -> status_of st' u = status_of st u.
Proof.
  intros fx B0 n st v. cbv zeta. unfold import_batch.
  destruct (status_of st v) as [[|k|]|]; try (repeat split; fail).
  destruct (memN v (x_dead st)); [repeat split|].
  destruct (import_blocks p (own_w st v) n k (Z.min (k + B0) (fst (tip (x_w st)))) (credits (x_w st), x_brecs st) n)
    as [[cs brs]|[| |]]; try (repeat split; fail).
  - destruct (f_import_tipcheck fx && negb _); [repeat split|].
    cbn [fst with_status with_brecs with_w x_pass x_balrow x_ugame]. repeat split.
    intros u Hu. unfold status_of. cbn [with_status x_status]. apply lookupN_setN_other. assumption.
  - destruct (f_import_retry fx); repeat split.
Qed.

Lemma minv_clean_credits : forall c st, minv p g U w keysS c st ->
  (forall e, In e (x_keys st) -> (snd e =? r)%N || memN (fst e) shsR = false) ->
  forall cr, In cr (credits (x_w st)) -> (c_wallet cr =? r)%N || memN (c_sh cr) shsR = false.
Proof.
  intros c st [Hwf Hg HU Hsy Hkeys _ _ _ [top [_ [_ [Hcw [Hco _]]]]]] HK cr Hin.
  assert (Hk : forall v, lookupN keysS (c_sh cr) = Some v -> (v =? r)%N || memN (c_sh cr) shsR = false).
  { intros v Hv. rewrite <- Hkeys in Hv. apply lookupN_in in Hv. apply (HK _ Hv). }
  destruct (kept_or_junk (isw w) _ cr Hin) as [H|H].
  - rewrite Hcw in H.
    assert (HU' : incl (upto top c) U) by (intros z Hz; apply HU; apply (upto_incl top c); assumption).
    destruct (E_row_facts p U _ (upto top c) cr HU' H) as [H1 _]. apply Hk. apply (ownW_lookup w). assumption.
  - change (junk (isw w) (credits (x_w st))) with (kept (notw w) (credits (x_w st))) in H. rewrite Hco in H.
    destruct (E_row_facts p U _ c cr HU H) as [H1 _]. apply Hk. apply (own0_lookup w). assumption.
Qed.

Lemma sinv_r_step : forall s e, sinv_r s -> ev_ok_r s e -> sinv_r (xstep repaired p B cap s e).
Proof.
  intros s e [Hcr [Hninv [Hall [c Hst]]]] Hok. pose proof Hninv as [Hwfn [Hgn HnU]].
  destruct e as [b| |b|w0 ps|sh w0|w0 ps shs|v|w0 ps|v|v|]; cbn [ev_ok_r] in Hok; try contradiction.
  - destruct Hok as [HbU Hwf']. cbn [xstep]. split; [assumption|]. cbn [xs_node xs_st xs_all]. split; [|split].
    + split; [assumption|split].
      * destruct Hgn as [n' Hn']. rewrite Hn'. exists (n' ++ [b]). reflexivity.
      * intros z Hz. apply in_app_or in Hz. destruct Hz as [Hz|[Hz|[]]]; [apply HnU; assumption|subst z; assumption].
    + intros t Ht. apply in_app_or in Ht. destruct Ht as [Ht|Ht]; [apply Hall; assumption|].
      apply in_chain_txs. exists b. split; assumption.
    + exists c. assumption.
  - cbn [xstep]. split; [assumption|]. cbn [xs_node xs_st xs_all]. split; [|split].
    + split; [assumption|split].
      * apply from_g_removelast; [assumption|]. apply wf_nonempty. assumption.
      * intros z Hz. apply HnU. apply Proofs4.removelast_in. assumption.
    + assumption.
    + exists c. assumption.
  - destruct Hok as [HbU Hbg]. cbn [xstep]. rewrite Hcr.
    destruct (xprocess repaired p (xs_node s) (xs_st s) b) as [st'| |] eqn:Hx.
    + split; [assumption|]. cbn [with_st xs_node xs_st xs_all]. split; [assumption|]. split; [assumption|].
      destruct Hst as [[Hinv Hsh]|[Hinv HC]].
      * destruct (rprocess_inv c _ _ b st' Hninv Hinv HbU Hbg Hx) as [c' Hinv']. exists c'. left. split; [assumption|].
        unfold sh_of_wallet. rewrite (FaultOpsProofs.xprocess_keys _ _ _ _ _ _ Hx). exact Hsh.
      * destruct (mprocess_inv p g U U_ids w keysS c _ _ b st' Hninv Hinv HbU Hbg Hx) as [c' [Hinv' _]].
        exists c'. right. split; [assumption|]. apply (xprocess_clean r shsR repaired p _ _ b st' HC Hx).
    + split; [assumption|]. split; [assumption|]. split; [assumption|]. exists c. assumption.
    + exfalso. apply (xprocess_repaired_no_panic p _ _ _ Hx).
  - subst v. cbn [xstep]. split; [assumption|]. cbn [with_st xs_node xs_st xs_all]. split; [assumption|]. split; [assumption|].
    exists c. destruct Hst as [[Hinv Hsh]|[Hinv HC]].
    + left. split; [apply rbatch_inv; assumption|]. unfold sh_of_wallet. rewrite FaultOpsProofs.import_batch_keys. exact Hsh.
    + right. pose proof (mbatch_inv p g U U_ids w keysS B c _ _ Hninv B_pos Hinv) as Hinv'. split; [exact Hinv'|].
      destruct (import_batch_fields repaired B (xs_node s) (xs_st s) w) as [Hp [Hb [Hu Hs]]].
      destruct HC as [C1 C2 C3 C4 C5 C6].
      assert (C6' : forall e, In e (x_keys (fst (import_batch repaired p B (xs_node s) (xs_st s) w))) ->
                (snd e =? r)%N || memN (fst e) shsR = false).
      { rewrite FaultOpsProofs.import_batch_keys. exact C6. }
      constructor.
      * apply (minv_clean_credits c _ Hinv' C6').
      * rewrite Hb. exact C2.
      * rewrite Hu. exact C3.
      * rewrite (Hs r (fun E => w_ne_r (eq_sym E))). exact C4.
      * rewrite Hp. exact C5.
      * exact C6'.
  - subst v. cbn [xstep]. split; [assumption|]. cbn [with_st xs_node xs_st xs_all]. split; [assumption|]. split; [assumption|].
    exists c. destruct Hst as [[Hinv Hsh]|[Hinv HC]].
    + left. split; [apply rphase1_inv; assumption|]. rewrite <- Hsh. unfold sh_of_wallet, remove_phase1.
      destruct (status_of (xs_st s) r) as [[|k|]|]; try reflexivity. destruct (is_some (lookupN (x_pass (xs_st s)) r)); reflexivity.
    + right. unfold remove_phase1. rewrite (cl_status _ _ _ HC). split; assumption.
  - subst v. cbn [xstep]. split; [assumption|]. cbn [with_st xs_node xs_st xs_all]. split; [assumption|]. split; [assumption|].
    exists c. destruct Hst as [[Hinv Hsh]|[Hinv HC]].
    + assert (Hlk : forall t tx0, find_tx (xs_all s) t = Some tx0 -> In tx0 (chain_txs U) /\ t_id tx0 = t).
      { intros t tx0 H. apply find_tx_some in H. destruct H as [H1 H2]. split; [apply Hall; assumption|assumption]. }
      destruct (rround_inv repaired eq_refl eq_refl cap (xs_node s) (find_tx (xs_all s)) c (xs_st s) Hlk Hinv) as [[Hfin Hinv']|[Hfin [Hm Hment]]].
      * left. split; [assumption|].
        destruct (round_shape repaired cap (xs_node s) (find_tx (xs_all s)) (xs_st s) r) as [_ [_ [_ [[_ [Hk _]]|[Hf _]]]]].
        -- unfold sh_of_wallet. rewrite Hk. exact Hsh.
        -- rewrite Hf in Hfin. discriminate.
      * right. split; [assumption|]. rewrite Hsh in Hment. apply mentions_clean. assumption.
    + right. unfold remove_round. rewrite (cl_status _ _ _ HC). cbn [fst]. split; assumption.
Qed.

Lemma sinv_r_run : forall h s, sinv_r s -> xwf_r s h -> sinv_r (fold_left (xstep repaired p B cap) h s).
Proof.
  induction h as [|e rest IH]; intros s Hs Hwf; [assumption|].
  cbn [fold_left]. destruct Hwf as [Hok Hr]. apply IH; [apply sinv_r_step; assumption|assumption].
Qed.

Lemma proj_others : forall v cs, v <> r -> proj v (others r cs) = proj v cs.
Proof.
  intros v cs Hv. rewrite !proj_as_kept. unfold others. apply kept_kept_sub.
  intros x Hx. apply N.eqb_eq in Hx. subst x. unfold notw, notk, isw. apply negb_true_iff. apply N.eqb_neq. assumption.
Qed.

(* what the invariant gives at ANY point of such a history *)
Theorem import_remove_run : forall h s0, sinv_r s0 -> xwf_r s0 h ->
  let s := fold_left (xstep repaired p B cap) h s0 in
  let st := xs_st s in
  xs_crashed s = false /\
  (* (a) r gone, w ready, handler in step: the database is the live run of every wallet of the key table, which has no key of r *)
  (in_step g s -> status_of st w = Some WReady -> status_of st r = None ->
     equals_live_all p st (xs_node s) /\ x_keys st = keysS) /\
  (* (b) r gone: nothing mentions it *)
  (status_of st r = None -> mentions st r shsR = false /\ listed st r = false) /\
  (* (c) frame, at every point: every other wallet holds exactly the ledger of its keys over the chain the handler follows *)
  (exists c, wf_chain c /\ synced (x_w st) = synced_of c /\
     forall v, v <> w -> v <> r ->
       proj v (credits (x_w st)) = proj v (credits (L p (ownA keysS) c)) /\
       xreport st v = spec_report p (ownA keysS) c v) /\
  (* intermediate points: r cannot be selected as long as it is listed; w cannot be selected until it is ready *)
  (status_of st r <> None -> use_wallet st r = UUnready) /\
  (status_of st w <> Some WReady -> status_of st w <> None -> use_wallet st w = UUnready).
Proof.
  intros h s0 Hs0 Hwf s st. pose proof (sinv_r_run h s0 Hs0 Hwf) as Hs. fold s in Hs.
  destruct Hs as [Hcr [Hninv [Hall [c Hst]]]]. fold st in Hst.
  split; [assumption|]. split; [|split; [|split; [|split]]].
  - intros Hstep Hr Hnone. destruct Hst as [[Hinv _]|[Hinv HC]].
    + rewrite (mr_status _ _ Hinv) in Hnone. discriminate.
    + split; [|exact (mi_keys _ _ _ _ _ _ _ Hinv)].
      apply (sinv_m_correct p g U U_ids w keysS s); [|assumption|assumption].
      split; [assumption|]. split; [assumption|]. exists c. assumption.
  - intros Hnone. destruct Hst as [[Hinv _]|[Hinv HC]].
    + rewrite (mr_status _ _ Hinv) in Hnone. discriminate.
    + split; [apply mentions_clean; assumption|]. unfold listed. rewrite Hnone. reflexivity.
  - destruct Hst as [[Hinv _]|[Hinv HC]].
    + pose proof (mr_minv _ _ Hinv) as Hm. exists c. split; [apply (mi_wf _ _ _ _ _ _ _ Hm)|].
      split; [exact (mi_synced _ _ _ _ _ _ _ Hm)|]. intros v Hvw Hvr.
      destruct (minv_frame p g U w keysS c _ v Hm Hvw) as [Hp Hrep]. cbn [strip x_w credits] in Hp. rewrite (proj_others v _ Hvr) in Hp.
      split; [exact Hp|]. rewrite <- Hrep. unfold xreport. apply report_depends_on_proj.
      * cbn [strip x_w credits]. rewrite (proj_others v _ Hvr). reflexivity.
      * reflexivity.
    + exists c. split; [apply (mi_wf _ _ _ _ _ _ _ Hinv)|]. split; [exact (mi_synced _ _ _ _ _ _ _ Hinv)|].
      intros v Hvw _. apply (minv_frame p g U w keysS c _ v Hinv Hvw).
  - intros Hn. destruct Hst as [[Hinv _]|[Hinv HC]].
    + unfold use_wallet. rewrite (mr_status _ _ Hinv). reflexivity.
    + exfalso. apply Hn. exact (cl_status _ _ _ HC).
  - intros Hnr Hnn. destruct Hst as [[Hinv _]|[Hinv HC]].
    + pose proof (minv_unready p g U w keysS c _ (mr_minv _ _ Hinv)) as H.
      rewrite !(strip_status _ w w_ne_r) in H. specialize (H Hnr Hnn). unfold use_wallet in *.
      rewrite (strip_status _ w w_ne_r) in H. exact H.
    + apply (minv_unready p g U w keysS c _ Hinv Hnr Hnn).
Qed.

End IR.

(* ================================================================ the two requests, in either order *)

Lemma lookupN_filter_notr : forall (l : list (N * N)) r sh, NoDup (map fst l) ->
  lookupN (filter (fun e => negb (snd e =? r)%N) l) sh =
  match lookupN l sh with Some v => if (v =? r)%N then None else Some v | None => None end.
Proof.
  intros l r sh Hfun. destruct (lookupN l sh) as [v0|] eqn:Hl.
  - destruct (v0 =? r)%N eqn:E.
    + apply N.eqb_eq in E. subst. apply (lookupN_filter_none l _ sh Hfun).
      intros v1 Hv1. rewrite Hl in Hv1. inversion Hv1. subst. cbn [snd]. rewrite N.eqb_refl. reflexivity.
    + apply N.eqb_neq in E. apply (lookupN_filter_snd l r sh v0 Hfun Hl E).
  - apply (lookupN_filter_none l _ sh Hfun). intros v1 Hv1. rewrite Hl in Hv1. discriminate.
Qed.

Lemma NoDup_app_intro : forall (A : Type) (a b : list A), NoDup a -> NoDup b -> (forall x, In x a -> ~ In x b) -> NoDup (a ++ b).
Proof.
  intros A a b Ha Hb Hd. induction a as [|x a IH]; [exact Hb|]. cbn [app]. inversion Ha as [|? ? Hx Ha']. subst. constructor.
  - intros Hin. apply in_app_or in Hin. destruct Hin as [Hin|Hin]; [contradiction|]. apply (Hd x (or_introl eq_refl) Hin).
  - apply IH; [assumption|]. intros y Hy. apply Hd. right. assumption.
Qed.

Lemma filter_keys_of_other : forall w r l, w <> r -> filter (fun e : N * N => negb (snd e =? r)%N) (keys_of w l) = keys_of w l.
Proof.
  intros w r l Hne. apply filter_all_true. intros e He. unfold keys_of in He. apply in_map_iff in He. destruct He as [a [Ha _]].
  subst e. cbn [snd]. apply negb_true_iff. apply N.eqb_neq. assumption.
Qed.

Section Start.
Variable p : params.
Variable g : block.
Variable U : list block.
Variables w r : N.
Hypothesis w_ne_r : w <> r.

(* RemoveWallet r on a database in which r is ready (w absent, importing or ready): r's rows become the rows of
   a wallet being removed, the rest of the database is a [minv] database for the key table without r *)
Lemma request_minv_r : forall keysA c st pass,
  minv p g U w keysA c st -> NoDup (map fst keysA) ->
  status_of st r = Some WReady -> lookupN (x_pass st) r = Some pass -> memN r (x_p1 st) = false ->
  snd (remove_request st r pass) = ROk /\
  minv_r p g U w r (filter (fun e => negb (snd e =? r)%N) keysA) c (fst (remove_request st r pass)).
Proof.
  intros keysA c st pass Hinv Hnd Hready Hpass Hp1.
  unfold remove_request. rewrite Hpass, N.eqb_refl. cbn [negb]. rewrite Hready. cbn [fst snd]. split; [reflexivity|].
  destruct Hinv as [Hwf Hg HU Hsy Hkeys Hdead Hcov Hoth [top [Htop [Hrange [Hcw [Hco [Hbok Hble]]]]]]].
  set (keysS := filter (fun e => negb (snd e =? r)%N) keysA).
  assert (HoW : forall sh, ownW w keysA sh = ownW w keysS sh).
  { intros sh. unfold ownW, kown, keysS. rewrite (lookupN_filter_notr keysA r sh Hnd).
    destruct (lookupN keysA sh) as [v0|]; [|reflexivity]. destruct (v0 =? r)%N eqn:E2; [|reflexivity].
    apply N.eqb_eq in E2. subst v0. destruct (r =? w)%N eqn:E3; [|reflexivity]. apply N.eqb_eq in E3. exfalso. apply w_ne_r. symmetry. assumption. }
  assert (Ho0 : forall sh, own_sel (notw r) (own0 w keysA) sh = own0 w keysS sh).
  { intros sh. unfold own0, own_sel, ownA, keysS. rewrite (lookupN_filter_notr keysA r sh Hnd).
    destruct (lookupN keysA sh) as [v0|]; [|reflexivity]. unfold notw, notk, isw.
    destruct (v0 =? w)%N eqn:E1; destruct (v0 =? r)%N eqn:E2; cbn; rewrite ?E1, ?E2; reflexivity. }
  constructor.
  - constructor; cbn [strip with_status x_w x_keys x_dead x_status x_brecs credits synced]; try assumption.
    + rewrite Hkeys. reflexivity.
    + intros cr Hcr. apply Hcov. apply others_in in Hcr. tauto.
    + intros sh v Hl Hne. unfold keysS in Hl. rewrite (lookupN_filter_notr keysA r sh Hnd) in Hl.
      destruct (lookupN keysA sh) as [v0|] eqn:E; [|discriminate]. destruct (v0 =? r)%N eqn:E2; [discriminate|].
      inversion Hl. subst v0. apply N.eqb_neq in E2. unfold status_of. cbn [strip with_status x_status].
      rewrite lookupN_delN_other by assumption. rewrite lookupN_setN_other by assumption. apply (Hoth sh v E Hne).
    + exists top. split; [|split; [assumption|split; [|split; [|split; assumption]]]].
      * unfold top_is_m, status_of in *. cbn [strip with_status x_status].
        rewrite lookupN_delN_other by assumption. rewrite lookupN_setN_other by assumption.
        destruct Htop as [H|[H1 [H|[H H2]]]]; [left; assumption|right; split; [assumption|left; assumption]|].
        right. split; [assumption|]. right. split; [assumption|]. intros sh. rewrite <- HoW. apply H2.
      * rewrite (kept_isw_others w r w_ne_r), Hcw. apply E_ext_all. exact HoW.
      * unfold others. rewrite kept_comm, Hco, E_sel. apply E_ext_all. exact Ho0.
  - unfold status_of. cbn [with_status x_status]. apply lookupN_setN_same.
  - unfold keys_functional. cbn [with_status x_keys]. rewrite Hkeys. assumption.
  - intros cr Hcr Hw. cbn [with_status x_w] in Hcr. unfold key_owner. cbn [with_status x_keys]. rewrite Hkeys.
    assert (Hin : In cr (kept (notw w) (credits (x_w st)))).
    { apply kept_in. split; [assumption|]. rewrite Hw. unfold notw, notk, isw. apply negb_true_iff. apply N.eqb_neq.
      intros E. apply w_ne_r. symmetry. assumption. }
    rewrite Hco in Hin. destruct (E_row_facts p U _ c cr HU Hin) as [H1 [H2 _]]. split; [|exact H2].
    rewrite Hw in H1. apply (own0_lookup w). assumption.
  - cbn [with_status x_p1]. rewrite Hp1. discriminate.
Qed.

(* ImportWallet w while r is being removed *)
Lemma import_start_minv_r : forall keysS c st pass sh shs st1,
  minv_r p g U w r keysS c st -> status_of st w = None -> (forall s, ownW w keysS s = None) ->
  NoDup (sh :: shs) -> (forall s, In s (sh :: shs) -> lookupN (x_keys st) s = None) ->
  import_start st w pass (sh :: shs) = Some st1 ->
  minv_r p g U w r (keysS ++ keys_of w (sh :: shs)) c st1 /\ sh_of_wallet st1 r = sh_of_wallet st r.
Proof.
  intros keysS c st pass sh shs st1 Hinv Habs Hnokeys Hnd Hfresh Himp.
  unfold import_start in Himp. destruct (wallet_known st w) eqn:Hk; [discriminate|]. injection Himp as Hst1.
  unfold wallet_known in Hk. apply orb_false_iff in Hk. destruct Hk as [Hk Hk3]. apply orb_false_iff in Hk. destruct Hk as [Hk1 Hk2].
  pose proof (mr_minv _ _ _ _ _ _ _ _ Hinv) as Hm.
  assert (Hwr : (w =? r)%N = false) by (apply N.eqb_neq; assumption).
  assert (Hrw : (r =? w)%N = false) by (apply N.eqb_neq; intros E; apply w_ne_r; symmetry; assumption).
  assert (Hks : wallet_known (strip r st) w = false).
  { unfold wallet_known. rewrite (strip_status r st w w_ne_r), Habs. cbn [is_some orb strip x_pass x_keys].
    rewrite lookupN_delN_other by assumption. rewrite Hk2. cbn [orb].
    apply existsb_false_forall. intros e He. apply filter_In in He. destruct He as [He _].
    rewrite existsb_false_iff in Hk3. apply (Hk3 e He). }
  assert (His : import_start (strip r st) w pass (sh :: shs) = Some (strip r st1)).
  { unfold import_start. rewrite Hks. subst st1. unfold strip. cbn [x_w x_keys x_pass x_status x_brecs x_balrow x_ugame x_dead x_p1].
    assert (E1 : filter (fun e : N * N => negb (snd e =? r)%N) (x_keys st ++ map (fun sh0 => (sh0, w)) (sh :: shs)) =
                 filter (fun e : N * N => negb (snd e =? r)%N) (x_keys st) ++ map (fun sh0 => (sh0, w)) (sh :: shs)).
    { rewrite filter_app. f_equal. exact (filter_keys_of_other w r (sh :: shs) w_ne_r). }
    assert (E2 : delN (x_pass st ++ [(w, pass)]) r = delN (x_pass st) r ++ [(w, pass)]).
    { unfold delN. rewrite filter_app. cbn [filter fst]. rewrite Hwr. reflexivity. }
    assert (E3 : delN (x_status st ++ [(w, WImporting 0)]) r = delN (x_status st) r ++ [(w, WImporting 0)]).
    { unfold delN. rewrite filter_app. cbn [filter fst]. rewrite Hwr. reflexivity. }
    assert (E4 : remN r (x_balrow st ++ [w]) = remN r (x_balrow st) ++ [w]).
    { unfold remN. rewrite filter_app. cbn [filter]. rewrite Hwr. reflexivity. }
    cbn [map] in E1 |- *. rewrite E1, E2, E3, E4. reflexivity. }
  assert (Hkeys1 : x_keys st1 = x_keys st ++ keys_of w (sh :: shs)) by (subst st1; reflexivity).
  assert (Hmf : forall l, map fst (keys_of w l) = l).
  { intros l. unfold keys_of. rewrite map_map. cbn [fst]. apply map_id. }
  split.
  - constructor.
    + apply (minv_import_start p g U w keysS c (strip r st) pass sh shs (strip r st1) Hm); try assumption.
      rewrite (strip_status r st w w_ne_r). assumption.
    + subst st1. unfold status_of. cbn [x_status]. apply lookupN_app_some. exact (mr_status _ _ _ _ _ _ _ _ Hinv).
    + unfold keys_functional. rewrite Hkeys1, map_app. apply NoDup_app_intro.
      * exact (mr_fun _ _ _ _ _ _ _ _ Hinv).
      * rewrite Hmf. assumption.
      * intros x Hx Hx2. rewrite Hmf in Hx2. apply (lookupN_none_notin _ _ _ (Hfresh x Hx2)). assumption.
    + intros cr Hcr Hw. assert (Hcr0 : In cr (credits (x_w st))) by (subst st1; exact Hcr).
      destruct (mr_junk _ _ _ _ _ _ _ _ Hinv cr Hcr0 Hw) as [H1 H2].
      split; [|exact H2]. unfold key_owner. rewrite Hkeys1. apply lookupN_app_some. exact H1.
    + subst st1. cbn [x_p1]. intros Hp1. destruct (mr_p1 _ _ _ _ _ _ _ _ Hinv Hp1) as [H1 H2]. split.
      * cbn [x_balrow]. unfold memN. rewrite existsb_app. cbn [existsb]. rewrite Hrw. cbn [orb].
        unfold memN in H1. rewrite H1. reflexivity.
      * exact H2.
  - unfold sh_of_wallet. rewrite Hkeys1, filter_app, map_app.
    assert (Hnil : forall l, filter (fun e : N * N => (snd e =? r)%N) (keys_of w l) = []).
    { intros l. induction l as [|a l IH]; [reflexivity|]. cbn [keys_of map filter snd]. rewrite Hwr. exact IH. }
    rewrite Hnil. cbn [map]. apply app_nil_r.
Qed.

End Start.

Lemma import_start_shape : forall st w pass l st1, import_start st w pass l = Some st1 ->
  x_keys st1 = x_keys st ++ keys_of w l /\ x_pass st1 = x_pass st ++ [(w, pass)] /\
  x_status st1 = x_status st ++ [(w, match l with [] => WReady | _ => WImporting 0 end)] /\ x_p1 st1 = x_p1 st.
Proof.
  intros st w pass l st1 H. unfold import_start in H. destruct (wallet_known st w); [discriminate|].
  injection H as H. subst st1. repeat split.
Qed.

Lemma request_shape : forall st v pass, lookupN (x_pass st) v = Some pass -> status_of st v = Some WReady ->
  fst (remove_request st v pass) = with_status st (setN (x_status st) v WRemoving).
Proof. intros st v pass Hp Hs. unfold remove_request. rewrite Hp, N.eqb_refl. cbn [negb]. rewrite Hs. reflexivity. Qed.

Section PackagedIR.
Variable p : params.
Variable g : block.
Variable U : list block.
Hypothesis U_ids : forall b1 b2, In b1 U -> In b2 U -> b_id b1 = b_id b2 -> b1 = b2.
Hypothesis U_txs : GU U.
Variables w r : N.
Hypothesis w_ne_r : w <> r.
Variable keys0 : list (N * N).
Variable B cap : Z.
Hypothesis B_pos : 0 < B.
Variables (passR pass sh : N) (shs : list N).
Variables (c0 n0 : list block) (all0 : list tx) (st0 : xstate).
Hypothesis node0 : ninv g U n0.
Hypothesis all0_U : incl all0 (chain_txs U).
Hypothesis start0 : minv p g U w keys0 c0 st0.          (* every wallet of the database is ready ... *)
Hypothesis absent0 : status_of st0 w = None.            (* ... w is not there ... *)
Hypothesis nokeys0 : forall s, ownW w keys0 s = None.
Hypothesis fun0 : NoDup (map fst keys0).                (* a script hash has one owner *)
Hypothesis ready_r : status_of st0 r = Some WReady.     (* ... r is one of them *)
Hypothesis pass_r : lookupN (x_pass st0) r = Some passR.
Hypothesis p1_r : memN r (x_p1 st0) = false.
Hypothesis fresh_nd : NoDup (sh :: shs).                (* the addresses discovered for w are new to the keystore *)
Hypothesis fresh0 : forall s, In s (sh :: shs) -> lookupN keys0 s = None.

Let keysS := filter (fun e : N * N => negb (snd e =? r)%N) keys0 ++ keys_of w (sh :: shs).
Let shsR := sh_of_wallet st0 r.

Lemma keys0_eq : x_keys st0 = keys0.
Proof. exact (mi_keys _ _ _ _ _ _ _ start0). Qed.

(* order A: RemoveWallet r, then ImportWallet w *)
Lemma start_A : forall stA2,
  import_start (fst (remove_request st0 r passR)) w pass (sh :: shs) = Some stA2 ->
  snd (remove_request st0 r passR) = ROk /\
  sinv_r p g U w r keysS shsR {| xs_node := n0; xs_st := stA2; xs_all := all0; xs_crashed := false |}.
Proof.
  intros stA2 Himp.
  destruct (request_minv_r p g U w r w_ne_r keys0 c0 st0 passR start0 fun0 ready_r pass_r p1_r) as [Hok Hinv1].
  split; [exact Hok|].
  pose proof (request_shape st0 r passR pass_r ready_r) as Hsh1.
  set (st1 := fst (remove_request st0 r passR)) in *.
  assert (Hk1 : x_keys st1 = keys0) by (rewrite Hsh1; cbn [with_status x_keys]; exact keys0_eq).
  destruct (import_start_minv_r p g U w r w_ne_r _ c0 st1 pass sh shs stA2 Hinv1) as [Hinv2 Hsh2]; try assumption.
  - rewrite Hsh1. unfold status_of. cbn [with_status x_status]. rewrite lookupN_setN_other by assumption. exact absent0.
  - intros s. specialize (nokeys0 s). unfold ownW, kown in *. rewrite (lookupN_filter_notr keys0 r s fun0).
    destruct (lookupN keys0 s) as [v0|]; [|reflexivity]. destruct (v0 =? r)%N; [reflexivity|exact nokeys0].
  - intros s Hs. rewrite Hk1. apply fresh0. assumption.
  - split; [reflexivity|]. split; [exact node0|]. split; [exact all0_U|]. exists c0. left. cbn [xs_st]. split; [exact Hinv2|].
    rewrite Hsh2. unfold shsR, sh_of_wallet. rewrite Hk1, keys0_eq. reflexivity.
Qed.

(* order B: ImportWallet w, then RemoveWallet r *)
Lemma start_B : forall stB1,
  import_start st0 w pass (sh :: shs) = Some stB1 ->
  snd (remove_request stB1 r passR) = ROk /\
  sinv_r p g U w r keysS shsR {| xs_node := n0; xs_st := fst (remove_request stB1 r passR); xs_all := all0; xs_crashed := false |}.
Proof.
  intros stB1 Himp.
  pose proof (minv_import_start p g U w keys0 c0 st0 pass sh shs stB1 start0 absent0 nokeys0 Himp) as Hinv1.
  destruct (import_start_shape st0 w pass (sh :: shs) stB1 Himp) as [Hk1 [Hp1 [Hs1 Hq1]]].
  assert (Hmf : map fst (keys_of w (sh :: shs)) = sh :: shs).
  { unfold keys_of. rewrite map_map. cbn [fst]. apply map_id. }
  assert (Hnd : NoDup (map fst (keys0 ++ keys_of w (sh :: shs)))).
  { rewrite map_app. apply NoDup_app_intro; [exact fun0|rewrite Hmf; exact fresh_nd|].
    intros x Hx Hx2. rewrite Hmf in Hx2. apply (lookupN_none_notin _ _ _ (fresh0 x Hx2)). assumption. }
  assert (Hr1 : status_of stB1 r = Some WReady) by (unfold status_of; rewrite Hs1; apply lookupN_app_some; exact ready_r).
  assert (Hpr1 : lookupN (x_pass stB1) r = Some passR) by (rewrite Hp1; apply lookupN_app_some; exact pass_r).
  assert (Hq : memN r (x_p1 stB1) = false) by (rewrite Hq1; exact p1_r).
  destruct (request_minv_r p g U w r w_ne_r _ c0 stB1 passR Hinv1 Hnd Hr1 Hpr1 Hq) as [Hok Hinv2].
  split; [exact Hok|].
  rewrite filter_app, (filter_keys_of_other w r _ w_ne_r) in Hinv2.
  split; [reflexivity|]. split; [exact node0|]. split; [exact all0_U|]. exists c0. left. cbn [xs_st]. split; [exact Hinv2|].
  unfold sh_of_wallet. rewrite FaultOpsProofs.remove_request_keys, Hk1, keys0_eq, filter_app, map_app.
  assert (Hnil : forall l, filter (fun e : N * N => (snd e =? r)%N) (keys_of w l) = []).
  { intros l. induction l as [|a l IH]; [reflexivity|]. cbn [keys_of map filter snd].
    assert (Hwr : (w =? r)%N = false) by (apply N.eqb_neq; assumption). rewrite Hwr. exact IH. }
  rewrite Hnil. cbn [map]. rewrite app_nil_r. unfold shsR, sh_of_wallet. rewrite keys0_eq. reflexivity.
Qed.

Definition ir_conclusion (s : xsim) : Prop :=
  let st := xs_st s in
  xs_crashed s = false /\
  (in_step g s -> status_of st w = Some WReady -> status_of st r = None ->
     equals_live_all p st (xs_node s) /\ x_keys st = keysS) /\
  (status_of st r = None -> mentions st r shsR = false /\ listed st r = false) /\
  (exists c, wf_chain c /\ synced (x_w st) = synced_of c /\
     forall v, v <> w -> v <> r ->
       proj v (credits (x_w st)) = proj v (credits (L p (lookupN keys0) c)) /\
       xreport st v = spec_report p (lookupN keys0) c v) /\
  (status_of st r <> None -> use_wallet st r = UUnready) /\
  (status_of st w <> Some WReady -> status_of st w <> None -> use_wallet st w = UUnready).

Lemma frame_keys0 : forall c v, wf_chain c -> v <> w -> v <> r ->
  proj v (credits (L p (ownA keysS) c)) = proj v (credits (L p (lookupN keys0) c)) /\
  spec_report p (ownA keysS) c v = spec_report p (lookupN keys0) c v.
Proof.
  intros c v Hwf Hvw Hvr.
  assert (Hagree : forall sh1, (ownA keysS sh1 = Some v <-> lookupN keys0 sh1 = Some v)).
  { intros sh1. unfold ownA, keysS. split; intros H.
    - destruct (lookupN (filter (fun e : N * N => negb (snd e =? r)%N) keys0) sh1) as [v0|] eqn:E.
      + rewrite (lookupN_app_some _ _ _ _ _ E) in H. inversion H. subst v0.
        rewrite (lookupN_filter_notr keys0 r sh1 fun0) in E. destruct (lookupN keys0 sh1) as [v1|]; [|discriminate].
        destruct (v1 =? r)%N; [discriminate|assumption].
      + rewrite (lookupN_app_none _ _ _ _ E) in H. apply keys_of_w in H. contradiction.
    - apply lookupN_app_some. rewrite (lookupN_filter_notr keys0 r sh1 fun0), H.
      apply N.eqb_neq in Hvr. rewrite Hvr. reflexivity. }
  split.
  - rewrite !proj_as_kept. change (credits (L p (ownA keysS) c)) with (E p (ownA keysS) (ptxs c)).
    change (credits (L p (lookupN keys0) c)) with (E p (lookupN keys0) (ptxs c)).
    rewrite !E_sel. apply E_ext_all. intros sh1. unfold own_sel.
    destruct (ownA keysS sh1) as [v1|] eqn:E1; destruct (lookupN keys0 sh1) as [v2|] eqn:E2.
    + destruct (v1 =? v)%N eqn:Ev1.
      * apply N.eqb_eq in Ev1. subst v1. apply Hagree in E1. rewrite E1 in E2. inversion E2. subst. rewrite N.eqb_refl. reflexivity.
      * destruct (v2 =? v)%N eqn:Ev2; [|reflexivity]. apply N.eqb_eq in Ev2. subst v2. apply Hagree in E2. rewrite E2 in E1.
        inversion E1. subst. rewrite N.eqb_refl in Ev1. discriminate.
    + destruct (v1 =? v)%N eqn:Ev1; [|reflexivity]. apply N.eqb_eq in Ev1. subst v1. apply Hagree in E1. congruence.
    + destruct (v2 =? v)%N eqn:Ev2; [|reflexivity]. apply N.eqb_eq in Ev2. subst v2. apply Hagree in E2. congruence.
    + reflexivity.
  - apply spec_report_wallet_ext. intros sh1. apply Hagree.
Qed.

Lemma ir_from_sinv : forall s0 h, sinv_r p g U w r keysS shsR s0 -> xwf_r p g U w r B cap s0 h ->
  ir_conclusion (fold_left (xstep repaired p B cap) h s0).
Proof.
  intros s0 h Hs0 Hwf.
  destruct (import_remove_run p g U U_ids U_txs w r w_ne_r keysS B cap B_pos shsR h s0 Hs0 Hwf) as [H1 [H2 [H3 [H4 [H5 H6]]]]].
  unfold ir_conclusion. cbv zeta. split; [exact H1|]. split; [exact H2|]. split; [exact H3|]. split; [|split; assumption].
  destruct H4 as [c [Hwfc [Hsy Hfr]]]. exists c. split; [assumption|]. split; [assumption|].
  intros v Hvw Hvr. destruct (Hfr v Hvw Hvr) as [Ha Hb]. destruct (frame_keys0 c v Hwfc Hvw Hvr) as [Hc Hd].
  split; congruence.
Qed.

(* C07 / C08, one wallet restored while another is removed.  Start: a database in which every wallet is ready
   ([minv] with w absent), r one of them.  RemoveWallet r and ImportWallet w in either order; then ANY interleaving
   of rescan batches of w, removal steps of r (phase 1, rounds with any cap), node events and announcements. *)
Theorem import_during_removal_A : forall stA2 h,
  import_start (fst (remove_request st0 r passR)) w pass (sh :: shs) = Some stA2 ->
  let s2 := {| xs_node := n0; xs_st := stA2; xs_all := all0; xs_crashed := false |} in
  xwf_r p g U w r B cap s2 h ->
  ir_conclusion (fold_left (xstep repaired p B cap) h s2).
Proof. intros stA2 h Himp s2 Hwf. destruct (start_A stA2 Himp) as [_ Hs]. apply (ir_from_sinv s2 h Hs Hwf). Qed.

Theorem import_during_removal_B : forall stB1 h,
  import_start st0 w pass (sh :: shs) = Some stB1 ->
  let s2 := {| xs_node := n0; xs_st := fst (remove_request stB1 r passR); xs_all := all0; xs_crashed := false |} in
  xwf_r p g U w r B cap s2 h ->
  ir_conclusion (fold_left (xstep repaired p B cap) h s2).
Proof. intros stB1 h Himp s2 Hwf. destruct (start_B stB1 Himp) as [_ Hs]. apply (ir_from_sinv s2 h Hs Hwf). Qed.

End PackagedIR.
