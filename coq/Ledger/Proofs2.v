(* Ledger/Proofs2.v — C01, part 2: chains.  Linked chains, the ledger of a chain is [L],
   the report of [L] is the specification's report (T1), rollback is the ledger of the prefix (T2). *)
From Coq Require Import List ZArith NArith Bool Lia.
Import ListNotations.
Open Scope Z_scope.
Require Import MW.Ledger.Model MW.Ledger.Spec MW.Ledger.Run MW.Ledger.WF MW.Ledger.Proofs.

(* ---------------------------------------------------------------- linked chains *)

Lemma linked_prefix : forall a b pv h, linked pv h (a ++ b) -> linked pv h a.
Proof.
  induction a as [|x a IH]; intros b pv h H.
  - exact I.
  - cbn [app linked] in *. destruct H as [H1 [H2 H3]]. split; [assumption|split; [assumption|]].
    apply (IH _ _ _ H3).
Qed.

Lemma linked_height : forall a x r pv h, linked pv h (a ++ x :: r) -> b_height x = h + Z.of_nat (length a).
Proof.
  induction a as [|y a IH]; intros x r pv h H.
  - cbn in H. destruct H as [_ [H _]]. cbn. lia.
  - cbn [app linked] in H. destruct H as [_ [_ H]]. rewrite (IH _ _ _ _ H). cbn [length]. lia.
Qed.

Lemma linked_prev : forall a x y r pv h, linked pv h (a ++ x :: y :: r) -> b_prev y = b_id x.
Proof.
  induction a as [|z a IH]; intros x y r pv h H.
  - cbn in H. tauto.
  - cbn [app linked] in H. destruct H as [_ [_ H]]. apply (IH _ _ _ _ _ H).
Qed.

Lemma wf_linked : forall c, wf_chain c -> exists pv, linked pv 0 c.
Proof.
  intros c Hwf. destruct (wf_genesis _ Hwf) as [g [rest [Hc [Hh [_ Hl]]]]].
  exists (b_prev g). subst c. cbn [linked]. split; [reflexivity|split; [assumption|exact Hl]].
Qed.

Lemma wf_nonempty : forall c, wf_chain c -> c <> [].
Proof.
  intros c Hwf. destruct (wf_genesis _ Hwf) as [g [rest [Hc _]]]. subst c. discriminate.
Qed.

Lemma all_inputs_flat : forall c, all_inputs c = flat_map ins_of (chain_txs c).
Proof. reflexivity. Qed.

Lemma wf_chain_txs : forall c, wf_chain c -> wf_txs (chain_txs c).
Proof.
  intros c Hwf. constructor.
  - apply (wf_txids _ Hwf).
  - apply (wf_inputs _ Hwf).
  - rewrite <- all_inputs_flat. apply (wf_nodouble _ Hwf).
Qed.

Lemma wf_chain_prefix : forall a b, wf_chain (a ++ b) -> a <> [] -> wf_chain a.
Proof.
  intros a b Hwf Hne. destruct (wf_genesis _ Hwf) as [g [rest [Hc [Hh [Htx Hl]]]]].
  destruct a as [|g' a']; [contradiction|]. cbn [app] in Hc. inversion Hc. subst g' rest.
  pose proof (wf_chain_txs _ Hwf) as Hwt. rewrite chain_txs_app in Hwt. apply wf_txs_prefix in Hwt.
  constructor.
  - exists g, a'. split; [reflexivity|split; [assumption|split; [assumption|]]].
    apply (linked_prefix _ _ _ _ Hl).
  - pose proof (wf_bids _ Hwf) as H. rewrite map_app in H. apply NoDup_app_inv in H. tauto.
  - apply (wt_ids _ Hwt).
  - apply (wt_inputs _ Hwt).
  - rewrite all_inputs_flat. apply (wt_nodouble _ Hwt).
Qed.

Lemma node_at_found : forall a x r pv h,
  linked pv h (a ++ x :: r) -> find (fun b => b_height b =? b_height x) (a ++ x :: r) = Some x.
Proof.
  induction a as [|y a IH]; intros x r pv h H.
  - cbn [app find]. rewrite Z.eqb_refl. reflexivity.
  - pose proof (linked_height (y :: a) x r pv h H) as Hx.
    cbn [app linked] in H. destruct H as [_ [Hy H]].
    cbn [app find]. destruct (b_height y =? b_height x) eqn:Heq.
    + apply Z.eqb_eq in Heq. cbn [length] in Hx. lia.
    + apply (IH _ _ _ _ H).
Qed.

Lemma node_tx_found : forall n t, wf_chain n -> In t (chain_txs n) -> node_tx n (t_id t) = Some t.
Proof.
  intros n t Hwf Hin. unfold node_tx. fold (chain_txs n). apply find_tx_nodup; [|assumption].
  apply (wf_txids _ Hwf).
Qed.

Lemma tip_L_snoc : forall p own pre y, tip (L p own (pre ++ [y])) = (b_height y, b_id y).
Proof. intros. unfold tip, L. cbn [synced]. rewrite synced_of_snoc. reflexivity. Qed.

(* ---------------------------------------------------------------- connecting along the node *)

(* with the repaired code the committed view is not consulted *)
Lemma connect_block_commit_irrelevant : forall p own cm1 cm2 lookup st b,
  connect_block p true own cm1 lookup st b = connect_block p true own cm2 lookup st b.
Proof. reflexivity. Qed.

Lemma connect_all_commit_irrelevant : forall p own n bs cm1 cm2 st,
  connect_all p true own cm1 n st bs = connect_all p true own cm2 n st bs.
Proof.
  intros p own n bs. induction bs as [|b bs IH]; intros cm1 cm2 st.
  - reflexivity.
  - cbn [connect_all]. destruct (node_at n (b_height b)); [|reflexivity].
    destruct (negb (b_id b0 =? b_id b)%N); [reflexivity|].
    rewrite (connect_block_commit_irrelevant p own cm1 cm2).
    destruct (connect_block p true own cm2 (node_tx n) st b); [|reflexivity]. apply IH.
Qed.

(* the repaired defect: several blocks connected in one commit = connected one commit at a time *)
Lemma connect_all_one_by_one : forall p own n cm st b bs,
  connect_all p true own cm n st (b :: bs) =
  match connect_all p true own (credits st) n st [b] with
  | Ok st' => connect_all p true own (credits st') n st' bs
  | Err e => Err e
  end.
Proof.
  intros p own n cm st b bs. cbn [connect_all]. destruct (node_at n (b_height b)); [|reflexivity].
  destruct (negb (b_id b0 =? b_id b)%N); [reflexivity|].
  rewrite (connect_block_commit_irrelevant p own cm (credits st)).
  destruct (connect_block p true own (credits st) (node_tx n) st b); [|reflexivity].
  apply connect_all_commit_irrelevant.
Qed.

Lemma connect_all_L : forall p own cm n bs pre r,
  wf_chain n -> n = pre ++ bs ++ r -> pre <> [] ->
  connect_all p true own cm n (L p own pre) bs = Ok (L p own (pre ++ bs)).
Proof.
  intros p own cm n bs. induction bs as [|x bs IH]; intros pre r Hwf Hn Hne.
  - rewrite app_nil_r. reflexivity.
  - destruct (wf_linked _ Hwf) as [pv Hl].
    cbn [connect_all]. unfold node_at.
    assert (Hn1 : n = pre ++ x :: (bs ++ r)). { rewrite Hn. reflexivity. }
    rewrite Hn1 at 1. rewrite Hn1 in Hl. rewrite (node_at_found _ _ _ _ _ Hl).
    rewrite N.eqb_refl. cbn [negb].
    assert (Hn2 : n = (pre ++ [x]) ++ bs ++ r). { rewrite Hn1. rewrite <- app_assoc. reflexivity. }
    assert (Hwfp : wf_chain (pre ++ [x])).
    { rewrite Hn2 in Hwf. apply (wf_chain_prefix _ _ Hwf). destruct pre; discriminate. }
    rewrite (connect_block_L p own cm (node_tx n) pre x).
    + rewrite (IH (pre ++ [x]) r Hwf Hn2).
      * rewrite <- app_assoc. reflexivity.
      * destruct pre; discriminate.
    + apply wf_chain_txs. assumption.
    + intros t Ht. apply node_tx_found; [assumption|]. rewrite Hn, chain_txs_app.
      apply in_or_app. left. assumption.
Qed.

Lemma process_step : forall p own n pre x r,
  wf_chain n -> n = pre ++ x :: r -> pre <> [] ->
  process p true own n (L p own pre) x = Ok (L p own (pre ++ [x])).
Proof.
  intros p own n pre x r Hwf Hn Hne.
  destruct (exists_last Hne) as [pre' [y Hpre]].
  destruct (wf_linked _ Hwf) as [pv Hl].
  unfold process. rewrite Hpre at 1. rewrite tip_L_snoc. cbn [snd].
  assert (Hprev : b_prev x = b_id y).
  { rewrite Hn, Hpre in Hl. rewrite <- app_assoc in Hl. cbn [app] in Hl. apply (linked_prev _ _ _ _ _ _ Hl). }
  rewrite Hprev, N.eqb_refl.
  apply (connect_all_L p own _ n [x] pre r Hwf); [|assumption]. rewrite Hn. reflexivity.
Qed.

Lemma follow_L : forall p own n bs pre r,
  wf_chain n -> n = pre ++ bs ++ r -> pre <> [] ->
  follow p true own n (L p own pre) bs = Ok (L p own (pre ++ bs)).
Proof.
  intros p own n bs. induction bs as [|x bs IH]; intros pre r Hwf Hn Hne.
  - rewrite app_nil_r. reflexivity.
  - cbn [follow]. rewrite (process_step p own n pre x (bs ++ r) Hwf); [|rewrite Hn; reflexivity|assumption].
    rewrite (IH (pre ++ [x]) r Hwf).
    + rewrite <- app_assoc. reflexivity.
    + rewrite Hn. rewrite <- app_assoc. reflexivity.
    + destruct pre; discriminate.
Qed.

Lemma L_genesis : forall p own g, b_height g = 0 -> b_txs g = [] -> L p own [g] = init_state (b_id g).
Proof.
  intros p own g Hh Htx. unfold L, init_state, synced_of, E, ptxs, ptxs_of_block. cbn [flat_map map rev app].
  rewrite Htx, Hh. reflexivity.
Qed.

Theorem ledger_of_chain_L : forall p own c, wf_chain c -> ledger_of_chain p true own c = Ok (L p own c).
Proof.
  intros p own c Hwf. destruct (wf_genesis _ Hwf) as [g [rest [Hc [Hh [Htx Hl]]]]].
  subst c. unfold ledger_of_chain. rewrite <- (L_genesis p own g Hh Htx).
  apply (follow_L p own (g :: rest) rest [g] [] Hwf).
  - rewrite app_nil_r. reflexivity.
  - discriminate.
Qed.

(* ---------------------------------------------------------------- the report of L *)

Definition isn {A : Type} (o : option A) : bool := match o with None => true | Some _ => false end.

Lemma find_in_ins_existsb : forall ins i op, isn (find_in_ins ins i op) = negb (existsb (op_eqb op) ins).
Proof.
  induction ins as [|x ins IH]; intros i op.
  - reflexivity.
  - cbn [find_in_ins existsb]. destruct (op_eqb op x); [reflexivity|]. cbn [orb]. apply IH.
Qed.

Lemma spender_l_spent : forall l op,
  isn (spender_l l op) =
  negb (existsb (fun t => negb (t_cb t) && existsb (op_eqb op) (t_ins t)) (txs_of l)).
Proof.
  induction l as [|x l IH]; intros op.
  - reflexivity.
  - cbn [spender_l txs_of map existsb]. fold (txs_of l). unfold spender_pt.
    destruct (t_cb (pt_tx x)).
    + cbn [negb andb orb]. apply IH.
    + cbn [negb andb]. pose proof (find_in_ins_existsb (t_ins (pt_tx x)) 0%N op) as Hf.
      destruct (find_in_ins (t_ins (pt_tx x)) 0%N op).
      * cbn [isn] in *. destruct (existsb (op_eqb op) (t_ins (pt_tx x))); [reflexivity|discriminate].
      * cbn [isn] in Hf. destruct (existsb (op_eqb op) (t_ins (pt_tx x))); [discriminate|].
        cbn [orb]. apply IH.
Qed.

Lemma spender_chain_spent : forall c op, isn (spender_l (ptxs c) op) = negb (spent_in c op).
Proof. intros c op. rewrite spender_l_spent, txs_of_ptxs. reflexivity. Qed.

Lemma flat_map_map' : forall (A B C : Type) (f : A -> B) (g : B -> list C) l,
  flat_map g (map f l) = flat_map (fun x => g (f x)) l.
Proof.
  intros A B C f g l. induction l as [|x l IH]; [reflexivity|]. cbn. rewrite IH. reflexivity.
Qed.

Lemma coins_l_ptxs : forall own c, coins_l own (ptxs c) = coins_of_chain own c.
Proof.
  intros own c. induction c as [|b c IH].
  - reflexivity.
  - cbn [ptxs flat_map coins_of_chain]. fold (ptxs c). fold (coins_of_chain own c).
    rewrite coins_l_app, IH. f_equal.
    unfold coins_l, ptxs_of_block, coins_of_block. rewrite flat_map_map'. reflexivity.
Qed.

Lemma filter_map_comm : forall (A B : Type) (f : A -> B) (g : B -> bool) l,
  filter g (map f l) = map f (filter (fun x => g (f x)) l).
Proof.
  intros A B f g l. induction l as [|x l IH]; [reflexivity|].
  cbn [map filter]. destruct (g (f x)); cbn [map]; rewrite IH; reflexivity.
Qed.

Lemma wallet_unspent_L : forall p own c w,
  wallet_unspent (L p own c) w = mkE p (utxo_of_chain own c w) (spender_l (ptxs c)).
Proof.
  intros p own c w. unfold wallet_unspent, L, E. cbn [credits]. unfold mkE at 1.
  rewrite filter_map_comm. unfold mkE, utxo_of_chain. rewrite coins_l_ptxs. f_equal.
  apply filter_ext. intros k. unfold is_unspent. cbn [mk_credit c_wallet c_spent].
  rewrite <- spender_chain_spent. unfold coin_op. reflexivity.
Qed.

Lemma listed_unspent_L : forall p own c w,
  listed_unspent (L p own c) w =
  mkE p (filter (fun k => negb (k_amount k =? 0)) (utxo_of_chain own c w)) (spender_l (ptxs c)).
Proof.
  intros p own c w. unfold listed_unspent. rewrite wallet_unspent_L. unfold mkE.
  rewrite filter_map_comm. reflexivity.
Qed.

Lemma gross_mkE : forall p U f,
  fold_right (fun c a => c_amount c + a) 0 (mkE p U f) = fold_right (fun k a => k_amount k + a) 0 U.
Proof.
  intros p U f. induction U as [|k U IH]; [reflexivity|].
  change (mkE p (k :: U) f) with (mk_credit p k (f (coin_op k)) :: mkE p U f).
  cbn [fold_right]. rewrite IH. reflexivity.
Qed.

Lemma sum_where_mkE : forall p U f g g',
  (forall k, g (mk_credit p k (f (coin_op k))) = g' k) ->
  sum_where g (mkE p U f) = spec_sum g' U.
Proof.
  intros p U f g g' H. induction U as [|k U IH]; [reflexivity|].
  change (mkE p (k :: U) f) with (mk_credit p k (f (coin_op k)) :: mkE p U f).
  unfold sum_where, spec_sum in *. cbn [fold_right]. rewrite IH, H. reflexivity.
Qed.

Lemma spec_sum_nonzero : forall g U,
  spec_sum g (filter (fun k => negb (k_amount k =? 0)) U) = spec_sum g U.
Proof.
  intros g U. induction U as [|k U IH]; [reflexivity|].
  cbn [filter]. destruct (k_amount k =? 0) eqn:Hz.
  - cbn [negb]. rewrite IH. unfold spec_sum. cbn [fold_right]. apply Z.eqb_eq in Hz. rewrite Hz.
    destruct (g k); reflexivity.
  - cbn [negb]. unfold spec_sum in *. cbn [fold_right]. rewrite IH. reflexivity.
Qed.

Lemma tip_height_L : forall p own c, wf_chain c -> fst (tip (L p own c)) = chain_height c.
Proof.
  intros p own c Hwf. destruct (exists_last (wf_nonempty _ Hwf)) as [pre [y Hc]].
  destruct (wf_linked _ Hwf) as [pv Hl]. subst c.
  rewrite tip_L_snoc. cbn [fst]. rewrite (linked_height _ _ _ _ _ Hl).
  unfold chain_height. rewrite app_length. cbn [length]. lia.
Qed.

Lemma mature_mk : forall p st k s H,
  fst (tip st) = H -> mature st (mk_credit p k s) = consensus_spendable p (H + 1) k.
Proof.
  intros p st k s H Ht. unfold mature, confs, consensus_spendable, coin_maturity. rewrite Ht.
  cbn [mk_credit c_maturity c_height]. f_equal. lia.
Qed.

Theorem report_L : forall p own c w, wf_chain c -> model_report (L p own c) w = spec_report p own c w.
Proof.
  intros p own c w Hwf. pose proof (tip_height_L p own c Hwf) as Htip.
  unfold model_report, spec_report. f_equal.
  - assumption.
  - unfold gross_balance, balance_of_chain. rewrite wallet_unspent_L. apply gross_mkE.
  - unfold bal_spendable, spec_spendable. rewrite listed_unspent_L.
    rewrite (sum_where_mkE _ _ _ _ (fun k => consensus_spendable p (chain_height c + 1) k && k_is_std k)).
    + apply spec_sum_nonzero.
    + intros k. rewrite (mature_mk _ _ _ _ _ Htip). reflexivity.
  - unfold bal_wstaking, spec_wstaking. rewrite listed_unspent_L.
    rewrite (sum_where_mkE _ _ _ _ (fun k => consensus_spendable p (chain_height c + 1) k && k_is_staking k)).
    + apply spec_sum_nonzero.
    + intros k. rewrite (mature_mk _ _ _ _ _ Htip). reflexivity.
  - unfold bal_wbinding, spec_wbinding. rewrite listed_unspent_L.
    rewrite (sum_where_mkE _ _ _ _ (fun k => consensus_spendable p (chain_height c + 1) k && k_is_binding k)).
    + apply spec_sum_nonzero.
    + intros k. rewrite (mature_mk _ _ _ _ _ Htip). reflexivity.
  - rewrite listed_unspent_L. unfold mkE. rewrite map_map. apply map_ext. intros k.
    unfold row_of_credit, row_of_coin. rewrite (mature_mk _ _ _ _ _ Htip).
    unfold confs. rewrite Htip. reflexivity.
Qed.

(* T1 *)
Theorem follow_refines_chain : forall p own c, wf_chain c ->
  exists st, ledger_of_chain p true own c = Ok st /\
             forall w, model_report st w = spec_report p own c w.
Proof.
  intros p own c Hwf. exists (L p own c). split.
  - apply ledger_of_chain_L. assumption.
  - intros w. apply report_L. assumption.
Qed.

(* ---------------------------------------------------------------- rollback (T2) *)

Lemma filter_all_true : forall (A : Type) (f : A -> bool) l, (forall x, In x l -> f x = true) -> filter f l = l.
Proof.
  intros A f l. induction l as [|x l IH]; intros H; [reflexivity|].
  cbn [filter]. rewrite (H x (or_introl eq_refl)). f_equal. apply IH. intros y Hy. apply H. right. assumption.
Qed.

Lemma filter_all_false : forall (A : Type) (f : A -> bool) l, (forall x, In x l -> f x = false) -> filter f l = [].
Proof.
  intros A f l. induction l as [|x l IH]; intros H; [reflexivity|].
  cbn [filter]. rewrite (H x (or_introl eq_refl)). apply IH. intros y Hy. apply H. right. assumption.
Qed.

Lemma coins_l_height : forall own l k, In k (coins_l own l) -> exists x, In x l /\ k_height k = pt_h x.
Proof.
  intros own l k Hk. apply coins_l_in in Hk. destruct Hk as [x [Hx Hk]].
  unfold coins_pt in Hk. apply coins_of_outs_in in Hk. exists x. tauto.
Qed.

Lemma spender_l_height : forall l op a b sh, spender_l l op = Some (a, b, sh) -> exists x, In x l /\ pt_h x = sh.
Proof.
  induction l as [|x l IH]; intros op a b sh H.
  - discriminate.
  - cbn [spender_l] in H. destruct (spender_pt x op) as [s|] eqn:Hx.
    + exists x. split; [left; reflexivity|]. unfold spender_pt in Hx.
      destruct (t_cb (pt_tx x)); [discriminate|].
      destruct (find_in_ins (t_ins (pt_tx x)) 0%N op); [|discriminate]. congruence.
    + destruct (IH _ _ _ _ H) as [y [Hy Hh]]. exists y. split; [right|]; assumption.
Qed.

Lemma rollback_credits_E : forall p own l1 l2 h,
  (forall x, In x l1 -> pt_h x < h) -> (forall x, In x l2 -> h <= pt_h x) ->
  rollback_credits (E p own (l1 ++ l2)) h = E p own l1.
Proof.
  intros p own l1 l2 h H1 H2. unfold rollback_credits, E.
  rewrite coins_l_app, mkE_app, filter_app.
  rewrite (filter_all_true _ _ (mkE p (coins_l own l1) _)).
  2:{ intros cr Hcr. unfold mkE in Hcr. apply in_map_iff in Hcr. destruct Hcr as [k [Hcr Hk]]. subst cr.
      cbn [mk_credit c_height]. destruct (coins_l_height _ _ _ Hk) as [x [Hx Hh]]. rewrite Hh.
      apply Z.ltb_lt. apply H1. assumption. }
  rewrite (filter_all_false _ _ (mkE p (coins_l own l2) _)).
  2:{ intros cr Hcr. unfold mkE in Hcr. apply in_map_iff in Hcr. destruct Hcr as [k [Hcr Hk]]. subst cr.
      cbn [mk_credit c_height]. destruct (coins_l_height _ _ _ Hk) as [x [Hx Hh]]. rewrite Hh.
      apply Z.ltb_ge. apply H2. assumption. }
  rewrite app_nil_r. unfold mkE. rewrite map_map. apply map_ext. intros k.
  cbn [mk_credit c_spent]. rewrite spender_l_app.
  destruct (spender_l l1 (coin_op k)) as [[[a b] sh]|] eqn:Hs1.
  - destruct (spender_l_height _ _ _ _ _ Hs1) as [x [Hx Hh]]. specialize (H1 x Hx).
    destruct (h <=? sh) eqn:Hle; [apply Z.leb_le in Hle; lia|reflexivity].
  - destruct (spender_l l2 (coin_op k)) as [[[a b] sh]|] eqn:Hs2; [|reflexivity].
    destruct (spender_l_height _ _ _ _ _ Hs2) as [x [Hx Hh]]. specialize (H2 x Hx).
    destruct (h <=? sh) eqn:Hle; [reflexivity|apply Z.leb_gt in Hle; lia].
Qed.

Lemma ptxs_height : forall c x, In x (ptxs c) -> exists b, In b c /\ pt_h x = b_height b.
Proof.
  intros c x Hx. unfold ptxs in Hx. apply in_flat_map in Hx. destruct Hx as [b [Hb Hx]].
  exists b. split; [assumption|]. unfold ptxs_of_block in Hx. apply in_map_iff in Hx.
  destruct Hx as [t [Hx _]]. subst x. reflexivity.
Qed.

Theorem rollback_L : forall p own c1 c2 h,
  (forall b, In b c1 -> b_height b < h) -> (forall b, In b c2 -> h <= b_height b) ->
  rollback_to (L p own (c1 ++ c2)) h = L p own c1.
Proof.
  intros p own c1 c2 h H1 H2. unfold rollback_to, L. cbn [credits synced]. f_equal.
  - rewrite ptxs_app. apply rollback_credits_E.
    + intros x Hx. destruct (ptxs_height _ _ Hx) as [b [Hb Hh]]. rewrite Hh. apply H1. assumption.
    + intros x Hx. destruct (ptxs_height _ _ Hx) as [b [Hb Hh]]. rewrite Hh. apply H2. assumption.
  - unfold synced_of. rewrite map_app, rev_app_distr, filter_app.
    rewrite filter_all_false, filter_all_true; [reflexivity| |].
    + intros e He. apply in_rev in He. apply in_map_iff in He. destruct He as [b [He Hb]]. subst e.
      cbn [fst]. apply Z.ltb_lt. apply H1. assumption.
    + intros e He. apply in_rev in He. apply in_map_iff in He. destruct He as [b [He Hb]]. subst e.
      cbn [fst]. apply Z.ltb_ge. apply H2. assumption.
Qed.

Lemma linked_heights_split : forall c1 c2 pv,
  linked pv 0 (c1 ++ c2) ->
  (forall b, In b c1 -> b_height b < Z.of_nat (length c1)) /\
  (forall b, In b c2 -> Z.of_nat (length c1) <= b_height b).
Proof.
  intros c1 c2 pv Hl. split; intros b Hb.
  - apply in_split in Hb. destruct Hb as [a [r Hc1]]. subst c1. rewrite <- app_assoc in Hl. cbn [app] in Hl.
    rewrite (linked_height _ _ _ _ _ Hl). rewrite app_length. cbn [length]. lia.
  - apply in_split in Hb. destruct Hb as [a [r Hc2]]. subst c2. rewrite app_assoc in Hl.
    rewrite (linked_height _ _ _ _ _ Hl). rewrite app_length. lia.
Qed.

(* T2 *)
Theorem rollback_inverse : forall p own c st k,
  wf_chain c -> ledger_of_chain p true own c = Ok st -> 0 <= k <= chain_height c ->
  exists st', ledger_of_chain p true own (firstn (Z.to_nat k + 1) c) = Ok st' /\
              rollback_to st (k + 1) = st'.
Proof.
  intros p own c st k Hwf Hst Hk.
  rewrite (ledger_of_chain_L p own c Hwf) in Hst. inversion Hst. subst st. clear Hst.
  set (m := (Z.to_nat k + 1)%nat).
  assert (Hlen : (m <= length c)%nat). { unfold chain_height in Hk. subst m. lia. }
  assert (Hsplit : c = firstn m c ++ skipn m c). { symmetry. apply firstn_skipn. }
  assert (Hflen : length (firstn m c) = m). { apply firstn_length_le. assumption. }
  assert (Hwfp : wf_chain (firstn m c)).
  { rewrite Hsplit in Hwf. apply (wf_chain_prefix _ _ Hwf). intros Hnil. rewrite Hnil in Hflen.
    cbn in Hflen. subst m. lia. }
  exists (L p own (firstn m c)). split.
  - apply ledger_of_chain_L. assumption.
  - destruct (wf_linked _ Hwf) as [pv Hl]. rewrite Hsplit in Hl.
    destruct (linked_heights_split _ _ _ Hl) as [H1 H2]. rewrite Hflen in H1, H2.
    rewrite Hsplit at 1. apply rollback_L.
    + intros b Hb. specialize (H1 b Hb). subst m. lia.
    + intros b Hb. specialize (H2 b Hb). subst m. lia.
Qed.
