(* Ledger/PendingProofs3.v — C09: the unmined-inputs index is COMPLETE for wallet coins along every history.

   PendingProofs.v proves the conflict clause relative to the index ("every transaction REGISTERED under an
   input of the mined record vanishes with its descendants").  This file closes the gap:
     A. Rollback keeps every registration (read-append-write); a variant that overwrites the entry
        (Put(outpoint, hash)) is refuted on a closed history.
     B. The whole-history invariant [regd]: every input of every pending transaction is either registered
        under its outpoint or spends an output of a transaction shown to the wallet that is NOT a wallet output.
     C. The conflict clause at the level of histories.
   No model definition is changed. *)
From Coq Require Import List ZArith NArith Bool Lia.
Import ListNotations.
Open Scope Z_scope.
Require Import MW.Ledger.Model MW.Ledger.Spec MW.Ledger.Run MW.Ledger.WF MW.Ledger.Pending.
Require Import MW.Ledger.PendingProofs.

(* ================================================================ A. rollback keeps the registrations *)

Lemma fold_rollback_err :
  forall a3fix cs h bid txs e, fold_left (rollback_tx a3fix cs h bid) txs (PErr e) = PErr e.
Proof. intros a3fix cs h bid txs e. induction txs as [|t txs IH]; cbn [fold_left]; [reflexivity|exact IH]. Qed.

(* the move-back loop only adds: registrations and pending records of the state before are all still there,
   a pending record keeps its value unless it is one of the block's transactions *)
Lemma rollback_fold_keeps :
  forall a3fix cs h bid txs s ops s' ops',
    fold_left (rollback_tx a3fix cs h bid) txs (POk (s, ops)) = POk (s', ops') ->
    (forall o sp, In sp (ui_get (ps_uinputs s) o) -> In sp (ui_get (ps_uinputs s') o)) /\
    (forall k, pend s k <> None -> pend s' k <> None) /\
    (forall k, ~ In k (map t_id (filter (fun t => negb (t_cb t)) txs)) -> pend s' k = pend s k) /\
    ps_blocks s' = ps_blocks s /\ ps_w s' = ps_w s.
Proof.
  intros a3fix cs h bid txs. induction txs as [|t txs IH]; intros s ops s' ops' H; cbn [fold_left] in H.
  - inversion H; subst. repeat split; auto.
  - destruct (rollback_tx a3fix cs h bid (POk (s, ops)) t) as [[sm opsm]|e] eqn:E;
      [|rewrite fold_rollback_err in H; discriminate].
    destruct (rollback_tx_effect _ _ _ _ _ _ _ _ _ E) as (U & M & _).
    destruct (IH _ _ _ _ H) as (I1 & I2 & I3 & I4 & I5).
    assert (Fr : ps_blocks sm = ps_blocks s /\ ps_w sm = ps_w s).
    { unfold rollback_tx in E. destruct (t_cb t); [inversion E; subst; split; reflexivity|].
      match type of E with (match unwithdraw_ins cs (ps_game ?S2) _ _ _ with _ => _ end) = _ => set (s2 := S2) in * end.
      destruct (unwithdraw_ins cs (ps_game s2) (t_id t) h (map N.of_nat (seq 0 (length (t_ins t))))) as [g|e]; [|discriminate].
      inversion E; subst sm opsm.
      destruct (rollback_credit_fold_frame h (credits_at cs (t_id t) h bid) (set_game s2 g)) as (_ & B & _ & D).
      cbv zeta in B, D. split; [exact B|exact D]. }
    split; [|split; [|split; [|split]]].
    + intros o sp Hsp. apply I1. apply M. exact Hsp.
    + intros k Hk. apply I2. unfold pend. rewrite U. destruct (t_cb t); [exact Hk|].
      destruct (t_id t =? k)%N; [destruct a3fix; discriminate|exact Hk].
    + intros k Hk. cbn [filter] in Hk. rewrite I3.
      * unfold pend. rewrite U. destruct (t_cb t) eqn:Ecb; [reflexivity|].
        destruct (t_id t =? k)%N eqn:Ek; [|reflexivity]. exfalso. apply Hk. cbn [negb map]. left. apply N.eqb_eq. exact Ek.
      * intros Hin. apply Hk. destruct (t_cb t); cbn [negb]; [exact Hin|right; exact Hin].
    + rewrite I4. exact (proj1 Fr).
    + rewrite I5. exact (proj2 Fr).
Qed.

(* item 1, the move-back loop of Rollback: every registration survives, whatever else is registered
   under the same outpoint; and nothing leaves the pending set *)
Theorem rollback_keeps_registrations :
  forall a3fix cs s r s' ops, rollback_move a3fix cs s r = POk (s', ops) ->
    (forall o sp, In sp (ui_get (ps_uinputs s) o) -> In sp (ui_get (ps_uinputs s') o)) /\
    (forall k, pend s k <> None -> pend s' k <> None).
Proof.
  intros a3fix cs s r s' ops H. unfold rollback_move in H.
  destruct (rollback_fold_keeps _ _ _ _ _ _ _ _ _ H) as (A & B & _). split; assumption.
Qed.

(* the coinbase purge is a conflict removal: it is a [bundle] step *)
Lemma purge_coinbase_bundle :
  forall own ops s, okp (bundle s) (purge_coinbase own s ops).
Proof.
  intros own ops s. unfold purge_coinbase.
  assert (H : forall ops0 acc, okp (bundle s) acc ->
            okp (bundle s) (fold_left (fun (acc : pres pstate) (o : outp) =>
                                 match acc with PErr e => PErr e | POk s1 => remove_spenders own s1 o end) ops0 acc)).
  { induction ops0 as [|o ops0 IH]; intros acc Hacc; cbn [fold_left]; [exact Hacc|].
    apply IH. destruct acc as [s1|e]; [|exact I]. cbn [okp] in Hacc.
    pose proof (remove_spenders_bundle own s1 o) as F.
    destruct (remove_spenders own s1 o) as [s2|e]; [|exact I]. cbn [okp] in F |- *.
    eapply bundle_trans; [exact Hacc|exact (proj1 F)]. }
  apply H. cbn [okp]. apply bundle_refl.
Qed.

(* Rollback of one block (disconnectBlock): the registrations of every transaction that is still pending
   afterwards are kept.  What may go are the registrations of pending spenders of the block's coinbase
   outputs and of their descendants, which leave the pending set (purge_coinbase). *)
Theorem rollback_one_keeps_registrations :
  forall a3fix own cs s h s', p_rollback_one a3fix own cs s h = POk s' ->
    forall o sp, In sp (ui_get (ps_uinputs s) o) -> pend s' sp <> None -> In sp (ui_get (ps_uinputs s') o).
Proof.
  intros a3fix own cs s h s' H o sp Hreg Hsurv. unfold p_rollback_one in H.
  destruct (find (fun r => br_height r =? h) (ps_blocks s)) as [r|]; [|inversion H; subst; exact Hreg].
  destruct (rollback_move a3fix cs s r) as [[s1 cbops]|e] eqn:Em; [|discriminate].
  destruct (rollback_keeps_registrations _ _ _ _ _ _ Em) as (A & _).
  set (s1' := set_blocks s1 (filter (fun x => negb (br_height x =? h)) (ps_blocks s1))) in *.
  pose proof (purge_coinbase_bundle own cbops s1') as F. rewrite H in F. cbn [okp] in F.
  destruct F as (_ & K & _).
  destruct (K o sp (A o sp Hreg)) as [Hin|Hn]; [exact Hin|contradiction].
Qed.

(* ---------------------------------------------------------------- the overwriting variant, refuted *)

(* Put(outpoint, hash): the entry is replaced by the single hash *)
Definition ui_put (l : list (outp * list N)) (o : outp) (h : N) : list (outp * list N) := (o, [h]) :: ui_del l o.

(* Rollback's per-transaction step with the registration written by [reg] *)
Definition rollback_tx_with (reg : list (outp * list N) -> outp -> N -> list (outp * list N))
           (a3fix : bool) (cs : list credit) (h : Z) (bid : N) (acc : pres (pstate * list outp)) (t : tx)
  : pres (pstate * list outp) :=
  match acc with
  | PErr e => PErr e
  | POk (s, cbops) =>
      let mine := credits_at cs (t_id t) h bid in
      if t_cb t then POk (s, cbops ++ map credit_op mine)
      else
        let s1 := set_unmined s (um_put (ps_unmined s) (t_id t) (pending_value_of_rolled_back a3fix t)) in
        let s2 := set_uinputs s1 (fold_left (fun ui o => reg ui o (t_id t)) (t_ins t) (ps_uinputs s1)) in
        match unwithdraw_ins cs (ps_game s2) (t_id t) h (map N.of_nat (seq 0 (length (t_ins t)))) with
        | PErr e => PErr e
        | POk g =>
            let s3 := set_game s2 g in
            let s4 := fold_left (fun acc c =>
                        let a1 := set_ucredits acc (uc_put (ps_ucredits acc)
                                    {| uc_op := credit_op c; uc_amount := c_amount c; uc_sh := c_sh c;
                                       uc_class := c_class c; uc_maturity := c_maturity c |}) in
                        match game_kind (c_class c) with
                        | Some b =>
                            set_ugame (set_game a1 (g_del (ps_game a1) (mk_grow (c_wallet c) b false (c_tx c) h (c_vout c))))
                                      (ug_put (ps_ugame a1) {| ug_wallet := c_wallet c; ug_binding := b; ug_tx := c_tx c; ug_vout := c_vout c |})
                        | None => a1
                        end) mine s3 in
            POk (s4, cbops)
        end
  end.

(* the model's step is the instance with putRawUnminedInput (read-append-write) *)
Lemma rollback_tx_with_append : forall a3fix cs h bid acc t,
  rollback_tx_with ui_append a3fix cs h bid acc t = rollback_tx a3fix cs h bid acc t.
Proof. reflexivity. Qed.

(* the handler with Rollback's per-transaction step as a parameter [rtx] *)

Definition rollback_move_w (rtx : bool -> list credit -> Z -> N -> pres (pstate * list outp) -> tx -> pres (pstate * list outp)) (a3fix : bool) (cs : list credit) (s : pstate) (r : brec) : pres (pstate * list outp) :=
  fold_left (rtx a3fix cs (br_height r) (br_bid r)) (rev (br_txs r)) (POk (s, [])).

Definition p_rollback_one_w (rtx : bool -> list credit -> Z -> N -> pres (pstate * list outp) -> tx -> pres (pstate * list outp)) (a3fix : bool) (own : owner_fn) (cs : list credit) (s : pstate) (h : Z) : pres pstate :=
  match find (fun r => br_height r =? h) (ps_blocks s) with
  | None => POk s
  | Some r =>
      match rollback_move_w rtx a3fix cs s r with
      | PErr e => PErr e
      | POk (s1, cbops) =>
          purge_coinbase own (set_blocks s1 (filter (fun x => negb (br_height x =? h)) (ps_blocks s1))) cbops
      end
  end.

Definition p_rollback_to_w (rtx : bool -> list credit -> Z -> N -> pres (pstate * list outp) -> tx -> pres (pstate * list outp)) (a3fix : bool) (own : owner_fn) (s : pstate) (h : Z) : pres pstate :=
  let cs := credits (ps_w s) in
  match fold_left (fun (acc : pres pstate) (k : Z) =>
                     match acc with PErr e => PErr e | POk s1 => p_rollback_one_w rtx a3fix own cs s1 k end)
                  (heights_down (fst (tip (ps_w s))) h) (POk s) with
  | PErr e => PErr e
  | POk s' => POk (set_w s' (rollback_to (ps_w s) h))
  end.

Definition pprocess_w (rtx : bool -> list credit -> Z -> N -> pres (pstate * list outp) -> tx -> pres (pstate * list outp)) (p : params) (a3fix : bool) (own : owner_fn) (n : node) (hs : hstate) (b : block) : pres hstate :=
  let s := h_store hs in
  let st := ps_w s in
  if (snd (tip st) =? b_prev b)%N then
    match p_connect_all p own n (ps_unmined s) s [b] with
    | PErr e => PErr e
    | POk (s', added) => POk (update_volatile hs s' [] added)
    end
  else
    match collect n st (S (Z.to_nat (b_height b))) b [] with
    | None => PErr (PE EMaybeChainRevoked)
    | Some (fork, bs) =>
        match p_rollback_to_w rtx a3fix own s (fork + 1) with
        | PErr e => PErr e
        | POk s1 =>
            match p_connect_all p own n (ps_unmined s) s1 bs with
            | PErr e => PErr e
            | POk (s', added) => POk (update_volatile hs s' (heights_down (fst (tip st)) (fork + 1)) added)
            end
        end
    end.

Definition pstep_w (rtx : bool -> list credit -> Z -> N -> pres (pstate * list outp) -> tx -> pres (pstate * list outp)) (p : params) (a3fix : bool) (s : psim) (e : pevent) : psim :=
  match e with
  | PvProcess b =>
      {| q_node := q_node s;
         q_h := match pprocess_w rtx p a3fix (own_of (q_own s)) (q_node s) (q_h s) b with POk hs' => hs' | PErr _ => q_h s end;
         q_own := q_own s |}
  | _ => pstep p a3fix s e
  end.

Definition prun_w (rtx : bool -> list credit -> Z -> N -> pres (pstate * list outp) -> tx -> pres (pstate * list outp)) (p : params) (a3fix : bool) (genesis : block) (h : list pevent) : psim :=
  fold_left (pstep_w rtx p a3fix) h (init_psim genesis).

(* with the model's step, the generic run is the model's run *)
Lemma pprocess_w_model : forall p a3fix own n hs b,
  pprocess_w rollback_tx p a3fix own n hs b = pprocess p a3fix own n hs b.
Proof. reflexivity. Qed.

Lemma prun_w_model : forall p a3fix g h, prun_w rollback_tx p a3fix g h = prun p a3fix g h.
Proof.
  intros p a3fix g h. unfold prun_w, prun. generalize (init_psim g).
  induction h as [|e h IH]; intros s; cbn [fold_left]; [reflexivity|].
  rewrite IH. f_equal. destruct e; reflexivity.
Qed.

(* the variant: Rollback writes Put(outpoint, rec.Hash) *)
Definition rollback_tx_overwrite := rollback_tx_with ui_put.
Definition prun_overwrite := prun_w rollback_tx_overwrite.

(* The history.  The wallet owns script hash 1; coinbases 1 and 2 pay it.  T (id 10) spends (1,0) and is
   mined in b3.  The node switches to b3' (T not in it) but the wallet has not processed b3' yet when U
   (id 11), spending (1,0) and (2,0), is delivered: U is stored and registered under both outpoints.
   The wallet then processes b3' (b3 is rolled back, T returns to the pending set and is registered under
   (1,0) NEXT TO U), and T is mined again in b4'. *)
Module Overwrite.
  Definition p : params := {| p_cbmat := 1; p_bindlock := 4294967294 |}.
  Definition g : block := {| b_id := 0; b_prev := 0; b_height := 0; b_txs := [] |}.
  Definition cb (id : N) : tx := {| t_id := id; t_cb := true; t_ins := []; t_outs := [ {| o_sh := 1; o_val := 5; o_class := CStd |} ] |}.
  Definition T : tx := {| t_id := 10; t_cb := false; t_ins := [(1, 0)%N]; t_outs := [ {| o_sh := 9; o_val := 5; o_class := CStd |} ] |}.
  Definition U : tx := {| t_id := 11; t_cb := false; t_ins := [(1, 0)%N; (2, 0)%N]; t_outs := [ {| o_sh := 9; o_val := 10; o_class := CStd |} ] |}.
  Definition b1 : block := {| b_id := 1; b_prev := 0; b_height := 1; b_txs := [cb 1] |}.
  Definition b2 : block := {| b_id := 2; b_prev := 1; b_height := 2; b_txs := [cb 2] |}.
  Definition b3 : block := {| b_id := 3; b_prev := 2; b_height := 3; b_txs := [cb 3; T] |}.
  Definition b3' : block := {| b_id := 4; b_prev := 2; b_height := 3; b_txs := [cb 4] |}.
  Definition b4' : block := {| b_id := 5; b_prev := 4; b_height := 4; b_txs := [cb 5; T] |}.
  Definition before_remine : list pevent :=
    [PvOwner 1 1; PvAttach b1; PvProcess b1; PvAttach b2; PvProcess b2; PvAttach b3; PvProcess b3;
     PvDetach; PvAttach b3'; PvReceive U; PvProcess b3'].
  Definition evs : list pevent := before_remine ++ [PvAttach b4'; PvProcess b4'].
End Overwrite.

(* the closed counterexample for the overwriting Rollback: in the model U is found and removed when T
   confirms again, (2,0) is free again; in the variant U's registration under (1,0) was lost in the rollback,
   U stays pending and (2,0) stays flagged *)
Theorem rollback_overwrite_refuted :
  let sm := h_store (q_h (prun Overwrite.p true Overwrite.g Overwrite.evs)) in
  let sv := h_store (q_h (prun_overwrite Overwrite.p true Overwrite.g Overwrite.evs)) in
  let sm0 := h_store (q_h (prun Overwrite.p true Overwrite.g Overwrite.before_remine)) in
  let sv0 := h_store (q_h (prun_overwrite Overwrite.p true Overwrite.g Overwrite.before_remine)) in
  (* after the rollback: both pending in both; the model has both registered, the variant only T *)
  (read_unmined sm0 10%N = RdOk Overwrite.T /\ read_unmined sm0 11%N = RdOk Overwrite.U /\
   ui_get (ps_uinputs sm0) (1, 0)%N = [11; 10]%N) /\
  (read_unmined sv0 10%N = RdOk Overwrite.T /\ read_unmined sv0 11%N = RdOk Overwrite.U /\
   ui_get (ps_uinputs sv0) (1, 0)%N = [10]%N) /\
  (* T mined again *)
  (read_unmined sm 11%N = RdNone /\ spent_by_unmined sm (2, 0)%N = false /\ ps_uinputs sm = []) /\
  (read_unmined sv 11%N = RdOk Overwrite.U /\ spent_by_unmined sv (2, 0)%N = true /\
   credits (ps_w sv) = credits (ps_w sm) /\ tx_recorded sv 10%N = true).
Proof. vm_compute. repeat split; reflexivity. Qed.

(* the same refutation in the shape of [rollback_keeps_registrations]: a state, a block record and a
   registration that the overwriting move-back loop loses *)
Theorem rollback_overwrite_loses_registration :
  exists cs s r s' ops o sp,
    rollback_move_w rollback_tx_overwrite true cs s r = POk (s', ops) /\
    In sp (ui_get (ps_uinputs s) o) /\ pend s' sp <> None /\ ~ In sp (ui_get (ps_uinputs s') o).
Proof.
  pose (s := h_store (q_h (prun Overwrite.p true Overwrite.g
               [PvOwner 1 1; PvAttach Overwrite.b1; PvProcess Overwrite.b1; PvAttach Overwrite.b2; PvProcess Overwrite.b2;
                PvAttach Overwrite.b3; PvProcess Overwrite.b3; PvDetach; PvAttach Overwrite.b3'; PvReceive Overwrite.U]))).
  exists (credits (ps_w s)), s, {| br_height := 3; br_bid := 3%N; br_txs := [Overwrite.cb 3; Overwrite.T] |}.
  eexists. eexists. exists (1, 0)%N, 11%N.
  split; [vm_compute; reflexivity|]. split; [vm_compute; left; reflexivity|]. split; [vm_compute; discriminate|].
  vm_compute. intros [H|[]]. discriminate.
Qed.

(* ================================================================ B. the index is complete for wallet coins *)

(* output [pv] of [pt] is an output the wallet recognises as its own: filterTx's test (supported script
   class, script hash of a ready wallet) *)
Definition wallet_out (own : owner_fn) (pt : tx) (pv : N) : Prop :=
  exists out, nth_error (t_outs pt) (N.to_nat pv) = Some out /\ o_class out <> CUnsupported /\ own (o_sh out) <> None.

(* [S]: the transactions shown to the wallet so far.  Store part of the invariant:
   - a readable pending record is stored under its own id and is a transaction of S;
   - so are the transactions of the block records;
   - [sv_regd]: every input of a readable pending transaction is registered under its outpoint, or it
     spends an output of a transaction of S that is not a wallet output *)
Record sinv (S : list tx) (own : owner_fn) (s : pstate) : Prop := {
  sv_pend : forall X tX, pend s X = Some (USer tX) -> t_id tX = X /\ In tX S;
  sv_blocks : forall r t, In r (ps_blocks s) -> In t (br_txs r) -> In t S;
  sv_regd : forall X tX o, pend s X = Some (USer tX) -> In o (t_ins tX) ->
      In X (ui_get (ps_uinputs s) o) \/ exists pt, In pt S /\ t_id pt = fst o /\ ~ wallet_out own pt (snd o)
}.

Definition node_in (S : list tx) (n : node) : Prop := forall b t, In b n -> In t (b_txs b) -> In t S.

Lemma sinv_mono : forall S S' own s, incl S S' -> sinv S own s -> sinv S' own s.
Proof.
  intros S S' own s HS [A B C]. constructor.
  - intros X tX H. destruct (A X tX H) as [E I]. split; [exact E|apply HS; exact I].
  - intros r t Hr Ht. apply HS. exact (B r t Hr Ht).
  - intros X tX o H Ho. destruct (C X tX o H Ho) as [R|[pt [I [E W]]]]; [left; exact R|].
    right. exists pt. split; [apply HS; exact I|]. split; assumption.
Qed.

Definition tx_pays (t : tx) (sh : N) : Prop := exists o, In o (t_outs t) /\ o_sh o = sh.

(* a new address that no transaction shown so far pays: no output becomes a wallet output *)
Lemma sinv_owner :
  forall S l sh w s, (forall t, In t S -> ~ tx_pays t sh) -> sinv S (own_of l) s -> sinv S (own_of ((sh, w) :: l)) s.
Proof.
  intros S l sh w s Hnew [A B C]. constructor; [exact A|exact B|].
  intros X tX o H Ho. destruct (C X tX o H Ho) as [R|[pt [I [E W]]]]; [left; exact R|].
  right. exists pt. split; [exact I|]. split; [exact E|].
  intros [out [Hn [Hc Hown]]]. unfold own_of in Hown. cbn [find fst snd] in Hown.
  destruct (sh =? o_sh out)%N eqn:Es.
  - apply N.eqb_eq in Es. apply (Hnew pt I). exists out. split; [eapply nth_error_In; exact Hn|symmetry; exact Es].
  - apply W. exists out. split; [exact Hn|]. split; [exact Hc|exact Hown].
Qed.

(* ---- receiving *)

Lemma lookup_pending_some :
  forall n um h pt, lookup_pending n um h = Some pt ->
    t_id pt = h \/ um_get um h = Some (USer pt).
Proof.
  intros n um h pt H. unfold lookup_pending in H.
  destruct (node_tx n h) as [t|] eqn:E.
  - inversion H; subst t. left. unfold node_tx, find_tx in E. apply find_some in E. apply N.eqb_eq. exact (proj2 E).
  - right. destruct (um_get um h) as [[t|]|]; try discriminate. inversion H; subst. reflexivity.
Qed.

Lemma lookup_pending_in :
  forall S own n s h pt, node_in S n -> sinv S own s -> lookup_pending n (ps_unmined s) h = Some pt -> t_id pt = h /\ In pt S.
Proof.
  intros S own n s h pt Hn Hs H. unfold lookup_pending in H.
  destruct (node_tx n h) as [t|] eqn:E.
  - inversion H; subst t. unfold node_tx, find_tx in E. apply find_some in E. destruct E as [Hin Hid].
    split; [apply N.eqb_eq; exact Hid|]. apply in_flat_map in Hin. destruct Hin as [b [Hb Ht]]. exact (Hn b pt Hb Ht).
  - destruct (um_get (ps_unmined s) h) as [[t|]|] eqn:Eu; try discriminate. inversion H; subst t.
    exact (sv_pend _ _ _ Hs h pt Eu).
Qed.

(* filterTx for an unconfirmed transaction: every input was looked up; it is recognised exactly when the
   previous output is a wallet output *)
Lemma filter_ins_unmined_all :
  forall own lk ins i l, filter_ins_unmined own lk ins i = Ok l ->
    forall ph pv, In (ph, pv) ins ->
      exists pt, lk ph = Some pt /\
        ((exists ri, In ri l /\ ri_prev ri = (ph, pv)) \/ ~ wallet_out own pt pv).
Proof.
  intros own lk ins. induction ins as [|[qh qv] rest IH]; intros i l H ph pv Hin; [destruct Hin|].
  cbn [filter_ins_unmined] in H.
  destruct (lk qh) as [qt|] eqn:Eq; [|discriminate].
  destruct (nth_error (t_outs qt) (N.to_nat qv)) as [qo|] eqn:En; [|discriminate].
  assert (Hrest : forall l', filter_ins_unmined own lk rest (i + 1)%N = Ok l' -> (forall ri, In ri l' -> In ri l) ->
            In (ph, pv) rest ->
            exists pt, lk ph = Some pt /\ ((exists ri, In ri l /\ ri_prev ri = (ph, pv)) \/ ~ wallet_out own pt pv)).
  { intros l' Hl' Hsub Hr. destruct (IH _ _ Hl' ph pv Hr) as [pt [Hlk [[ri [Hri Hp]]|Hw]]]; exists pt; (split; [exact Hlk|]).
    - left. exists ri. split; [apply Hsub; exact Hri|exact Hp].
    - right. exact Hw. }
  assert (Hnot : (o_class qo = CUnsupported \/ own (o_sh qo) = None) -> ~ wallet_out own qt qv).
  { intros Hc [out [Hn [Hcl Ho]]]. rewrite En in Hn. inversion Hn; subst out. destruct Hc; contradiction. }
  destruct Hin as [E|Hin].
  - inversion E; subst qh qv. exists qt. split; [exact Eq|].
    destruct (o_class qo) eqn:Ec;
      try (destruct (own (o_sh qo)) as [w|] eqn:Eo;
           [destruct (filter_ins_unmined own lk rest (i + 1)%N) as [l'|e]; [|discriminate];
            inversion H; subst l; left; eexists; split; [left; reflexivity|reflexivity]
           |right; apply Hnot; right; reflexivity]).
    right. apply Hnot. left. reflexivity.
  - destruct (o_class qo); try (apply (Hrest l H (fun ri Hri => Hri) Hin));
      (destruct (own (o_sh qo)) as [w|]; [|apply (Hrest l H (fun ri Hri => Hri) Hin)];
       destruct (filter_ins_unmined own lk rest (i + 1)%N) as [l'|e] eqn:E; [|discriminate];
       inversion H; subst l; apply (Hrest l' eq_refl); [intros ri Hri; right; exact Hri|exact Hin]).
Qed.

Lemma fold_append_rel_member :
  forall (h : N) (ins : list rel_in) ui o sp, In sp (ui_get ui o) ->
    In sp (ui_get (fold_left (fun ui1 ri => ui_append ui1 (ri_prev ri) h) ins ui) o).
Proof.
  intros h ins. induction ins as [|x ins IH]; intros ui o sp H; cbn [fold_left]; [exact H|].
  apply IH. rewrite ui_get_append. destruct (op_eqb (ri_prev x) o) eqn:E; [|exact H].
  apply op_eqb_eq in E. subst o. apply in_or_app. left. exact H.
Qed.

Lemma fold_append_rel_registers :
  forall (h : N) (ins : list rel_in) ui ri, In ri ins ->
    In h (ui_get (fold_left (fun ui1 ri0 => ui_append ui1 (ri_prev ri0) h) ins ui) (ri_prev ri)).
Proof.
  intros h ins. induction ins as [|x ins IH]; intros ui ri Hri; [destruct Hri|]. cbn [fold_left].
  destruct Hri as [<-|Hri]; [|apply IH; exact Hri].
  apply fold_append_rel_member. rewrite ui_get_append, op_eqb_refl. apply in_or_app. right. left. reflexivity.
Qed.

Lemma receive_store_sinv :
  forall S p own n s t s', node_in S n -> In t S -> sinv S own s ->
    receive_store p own n s t = POk (Some s') -> sinv S own s'.
Proof.
  intros S p own n s t s' Hn Ht Hs H.
  destruct (receive_store_shape _ _ _ _ _ _ H) as (Ecb & ins & Eins & Hsh). cbv zeta in Hsh.
  destruct Hsh as (_ & Eb & _ & Eu & Ei).
  destruct (um_get (ps_unmined s) (t_id t)) as [v|] eqn:Eg.
  { destruct Hs as [A B C]. constructor; unfold pend; rewrite ?Eu, ?Eb, ?Ei; assumption. }
  destruct (tx_recorded s (t_id t)).
  { destruct Hs as [A B C]. constructor; unfold pend; rewrite ?Eu, ?Eb, ?Ei; assumption. }
  assert (Ep : forall k, pend s' k = if (t_id t =? k)%N then Some (USer t) else pend s k).
  { intros k. unfold pend. rewrite Eu. unfold inserted. cbn [ps_unmined set_uinputs set_unmined]. apply um_get_put. }
  assert (Er : forall o sp, In sp (ui_get (ps_uinputs s) o) -> In sp (ui_get (ps_uinputs s') o)).
  { intros o sp Hsp. rewrite Ei. unfold inserted. cbn [ps_uinputs set_uinputs set_unmined]. apply fold_append_rel_member. exact Hsp. }
  constructor.
  - intros X tX HX. rewrite Ep in HX. destruct (t_id t =? X)%N eqn:Ex.
    + inversion HX; subst tX. split; [apply N.eqb_eq; exact Ex|exact Ht].
    + exact (sv_pend _ _ _ Hs X tX HX).
  - intros r0 t0 Hr0 Ht0. rewrite Eb in Hr0. unfold inserted in Hr0. cbn [ps_blocks set_uinputs set_unmined] in Hr0.
    exact (sv_blocks _ _ _ Hs r0 t0 Hr0 Ht0).
  - intros X tX o HX Ho. rewrite Ep in HX. destruct (t_id t =? X)%N eqn:Ex.
    + inversion HX; subst tX. apply N.eqb_eq in Ex. subst X. destruct o as [ph pv].
      destruct (filter_ins_unmined_all _ _ _ _ _ Eins ph pv Ho) as [pt [Hlk [[ri [Hri Hp]]|Hw]]].
      * left. rewrite Ei. unfold inserted. cbn [ps_uinputs set_uinputs set_unmined]. rewrite <- Hp.
        apply fold_append_rel_registers. exact Hri.
      * right. destruct (lookup_pending_in S own n s ph pt Hn Hs Hlk) as [Hid Hin].
        exists pt. split; [exact Hin|]. split; [exact Hid|exact Hw].
    + destruct (sv_regd _ _ _ Hs X tX o HX Ho) as [R|F]; [left; apply Er; exact R|right; exact F].
Qed.

(* ---- connecting *)

Lemma p_apply_rec_blocks :
  forall p own h bid s r s', p_apply_rec p own h bid s r = POk s' -> ps_blocks s' = br_add (ps_blocks s) h bid (rr_tx r).
Proof.
  intros p own h bid s r s' H. apply p_apply_rec_mined in H. unfold m_apply_rec in H.
  destruct (withdraw_ins _ _ _ _ _) as [[cs1 g1]|e]; [|discriminate].
  destruct (apply_outs _ _ _ _ _ _) as [cs2|e]; [|discriminate].
  inversion H as [E]. reflexivity.
Qed.

Lemma p_apply_rec_sinv :
  forall S p own h bid s r s', In (rr_tx r) S -> sinv S own s -> p_apply_rec p own h bid s r = POk s' -> sinv S own s'.
Proof.
  intros S p own h bid s r s' Hr Hs H.
  destruct (p_apply_rec_settles _ _ _ _ _ _ _ H) as (Sh & _ & _).
  assert (Hp : forall X v, pend s' X = Some v -> pend s X = Some v) by (intros X v; apply (proj1 Sh)).
  constructor.
  - intros X tX HX. exact (sv_pend _ _ _ Hs X tX (Hp _ _ HX)).
  - intros r0 t0 Hr0 Ht0. rewrite (p_apply_rec_blocks _ _ _ _ _ _ _ H) in Hr0.
    destruct (br_add_in _ _ _ _ _ _ Hr0 Ht0) as [->|[r1 [H1 H2]]]; [exact Hr|exact (sv_blocks _ _ _ Hs r1 t0 H1 H2)].
  - intros X tX o HX Ho. destruct (sv_regd _ _ _ Hs X tX o (Hp _ _ HX) Ho) as [R|F]; [|right; exact F].
    left. apply (flag_kept_by_mined_record _ _ _ _ _ _ _ H o X R). rewrite HX. discriminate.
Qed.

Lemma p_apply_recs_sinv :
  forall S p own h bid recs s s', (forall r, In r recs -> In (rr_tx r) S) -> sinv S own s ->
    p_apply_recs p own h bid s recs = POk s' -> sinv S own s'.
Proof.
  intros S p own h bid recs. induction recs as [|r recs IH]; intros s s' Hr Hs H; cbn [p_apply_recs] in H.
  - inversion H; subst. exact Hs.
  - destruct (p_apply_rec p own h bid s r) as [s1|e] eqn:E; [|discriminate].
    apply (IH s1 s'); [intros r0 H0; apply Hr; right; exact H0| |exact H].
    eapply p_apply_rec_sinv; [apply Hr; left; reflexivity|exact Hs|exact E].
Qed.

Lemma sinv_set_w : forall S own s w, sinv S own s -> sinv S own (set_w s w).
Proof. intros S own s w [A B C]. constructor; assumption. Qed.

Lemma p_connect_block_sinv :
  forall S p own n cum s b s' ids, (forall t, In t (b_txs b) -> In t S) -> sinv S own s ->
    p_connect_block p own n cum s b = POk (s', ids) -> sinv S own s'.
Proof.
  intros S p own n cum s b s' ids Hb Hs H. unfold p_connect_block in H.
  destruct (filter_block_txs own (credits (ps_w s)) (lookup_pending n cum) [] (b_txs b)) as [recs|e] eqn:E; [|discriminate].
  destruct (p_apply_recs p own (b_height b) (b_id b) s recs) as [s1|e] eqn:E1; [|discriminate].
  inversion H; subst s' ids. apply sinv_set_w.
  apply (p_apply_recs_sinv S p own (b_height b) (b_id b) recs s s1); [|exact Hs|exact E1].
  intros r Hr. apply Hb. eapply filter_block_txs_in; eauto.
Qed.

Lemma p_connect_all_sinv :
  forall S p own n cum bs s s' added, (forall b t, In b bs -> In t (b_txs b) -> In t S) -> sinv S own s ->
    p_connect_all p own n cum s bs = POk (s', added) -> sinv S own s'.
Proof.
  intros S p own n cum bs. induction bs as [|b bs IH]; intros s s' added Hb Hs H; cbn [p_connect_all] in H.
  - inversion H; subst. exact Hs.
  - destruct (node_at n (b_height b)) as [nb|]; [|discriminate].
    destruct (negb (b_id nb =? b_id b)%N); [discriminate|].
    destruct (p_connect_block p own n cum s b) as [[s1 ids]|e] eqn:E; [|discriminate].
    destruct (p_connect_all p own n cum s1 bs) as [[s2 added2]|e] eqn:E2; [|discriminate].
    inversion H; subst s' added.
    apply (IH s1 s2 added2); [intros b0 t0 H0; apply Hb; right; exact H0| |exact E2].
    eapply p_connect_block_sinv; [intros t0 Ht0; eapply Hb; [left; reflexivity|exact Ht0]|exact Hs|exact E].
Qed.

(* ---- rolling back *)

Lemma rollback_tx_sinv :
  forall S own a3fix cs h bid s ops t s' ops', In t S -> sinv S own s ->
    rollback_tx a3fix cs h bid (POk (s, ops)) t = POk (s', ops') -> sinv S own s'.
Proof.
  intros S own a3fix cs h bid s ops t s' ops' Ht Hs H.
  destruct (rollback_tx_effect _ _ _ _ _ _ _ _ _ H) as (U & M & R).
  assert (Hsingle : fold_left (rollback_tx a3fix cs h bid) [t] (POk (s, ops)) = POk (s', ops')) by exact H.
  destruct (rollback_fold_keeps _ _ _ _ _ _ _ _ _ Hsingle) as (_ & _ & _ & Eb & _).
  constructor.
  - intros X tX HX. unfold pend in HX. rewrite U in HX. destruct (t_cb t); [exact (sv_pend _ _ _ Hs X tX HX)|].
    destruct (t_id t =? X)%N eqn:Ex; [|exact (sv_pend _ _ _ Hs X tX HX)].
    destruct a3fix; cbn in HX; [|discriminate]. inversion HX; subst tX. split; [apply N.eqb_eq; exact Ex|exact Ht].
  - intros r0 t0 Hr0 Ht0. rewrite Eb in Hr0. exact (sv_blocks _ _ _ Hs r0 t0 Hr0 Ht0).
  - intros X tX o HX Ho. unfold pend in HX. rewrite U in HX.
    assert (Hold : um_get (ps_unmined s) X = Some (USer tX) ->
              In X (ui_get (ps_uinputs s') o) \/ exists pt, In pt S /\ t_id pt = fst o /\ ~ wallet_out own pt (snd o)).
    { intros HX0. destruct (sv_regd _ _ _ Hs X tX o HX0 Ho) as [Rg|F]; [left; apply M; exact Rg|right; exact F]. }
    destruct (t_cb t) eqn:Ecb; [exact (Hold HX)|].
    destruct (t_id t =? X)%N eqn:Ex; [|exact (Hold HX)].
    destruct a3fix; cbn in HX; [|discriminate]. inversion HX; subst tX. apply N.eqb_eq in Ex. subst X.
    left. apply R; [reflexivity|exact Ho].
Qed.

Lemma rollback_fold_sinv :
  forall S own a3fix cs h bid txs s ops s' ops', (forall t, In t txs -> In t S) -> sinv S own s ->
    fold_left (rollback_tx a3fix cs h bid) txs (POk (s, ops)) = POk (s', ops') -> sinv S own s'.
Proof.
  intros S own a3fix cs h bid txs. induction txs as [|t txs IH]; intros s ops s' ops' Ht Hs H; cbn [fold_left] in H.
  - inversion H; subst. exact Hs.
  - destruct (rollback_tx a3fix cs h bid (POk (s, ops)) t) as [[sm opsm]|e] eqn:E;
      [|rewrite fold_rollback_err in H; discriminate].
    apply (IH sm opsm s' ops'); [intros t0 H0; apply Ht; right; exact H0| |exact H].
    eapply rollback_tx_sinv; [apply Ht; left; reflexivity|exact Hs|exact E].
Qed.

(* a conflict-removal step keeps the invariant *)
Lemma bundle_sinv :
  forall S own s s', bundle s s' -> ps_blocks s' = ps_blocks s -> sinv S own s -> sinv S own s'.
Proof.
  intros S own s s' (Sh & K & _ & _) Eb Hs.
  assert (Hp : forall X v, pend s' X = Some v -> pend s X = Some v) by (intros X v; apply (proj1 Sh)).
  constructor.
  - intros X tX HX. exact (sv_pend _ _ _ Hs X tX (Hp _ _ HX)).
  - intros r0 t0 Hr0 Ht0. rewrite Eb in Hr0. exact (sv_blocks _ _ _ Hs r0 t0 Hr0 Ht0).
  - intros X tX o HX Ho. destruct (sv_regd _ _ _ Hs X tX o (Hp _ _ HX) Ho) as [R|F]; [|right; exact F].
    destruct (K o X R) as [Hin|Hn]; [left; exact Hin|]. rewrite HX in Hn. discriminate.
Qed.

Lemma p_rollback_one_sinv :
  forall S own a3fix cs s h s', sinv S own s -> p_rollback_one a3fix own cs s h = POk s' -> sinv S own s'.
Proof.
  intros S own a3fix cs s h s' Hs H. unfold p_rollback_one in H.
  destruct (find (fun r => br_height r =? h) (ps_blocks s)) as [r|] eqn:Ef; [|inversion H; subst; exact Hs].
  apply find_some in Ef. destruct Ef as [Hr _].
  destruct (rollback_move a3fix cs s r) as [[s1 cbops]|e] eqn:Em; [|discriminate].
  assert (H1 : sinv S own s1).
  { unfold rollback_move in Em. apply (rollback_fold_sinv S own a3fix cs (br_height r) (br_bid r) (rev (br_txs r)) s [] s1 cbops); [|exact Hs|exact Em].
    intros t Ht. apply in_rev in Ht. exact (sv_blocks _ _ _ Hs r t Hr Ht). }
  set (s1' := set_blocks s1 (filter (fun x => negb (br_height x =? h)) (ps_blocks s1))) in *.
  assert (H1' : sinv S own s1').
  { destruct H1 as [A B C]. constructor; [exact A| |exact C].
    intros r0 t0 Hr0 Ht0. cbn in Hr0. apply filter_In in Hr0. exact (B r0 t0 (proj1 Hr0) Ht0). }
  pose proof (purge_coinbase_bundle own cbops s1') as F. rewrite H in F. cbn [okp] in F.
  pose proof (purge_coinbase_frame own cbops s1' s1' (same_mined_refl s1')) as Fr. rewrite H in Fr. cbn [okp] in Fr.
  apply (bundle_sinv S own s1' s'); [exact F|exact (proj1 (proj2 Fr))|exact H1'].
Qed.

Lemma p_rollback_to_sinv :
  forall S own a3fix s h s', sinv S own s -> p_rollback_to a3fix own s h = POk s' -> sinv S own s'.
Proof.
  intros S own a3fix s h s' Hs H. unfold p_rollback_to in H.
  assert (G : forall ks acc s2, okp (sinv S own) acc ->
            fold_left (fun (acc : pres pstate) (k : Z) =>
                         match acc with PErr e => PErr e | POk s1 => p_rollback_one a3fix own (credits (ps_w s)) s1 k end) ks acc = POk s2 ->
            sinv S own s2).
  { induction ks as [|k ks IH]; intros acc s2 Hacc Hf; cbn [fold_left] in Hf.
    - subst acc. exact Hacc.
    - apply (IH _ s2) in Hf; [exact Hf|]. destruct acc as [s1|e]; [|exact I]. cbn [okp] in Hacc.
      destruct (p_rollback_one a3fix own (credits (ps_w s)) s1 k) as [s3|e] eqn:E; [|exact I].
      cbn [okp]. eapply p_rollback_one_sinv; eauto. }
  destruct (fold_left _ (heights_down (fst (tip (ps_w s))) h) (POk s)) as [s2|e] eqn:Ef; [|discriminate].
  inversion H; subst s'. apply sinv_set_w. exact (G _ (POk s) s2 Hs Ef).
Qed.

Theorem pprocess_sinv :
  forall S p a3fix own n hs b hs', node_in S n -> (forall t, In t (b_txs b) -> In t S) ->
    sinv S own (h_store hs) -> pprocess p a3fix own n hs b = POk hs' -> sinv S own (h_store hs').
Proof.
  intros S p a3fix own n hs b hs' Hn Hb Hs H. unfold pprocess in H.
  destruct (snd (tip (ps_w (h_store hs))) =? b_prev b)%N.
  - destruct (p_connect_all p own n (ps_unmined (h_store hs)) (h_store hs) [b]) as [[s' added]|e] eqn:Ec; [|discriminate].
    inversion H; subst hs'. cbn [update_volatile h_store].
    apply (p_connect_all_sinv S p own n (ps_unmined (h_store hs)) [b] (h_store hs) s' added); [|exact Hs|exact Ec].
    intros b0 t0 [<-|[]] Ht0. exact (Hb t0 Ht0).
  - destruct (collect n (ps_w (h_store hs)) (Datatypes.S (Z.to_nat (b_height b))) b []) as [[fork bs]|] eqn:Ecol; [|discriminate].
    destruct (p_rollback_to a3fix own (h_store hs) (fork + 1)) as [s1|e] eqn:Er; [|discriminate].
    destruct (p_connect_all p own n (ps_unmined (h_store hs)) s1 bs) as [[s' added]|e] eqn:Ec; [|discriminate].
    inversion H; subst hs'. cbn [update_volatile h_store].
    apply (p_connect_all_sinv S p own n (ps_unmined (h_store hs)) bs s1 s' added); [| |exact Ec].
    + intros b0 t0 H0 Ht0. destruct (collect_in _ _ _ _ _ _ _ Ecol b0 H0) as [[]|[->|Hin]]; [exact (Hb t0 Ht0)|exact (Hn b0 t0 Hin Ht0)].
    + eapply p_rollback_to_sinv; eauto.
Qed.

(* ---- histories *)

(* the transactions shown to the wallet by a history: in attached blocks, in announced blocks, delivered unconfirmed *)
Definition seen_txs (h : list pevent) : list tx :=
  flat_map (fun e => match e with PvAttach b => b_txs b | PvProcess b => b_txs b | PvReceive t => [t] | _ => [] end) h.

(* E3 for everything the wallet is shown: an address is issued before any transaction paying it is shown
   to the wallet (in a block or unconfirmed).  [powners_before_paid] is the part about attached blocks. *)
Definition powners_before_seen (g : block) (h : list pevent) : Prop :=
  forall h1 sh w h2, h = h1 ++ PvOwner sh w :: h2 -> forall t, In t (b_txs g ++ seen_txs h1) -> ~ tx_pays t sh.

Lemma seen_txs_app : forall h1 h2, seen_txs (h1 ++ h2) = seen_txs h1 ++ seen_txs h2.
Proof. intros h1 h2. unfold seen_txs. apply flat_map_app. Qed.

Definition qinv (S : list tx) (q : psim) : Prop :=
  node_in S (q_node q) /\ sinv S (own_of (q_own q)) (h_store (q_h q)).

Lemma qinv_mono : forall S S' q, incl S S' -> qinv S q -> qinv S' q.
Proof.
  intros S S' q HS [Hn Hs]. split; [|eapply sinv_mono; eauto].
  intros b t Hb Ht. apply HS. exact (Hn b t Hb Ht).
Qed.

Lemma pstep_qinv :
  forall p a3fix S q e,
    (forall sh w, e = PvOwner sh w -> forall t, In t S -> ~ tx_pays t sh) ->
    qinv S q -> qinv (S ++ seen_txs [e]) (pstep p a3fix q e).
Proof.
  intros p a3fix S q e Hnew Hq.
  assert (Hq' : qinv (S ++ seen_txs [e]) q) by (eapply qinv_mono; [apply incl_appl; apply incl_refl|exact Hq]).
  destruct Hq' as [Hn' Hs']. destruct Hq as [Hn Hs].
  destruct e as [sh w|b| |b|t|]; cbn [pstep]; unfold qinv; cbn [q_node q_h q_own h_store].
  - split; [exact Hn'|]. cbn [seen_txs flat_map] in *. rewrite app_nil_r in *.
    apply sinv_owner; [exact (Hnew sh w eq_refl)|exact Hs].
  - split; [|exact Hs']. intros b0 t0 Hb0 Ht0. apply in_app_or in Hb0. destruct Hb0 as [Hb0|[<-|[]]].
    + exact (Hn' b0 t0 Hb0 Ht0).
    + apply in_or_app. right. cbn [seen_txs flat_map]. rewrite app_nil_r. exact Ht0.
  - split; [|exact Hs']. intros b0 t0 Hb0 Ht0. apply removelast_in in Hb0. exact (Hn' b0 t0 Hb0 Ht0).
  - split; [exact Hn'|]. unfold pprocess_or_keep.
    destruct (pprocess p a3fix (own_of (q_own q)) (q_node q) (q_h q) b) as [hs'|err] eqn:Hp; [|exact Hs'].
    apply (pprocess_sinv _ p a3fix (own_of (q_own q)) (q_node q) (q_h q) b hs' Hn'); [|exact Hs'|exact Hp].
    intros t0 Ht0. apply in_or_app. right. cbn [seen_txs flat_map]. rewrite app_nil_r. exact Ht0.
  - split; [exact Hn'|]. unfold receive_tx. destruct (mem_n (t_id t) (h_mempool (q_h q))); [exact Hs'|].
    destruct (receive_store p (own_of (q_own q)) (q_node q) (h_store (q_h q)) t) as [[s'|]|err] eqn:E; cbn [fst h_store]; try exact Hs'.
    apply (receive_store_sinv _ p (own_of (q_own q)) (q_node q) (h_store (q_h q)) t s' Hn'); [|exact Hs'|exact E].
    apply in_or_app. right. left. reflexivity.
  - split; [exact Hn'|exact Hs'].
Qed.

Lemma prun_qinv_gen :
  forall p a3fix g post pre q,
    powners_before_seen g (pre ++ post) ->
    qinv (b_txs g ++ seen_txs pre) q ->
    qinv (b_txs g ++ seen_txs (pre ++ post)) (fold_left (pstep p a3fix) post q).
Proof.
  intros p a3fix g post. induction post as [|e post IH]; intros pre q Hown Hq; cbn [fold_left].
  - rewrite app_nil_r. exact Hq.
  - replace (pre ++ e :: post) with ((pre ++ [e]) ++ post) in * by (rewrite <- app_assoc; reflexivity).
    apply IH; [exact Hown|].
    rewrite seen_txs_app, app_assoc. apply pstep_qinv; [|exact Hq].
    intros sh w -> t Ht. apply (Hown pre sh w post); [rewrite <- app_assoc; reflexivity|exact Ht].
Qed.

Theorem prun_qinv :
  forall p a3fix g h, powners_before_seen g h -> qinv (b_txs g ++ seen_txs h) (prun p a3fix g h).
Proof.
  intros p a3fix g h Hown. unfold prun.
  apply (prun_qinv_gen p a3fix g h [] (init_psim g) Hown).
  cbn [seen_txs flat_map]. rewrite app_nil_r. split.
  - intros b t [<-|[]] Ht. exact Ht.
  - constructor.
    + intros X tX H. discriminate.
    + intros r t [].
    + intros X tX o H. discriminate.
Qed.

(* ---- item 2 in the form the property speaks *)

(* a transaction id names one transaction, among everything the wallet is shown *)
Definition ids_agree_on (S : list tx) : Prop := forall t1 t2, In t1 S -> In t2 S -> t_id t1 = t_id t2 -> t1 = t2.
Definition seen_ids_agree (g : block) (h : list pevent) : Prop := ids_agree_on (b_txs g ++ seen_txs h).

Lemma sinv_registered :
  forall S own s, sinv S own s -> ids_agree_on S ->
    forall X tX o pt, pend s X = Some (USer tX) -> In o (t_ins tX) ->
      In pt S -> t_id pt = fst o -> wallet_out own pt (snd o) -> In X (ui_get (ps_uinputs s) o).
Proof.
  intros S own s Hs Hid X tX o pt HX Ho Hpt Hptid Hw.
  destruct (sv_regd _ _ _ Hs X tX o HX Ho) as [R|[pt' [Hin' [Hid' Hnw]]]]; [exact R|].
  exfalso. apply Hnw. rewrite (Hid pt' pt Hin' Hpt) by congruence. exact Hw.
Qed.

(* item 2: in every state a history reaches, a readable pending transaction is registered under every
   input that spends a wallet output of a transaction the wallet has been shown (in an attached or
   announced block, or unconfirmed), and that outpoint is reported spent_by_unmined *)
Theorem registered_complete :
  forall p a3fix g h, powners_before_seen g h -> seen_ids_agree g h ->
    let q := prun p a3fix g h in
    let s := h_store (q_h q) in
    forall X tX o P, pend s X = Some (USer tX) -> In o (t_ins tX) ->
      In P (b_txs g ++ seen_txs h) -> t_id P = fst o -> wallet_out (own_of (q_own q)) P (snd o) ->
      In X (ui_get (ps_uinputs s) o) /\ spent_by_unmined s o = true.
Proof.
  intros p a3fix g h Hown Hids q s X tX o P HX Ho HP HPid Hw.
  destruct (prun_qinv p a3fix g h Hown) as [_ Hs].
  assert (R : In X (ui_get (ps_uinputs s) o)) by (eapply sinv_registered; eauto).
  split; [exact R|]. unfold spent_by_unmined. destruct (ui_get (ps_uinputs s) o); [destruct R|reflexivity].
Qed.

(* the premises pass to prefixes: the theorems hold in every state along a history *)
Lemma powners_before_seen_prefix : forall g h1 h2, powners_before_seen g (h1 ++ h2) -> powners_before_seen g h1.
Proof.
  intros g h1 h2 H k1 sh w k2 E t Ht. apply (H k1 sh w (k2 ++ h2)); [|exact Ht].
  rewrite E, <- app_assoc. reflexivity.
Qed.

Lemma seen_ids_agree_prefix : forall g h1 h2, seen_ids_agree g (h1 ++ h2) -> seen_ids_agree g h1.
Proof.
  intros g h1 h2 H t1 t2 H1 H2. apply H; rewrite seen_txs_app, app_assoc; apply in_or_app; left; assumption.
Qed.

(* ================================================================ C. a conflicting transaction confirms: histories *)

(* ---- what filterTx recognises as a wallet input of a mined transaction *)

Definition with_prev_res (own : owner_fn) (i ph pv : N) (cont : res (list rel_in)) (pt : tx) : res (list rel_in) :=
  match nth_error (t_outs pt) (N.to_nat pv) with
  | None => Err EInvalidTx
  | Some o =>
      match o_class o with
      | CUnsupported => cont
      | _ =>
          match own (o_sh o) with
          | None => cont
          | Some w =>
              match cont with
              | Ok l => Ok ({| ri_index := i; ri_prev := (ph, pv); ri_wallet := w |} :: l)
              | Err e => Err e
              end
          end
      end
  end.

Lemma filter_ins_cons :
  forall own view inblk lk ph pv rest i,
    filter_ins own view inblk lk ((ph, pv) :: rest) i =
    match find_tx inblk ph with
    | Some bro => with_prev_res own i ph pv (filter_ins own view inblk lk rest (i + 1)%N) bro
    | None =>
        if exist_credit_from_tx view ph then
          match lk ph with
          | Some pt => with_prev_res own i ph pv (filter_ins own view inblk lk rest (i + 1)%N) pt
          | None => Err EMaybeChainRevoked
          end
        else filter_ins own view inblk lk rest (i + 1)%N
    end.
Proof. reflexivity. Qed.

Lemma with_prev_res_ok :
  forall own i ph pv cont pt l, with_prev_res own i ph pv cont pt = Ok l ->
    exists l', cont = Ok l' /\
      (l = l' \/ exists w, l = {| ri_index := i; ri_prev := (ph, pv); ri_wallet := w |} :: l' /\ wallet_out own pt pv).
Proof.
  intros own i ph pv cont pt l H. unfold with_prev_res in H.
  destruct (nth_error (t_outs pt) (N.to_nat pv)) as [o|] eqn:En; [|discriminate].
  assert (Hskip : cont = Ok l -> exists l', cont = Ok l' /\
      (l = l' \/ exists w, l = {| ri_index := i; ri_prev := (ph, pv); ri_wallet := w |} :: l' /\ wallet_out own pt pv)).
  { intros E. exists l. split; [exact E|left; reflexivity]. }
  destruct (o_class o) eqn:Ec; try (apply Hskip; exact H);
    (destruct (own (o_sh o)) as [w|] eqn:Eo; [|apply Hskip; exact H];
     destruct cont as [l'|e]; [|discriminate]; inversion H; subst l;
     exists l'; split; [reflexivity|right; exists w; split; [reflexivity|]];
     exists o; split; [exact En|split; [rewrite Ec; discriminate|rewrite Eo; discriminate]]).
Qed.

Lemma filter_ins_sound :
  forall own view inblk lk ins i l, filter_ins own view inblk lk ins i = Ok l ->
    forall ri, In ri l ->
      In (ri_prev ri) ins /\
      exists pt, (find_tx inblk (fst (ri_prev ri)) = Some pt \/ lk (fst (ri_prev ri)) = Some pt) /\
                 wallet_out own pt (snd (ri_prev ri)).
Proof.
  intros own view inblk lk ins. induction ins as [|[ph pv] rest IH]; intros i l H ri Hri.
  - cbn in H. inversion H; subst l. destruct Hri.
  - rewrite filter_ins_cons in H.
    assert (Hrest : forall l', filter_ins own view inblk lk rest (i + 1)%N = Ok l' -> In ri l' ->
              In (ri_prev ri) ((ph, pv) :: rest) /\
              exists pt, (find_tx inblk (fst (ri_prev ri)) = Some pt \/ lk (fst (ri_prev ri)) = Some pt) /\
                         wallet_out own pt (snd (ri_prev ri))).
    { intros l' Hl' Hin. destruct (IH _ _ Hl' ri Hin) as [A B]. split; [right; exact A|exact B]. }
    assert (Hwp : forall pt, (find_tx inblk ph = Some pt \/ lk ph = Some pt) ->
              with_prev_res own i ph pv (filter_ins own view inblk lk rest (i + 1)%N) pt = Ok l ->
              In (ri_prev ri) ((ph, pv) :: rest) /\
              exists pt0, (find_tx inblk (fst (ri_prev ri)) = Some pt0 \/ lk (fst (ri_prev ri)) = Some pt0) /\
                          wallet_out own pt0 (snd (ri_prev ri))).
    { intros pt Hpt Hw. destruct (with_prev_res_ok _ _ _ _ _ _ _ Hw) as [l' [Hl' [->|[w [-> Hwo]]]]].
      - exact (Hrest l' Hl' Hri).
      - destruct Hri as [<-|Hri]; [|exact (Hrest l' Hl' Hri)].
        cbn [ri_prev fst snd]. split; [left; reflexivity|]. exists pt. split; [exact Hpt|exact Hwo]. }
    destruct (find_tx inblk ph) as [bro|] eqn:Ef.
    + apply (Hwp bro); [left; reflexivity|exact H].
    + destruct (exist_credit_from_tx view ph).
      * destruct (lk ph) as [pt|] eqn:El; [|discriminate]. apply (Hwp pt); [right; reflexivity|exact H].
      * exact (Hrest l H Hri).
Qed.

Lemma find_tx_some : forall txs h t, find_tx txs h = Some t -> In t txs /\ t_id t = h.
Proof. intros txs h t H. unfold find_tx in H. apply find_some in H. split; [exact (proj1 H)|apply N.eqb_eq; exact (proj2 H)]. Qed.

(* every recognised input of every relevant record of a block spends a wallet output of a sibling or of a
   transaction the look-up finds *)
Lemma filter_block_txs_sound :
  forall own view lk txs seen recs, filter_block_txs own view lk seen txs = Ok recs ->
    forall r ri, In r recs -> In ri (rr_ins r) ->
      In (ri_prev ri) (t_ins (rr_tx r)) /\
      exists pt, ((In pt (seen ++ txs) /\ t_id pt = fst (ri_prev ri)) \/ lk (fst (ri_prev ri)) = Some pt) /\
                 wallet_out own pt (snd (ri_prev ri)).
Proof.
  intros own view lk txs. induction txs as [|t txs IH]; intros seen recs H r ri Hr Hri; cbn [filter_block_txs] in H.
  - inversion H; subst. destruct Hr.
  - destruct (filter_tx own view (seen ++ [t]) lk t) as [ot|e] eqn:Et; [|discriminate].
    destruct (filter_block_txs own view lk (seen ++ [t]) txs) as [l|e] eqn:El; [|discriminate].
    inversion H; subst recs.
    assert (Hl : In r l -> In (ri_prev ri) (t_ins (rr_tx r)) /\
              exists pt, ((In pt (seen ++ t :: txs) /\ t_id pt = fst (ri_prev ri)) \/ lk (fst (ri_prev ri)) = Some pt) /\
                         wallet_out own pt (snd (ri_prev ri))).
    { intros Hin. destruct (IH _ _ El r ri Hin Hri) as [A [pt [B C]]]. split; [exact A|]. exists pt. split; [|exact C].
      destruct B as [[B1 B2]|B]; [left|right; exact B]. split; [|exact B2]. rewrite <- app_assoc in B1. exact B1. }
    destruct ot as [rr|]; [|exact (Hl Hr)]. destruct Hr as [<-|Hr]; [|exact (Hl Hr)].
    unfold filter_tx in Et. destruct (t_cb t).
    + destruct (filter_outs own (t_outs t) 0%N); inversion Et; subst rr; destruct Hri.
    + destruct (filter_ins own view (seen ++ [t]) lk (t_ins t) 0%N) as [ins|e] eqn:Ei; [|discriminate].
      assert (Err : rr_tx rr = t /\ rr_ins rr = ins).
      { destruct ins; destruct (filter_outs own (t_outs t) 0%N); inversion Et; split; reflexivity. }
      destruct Err as [E1 E2]. rewrite E1. rewrite E2 in Hri.
      destruct (filter_ins_sound _ _ _ _ _ _ _ Ei ri Hri) as [A [pt [B C]]]. split; [exact A|]. exists pt. split; [|exact C].
      destruct B as [B|B]; [left|right; exact B]. apply find_tx_some in B. destruct B as [B1 B2]. split; [|exact B2].
      apply in_app_or in B1. apply in_or_app. destruct B1 as [B1|[<-|[]]]; [left; exact B1|right; left; reflexivity].
Qed.

(* ---- one mined record *)

Lemma settle_pend : forall s t k, pend (settle s t) k = if (t_id t =? k)%N then None else pend s k.
Proof.
  intros s t k. unfold settle, pend. destruct (um_get (ps_unmined s) (t_id t)) eqn:E.
  - cbn [ps_unmined set_unmined set_ucredits]. apply um_get_del.
  - destruct (t_id t =? k)%N eqn:Ek; [|reflexivity]. apply N.eqb_eq in Ek. subst k. exact E.
Qed.

(* AddRelevantTx, seen from the pending side: settle, then removeDoubleSpends *)
Lemma p_apply_rec_decomp :
  forall p own h bid s r s', p_apply_rec p own h bid s r = POk s' ->
    exists sa s2,
      (forall k, pend sa k = if (t_id (rr_tx r) =? k)%N then None else pend s k) /\
      ps_uinputs sa = ps_uinputs s /\
      remove_double_spends own sa r = POk s2 /\
      (forall k, pend s' k = pend s2 k) /\ ps_uinputs s' = ps_uinputs s2.
Proof.
  intros p own h bid s r s' H. unfold p_apply_rec in H.
  set (s0 := set_blocks s (br_add (ps_blocks s) h bid (rr_tx r))) in *.
  destruct (withdraw_ins (credits (ps_w s0)) (ps_game s0) (rr_tx r) h (rr_ins r)) as [[cs1 g1]|e]; [|discriminate].
  set (sb := set_game (set_credits s0 cs1) g1) in *.
  destruct (remove_double_spends own (settle sb (rr_tx r)) r) as [s2|e] eqn:Er; [|discriminate].
  destruct (apply_outs p _ (rr_tx r) h bid (rr_outs r)) as [cs2|e]; [|discriminate].
  inversion H; subst s'. exists (settle sb (rr_tx r)), s2.
  split; [intros k; rewrite settle_pend; reflexivity|].
  split; [rewrite (proj1 (settle_frame sb (rr_tx r))); reflexivity|].
  split; [exact Er|].
  destruct (add_game_frame (rr_outs r) (set_credits s2 cs2) (t_id (rr_tx r)) h) as (A & _ & C & _).
  split; [intros k; unfold pend; rewrite C; reflexivity|rewrite A; reflexivity].
Qed.

(* the loop of removeDoubleSpends is a conflict-removal step *)
Lemma remove_double_spends_loop_bundle :
  forall own ins s,
    okp (bundle s) (fold_left (fun (acc : pres pstate) (ri : rel_in) =>
                                 match acc with PErr e => PErr e | POk s1 => remove_spenders own s1 (ri_prev ri) end) ins (POk s)).
Proof.
  intros own ins s.
  assert (H : forall ins0 acc, okp (bundle s) acc ->
            okp (bundle s) (fold_left (fun (acc : pres pstate) (ri : rel_in) =>
                                 match acc with PErr e => PErr e | POk s1 => remove_spenders own s1 (ri_prev ri) end) ins0 acc)).
  { induction ins0 as [|ri ins0 IH]; intros acc Hacc; cbn [fold_left]; [exact Hacc|].
    apply IH. destruct acc as [s1|e]; [|exact I]. cbn [okp] in Hacc.
    pose proof (remove_spenders_bundle own s1 (ri_prev ri)) as F.
    destruct (remove_spenders own s1 (ri_prev ri)) as [s2|e]; [|exact I]. cbn [okp] in F |- *.
    eapply bundle_trans; [exact Hacc|exact (proj1 F)]. }
  apply H. cbn [okp]. apply bundle_refl.
Qed.

Lemma remove_double_spends_closed :
  forall own s r s', remove_double_spends own s r = POk s' -> closed s s'.
Proof.
  intros own s r s' H. unfold remove_double_spends in H.
  pose proof (remove_double_spends_loop_bundle own (rr_ins r) s) as B.
  destruct (fold_left _ (rr_ins r) (POk s)) as [s2|e]; [|discriminate]. cbn [okp] in B.
  inversion H; subst s'. destruct B as (_ & _ & Cl & _).
  intros X tX i D HX HX' Hi HD. exact (Cl X tX i D HX HX' Hi HD).
Qed.

(* registered descendants of X through pending transactions none of which is confirmed by the block at
   hand ([avoid]: the ids of the block's relevant transactions) *)
Inductive cdesc (s : pstate) (avoid : N -> Prop) : N -> N -> Prop :=
| cdesc_child : forall X tX i D, ~ avoid X -> pend s X = Some (USer tX) -> In i (out_indexes tX) ->
                                 In D (ui_get (ps_uinputs s) (X, i)) -> cdesc s avoid X D
| cdesc_step : forall X Y D, cdesc s avoid X Y -> cdesc s avoid Y D -> cdesc s avoid X D.

Lemma cdesc_weaken : forall s (a1 a2 : N -> Prop) X D, (forall k, a2 k -> a1 k) -> cdesc s a1 X D -> cdesc s a2 X D.
Proof.
  intros s a1 a2 X D Ha Hd. induction Hd as [X tX i D Hn HX Hi HD|X Y D _ IH1 _ IH2].
  - eapply cdesc_child; eauto.
  - eapply cdesc_step; eauto.
Qed.

(* when nothing pending is avoided, these are the registered descendants of PendingProofs.desc *)
Lemma cdesc_desc : forall s avoid X D, cdesc s avoid X D -> desc s X D.
Proof.
  intros s avoid X D Hd. induction Hd as [X tX i D Hn HX Hi HD|X Y D _ IH1 _ IH2].
  - eapply desc_child; eauto.
  - eapply desc_step; eauto.
Qed.

Lemma desc_cdesc : forall s (avoid : N -> Prop) X D, (forall k, avoid k -> pend s k = None) -> desc s X D -> cdesc s avoid X D.
Proof.
  intros s avoid X D Ha Hd. induction Hd as [X tX i D HX Hi HD|X Y D _ IH1 _ IH2].
  - eapply cdesc_child; eauto. intros Hav. rewrite (Ha X Hav) in HX. discriminate.
  - eapply cdesc_step; eauto.
Qed.

(* one record: a transaction that leaves the pending set without being the mined one takes its
   registered descendants along, and is no longer registered under any of its inputs *)
Lemma p_apply_rec_closed :
  forall p own h bid s r s', p_apply_rec p own h bid s r = POk s' ->
    (forall X D, cdesc s (fun k => k = t_id (rr_tx r)) X D -> pend s' X = None -> pend s' D = None) /\
    (forall X tX o, X <> t_id (rr_tx r) -> pend s X = Some (USer tX) -> pend s' X = None -> In o (t_ins tX) ->
       ~ In X (ui_get (ps_uinputs s') o)).
Proof.
  intros p own h bid s r s' H.
  destruct (p_apply_rec_decomp _ _ _ _ _ _ _ H) as (sa & s2 & Pa & Ua & Er & P2 & U2).
  pose proof (remove_double_spends_closed _ _ _ _ Er) as Cl.
  destruct (conflict_purges_descendants _ _ _ _ Er) as (_ & Clr & _ & _).
  split.
  - intros X D Hd. induction Hd as [X tX i D Hn HX Hi HD|X Y D _ IH1 _ IH2]; intros HN.
    + rewrite P2 in *. apply (Cl X tX i D); [|exact HN|exact Hi|rewrite Ua; exact HD].
      rewrite Pa. destruct (t_id (rr_tx r) =? X)%N eqn:E; [|exact HX]. apply N.eqb_eq in E. exfalso. apply Hn. symmetry. exact E.
    + apply IH2. apply IH1. exact HN.
  - intros X tX o Hne HX HN Ho. rewrite U2. rewrite P2 in HN. apply (Clr X tX o); [|exact HN|exact Ho].
    rewrite Pa. destruct (t_id (rr_tx r) =? X)%N eqn:E; [|exact HX]. apply N.eqb_eq in E. exfalso. apply Hne. symmetry. exact E.
Qed.

(* one record: a pending transaction registered under a wallet input of the mined record, and different
   from it, leaves the pending set *)
Lemma p_apply_rec_conflict :
  forall p own h bid s r s', p_apply_rec p own h bid s r = POk s' ->
    forall X ri, X <> t_id (rr_tx r) -> In ri (rr_ins r) -> In X (ui_get (ps_uinputs s) (ri_prev ri)) -> pend s' X = None.
Proof.
  intros p own h bid s r s' H X ri Hne Hri Hreg.
  destruct (p_apply_rec_decomp _ _ _ _ _ _ _ H) as (sa & s2 & Pa & Ua & Er & P2 & U2).
  destruct (conflict_purges_descendants _ _ _ _ Er) as (Hgone & _).
  rewrite P2. rewrite <- Ua in Hreg. exact (proj1 (Hgone ri X Hri Hreg)).
Qed.

(* ---- the records of a block *)

Definition rec_ids (recs : list relrec) : list N := map (fun r => t_id (rr_tx r)) recs.

Lemma p_apply_recs_shrinks :
  forall p own h bid recs s s', p_apply_recs p own h bid s recs = POk s' -> shrinks s s'.
Proof.
  intros p own h bid recs. induction recs as [|r recs IH]; intros s s' H; cbn [p_apply_recs] in H.
  - inversion H; subst. apply shrinks_refl.
  - destruct (p_apply_rec p own h bid s r) as [s1|e] eqn:E; [|discriminate].
    eapply shrinks_trans; [exact (proj1 (p_apply_rec_settles _ _ _ _ _ _ _ E))|exact (IH _ _ H)].
Qed.

Lemma p_apply_recs_closed :
  forall p own h bid recs s s', p_apply_recs p own h bid s recs = POk s' ->
    forall X D, cdesc s (fun k => In k (rec_ids recs)) X D -> pend s' X = None -> pend s' D = None.
Proof.
  intros p own h bid recs. induction recs as [|r recs IH]; intros s s' H X D Hd; cbn [p_apply_recs] in H.
  - inversion H; subst s'. induction Hd as [X tX i D Hn HX Hi HD|X Y D _ IH1 _ IH2]; intros HN; [congruence|auto].
  - destruct (p_apply_rec p own h bid s r) as [s1|e] eqn:E; [|discriminate].
    pose proof (p_apply_recs_shrinks _ _ _ _ _ _ _ H) as Sh.
    destruct (p_apply_rec_closed _ _ _ _ _ _ _ E) as (Cl1 & _).
    induction Hd as [X tX i D Hn HX Hi HD|X Y D _ IH1 _ IH2]; intros HN; [|auto].
    destruct (pend s1 X) as [v|] eqn:E1.
    + assert (Ev : v = USer tX).
      { pose proof (proj1 (proj1 (p_apply_rec_settles _ _ _ _ _ _ _ E)) X v E1) as E0. unfold pend in HX. congruence. }
      subst v. destruct (pend s1 D) as [vD|] eqn:ED; [|exact (shrinks_none s1 s' D Sh ED)].
      apply (IH s1 s' H X D); [|exact HN].
      apply (cdesc_child s1 _ X tX i D); [intros Hin; apply Hn; right; exact Hin|exact E1|exact Hi|].
      apply (flag_kept_by_mined_record _ _ _ _ _ _ _ E (X, i) D HD). rewrite ED. discriminate.
    + apply (shrinks_none s1 s' D Sh). apply (Cl1 X D); [|exact E1].
      apply (cdesc_child s _ X tX i D); [intros ->; apply Hn; left; reflexivity|exact HX|exact Hi|exact HD].
Qed.

Lemma p_apply_recs_cleared :
  forall p own h bid recs s s', p_apply_recs p own h bid s recs = POk s' ->
    forall X tX o, ~ In X (rec_ids recs) -> pend s X = Some (USer tX) -> pend s' X = None -> In o (t_ins tX) ->
      ~ In X (ui_get (ps_uinputs s') o).
Proof.
  intros p own h bid recs. induction recs as [|r recs IH]; intros s s' H X tX o Hn HX HN Ho; cbn [p_apply_recs] in H.
  - inversion H; subst s'. congruence.
  - destruct (p_apply_rec p own h bid s r) as [s1|e] eqn:E; [|discriminate].
    destruct (pend s1 X) as [v|] eqn:E1.
    + assert (Ev : v = USer tX).
      { pose proof (proj1 (proj1 (p_apply_rec_settles _ _ _ _ _ _ _ E)) X v E1) as E0. unfold pend in HX. congruence. }
      subst v. apply (IH s1 s' H X tX o); [intros Hin; apply Hn; right; exact Hin|exact E1|exact HN|exact Ho].
    + destruct (p_apply_rec_closed _ _ _ _ _ _ _ E) as (_ & Clr).
      intros Hin. apply (Clr X tX o); [intros ->; apply Hn; left; reflexivity|exact HX|exact E1|exact Ho|].
      apply (proj2 (proj2 (p_apply_recs_shrinks _ _ _ _ _ _ _ H))). exact Hin.
Qed.

Lemma p_apply_recs_conflict :
  forall S p own h bid recs s s', ids_agree_on S -> (forall r, In r recs -> In (rr_tx r) S) ->
    (forall r ri, In r recs -> In ri (rr_ins r) ->
        exists pt, In pt S /\ t_id pt = fst (ri_prev ri) /\ wallet_out own pt (snd (ri_prev ri))) ->
    sinv S own s -> p_apply_recs p own h bid s recs = POk s' ->
    forall X tX r ri, pend s X = Some (USer tX) -> ~ In X (rec_ids recs) ->
      In r recs -> In ri (rr_ins r) -> In (ri_prev ri) (t_ins tX) -> pend s' X = None.
Proof.
  intros S p own h bid recs s s' Hid. revert s s'.
  induction recs as [|r0 recs IH]; intros s s' HrS Hw Hs H X tX r ri HX Hn Hr Hri Hsp; [destruct Hr|].
  cbn [p_apply_recs] in H. destruct (p_apply_rec p own h bid s r0) as [s1|e] eqn:E; [|discriminate].
  pose proof (p_apply_recs_shrinks _ _ _ _ _ _ _ H) as Sh.
  destruct (pend s1 X) as [v|] eqn:E1; [|exact (shrinks_none s1 s' X Sh E1)].
  assert (Ev : v = USer tX).
  { pose proof (proj1 (proj1 (p_apply_rec_settles _ _ _ _ _ _ _ E)) X v E1) as E0. unfold pend in HX. congruence. }
  subst v. destruct Hr as [<-|Hr].
  - exfalso. destruct (Hw r0 ri (or_introl eq_refl) Hri) as [pt [Hpt [Hptid Hwo]]].
    assert (Hreg : In X (ui_get (ps_uinputs s) (ri_prev ri))) by (eapply sinv_registered; eauto).
    rewrite (p_apply_rec_conflict _ _ _ _ _ _ _ E X ri) in E1; [discriminate| |exact Hri|exact Hreg].
    intros ->. apply Hn. left. reflexivity.
  - exact (IH s1 s' (fun r1 H1 => HrS r1 (or_intror H1)) (fun r1 ri1 H1 => Hw r1 ri1 (or_intror H1))
               (p_apply_rec_sinv _ _ _ _ _ _ _ _ (HrS r0 (or_introl eq_refl)) Hs E) H X tX r ri E1
               (fun Hin => Hn (or_intror Hin)) Hr Hri Hsp).
Qed.

(* ---- a block *)

(* what the theorem concludes about a pending transaction X (body tX) of the state s before the block *)
Definition vanished (s s' : pstate) (confirmed : N -> Prop) (X : N) (tX : tx) : Prop :=
  pend s' X = None /\
  (forall D, cdesc s confirmed X D -> pend s' D = None) /\
  (forall o, In o (t_ins tX) -> ~ In X (ui_get (ps_uinputs s') o)) /\
  (forall o, In o (t_ins tX) -> (forall sp, In sp (ui_get (ps_uinputs s) o) -> sp = X) -> spent_by_unmined s' o = false) /\
  shrinks s s'.

(* filterBlock + AddRelevantTx for every relevant record; [s0] is the committed state the look-up reads
   (the state before processConnectedBlock; s = s0 unless blocks were rolled back first) *)
Theorem connect_block_conflict :
  forall S p own n s0 s b s' ids recs,
    ids_agree_on S -> node_in S n -> (forall t, In t (b_txs b) -> In t S) -> sinv S own s0 -> sinv S own s ->
    filter_block_txs own (credits (ps_w s)) (lookup_pending n (ps_unmined s0)) [] (b_txs b) = Ok recs ->
    p_connect_block p own n (ps_unmined s0) s b = POk (s', ids) ->
    ids = rec_ids recs /\
    forall X tX r ri, pend s X = Some (USer tX) -> ~ In X ids ->
      In r recs -> In ri (rr_ins r) -> In (ri_prev ri) (t_ins tX) ->
      vanished s s' (fun k => In k ids) X tX.
Proof.
  intros S p own n s0 s b s' ids recs Hid Hn Hb Hs0 Hs Hrecs H. unfold p_connect_block in H. rewrite Hrecs in H.
  destruct (p_apply_recs p own (b_height b) (b_id b) s recs) as [s1|e] eqn:E1; [|discriminate].
  inversion H; subst s' ids. split; [reflexivity|]. fold (rec_ids recs).
  intros X tX r ri HX Hni Hr Hri Hsp.
  set (s' := set_w s1 {| credits := credits (ps_w s1); synced := (b_height b, b_id b) :: synced (ps_w s1) |}).
  assert (Ep : forall k, pend s' k = pend s1 k) by reflexivity.
  assert (Eu : ps_uinputs s' = ps_uinputs s1) by reflexivity.
  assert (HrS : forall r0, In r0 recs -> In (rr_tx r0) S).
  { intros r0 H0. apply Hb. eapply filter_block_txs_in; eauto. }
  assert (Hw : forall r0 ri0, In r0 recs -> In ri0 (rr_ins r0) ->
             exists pt, In pt S /\ t_id pt = fst (ri_prev ri0) /\ wallet_out own pt (snd (ri_prev ri0))).
  { intros r0 ri0 H0 Hri0. destruct (filter_block_txs_sound _ _ _ _ _ _ Hrecs r0 ri0 H0 Hri0) as [_ [pt [[[A1 A2]|A] W]]].
    - exists pt. split; [apply Hb; exact A1|]. split; [exact A2|exact W].
    - destruct (lookup_pending_in S own n s0 _ pt Hn Hs0 A) as [B1 B2]. exists pt. split; [exact B2|]. split; [exact B1|exact W]. }
  pose proof (p_apply_recs_conflict S p own _ _ recs s s1 Hid HrS Hw Hs E1 X tX r ri HX Hni Hr Hri Hsp) as HN.
  pose proof (p_apply_recs_shrinks _ _ _ _ _ _ _ E1) as Sh.
  assert (Hclr : forall o, In o (t_ins tX) -> ~ In X (ui_get (ps_uinputs s') o)).
  { intros o Ho. rewrite Eu. exact (p_apply_recs_cleared _ _ _ _ _ _ _ E1 X tX o Hni HX HN Ho). }
  split; [rewrite Ep; exact HN|]. split; [|split; [exact Hclr|split; [|exact Sh]]].
  - intros D Hd. rewrite Ep. exact (p_apply_recs_closed _ _ _ _ _ _ _ E1 X D Hd HN).
  - intros o Ho Hsole. unfold spent_by_unmined. destruct (ui_get (ps_uinputs s') o) as [|sp rest] eqn:Eg; [reflexivity|].
    exfalso. assert (Hin : In sp (ui_get (ps_uinputs s') o)) by (rewrite Eg; left; reflexivity).
    pose proof Hin as Hin0. rewrite Eu in Hin0. apply (proj2 (proj2 Sh)) in Hin0. apply Hsole in Hin0. subst sp.
    exact (Hclr o Ho Hin).
Qed.

(* "D spends a wallet output of the pending transaction X": then D is a registered child of X *)
Lemma wallet_child_registered :
  forall S own s (avoid : N -> Prop) X tX D tD i,
    sinv S own s -> ids_agree_on S ->
    pend s X = Some (USer tX) -> pend s D = Some (USer tD) -> In (X, i) (t_ins tD) -> wallet_out own tX i -> ~ avoid X ->
    cdesc s avoid X D.
Proof.
  intros S own s avoid X tX D tD i Hs Hid HX HD Hin Hw Hna.
  destruct (sv_pend _ _ _ Hs X tX HX) as [Eid HXS].
  apply (cdesc_child s avoid X tX i D Hna HX).
  - destruct Hw as [out [Hn _]]. unfold out_indexes.
    assert (Hlt : (N.to_nat i < length (t_outs tX))%nat) by (apply nth_error_Some; rewrite Hn; discriminate).
    rewrite <- (N2Nat.id i). apply in_map. apply in_seq. lia.
  - apply (sinv_registered S own s Hs Hid D tD (X, i) tX HD Hin HXS Eid Hw).
Qed.

(* ---- item 3: histories *)

(* processConnectedBlock for a block that extends the wallet's tip is filterBlock + the records *)
Lemma pprocess_extend :
  forall p a3fix own n hs b hs',
    (snd (tip (ps_w (h_store hs))) =? b_prev b)%N = true ->
    pprocess p a3fix own n hs b = POk hs' ->
    exists ids, p_connect_block p own n (ps_unmined (h_store hs)) (h_store hs) b = POk (h_store hs', ids).
Proof.
  intros p a3fix own n hs b hs' Ht H. unfold pprocess in H. rewrite Ht in H. cbn [p_connect_all] in H.
  destruct (node_at n (b_height b)) as [nb|]; [|discriminate].
  destruct (negb (b_id nb =? b_id b)%N); [discriminate|].
  destruct (p_connect_block p own n (ps_unmined (h_store hs)) (h_store hs) b) as [[s1 ids]|e]; [|discriminate].
  inversion H; subst hs'. exists ids. reflexivity.
Qed.

(* Item 3.  In every state s a history reaches: when filterBlock + AddRelevantTx of a block b succeed, every
   readable pending transaction X of s that is not itself confirmed by b and spends an outpoint which a
   relevant transaction of b spends as a wallet input (ri in the record filterBlock makes for it) is no longer
   pending; nor are its registered descendants (through transactions b does not confirm); X is registered
   under none of its inputs any more, and an input only X was registered under is no longer flagged. *)
Theorem conflict_vanishes_history :
  forall p a3fix g h b, powners_before_seen g h -> seen_ids_agree g (h ++ [PvProcess b]) ->
    let q := prun p a3fix g h in
    let s := h_store (q_h q) in
    let own := own_of (q_own q) in
    forall recs s' ids,
      filter_block_txs own (credits (ps_w s)) (lookup_pending (q_node q) (ps_unmined s)) [] (b_txs b) = Ok recs ->
      p_connect_block p own (q_node q) (ps_unmined s) s b = POk (s', ids) ->
      forall X tX r ri, pend s X = Some (USer tX) -> ~ In X ids ->
        In r recs -> In ri (rr_ins r) -> In (ri_prev ri) (t_ins tX) ->
        vanished s s' (fun k => In k ids) X tX.
Proof.
  intros p a3fix g h b Hown Hids q s own recs s' ids Hrecs Hc.
  destruct (prun_qinv p a3fix g h Hown) as [Hn Hs].
  set (S' := b_txs g ++ seen_txs (h ++ [PvProcess b])).
  assert (Hinc : incl (b_txs g ++ seen_txs h) S').
  { unfold S'. rewrite seen_txs_app, app_assoc. apply incl_appl. apply incl_refl. }
  assert (Hb : forall t, In t (b_txs b) -> In t S').
  { intros t Ht. unfold S'. rewrite seen_txs_app. apply in_or_app. right. apply in_or_app. right.
    cbn [seen_txs flat_map]. rewrite app_nil_r. exact Ht. }
  assert (Hn' : node_in S' (q_node q)) by (intros b0 t0 Hb0 Ht0; apply Hinc; exact (Hn b0 t0 Hb0 Ht0)).
  assert (Hs' : sinv S' own s) by (eapply sinv_mono; [exact Hinc|exact Hs]).
  exact (proj2 (connect_block_conflict S' p own (q_node q) s s b s' ids recs Hids Hn' Hb Hs' Hs' Hrecs Hc)).
Qed.

(* the same for processConnectedBlock when the block extends the wallet's tip *)
Theorem conflict_vanishes_process :
  forall p a3fix g h b, powners_before_seen g h -> seen_ids_agree g (h ++ [PvProcess b]) ->
    let q := prun p a3fix g h in
    let s := h_store (q_h q) in
    let own := own_of (q_own q) in
    forall hs', (snd (tip (ps_w s)) =? b_prev b)%N = true ->
      pprocess p a3fix own (q_node q) (q_h q) b = POk hs' ->
      exists recs,
        filter_block_txs own (credits (ps_w s)) (lookup_pending (q_node q) (ps_unmined s)) [] (b_txs b) = Ok recs /\
        forall X tX r ri, pend s X = Some (USer tX) -> ~ In X (rec_ids recs) ->
          In r recs -> In ri (rr_ins r) -> In (ri_prev ri) (t_ins tX) ->
          vanished s (h_store hs') (fun k => In k (rec_ids recs)) X tX.
Proof.
  intros p a3fix g h b Hown Hids q s own hs' Ht Hp.
  destruct (pprocess_extend _ _ _ _ _ _ _ Ht Hp) as [ids Hc]. fold s in Hc.
  destruct (filter_block_txs own (credits (ps_w s)) (lookup_pending (q_node q) (ps_unmined s)) [] (b_txs b)) as [recs|e] eqn:Er.
  - exists recs. split; [reflexivity|].
    assert (Eids : ids = rec_ids recs).
    { unfold p_connect_block in Hc. rewrite Er in Hc.
      destruct (p_apply_recs p own (b_height b) (b_id b) s recs); [|discriminate]. inversion Hc. reflexivity. }
    subst ids. exact (conflict_vanishes_history p a3fix g h b Hown Hids recs (h_store hs') (rec_ids recs) Er Hc).
  - unfold p_connect_block in Hc. rewrite Er in Hc. discriminate.
Qed.

(* the descendants in the sense of the property: a pending D that spends a wallet output of a pending X is
   a registered child of X in every reachable state *)
Theorem wallet_child_registered_history :
  forall p a3fix g h, powners_before_seen g h -> seen_ids_agree g h ->
    let q := prun p a3fix g h in
    let s := h_store (q_h q) in
    forall (avoid : N -> Prop) X tX D tD i,
      pend s X = Some (USer tX) -> pend s D = Some (USer tD) -> In (X, i) (t_ins tD) ->
      wallet_out (own_of (q_own q)) tX i -> ~ avoid X -> cdesc s avoid X D.
Proof.
  intros p a3fix g h Hown Hids q s avoid X tX D tD i HX HD Hin Hw Hna.
  destruct (prun_qinv p a3fix g h Hown) as [_ Hs].
  exact (wallet_child_registered _ _ s avoid X tX D tD i Hs Hids HX HD Hin Hw Hna).
Qed.

(* ================================================================ D. the credits of the store; checkable premises *)

Require Import MW.Ledger.Proofs MW.Ledger.Proofs5 MW.Ledger.PendingProofs2.

(* every credit of the ledger of a chain is a wallet output of a transaction of the chain *)
Lemma credit_of_chain_wallet_out :
  forall p own c cr, In cr (credits (L p own c)) ->
    exists b P, In b c /\ In P (b_txs b) /\ t_id P = c_tx cr /\ wallet_out own P (c_vout cr).
Proof.
  intros p own c cr H. cbn [L credits] in H. unfold E in H. apply in_mkE in H. destruct H as [k [Hk ->]].
  unfold coins_l in Hk. apply in_flat_map in Hk. destruct Hk as [x [Hx Hk]].
  unfold ptxs in Hx. apply in_flat_map in Hx. destruct Hx as [b [Hb Hx]].
  unfold ptxs_of_block in Hx. apply in_map_iff in Hx. destruct Hx as [P [<- HP]].
  unfold coins_pt in Hk. cbn [pt_tx pt_h pt_bid fst snd] in Hk.
  destruct (coins_of_outs_in _ _ _ _ _ _ _ Hk) as (E1 & _ & _ & j & o & Hj & Hv & Ho).
  exists b, P. split; [exact Hb|]. split; [exact HP|]. cbn [mk_credit c_tx c_vout]. split; [symmetry; exact E1|].
  exists o. rewrite Hv. replace (0 + N.of_nat j)%N with (N.of_nat j) by lia. rewrite Nat2N.id.
  split; [exact Hj|]. unfold out_owner in Ho. destruct (o_class o) eqn:Ec; try discriminate; (split; [discriminate|rewrite Ho; discriminate]).
Qed.

Lemma pblocks_seen : forall h b t, In b (pblocks_of_history h) -> In t (b_txs b) -> In t (seen_txs h).
Proof.
  intros h b t Hb Ht. unfold pblocks_of_history in Hb. apply in_flat_map in Hb. destruct Hb as [e [He Hb]].
  unfold seen_txs. apply in_flat_map. exists e. split; [exact He|].
  destruct e as [sh w|b0| |b0|t0|]; try (destruct Hb; fail); destruct Hb as [<-|[]]; exact Ht.
Qed.

(* item 2 for the coins of the store: in every state a well-formed history reaches, every credit of the
   ledger that a readable pending transaction spends is registered under it: the coin is reported
   spent_by_unmined and is not eligible for new transactions *)
Theorem registered_complete_credits :
  forall p a3fix g h, wf_phistory g h -> powners_before_seen g h -> seen_ids_agree g h ->
    let s := h_store (q_h (prun p a3fix g h)) in
    forall X tX c, pend s X = Some (USer tX) -> In c (credits (ps_w s)) -> In (credit_op c) (t_ins tX) ->
      In X (ui_get (ps_uinputs s) (credit_op c)) /\ spent_by_unmined s (credit_op c) = true /\ eligible s c = false.
Proof.
  intros p a3fix g h Hwf Hown Hids s X tX c HX Hc Hin.
  assert (Hwf' : wf_phistory g (h ++ [])) by (rewrite app_nil_r; exact Hwf).
  destruct (history_store_inv p a3fix g h [] Hwf') as (ch & _ & _ & Hinc & (Hw & _ & _)). rewrite app_nil_r in Hinc.
  fold s in Hw. rewrite Hw in Hc.
  destruct (credit_of_chain_wallet_out _ _ _ _ Hc) as (b & P & Hb & HP & Hid & Hwo).
  assert (HPS : In P (b_txs g ++ seen_txs h)).
  { apply Hinc in Hb. destruct Hb as [<-|Hb]; apply in_or_app; [left; exact HP|right; eapply pblocks_seen; eauto]. }
  destruct (registered_complete p a3fix g h Hown Hids X tX (credit_op c) P HX Hin HPS Hid Hwo) as [R F].
  split; [exact R|]. split; [exact F|]. apply eligible_not_flagged. exact F.
Qed.

(* ---- boolean checks of the two premises, for concrete histories *)

Fixpoint powners_before_seen_go (A : list tx) (h : list pevent) : bool :=
  match h with
  | [] => true
  | PvOwner sh w :: r => forallb (fun t => forallb (fun o => negb (o_sh o =? sh)%N) (t_outs t)) A && powners_before_seen_go A r
  | e :: r => powners_before_seen_go (A ++ seen_txs [e]) r
  end.

Lemma powners_before_seen_go_sound :
  forall h A, powners_before_seen_go A h = true ->
    forall h1 sh w h2, h = h1 ++ PvOwner sh w :: h2 -> forall t, In t (A ++ seen_txs h1) -> ~ tx_pays t sh.
Proof.
  induction h as [|e r IH]; intros A Hgo h1 sh w h2 Hh t Ht Hpays; [destruct h1; discriminate|].
  destruct h1 as [|e1 h1].
  - cbn [app] in Hh. inversion Hh. subst e r. cbn [powners_before_seen_go] in Hgo.
    apply andb_true_iff in Hgo. destruct Hgo as [Hgo _]. rewrite forallb_forall in Hgo.
    cbn [seen_txs flat_map] in Ht. rewrite app_nil_r in Ht. specialize (Hgo t Ht). rewrite forallb_forall in Hgo.
    destruct Hpays as [o [Ho Hsh]]. specialize (Hgo o Ho). rewrite Hsh, N.eqb_refl in Hgo. discriminate.
  - cbn [app] in Hh. inversion Hh. subst e1 r.
    assert (Hnext : powners_before_seen_go (A ++ seen_txs [e]) (h1 ++ PvOwner sh w :: h2) = true -> False).
    { intros Hgo'. apply (IH _ Hgo' h1 sh w h2 eq_refl t); [|exact Hpays].
      change (e :: h1) with ([e] ++ h1) in Ht. rewrite seen_txs_app, app_assoc in Ht. exact Ht. }
    destruct e as [sh' w'|b'| |b'|t'|]; cbn [powners_before_seen_go] in Hgo; try (exact (Hnext Hgo)).
    apply andb_true_iff in Hgo. destruct Hgo as [_ Hgo]. apply Hnext.
    cbn [seen_txs flat_map]. rewrite app_nil_r. exact Hgo.
Qed.

Definition powners_before_seen_b (g : block) (h : list pevent) : bool := powners_before_seen_go (b_txs g) h.

Theorem powners_before_seen_b_sound : forall g h, powners_before_seen_b g h = true -> powners_before_seen g h.
Proof. intros g h H h1 sh w h2 Hh t Ht. exact (powners_before_seen_go_sound h (b_txs g) H h1 sh w h2 Hh t Ht). Qed.

Definition ids_agree_on_b (S : list tx) : bool :=
  forallb (fun t1 => forallb (fun t2 => implb (t_id t1 =? t_id t2)%N (tx_eqb t1 t2)) S) S.

Lemma ids_agree_on_b_sound : forall S, ids_agree_on_b S = true -> ids_agree_on S.
Proof.
  intros S H t1 t2 H1 H2 Hid. unfold ids_agree_on_b in H. rewrite forallb_forall in H.
  specialize (H t1 H1). rewrite forallb_forall in H. specialize (H t2 H2).
  apply N.eqb_eq in Hid. rewrite Hid in H. cbn [implb] in H. apply tx_eqb_sound. exact H.
Qed.

Definition seen_ids_agree_b (g : block) (h : list pevent) : bool := ids_agree_on_b (b_txs g ++ seen_txs h).

Theorem seen_ids_agree_b_sound : forall g h, seen_ids_agree_b g h = true -> seen_ids_agree g h.
Proof. intros g h H. apply ids_agree_on_b_sound. exact H. Qed.

(* ================================================================ E. every registration belongs to a pending spender *)

(* the converse of [sv_regd]: whatever is registered under an outpoint is a readable pending transaction
   that spends it (Rollback storing the serialized transaction, a3fix = true) *)
Definition ginv (s : pstate) : Prop :=
  forall o sp, In sp (ui_get (ps_uinputs s) o) -> exists t, pend s sp = Some (USer t) /\ In o (t_ins t).

Lemma fold_append_inv :
  forall (A : Type) (f : A -> outp) (h : N) (xs : list A) ui o sp,
    In sp (ui_get (fold_left (fun ui1 x => ui_append ui1 (f x) h) xs ui) o) ->
    In sp (ui_get ui o) \/ (sp = h /\ exists x, In x xs /\ f x = o).
Proof.
  intros A f h xs. induction xs as [|x xs IH]; intros ui o sp H; cbn [fold_left] in H; [left; exact H|].
  destruct (IH _ _ _ H) as [H1|[E [y [Hy Ey]]]].
  - rewrite ui_get_append in H1. destruct (op_eqb (f x) o) eqn:Eo; [|left; exact H1].
    apply op_eqb_eq in Eo. apply in_app_or in H1. destruct H1 as [H1|[<-|[]]].
    + left. rewrite <- Eo. exact H1.
    + right. split; [reflexivity|]. exists x. split; [left; reflexivity|exact Eo].
  - right. split; [exact E|]. exists y. split; [right; exact Hy|exact Ey].
Qed.

Lemma receive_store_ginv :
  forall p own n s t s', ginv s -> receive_store p own n s t = POk (Some s') -> ginv s'.
Proof.
  intros p own n s t s' Hg H.
  destruct (receive_store_shape _ _ _ _ _ _ H) as (Ecb & ins & Eins & Hsh). cbv zeta in Hsh.
  destruct Hsh as (_ & _ & _ & Eu & Ei).
  destruct (um_get (ps_unmined s) (t_id t)) as [v|] eqn:Eg.
  { intros o sp Hsp. unfold pend. rewrite Eu. rewrite Ei in Hsp. exact (Hg o sp Hsp). }
  destruct (tx_recorded s (t_id t)).
  { intros o sp Hsp. unfold pend. rewrite Eu. rewrite Ei in Hsp. exact (Hg o sp Hsp). }
  intros o sp Hsp. rewrite Ei in Hsp. unfold inserted in Hsp. cbn [ps_uinputs set_uinputs set_unmined] in Hsp.
  assert (Ep : forall k, pend s' k = if (t_id t =? k)%N then Some (USer t) else pend s k).
  { intros k. unfold pend. rewrite Eu. unfold inserted. cbn [ps_unmined set_uinputs set_unmined]. apply um_get_put. }
  rewrite Ep. destruct (fold_append_inv rel_in ri_prev _ _ _ _ _ Hsp) as [H1|[E [ri [Hri Eri]]]].
  - destruct (Hg o sp H1) as [tsp [Hp Ho]]. destruct (t_id t =? sp)%N eqn:Es.
    + apply N.eqb_eq in Es. subst sp. unfold pend in Hp. rewrite Eg in Hp. discriminate.
    + exists tsp. split; assumption.
  - subst sp. rewrite N.eqb_refl. exists t. split; [reflexivity|]. rewrite <- Eri.
    eapply filter_ins_unmined_prev; eauto.
Qed.

Lemma rollback_tx_uinputs :
  forall a3fix cs h bid s ops t s' ops',
    rollback_tx a3fix cs h bid (POk (s, ops)) t = POk (s', ops') ->
    ps_uinputs s' = if t_cb t then ps_uinputs s
                    else fold_left (fun ui o => ui_append ui o (t_id t)) (t_ins t) (ps_uinputs s).
Proof.
  intros a3fix cs h bid s ops t s' ops' H. unfold rollback_tx in H.
  destruct (t_cb t) eqn:Ecb; [inversion H; subst; reflexivity|].
  match type of H with (match unwithdraw_ins cs (ps_game ?S2) _ _ _ with _ => _ end) = _ => set (s2 := S2) in * end.
  destruct (unwithdraw_ins cs (ps_game s2) (t_id t) h (map N.of_nat (seq 0 (length (t_ins t))))) as [g|e]; [|discriminate].
  inversion H; subst s' ops'.
  destruct (rollback_credit_fold_frame h (credits_at cs (t_id t) h bid) (set_game s2 g)) as (A & _).
  cbv zeta in A. exact A.
Qed.

Lemma rollback_tx_ginv :
  forall S own cs h bid s ops t s' ops', ids_agree_on S -> In t S -> sinv S own s -> ginv s ->
    rollback_tx true cs h bid (POk (s, ops)) t = POk (s', ops') -> ginv s'.
Proof.
  intros S own cs h bid s ops t s' ops' Hid Ht Hs Hg H.
  destruct (rollback_tx_effect _ _ _ _ _ _ _ _ _ H) as (U & _ & _).
  pose proof (rollback_tx_uinputs _ _ _ _ _ _ _ _ _ H) as Eu.
  intros o sp Hsp. rewrite Eu in Hsp. unfold pend. rewrite U.
  destruct (t_cb t); [exact (Hg o sp Hsp)|]. cbn [pending_value_of_rolled_back].
  destruct (fold_append_inv outp (fun x => x) _ _ _ _ _ Hsp) as [H1|[E [x [Hx Ex]]]].
  - destruct (Hg o sp H1) as [tsp [Hp Ho]]. destruct (t_id t =? sp)%N eqn:Es; [|exists tsp; split; assumption].
    apply N.eqb_eq in Es. exists t. split; [reflexivity|].
    destruct (sv_pend _ _ _ Hs sp tsp Hp) as [Eid HinS].
    rewrite (Hid t tsp Ht HinS) by congruence. exact Ho.
  - subst sp x. rewrite N.eqb_refl. exists t. split; [reflexivity|exact Hx].
Qed.

Lemma rollback_fold_ginv :
  forall S own cs h bid txs s ops s' ops', ids_agree_on S -> (forall t, In t txs -> In t S) -> sinv S own s -> ginv s ->
    fold_left (rollback_tx true cs h bid) txs (POk (s, ops)) = POk (s', ops') -> ginv s'.
Proof.
  intros S own cs h bid txs. induction txs as [|t txs IH]; intros s ops s' ops' Hid Ht Hs Hg H; cbn [fold_left] in H.
  - inversion H; subst. exact Hg.
  - destruct (rollback_tx true cs h bid (POk (s, ops)) t) as [[sm opsm]|e] eqn:E;
      [|rewrite fold_rollback_err in H; discriminate].
    apply (IH sm opsm s' ops' Hid); [intros t0 H0; apply Ht; right; exact H0| | |exact H].
    + eapply rollback_tx_sinv; [apply Ht; left; reflexivity|exact Hs|exact E].
    + eapply rollback_tx_ginv; [exact Hid|apply Ht; left; reflexivity|exact Hs|exact Hg|exact E].
Qed.

(* a conflict-removal step *)
Lemma bundle_ginv : forall s s', bundle s s' -> ginv s -> ginv s'.
Proof.
  intros s s' (Sh & _ & _ & Clr) Hg o sp Hsp.
  destruct (Hg o sp (proj2 (proj2 Sh) o sp Hsp)) as [t [Hp Ho]].
  destruct (pend s' sp) as [v|] eqn:E.
  - exists t. split; [|exact Ho]. pose proof (proj1 Sh sp v E) as E0. unfold pend in Hp. congruence.
  - exfalso. exact (Clr sp t o Hp E Ho Hsp).
Qed.

Lemma p_rollback_one_ginv :
  forall S own cs s h s', ids_agree_on S -> sinv S own s -> ginv s ->
    p_rollback_one true own cs s h = POk s' -> ginv s'.
Proof.
  intros S own cs s h s' Hid Hs Hg H. unfold p_rollback_one in H.
  destruct (find (fun r => br_height r =? h) (ps_blocks s)) as [r|] eqn:Ef; [|inversion H; subst; exact Hg].
  apply find_some in Ef. destruct Ef as [Hr _].
  destruct (rollback_move true cs s r) as [[s1 cbops]|e] eqn:Em; [|discriminate].
  assert (G1 : ginv s1).
  { unfold rollback_move in Em. apply (rollback_fold_ginv S own cs (br_height r) (br_bid r) (rev (br_txs r)) s [] s1 cbops Hid); [|exact Hs|exact Hg|exact Em].
    intros t Ht. apply in_rev in Ht. exact (sv_blocks _ _ _ Hs r t Hr Ht). }
  set (s1' := set_blocks s1 (filter (fun x => negb (br_height x =? h)) (ps_blocks s1))) in *.
  pose proof (purge_coinbase_bundle own cbops s1') as F. rewrite H in F. cbn [okp] in F.
  apply (bundle_ginv s1' s' F). exact G1.
Qed.

Lemma p_rollback_to_ginv :
  forall S own s h s', ids_agree_on S -> sinv S own s -> ginv s -> p_rollback_to true own s h = POk s' -> ginv s'.
Proof.
  intros S own s h s' Hid Hs Hg H. unfold p_rollback_to in H.
  assert (G : forall ks acc s2, okp (fun x => sinv S own x /\ ginv x) acc ->
            fold_left (fun (acc : pres pstate) (k : Z) =>
                         match acc with PErr e => PErr e | POk s1 => p_rollback_one true own (credits (ps_w s)) s1 k end) ks acc = POk s2 ->
            ginv s2).
  { induction ks as [|k ks IH]; intros acc s2 Hacc Hf; cbn [fold_left] in Hf.
    - subst acc. exact (proj2 Hacc).
    - apply (IH _ s2) in Hf; [exact Hf|]. destruct acc as [s1|e]; [|exact I]. cbn [okp] in Hacc.
      destruct (p_rollback_one true own (credits (ps_w s)) s1 k) as [s3|e] eqn:E; [|exact I].
      cbn [okp]. split; [eapply p_rollback_one_sinv; [exact (proj1 Hacc)|exact E]|eapply p_rollback_one_ginv; [exact Hid|exact (proj1 Hacc)|exact (proj2 Hacc)|exact E]]. }
  destruct (fold_left _ (heights_down (fst (tip (ps_w s))) h) (POk s)) as [s2|e] eqn:Ef; [|discriminate].
  inversion H; subst s'. exact (G _ (POk s) s2 (conj Hs Hg) Ef).
Qed.

Lemma remove_double_spends_unregisters_self :
  forall own s r s', remove_double_spends own s r = POk s' ->
    forall o, In o (t_ins (rr_tx r)) -> ~ In (t_id (rr_tx r)) (ui_get (ps_uinputs s') o).
Proof.
  intros own s r s' H o Ho. unfold remove_double_spends in H.
  destruct (fold_left _ (rr_ins r) (POk s)) as [s2|e]; [|discriminate].
  inversion H; subst s'. cbn [ps_uinputs set_uinputs]. apply del_inputs_unregisters. exact Ho.
Qed.

Lemma p_apply_rec_ginv :
  forall S p own h bid s r s', ids_agree_on S -> In (rr_tx r) S -> sinv S own s -> ginv s ->
    p_apply_rec p own h bid s r = POk s' -> ginv s'.
Proof.
  intros S p own h bid s r s' Hid Hr Hs Hg H.
  destruct (p_apply_rec_decomp _ _ _ _ _ _ _ H) as (sa & s2 & Pa & Ua & Er & P2 & U2).
  destruct (conflict_purges_descendants _ _ _ _ Er) as (_ & Clr & _ & Sh).
  intros o sp Hsp. rewrite U2 in Hsp. rewrite P2.
  pose proof (proj2 (proj2 Sh) o sp Hsp) as Hsa. rewrite Ua in Hsa.
  destruct (Hg o sp Hsa) as [t [Hp Ho]].
  destruct (N.eq_dec sp (t_id (rr_tx r))) as [->|Hne].
  - exfalso. destruct (sv_pend _ _ _ Hs _ t Hp) as [Eid HinS].
    assert (Et : t = rr_tx r) by (apply Hid; assumption). subst t.
    exact (remove_double_spends_unregisters_self _ _ _ _ Er o Ho Hsp).
  - assert (Hpa : pend sa sp = Some (USer t)).
    { rewrite Pa. destruct (t_id (rr_tx r) =? sp)%N eqn:E; [|exact Hp]. apply N.eqb_eq in E. congruence. }
    destruct (pend s2 sp) as [v|] eqn:E2.
    + exists t. split; [|exact Ho]. pose proof (proj1 Sh sp v E2) as E0. unfold pend in Hpa. congruence.
    + exfalso. exact (Clr sp t o Hpa E2 Ho Hsp).
Qed.

Lemma p_apply_recs_ginv :
  forall S p own h bid recs s s', ids_agree_on S -> (forall r, In r recs -> In (rr_tx r) S) -> sinv S own s -> ginv s ->
    p_apply_recs p own h bid s recs = POk s' -> ginv s'.
Proof.
  intros S p own h bid recs. induction recs as [|r recs IH]; intros s s' Hid Hr Hs Hg H; cbn [p_apply_recs] in H.
  - inversion H; subst. exact Hg.
  - destruct (p_apply_rec p own h bid s r) as [s1|e] eqn:E; [|discriminate].
    apply (IH s1 s' Hid); [intros r0 H0; apply Hr; right; exact H0| | |exact H].
    + eapply p_apply_rec_sinv; [apply Hr; left; reflexivity|exact Hs|exact E].
    + eapply p_apply_rec_ginv; [exact Hid|apply Hr; left; reflexivity|exact Hs|exact Hg|exact E].
Qed.

Lemma p_connect_block_ginv :
  forall S p own n cum s b s' ids, ids_agree_on S -> (forall t, In t (b_txs b) -> In t S) -> sinv S own s -> ginv s ->
    p_connect_block p own n cum s b = POk (s', ids) -> ginv s'.
Proof.
  intros S p own n cum s b s' ids Hid Hb Hs Hg H. unfold p_connect_block in H.
  destruct (filter_block_txs own (credits (ps_w s)) (lookup_pending n cum) [] (b_txs b)) as [recs|e] eqn:E; [|discriminate].
  destruct (p_apply_recs p own (b_height b) (b_id b) s recs) as [s1|e] eqn:E1; [|discriminate].
  inversion H; subst s' ids.
  assert (G1 : ginv s1).
  { apply (p_apply_recs_ginv S p own (b_height b) (b_id b) recs s s1 Hid); [|exact Hs|exact Hg|exact E1].
    intros r Hr. apply Hb. eapply filter_block_txs_in; eauto. }
  exact G1.
Qed.

Lemma p_connect_all_ginv :
  forall S p own n cum bs s s' added, ids_agree_on S -> (forall b t, In b bs -> In t (b_txs b) -> In t S) ->
    sinv S own s -> ginv s -> p_connect_all p own n cum s bs = POk (s', added) -> ginv s'.
Proof.
  intros S p own n cum bs. induction bs as [|b bs IH]; intros s s' added Hid Hb Hs Hg H; cbn [p_connect_all] in H.
  - inversion H; subst. exact Hg.
  - destruct (node_at n (b_height b)) as [nb|]; [|discriminate].
    destruct (negb (b_id nb =? b_id b)%N); [discriminate|].
    destruct (p_connect_block p own n cum s b) as [[s1 ids]|e] eqn:E; [|discriminate].
    destruct (p_connect_all p own n cum s1 bs) as [[s2 added2]|e] eqn:E2; [|discriminate].
    inversion H; subst s' added.
    assert (Hb0 : forall t0, In t0 (b_txs b) -> In t0 S) by (intros t0 Ht0; eapply Hb; [left; reflexivity|exact Ht0]).
    apply (IH s1 s2 added2 Hid); [intros b0 t0 H0; apply Hb; right; exact H0| | |exact E2].
    + eapply p_connect_block_sinv; [exact Hb0|exact Hs|exact E].
    + eapply p_connect_block_ginv; [exact Hid|exact Hb0|exact Hs|exact Hg|exact E].
Qed.

Theorem pprocess_ginv :
  forall S p own n hs b hs', ids_agree_on S -> node_in S n -> (forall t, In t (b_txs b) -> In t S) ->
    sinv S own (h_store hs) -> ginv (h_store hs) -> pprocess p true own n hs b = POk hs' -> ginv (h_store hs').
Proof.
  intros S p own n hs b hs' Hid Hn Hb Hs Hg H. unfold pprocess in H.
  destruct (snd (tip (ps_w (h_store hs))) =? b_prev b)%N.
  - destruct (p_connect_all p own n (ps_unmined (h_store hs)) (h_store hs) [b]) as [[s' added]|e] eqn:Ec; [|discriminate].
    inversion H; subst hs'. cbn [update_volatile h_store].
    apply (p_connect_all_ginv S p own n (ps_unmined (h_store hs)) [b] (h_store hs) s' added Hid); [|exact Hs|exact Hg|exact Ec].
    intros b0 t0 [<-|[]] Ht0. exact (Hb t0 Ht0).
  - destruct (collect n (ps_w (h_store hs)) (Datatypes.S (Z.to_nat (b_height b))) b []) as [[fork bs]|] eqn:Ecol; [|discriminate].
    destruct (p_rollback_to true own (h_store hs) (fork + 1)) as [s1|e] eqn:Er; [|discriminate].
    destruct (p_connect_all p own n (ps_unmined (h_store hs)) s1 bs) as [[s' added]|e] eqn:Ec; [|discriminate].
    inversion H; subst hs'. cbn [update_volatile h_store].
    apply (p_connect_all_ginv S p own n (ps_unmined (h_store hs)) bs s1 s' added Hid); [| | |exact Ec].
    + intros b0 t0 H0 Ht0. destruct (collect_in _ _ _ _ _ _ _ Ecol b0 H0) as [[]|[->|Hin]]; [exact (Hb t0 Ht0)|exact (Hn b0 t0 Hin Ht0)].
    + eapply p_rollback_to_sinv; eauto.
    + eapply p_rollback_to_ginv; eauto.
Qed.

(* along a history: S is the final universe (ids agree on it), S0 the transactions shown so far *)
Lemma prun_ginv_gen :
  forall p g S post pre q, ids_agree_on S -> incl (b_txs g ++ seen_txs (pre ++ post)) S ->
    powners_before_seen g (pre ++ post) ->
    qinv (b_txs g ++ seen_txs pre) q -> ginv (h_store (q_h q)) ->
    ginv (h_store (q_h (fold_left (pstep p true) post q))).
Proof.
  intros p g S post. induction post as [|e post IH]; intros pre q Hid Hinc Hown Hq Hg; cbn [fold_left]; [exact Hg|].
  replace (pre ++ e :: post) with ((pre ++ [e]) ++ post) in * by (rewrite <- app_assoc; reflexivity).
  assert (Hq1 : qinv (b_txs g ++ seen_txs (pre ++ [e])) (pstep p true q e)).
  { rewrite seen_txs_app, app_assoc. apply pstep_qinv; [|exact Hq].
    intros sh w -> t Ht. apply (Hown pre sh w post); [rewrite <- app_assoc; reflexivity|exact Ht]. }
  apply (IH (pre ++ [e]) (pstep p true q e) Hid Hinc Hown Hq1).
  assert (Hinc1 : incl (b_txs g ++ seen_txs (pre ++ [e])) S).
  { intros t Ht. apply Hinc. rewrite seen_txs_app, app_assoc. apply in_or_app. left. exact Ht. }
  assert (HqS : qinv S q).
  { eapply qinv_mono; [|exact Hq]. intros t Ht. apply Hinc1. rewrite seen_txs_app, app_assoc. apply in_or_app. left. exact Ht. }
  destruct HqS as [HnS HsS].
  destruct e as [sh w|b| |b|t|]; cbn [pstep q_h h_store]; try exact Hg.
  - unfold pprocess_or_keep.
    destruct (pprocess p true (own_of (q_own q)) (q_node q) (q_h q) b) as [hs'|err] eqn:Hp; [|exact Hg].
    apply (pprocess_ginv S p (own_of (q_own q)) (q_node q) (q_h q) b hs' Hid HnS); [|exact HsS|exact Hg|exact Hp].
    intros t0 Ht0. apply Hinc1. rewrite seen_txs_app. apply in_or_app. right. apply in_or_app. right.
    cbn [seen_txs flat_map]. rewrite app_nil_r. exact Ht0.
  - unfold receive_tx. destruct (mem_n (t_id t) (h_mempool (q_h q))); [exact Hg|].
    destruct (receive_store p (own_of (q_own q)) (q_node q) (h_store (q_h q)) t) as [[s'|]|err] eqn:E; cbn [fst h_store]; try exact Hg.
    eapply receive_store_ginv; eauto.
Qed.

Theorem prun_ginv :
  forall p g h, powners_before_seen g h -> seen_ids_agree g h -> ginv (h_store (q_h (prun p true g h))).
Proof.
  intros p g h Hown Hids. unfold prun.
  apply (prun_ginv_gen p g (b_txs g ++ seen_txs h) h [] (init_psim g) Hids (incl_refl _) Hown).
  - cbn [seen_txs flat_map]. rewrite app_nil_r. split.
    + intros b t [<-|[]] Ht. exact Ht.
    + constructor; [intros X tX H; discriminate|intros r t []|intros X tX o H; discriminate].
  - intros o sp [].
Qed.

(* item 3, last clause: after the block, an input of the vanished X is still flagged only if another
   transaction that is still pending spends it *)
Theorem conflict_frees_coins :
  forall p g h b, powners_before_seen g h -> seen_ids_agree g (h ++ [PvProcess b]) ->
    let q := prun p true g h in
    let s := h_store (q_h q) in
    let own := own_of (q_own q) in
    forall recs s' ids,
      filter_block_txs own (credits (ps_w s)) (lookup_pending (q_node q) (ps_unmined s)) [] (b_txs b) = Ok recs ->
      p_connect_block p own (q_node q) (ps_unmined s) s b = POk (s', ids) ->
      forall X tX r ri, pend s X = Some (USer tX) -> ~ In X ids ->
        In r recs -> In ri (rr_ins r) -> In (ri_prev ri) (t_ins tX) ->
        forall o, In o (t_ins tX) -> spent_by_unmined s' o = true ->
          exists Y tY, Y <> X /\ pend s' Y = Some (USer tY) /\ In o (t_ins tY) /\ pend s Y = Some (USer tY).
Proof.
  intros p g h b Hown Hids q s own recs s' ids Hrecs Hc X tX r ri HX Hni Hr Hri Hsp o Ho Hfl.
  pose proof (powners_before_seen_prefix g h [PvProcess b]) as Hpre.
  assert (Hids0 : seen_ids_agree g h) by (eapply seen_ids_agree_prefix; exact Hids).
  destruct (conflict_vanishes_history p true g h b Hown Hids recs s' ids Hrecs Hc X tX r ri HX Hni Hr Hri Hsp)
    as (HN & _ & Hclr & _ & Sh).
  destruct (prun_qinv p true g h Hown) as [Hn Hs].
  pose proof (prun_ginv p g h Hown Hids0) as Hg.
  set (S' := b_txs g ++ seen_txs (h ++ [PvProcess b])).
  assert (Hinc : incl (b_txs g ++ seen_txs h) S').
  { unfold S'. rewrite seen_txs_app, app_assoc. apply incl_appl. apply incl_refl. }
  assert (Hb : forall t, In t (b_txs b) -> In t S').
  { intros t Ht. unfold S'. rewrite seen_txs_app. apply in_or_app. right. apply in_or_app. right.
    cbn [seen_txs flat_map]. rewrite app_nil_r. exact Ht. }
  assert (Hs' : sinv S' own s) by (eapply sinv_mono; [exact Hinc|exact Hs]).
  pose proof (p_connect_block_ginv S' p own (q_node q) (ps_unmined s) s b s' ids Hids Hb Hs' Hg Hc) as Hg'.
  unfold spent_by_unmined in Hfl. destruct (ui_get (ps_uinputs s') o) as [|Y rest] eqn:Eg; [discriminate|].
  assert (HY : In Y (ui_get (ps_uinputs s') o)) by (rewrite Eg; left; reflexivity).
  destruct (Hg' o Y HY) as [tY [HpY HoY]].
  exists Y, tY. split; [intros ->; exact (Hclr o Ho HY)|]. split; [exact HpY|]. split; [exact HoY|].
  exact (proj1 Sh Y (USer tY) HpY).
Qed.

(* ================================================================ F. the premise on delivered transactions is needed *)

(* wf_phistory constrains blocks only.  P (20) spends the wallet coin (1,0) and pays script hash 2, which is
   nobody's yet; X (21) spends (20,0) and pays the wallet; both are delivered unconfirmed.  X is stored (it pays
   the wallet) but its input is not a wallet input at that moment, so it is not registered.  THEN address 2 is
   issued to the wallet, and P is mined: (20,0) becomes a coin of the store which the pending X spends, unflagged
   and selectable.  [powners_before_seen] excludes exactly this: an address paid (unconfirmed) before it is issued. *)
Module LateOwner.
  Definition p : params := {| p_cbmat := 1; p_bindlock := 4294967294 |}.
  Definition g : block := {| b_id := 0; b_prev := 0; b_height := 0; b_txs := [] |}.
  Definition cb (id : N) : tx := {| t_id := id; t_cb := true; t_ins := []; t_outs := [ {| o_sh := 1; o_val := 5; o_class := CStd |} ] |}.
  Definition P : tx := {| t_id := 20; t_cb := false; t_ins := [(1, 0)%N]; t_outs := [ {| o_sh := 2; o_val := 5; o_class := CStd |} ] |}.
  Definition X : tx := {| t_id := 21; t_cb := false; t_ins := [(20, 0)%N]; t_outs := [ {| o_sh := 1; o_val := 5; o_class := CStd |} ] |}.
  Definition b1 : block := {| b_id := 1; b_prev := 0; b_height := 1; b_txs := [cb 1] |}.
  Definition b2 : block := {| b_id := 2; b_prev := 1; b_height := 2; b_txs := [cb 2; P] |}.
  Definition evs : list pevent :=
    [PvOwner 1 1; PvAttach b1; PvProcess b1; PvReceive P; PvReceive X; PvOwner 2 1; PvAttach b2; PvProcess b2].
End LateOwner.

Theorem registered_complete_without_owner_premise_refuted :
  exists p g h X tX c,
    wf_phistory g h /\ seen_ids_agree g h /\ ~ powners_before_seen g h /\
    let s := h_store (q_h (prun p true g h)) in
    pend s X = Some (USer tX) /\ In c (credits (ps_w s)) /\ In (credit_op c) (t_ins tX) /\
    spent_by_unmined s (credit_op c) = false /\ eligible s c = true.
Proof.
  exists LateOwner.p, LateOwner.g, LateOwner.evs, 21%N, LateOwner.X,
    {| c_tx := 20; c_vout := 0; c_height := 2; c_bid := 2; c_amount := 5; c_sh := 2; c_wallet := 1;
       c_class := CStd; c_maturity := 0; c_spent := None |}.
  split; [apply wf_phistory_b_sound; vm_compute; reflexivity|].
  split; [apply seen_ids_agree_b_sound; vm_compute; reflexivity|].
  split.
  - intros H. apply (H [PvOwner 1 1; PvAttach LateOwner.b1; PvProcess LateOwner.b1; PvReceive LateOwner.P; PvReceive LateOwner.X] 2%N 1%N
                       [PvAttach LateOwner.b2; PvProcess LateOwner.b2] eq_refl LateOwner.P).
    + vm_compute. tauto.
    + exists {| o_sh := 2; o_val := 5; o_class := CStd |}. split; [left; reflexivity|reflexivity].
  - vm_compute. repeat split; try reflexivity. tauto. left. reflexivity.
Qed.
